import ArcaModel.Lemmas.Traverse
import ArcaModel.Lemmas.NoPanicRun
/-
  Equality of Go values up to the order of map entries AT EVERY DEPTH (`V.PermEq`), and the
  machinery to transport it through the schema operations (C12, deep order independence).

  A Go map is modelled as an association list whose order stands for Go's randomised iteration
  order. `v ≈ v'` (`V.PermEq v v'`) says: `v'` is `v` with the entries of every map, at every
  depth, visited in some other order. Lists keep their order; scalars, `bytes`, `named` wrappers are
  structural.
-/
namespace Arca
open Out

/-! ### generic list facts: `Forall2` and permutations -/

theorem Forall2.refl' {α} {R : α → α → Prop} (h : ∀ a, R a a) : ∀ (as : List α), Forall2 R as as
  | [] => .nil
  | a :: as => .cons (h a) (Forall2.refl' h as)

theorem Forall2.monoR {α β} {R S : α → β → Prop} {as : List α} {bs : List β}
    (h : Forall2 R as bs) (hi : ∀ a b, R a b → S a b) : Forall2 S as bs := by
  induction h with
  | nil => exact .nil
  | cons hab _ ih => exact .cons (hi _ _ hab) ih

theorem Forall2.flipR {α β} {R : α → β → Prop} {S : β → α → Prop} {as : List α} {bs : List β}
    (h : Forall2 R as bs) (hi : ∀ a b, R a b → S b a) : Forall2 S bs as := by
  induction h with
  | nil => exact .nil
  | cons hab _ ih => exact .cons (hi _ _ hab) ih

theorem Forall2.comp {α β γ} {R : α → β → Prop} {S : β → γ → Prop} {T : α → γ → Prop}
    {as : List α} {bs : List β} {cs : List γ}
    (h1 : Forall2 R as bs) (h2 : Forall2 S bs cs) (hi : ∀ a b c, R a b → S b c → T a c) : Forall2 T as cs := by
  induction h1 generalizing cs with
  | nil => cases h2; exact .nil
  | cons hab _ ih =>
    cases h2 with
    | cons hbc hrest => exact .cons (hi _ _ _ hab hbc) (ih hrest)

theorem Forall2.appendR {α β} {R : α → β → Prop} {as1 as2 : List α} {bs1 bs2 : List β}
    (h1 : Forall2 R as1 bs1) (h2 : Forall2 R as2 bs2) : Forall2 R (as1 ++ as2) (bs1 ++ bs2) := by
  induction h1 with
  | nil => exact h2
  | cons hab _ ih => exact .cons hab ih

theorem Forall2.append_inv {α β} {R : α → β → Prop} : ∀ {as1 as2 : List α} {bs : List β},
    Forall2 R (as1 ++ as2) bs → ∃ bs1 bs2, bs = bs1 ++ bs2 ∧ Forall2 R as1 bs1 ∧ Forall2 R as2 bs2
  | [], _, bs, h => ⟨[], bs, rfl, .nil, h⟩
  | a :: as1, as2, bs, h => by
    cases h with
    | cons hab hrest =>
      obtain ⟨b1, b2, rfl, h1, h2⟩ := Forall2.append_inv hrest
      exact ⟨_ :: b1, b2, rfl, .cons hab h1, h2⟩

/-- permuting the left list of a `Forall2` permutes the right list the same way -/
theorem Forall2.permL {α β} {R : α → β → Prop} {as as' : List α} {bs : List β}
    (h : Forall2 R as bs) (hp : as.Perm as') : ∃ bs', Forall2 R as' bs' ∧ bs.Perm bs' := by
  induction hp generalizing bs with
  | nil => cases h; exact ⟨[], .nil, .nil⟩
  | cons a _ ih =>
    cases h with
    | cons hab hrest =>
      obtain ⟨bs', h1, h2⟩ := ih hrest
      exact ⟨_ :: bs', .cons hab h1, .cons _ h2⟩
  | swap a a' l =>
    cases h with
    | cons h1 hrest =>
      cases hrest with
      | cons h2 hrest' => exact ⟨_ :: _ :: _, .cons h2 (.cons h1 hrest'), .swap _ _ _⟩
  | trans _ _ ih1 ih2 =>
    obtain ⟨bs1, h1, p1⟩ := ih1 h
    obtain ⟨bs2, h2, p2⟩ := ih2 h1
    exact ⟨bs2, h2, p1.trans p2⟩

/-- ... and the same for the right list -/
theorem Forall2.permR {α β} {R : α → β → Prop} {as : List α} {bs bs' : List β}
    (h : Forall2 R as bs) (hp : bs.Perm bs') : ∃ as', as.Perm as' ∧ Forall2 R as' bs' := by
  have h' : Forall2 (fun b a => R a b) bs as := h.flipR (fun _ _ x => x)
  obtain ⟨as', h1, h2⟩ := h'.permL hp
  exact ⟨as', h2, h1.flipR (fun _ _ x => x)⟩

theorem Forall2.filterMap_eq {α β γ} {R : α → β → Prop} {f : α → Option γ} {g : β → Option γ}
    {as : List α} {bs : List β} (h : Forall2 R as bs) (hfg : ∀ a b, R a b → f a = g b) :
    as.filterMap f = bs.filterMap g := by
  induction h with
  | nil => rfl
  | cons hab _ ih => simp only [List.filterMap_cons, hfg _ _ hab, ih]

theorem Forall2.any_eq {α β} {R : α → β → Prop} {p : α → Bool} {q : β → Bool}
    {as : List α} {bs : List β} (h : Forall2 R as bs) (hpq : ∀ a b, R a b → p a = q b) :
    as.any p = bs.any q := by
  induction h with
  | nil => rfl
  | cons hab _ ih => simp only [List.any_cons, hpq _ _ hab, ih]

/-- `PermRel R as bs`: `bs` is a rearrangement of a list related to `as` element by element -/
def PermRel {α β} (R : α → β → Prop) (as : List α) (bs : List β) : Prop :=
  ∃ mid, Forall2 R as mid ∧ mid.Perm bs

theorem PermRel.nil {α β} {R : α → β → Prop} : PermRel R ([] : List α) ([] : List β) := ⟨[], .nil, .nil⟩

theorem PermRel.of_forall2 {α β} {R : α → β → Prop} {as : List α} {bs : List β} (h : Forall2 R as bs) :
    PermRel R as bs := ⟨bs, h, .refl _⟩

theorem PermRel.refl {α} {R : α → α → Prop} (h : ∀ a, R a a) (as : List α) : PermRel R as as :=
  .of_forall2 (Forall2.refl' h as)

theorem PermRel.of_perm {α} {R : α → α → Prop} (h : ∀ a, R a a) {as bs : List α} (hp : as.Perm bs) :
    PermRel R as bs := ⟨as, Forall2.refl' h as, hp⟩

theorem PermRel.imp {α β} {R S : α → β → Prop} {as : List α} {bs : List β}
    (h : PermRel R as bs) (hi : ∀ a b, R a b → S a b) : PermRel S as bs := by
  obtain ⟨mid, h1, h2⟩ := h
  exact ⟨mid, h1.monoR hi, h2⟩

theorem PermRel.permR {α β} {R : α → β → Prop} {as : List α} {bs bs' : List β}
    (h : PermRel R as bs) (hp : bs.Perm bs') : PermRel R as bs' := by
  obtain ⟨mid, h1, h2⟩ := h
  exact ⟨mid, h1, h2.trans hp⟩

theorem PermRel.permL {α β} {R : α → β → Prop} {as as' : List α} {bs : List β}
    (h : PermRel R as bs) (hp : as.Perm as') : PermRel R as' bs := by
  obtain ⟨mid, h1, h2⟩ := h
  obtain ⟨mid', h3, h4⟩ := h1.permL hp
  exact ⟨mid', h3, h4.symm.trans h2⟩

theorem PermRel.flip {α β} {R : α → β → Prop} {S : β → α → Prop} {as : List α} {bs : List β}
    (h : PermRel R as bs) (hi : ∀ a b, R a b → S b a) : PermRel S bs as := by
  obtain ⟨mid, h1, h2⟩ := h
  obtain ⟨as', h3, h4⟩ := h1.permR h2
  exact ⟨as', h4.flipR hi, h3.symm⟩

theorem PermRel.comp {α β γ} {R : α → β → Prop} {S : β → γ → Prop} {T : α → γ → Prop}
    {as : List α} {bs : List β} {cs : List γ}
    (h1 : PermRel R as bs) (h2 : PermRel S bs cs) (hi : ∀ a b c, R a b → S b c → T a c) : PermRel T as cs := by
  obtain ⟨m1, f1, p1⟩ := h1
  obtain ⟨m2, f2, p2⟩ := h2
  obtain ⟨m2', f3, p3⟩ := f2.permL p1.symm
  exact ⟨m2', f1.comp f3 hi, p3.symm.trans p2⟩

theorem PermRel.cons {α β} {R : α → β → Prop} {a : α} {b : β} {as : List α} {bs : List β}
    (hab : R a b) (h : PermRel R as bs) : PermRel R (a :: as) (b :: bs) := by
  obtain ⟨mid, h1, h2⟩ := h
  exact ⟨b :: mid, .cons hab h1, .cons _ h2⟩

theorem PermRel.append {α β} {R : α → β → Prop} {as1 as2 : List α} {bs1 bs2 : List β}
    (h1 : PermRel R as1 bs1) (h2 : PermRel R as2 bs2) : PermRel R (as1 ++ as2) (bs1 ++ bs2) := by
  obtain ⟨m1, f1, p1⟩ := h1
  obtain ⟨m2, f2, p2⟩ := h2
  exact ⟨m1 ++ m2, f1.appendR f2, p1.append p2⟩

theorem PermRel.length_eq {α β} {R : α → β → Prop} {as : List α} {bs : List β} (h : PermRel R as bs) :
    as.length = bs.length := by
  obtain ⟨mid, h1, h2⟩ := h
  rw [h1.length_eq, h2.length_eq]

/-- a function that respects the element relation maps related lists to permutations -/
theorem PermRel.filterMap_perm {α β γ} {R : α → β → Prop} {f : α → Option γ} {g : β → Option γ}
    {as : List α} {bs : List β} (h : PermRel R as bs) (hfg : ∀ a b, R a b → f a = g b) :
    (as.filterMap f).Perm (bs.filterMap g) := by
  obtain ⟨mid, h1, h2⟩ := h
  rw [h1.filterMap_eq hfg]
  exact h2.filterMap g

theorem PermRel.any_eq {α β} {R : α → β → Prop} {p : α → Bool} {q : β → Bool}
    {as : List α} {bs : List β} (h : PermRel R as bs) (hpq : ∀ a b, R a b → p a = q b) :
    as.any p = bs.any q := by
  obtain ⟨mid, h1, h2⟩ := h
  rw [h1.any_eq hpq]
  cases hm : mid.any q <;> cases hb : bs.any q <;> try rfl
  · obtain ⟨b, hbm, hq⟩ := List.any_eq_true.mp hb
    have := List.any_eq_true.mpr ⟨b, h2.mem_iff.mpr hbm, hq⟩
    rw [hm] at this; exact absurd this (by simp)
  · obtain ⟨b, hbm, hq⟩ := List.any_eq_true.mp hm
    have := List.any_eq_true.mpr ⟨b, h2.mem_iff.mp hbm, hq⟩
    rw [hb] at this; exact absurd this (by simp)

/-! ### the relation -/

/-- `V.PermEq v w`: `v` and `w` are the same Go value up to the order of map entries at every depth.
    The list-level companions are encoded in the `.list` / `.map` wrappers (`listCons`, `mapCons`);
    `mapCons` says that the first entry of the left map occurs, up to `PermEq`, somewhere in the
    right map, and the remaining entries are related. See `V.permEq_list_iff`, `V.permEq_map_iff`
    for the companions as `Forall2` / `PermRel`. -/
inductive V.PermEq : V → V → Prop
  | nil : V.PermEq .nil .nil
  | bool (b : Bool) : V.PermEq (.bool b) (.bool b)
  | int (k : IKind) (n : Int) : V.PermEq (.int k n) (.int k n)
  | float (k : FKind) (b : Nat) : V.PermEq (.float k b) (.float k b)
  | str (s : String) : V.PermEq (.str s) (.str s)
  | bytes (b : List Nat) : V.PermEq (.bytes b) (.bytes b)
  | regex (s : String) : V.PermEq (.regex s) (.regex s)
  | opaque : V.PermEq .opaque .opaque
  | named {v w : V} : V.PermEq v w → V.PermEq (.named v) (.named w)
  | listNil : V.PermEq (.list []) (.list [])
  | listCons {x y : V} {xs ys : List V} :
      V.PermEq x y → V.PermEq (.list xs) (.list ys) → V.PermEq (.list (x :: xs)) (.list (y :: ys))
  | mapNil (sh : MapShape) : V.PermEq (.map sh []) (.map sh [])
  | mapCons {sh : MapShape} {k v k' v' : V} {rest pre post : List (V × V)} :
      V.PermEq k k' → V.PermEq v v' → V.PermEq (.map sh rest) (.map sh (pre ++ post)) →
      V.PermEq (.map sh ((k, v) :: rest)) (.map sh (pre ++ (k', v') :: post))

@[inherit_doc] infix:50 " ≈ᵥ " => V.PermEq

/-- entries of two maps related key by key and value by value -/
def EntryEq (a b : V × V) : Prop := a.1 ≈ᵥ b.1 ∧ a.2 ≈ᵥ b.2

/-- the map-level companion: same entries up to `PermEq`, in any order -/
abbrev MapEq (kvs kvs' : List (V × V)) : Prop := PermRel EntryEq kvs kvs'

/-- the list-level companion: same length, related element by element, in order -/
abbrev ListEq (xs ys : List V) : Prop := Forall2 V.PermEq xs ys

theorem V.permEq_list_inv {v w : V} (h : v ≈ᵥ w) : ∀ xs, v = .list xs → ∃ ys, w = .list ys ∧ ListEq xs ys := by
  induction h with
  | listNil => intro xs e; cases e; exact ⟨[], rfl, .nil⟩
  | listCons hxy _ _ ih =>
    intro xs e; cases e
    obtain ⟨ys, e2, h2⟩ := ih _ rfl
    cases e2
    exact ⟨_, rfl, .cons hxy h2⟩
  | _ => intro xs e; cases e

theorem V.permEq_list_of {xs ys : List V} (h : ListEq xs ys) : V.list xs ≈ᵥ V.list ys := by
  induction h with
  | nil => exact .listNil
  | cons hab _ ih => exact .listCons hab ih

theorem V.permEq_list_iff {xs ys : List V} : V.list xs ≈ᵥ V.list ys ↔ ListEq xs ys := by
  constructor
  · intro h
    obtain ⟨ys', e, h'⟩ := V.permEq_list_inv h xs rfl
    cases e; exact h'
  · exact V.permEq_list_of

theorem V.permEq_map_inv {v w : V} (h : v ≈ᵥ w) :
    ∀ sh kvs, v = .map sh kvs → ∃ kvs', w = .map sh kvs' ∧ MapEq kvs kvs' := by
  induction h with
  | mapNil sh => intro sh' kvs e; cases e; exact ⟨[], rfl, .nil⟩
  | @mapCons sh k v k' v' rest pre post hk hv _ _ _ ih =>
    intro sh' kvs e; cases e
    obtain ⟨kvs', e2, mid, f, p⟩ := ih _ _ rfl
    cases e2
    refine ⟨_, rfl, (k', v') :: mid, .cons ⟨hk, hv⟩ f, ?_⟩
    exact (List.Perm.cons _ p).trans List.perm_middle.symm
  | _ => intro sh kvs e; cases e

theorem V.permEq_map_of {sh : MapShape} : ∀ {kvs kvs' : List (V × V)}, MapEq kvs kvs' → V.map sh kvs ≈ᵥ V.map sh kvs'
  | [], kvs', h => by
    obtain ⟨mid, f, p⟩ := h
    cases f
    have := p.symm.eq_nil
    subst this
    exact .mapNil sh
  | (k, v) :: rest, kvs', h => by
    obtain ⟨mid, f, p⟩ := h
    cases f with
    | @cons _ b _ mid0 hab hrest =>
      obtain ⟨k', v'⟩ := b
      have hm : (k', v') ∈ kvs' := p.mem_iff.mp (List.mem_cons_self ..)
      obtain ⟨pre, post, rfl⟩ := List.append_of_mem hm
      have p0 : mid0.Perm (pre ++ post) := (p.trans List.perm_middle).cons_inv
      exact .mapCons hab.1 hab.2 (V.permEq_map_of ⟨mid0, hrest, p0⟩)

theorem V.permEq_map_iff {sh sh' : MapShape} {kvs kvs' : List (V × V)} :
    V.map sh kvs ≈ᵥ V.map sh' kvs' ↔ sh = sh' ∧ MapEq kvs kvs' := by
  constructor
  · intro h
    obtain ⟨kvs2, e, h'⟩ := V.permEq_map_inv h sh kvs rfl
    cases e; exact ⟨rfl, h'⟩
  · rintro ⟨rfl, h⟩; exact V.permEq_map_of h

/-! ### `PermEq` is an equivalence -/

theorem V.PermEq.refl : ∀ (v : V), v ≈ᵥ v
  | .nil => .nil
  | .bool b => .bool b
  | .int k n => .int k n
  | .float k b => .float k b
  | .str s => .str s
  | .bytes b => .bytes b
  | .regex s => .regex s
  | .opaque => .opaque
  | .named v => .named (V.PermEq.refl v)
  | .list [] => .listNil
  | .list (x :: xs) => .listCons (V.PermEq.refl x) (V.PermEq.refl (.list xs))
  | .map sh [] => .mapNil sh
  | .map sh ((k, v) :: rest) =>
    @V.PermEq.mapCons sh k v k v rest [] rest (V.PermEq.refl k) (V.PermEq.refl v) (V.PermEq.refl (.map sh rest))

theorem V.PermEq.symm {v w : V} (h : v ≈ᵥ w) : w ≈ᵥ v := by
  induction h with
  | named _ ih => exact .named ih
  | listCons _ _ ih1 ih2 => exact .listCons ih1 ih2
  | @mapCons sh k v k' v' rest pre post _ _ _ ihk ihv ihr =>
    obtain ⟨_, hr⟩ := V.permEq_map_iff.mp ihr
    -- `pre ++ post` relates to `rest`; re-insert the entry on both sides
    obtain ⟨mid, f, p⟩ := hr
    obtain ⟨m1, m2, rfl, f1, f2⟩ := f.append_inv
    refine V.permEq_map_of ⟨m1 ++ (k, v) :: m2, f1.appendR (.cons ⟨ihk, ihv⟩ f2), ?_⟩
    exact List.perm_middle.trans (List.Perm.cons _ p)
  | _ => constructor

theorem V.PermEq.trans {u v w : V} (h1 : u ≈ᵥ v) (h2 : v ≈ᵥ w) : u ≈ᵥ w := by
  induction h1 generalizing w with
  | named _ ih =>
    cases h2 with
    | named h2' => exact .named (ih h2')
  | listCons _ _ ih1 ih2 =>
    cases h2 with
    | listCons a b => exact .listCons (ih1 a) (ih2 b)
  | @mapCons sh k v k' v' rest pre post _ _ _ ihk ihv ihr =>
    obtain ⟨cs, rfl, mid, f, p⟩ := V.permEq_map_inv h2 _ _ rfl
    obtain ⟨m1, m2', rfl, f1, f2'⟩ := f.append_inv
    cases f2' with
    | @cons _ b _ m2 hab f2 =>
      obtain ⟨k2, v2⟩ := b
      have hrest : V.map sh rest ≈ᵥ V.map sh (m1 ++ m2) := ihr (V.permEq_map_of (.of_forall2 (f1.appendR f2)))
      obtain ⟨_, mid', f', p'⟩ := V.permEq_map_iff.mp hrest
      refine V.permEq_map_of ⟨(k2, v2) :: mid', .cons ⟨ihk hab.1, ihv hab.2⟩ f', ?_⟩
      exact ((List.Perm.cons _ p').trans List.perm_middle.symm).trans p
  | _ => exact h2

theorem ListEq.refl (xs : List V) : ListEq xs xs := Forall2.refl' V.PermEq.refl xs
theorem EntryEq.refl (a : V × V) : EntryEq a a := ⟨.refl _, .refl _⟩
theorem EntryEq.symm {a b : V × V} (h : EntryEq a b) : EntryEq b a := ⟨h.1.symm, h.2.symm⟩
theorem EntryEq.trans {a b c : V × V} (h1 : EntryEq a b) (h2 : EntryEq b c) : EntryEq a c :=
  ⟨h1.1.trans h2.1, h1.2.trans h2.2⟩
theorem MapEq.refl (kvs : List (V × V)) : MapEq kvs kvs := PermRel.refl EntryEq.refl kvs
theorem MapEq.of_perm {kvs kvs' : List (V × V)} (h : kvs.Perm kvs') : MapEq kvs kvs' := PermRel.of_perm EntryEq.refl h
theorem MapEq.symm {a b : List (V × V)} (h : MapEq a b) : MapEq b a := PermRel.flip h (fun _ _ => EntryEq.symm)
theorem MapEq.trans {a b c : List (V × V)} (h1 : MapEq a b) (h2 : MapEq b c) : MapEq a c :=
  PermRel.comp h1 h2 (fun _ _ _ => EntryEq.trans)

/-- permuting the entries of a map, at the top, is a `PermEq` -/
theorem V.permEq_of_perm {sh : MapShape} {kvs kvs' : List (V × V)} (h : kvs.Perm kvs') :
    V.map sh kvs ≈ᵥ V.map sh kvs' := V.permEq_map_of (MapEq.of_perm h)

/-! ### outcomes related up to a relation on the results

`Out.Rel R o o'`: both calls succeed with `R`-related results, or neither succeeds. (WHICH failure
is reported - error, panic, budget - is not compared here: a traversal stops at the first entry
that fails, and which one is first depends on the order.) -/

def Out.Rel {α β} (R : α → β → Prop) : Out α → Out β → Prop
  | .ok a, .ok b => R a b
  | .ok _, _ => False
  | _, .ok _ => False
  | _, _ => True

namespace Out.Rel
variable {α β γ δ : Type} {R : α → β → Prop}

@[simp] theorem ok_ok {a : α} {b : β} : Out.Rel R (.ok a) (.ok b) ↔ R a b := Iff.rfl
@[simp] theorem ok_err {a : α} {e : Err} : Out.Rel R (.ok a) (.err e : Out β) ↔ False := Iff.rfl
@[simp] theorem ok_panic {a : α} : Out.Rel R (.ok a) (.panic : Out β) ↔ False := Iff.rfl
@[simp] theorem ok_fuel {a : α} : Out.Rel R (.ok a) (.fuel : Out β) ↔ False := Iff.rfl
@[simp] theorem err_ok {b : β} {e : Err} : Out.Rel R (.err e : Out α) (.ok b) ↔ False := Iff.rfl
@[simp] theorem panic_ok {b : β} : Out.Rel R (.panic : Out α) (.ok b) ↔ False := Iff.rfl
@[simp] theorem fuel_ok {b : β} : Out.Rel R (.fuel : Out α) (.ok b) ↔ False := Iff.rfl
@[simp] theorem err_err {e e' : Err} : Out.Rel R (.err e : Out α) (.err e' : Out β) := trivial
@[simp] theorem err_panic {e : Err} : Out.Rel R (.err e : Out α) (.panic : Out β) := trivial
@[simp] theorem err_fuel {e : Err} : Out.Rel R (.err e : Out α) (.fuel : Out β) := trivial
@[simp] theorem panic_err {e : Err} : Out.Rel R (.panic : Out α) (.err e : Out β) := trivial
@[simp] theorem panic_panic : Out.Rel R (.panic : Out α) (.panic : Out β) := trivial
@[simp] theorem panic_fuel : Out.Rel R (.panic : Out α) (.fuel : Out β) := trivial
@[simp] theorem fuel_err {e : Err} : Out.Rel R (.fuel : Out α) (.err e : Out β) := trivial
@[simp] theorem fuel_panic : Out.Rel R (.fuel : Out α) (.panic : Out β) := trivial
@[simp] theorem fuel_fuel : Out.Rel R (.fuel : Out α) (.fuel : Out β) := trivial
@[simp] theorem cerr_cerr : Out.Rel R (Out.cerr : Out α) (Out.cerr : Out β) := trivial
@[simp] theorem plain_plain : Out.Rel R (Out.plain : Out α) (Out.plain : Out β) := trivial

theorem of_eq {R : α → α → Prop} (hr : ∀ a, R a a) {o o' : Out α} (h : o = o') : Out.Rel R o o' := by
  subst h; cases o <;> simp [hr]

theorem rfl' {R : α → α → Prop} (hr : ∀ a, R a a) (o : Out α) : Out.Rel R o o := of_eq hr rfl

theorem imp {S : α → β → Prop} {o : Out α} {o' : Out β} (h : Out.Rel R o o') (hi : ∀ a b, R a b → S a b) :
    Out.Rel S o o' := by
  cases o <;> cases o' <;> simp_all

theorem flip {S : β → α → Prop} {o : Out α} {o' : Out β} (h : Out.Rel R o o') (hi : ∀ a b, R a b → S b a) :
    Out.Rel S o' o := by
  cases o <;> cases o' <;> simp_all

theorem comp {S : β → γ → Prop} {T : α → γ → Prop} {o1 : Out α} {o2 : Out β} {o3 : Out γ}
    (h1 : Out.Rel R o1 o2) (h2 : Out.Rel S o2 o3) (hi : ∀ a b c, R a b → S b c → T a c) : Out.Rel T o1 o3 := by
  cases o1 <;> cases o2 <;> cases o3 <;> simp_all
  exact hi _ _ _ h1 h2

theorem bind {S : γ → δ → Prop} {o : Out α} {o' : Out β} {f : α → Out γ} {g : β → Out δ}
    (h : Out.Rel R o o') (hfg : ∀ a b, R a b → Out.Rel S (f a) (g b)) : Out.Rel S (o.bind f) (o'.bind g) := by
  cases o <;> cases o' <;> simp_all [Out.bind]

theorem addSeg {o : Out α} {o' : Out β} (s s' : String) (h : Out.Rel R o o') :
    Out.Rel R (o.addSeg s) (o'.addSeg s') := by
  cases o <;> cases o' <;> simp_all [Out.addSeg]

theorem rewrapC {o : Out α} {o' : Out β} (h : Out.Rel R o o') : Out.Rel R (Arca.rewrapC o) (Arca.rewrapC o') := by
  cases o <;> cases o' <;> simp_all [Arca.rewrapC, Out.cerr]

theorem rewrapP {o : Out α} {o' : Out β} (h : Out.Rel R o o') : Out.Rel R (Arca.rewrapP o) (Arca.rewrapP o') := by
  cases o <;> cases o' <;> simp_all [Arca.rewrapP, Out.plain]

/-- both succeed together, with related results -/
theorem of_ok {o : Out α} {o' : Out β} (h1 : ∀ a, o = .ok a → ∃ b, o' = .ok b ∧ R a b)
    (h2 : ∀ b, o' = .ok b → ∃ a, o = .ok a) : Out.Rel R o o' := by
  cases o <;> cases o' <;> simp_all

theorem ok_left {o : Out α} {o' : Out β} (h : Out.Rel R o o') {a : α} (ha : o = .ok a) : ∃ b, o' = .ok b ∧ R a b := by
  subst ha; cases o' <;> simp_all

theorem ok_right {o : Out α} {o' : Out β} (h : Out.Rel R o o') {b : β} (hb : o' = .ok b) : ∃ a, o = .ok a ∧ R a b := by
  subst hb; cases o <;> simp_all

theorem isOk_eq {o : Out α} {o' : Out β} (h : Out.Rel R o o') : o.isOk = o'.isOk := by
  cases o <;> cases o' <;> simp_all [Out.isOk]

end Out.Rel

/-! ### traversals -/

theorem forIdx_rel {R S : V → V → Prop} {f g : Nat → V → Out V}
    (hfg : ∀ i x y, R x y → Out.Rel S (f i x) (g i y)) {xs ys : List V} (h : Forall2 R xs ys) :
    ∀ i, Out.Rel (Forall2 S) (forIdx f i xs) (forIdx g i ys) := by
  induction h with
  | nil => intro i; simp [forIdx, Forall2.nil]
  | @cons a b as bs hab _ ih =>
    intro i
    have h1 := hfg i a b hab
    have h2 := ih (i + 1)
    simp only [forIdx]
    cases hf : f i a <;> cases hg : g i b <;> rw [hf, hg] at h1 <;> simp at h1 <;> try simp
    cases hf2 : forIdx f (i + 1) as <;> cases hg2 : forIdx g (i + 1) bs <;> rw [hf2, hg2] at h2 <;> simp at h2 <;> try simp
    exact .cons h1 h2

theorem forKV_rel {R S : V × V → V × V → Prop} {f g : V → V → Out (V × V)}
    (hfg : ∀ a b, R a b → Out.Rel S (f a.1 a.2) (g b.1 b.2)) {kvs kvs' : List (V × V)} (h : Forall2 R kvs kvs') :
    Out.Rel (Forall2 S) (forKV f kvs) (forKV g kvs') := by
  induction h with
  | nil => simp [forKV, Forall2.nil]
  | @cons a b as bs hab _ ih =>
    obtain ⟨a1, a2⟩ := a
    obtain ⟨b1, b2⟩ := b
    have h1 := hfg _ _ hab
    simp only [forKV]
    cases hf : f a1 a2 <;> cases hg : g b1 b2 <;> simp only [hf, hg] at h1 <;> simp at h1 <;> try simp
    cases hf2 : forKV f as <;> cases hg2 : forKV g bs <;> rw [hf2, hg2] at ih <;> simp at ih <;> try simp
    exact .cons h1 ih

theorem forSV_rel {R S : String × V → String × V → Prop} {f g : String → V → Out V}
    (hfg : ∀ a b, R a b → Out.Rel (fun r r' => S (a.1, r) (b.1, r')) (f a.1 a.2) (g b.1 b.2))
    {kvs kvs' : List (String × V)} (h : Forall2 R kvs kvs') :
    Out.Rel (Forall2 S) (forSV f kvs) (forSV g kvs') := by
  induction h with
  | nil => simp [forSV, Forall2.nil]
  | @cons a b as bs hab _ ih =>
    obtain ⟨a1, a2⟩ := a
    obtain ⟨b1, b2⟩ := b
    have h1 := hfg _ _ hab
    simp only [forSV]
    cases hf : f a1 a2 <;> cases hg : g b1 b2 <;> simp only [hf, hg] at h1 <;> simp at h1 <;> try simp
    cases hf2 : forSV f as <;> cases hg2 : forSV g bs <;> rw [hf2, hg2] at ih <;> simp at ih <;> try simp
    exact .cons h1 ih

theorem allKV_iff_forall2 {f : V → V → Out (V × V)} {kvs es : List (V × V)} :
    AllKV f kvs es ↔ Forall2 (fun a b => f a.1 a.2 = .ok b) kvs es := by
  constructor
  · intro h; induction h with
    | nil => exact .nil
    | cons h1 _ ih => exact .cons h1 ih
  · intro h; induction h with
    | nil => exact .nil
    | @cons a b _ _ h1 _ ih => obtain ⟨a1, a2⟩ := a; exact .cons h1 ih

theorem allSV_iff_forall2 {f : String → V → Out V} {kvs es : List (String × V)} :
    AllSV f kvs es ↔ Forall2 (fun a b => b.1 = a.1 ∧ f a.1 a.2 = .ok b.2) kvs es := by
  constructor
  · intro h; induction h with
    | nil => exact .nil
    | cons h1 _ ih => exact .cons ⟨rfl, h1⟩ ih
  · intro h; induction h with
    | nil => exact .nil
    | @cons a b _ _ h1 _ ih =>
      obtain ⟨a1, a2⟩ := a; obtain ⟨b1, b2⟩ := b
      obtain ⟨e, h1⟩ := h1
      simp only at e; subst e
      exact .cons h1 ih

/-- a map traversal succeeds under every order of its entries, with the results reordered alike;
    it fails under every order if it fails under one -/
theorem forKV_perm {f : V → V → Out (V × V)} {kvs kvs' : List (V × V)} (hp : kvs.Perm kvs') :
    Out.Rel List.Perm (forKV f kvs) (forKV f kvs') := by
  have key : ∀ {a b : List (V × V)}, a.Perm b → ∀ es, forKV f a = .ok es → ∃ es', forKV f b = .ok es' ∧ es.Perm es' := by
    intro a b hab es h
    obtain ⟨es', h1, h2⟩ := (allKV_iff_forall2.mp (forKV_ok_iff.mp h)).permL hab
    exact ⟨es', forKV_ok_iff.mpr (allKV_iff_forall2.mpr h1), h2⟩
  refine Out.Rel.of_ok (key hp) ?_
  intro b hb
  obtain ⟨a, ha, _⟩ := key hp.symm b hb
  exact ⟨a, ha⟩

theorem forSV_perm {f : String → V → Out V} {kvs kvs' : List (String × V)} (hp : kvs.Perm kvs') :
    Out.Rel List.Perm (forSV f kvs) (forSV f kvs') := by
  have key : ∀ {a b : List (String × V)}, a.Perm b → ∀ es, forSV f a = .ok es → ∃ es', forSV f b = .ok es' ∧ es.Perm es' := by
    intro a b hab es h
    obtain ⟨es', h1, h2⟩ := (allSV_iff_forall2.mp (forSV_ok_iff.mp h)).permL hab
    exact ⟨es', forSV_ok_iff.mpr (allSV_iff_forall2.mpr h1), h2⟩
  refine Out.Rel.of_ok (key hp) ?_
  intro b hb
  obtain ⟨a, ha, _⟩ := key hp.symm b hb
  exact ⟨a, ha⟩

/-- map traversal of related entry lists in any order -/
theorem forKV_permRel {R S : V × V → V × V → Prop} {f g : V → V → Out (V × V)}
    (hfg : ∀ a b, R a b → Out.Rel S (f a.1 a.2) (g b.1 b.2)) {kvs kvs' : List (V × V)} (h : PermRel R kvs kvs') :
    Out.Rel (PermRel S) (forKV f kvs) (forKV g kvs') := by
  obtain ⟨mid, h1, h2⟩ := h
  exact (forKV_rel hfg h1).comp (forKV_perm h2) (fun _ b _ hab hbc => ⟨b, hab, hbc⟩)

theorem forSV_permRel {R S : String × V → String × V → Prop} {f g : String → V → Out V}
    (hfg : ∀ a b, R a b → Out.Rel (fun r r' => S (a.1, r) (b.1, r')) (f a.1 a.2) (g b.1 b.2))
    {kvs kvs' : List (String × V)} (h : PermRel R kvs kvs') :
    Out.Rel (PermRel S) (forSV f kvs) (forSV g kvs') := by
  obtain ⟨mid, h1, h2⟩ := h
  exact (forSV_rel hfg h1).comp (forSV_perm h2) (fun _ b _ hab hbc => ⟨b, hab, hbc⟩)

/-! ### scalar views do not see below the top constructor -/

section scalars
variable {v w : V}

theorem V.PermEq.under (h : v ≈ᵥ w) : v.under ≈ᵥ w.under := by
  cases h with
  | named h' => exact h'
  | listNil => exact .listNil
  | listCons a b => exact .listCons a b
  | mapNil sh => exact .mapNil sh
  | mapCons a b c => exact .mapCons a b c
  | _ => constructor

theorem V.PermEq.intInputMapper (u : Option Units) (h : v ≈ᵥ w) : intInputMapper u v = intInputMapper u w := by
  cases h <;> rfl
theorem V.PermEq.floatInputMapper (x : Ext) (u : Option Units) (h : v ≈ᵥ w) :
    floatInputMapper x u v = floatInputMapper x u w := by
  cases h <;> rfl
theorem V.PermEq.stringInputMapper (x : Ext) (h : v ≈ᵥ w) : stringInputMapper x v = stringInputMapper x w := by
  cases h <;> rfl
theorem V.PermEq.boolInputMapper (h : v ≈ᵥ w) : boolInputMapper v = boolInputMapper w := by
  cases h <;> rfl
theorem V.PermEq.asInt (h : v ≈ᵥ w) : asInt v = asInt w := by
  cases h with
  | named h' => cases h' <;> rfl
  | _ => rfl
theorem V.PermEq.asFloat (h : v ≈ᵥ w) : asFloat v = asFloat w := by
  cases h with
  | named h' => cases h' <;> rfl
  | _ => rfl
theorem V.PermEq.asString (h : v ≈ᵥ w) : asString v = asString w := by
  cases h with
  | named h' => cases h' <;> rfl
  | _ => rfl
theorem V.PermEq.asBool (h : v ≈ᵥ w) : asBool v = asBool w := by
  cases h with
  | named h' => cases h' <;> rfl
  | _ => rfl
theorem V.PermEq.key? (h : v ≈ᵥ w) : v.key? = w.key? := by
  cases h with
  | named h' => cases h' <;> rfl
  | _ => rfl
theorem V.PermEq.kindTag (h : v ≈ᵥ w) : kindTag v = kindTag w := by
  cases h with
  | named h' => cases h' <;> rfl
  | _ => rfl

theorem V.PermEq.runInt (op : Op) (a b : Option Int) (u : Option Units) (h : v ≈ᵥ w) :
    runInt op a b u v = runInt op a b u w := by
  cases op <;> simp only [Arca.runInt, h.intInputMapper, h.asInt]
theorem V.PermEq.runFloat (x : Ext) (op : Op) (a b : Option Nat) (u : Option Units) (h : v ≈ᵥ w) :
    runFloat x op a b u v = runFloat x op a b u w := by
  cases op <;> simp only [Arca.runFloat, h.floatInputMapper, h.asFloat]
theorem V.PermEq.runStr (x : Ext) (op : Op) (a b : Option Int) (p : Option String) (h : v ≈ᵥ w) :
    runStr x op a b p v = runStr x op a b p w := by
  cases op
  case C => cases h <;> rfl
  all_goals simp only [Arca.runStr, h.stringInputMapper, h.asString]
theorem V.PermEq.runBool (op : Op) (h : v ≈ᵥ w) : runBool op v = runBool op w := by
  cases op <;> simp only [Arca.runBool, h.boolInputMapper, h.asBool]
theorem V.PermEq.runPattern (x : Ext) (op : Op) (h : v ≈ᵥ w) : runPattern x op v = runPattern x op w := by
  cases op
  case U => simp only [Arca.runPattern, h.stringInputMapper]
  all_goals (cases h <;> rfl)
theorem V.PermEq.runEnumInt (op : Op) (vals : List Int) (u : Option Units) (h : v ≈ᵥ w) :
    runEnumInt op vals u v = runEnumInt op vals u w := by
  cases op <;> simp only [Arca.runEnumInt, h.intInputMapper, h.asInt]
theorem V.PermEq.runEnumStr (x : Ext) (op : Op) (vals : List String) (h : v ≈ᵥ w) :
    runEnumStr x op vals v = runEnumStr x op vals w := by
  cases op <;> simp only [Arca.runEnumStr, h.stringInputMapper, h.asString]

end scalars

/-! ### more list facts -/

theorem Forall2.mem_left {α β} {R : α → β → Prop} {as : List α} {bs : List β} (h : Forall2 R as bs) {a : α}
    (ha : a ∈ as) : ∃ b, b ∈ bs ∧ R a b := by
  induction h with
  | nil => cases ha
  | @cons a' b' _ _ hab _ ih =>
    cases ha with
    | head => exact ⟨b', List.mem_cons_self .., hab⟩
    | tail _ hm => obtain ⟨b, hb, hr⟩ := ih hm; exact ⟨b, List.mem_cons_of_mem _ hb, hr⟩

theorem PermRel.mem_left {α β} {R : α → β → Prop} {as : List α} {bs : List β} (h : PermRel R as bs) {a : α}
    (ha : a ∈ as) : ∃ b, b ∈ bs ∧ R a b := by
  obtain ⟨mid, h1, h2⟩ := h
  obtain ⟨b, hb, hr⟩ := h1.mem_left ha
  exact ⟨b, h2.mem_iff.mp hb, hr⟩

theorem Forall2.map_eq {α β γ} {R : α → β → Prop} {f : α → γ} {g : β → γ}
    {as : List α} {bs : List β} (h : Forall2 R as bs) (hfg : ∀ a b, R a b → f a = g b) :
    as.map f = bs.map g := by
  induction h with
  | nil => rfl
  | cons hab _ ih => simp only [List.map_cons, hfg _ _ hab, ih]

theorem PermRel.map_perm {α β γ} {R : α → β → Prop} {f : α → γ} {g : β → γ}
    {as : List α} {bs : List β} (h : PermRel R as bs) (hfg : ∀ a b, R a b → f a = g b) :
    (as.map f).Perm (bs.map g) := by
  obtain ⟨mid, h1, h2⟩ := h
  rw [h1.map_eq hfg]
  exact h2.map g

theorem Forall2.filter {α β} {R : α → β → Prop} {p : α → Bool} {q : β → Bool}
    {as : List α} {bs : List β} (h : Forall2 R as bs) (hpq : ∀ a b, R a b → p a = q b) :
    Forall2 R (as.filter p) (bs.filter q) := by
  induction h with
  | nil => exact .nil
  | @cons a b _ _ hab _ ih =>
    simp only [List.filter_cons, hpq _ _ hab]
    cases q b
    · exact ih
    · exact .cons hab ih

theorem PermRel.filter {α β} {R : α → β → Prop} {p : α → Bool} {q : β → Bool}
    {as : List α} {bs : List β} (h : PermRel R as bs) (hpq : ∀ a b, R a b → p a = q b) :
    PermRel R (as.filter p) (bs.filter q) := by
  obtain ⟨mid, h1, h2⟩ := h
  exact ⟨mid.filter q, h1.filter hpq, h2.filter q⟩

/-- mapping both sides of a `PermRel` -/
theorem PermRel.map {α β γ δ} {R : α → β → Prop} {S : γ → δ → Prop} {f : α → γ} {g : β → δ}
    {as : List α} {bs : List β} (h : PermRel R as bs) (hfg : ∀ a b, R a b → S (f a) (g b)) :
    PermRel S (as.map f) (bs.map g) := by
  obtain ⟨mid, h1, h2⟩ := h
  refine ⟨mid.map g, ?_, h2.map g⟩
  clear h2
  induction h1 with
  | nil => exact .nil
  | cons hab _ ih => exact .cons (hfg _ _ hab) ih

/-- relation on optional results -/
def ORel {α β} (R : α → β → Prop) : Option α → Option β → Prop
  | some a, some b => R a b
  | none, none => True
  | _, _ => False

@[simp] theorem ORel.some_some {α β} {R : α → β → Prop} {a : α} {b : β} : ORel R (some a) (some b) ↔ R a b := Iff.rfl
@[simp] theorem ORel.none_none {α β} {R : α → β → Prop} : ORel R (none : Option α) (none : Option β) := trivial
@[simp] theorem ORel.some_none {α β} {R : α → β → Prop} {a : α} : ORel R (some a) (none : Option β) ↔ False := Iff.rfl
@[simp] theorem ORel.none_some {α β} {R : α → β → Prop} {b : β} : ORel R (none : Option α) (some b) ↔ False := Iff.rfl

/-! ### duplicate detection sees only the converted keys, as a set -/

theorem dupKey_go_iff' (kvs : List (V × V)) : ∀ (seen : List Key), seen.Nodup →
    (dupKey.go kvs seen = false ↔ ((kvs.filterMap fun kv => kv.1.key?).reverse ++ seen).Nodup) := by
  induction kvs with
  | nil => intro seen hs; simp [dupKey.go, hs]
  | cons kv rest ih =>
    obtain ⟨k, v⟩ := kv
    intro seen hs
    simp only [dupKey.go]
    cases hk : k.key? with
    | none =>
      simp only [List.filterMap_cons, hk]
      exact ih seen hs
    | some key =>
      simp only [List.filterMap_cons, hk, List.reverse_cons, List.append_assoc, List.singleton_append]
      by_cases hc : seen.contains key = true
      · simp only [hc, if_true]
        constructor
        · intro h; exact absurd h (by simp)
        · intro hnd
          exfalso
          have hmem : key ∈ seen := by simpa using hc
          have := (List.nodup_append.mp hnd).2.1
          exact (List.nodup_cons.mp this).1 hmem
      · have hnm : key ∉ seen := by simpa using hc
        have hc' : seen.contains key = false := by simpa using hc
        simp only [hc', Bool.false_eq_true, if_false]
        exact ih (key :: seen) (List.nodup_cons.mpr ⟨hnm, hs⟩)

/-- (same statement as `dupKey_false_iff` of Props/C12, which this file cannot import) -/
theorem dupKey_false_iff' (kvs : List (V × V)) :
    dupKey kvs = false ↔ (kvs.filterMap fun kv => kv.1.key?).Nodup := by
  unfold dupKey
  rw [dupKey_go_iff' kvs [] List.nodup_nil]
  simp only [List.append_nil]
  exact (List.reverse_perm _).nodup_iff

/-- the duplicate check gives the same verdict on maps equal up to order at every depth -/
theorem dupKey_mapEq {kvs kvs' : List (V × V)} (h : MapEq kvs kvs') : dupKey kvs = dupKey kvs' := by
  have hp : (kvs.filterMap fun kv => kv.1.key?).Perm (kvs'.filterMap fun kv => kv.1.key?) :=
    h.filterMap_perm (fun _ _ hab => hab.1.key?)
  have hiff : dupKey kvs = false ↔ dupKey kvs' = false := by
    rw [dupKey_false_iff', dupKey_false_iff']; exact hp.nodup_iff
  cases h1 : dupKey kvs <;> cases h2 : dupKey kvs' <;> simp_all

/-! ### string-keyed views (`strKeys?`, `hasKey`, `lookupS`, `eraseKey`, `setKey`) -/

/-- entries of two `map[string]any` views: same key, related values -/
def SEntryEq (a b : String × V) : Prop := a.1 = b.1 ∧ a.2 ≈ᵥ b.2

abbrev SMapEq (m m' : List (String × V)) : Prop := PermRel SEntryEq m m'

theorem SEntryEq.refl (a : String × V) : SEntryEq a a := ⟨rfl, .refl _⟩
theorem SMapEq.refl (m : List (String × V)) : SMapEq m m := PermRel.refl SEntryEq.refl m
theorem SMapEq.symm {m m' : List (String × V)} (h : SMapEq m m') : SMapEq m' m :=
  PermRel.flip h (fun _ _ hab => ⟨hab.1.symm, hab.2.symm⟩)

theorem strKeys_iff_forall2 : ∀ {kvs : List (V × V)} {m : List (String × V)},
    strKeys? kvs = some m ↔ Forall2 (fun a b => a.1 = V.str b.1 ∧ a.2 = b.2) kvs m
  | [], m => by
    constructor
    · intro h; simp only [strKeys?, Option.some.injEq] at h; subst h; exact .nil
    · intro h; cases h; rfl
  | (k, v) :: rest, m => by
    constructor
    · intro h
      cases k <;> simp only [strKeys?, Option.map_eq_some_iff, reduceCtorEq] at h
      obtain ⟨m0, h0, rfl⟩ := h
      exact .cons ⟨rfl, rfl⟩ (strKeys_iff_forall2.mp h0)
    · intro h
      cases h with
      | @cons _ b _ m0 hab hrest =>
        obtain ⟨s, v'⟩ := b
        obtain ⟨e1, e2⟩ := hab
        simp only at e1 e2
        subst e1 e2
        simp only [strKeys?, strKeys_iff_forall2.mpr hrest, Option.map_some]

theorem strKeys_perm {kvs kvs' : List (V × V)} (hp : kvs.Perm kvs') {m : List (String × V)}
    (h : strKeys? kvs = some m) : ∃ m', strKeys? kvs' = some m' ∧ m.Perm m' := by
  obtain ⟨m', h1, h2⟩ := (strKeys_iff_forall2.mp h).permL hp
  exact ⟨m', strKeys_iff_forall2.mpr h1, h2⟩

theorem strKeys_forall2 {kvs kvs' : List (V × V)} (hf : Forall2 EntryEq kvs kvs') :
    ∀ {m : List (String × V)}, strKeys? kvs = some m → ∃ m', strKeys? kvs' = some m' ∧ Forall2 SEntryEq m m' := by
  induction hf with
  | nil => intro m h; simp only [strKeys?, Option.some.injEq] at h; subst h; exact ⟨[], rfl, .nil⟩
  | @cons a b as bs hab _ ih =>
    intro m h
    obtain ⟨k, v⟩ := a
    obtain ⟨k', v'⟩ := b
    obtain ⟨hk, hv⟩ := hab
    simp only at hk hv
    cases hk <;> simp only [strKeys?, Option.map_eq_some_iff, reduceCtorEq] at h
    obtain ⟨m0, h0, rfl⟩ := h
    obtain ⟨m0', h0', f0⟩ := ih h0
    exact ⟨(_, v') :: m0', by simp only [strKeys?, h0', Option.map_some], .cons ⟨rfl, hv⟩ f0⟩

theorem strKeys_mapEq {kvs kvs' : List (V × V)} (h : MapEq kvs kvs') {m : List (String × V)}
    (hm : strKeys? kvs = some m) : ∃ m', strKeys? kvs' = some m' ∧ SMapEq m m' := by
  obtain ⟨mid, h1, h2⟩ := h
  obtain ⟨m1, e1, f1⟩ := strKeys_forall2 h1 hm
  obtain ⟨m2, e2, p2⟩ := strKeys_perm h2 e1
  exact ⟨m2, e2, m1, f1, p2⟩

theorem strKeys_mapEq_none {kvs kvs' : List (V × V)} (h : MapEq kvs kvs') (hm : strKeys? kvs = none) :
    strKeys? kvs' = none := by
  cases h' : strKeys? kvs' with
  | none => rfl
  | some m' =>
    obtain ⟨m, e, _⟩ := strKeys_mapEq h.symm h'
    rw [hm] at e; cases e

theorem toStrAny_sMapEq {m m' : List (String × V)} (h : SMapEq m m') : toStrAny m ≈ᵥ toStrAny m' := by
  unfold toStrAny
  exact V.permEq_map_of (h.map (fun a b hab => by
    obtain ⟨a1, a2⟩ := a; obtain ⟨b1, b2⟩ := b
    obtain ⟨e, hv⟩ := hab
    simp only at e hv; subst e
    exact ⟨.refl _, hv⟩))

theorem hasKey_eq_any {α} (k : String) (m : List (String × α)) : hasKey k m = m.any (fun kv => k == kv.1) := by
  unfold hasKey
  induction m with
  | nil => rfl
  | cons p rest ih =>
    obtain ⟨k', v⟩ := p
    simp only [lookupS, List.any_cons]
    cases hk : (k == k') <;> simp [ih]

theorem hasKey_iff_mem {α} (k : String) (m : List (String × α)) : hasKey k m = true ↔ k ∈ m.map Prod.fst := by
  rw [hasKey_eq_any]
  simp only [List.any_eq_true, beq_iff_eq, List.mem_map]
  constructor
  · rintro ⟨kv, hm, rfl⟩; exact ⟨kv, hm, rfl⟩
  · rintro ⟨kv, hm, rfl⟩; exact ⟨kv, hm, rfl⟩

theorem hasKey_sMapEq {m m' : List (String × V)} (h : SMapEq m m') (k : String) : hasKey k m = hasKey k m' := by
  rw [hasKey_eq_any, hasKey_eq_any]
  exact h.any_eq (fun a b hab => by rw [hab.1])

theorem keys_sMapEq {m m' : List (String × V)} (h : SMapEq m m') : (m.map Prod.fst).Perm (m'.map Prod.fst) :=
  h.map_perm (fun _ _ hab => hab.1)

theorem lookupS_none_iff {α} (k : String) (m : List (String × α)) : lookupS k m = none ↔ k ∉ m.map Prod.fst := by
  rw [← hasKey_iff_mem]
  unfold hasKey
  cases lookupS k m <;> simp

theorem lookupS_of_mem {α} {k : String} {a : α} : ∀ {m : List (String × α)}, (m.map Prod.fst).Nodup → (k, a) ∈ m →
    lookupS k m = some a
  | [], _, h => by cases h
  | (k', a') :: rest, hnd, h => by
    simp only [List.map_cons, List.nodup_cons] at hnd
    simp only [lookupS]
    cases h with
    | head => simp
    | tail _ hm =>
      have hne : (k == k') = false := by
        cases hk : (k == k') with
        | false => rfl
        | true =>
          have : k = k' := by simpa using hk
          subst this
          exact absurd (List.mem_map.mpr ⟨(k, a), hm, rfl⟩) hnd.1
      simp only [hne, Bool.false_eq_true, if_false]
      exact lookupS_of_mem hnd.2 hm

/-- with pairwise distinct keys, a lookup does not depend on the order of the entries -/
theorem lookupS_sMapEq {m m' : List (String × V)} (h : SMapEq m m') (hnd : (m.map Prod.fst).Nodup) (k : String) :
    ORel V.PermEq (lookupS k m) (lookupS k m') := by
  have hnd' : (m'.map Prod.fst).Nodup := (keys_sMapEq h).nodup_iff.mp hnd
  cases h1 : lookupS k m with
  | none =>
    have : lookupS k m' = none := by
      rw [lookupS_none_iff] at h1 ⊢
      exact fun hm => h1 ((keys_sMapEq h).mem_iff.mpr hm)
    rw [this]; trivial
  | some a =>
    obtain ⟨b, hb, hab⟩ := h.mem_left (lookupS_mem h1)
    obtain ⟨k', a'⟩ := b
    obtain ⟨e, hv⟩ := hab
    simp only at e hv; subst e
    rw [lookupS_of_mem hnd' hb]
    exact hv

theorem eraseKey_eq_filter {α} (k : String) (m : List (String × α)) :
    eraseKey k m = m.filter (fun kv => !(k == kv.1)) := by
  induction m with
  | nil => rfl
  | cons p rest ih =>
    obtain ⟨k', v⟩ := p
    simp only [eraseKey, List.filter_cons]
    cases hk : (k == k') <;> simp [ih]

theorem eraseKey_sMapEq {m m' : List (String × V)} (h : SMapEq m m') (k : String) :
    SMapEq (eraseKey k m) (eraseKey k m') := by
  rw [eraseKey_eq_filter, eraseKey_eq_filter]
  exact h.filter (fun a b hab => by rw [hab.1])

theorem eraseKey_keys_nodup {α} {m : List (String × α)} (hnd : (m.map Prod.fst).Nodup) (k : String) :
    ((eraseKey k m).map Prod.fst).Nodup := by
  rw [eraseKey_eq_filter]
  exact hnd.sublist ((List.filter_sublist ..).map _)

theorem eraseKey_mem' {α} {k : String} {m : List (String × α)} {kv : String × α} (h : kv ∈ eraseKey k m) :
    kv ∈ m ∧ kv.1 ≠ k := by
  rw [eraseKey_eq_filter, List.mem_filter] at h
  refine ⟨h.1, ?_⟩
  intro e
  have := h.2
  simp [e] at this

theorem eraseKey_of_not_mem {α} {k : String} : ∀ {m : List (String × α)}, k ∉ m.map Prod.fst → eraseKey k m = m
  | [], _ => rfl
  | (k', v) :: rest, h => by
    simp only [List.map_cons, List.mem_cons, not_or] at h
    have hne : (k == k') = false := by simpa using h.1
    simp only [eraseKey, hne, Bool.false_eq_true, if_false, eraseKey_of_not_mem h.2]

/-- with distinct keys `m[k] = v` is: drop the old entry, add the new one -/
theorem setKey_perm {α} (k : String) (v : α) : ∀ {m : List (String × α)}, (m.map Prod.fst).Nodup →
    (setKey k v m).Perm ((k, v) :: eraseKey k m)
  | [], _ => by simp [setKey, eraseKey]
  | (k', v') :: rest, hnd => by
    simp only [List.map_cons, List.nodup_cons] at hnd
    simp only [setKey, eraseKey]
    cases hk : (k == k') with
    | true =>
      have : k = k' := by simpa using hk
      subst this
      simp only [if_true]
      rw [eraseKey_of_not_mem hnd.1]
    | false =>
      simp only [Bool.false_eq_true, if_false]
      exact ((setKey_perm k v hnd.2).cons _).trans (List.Perm.swap ..)

theorem setKey_sMapEq {m m' : List (String × V)} (h : SMapEq m m') (hnd : (m.map Prod.fst).Nodup) (k : String)
    {v v' : V} (hv : v ≈ᵥ v') : SMapEq (setKey k v m) (setKey k v' m') := by
  have hnd' : (m'.map Prod.fst).Nodup := (keys_sMapEq h).nodup_iff.mp hnd
  have h1 : SMapEq ((k, v) :: eraseKey k m) ((k, v') :: eraseKey k m') := PermRel.cons ⟨rfl, hv⟩ (eraseKey_sMapEq h k)
  exact (h1.permL (setKey_perm k v hnd).symm).permR (setKey_perm k v' hnd').symm

theorem setKey_keys_nodup {α} {m : List (String × α)} (hnd : (m.map Prod.fst).Nodup) (k : String) (v : α) :
    ((setKey k v m).map Prod.fst).Nodup := by
  have hp := ((setKey_perm k v hnd).map Prod.fst)
  refine hp.nodup_iff.mpr ?_
  simp only [List.map_cons, List.nodup_cons]
  refine ⟨?_, eraseKey_keys_nodup hnd k⟩
  intro hm
  obtain ⟨kv, hkv, e⟩ := List.mem_map.mp hm
  exact (eraseKey_mem' hkv).2 e

/-! ### genuine Go maps: pairwise distinct string keys

A Go `map` holds each key once. The association lists of the model can repeat a key; on such a
list the FIRST entry with a key answers a lookup (`lookupS`, `find?`), so which entry answers would
depend on the order. `V.DistinctKeys v` rules these non-values out: in every map inside `v`, at
every depth, the keys of the form `.str s` are pairwise distinct. (Only string keys are ever looked
up; nothing is asked of other keys - a Go `map[any]any` may well hold two NaN keys.) -/

def V.strKey? : V → Option String
  | .str s => some s
  | _ => none

/-- the string keys of an entry list, in order -/
def strKeysOf (kvs : List (V × V)) : List String := kvs.filterMap fun kv => kv.1.strKey?

inductive V.DistinctKeys : V → Prop
  | nil : V.DistinctKeys .nil
  | bool (b : Bool) : V.DistinctKeys (.bool b)
  | int (k : IKind) (n : Int) : V.DistinctKeys (.int k n)
  | float (k : FKind) (b : Nat) : V.DistinctKeys (.float k b)
  | str (s : String) : V.DistinctKeys (.str s)
  | bytes (b : List Nat) : V.DistinctKeys (.bytes b)
  | regex (s : String) : V.DistinctKeys (.regex s)
  | opaque : V.DistinctKeys .opaque
  | named {v : V} : V.DistinctKeys v → V.DistinctKeys (.named v)
  | list {xs : List V} : (∀ x, x ∈ xs → V.DistinctKeys x) → V.DistinctKeys (.list xs)
  | map {sh : MapShape} {kvs : List (V × V)} : (strKeysOf kvs).Nodup →
      (∀ kv, kv ∈ kvs → V.DistinctKeys kv.1) → (∀ kv, kv ∈ kvs → V.DistinctKeys kv.2) → V.DistinctKeys (.map sh kvs)

/-- the top-level part of `DistinctKeys` -/
def V.TopDistinct : V → Prop
  | .map _ kvs => (strKeysOf kvs).Nodup
  | _ => True

theorem V.DistinctKeys.top {v : V} (h : v.DistinctKeys) : v.TopDistinct := by
  cases h <;> simp_all [V.TopDistinct]

theorem V.PermEq.strKey? {v w : V} (h : v ≈ᵥ w) : v.strKey? = w.strKey? := by
  cases h <;> rfl

theorem strKeysOf_mapEq {kvs kvs' : List (V × V)} (h : MapEq kvs kvs') : (strKeysOf kvs).Perm (strKeysOf kvs') :=
  h.filterMap_perm (fun _ _ hab => hab.1.strKey?)

theorem strKeysOf_of_strKeys : ∀ {kvs : List (V × V)} {m : List (String × V)}, strKeys? kvs = some m →
    strKeysOf kvs = m.map Prod.fst
  | [], m, h => by simp only [strKeys?, Option.some.injEq] at h; subst h; rfl
  | (k, v) :: rest, m, h => by
    cases k <;> simp only [strKeys?, Option.map_eq_some_iff, reduceCtorEq] at h
    obtain ⟨m0, h0, rfl⟩ := h
    simp only [strKeysOf, List.filterMap_cons, V.strKey?, List.map_cons]
    exact congrArg _ (strKeysOf_of_strKeys h0)

theorem strKeys_mem' {kvs : List (V × V)} {m : List (String × V)} (h : strKeys? kvs = some m) {kv : String × V}
    (hm : kv ∈ m) : (V.str kv.1, kv.2) ∈ kvs := by
  have hf := (strKeys_iff_forall2.mp h).flipR (S := fun b a => a.1 = V.str b.1 ∧ a.2 = b.2) (fun _ _ x => x)
  obtain ⟨a, ha, e1, e2⟩ := hf.mem_left hm
  obtain ⟨a1, a2⟩ := a
  simp only at e1 e2; subst e1 e2
  exact ha

theorem strKeysOf_toStrAny (m : List (String × V)) : strKeysOf (m.map fun (k, v) => (V.str k, v)) = m.map Prod.fst := by
  induction m with
  | nil => rfl
  | cons p rest ih =>
    obtain ⟨k, v⟩ := p
    simp only [strKeysOf, List.map_cons, List.filterMap_cons, V.strKey?] at ih ⊢
    rw [ih]

theorem V.topDistinct_toStrAny {m : List (String × V)} : (toStrAny m).TopDistinct ↔ (m.map Prod.fst).Nodup := by
  simp only [toStrAny, V.TopDistinct, strKeysOf_toStrAny]

theorem V.distinctKeys_toStrAny {m : List (String × V)} (hnd : (m.map Prod.fst).Nodup)
    (hv : ∀ kv, kv ∈ m → kv.2.DistinctKeys) : (toStrAny m).DistinctKeys := by
  unfold toStrAny
  refine .map ?_ ?_ ?_
  · rw [strKeysOf_toStrAny]; exact hnd
  · intro kv hkv
    obtain ⟨⟨k, v⟩, _, rfl⟩ := List.mem_map.mp hkv
    exact .str k
  · intro kv hkv
    obtain ⟨⟨k, v⟩, hm, rfl⟩ := List.mem_map.mp hkv
    exact hv _ hm

/-- what `DistinctKeys` of a map gives for its string-keyed view -/
theorem V.DistinctKeys.strView {sh : MapShape} {kvs : List (V × V)} {m : List (String × V)}
    (h : (V.map sh kvs).DistinctKeys) (hm : strKeys? kvs = some m) :
    (m.map Prod.fst).Nodup ∧ ∀ kv, kv ∈ m → kv.2.DistinctKeys := by
  cases h with
  | map hnd _ hv =>
    refine ⟨by rw [← strKeysOf_of_strKeys hm]; exact hnd, ?_⟩
    intro kv hkv
    exact hv _ (strKeys_mem' hm hkv)

theorem V.DistinctKeys.entries {sh : MapShape} {kvs : List (V × V)} (h : (V.map sh kvs).DistinctKeys) :
    ∀ kv, kv ∈ kvs → kv.1.DistinctKeys ∧ kv.2.DistinctKeys := by
  cases h with
  | map _ hk hv => exact fun kv hkv => ⟨hk kv hkv, hv kv hkv⟩

theorem V.DistinctKeys.elems {xs : List V} (h : (V.list xs).DistinctKeys) : ∀ x, x ∈ xs → x.DistinctKeys := by
  cases h with
  | list hx => exact hx

/-- the clone a one-of hands to its member (all entries, or all but the discriminator) -/
theorem V.DistinctKeys.clone {sh : MapShape} {kvs : List (V × V)} {m : List (String × V)}
    (h : (V.map sh kvs).DistinctKeys) (hm : strKeys? kvs = some m) (inlined : Bool) (disc : String) :
    (toStrAny (if inlined then m else eraseKey disc m)).DistinctKeys := by
  obtain ⟨hnd, hv⟩ := h.strView hm
  cases inlined
  · simp only [Bool.false_eq_true, if_false]
    exact V.distinctKeys_toStrAny (eraseKey_keys_nodup hnd disc) (fun kv hkv => hv kv (eraseKey_mem' hkv).1)
  · simp only [if_true]
    exact V.distinctKeys_toStrAny hnd hv

/-- `DistinctKeys` is a property of the value up to order -/
theorem V.PermEq.distinctKeys {v w : V} (h : v ≈ᵥ w) : v.DistinctKeys → w.DistinctKeys := by
  induction h with
  | named _ ih => intro hd; cases hd with | named hd' => exact .named (ih hd')
  | @listCons x y xs ys _ _ ih1 ih2 =>
    intro hd
    have hx := hd.elems
    have h1 := ih1 (hx x (List.mem_cons_self ..))
    have h2 := (ih2 (.list fun z hz => hx z (List.mem_cons_of_mem _ hz))).elems
    refine .list fun z hz => ?_
    cases hz with
    | head => exact h1
    | tail _ hz' => exact h2 z hz'
  | @mapCons sh k v k' v' rest pre post hk hv hr ihk ihv ihr =>
    intro hd
    have hfull : V.map sh ((k, v) :: rest) ≈ᵥ V.map sh (pre ++ (k', v') :: post) := .mapCons hk hv hr
    obtain ⟨_, hme⟩ := V.permEq_map_iff.mp hfull
    have he := hd.entries
    cases hd with
    | map hnd hks hvs =>
      have h1 := ihk (hks _ (List.mem_cons_self ..))
      have h2 := ihv (hvs _ (List.mem_cons_self ..))
      have hnd0 : (strKeysOf rest).Nodup := by
        have : (strKeysOf rest).Sublist (strKeysOf ((k, v) :: rest)) :=
          List.Sublist.filterMap _ (List.sublist_cons_self ..)
        exact hnd.sublist this
      have h3 := (ihr (.map hnd0 (fun kv hkv => hks kv (List.mem_cons_of_mem _ hkv))
        (fun kv hkv => hvs kv (List.mem_cons_of_mem _ hkv)))).entries
      refine .map ((strKeysOf_mapEq hme).nodup_iff.mp hnd) ?_ ?_
      · intro kv hkv
        rcases List.mem_append.mp hkv with hp | hp
        · exact (h3 kv (List.mem_append_left _ hp)).1
        · cases hp with
          | head => exact h1
          | tail _ hp' => exact (h3 kv (List.mem_append_right _ hp')).1
      · intro kv hkv
        rcases List.mem_append.mp hkv with hp | hp
        · exact (h3 kv (List.mem_append_left _ hp)).2
        · cases hp with
          | head => exact h2
          | tail _ hp' => exact (h3 kv (List.mem_append_right _ hp')).2
  | _ => exact id

/-! ### executable (sound) checks, for concrete instances -/

/-- executable check of `V.DistinctKeys` for values nested at most `n` deep -/
def distinctB : Nat → V → Bool
  | 0, _ => false
  | n + 1, .list xs => xs.all (distinctB n)
  | n + 1, .map _ kvs => decide (strKeysOf kvs).Nodup && kvs.all (fun kv => distinctB n kv.1 && distinctB n kv.2)
  | n + 1, .named v => distinctB n v
  | _ + 1, _ => true

theorem distinctB_sound : ∀ (n : Nat) (v : V), distinctB n v = true → v.DistinctKeys
  | 0, _, h => by simp [distinctB] at h
  | n + 1, v, h => by
    cases v with
    | list xs =>
      simp only [distinctB, List.all_eq_true] at h
      exact .list fun x hx => distinctB_sound n x (h x hx)
    | map sh kvs =>
      simp only [distinctB, Bool.and_eq_true, List.all_eq_true, decide_eq_true_eq] at h
      exact .map h.1 (fun kv hkv => distinctB_sound n _ (h.2 kv hkv).1) (fun kv hkv => distinctB_sound n _ (h.2 kv hkv).2)
    | named w =>
      simp only [distinctB] at h
      exact .named (distinctB_sound n w h)
    | _ => constructor

def all2B {α β} (p : α → β → Bool) : List α → List β → Bool
  | [], [] => true
  | a :: as, b :: bs => p a b && all2B p as bs
  | _, _ => false

/-- remove the first element satisfying `p` -/
def extractB {β} (p : β → Bool) : List β → Option (List β)
  | [] => none
  | b :: bs => if p b then some bs else (extractB p bs).map (b :: ·)

/-- greedy matching of the elements of the left list against the right list -/
def permAll2B {α β} (p : α → β → Bool) : List α → List β → Bool
  | [], bs => bs.isEmpty
  | a :: as, bs =>
    match extractB (p a) bs with
    | some bs' => permAll2B p as bs'
    | none => false

theorem all2B_sound {α β} {p : α → β → Bool} {R : α → β → Prop} : ∀ {as : List α} {bs : List β},
    (∀ a b, a ∈ as → p a b = true → R a b) → all2B p as bs = true → Forall2 R as bs
  | [], [], _, _ => .nil
  | [], _ :: _, _, h => by simp [all2B] at h
  | _ :: _, [], _, h => by simp [all2B] at h
  | a :: as, b :: bs, hp, h => by
    simp only [all2B, Bool.and_eq_true] at h
    exact .cons (hp a b (List.mem_cons_self ..) h.1)
      (all2B_sound (fun a' b' ha' => hp a' b' (List.mem_cons_of_mem _ ha')) h.2)

theorem extractB_sound {β} {p : β → Bool} : ∀ {bs bs' : List β}, extractB p bs = some bs' →
    ∃ pre b post, bs = pre ++ b :: post ∧ p b = true ∧ bs' = pre ++ post
  | [], _, h => by simp [extractB] at h
  | b :: bs, bs', h => by
    simp only [extractB] at h
    split at h
    · rename_i hb
      simp only [Option.some.injEq] at h; subst h
      exact ⟨[], b, bs, rfl, hb, rfl⟩
    · simp only [Option.map_eq_some_iff] at h
      obtain ⟨r, hr, rfl⟩ := h
      obtain ⟨pre, c, post, rfl, hc, rfl⟩ := extractB_sound hr
      exact ⟨b :: pre, c, post, rfl, hc, rfl⟩

theorem permAll2B_sound {α β} {p : α → β → Bool} {R : α → β → Prop} : ∀ {as : List α} {bs : List β},
    (∀ a b, a ∈ as → p a b = true → R a b) → permAll2B p as bs = true → PermRel R as bs
  | [], bs, _, h => by
    simp only [permAll2B, List.isEmpty_iff] at h; subst h; exact .nil
  | a :: as, bs, hp, h => by
    simp only [permAll2B] at h
    split at h
    · rename_i bs' he
      obtain ⟨pre, b, post, rfl, hb, rfl⟩ := extractB_sound he
      have ih : PermRel R as (pre ++ post) :=
        permAll2B_sound (fun a' b' ha' => hp a' b' (List.mem_cons_of_mem _ ha')) h
      exact (PermRel.cons (hp a b (List.mem_cons_self ..) hb) ih).permR List.perm_middle.symm
    · simp at h

/-- executable (sound, greedy) check of `V.PermEq` for values nested at most `n` deep -/
def permEqB : Nat → V → V → Bool
  | 0, _, _ => false
  | _ + 1, .nil, .nil => true
  | _ + 1, .bool a, .bool b => a == b
  | _ + 1, .int k a, .int k' b => k == k' && a == b
  | _ + 1, .float k a, .float k' b => k == k' && a == b
  | _ + 1, .str a, .str b => a == b
  | _ + 1, .bytes a, .bytes b => a == b
  | _ + 1, .regex a, .regex b => a == b
  | _ + 1, .opaque, .opaque => true
  | n + 1, .named v, .named w => permEqB n v w
  | n + 1, .list xs, .list ys => all2B (permEqB n) xs ys
  | n + 1, .map sh kvs, .map sh' kvs' =>
    sh == sh' && permAll2B (fun a b => permEqB n a.1 b.1 && permEqB n a.2 b.2) kvs kvs'
  | _ + 1, _, _ => false

theorem permEqB_sound : ∀ (n : Nat) (v w : V), permEqB n v w = true → v ≈ᵥ w
  | 0, _, _, h => by simp [permEqB] at h
  | n + 1, v, w, h => by
    have ih := permEqB_sound n
    cases v <;> cases w <;> simp only [permEqB, Bool.and_eq_true, beq_iff_eq, Bool.false_eq_true] at h
    case nil.nil => exact .nil
    case bool.bool => subst h; exact .bool _
    case int.int => obtain ⟨rfl, rfl⟩ := h; exact .int _ _
    case float.float => obtain ⟨rfl, rfl⟩ := h; exact .float _ _
    case str.str => subst h; exact .str _
    case bytes.bytes => subst h; exact .bytes _
    case regex.regex => subst h; exact .regex _
    case opaque.opaque => exact .opaque
    case named.named => exact .named (ih _ _ h)
    case list.list => exact V.permEq_list_of (all2B_sound (fun a b _ hab => ih a b hab) h)
    case map.map =>
      obtain ⟨rfl, h2⟩ := h
      refine V.permEq_map_of (permAll2B_sound (fun a b _ hab => ?_) h2)
      simp only [Bool.and_eq_true] at hab
      exact ⟨ih _ _ hab.1, ih _ _ hab.2⟩

end Arca
