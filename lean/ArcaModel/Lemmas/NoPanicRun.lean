import ArcaModel.Lemmas.NoPanic
import ArcaModel.Model.WF
/-
  `run` never panics on well-formed schemas.
-/
namespace Arca
open Out

/-- the recursive call does not panic on the given sub-schema -/
def RecNP (rec : Rec) (env : Env) (t : Ty) : Prop := ∀ op v, NP (rec op env t v)

theorem np_runList {rec : Rec} {env : Env} {item : Ty} (h : RecNP rec env item) (op : Op) (a b : Option Int) (v : V) :
    NP (runList rec op env item a b v) := by
  unfold runList
  split
  · simp
  · cases op <;> simp only
    · exact np_bind (np_checkLen _ _ _) (fun _ => np_bind (np_forIdx (fun i e => np_addSeg _ (h _ e)) _ _) (fun _ => by simp))
    · exact np_bind (np_checkLen _ _ _) (fun _ => np_bind (np_forIdx (fun i e => np_addSeg _ (h _ e)) _ _) (fun _ => np_done))
    · exact np_bind (np_checkLen _ _ _) (fun _ => np_bind (np_forIdx (fun i e => np_addSeg _ (h _ e)) _ _)
        (fun _ => np_bind (np_forIdx (fun i e => np_addSeg _ (h _ e)) _ _) (fun _ => by simp)))
    · exact np_bind (np_forIdx (fun i e => np_addSeg _ (h _ e)) _ _) (fun _ => np_done)

theorem np_entryKV {rec : Rec} {env : Env} {kt vt : Ty} (hk : RecNP rec env kt) (hv : RecNP rec env vt)
    (op : Op) (k e : V) : NP (entryKV rec op env kt vt k e) := by
  unfold entryKV
  exact np_bind (np_addSeg _ (hk _ _)) (fun _ => np_bind (np_addSeg _ (hv _ _)) (fun _ => by simp))

theorem np_runMap {rec : Rec} {env : Env} {kt vt : Ty} (hk : RecNP rec env kt) (hv : RecNP rec env vt)
    (op : Op) (a b : Option Int) (v : V) : NP (runMap rec op env kt vt a b v) := by
  unfold runMap
  split
  · simp
  · refine np_bind (np_checkLen _ _ _) (fun _ => ?_)
    cases op <;> simp only
    · exact np_bind (np_forKV (np_entryKV hk hv _) _) (fun _ => by split <;> simp)
    · exact np_bind (np_forKV (np_entryKV hk hv _) _) (fun _ => np_done)
    · exact np_bind (np_forKV (np_entryKV hk hv _) _) (fun _ => np_bind (np_forKV (np_entryKV hk hv _) _) (fun _ => by simp))
    · exact np_bind (np_forKV (np_entryKV hk hv _) _) (fun _ => np_done)

theorem np_interdeps (props : List (String × PropT)) (isSet : String → Bool) : NP (interdeps props isSet) := by
  unfold interdeps
  induction props with
  | nil => simp [interdeps.go]
  | cons p rest ih =>
    obtain ⟨id, p⟩ := p
    simp only [interdeps.go]
    (repeat' split) <;> first | exact ih | simp

theorem np_applyDefaults : ∀ (props : List (String × PropT)) (m : List (String × V)),
    (∀ np, np ∈ props → np.2.defaultV ≠ some none) → NP (applyDefaults props m)
  | [], m, _ => by simp [applyDefaults]
  | (id, p) :: rest, m, h => by
    have hp := h (id, p) (by simp)
    have hr : ∀ np, np ∈ rest → np.2.defaultV ≠ some none := fun np hnp => h np (List.mem_cons_of_mem _ hnp)
    simp only [applyDefaults]
    split
    · exact np_applyDefaults rest m hr
    · split
      · exact np_applyDefaults rest m hr
      · simp_all
      · exact np_applyDefaults rest _ hr

theorem np_objEntryU {rec : Rec} {env : Env} {props : List (String × PropT)}
    (h : ∀ np, np ∈ props → RecNP rec env np.2.ty) (k : String) (d : V) : NP (objEntryU rec env props k d) := by
  unfold objEntryU
  split
  · simp
  · rename_i p hp
    split
    · simp
    · exact np_addSeg _ (h (k, p) (lookupS_mem hp) .U d)

theorem mem_of_lookupS_props {k : String} {props : List (String × PropT)} {p : PropT}
    (h : lookupS k props = some p) : (k, p) ∈ props := lookupS_mem h

theorem np_objRaw {rec : Rec} {env : Env} {props : List (String × PropT)}
    (hrec : ∀ np, np ∈ props → RecNP rec env np.2.ty)
    (hdef : ∀ np, np ∈ props → np.2.defaultV ≠ some none) (v : V) : NP (objRaw rec env props v) := by
  unfold objRaw
  split
  · split
    · rename_i name p
      split
      · simp
      · exact np_bind (np_rewrapP (hrec (name, p) (by simp) .U v)) (fun _ => by simp)
    · simp
  · split
    · simp
    · split
      · simp
      · exact np_bind (np_applyDefaults _ _ hdef) (fun _ => np_forSV (np_objEntryU hrec) _)

theorem np_objCompatMap {rec : Rec} {env : Env} {props : List (String × PropT)}
    (hrec : ∀ np, np ∈ props → RecNP rec env np.2.ty) (m : List (String × V)) : NP (objCompatMap rec env props m) := by
  unfold objCompatMap
  refine np_bind (np_forSV (fun k e => ?_) _) (fun _ => by split <;> simp [np_done])
  split
  · simp
  · rename_i p hp
    exact np_addSeg _ (np_bind (np_rewrapC (hrec (k, p) (lookupS_mem hp) .C e)) (fun _ => by split <;> simp [np_done]))

theorem np_runObj {rec : Rec} {env : Env} {id : String} {props : List (String × PropT)}
    (hrec : ∀ np, np ∈ props → RecNP rec env np.2.ty)
    (hdef : ∀ np, np ∈ props → np.2.defaultV ≠ some none)
    (hself : RecNP rec env (.obj id props)) (op : Op) (v : V) : NP (runObj rec op env id props v) := by
  unfold runObj
  have hVS : ∀ (op : Op), NP (match v with
      | .map ⟨.string, true⟩ kvs =>
        match strKeys? kvs with
        | none => .cerr
        | some m =>
          (interdeps props (fun k => hasKey k m)).bind fun _ =>
            (forSV (objEntry rec op env props) m).bind fun m' =>
              if op == .V then done else .ok (toStrAny m')
      | _ => .cerr) := by
    intro op
    split
    · split
      · simp
      · refine np_bind (np_interdeps _ _) (fun _ => np_bind (np_forSV (fun k e => ?_) _) (fun _ => by split <;> simp [np_done]))
        unfold objEntry
        split
        · simp
        · rename_i p hp
          exact np_addSeg _ (hrec (k, p) (lookupS_mem hp) op e)
    · simp
  cases op <;> simp only
  · exact np_bind (np_objRaw hrec hdef v) (fun _ => np_bind (np_interdeps _ _) (fun _ => by simp))
  · exact hVS .V
  · exact hVS .S
  · split
    · split
      · simp
      · exact np_objCompatMap hrec _
    · exact np_bind (np_rewrapC (hself .U v)) (fun _ => np_done)

end Arca

namespace Arca
open Out

/-- Serialize through the recursive call yields a `map[string]any` on this sub-schema -/
def RecObjS (rec : Rec) (env : Env) (t : Ty) : Prop := ∀ v r, rec .S env t v = .ok r → ∃ m, r = toStrAny m

theorem np_oneOfSelect {rec : Rec} {env : Env} {intKey : Bool} {disc : String} {inlined : Bool}
    {members : List (Key × Ty)} (hrec : ∀ m, m ∈ members → RecNP rec env m.2) (compat : Bool) (m : List (String × V)) :
    NP (oneOfSelect rec env intKey disc inlined members compat m) := by
  unfold oneOfSelect
  simp only
  split
  · simp
  · split
    · simp
    · rename_i key _ _ mt hmt
      split
      · exact np_bind (np_rewrapC (hrec (key, mt) (lookupK_mem hmt) .C _)) (fun _ => by simp)
      · simp

theorem oneOfSelect_mem {rec : Rec} {env : Env} {intKey : Bool} {disc : String} {inlined : Bool}
    {members : List (Key × Ty)} {compat : Bool} {m : List (String × V)} {sel : Key × Ty × List (String × V)}
    (h : oneOfSelect rec env intKey disc inlined members compat m = .ok sel) : (sel.1, sel.2.1) ∈ members := by
  unfold oneOfSelect at h
  simp only at h
  split at h
  · simp [cerr] at h
  · split at h
    · simp [cerr] at h
    · rename_i key _ _ mt hmt
      split at h
      · cases hc : rewrapC (rec .C env mt (toStrAny (if inlined = true then m else eraseKey disc m))) <;>
          simp_all [Out.bind]
        subst h
        exact lookupK_mem hmt
      · simp at h
        subst h
        exact lookupK_mem hmt

theorem np_oneOfUnser {rec : Rec} {x : Ext} {env : Env} {intKey : Bool} {disc : String} {inlined : Bool}
    {members : List (Key × Ty)} (hrec : ∀ m, m ∈ members → RecNP rec env m.2) (v : V) :
    NP (oneOfUnser rec x env intKey disc inlined members v) := by
  unfold oneOfUnser
  split
  · simp
  · split
    · simp
    · split
      · simp
      · split
        · simp
        · simp only
          refine np_bind ?_ (fun key => ?_)
          · split
            · exact np_bind (np_rewrapC (np_intInputMapper _ _)) (fun _ => by simp)
            · exact np_bind (np_rewrapC (np_stringInputMapper _ _)) (fun _ => by simp)
          · split
            · simp
            · split
              · simp
              · rename_i mt hmt
                refine np_bind (hrec (key, mt) (lookupK_mem hmt) .U _) (fun r => ?_)
                (repeat' split) <;> simp

theorem strKeys_toStrAny (m : List (String × V)) :
    strKeys? (m.map fun (kv : String × V) => (V.str kv.1, kv.2)) = some m := by
  induction m with
  | nil => simp [strKeys?]
  | cons p rest ih =>
    obtain ⟨k, v⟩ := p
    simp [strKeys?, ih]

theorem np_runOneOf {rec : Rec} {x : Ext} {env : Env} {intKey : Bool} {disc : String} {inlined : Bool}
    {members : List (Key × Ty)} (hrec : ∀ m, m ∈ members → RecNP rec env m.2)
    (hobj : ∀ m, m ∈ members → RecObjS rec env m.2) (op : Op) (v : V) :
    NP (runOneOf rec x op env intKey disc inlined members v) := by
  unfold runOneOf
  cases op <;> simp only
  · exact np_oneOfUnser hrec v
  · split
    · split
      · simp
      · refine np_bind' (np_oneOfSelect hrec _ _) (fun sel hs => ?_)
        exact np_bind (np_addSeg _ (hrec _ (oneOfSelect_mem hs) .V _)) (fun _ => np_done)
    · simp
  · split
    · split
      · simp
      · refine np_bind' (np_oneOfSelect hrec _ _) (fun sel hs => ?_)
        have hm := oneOfSelect_mem hs
        refine np_bind' (hrec _ hm .S _) (fun r hr => ?_)
        obtain ⟨rm, hrm⟩ := hobj _ hm _ _ hr
        subst hrm
        simp only [toStrAny, MapShape.strAny, strKeys_toStrAny]
        simp
    · simp
  · split
    · split
      · simp
      · exact np_bind (np_oneOfSelect hrec _ _) (fun _ => np_done)
    · simp

end Arca

namespace Arca
open Out

theorem runObj_S_strAny {rec : Rec} {env : Env} {id : String} {props : List (String × PropT)} {v r : V}
    (h : runObj rec .S env id props v = .ok r) : ∃ m, r = toStrAny m := by
  unfold runObj at h
  simp only at h
  split at h
  · split at h
    · simp [cerr] at h
    · obtain ⟨_, _, h2⟩ := bind_eq_ok h
      obtain ⟨m', _, h3⟩ := bind_eq_ok h2
      simp at h3
      exact ⟨m', h3.symm⟩
  · simp [cerr] at h

/-- Joint statement proved by induction on the fuel: no panic, and Serialize of an object-like
    schema yields a `map[string]any`. -/
theorem run_np_aux (x : Ext) : ∀ (fuel : Nat) (op : Op) (env : Env) (t : Ty) (v : V),
    EnvWF env → WF env t →
      NP (run x fuel op env t v) ∧ (ObjLike env t → ∀ r, run x fuel .S env t v = .ok r → ∃ m, r = toStrAny m)
  | 0, op, env, t, v, _, _ => by simp [run]
  | n + 1, op, env, t, v, henv, hwf => by
    have ih := run_np_aux x n
    have recNP : ∀ {env : Env} {t : Ty}, EnvWF env → WF env t → RecNP (run x n) env t :=
      fun he ht op v => (ih op _ _ v he ht).1
    have recObj : ∀ {env : Env} {t : Ty}, EnvWF env → WF env t → ObjLike env t → RecObjS (run x n) env t :=
      fun he ht ho v r hr => (ih .S _ _ v he ht).2 ho r hr
    cases hwf with
    | int => exact ⟨by simp only [run]; exact np_runInt _ _ _ _ _, fun h => by simp [ObjLike] at h⟩
    | float => exact ⟨by simp only [run]; exact np_runFloat _ _ _ _ _ _, fun h => by simp [ObjLike] at h⟩
    | str => exact ⟨by simp only [run]; exact np_runStr _ _ _ _ _ _, fun h => by simp [ObjLike] at h⟩
    | bool => exact ⟨by simp only [run]; exact np_runBool _ _, fun h => by simp [ObjLike] at h⟩
    | pattern => exact ⟨by simp only [run]; exact np_runPattern _ _ _, fun h => by simp [ObjLike] at h⟩
    | enumInt => exact ⟨by simp only [run]; exact np_runEnumInt _ _ _ _, fun h => by simp [ObjLike] at h⟩
    | enumStr => exact ⟨by simp only [run]; exact np_runEnumStr _ _ _ _, fun h => by simp [ObjLike] at h⟩
    | any => exact ⟨by simp only [run]; exact np_runAny _ _ _, fun h => by simp [ObjLike] at h⟩
    | list hi =>
      exact ⟨by simp only [run]; exact np_runList (recNP henv hi) _ _ _ _, fun h => by simp [ObjLike] at h⟩
    | map hk hv =>
      exact ⟨by simp only [run]; exact np_runMap (recNP henv hk) (recNP henv hv) _ _ _ _, fun h => by simp [ObjLike] at h⟩
    | obj hp hd =>
      refine ⟨?_, fun _ r hr => ?_⟩
      · simp only [run]
        exact np_runObj (fun np hnp => recNP henv (hp np hnp)) hd (recNP henv (WF.obj hp hd)) _ _
      · simp only [run] at hr
        exact runObj_S_strAny hr
    | oneOf hm ho =>
      refine ⟨?_, fun h => by simp [ObjLike] at h⟩
      simp only [run]
      exact np_runOneOf (fun m hmm => recNP henv (hm m hmm)) (fun m hmm => recObj henv (hm m hmm) (ho m hmm)) _ _
    | ref hl =>
      rename_i id o
      have ho : WF env o := henv _ (lookupS_mem hl)
      refine ⟨?_, fun hobj r hr => ?_⟩
      · simp only [run, hl]
        exact (ih op env o v henv ho).1
      · simp only [run, hl] at hr
        obtain ⟨oid, ps, hl'⟩ := hobj
        rw [hl] at hl'
        cases hl'
        exact (ih .S env _ v henv ho).2 (by simp [ObjLike]) r hr
    | scope hl hobjs =>
      rename_i objs root o
      have ho : WF objs o := hobjs _ (lookupS_mem hl)
      refine ⟨?_, fun hobj r hr => ?_⟩
      · simp only [run, hl]
        exact (ih op objs o v hobjs ho).1
      · simp only [run, hl] at hr
        obtain ⟨oid, ps, hl'⟩ := hobj
        rw [hl] at hl'
        cases hl'
        exact (ih .S objs _ v hobjs ho).2 (by simp [ObjLike]) r hr

end Arca
