import ArcaModel.Lemmas.PermEqRun
import ArcaModel.Props.C03
/-
  The schema side of C12: schemas equal up to the order of their TABLES (an object's properties, a
  one-of's members, a scope's objects, an enum's values - all Go maps) at every depth, and the
  operations respect it.
-/
namespace Arca
open Out

/-- `t ≈ₜ t'`: the same schema up to the order of property tables, member tables, scope tables and
    enum value sets, at every depth. As for `V.PermEq` the list-level companions are encoded in the
    wrappers (`objCons`: the first property of the left table occurs, with a related type and the
    same declared rules, somewhere in the right table). -/
inductive Ty.PermEq : Ty → Ty → Prop
  | int (a b : Option Int) (u : Option Units) : Ty.PermEq (.int a b u) (.int a b u)
  | float (a b : Option Nat) (u : Option Units) : Ty.PermEq (.float a b u) (.float a b u)
  | str (a b : Option Int) (p : Option String) : Ty.PermEq (.str a b p) (.str a b p)
  | bool : Ty.PermEq .bool .bool
  | pattern : Ty.PermEq .pattern .pattern
  | any : Ty.PermEq .any .any
  | ref (id : String) : Ty.PermEq (.ref id) (.ref id)
  | enumInt {vals vals' : List Int} (u : Option Units) : vals.Perm vals' → Ty.PermEq (.enumInt vals u) (.enumInt vals' u)
  | enumStr {vals vals' : List String} : vals.Perm vals' → Ty.PermEq (.enumStr vals) (.enumStr vals')
  | list {item item' : Ty} (a b : Option Int) : Ty.PermEq item item' → Ty.PermEq (.list item a b) (.list item' a b)
  | map {k k' v v' : Ty} (a b : Option Int) : Ty.PermEq k k' → Ty.PermEq v v' → Ty.PermEq (.map k v a b) (.map k' v' a b)
  | objNil (id : String) : Ty.PermEq (.obj id []) (.obj id [])
  | objCons {id k : String} {ty ty' : Ty} {req : Bool} {rif rifn cf : List String} {dflt : Option DefaultV} {dis : Bool}
      {rest pre post : List (String × PropT)} :
      Ty.PermEq ty ty' → Ty.PermEq (.obj id rest) (.obj id (pre ++ post)) →
      Ty.PermEq (.obj id ((k, .mk ty req rif rifn cf dflt dis) :: rest))
        (.obj id (pre ++ (k, .mk ty' req rif rifn cf dflt dis) :: post))
  | oneOfNil (ik : Bool) (d : String) (inl : Bool) : Ty.PermEq (.oneOf ik d inl []) (.oneOf ik d inl [])
  | oneOfCons {ik : Bool} {d : String} {inl : Bool} {k : Key} {ty ty' : Ty} {rest pre post : List (Key × Ty)} :
      Ty.PermEq ty ty' → Ty.PermEq (.oneOf ik d inl rest) (.oneOf ik d inl (pre ++ post)) →
      Ty.PermEq (.oneOf ik d inl ((k, ty) :: rest)) (.oneOf ik d inl (pre ++ (k, ty') :: post))
  | scopeNil (root : String) : Ty.PermEq (.scope [] root) (.scope [] root)
  | scopeCons {root k : String} {ty ty' : Ty} {rest pre post : List (String × Ty)} :
      Ty.PermEq ty ty' → Ty.PermEq (.scope rest root) (.scope (pre ++ post) root) →
      Ty.PermEq (.scope ((k, ty) :: rest) root) (.scope (pre ++ (k, ty') :: post) root)

@[inherit_doc] infix:50 " ≈ₜ " => Ty.PermEq

/-- properties with related types and the same declared rules, default and flags -/
def PropT.PermEq (p p' : PropT) : Prop :=
  p.ty ≈ₜ p'.ty ∧ p.required = p'.required ∧ p.requiredIf = p'.requiredIf ∧ p.requiredIfNot = p'.requiredIfNot ∧
    p.conflicts = p'.conflicts ∧ p.default = p'.default ∧ p.disabled = p'.disabled

def PropEntryEq (a b : String × PropT) : Prop := a.1 = b.1 ∧ a.2.PermEq b.2
def TyEntryEq {κ : Type} (a b : κ × Ty) : Prop := a.1 = b.1 ∧ a.2 ≈ₜ b.2

/-- property tables: same entries up to `≈ₜ`, in any order -/
abbrev PropsEq (ps ps' : List (String × PropT)) : Prop := PermRel PropEntryEq ps ps'
/-- member tables -/
abbrev MembersEq (ms ms' : List (Key × Ty)) : Prop := PermRel (TyEntryEq (κ := Key)) ms ms'
/-- scope tables / environments -/
abbrev EnvEq (env env' : Env) : Prop := PermRel (TyEntryEq (κ := String)) env env'

theorem Ty.permEq_obj_inv {t w : Ty} (h : t ≈ₜ w) :
    ∀ id props, t = .obj id props → ∃ props', w = .obj id props' ∧ PropsEq props props' := by
  induction h with
  | objNil id => intro id' props e; cases e; exact ⟨[], rfl, .nil⟩
  | @objCons id k ty ty' req rif rifn cf dflt dis rest pre post hty _ _ ih =>
    intro id' props e; cases e
    obtain ⟨props', e2, mid, f, p⟩ := ih _ _ rfl
    cases e2
    refine ⟨_, rfl, (k, .mk ty' req rif rifn cf dflt dis) :: mid, .cons ⟨rfl, hty, rfl, rfl, rfl, rfl, rfl, rfl⟩ f, ?_⟩
    exact (List.Perm.cons _ p).trans List.perm_middle.symm
  | _ => intro id props e; cases e

theorem Ty.permEq_obj_of {id : String} : ∀ {props props' : List (String × PropT)}, PropsEq props props' →
    Ty.obj id props ≈ₜ Ty.obj id props'
  | [], props', h => by
    obtain ⟨mid, f, p⟩ := h
    cases f
    have := p.symm.eq_nil
    subst this
    exact .objNil id
  | (k, pt) :: rest, props', h => by
    obtain ⟨mid, f, p⟩ := h
    cases f with
    | @cons _ b _ mid0 hab hrest =>
      obtain ⟨k', pt'⟩ := b
      have hm : (k', pt') ∈ props' := p.mem_iff.mp (List.mem_cons_self ..)
      obtain ⟨pre, post, rfl⟩ := List.append_of_mem hm
      have p0 : mid0.Perm (pre ++ post) := (p.trans List.perm_middle).cons_inv
      obtain ⟨ek, hty, e1, e2, e3, e4, e5, e6⟩ := hab
      cases pt with
      | mk ty req rif rifn cf dflt dis =>
        cases pt' with
        | mk ty' req' rif' rifn' cf' dflt' dis' =>
          simp only [PropT.ty, PropT.required, PropT.requiredIf, PropT.requiredIfNot, PropT.conflicts,
            PropT.default, PropT.disabled] at ek hty e1 e2 e3 e4 e5 e6
          subst ek e1 e2 e3 e4 e5 e6
          exact .objCons hty (Ty.permEq_obj_of ⟨mid0, hrest, p0⟩)

theorem Ty.permEq_oneOf_inv {t w : Ty} (h : t ≈ₜ w) :
    ∀ ik d inl ms, t = .oneOf ik d inl ms → ∃ ms', w = .oneOf ik d inl ms' ∧ MembersEq ms ms' := by
  induction h with
  | oneOfNil ik d inl => intro _ _ _ _ e; cases e; exact ⟨[], rfl, .nil⟩
  | @oneOfCons ik d inl k ty ty' rest pre post hty _ _ ih =>
    intro _ _ _ _ e; cases e
    obtain ⟨ms', e2, mid, f, p⟩ := ih _ _ _ _ rfl
    cases e2
    refine ⟨_, rfl, (k, ty') :: mid, .cons ⟨rfl, hty⟩ f, ?_⟩
    exact (List.Perm.cons _ p).trans List.perm_middle.symm
  | _ => intro _ _ _ _ e; cases e

theorem Ty.permEq_oneOf_of {ik : Bool} {d : String} {inl : Bool} : ∀ {ms ms' : List (Key × Ty)}, MembersEq ms ms' →
    Ty.oneOf ik d inl ms ≈ₜ Ty.oneOf ik d inl ms'
  | [], ms', h => by
    obtain ⟨mid, f, p⟩ := h
    cases f
    have := p.symm.eq_nil
    subst this
    exact .oneOfNil ik d inl
  | (k, ty) :: rest, ms', h => by
    obtain ⟨mid, f, p⟩ := h
    cases f with
    | @cons _ b _ mid0 hab hrest =>
      obtain ⟨k', ty'⟩ := b
      have hm : (k', ty') ∈ ms' := p.mem_iff.mp (List.mem_cons_self ..)
      obtain ⟨pre, post, rfl⟩ := List.append_of_mem hm
      have p0 : mid0.Perm (pre ++ post) := (p.trans List.perm_middle).cons_inv
      obtain ⟨ek, hty⟩ := hab
      simp only at ek hty; subst ek
      exact .oneOfCons hty (Ty.permEq_oneOf_of ⟨mid0, hrest, p0⟩)

theorem Ty.permEq_scope_inv {t w : Ty} (h : t ≈ₜ w) :
    ∀ objs root, t = .scope objs root → ∃ objs', w = .scope objs' root ∧ EnvEq objs objs' := by
  induction h with
  | scopeNil root => intro _ _ e; cases e; exact ⟨[], rfl, .nil⟩
  | @scopeCons root k ty ty' rest pre post hty _ _ ih =>
    intro _ _ e; cases e
    obtain ⟨objs', e2, mid, f, p⟩ := ih _ _ rfl
    cases e2
    refine ⟨_, rfl, (k, ty') :: mid, .cons ⟨rfl, hty⟩ f, ?_⟩
    exact (List.Perm.cons _ p).trans List.perm_middle.symm
  | _ => intro _ _ e; cases e

theorem Ty.permEq_scope_of {root : String} : ∀ {objs objs' : List (String × Ty)}, EnvEq objs objs' →
    Ty.scope objs root ≈ₜ Ty.scope objs' root
  | [], objs', h => by
    obtain ⟨mid, f, p⟩ := h
    cases f
    have := p.symm.eq_nil
    subst this
    exact .scopeNil root
  | (k, ty) :: rest, objs', h => by
    obtain ⟨mid, f, p⟩ := h
    cases f with
    | @cons _ b _ mid0 hab hrest =>
      obtain ⟨k', ty'⟩ := b
      have hm : (k', ty') ∈ objs' := p.mem_iff.mp (List.mem_cons_self ..)
      obtain ⟨pre, post, rfl⟩ := List.append_of_mem hm
      have p0 : mid0.Perm (pre ++ post) := (p.trans List.perm_middle).cons_inv
      obtain ⟨ek, hty⟩ := hab
      simp only at ek hty; subst ek
      exact .scopeCons hty (Ty.permEq_scope_of ⟨mid0, hrest, p0⟩)

theorem Ty.PermEq.refl : ∀ (t : Ty), t ≈ₜ t
  | .int a b u => .int a b u
  | .float a b u => .float a b u
  | .str a b p => .str a b p
  | .bool => .bool
  | .pattern => .pattern
  | .any => .any
  | .ref id => .ref id
  | .enumInt vals u => .enumInt u (.refl _)
  | .enumStr vals => .enumStr (.refl _)
  | .list item a b => .list a b (Ty.PermEq.refl item)
  | .map k v a b => .map a b (Ty.PermEq.refl k) (Ty.PermEq.refl v)
  | .obj id [] => .objNil id
  | .obj id ((k, .mk ty req rif rifn cf dflt dis) :: rest) =>
    @Ty.PermEq.objCons id k ty ty req rif rifn cf dflt dis rest [] rest (Ty.PermEq.refl ty) (Ty.PermEq.refl (.obj id rest))
  | .oneOf ik d inl [] => .oneOfNil ik d inl
  | .oneOf ik d inl ((k, ty) :: rest) =>
    @Ty.PermEq.oneOfCons ik d inl k ty ty rest [] rest (Ty.PermEq.refl ty) (Ty.PermEq.refl (.oneOf ik d inl rest))
  | .scope [] root => .scopeNil root
  | .scope ((k, ty) :: rest) root =>
    @Ty.PermEq.scopeCons root k ty ty rest [] rest (Ty.PermEq.refl ty) (Ty.PermEq.refl (.scope rest root))

theorem PropT.PermEq.refl (p : PropT) : p.PermEq p := ⟨.refl _, rfl, rfl, rfl, rfl, rfl, rfl⟩
theorem PropsEq.of_perm {ps ps' : List (String × PropT)} (h : ps.Perm ps') : PropsEq ps ps' :=
  PermRel.of_perm (fun a => ⟨rfl, PropT.PermEq.refl a.2⟩) h
theorem MembersEq.of_perm {ms ms' : List (Key × Ty)} (h : ms.Perm ms') : MembersEq ms ms' :=
  PermRel.of_perm (fun a => ⟨rfl, Ty.PermEq.refl a.2⟩) h
theorem EnvEq.of_perm {e e' : Env} (h : e.Perm e') : EnvEq e e' :=
  PermRel.of_perm (fun a => ⟨rfl, Ty.PermEq.refl a.2⟩) h
theorem EnvEq.refl (e : Env) : EnvEq e e := EnvEq.of_perm (.refl _)

/-! ### schemas whose tables are genuine Go maps -/

/-- every property table, member table and scope table inside `t` has pairwise distinct keys, and
    every default is a genuine Go value -/
inductive Ty.Distinct : Ty → Prop
  | int (a b : Option Int) (u : Option Units) : Ty.Distinct (.int a b u)
  | float (a b : Option Nat) (u : Option Units) : Ty.Distinct (.float a b u)
  | str (a b : Option Int) (p : Option String) : Ty.Distinct (.str a b p)
  | bool : Ty.Distinct .bool
  | pattern : Ty.Distinct .pattern
  | any : Ty.Distinct .any
  | ref (id : String) : Ty.Distinct (.ref id)
  | enumInt (vals : List Int) (u : Option Units) : Ty.Distinct (.enumInt vals u)
  | enumStr (vals : List String) : Ty.Distinct (.enumStr vals)
  | list {item : Ty} (a b : Option Int) : Ty.Distinct item → Ty.Distinct (.list item a b)
  | map {k v : Ty} (a b : Option Int) : Ty.Distinct k → Ty.Distinct v → Ty.Distinct (.map k v a b)
  | obj {id : String} {props : List (String × PropT)} : (props.map Prod.fst).Nodup →
      (∀ np, np ∈ props → Ty.Distinct np.2.ty) →
      (∀ np, np ∈ props → ∀ d, np.2.defaultV = some (some d) → d.DistinctKeys) → Ty.Distinct (.obj id props)
  | oneOf {ik : Bool} {d : String} {inl : Bool} {ms : List (Key × Ty)} : (ms.map Prod.fst).Nodup →
      (∀ m, m ∈ ms → Ty.Distinct m.2) → Ty.Distinct (.oneOf ik d inl ms)
  | scope {objs : List (String × Ty)} {root : String} : (objs.map Prod.fst).Nodup →
      (∀ p, p ∈ objs → Ty.Distinct p.2) → Ty.Distinct (.scope objs root)

/-- the environment is a genuine Go map of such schemas -/
def EnvDistinct (env : Env) : Prop := (env.map Prod.fst).Nodup ∧ ∀ p, p ∈ env → p.2.Distinct

/-! ### lookups in tables equal up to order -/

theorem lookupS_permRel {α β} {S : α → β → Prop} {m : List (String × α)} {m' : List (String × β)}
    (h : PermRel (fun a b => a.1 = b.1 ∧ S a.2 b.2) m m') (hnd : (m.map Prod.fst).Nodup) (k : String) :
    ORel S (lookupS k m) (lookupS k m') := by
  have hkeys : (m.map Prod.fst).Perm (m'.map Prod.fst) := h.map_perm (fun _ _ hab => hab.1)
  have hnd' : (m'.map Prod.fst).Nodup := hkeys.nodup_iff.mp hnd
  cases h1 : lookupS k m with
  | none =>
    have : lookupS k m' = none := by
      rw [lookupS_none_iff] at h1 ⊢
      exact fun hm => h1 (hkeys.mem_iff.mpr hm)
    rw [this]; trivial
  | some a =>
    obtain ⟨b, hb, hab⟩ := h.mem_left (lookupS_mem h1)
    obtain ⟨k', a'⟩ := b
    obtain ⟨e, hv⟩ := hab
    simp only at e hv; subst e
    rw [lookupS_of_mem hnd' hb]
    exact hv

theorem lookupK_none_iff {α} (k : Key) : ∀ (m : List (Key × α)), lookupK k m = none ↔ k ∉ m.map Prod.fst
  | [] => by simp [lookupK]
  | (k', v) :: rest => by
    simp only [lookupK, List.map_cons, List.mem_cons, not_or]
    by_cases hk : k = k'
    · subst hk; simp
    · have : (k == k') = false := by simpa using hk
      simp only [this, Bool.false_eq_true, if_false, lookupK_none_iff k rest]
      exact ⟨fun h => ⟨hk, h⟩, fun h => h.2⟩

theorem lookupK_of_mem {α} {k : Key} {a : α} : ∀ {m : List (Key × α)}, (m.map Prod.fst).Nodup → (k, a) ∈ m →
    lookupK k m = some a
  | [], _, h => by cases h
  | (k', a') :: rest, hnd, h => by
    simp only [List.map_cons, List.nodup_cons] at hnd
    simp only [lookupK]
    cases h with
    | head => simp
    | tail _ hm =>
      have hne : (k == k') = false := by
        cases hk : (k == k') with
        | false => rfl
        | true =>
          have : k = k' := by simpa using hk
          subst this
          exact absurd (List.mem_map.mpr ⟨(k, a), hm, rfl⟩) hnd.1
      simp only [hne, Bool.false_eq_true, if_false]
      exact lookupK_of_mem hnd.2 hm

theorem lookupK_permRel {α β} {S : α → β → Prop} {m : List (Key × α)} {m' : List (Key × β)}
    (h : PermRel (fun a b => a.1 = b.1 ∧ S a.2 b.2) m m') (hnd : (m.map Prod.fst).Nodup) (k : Key) :
    ORel S (lookupK k m) (lookupK k m') := by
  have hkeys : (m.map Prod.fst).Perm (m'.map Prod.fst) := h.map_perm (fun _ _ hab => hab.1)
  have hnd' : (m'.map Prod.fst).Nodup := hkeys.nodup_iff.mp hnd
  cases h1 : lookupK k m with
  | none =>
    have : lookupK k m' = none := by
      rw [lookupK_none_iff] at h1 ⊢
      exact fun hm => h1 (hkeys.mem_iff.mpr hm)
    rw [this]; trivial
  | some a =>
    obtain ⟨b, hb, hab⟩ := h.mem_left (lookupK_mem h1)
    obtain ⟨k', a'⟩ := b
    obtain ⟨e, hv⟩ := hab
    simp only at e hv; subst e
    rw [lookupK_of_mem hnd' hb]
    exact hv

/-! ### what `≈ₜ` preserves at the top -/

theorem Ty.PermEq.keyTy {t t' : Ty} (h : t ≈ₜ t') : t.keyTy = t'.keyTy := by cases h <;> rfl
theorem Ty.PermEq.reflectsAny {t t' : Ty} (h : t ≈ₜ t') : t.reflectsAny = t'.reflectsAny := by cases h <;> rfl

theorem PropT.PermEq.defaultV {p p' : PropT} (h : p.PermEq p') : p.defaultV = p'.defaultV := by
  obtain ⟨hty, _, _, _, _, hd, _⟩ := h
  cases p with
  | mk ty req rif rifn cf dflt dis =>
    cases p' with
    | mk ty' req' rif' rifn' cf' dflt' dis' =>
      simp only [PropT.ty, PropT.default] at hty hd
      subst hd
      simp only [PropT.defaultV, PropT.default, PropT.ty]
      cases dflt with
      | none => rfl
      | some d =>
        simp only
        cases d.d1 with
        | some v => rfl
        | none =>
          simp only
          cases hty <;> rfl

theorem contains_eq_of_perm {α} [BEq α] [LawfulBEq α] {l l' : List α} (h : l.Perm l') (a : α) : l.contains a = l'.contains a := by
  cases h1 : l.contains a <;> cases h2 : l'.contains a <;> try rfl
  · have : a ∈ l' := by simpa using h2
    have := h.mem_iff.mpr this
    simp_all
  · have : a ∈ l := by simpa using h1
    have := h.mem_iff.mp this
    simp_all

/-! ### defaults: one step at a time -/

/-- what `convertData`'s second loop does for one declared property -/
def defStep (ip : String × PropT) (m : List (String × V)) : Out (List (String × V)) :=
  if hasKey ip.1 m then .ok m else
  match ip.2.defaultV with
  | none => .ok m
  | some none => .panic
  | some (some d) => .ok (m ++ [(ip.1, d)])

theorem applyDefaults_cons (ip : String × PropT) (rest : List (String × PropT)) (m : List (String × V)) :
    applyDefaults (ip :: rest) m = (defStep ip m).bind (applyDefaults rest) := by
  obtain ⟨id, p⟩ := ip
  simp only [applyDefaults, defStep]
  split
  · rfl
  · cases p.defaultV with
    | none => rfl
    | some o => cases o <;> rfl

theorem applyDefaults_cons' (ip : String × PropT) (rest : List (String × PropT)) :
    applyDefaults (ip :: rest) = fun m => (defStep ip m).bind (applyDefaults rest) :=
  funext (applyDefaults_cons ip rest)

theorem hasKey_perm {α} {m m' : List (String × α)} (h : m.Perm m') (k : String) : hasKey k m = hasKey k m' :=
  hasKey_permRel (PermRel.of_perm (R := Eq) (fun _ => rfl) h) (fun _ _ hab => by rw [hab]) k

theorem defStep_perm (ip : String × PropT) {m m' : List (String × V)} (h : m.Perm m') :
    Out.Rel List.Perm (defStep ip m) (defStep ip m') := by
  unfold defStep
  rw [hasKey_perm h]
  split
  · exact Out.Rel.ok_ok.mpr h
  · cases ip.2.defaultV with
    | none => exact Out.Rel.ok_ok.mpr h
    | some o =>
      cases o with
      | none => simp
      | some d => exact Out.Rel.ok_ok.mpr (h.append (.refl _))

/-- the entries one step appends, given whether the property is present; `none` = the step panics -/
def defAdd (ip : String × PropT) (present : Bool) : Option (List (String × V)) :=
  if present then some [] else
  match ip.2.defaultV with
  | none => some []
  | some none => none
  | some (some d) => some [(ip.1, d)]

theorem defStep_eq (ip : String × PropT) (m : List (String × V)) :
    defStep ip m = match defAdd ip (hasKey ip.1 m) with
      | none => .panic
      | some l => .ok (m ++ l) := by
  unfold defStep defAdd
  cases hasKey ip.1 m
  · simp only [Bool.false_eq_true, if_false]
    cases ip.2.defaultV with
    | none => simp
    | some o => cases o <;> simp
  · simp

theorem defAdd_keys {ip : String × PropT} {pr : Bool} {l : List (String × V)} (h : defAdd ip pr = some l) :
    ∀ kv, kv ∈ l → kv.1 = ip.1 := by
  unfold defAdd at h
  split at h
  · simp only [Option.some.injEq] at h; subst h; intro kv hkv; cases hkv
  · split at h
    · simp only [Option.some.injEq] at h; subst h; intro kv hkv; cases hkv
    · cases h
    · simp only [Option.some.injEq] at h; subst h
      intro kv hkv
      simp only [List.mem_singleton] at hkv; subst hkv; rfl

theorem hasKey_append_of {k : String} {l : List (String × V)} (hl : ∀ kv, kv ∈ l → kv.1 ≠ k) (m : List (String × V)) :
    hasKey k (m ++ l) = hasKey k m := by
  rw [hasKey_append]
  have : hasKey k l = false := by
    cases hk : hasKey k l with
    | false => rfl
    | true =>
      obtain ⟨kv, hkv, e⟩ := List.mem_map.mp ((hasKey_iff_mem k l).mp hk)
      exact absurd e (hl kv hkv)
  rw [this, Bool.or_false]

/-- two properties with different names can be defaulted in either order -/
theorem defStep_swap {a b : String × PropT} (hne : a.1 ≠ b.1) {m m' : List (String × V)} (h : m.Perm m') :
    Out.Rel List.Perm ((defStep a m).bind (defStep b)) ((defStep b m').bind (defStep a)) := by
  have hne' : b.1 ≠ a.1 := fun e => hne e.symm
  have hb' : hasKey b.1 m' = hasKey b.1 m := (hasKey_perm h b.1).symm
  have ha' : hasKey a.1 m' = hasKey a.1 m := (hasKey_perm h a.1).symm
  rw [defStep_eq a m, defStep_eq b m', hb']
  cases hA : defAdd a (hasKey a.1 m) with
  | none =>
    cases hB : defAdd b (hasKey b.1 m) with
    | none => simp [Out.bind]
    | some lb =>
      simp only [Out.bind]
      rw [defStep_eq a (m' ++ lb), hasKey_append_of (fun kv hkv e => hne' ((defAdd_keys hB kv hkv).symm.trans e)), ha', hA]
      simp
  | some la =>
    simp only [Out.bind]
    rw [defStep_eq b (m ++ la), hasKey_append_of (fun kv hkv e => hne ((defAdd_keys hA kv hkv).symm.trans e))]
    cases hB : defAdd b (hasKey b.1 m) with
    | none => simp
    | some lb =>
      simp only
      rw [defStep_eq a (m' ++ lb), hasKey_append_of (fun kv hkv e => hne' ((defAdd_keys hB kv hkv).symm.trans e)), ha', hA]
      refine Out.Rel.ok_ok.mpr ?_
      rw [List.append_assoc, List.append_assoc]
      exact h.append List.perm_append_comm

theorem applyDefaults_perm_m (props : List (String × PropT)) {m m' : List (String × V)} (h : m.Perm m') :
    Out.Rel List.Perm (applyDefaults props m) (applyDefaults props m') := by
  induction props generalizing m m' with
  | nil => simp only [applyDefaults]; exact Out.Rel.ok_ok.mpr h
  | cons ip rest ih =>
    rw [applyDefaults_cons, applyDefaults_cons]
    exact Out.Rel.bind (defStep_perm ip h) fun _ _ h1 => ih h1

theorem bind_assoc' {α β γ} (o : Out α) (f : α → Out β) (g : β → Out γ) :
    (o.bind f).bind g = o.bind (fun a => (f a).bind g) := by
  cases o <;> rfl

/-- the defaults of a property table do not depend on its order (names pairwise distinct) -/
theorem applyDefaults_perm {props props' : List (String × PropT)} (hp : props.Perm props') :
    (props.map Prod.fst).Nodup → ∀ {m m' : List (String × V)}, m.Perm m' →
    Out.Rel List.Perm (applyDefaults props m) (applyDefaults props' m') := by
  induction hp with
  | nil => intro _ m m' h; simp only [applyDefaults]; exact Out.Rel.ok_ok.mpr h
  | cons ip _ ih =>
    intro hnd m m' h
    rw [applyDefaults_cons, applyDefaults_cons]
    simp only [List.map_cons, List.nodup_cons] at hnd
    exact Out.Rel.bind (defStep_perm ip h) fun _ _ h1 => ih hnd.2 h1
  | swap a b l =>
    intro hnd m m' h
    simp only [applyDefaults_cons']
    rw [← bind_assoc', ← bind_assoc']
    simp only [List.map_cons, List.nodup_cons, List.mem_cons, not_or] at hnd
    exact Out.Rel.bind (defStep_swap hnd.1.1 h) fun _ _ h1 => applyDefaults_perm_m l h1
  | trans p1 _ ih1 ih2 =>
    intro hnd m m' h
    exact (ih1 hnd (.refl m)).comp (ih2 ((p1.map Prod.fst).nodup_iff.mp hnd) h) (fun _ _ _ => List.Perm.trans)

theorem applyDefaults_forall2 {props props' : List (String × PropT)} (h : Forall2 PropEntryEq props props')
    (m : List (String × V)) : applyDefaults props m = applyDefaults props' m := by
  induction h generalizing m with
  | nil => rfl
  | @cons a b _ _ hab _ ih =>
    rw [applyDefaults_cons, applyDefaults_cons]
    have : defStep a = defStep b := by
      funext m
      unfold defStep
      rw [hab.1, hab.2.defaultV]
    rw [this]
    congr 1
    funext m1
    exact ih m1

theorem applyDefaults_propsEq {props props' : List (String × PropT)} (hp : PropsEq props props')
    (hnd : (props.map Prod.fst).Nodup) (m : List (String × V)) :
    Out.Rel List.Perm (applyDefaults props m) (applyDefaults props' m) := by
  obtain ⟨mid, f, p⟩ := hp
  rw [applyDefaults_forall2 f]
  have hnd' : (mid.map Prod.fst).Nodup := by rw [← f.map_eq (fun a b hab => hab.1)]; exact hnd
  exact applyDefaults_perm p hnd' (.refl m)

theorem applyDefaults_distinct : ∀ (props : List (String × PropT)) {m m1 : List (String × V)},
    applyDefaults props m = .ok m1 → (∀ kv, kv ∈ m → kv.2.DistinctKeys) →
    (∀ np, np ∈ props → ∀ d, np.2.defaultV = some (some d) → d.DistinctKeys) → ∀ kv, kv ∈ m1 → kv.2.DistinctKeys
  | [], m, m1, h, hm, _ => by simp only [applyDefaults, Out.ok.injEq] at h; subst h; exact hm
  | (id, p) :: rest, m, m1, h, hm, hdd => by
    have hdd' : ∀ np, np ∈ rest → ∀ d, np.2.defaultV = some (some d) → d.DistinctKeys :=
      fun np hnp => hdd np (List.mem_cons_of_mem _ hnp)
    simp only [applyDefaults] at h
    split at h
    · exact applyDefaults_distinct rest h hm hdd'
    · cases hdv : p.defaultV with
      | none => rw [hdv] at h; exact applyDefaults_distinct rest h hm hdd'
      | some o =>
        rw [hdv] at h
        cases o with
        | none => simp at h
        | some d =>
          refine applyDefaults_distinct rest h ?_ hdd'
          intro kv hkv
          rcases List.mem_append.mp hkv with hk | hk
          · exact hm kv hk
          · simp only [List.mem_singleton] at hk; subst hk
            exact hdd (id, p) (List.mem_cons_self ..) d hdv

/-! ### the operations respect `≈ₜ` (same argument on both sides) -/

/-- what the induction on the fuel provides: related schemas and environments, same value -/
def RecRelT (rec : Rec) : Prop :=
  ∀ op env env' t t' v, EnvEq env env' → EnvDistinct env → t ≈ₜ t' → t.Distinct → v.DistinctKeys →
    Out.Rel V.PermEq (rec op env t v) (rec op env' t' v)

/-- the same list on both sides, every element a genuine Go value -/
theorem forall2_same {α} {P : α → Prop} {as : List α} (h : ∀ a, a ∈ as → P a) :
    Forall2 (fun a b => a = b ∧ P a) as as :=
  (Forall2.refl' (R := Eq) (fun _ => rfl) as).and_mem_left h

theorem permRel_same {α} {P : α → Prop} {as : List α} (h : ∀ a, a ∈ as → P a) :
    PermRel (fun a b => a = b ∧ P a) as as := .of_forall2 (forall2_same h)

theorem runList_relT {rec : Rec} (hrec : RecRelT rec) (op : Op) {env env' : Env} (henv : EnvEq env env')
    (hdenv : EnvDistinct env) {item item' : Ty} (hi : item ≈ₜ item') (hdi : item.Distinct) (a b : Option Int)
    {v : V} (hd : v.DistinctKeys) :
    Out.Rel V.PermEq (runList rec op env item a b v) (runList rec op env' item' a b v) := by
  unfold runList
  cases h1 : v.sliceElems? with
  | none => simp
  | some xs =>
    have hin := forall2_same (hd.sliceElems h1)
    have trav : ∀ op', Out.Rel ListEq (forIdx (fun i e => (rec op' env item e).addSeg (idxSeg i)) 0 xs)
        (forIdx (fun i e => (rec op' env' item' e).addSeg (idxSeg i)) 0 xs) := fun op' =>
      forIdx_rel (fun i x y hxy => by
        obtain ⟨rfl, hdx⟩ := hxy
        exact Out.Rel.addSeg _ _ (hrec op' env env' item item' x henv hdenv hi hdi hdx)) hin 0
    cases op <;> simp only
    · exact Out.Rel.bind (Out.Rel.same _) fun _ _ _ =>
        Out.Rel.bind (trav .U) fun ys ys' hy => Out.Rel.ok_ok.mpr (V.permEq_list_of hy)
    · exact Out.Rel.bind (Out.Rel.same _) fun _ _ _ =>
        Out.Rel.bind (trav .V) fun _ _ _ => Out.Rel.rfl' V.PermEq.refl _
    · exact Out.Rel.bind (Out.Rel.same _) fun _ _ _ =>
        Out.Rel.bind (trav .V) fun _ _ _ =>
          Out.Rel.bind (trav .S) fun ys ys' hy => Out.Rel.ok_ok.mpr (V.permEq_list_of hy)
    · exact Out.Rel.bind (trav .C) fun _ _ _ => Out.Rel.rfl' V.PermEq.refl _

theorem runMap_relT {rec : Rec} (hrec : RecRelT rec) (op : Op) {env env' : Env} (henv : EnvEq env env')
    (hdenv : EnvDistinct env) {kt kt' vt vt' : Ty} (hk : kt ≈ₜ kt') (hdk : kt.Distinct) (hv : vt ≈ₜ vt')
    (hdv : vt.Distinct) (a b : Option Int) {v : V} (hd : v.DistinctKeys) :
    Out.Rel V.PermEq (runMap rec op env kt vt a b v) (runMap rec op env' kt' vt' a b v) := by
  unfold runMap
  cases h1 : v.mapEntries? with
  | none => simp
  | some p =>
    obtain ⟨sh, kvs⟩ := p
    rw [V.mapEntries_eq h1] at hd
    have hin : PermRel (fun a b => a = b ∧ (a.1.DistinctKeys ∧ a.2.DistinctKeys)) kvs kvs := permRel_same hd.entries
    have trav : ∀ op', Out.Rel MapEq (forKV (entryKV rec op' env kt vt) kvs) (forKV (entryKV rec op' env' kt' vt') kvs) :=
      fun op' => forKV_permRel (fun a b hab => by
        obtain ⟨rfl, hd1, hd2⟩ := hab
        unfold entryKV
        exact Out.Rel.bind (Out.Rel.addSeg _ _ (hrec op' env env' kt kt' _ henv hdenv hk hdk hd1)) fun k k' hkk =>
          Out.Rel.bind (Out.Rel.addSeg _ _ (hrec op' env env' vt vt' _ henv hdenv hv hdv hd2)) fun e e' he =>
            Out.Rel.ok_ok.mpr ⟨hkk, he⟩) hin
    simp only
    refine Out.Rel.bind (Out.Rel.same _) fun _ _ _ => ?_
    cases op <;> simp only []
    · refine Out.Rel.bind (trav .U) fun es es' hes => ?_
      rw [dupKey_mapEq hes, hk.keyTy, hv.reflectsAny]
      split
      · simp
      · exact Out.Rel.ok_ok.mpr (V.permEq_map_of hes)
    · exact Out.Rel.bind (trav .V) fun _ _ _ => Out.Rel.rfl' V.PermEq.refl _
    · exact Out.Rel.bind (trav .V) fun _ _ _ =>
        Out.Rel.bind (trav .S) fun es es' hes => Out.Rel.ok_ok.mpr (V.permEq_map_of hes)
    · exact Out.Rel.bind (trav .C) fun _ _ _ => Out.Rel.rfl' V.PermEq.refl _

/-! #### objects -/

/-- the facts about a property table the object lemmas need -/
structure PropsOK (props props' : List (String × PropT)) : Prop where
  eq : PropsEq props props'
  nodup : (props.map Prod.fst).Nodup
  tys : ∀ np, np ∈ props → np.2.ty.Distinct
  dflts : ∀ np, np ∈ props → ∀ d, np.2.defaultV = some (some d) → d.DistinctKeys

theorem PropsOK.lookup {props props' : List (String × PropT)} (h : PropsOK props props') (k : String) :
    ORel PropT.PermEq (lookupS k props) (lookupS k props') :=
  lookupS_permRel (S := PropT.PermEq) h.eq h.nodup k

theorem PropsOK.hasKey {props props' : List (String × PropT)} (h : PropsOK props props') (k : String) :
    hasKey k props = hasKey k props' :=
  hasKey_permRel h.eq (fun _ _ hab => hab.1) k

theorem objEntryU_relT {rec : Rec} (hrec : RecRelT rec) {env env' : Env} (henv : EnvEq env env')
    (hdenv : EnvDistinct env) {props props' : List (String × PropT)} (hp : PropsOK props props')
    {a b : String × V} (hab : a = b ∧ a.2.DistinctKeys) :
    Out.Rel (fun r r' => SEntryEq (a.1, r) (b.1, r')) (objEntryU rec env props a.1 a.2) (objEntryU rec env' props' b.1 b.2) := by
  obtain ⟨rfl, hda⟩ := hab
  unfold objEntryU
  have hl := hp.lookup a.1
  cases h1 : lookupS a.1 props <;> cases h2 : lookupS a.1 props' <;> rw [h1, h2] at hl <;> simp at hl
  · simp
  · rename_i p p'
    simp only
    rw [← hl.2.2.2.2.2.2]
    split
    · simp [Out.cerrAt]
    · exact (Out.Rel.addSeg _ _ (hrec .U env env' p.ty p'.ty _ henv hdenv hl.1 (hp.tys _ (lookupS_mem h1)) hda)).imp
        (fun _ _ hr => ⟨rfl, hr⟩)

theorem objRaw_relT {rec : Rec} (hrec : RecRelT rec) {env env' : Env} (henv : EnvEq env env')
    (hdenv : EnvDistinct env) {props props' : List (String × PropT)} (hp : PropsOK props props')
    {v : V} (hd : v.DistinctKeys) :
    Out.Rel SMapEq (objRaw rec env props v) (objRaw rec env' props' v) := by
  unfold objRaw
  cases h1 : v.mapEntries? with
  | none =>
    simp only
    -- the single-property shorthand: the table has one entry on both sides, or on neither
    obtain ⟨mid, f, p⟩ := hp.eq
    cases f with
    | nil => have := p.symm.eq_nil; subst this; simp
    | @cons a b as bs hab hrest =>
      cases hrest with
      | nil =>
        have := List.perm_singleton.mp p.symm
        subst this
        obtain ⟨k, pt⟩ := a
        obtain ⟨k', pt'⟩ := b
        obtain ⟨ek, hpt⟩ := hab
        simp only at ek hpt; subst ek
        simp only
        rw [← hpt.2.2.2.2.2.2]
        split
        · simp
        · exact Out.Rel.bind (Out.Rel.rewrapP (hrec .U env env' pt.ty pt'.ty v henv hdenv hpt.1
            (hp.tys _ (List.mem_cons_self ..)) hd)) fun r r' hr => Out.Rel.ok_ok.mpr (PermRel.cons ⟨rfl, hr⟩ .nil)
      | @cons a2 b2 as2 bs2 _ hrest2 =>
        have hlen : props'.length = (b :: b2 :: bs2).length := p.length_eq.symm
        match props', hlen with
        | c1 :: c2 :: cs, _ => simp
  | some q =>
    obtain ⟨sh, kvs⟩ := q
    rw [V.mapEntries_eq h1] at hd
    simp only
    cases hk : strKeys? kvs with
    | none => simp
    | some m =>
      simp only
      have hhas : (fun kv : String × V => !(hasKey kv.1 props)) = (fun kv => !(hasKey kv.1 props')) :=
        funext fun kv => by rw [hp.hasKey]
      rw [hhas]
      split
      · simp
      · obtain ⟨_, hdm⟩ := hd.strView hk
        refine Out.Rel.bind' (applyDefaults_propsEq hp.eq hp.nodup m) fun m1 m1' e1 _ hperm => ?_
        have hd1 := applyDefaults_distinct props e1 hdm hp.dflts
        have hin : PermRel (fun a b : String × V => a = b ∧ a.2.DistinctKeys) m1 m1' :=
          (permRel_same hd1).permR hperm
        exact forSV_permRel (S := SEntryEq) (fun a b hab => objEntryU_relT hrec henv hdenv hp hab) hin

/-- the declared rules hold of a table iff they hold of a reordering with the same rules -/
theorem interdeps_propsEq {props props' : List (String × PropT)} (hp : PropsEq props props') (isSet : String → Bool) :
    Out.Rel (fun _ _ => True) (interdeps props isSet) (interdeps props' isSet) := by
  have rule : ∀ {a b : String × PropT}, PropEntryEq a b → (RuleHolds isSet a.1 a.2 ↔ RuleHolds isSet b.1 b.2) := by
    intro a b hab
    obtain ⟨e, _, e1, e2, e3, e4, _, _⟩ := hab
    unfold RuleHolds
    rw [e, e1, e2, e3, e4]
  have hiff : interdeps props isSet = .ok () ↔ interdeps props' isSet = .ok () := by
    rw [C03_rules_iff, C03_rules_iff]
    constructor
    · intro h np' hnp'
      obtain ⟨np, hnp, hr⟩ := (hp.flip (S := fun b a => PropEntryEq a b) (fun _ _ x => x)).mem_left hnp'
      exact (rule hr).mp (h np hnp)
    · intro h np hnp
      obtain ⟨np', hnp', hr⟩ := hp.mem_left hnp
      exact (rule hr).mpr (h np' hnp')
  exact Out.Rel.of_ok (fun _ ha => ⟨(), hiff.mp ha, trivial⟩) (fun _ hb => ⟨(), hiff.mpr hb⟩)

theorem reqMissing_propsEq {props props' : List (String × PropT)} (hp : PropsEq props props') (m : List (String × V)) :
    reqMissing props m = reqMissing props' m := by
  unfold reqMissing
  exact hp.any_eq (fun a b hab => by rw [hab.1, hab.2.2.1])

theorem objEntry_relT {rec : Rec} (hrec : RecRelT rec) (op : Op) {env env' : Env} (henv : EnvEq env env')
    (hdenv : EnvDistinct env) {props props' : List (String × PropT)} (hp : PropsOK props props')
    {a b : String × V} (hab : a = b ∧ a.2.DistinctKeys) :
    Out.Rel (fun r r' => SEntryEq (a.1, r) (b.1, r')) (objEntry rec op env props a.1 a.2) (objEntry rec op env' props' b.1 b.2) := by
  obtain ⟨rfl, hda⟩ := hab
  unfold objEntry
  have hl := hp.lookup a.1
  cases h1 : lookupS a.1 props <;> cases h2 : lookupS a.1 props' <;> rw [h1, h2] at hl <;> simp at hl
  · simp
  · rename_i p p'
    exact (Out.Rel.addSeg _ _ (hrec op env env' p.ty p'.ty _ henv hdenv hl.1 (hp.tys _ (lookupS_mem h1)) hda)).imp
      (fun _ _ hr => ⟨rfl, hr⟩)

theorem objCompatMap_relT {rec : Rec} (hrec : RecRelT rec) {env env' : Env} (henv : EnvEq env env')
    (hdenv : EnvDistinct env) {props props' : List (String × PropT)} (hp : PropsOK props props')
    {m : List (String × V)} (hd : ∀ kv, kv ∈ m → kv.2.DistinctKeys) :
    Out.Rel V.PermEq (objCompatMap rec env props m) (objCompatMap rec env' props' m) := by
  rw [objCompatMap_eq, objCompatMap_eq, reqMissing_propsEq hp.eq]
  refine Out.Rel.bind (S := V.PermEq) (forSV_permRel (S := SEntryEq) ?_ (permRel_same hd)) fun _ _ _ =>
    Out.Rel.rfl' V.PermEq.refl _
  intro a b hab
  obtain ⟨rfl, hda⟩ := hab
  have hl := hp.lookup a.1
  cases h1 : lookupS a.1 props <;> cases h2 : lookupS a.1 props' <;> rw [h1, h2] at hl <;> simp at hl
  · simp
  · rename_i p p'
    simp only
    rw [← hl.2.2.2.2.2.2]
    refine Out.Rel.addSeg _ _ ?_
    exact Out.Rel.bind (Out.Rel.rewrapC (hrec .C env env' p.ty p'.ty _ henv hdenv hl.1 (hp.tys _ (lookupS_mem h1)) hda))
      fun _ _ _ => Out.Rel.rfl' (fun _ => ⟨rfl, V.PermEq.refl _⟩) _

theorem runObj_relT {rec : Rec} (hrec : RecRelT rec) (op : Op) {env env' : Env} (henv : EnvEq env env')
    (hdenv : EnvDistinct env) (id : String) {props props' : List (String × PropT)} (hp : PropsOK props props')
    {v : V} (hd : v.DistinctKeys) :
    Out.Rel V.PermEq (runObj rec op env id props v) (runObj rec op env' id props' v) := by
  have hVS : ∀ op', ∀ kvs, (V.map ⟨.string, true⟩ kvs).DistinctKeys →
      Out.Rel V.PermEq
        (match strKeys? kvs with
          | none => .cerr
          | some m =>
            (interdeps props (fun k => hasKey k m)).bind fun _ =>
              (forSV (objEntry rec op' env props) m).bind fun m' =>
                if op' == .V then done else .ok (toStrAny m'))
        (match strKeys? kvs with
          | none => .cerr
          | some m =>
            (interdeps props' (fun k => hasKey k m)).bind fun _ =>
              (forSV (objEntry rec op' env' props') m).bind fun m' =>
                if op' == .V then done else .ok (toStrAny m')) := by
    intro op' kvs hdk
    cases hk : strKeys? kvs with
    | none => simp
    | some m =>
      simp only
      refine Out.Rel.bind (interdeps_propsEq hp.eq _) fun _ _ _ => ?_
      refine Out.Rel.bind (S := V.PermEq) (forSV_permRel (S := SEntryEq)
        (fun a b hab => objEntry_relT hrec op' henv hdenv hp hab) (permRel_same (hdk.strView hk).2)) fun r r' hr => ?_
      split
      · exact Out.Rel.rfl' V.PermEq.refl _
      · exact Out.Rel.ok_ok.mpr (toStrAny_sMapEq hr)
  cases op
  case U =>
    simp only [runObj]
    refine Out.Rel.bind (objRaw_relT hrec henv hdenv hp hd) fun m m' hm => ?_
    have hf : (fun k => hasKey k m) = (fun k => hasKey k m') := funext (hasKey_sMapEq hm)
    rw [hf]
    exact Out.Rel.bind (interdeps_propsEq hp.eq _) fun _ _ _ => Out.Rel.ok_ok.mpr (toStrAny_sMapEq hm)
  case V =>
    simp only [runObj]
    split
    · exact hVS .V _ hd
    · simp
  case S =>
    simp only [runObj]
    split
    · exact hVS .S _ hd
    · simp
  case C =>
    simp only [runObj]
    split
    · rename_i kvs
      cases hk : strKeys? kvs with
      | none => simp
      | some m => exact objCompatMap_relT hrec henv hdenv hp (hd.strView hk).2
    · refine Out.Rel.bind (Out.Rel.rewrapC (hrec .U env env' (.obj id props) (.obj id props') v henv hdenv
        (Ty.permEq_obj_of hp.eq) (.obj hp.nodup hp.tys hp.dflts) hd)) fun _ _ _ => Out.Rel.rfl' V.PermEq.refl _

/-! #### one-of -/

structure MembersOK (ms ms' : List (Key × Ty)) : Prop where
  eq : MembersEq ms ms'
  nodup : (ms.map Prod.fst).Nodup
  tys : ∀ m, m ∈ ms → m.2.Distinct

theorem MembersOK.lookup {ms ms' : List (Key × Ty)} (h : MembersOK ms ms') (k : Key) :
    ORel Ty.PermEq (lookupK k ms) (lookupK k ms') :=
  lookupK_permRel (S := Ty.PermEq) h.eq h.nodup k

/-- selections of a member under two orders of the member table -/
def SelRelT (s s' : Key × Ty × List (String × V)) : Prop :=
  s.1 = s'.1 ∧ s.2.1 ≈ₜ s'.2.1 ∧ s.2.1.Distinct ∧ s.2.2 = s'.2.2 ∧ (toStrAny s.2.2).DistinctKeys

theorem oneOfSelect_relT {rec : Rec} (hrec : RecRelT rec) {env env' : Env} (henv : EnvEq env env')
    (hdenv : EnvDistinct env) (intKey : Bool) (disc : String) (inlined : Bool) {ms ms' : List (Key × Ty)}
    (hm : MembersOK ms ms') (compat : Bool) {m : List (String × V)}
    (hnd : (m.map Prod.fst).Nodup) (hd : ∀ kv, kv ∈ m → kv.2.DistinctKeys) :
    Out.Rel SelRelT (oneOfSelect rec env intKey disc inlined ms compat m)
      (oneOfSelect rec env' intKey disc inlined ms' compat m) := by
  rw [oneOfSelect_eq, oneOfSelect_eq]
  cases typedKey intKey (lookupS disc m) with
  | none => simp
  | some key =>
    simp only
    have hl := hm.lookup key
    cases h1 : lookupK key ms <;> cases h2 : lookupK key ms' <;> rw [h1, h2] at hl <;> simp at hl
    · simp
    · rename_i mt mt'
      simp only
      have hdc := clone_distinct hnd hd inlined disc
      have hdmt : mt.Distinct := hm.tys _ (lookupK_mem h1)
      cases compat
      · simp only [Bool.false_eq_true, if_false]
        exact Out.Rel.ok_ok.mpr ⟨rfl, hl, hdmt, rfl, hdc⟩
      · simp only [if_true]
        exact Out.Rel.bind (Out.Rel.rewrapC (hrec .C env env' mt mt' _ henv hdenv hl hdmt hdc)) fun _ _ _ =>
          Out.Rel.ok_ok.mpr ⟨rfl, hl, hdmt, rfl, hdc⟩

theorem oneOfUnser_relT {rec : Rec} (hrec : RecRelT rec) (htop : RecTop rec) (x : Ext) {env env' : Env}
    (henv : EnvEq env env') (hdenv : EnvDistinct env) (intKey : Bool) (disc : String) (inlined : Bool)
    {ms ms' : List (Key × Ty)} (hm : MembersOK ms ms') {v : V} (hd : v.DistinctKeys) :
    Out.Rel V.PermEq (oneOfUnser rec x env intKey disc inlined ms v)
      (oneOfUnser rec x env' intKey disc inlined ms' v) := by
  cases v with
  | map sh kvs =>
    unfold oneOfUnser
    simp only [V.mapEntries?]
    split
    · simp
    · cases kvs.find? (isDiscKey disc) with
      | none => simp
      | some kd =>
        obtain ⟨k, d⟩ := kd
        simp only
        refine Out.Rel.bind (R := Eq) (Out.Rel.rfl' (fun _ => rfl) _) fun key key' ek => ?_
        subst ek
        cases hk : strKeys? kvs with
        | none => simp
        | some m =>
          simp only
          obtain ⟨hnd, hdv⟩ := hd.strView hk
          have hl := hm.lookup key
          cases h1 : lookupK key ms <;> cases h2 : lookupK key ms' <;> rw [h1, h2] at hl <;> simp at hl
          · simp
          · rename_i mt mt'
            simp only
            have hdc := clone_distinct hnd hdv inlined disc
            refine Out.Rel.bind' (hrec .U env env' mt mt' _ henv hdenv hl (hm.tys _ (lookupK_mem h1)) hdc)
              fun r r' hr1 _ hr => ?_
            have hrt : r.TopDistinct := htop env mt _ r hdc.top hr1
            split
            · rename_i rk
              obtain ⟨rk', rfl, hrm⟩ := hr.strAny_inv rfl
              simp only
              cases hrk : strKeys? rk with
              | none => rw [strKeys_mapEq_none hrm hrk]; simp
              | some rm =>
                obtain ⟨rm', hrk', hrmm⟩ := strKeys_mapEq hrm hrk
                rw [hrk']
                have hrnd : (rm.map Prod.fst).Nodup := by
                  rw [← strKeysOf_of_strKeys hrk]; exact hrt
                exact Out.Rel.ok_ok.mpr (toStrAny_sMapEq (setKey_sMapEq hrmm hrnd disc (.refl _)))
            · split
              · rename_i hne _ rk' _
                obtain ⟨rk, rfl, _⟩ := hr.symm.strAny_inv rfl
                exact absurd rfl (hne rk)
              · exact Out.Rel.ok_ok.mpr hr
  | _ => simp [oneOfUnser, V.mapEntries?]

theorem runOneOf_relT {rec : Rec} (hrec : RecRelT rec) (htop : RecTop rec) (x : Ext) (op : Op) {env env' : Env}
    (henv : EnvEq env env') (hdenv : EnvDistinct env) (intKey : Bool) (disc : String) (inlined : Bool)
    {ms ms' : List (Key × Ty)} (hm : MembersOK ms ms') {v : V} (hd : v.DistinctKeys) :
    Out.Rel V.PermEq (runOneOf rec x op env intKey disc inlined ms v)
      (runOneOf rec x op env' intKey disc inlined ms' v) := by
  cases op
  case U => exact oneOfUnser_relT hrec htop x henv hdenv intKey disc inlined hm hd
  case V =>
    simp only [runOneOf]
    split
    · rename_i kvs
      cases hk : strKeys? kvs with
      | none => simp
      | some m =>
        simp only
        refine Out.Rel.bind (oneOfSelect_relT hrec henv hdenv intKey disc inlined hm false
          (hd.strView hk).1 (hd.strView hk).2) fun s s' hs => ?_
        obtain ⟨k, t, c⟩ := s
        obtain ⟨k', t', c'⟩ := s'
        obtain ⟨e1, ht, hdt, e2, hdc⟩ := hs
        simp only at e1 ht hdt e2 hdc; subst e1 e2
        exact Out.Rel.bind (Out.Rel.addSeg _ _ (hrec .V env env' t t' _ henv hdenv ht hdt hdc)) fun _ _ _ =>
          Out.Rel.rfl' V.PermEq.refl _
    · simp
  case S =>
    simp only [runOneOf]
    split
    · rename_i kvs
      cases hk : strKeys? kvs with
      | none => simp
      | some m =>
        simp only
        refine Out.Rel.bind (oneOfSelect_relT hrec henv hdenv intKey disc inlined hm false
          (hd.strView hk).1 (hd.strView hk).2) fun s s' hs => ?_
        obtain ⟨k, t, c⟩ := s
        obtain ⟨k', t', c'⟩ := s'
        obtain ⟨e1, ht, hdt, e2, hdc⟩ := hs
        simp only at e1 ht hdt e2 hdc; subst e1 e2
        refine Out.Rel.bind (hrec .S env env' t t' _ henv hdenv ht hdt hdc) fun r r' hr => ?_
        simp only
        split
        · rename_i rk
          obtain ⟨rk', rfl, hrm⟩ := hr.strAny_inv rfl
          simp only
          cases hrk : strKeys? rk with
          | none => rw [strKeys_mapEq_none hrm hrk]; simp
          | some rm =>
            obtain ⟨rm', hrk', hrmm⟩ := strKeys_mapEq hrm hrk
            rw [hrk']
            simp only
            rw [hasKey_sMapEq hrmm disc]
            split
            · exact Out.Rel.ok_ok.mpr (toStrAny_sMapEq hrmm)
            · exact Out.Rel.ok_ok.mpr (toStrAny_sMapEq (hrmm.append (SMapEq.refl _)))
        · split
          · rename_i hne _ rk'
            obtain ⟨rk, rfl, _⟩ := hr.symm.strAny_inv rfl
            exact absurd rfl (hne rk)
          · simp
    · simp
  case C =>
    simp only [runOneOf]
    split
    · rename_i kvs
      cases hk : strKeys? kvs with
      | none => simp
      | some m =>
        exact Out.Rel.bind (oneOfSelect_relT hrec henv hdenv intKey disc inlined hm true
          (hd.strView hk).1 (hd.strView hk).2) fun _ _ _ => Out.Rel.rfl' V.PermEq.refl _
    · simp

/-! #### the induction on the fuel -/

/-- **Schema-side order independence.** Reordering the tables of the schema and of the environment
    (names pairwise distinct) changes neither the verdict nor, up to the order of map entries, the
    result. (The results do differ in order: defaults are appended in table order.) -/
theorem run_permEqT (x : Ext) : ∀ (n : Nat), RecRelT (run x n)
  | 0 => by intro op env env' t t' v _ _ _ _ _; simp [run]
  | n + 1 => by
    have ih := run_permEqT x n
    have ihtop := run_topDistinct x n
    intro op env env' t t' v henv hdenv ht hdt hdv
    cases t
    case int a b u => cases ht; exact Out.Rel.rfl' V.PermEq.refl _
    case float a b u => cases ht; exact Out.Rel.rfl' V.PermEq.refl _
    case str a b p => cases ht; exact Out.Rel.rfl' V.PermEq.refl _
    case bool => cases ht; exact Out.Rel.rfl' V.PermEq.refl _
    case pattern => cases ht; exact Out.Rel.rfl' V.PermEq.refl _
    case any => cases ht; exact Out.Rel.rfl' V.PermEq.refl _
    case enumInt vals u =>
      cases ht with
      | enumInt _ hp =>
        simp only [run, runEnumInt, contains_eq_of_perm hp]
        exact Out.Rel.rfl' V.PermEq.refl _
    case enumStr vals =>
      cases ht with
      | enumStr hp =>
        simp only [run, runEnumStr, contains_eq_of_perm hp]
        exact Out.Rel.rfl' V.PermEq.refl _
    case list item a b =>
      cases ht with
      | list _ _ hi =>
        cases hdt with
        | list _ _ hdi =>
          simp only [run]
          exact runList_relT ih op henv hdenv hi hdi a b hdv
    case map kt vt a b =>
      cases ht with
      | map _ _ hk hv =>
        cases hdt with
        | map _ _ hdk hdvt =>
          simp only [run]
          exact runMap_relT ih op henv hdenv hk hdk hv hdvt a b hdv
    case obj id props =>
      obtain ⟨props', rfl, hp⟩ := Ty.permEq_obj_inv ht _ _ rfl
      cases hdt with
      | obj hnd htys hdf =>
        simp only [run]
        exact runObj_relT ih op henv hdenv id ⟨hp, hnd, htys, hdf⟩ hdv
    case oneOf ik disc inl ms =>
      obtain ⟨ms', rfl, hm⟩ := Ty.permEq_oneOf_inv ht _ _ _ _ rfl
      cases hdt with
      | oneOf hnd htys =>
        simp only [run]
        exact runOneOf_relT ih ihtop x op henv hdenv ik disc inl ⟨hm, hnd, htys⟩ hdv
    case ref id =>
      cases ht
      simp only [run]
      have hl := lookupS_permRel (S := Ty.PermEq) henv hdenv.1 id
      cases h1 : lookupS id env <;> cases h2 : lookupS id env' <;> rw [h1, h2] at hl <;> simp at hl
      · simp
      · rename_i o o'
        exact ih op env env' o o' v henv hdenv hl (hdenv.2 _ (lookupS_mem h1)) hdv
    case scope objs root =>
      obtain ⟨objs', rfl, he⟩ := Ty.permEq_scope_inv ht _ _ rfl
      cases hdt with
      | scope hnd htys =>
        simp only [run]
        have hl := lookupS_permRel (S := Ty.PermEq) he hnd root
        cases h1 : lookupS root objs <;> cases h2 : lookupS root objs' <;> rw [h1, h2] at hl <;> simp at hl
        · simp
        · rename_i o o'
          exact ih op objs objs' o o' v he ⟨hnd, htys⟩ hl (htys _ (lookupS_mem h1)) hdv

/-! ### executable (sound) check of `Ty.Distinct`, for concrete instances -/

def tyDistinctB : Nat → Ty → Bool
  | 0, _ => false
  | n + 1, .list item _ _ => tyDistinctB n item
  | n + 1, .map k v _ _ => tyDistinctB n k && tyDistinctB n v
  | n + 1, .obj _ props =>
    decide (props.map Prod.fst).Nodup &&
      props.all (fun np => tyDistinctB n np.2.ty &&
        (match np.2.defaultV with
          | some (some d) => distinctB 64 d
          | _ => true))
  | n + 1, .oneOf _ _ _ ms => decide (ms.map Prod.fst).Nodup && ms.all (fun m => tyDistinctB n m.2)
  | n + 1, .scope objs _ => decide (objs.map Prod.fst).Nodup && objs.all (fun p => tyDistinctB n p.2)
  | _ + 1, _ => true

theorem tyDistinctB_sound : ∀ (n : Nat) (t : Ty), tyDistinctB n t = true → t.Distinct
  | 0, _, h => by simp [tyDistinctB] at h
  | n + 1, t, h => by
    have ih := tyDistinctB_sound n
    cases t with
    | list item a b => simp only [tyDistinctB] at h; exact .list a b (ih _ h)
    | map k v a b =>
      simp only [tyDistinctB, Bool.and_eq_true] at h
      exact .map a b (ih _ h.1) (ih _ h.2)
    | obj id props =>
      simp only [tyDistinctB, Bool.and_eq_true, List.all_eq_true, decide_eq_true_eq] at h
      refine .obj h.1 (fun np hnp => ih _ (h.2 np hnp).1) (fun np hnp d hd => ?_)
      have := (h.2 np hnp).2
      rw [hd] at this
      exact distinctB_sound 64 d this
    | oneOf ik d inl ms =>
      simp only [tyDistinctB, Bool.and_eq_true, List.all_eq_true, decide_eq_true_eq] at h
      exact .oneOf h.1 (fun m hm => ih _ (h.2 m hm))
    | scope objs root =>
      simp only [tyDistinctB, Bool.and_eq_true, List.all_eq_true, decide_eq_true_eq] at h
      exact .scope h.1 (fun p hp => ih _ (h.2 p hp))
    | int a b u => exact .int a b u
    | float a b u => exact .float a b u
    | str a b p => exact .str a b p
    | bool => exact .bool
    | pattern => exact .pattern
    | any => exact .any
    | ref id => exact .ref id
    | enumInt vals u => exact .enumInt vals u
    | enumStr vals => exact .enumStr vals

end Arca
