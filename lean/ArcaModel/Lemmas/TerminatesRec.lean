import ArcaModel.Lemmas.Terminates
/-
  Termination on RECURSIVE schemas (C04): reference cycles are harmless as long as every turn of a
  cycle consumes one nesting level of the value.

  Which steps of `run` hand the SAME value to a sub-schema?  A reference, a scope (to its root), a
  one-of (to the selected member - but then the value is known to be a map) and an object with
  exactly one, enabled, property that is given a non-map value (the inline shorthand). Every other
  step hands on strict sub-values (list elements, map keys and values, the entries of an object
  given a map) or a declared default.

  * `Guard mp env t g` : starting at `t` (the value being known to be a map iff `mp`), at most `g`
    same-value steps can follow each other.
  * `Hered G D env t` : everywhere inside `t`, each sub-schema that receives a sub-value is
    `Guard false … G`; a property that has a default has an acyclic type (budget `D`).
  * `guarded_halts` : then `(V.depth v + 1) * (2 * G + 2) + D` units of fuel are never exhausted.
  * `selfLoop_fuel` : the shape excluded by `Guard` - `scope{A{next: ref A}}` on a non-map value -
    runs out of EVERY budget.
-/
namespace Arca
open Out

/-- `Guard mp env t g`: at most `g` steps that hand on the same value follow each other from `t`;
    `mp = true` records that the value is known to be a map (what a one-of hands to its member),
    in which case an object consumes a level of it. -/
inductive Guard : Bool → Env → Ty → Nat → Prop
  | int {mp env a b u g} : Guard mp env (.int a b u) g
  | float {mp env a b u g} : Guard mp env (.float a b u) g
  | str {mp env a b p g} : Guard mp env (.str a b p) g
  | bool {mp env g} : Guard mp env .bool g
  | pattern {mp env g} : Guard mp env .pattern g
  | enumInt {mp env vs u g} : Guard mp env (.enumInt vs u) g
  | enumStr {mp env vs g} : Guard mp env (.enumStr vs) g
  | any {mp env g} : Guard mp env .any g
  | list {mp env item a b g} : Guard mp env (.list item a b) g
  | map {mp env k v a b g} : Guard mp env (.map k v a b) g
  | objMap {env id props g} : Guard true env (.obj id props) g
  | objMulti {mp env id props g} : props.length ≠ 1 → Guard mp env (.obj id props) g
  | objDisabled {mp env id name p g} : p.disabled = true → Guard mp env (.obj id [(name, p)]) g
  | objSingle {mp env id name p g g'} : Guard false env p.ty g → g < g' → Guard mp env (.obj id [(name, p)]) g'
  | oneOf {mp env ik disc inl members g g'} :
      (∀ m, m ∈ members → Guard true env m.2 g) → g < g' → Guard mp env (.oneOf ik disc inl members) g'
  | ref {mp env id o g g'} : lookupS id env = some o → Guard mp env o g → g < g' → Guard mp env (.ref id) g'
  | refNone {mp env id g} : lookupS id env = none → Guard mp env (.ref id) g
  | scope {mp env objs root o g g'} :
      lookupS root objs = some o → Guard mp objs o g → g < g' → Guard mp env (.scope objs root) g'
  | scopeNone {mp env objs root g} : lookupS root objs = none → Guard mp env (.scope objs root) g

theorem Guard.mono {mp : Bool} {env : Env} {t : Ty} {g g' : Nat} (h : Guard mp env t g) (hg : g ≤ g') :
    Guard mp env t g' := by
  cases h with
  | int => exact .int
  | float => exact .float
  | str => exact .str
  | bool => exact .bool
  | pattern => exact .pattern
  | enumInt => exact .enumInt
  | enumStr => exact .enumStr
  | any => exact .any
  | list => exact .list
  | map => exact .map
  | objMap => exact .objMap
  | objMulti hl => exact .objMulti hl
  | objDisabled hd => exact .objDisabled hd
  | objSingle h hlt => exact .objSingle h (by omega)
  | oneOf hm hlt => exact .oneOf hm (by omega)
  | ref hl h hlt => exact .ref hl h (by omega)
  | refNone hl => exact .refNone hl
  | scope hl h hlt => exact .scope hl h (by omega)
  | scopeNone hl => exact .scopeNone hl

/-- `Hered G D env t`: every sub-schema of `t` that receives a strict sub-value (list item, map key
    and value, object property) is `Guard false … G` in its scope, hereditarily (inside scopes, for
    all their objects); and a property that receives a default has an acyclic type on which that
    default needs at most `D` units of fuel. References are not followed: what they resolve to is
    covered by the clause for the enclosing scope (`EnvHered` at top level). -/
inductive Hered (G D : Nat) : Env → Ty → Prop
  | int {env a b u} : Hered G D env (.int a b u)
  | float {env a b u} : Hered G D env (.float a b u)
  | str {env a b p} : Hered G D env (.str a b p)
  | bool {env} : Hered G D env .bool
  | pattern {env} : Hered G D env .pattern
  | enumInt {env vs u} : Hered G D env (.enumInt vs u)
  | enumStr {env vs} : Hered G D env (.enumStr vs)
  | any {env} : Hered G D env .any
  | list {env item a b} : Hered G D env item → Guard false env item G → Hered G D env (.list item a b)
  | map {env k v a b} : Hered G D env k → Hered G D env v → Guard false env k G → Guard false env v G →
      Hered G D env (.map k v a b)
  | obj {env id props} :
      (∀ np, np ∈ props → Hered G D env np.2.ty) →
      (∀ np, np ∈ props → Guard false env np.2.ty G) →
      (∀ np, np ∈ props → ∀ np', np' ∈ props → np'.1 = np.1 → ∀ dv, np'.2.defaultV = some (some dv) →
        ∃ d, FinDepth env np.2.ty d ∧ 2 * d + dv.depth + 1 ≤ D) →
      Hered G D env (.obj id props)
  | oneOf {env ik disc inl members} : (∀ m, m ∈ members → Hered G D env m.2) → Hered G D env (.oneOf ik disc inl members)
  | ref {env id} : Hered G D env (.ref id)
  | scope {env objs root} : (∀ p, p ∈ objs → Hered G D objs p.2) → Hered G D env (.scope objs root)

/-- every object of the enclosing scope is hereditarily guarded in that scope -/
def EnvHered (G D : Nat) (env : Env) : Prop := ∀ p, p ∈ env → Hered G D env p.2

theorem envHered_nil (G D : Nat) : EnvHered G D [] := by intro p hp; cases hp

/-- the statement proved by induction on the bound `b` of the value's depth -/
def GuardHalts (x : Ext) (G D K b : Nat) : Prop :=
  ∀ (mp : Bool) (env : Env) (t : Ty) (g : Nat), Guard mp env t g → EnvHered G D env → Hered G D env t →
    ∀ (n : Nat) (op : Op) (v : V), (mp = true → v.mapEntries?.isSome = true) → v.depth ≤ b →
      b * K + 2 * g + D + 2 ≤ n → Halts (run x n op env t v)

/-- a sub-schema that receives a strict sub-value: one level of the value pays for a fresh `G` -/
theorem guard_child {x : Ext} {G D K b : Nat} (hK : 2 * G + 2 ≤ K) (hP : ∀ b', b' < b → GuardHalts x G D K b')
    {env : Env} {t : Ty} (henv : EnvHered G D env) (hh : Hered G D env t) (hg : Guard false env t G)
    {v e : V} (hv : v.depth ≤ b) (he : e.depth + 1 ≤ v.depth) {m : Nat} (hm : b * K + D + 2 ≤ m + 2)
    (op : Op) : Halts (run x m op env t e) := by
  obtain ⟨b', rfl⟩ : ∃ b', b = b' + 1 := ⟨b - 1, by omega⟩
  have hmul : (b' + 1) * K = b' * K + K := Nat.succ_mul _ _
  exact hP b' (by omega) false env t G hg henv hh m op e (by simp) (by omega) (by omega)

theorem guard_objRec {x : Ext} {G D K b : Nat} (hK : 2 * G + 2 ≤ K) (hP : ∀ b', b' < b → GuardHalts x G D K b')
    {env : Env} {id : String} {props : List (String × PropT)} (henv : EnvHered G D env)
    (hh : Hered G D env (.obj id props)) {v : V} (hv : v.depth ≤ b) {m : Nat} (hm : b * K + D + 2 ≤ m + 2)
    (hsingle : ∀ name p, props = [(name, p)] → v.mapEntries? = none → p.disabled = false →
      Halts (run x m .U env p.ty v)) : ObjRecHalts (run x m) env props v := by
  cases hh with
  | obj hp hgd hdef =>
    exact
      { single := hsingle
        entries := fun sh kvs hkvs k e hke np hnp op =>
          guard_child hK hP henv (hp np hnp) (hgd np hnp) hv (depth_mapEntries hkvs hke).2 hm op
        defaults := fun np hnp np' hnp' hk dv hdv => by
          obtain ⟨d, hf, hd⟩ := hdef np hnp np' hnp' hk dv hdv
          exact fin_halts x hf m .U dv (by omega) }

theorem guard_step {x : Ext} {G D K : Nat} (hK : 2 * G + 2 ≤ K) (b : Nat)
    (hP : ∀ b', b' < b → GuardHalts x G D K b') : GuardHalts x G D K b := by
  intro mp env t g hg
  induction hg with
  | int => intro _ _ n op v _ _ hn; obtain ⟨m, rfl⟩ : ∃ m, n = m + 1 := ⟨n - 1, by omega⟩; rw [run]; exact halts_runInt _ _ _ _ _
  | float => intro _ _ n op v _ _ hn; obtain ⟨m, rfl⟩ : ∃ m, n = m + 1 := ⟨n - 1, by omega⟩; rw [run]; exact halts_runFloat _ _ _ _ _ _
  | str => intro _ _ n op v _ _ hn; obtain ⟨m, rfl⟩ : ∃ m, n = m + 1 := ⟨n - 1, by omega⟩; rw [run]; exact halts_runStr _ _ _ _ _ _
  | bool => intro _ _ n op v _ _ hn; obtain ⟨m, rfl⟩ : ∃ m, n = m + 1 := ⟨n - 1, by omega⟩; rw [run]; exact halts_runBool _ _
  | pattern => intro _ _ n op v _ _ hn; obtain ⟨m, rfl⟩ : ∃ m, n = m + 1 := ⟨n - 1, by omega⟩; rw [run]; exact halts_runPattern _ _ _
  | enumInt => intro _ _ n op v _ _ hn; obtain ⟨m, rfl⟩ : ∃ m, n = m + 1 := ⟨n - 1, by omega⟩; rw [run]; exact halts_runEnumInt _ _ _ _
  | enumStr => intro _ _ n op v _ _ hn; obtain ⟨m, rfl⟩ : ∃ m, n = m + 1 := ⟨n - 1, by omega⟩; rw [run]; exact halts_runEnumStr _ _ _ _
  | any =>
    intro _ _ n op v _ hb hn; obtain ⟨m, rfl⟩ : ∃ m, n = m + 1 := ⟨n - 1, by omega⟩; rw [run]
    have : b ≤ b * K := Nat.le_mul_of_pos_right b (by omega)
    exact halts_runAny _ _ _ (by omega)
  | list =>
    intro henv hh n op v _ hb hn; obtain ⟨m, rfl⟩ : ∃ m, n = m + 1 := ⟨n - 1, by omega⟩; rw [run]
    cases hh with
    | list hi hgi =>
      exact halts_runList (fun xs hxs e he op =>
        guard_child hK hP henv hi hgi hb (depth_sliceElems hxs he) (by omega) op) _ _ _
  | map =>
    intro henv hh n op v _ hb hn; obtain ⟨m, rfl⟩ : ∃ m, n = m + 1 := ⟨n - 1, by omega⟩; rw [run]
    cases hh with
    | map hk hv hgk hgv =>
      exact halts_runMap (fun sh kvs hkvs k e he op =>
        ⟨guard_child hK hP henv hk hgk hb (depth_mapEntries hkvs he).1 (by omega) op,
         guard_child hK hP henv hv hgv hb (depth_mapEntries hkvs he).2 (by omega) op⟩) _ _ _
  | objMap =>
    intro henv hh n op v hmp hb hn; obtain ⟨m, rfl⟩ : ∃ m, n = m + 2 := ⟨n - 2, by omega⟩
    refine halts_run_obj x (fun m' hm' => guard_objRec hK hP henv hh hb (by omega) (fun name p _ hnone _ => ?_)) op
    have := hmp rfl
    rw [hnone] at this
    simp at this
  | objMulti hlen =>
    intro henv hh n op v hmp hb hn; obtain ⟨m, rfl⟩ : ∃ m, n = m + 2 := ⟨n - 2, by omega⟩
    refine halts_run_obj x (fun m' hm' => guard_objRec hK hP henv hh hb (by omega) (fun name p hp _ _ => ?_)) op
    rw [hp] at hlen
    simp at hlen
  | objDisabled hdis =>
    intro henv hh n op v hmp hb hn; obtain ⟨m, rfl⟩ : ∃ m, n = m + 2 := ⟨n - 2, by omega⟩
    refine halts_run_obj x (fun m' hm' => guard_objRec hK hP henv hh hb (by omega) (fun name p hp _ hd => ?_)) op
    cases hp
    rw [hd] at hdis
    simp at hdis
  | objSingle _ hlt ih =>
    intro henv hh n op v hmp hb hn; obtain ⟨m, rfl⟩ : ∃ m, n = m + 2 := ⟨n - 2, by omega⟩
    refine halts_run_obj x (fun m' hm' => guard_objRec hK hP henv hh hb (by omega) (fun name p hp _ _ => ?_)) op
    cases hp
    cases hh with
    | obj hp' _ _ => exact ih henv (hp' (_, _) (List.mem_singleton.mpr rfl)) m' .U v (by simp) hb (by omega)
  | @oneOf mp env ik disc inl members g g' _ hlt ih =>
    intro henv hh n op v _ hb hn; obtain ⟨m, rfl⟩ : ∃ m, n = m + 1 := ⟨n - 1, by omega⟩; rw [run]
    cases hh with
    | oneOf hm =>
      exact halts_runOneOf (fun sh kvs sm hkvs hsm mem hmem op =>
        ih mem hmem henv (hm mem hmem) m op _ (fun _ => rfl)
          (by have := depth_clone_le hkvs hsm inl disc; omega) (by omega)) _
  | ref hl _ hlt ih =>
    intro henv hh n op v hmp hb hn; obtain ⟨m, rfl⟩ : ∃ m, n = m + 1 := ⟨n - 1, by omega⟩
    simp only [run, hl]
    exact ih henv (henv _ (lookupS_mem hl)) m op v hmp hb (by omega)
  | refNone hl =>
    intro _ _ n op v _ _ hn; obtain ⟨m, rfl⟩ : ∃ m, n = m + 1 := ⟨n - 1, by omega⟩
    simp [run, hl]
  | scope hl _ hlt ih =>
    intro henv hh n op v hmp hb hn; obtain ⟨m, rfl⟩ : ∃ m, n = m + 1 := ⟨n - 1, by omega⟩
    simp only [run, hl]
    cases hh with
    | scope ho => exact ih ho (ho _ (lookupS_mem hl)) m op v hmp hb (by omega)
  | scopeNone hl =>
    intro _ _ n op v _ _ hn; obtain ⟨m, rfl⟩ : ∃ m, n = m + 1 := ⟨n - 1, by omega⟩
    simp [run, hl]

theorem guardHalts_all (x : Ext) {G D K : Nat} (hK : 2 * G + 2 ≤ K) : ∀ b, GuardHalts x G D K b :=
  fun b => Nat.strongRecOn b (fun b ih => guard_step hK b ih)

/-- Recursive schemas terminate on every finite input when every turn of a reference cycle
    consumes a level of the value: with at most `G` same-value steps in a row (everywhere in the
    schema) and defaults confined to acyclic property types (budget `D`), a budget of
    `(depth v + 1) * (2 G + 2) + D` is never exhausted. -/
theorem guarded_halts (x : Ext) {G D : Nat} {env : Env} {t : Ty} (henv : EnvHered G D env) (hh : Hered G D env t)
    (hg : Guard false env t G) (n : Nat) (op : Op) (v : V) (hn : (v.depth + 1) * (2 * G + 2) + D ≤ n) :
    Halts (run x n op env t v) := by
  have hmul : (v.depth + 1) * (2 * G + 2) = v.depth * (2 * G + 2) + (2 * G + 2) := Nat.succ_mul _ _
  exact guardHalts_all x (Nat.le_refl _) v.depth false env t G hg henv hh n op v (by simp) (Nat.le_refl _) (by omega)

/-! ### executable checks -/

/-- fuelled computation of the length of the longest run of same-value steps from `t`;
    `none`: not bounded within the budget `k` -/
def guardB : Nat → Bool → Env → Ty → Option Nat
  | 0, _, _, _ => none
  | k + 1, mp, env, t =>
    match t with
    | .int _ _ _ | .float _ _ _ | .str _ _ _ | .bool | .pattern | .enumInt _ _ | .enumStr _ | .any => some 0
    | .list _ _ _ | .map _ _ _ _ => some 0
    | .obj _ props =>
      if mp then some 0 else
      match props with
      | [(_, p)] => if p.disabled then some 0 else (guardB k false env p.ty).map (· + 1)
      | _ => some 0
    | .oneOf _ _ _ members => (maxOpt (members.map fun m => guardB k true env m.2)).map (· + 1)
    | .ref id => match lookupS id env with
      | none => some 0
      | some o => (guardB k mp env o).map (· + 1)
    | .scope objs root => match lookupS root objs with
      | none => some 0
      | some o => (guardB k mp objs o).map (· + 1)

theorem guardB_sound : ∀ (k : Nat) (mp : Bool) (env : Env) (t : Ty) (g : Nat),
    guardB k mp env t = some g → Guard mp env t g
  | 0, _, _, _, _, h => by simp [guardB] at h
  | k + 1, mp, env, t, g, h => by
    have ih := guardB_sound k
    cases t with
    | int => exact .int
    | float => exact .float
    | str => exact .str
    | bool => exact .bool
    | pattern => exact .pattern
    | enumInt => exact .enumInt
    | enumStr => exact .enumStr
    | any => exact .any
    | list => exact .list
    | map => exact .map
    | obj id props =>
      simp only [guardB] at h
      split at h
      · rename_i hmp
        subst hmp
        exact .objMap
      · split at h
        · rename_i name p
          split at h
          · rename_i hd
            exact .objDisabled hd
          · simp only [Option.map_eq_some_iff] at h
            obtain ⟨g0, h0, rfl⟩ := h
            exact .objSingle (ih _ _ _ _ h0) (by omega)
        · rename_i hne
          refine .objMulti (fun hlen => ?_)
          match props, hne, hlen with
          | [(name, p)], hne, _ => exact hne name p rfl
    | oneOf ik disc inl members =>
      simp only [guardB, Option.map_eq_some_iff] at h
      obtain ⟨g0, h0, rfl⟩ := h
      refine .oneOf (g := g0) (fun m hm => ?_) (by omega)
      obtain ⟨a, ha, hle⟩ := maxOpt_some h0 (guardB k true env m.2) (List.mem_map.mpr ⟨m, hm, rfl⟩)
      exact (ih _ _ _ _ ha).mono hle
    | ref id =>
      simp only [guardB] at h
      cases hl : lookupS id env with
      | none => exact .refNone hl
      | some o =>
        rw [hl] at h
        simp only [Option.map_eq_some_iff] at h
        obtain ⟨g0, h0, rfl⟩ := h
        exact .ref hl (ih _ _ _ _ h0) (by omega)
    | scope objs root =>
      simp only [guardB] at h
      cases hl : lookupS root objs with
      | none => exact .scopeNone hl
      | some o =>
        rw [hl] at h
        simp only [Option.map_eq_some_iff] at h
        obtain ⟨g0, h0, rfl⟩ := h
        exact .scope hl (ih _ _ _ _ h0) (by omega)

/-- `Guard false env t G`, decided with budget `kg` -/
def guardOK (G kg : Nat) (env : Env) (t : Ty) : Bool :=
  match guardB kg false env t with
  | some g => decide (g ≤ G)
  | none => false

theorem guardOK_sound {G kg : Nat} {env : Env} {t : Ty} (h : guardOK G kg env t = true) : Guard false env t G := by
  unfold guardOK at h
  split at h
  · rename_i g hg
    exact (guardB_sound _ _ _ _ _ hg).mono (by simpa using h)
  · simp at h

/-- the default `dv` terminates on the type `t` within `D` -/
def defaultOK1 (D kg : Nat) (env : Env) (t : Ty) (dflt : Option (Option V)) : Bool :=
  match dflt with
  | some (some dv) =>
    match finB kg env t with
    | some d => decide (2 * d + dv.depth + 1 ≤ D)
    | none => false
  | _ => true

/-- every default is fed to an acyclic type -/
def defaultsOK (D kg : Nat) (env : Env) (props : List (String × PropT)) : Bool :=
  props.all fun np => props.all fun np' => !(np'.1 == np.1) || defaultOK1 D kg env np.2.ty np'.2.defaultV

theorem defaultsOK_sound {D kg : Nat} {env : Env} {props : List (String × PropT)}
    (h : defaultsOK D kg env props = true) :
    ∀ np, np ∈ props → ∀ np', np' ∈ props → np'.1 = np.1 → ∀ dv, np'.2.defaultV = some (some dv) →
      ∃ d, FinDepth env np.2.ty d ∧ 2 * d + dv.depth + 1 ≤ D := by
  intro np hnp np' hnp' hk dv hdv
  simp only [defaultsOK, List.all_eq_true] at h
  have h1 := h np hnp np' hnp'
  simp only [hk, beq_self_eq_true, Bool.not_true, Bool.false_or, defaultOK1, hdv] at h1
  split at h1
  · rename_i d hd
    exact ⟨d, finB_sound _ _ _ _ hd, by simpa using h1⟩
  · simp at h1

/-- fuelled structural check of `Hered` (`kg`: budget handed to `guardB` and `finB`) -/
def heredB (G D kg : Nat) : Nat → Env → Ty → Bool
  | 0, _, _ => false
  | k + 1, env, t =>
    match t with
    | .int _ _ _ | .float _ _ _ | .str _ _ _ | .bool | .pattern | .enumInt _ _ | .enumStr _ | .any | .ref _ => true
    | .list item _ _ => heredB G D kg k env item && guardOK G kg env item
    | .map kt vt _ _ => heredB G D kg k env kt && heredB G D kg k env vt && guardOK G kg env kt && guardOK G kg env vt
    | .obj _ props =>
      (props.all fun np => heredB G D kg k env np.2.ty && guardOK G kg env np.2.ty) && defaultsOK D kg env props
    | .oneOf _ _ _ members => members.all fun m => heredB G D kg k env m.2
    | .scope objs _ => objs.all fun p => heredB G D kg k objs p.2

theorem heredB_sound {G D kg : Nat} : ∀ (k : Nat) (env : Env) (t : Ty), heredB G D kg k env t = true → Hered G D env t
  | 0, _, _, h => by simp [heredB] at h
  | k + 1, env, t, h => by
    have ih := heredB_sound (G := G) (D := D) (kg := kg) k
    cases t with
    | int => exact .int
    | float => exact .float
    | str => exact .str
    | bool => exact .bool
    | pattern => exact .pattern
    | enumInt => exact .enumInt
    | enumStr => exact .enumStr
    | any => exact .any
    | ref => exact .ref
    | list item a b =>
      simp only [heredB, Bool.and_eq_true] at h
      exact .list (ih _ _ h.1) (guardOK_sound h.2)
    | map kt vt a b =>
      simp only [heredB, Bool.and_eq_true] at h
      exact .map (ih _ _ h.1.1.1) (ih _ _ h.1.1.2) (guardOK_sound h.1.2) (guardOK_sound h.2)
    | obj id props =>
      simp only [heredB, Bool.and_eq_true, List.all_eq_true] at h
      exact .obj (fun np hnp => ih _ _ (h.1 np hnp).1) (fun np hnp => guardOK_sound (h.1 np hnp).2)
        (defaultsOK_sound h.2)
    | oneOf ik disc inl members =>
      simp only [heredB, List.all_eq_true] at h
      exact .oneOf (fun m hm => ih _ _ (h m hm))
    | scope objs root =>
      simp only [heredB, List.all_eq_true] at h
      exact .scope (fun p hp => ih _ _ (h p hp))

/-- the hypotheses of `guarded_halts` for a closed schema, as one executable check -/
def guardedB (G D k : Nat) (t : Ty) : Bool := heredB G D k k [] t && guardOK G k [] t

theorem guardedB_sound {G D k : Nat} {t : Ty} (h : guardedB G D k t = true) :
    Hered G D [] t ∧ Guard false [] t G := by
  simp only [guardedB, Bool.and_eq_true] at h
  exact ⟨heredB_sound _ _ _ h.1, guardOK_sound h.2⟩

/-! ### the excluded shape really hangs -/

/-- the object `A{next: ref A}` -/
def selfLoopObj : Ty := .obj "A" [("next", .mk (.ref "A") false [] [] [] none false)]
def selfLoopObjs : Env := [("A", selfLoopObj)]
/-- `scope{A{next: ref A}}`, root `A` -/
def selfLoop : Ty := .scope selfLoopObjs "A"

theorem selfLoop_aux (x : Ext) {v : V} (hv : v.mapEntries? = none) : ∀ (n : Nat),
    run x n .U selfLoopObjs selfLoopObj v = .fuel ∧ run x n .U selfLoopObjs (.ref "A") v = .fuel
  | 0 => by simp [run]
  | n + 1 => by
    have ih := selfLoop_aux x hv n
    constructor
    · rw [selfLoopObj, run]
      simp only [runObj, objRaw, hv, PropT.disabled, PropT.ty, ih.2, rewrapP, Out.bind]
      simp
    · have hl : lookupS "A" selfLoopObjs = some selfLoopObj := by simp [selfLoopObjs, lookupS]
      simp only [run, hl]
      exact ih.1

/-- Unserialize of any non-map value with `scope{A{next: ref A}}` exhausts EVERY budget: the
    single-property shorthand re-wraps the value for ever. -/
theorem selfLoop_fuel (x : Ext) {v : V} (hv : v.mapEntries? = none) (n : Nat) : run x n .U [] selfLoop v = .fuel := by
  cases n with
  | zero => simp [run]
  | succ n =>
    have hl : lookupS "A" selfLoopObjs = some selfLoopObj := by simp [selfLoopObjs, lookupS]
    simp only [selfLoop, run, hl]
    exact (selfLoop_aux x hv n).1

/-- ... and it is excluded by the guard condition, for every bound -/
theorem selfLoop_not_guarded : ∀ (g : Nat), ¬ Guard false selfLoopObjs selfLoopObj g := by
  intro g
  induction g using Nat.strongRecOn with
  | _ g ih =>
    intro h
    have hl : lookupS "A" selfLoopObjs = some selfLoopObj := by simp [selfLoopObjs, lookupS]
    unfold selfLoopObj at h
    cases h with
    | objMulti hlen => simp at hlen
    | objDisabled hd => simp [PropT.disabled] at hd
    | objSingle h1 hlt =>
      simp only [PropT.ty] at h1
      cases h1 with
      | ref hl' h2 hlt2 =>
        rw [hl] at hl'
        cases hl'
        exact ih _ (by omega) h2
      | refNone hl' => rw [hl] at hl'; cases hl'

theorem selfLoop_not_guarded_closed (g : Nat) : ¬ Guard false [] selfLoop g := by
  intro h
  have hl : lookupS "A" selfLoopObjs = some selfLoopObj := by simp [selfLoopObjs, lookupS]
  unfold selfLoop at h
  cases h with
  | scope hl' h1 _ =>
    rw [hl] at hl'
    cases hl'
    exact selfLoop_not_guarded _ h1
  | scopeNone hl' => rw [hl] at hl'; cases hl'

/-- ... and by the acyclicity condition, for every depth (it would terminate otherwise) -/
theorem selfLoop_not_fin (d : Nat) : ¬ FinDepth [] selfLoop d := fun h =>
  fin_halts ⟨fun _ => none, fun _ => "", fun _ => false, fun _ _ => false⟩ h (2 * d + 1) .U (.int .int64 5)
    (by simp [V.depth]) (selfLoop_fuel _ rfl _)

end Arca
