import ArcaModel.Model.StructMapWF
import ArcaModel.Lemmas.Out
/-
  Lemmas about the struct-mapping model (`Model/StructMap.lean`): association lists standing for
  struct values, the field-wise description of `toStruct`, the property-wise description of
  `fromStruct`, and the well-formedness predicate of a (struct type, property table) pair.
-/
namespace Arca
namespace SM
open Out

/-! ### association lists -/

theorem lookupS_eq_none_iff {α} (k : String) (m : List (String × α)) : lookupS k m = none ↔ k ∉ keysOf m := by
  induction m with
  | nil => simp [lookupS, keysOf]
  | cons p rest ih =>
    obtain ⟨k', v⟩ := p
    simp only [lookupS, keysOf, List.map_cons, List.mem_cons, not_or]
    by_cases h : k = k'
    · subst h; simp
    · have : (k == k') = false := by simpa using h
      simp only [this, Bool.false_eq_true, if_false]
      simp only [keysOf] at ih
      rw [ih]; simp [h]

theorem hasKey_iff_mem {α} (k : String) (m : List (String × α)) : hasKey k m = true ↔ k ∈ keysOf m := by
  unfold hasKey
  cases h : lookupS k m with
  | none => simp [(lookupS_eq_none_iff k m).mp h]
  | some v =>
    simp only [Option.isSome_some, true_iff]
    by_cases hm : k ∈ keysOf m
    · exact hm
    · rw [(lookupS_eq_none_iff k m).mpr hm] at h; cases h

theorem lookupS_cons {α} (k k' : String) (v : α) (m : List (String × α)) :
    lookupS k ((k', v) :: m) = if k = k' then some v else lookupS k m := by
  simp only [lookupS]
  by_cases h : k = k'
  · subst h; simp
  · have : (k == k') = false := by simpa using h
    simp [this, h]

theorem mem_of_lookupS {α} {k : String} {m : List (String × α)} {v : α} (h : lookupS k m = some v) : (k, v) ∈ m :=
  lookupS_mem h

theorem lookupS_of_mem_nodup {α} {k : String} {v : α} : ∀ {m : List (String × α)},
    (keysOf m).Nodup → (k, v) ∈ m → lookupS k m = some v
  | [], _, h => by cases h
  | (k', v') :: rest, hn, h => by
    simp only [keysOf, List.map_cons, List.nodup_cons] at hn
    rw [lookupS_cons]
    rcases List.mem_cons.mp h with h | h
    · cases h; simp
    · have hk : k ∈ keysOf rest := List.mem_map.mpr ⟨(k, v), h, rfl⟩
      have : k ≠ k' := by intro e; subst e; exact hn.1 hk
      simp only [this, if_false]
      exact lookupS_of_mem_nodup hn.2 h

/-- association lists with the same keys in the same order and the same lookups are equal -/
theorem assoc_ext {α} : ∀ {a b : List (String × α)}, keysOf a = keysOf b → (keysOf a).Nodup →
    (∀ k, lookupS k a = lookupS k b) → a = b
  | [], [], _, _, _ => rfl
  | [], _ :: _, hk, _, _ => by simp [keysOf] at hk
  | _ :: _, [], hk, _, _ => by simp [keysOf] at hk
  | (k1, v1) :: ra, (k2, v2) :: rb, hk, hn, hl => by
    simp only [keysOf, List.map_cons, List.cons.injEq] at hk
    obtain ⟨hk1, hk2⟩ := hk
    subst hk1
    simp only [keysOf, List.map_cons, List.nodup_cons] at hn
    have h1 := hl k1
    simp only [lookupS_cons, if_true] at h1
    cases h1
    have : ra = rb := by
      apply assoc_ext hk2 hn.2
      intro k
      have := hl k
      simp only [lookupS_cons] at this
      by_cases hkk : k = k1
      · subst hkk
        have h1 : lookupS k ra = none := (lookupS_eq_none_iff _ _).mpr hn.1
        have h2 : lookupS k rb = none := (lookupS_eq_none_iff _ _).mpr (by
          have : keysOf ra = keysOf rb := hk2
          rw [← this]; exact hn.1)
        rw [h1, h2]
      · simpa [hkk] using this
    rw [this]

theorem filterMap_congr' {α β} {f g : α → Option β} : ∀ {l : List α}, (∀ a, a ∈ l → f a = g a) →
    l.filterMap f = l.filterMap g
  | [], _ => rfl
  | a :: rest, h => by
    simp only [List.filterMap_cons, h a (List.mem_cons_self ..)]
    rw [filterMap_congr' (fun b hb => h b (List.mem_cons_of_mem _ hb))]

/-! ### `setAt` -/

theorem keysOf_setAt (name : String) (x : SV) : ∀ (acc : List (String × SV)), keysOf (setAt name x acc) = keysOf acc
  | [] => rfl
  | (n, y) :: r => by
    simp only [setAt]
    split
    · simp [keysOf]
    · simp only [keysOf, List.map_cons, List.cons.injEq, true_and]
      exact keysOf_setAt name x r

theorem lookupS_setAt (name n : String) (x : SV) : ∀ (acc : List (String × SV)),
    lookupS n (setAt name x acc) = if n = name then (lookupS name acc).map (fun _ => x) else lookupS n acc
  | [] => by simp [setAt, lookupS]
  | (n', y) :: r => by
    have ih := lookupS_setAt name n x r
    simp only [setAt]
    by_cases h1 : n' = name
    · subst h1
      simp only [beq_self_eq_true, if_true, lookupS_cons]
      by_cases h2 : n = n'
      · subst h2; simp
      · simp [h2]
    · have hb : (n' == name) = false := by simpa using h1
      simp only [hb, Bool.false_eq_true, if_false, lookupS_cons]
      by_cases h2 : n = n'
      · subst h2
        have : ¬ n = name := h1
        simp [this]
      · simp only [h2, if_false]
        rw [ih]
        by_cases h3 : n = name
        · subst h3
          have : ¬ n = n' := h2
          simp [this]
        · simp [h3]

/-! ### `toStruct`, field by field -/

/-- the field an entry of the converted map goes to, and the value stored there
    (`none`: the assignment fails - no such property / field, unexported field, not convertible) -/
def entrySet (st : StructTy) (props : List (String × SProp)) (k : String) (v : SV) : Option (String × SV) :=
  match fieldFor st k, lookupS k props with
  | some f, some p =>
    if f.exported then (setField f.ty (srcTy p.ty v) v).map (fun x => (f.name, x)) else none
  | _, _ => none

/-- the assignments of all entries, in order -/
def applyEntries (st : StructTy) (props : List (String × SProp)) :
    List (String × SV) → List (String × SV) → List (String × SV)
  | [], acc => acc
  | (k, v) :: rest, acc =>
    match entrySet st props k v with
    | some (n, x) => applyEntries st props rest (setAt n x acc)
    | none => applyEntries st props rest acc

theorem toStructGo_ok {st : StructTy} {props : List (String × SProp)} :
    ∀ {m acc r : List (String × SV)}, toStructGo st props m acc = .ok r →
      r = applyEntries st props m acc ∧ ∀ kv, kv ∈ m → (entrySet st props kv.1 kv.2).isSome
  | [], acc, r, h => by
    simp only [toStructGo, Out.ok.injEq] at h
    subst h
    exact ⟨rfl, by intro kv hkv; cases hkv⟩
  | (k, v) :: rest, acc, r, h => by
    simp only [toStructGo] at h
    split at h
    · rename_i f p hf hp
      split at h
      · simp [cerrAt] at h
      · rename_i hex
        split at h
        · rename_i x hx
          obtain ⟨h1, h2⟩ := toStructGo_ok h
          have hes : entrySet st props k v = some (f.name, x) := by
            simp only [entrySet, hf, hp]
            have : f.exported = true := by simpa using hex
            simp [this, hx]
          refine ⟨?_, ?_⟩
          · simp only [applyEntries, hes]; exact h1
          · intro kv hkv
            rcases List.mem_cons.mp hkv with hkv | hkv
            · subst hkv; simp [hes]
            · exact h2 kv hkv
        · simp [cerrAt] at h
    · cases h

theorem toStructGo_of_all {st : StructTy} {props : List (String × SProp)} :
    ∀ (m acc : List (String × SV)), (∀ kv, kv ∈ m → (entrySet st props kv.1 kv.2).isSome) →
      toStructGo st props m acc = .ok (applyEntries st props m acc)
  | [], acc, _ => by simp [toStructGo, applyEntries]
  | (k, v) :: rest, acc, h => by
    have hk := h (k, v) (List.mem_cons_self ..)
    have ih := fun acc' => toStructGo_of_all rest acc' (fun kv hkv => h kv (List.mem_cons_of_mem _ hkv))
    simp only [entrySet] at hk
    simp only [toStructGo, applyEntries, entrySet]
    split at hk
    · rename_i f p hf hp
      simp only [hf, hp]
      split at hk
      · rename_i hex
        simp only [hex, Bool.not_true, Bool.false_eq_true, if_false, if_true]
        cases hs : setField f.ty (srcTy p.ty v) v with
        | none => simp [hs] at hk
        | some x => simp only [Option.map_some]; exact ih _
      · simp at hk
    · simp at hk

theorem keysOf_applyEntries (st : StructTy) (props : List (String × SProp)) :
    ∀ (m acc : List (String × SV)), keysOf (applyEntries st props m acc) = keysOf acc
  | [], _ => rfl
  | (k, v) :: rest, acc => by
    simp only [applyEntries]
    split
    · rw [keysOf_applyEntries, keysOf_setAt]
    · exact keysOf_applyEntries st props rest acc

/-- the value of the last entry that is assigned to field `n` -/
def lastTarget (st : StructTy) (props : List (String × SProp)) (n : String) : List (String × SV) → Option SV
  | [] => none
  | (k, v) :: rest =>
    match lastTarget st props n rest with
    | some x => some x
    | none =>
      match entrySet st props k v with
      | some (n', x) => if n' = n then some x else none
      | none => none

/-- a field of the result holds the value of the last entry assigned to it, else what it held -/
theorem lookupS_applyEntries (st : StructTy) (props : List (String × SProp)) (n : String) :
    ∀ (m acc : List (String × SV)), lookupS n (applyEntries st props m acc) =
      match lastTarget st props n m with
      | some x => (lookupS n acc).map (fun _ => x)
      | none => lookupS n acc
  | [], acc => by simp [applyEntries, lastTarget]
  | (k, v) :: rest, acc => by
    simp only [applyEntries, lastTarget]
    cases hes : entrySet st props k v with
    | none =>
      simp only []
      rw [lookupS_applyEntries st props n rest acc]
      cases lastTarget st props n rest <;> rfl
    | some nx =>
      obtain ⟨n', x⟩ := nx
      simp only []
      rw [lookupS_applyEntries st props n rest (setAt n' x acc), lookupS_setAt]
      cases hl : lastTarget st props n rest with
      | some y =>
        simp only []
        by_cases h : n = n'
        · subst h; simp only [if_true]; cases lookupS n acc <;> rfl
        · simp [h]
      | none =>
        simp only []
        by_cases h : n = n'
        · subst h; simp
        · have : ¬ n' = n := fun e => h e.symm
          simp [h, this]

theorem entrySet_some {st : StructTy} {props : List (String × SProp)} {k : String} {v : SV} {n : String} {x : SV}
    (h : entrySet st props k v = some (n, x)) :
    ∃ f p, fieldFor st k = some f ∧ lookupS k props = some p ∧ n = f.name ∧ f.exported = true ∧
      setField f.ty (srcTy p.ty v) v = some x := by
  simp only [entrySet] at h
  split at h
  · rename_i f p hf hp
    split at h
    · rename_i hex
      cases hs : setField f.ty (srcTy p.ty v) v with
      | none => simp [hs] at h
      | some y =>
        simp only [hs, Option.map_some, Option.some.injEq, Prod.mk.injEq] at h
        exact ⟨f, p, hf, hp, h.1.symm, hex, by rw [← h.2]; exact hs⟩
    · cases h
  · cases h

/-! ### well-formed pairs -/

structure WFObj (st : StructTy) (props : List (String × SProp)) : Prop where
  names : (st.fields.map (·.name)).Nodup
  keys : (keysOf props).Nodup
  prop : ∀ kp, kp ∈ props → propOK st kp = true
  inj : ∀ a, a ∈ props → ∀ b, b ∈ props → fieldName? st a.1 = fieldName? st b.1 → a.1 = b.1
  defaults : ∀ kp, kp ∈ props → defaultOK kp.2.rules = true
  zeros : ∀ f, f ∈ st.fields → zeroOK f = true

theorem wfObjB_iff (st : StructTy) (props : List (String × SProp)) : wfObjB st props = true ↔ WFObj st props := by
  constructor
  · intro h
    simp only [wfObjB, Bool.and_eq_true, decide_eq_true_eq, List.all_eq_true, Bool.or_eq_true, bne_iff_ne,
      ne_eq, beq_iff_eq] at h
    obtain ⟨⟨⟨⟨⟨h1, h2⟩, h3⟩, h4⟩, h5⟩, h6⟩ := h
    refine ⟨h1, h2, h3, ?_, h5, h6⟩
    intro a ha b hb hab
    rcases h4 a ha b hb with h | h
    · exact absurd hab h
    · exact h
  · intro ⟨h1, h2, h3, h4, h5, h6⟩
    simp only [wfObjB, Bool.and_eq_true, decide_eq_true_eq, List.all_eq_true, Bool.or_eq_true, bne_iff_ne,
      ne_eq, beq_iff_eq]
    refine ⟨⟨⟨⟨⟨h1, h2⟩, h3⟩, ?_⟩, h5⟩, h6⟩
    intro a ha b hb
    by_cases hab : fieldName? st a.1 = fieldName? st b.1
    · exact Or.inr (h4 a ha b hb hab)
    · exact Or.inl hab

instance (st : StructTy) (props : List (String × SProp)) : Decidable (WFObj st props) :=
  decidable_of_iff _ (wfObjB_iff st props)

theorem propOK_field {st : StructTy} {kp : String × SProp} (h : propOK st kp = true) :
    ∃ f, fieldFor st kp.1 = some f ∧ f.exported = true ∧
      convOK (elemTy f.ty (reflTy kp.2.ty)) (reflTy kp.2.ty) = true ∧
      (reflTy kp.2.ty = .iface → f.ty = .iface) := by
  simp only [propOK] at h
  split at h
  · rename_i f hf
    simp only [Bool.and_eq_true, Bool.or_eq_true, bne_iff_ne, ne_eq, beq_iff_eq] at h
    refine ⟨f, hf, h.1.1, h.1.2, ?_⟩
    intro hi
    rcases h.2 with h2 | h2
    · exact absurd hi h2
    · exact h2
  · cases h

theorem mem_props_of_lookupS {props : List (String × SProp)} {k : String} {p : SProp} (h : lookupS k props = some p) :
    (k, p) ∈ props := lookupS_mem h

/-- under injectivity, the last entry assigned to the field of property `k` is the entry of `k` -/
theorem lastTarget_of_inj {st : StructTy} {props : List (String × SProp)}
    (hinj : ∀ a, a ∈ props → ∀ b, b ∈ props → fieldName? st a.1 = fieldName? st b.1 → a.1 = b.1)
    {k : String} {f : Field} (hf : fieldFor st k = some f) (hk : hasKey k props = true) :
    ∀ (m : List (String × SV)), (keysOf m).Nodup →
      lastTarget st props f.name m = (lookupS k m).bind fun v => (entrySet st props k v).map (·.2)
  | [], _ => by simp [lastTarget, lookupS]
  | (k', v') :: rest, hn => by
    simp only [keysOf, List.map_cons, List.nodup_cons] at hn
    have ih := lastTarget_of_inj hinj hf hk rest hn.2
    simp only [lastTarget, lookupS_cons]
    by_cases hkk : k = k'
    · subst hkk
      have hnone : lookupS k rest = none := (lookupS_eq_none_iff _ _).mpr hn.1
      rw [ih, hnone]
      simp only [Option.bind_none, if_true, Option.bind_some]
      cases hes : entrySet st props k v' with
      | none => rfl
      | some nx =>
        obtain ⟨n', x⟩ := nx
        obtain ⟨f', p', hf', _, hn', _, _⟩ := entrySet_some hes
        rw [hf] at hf'
        cases hf'
        simp [hn']
    · simp only [hkk, if_false]
      rw [ih]
      cases hl : (lookupS k rest).bind fun v => (entrySet st props k v).map (·.2) with
      | some x => rfl
      | none =>
        simp only []
        cases hes : entrySet st props k' v' with
        | none => rfl
        | some nx =>
          obtain ⟨n', x⟩ := nx
          obtain ⟨f', p', hf', hp', hn', _, _⟩ := entrySet_some hes
          simp only []
          by_cases hnn : n' = f.name
          · exfalso
            obtain ⟨pk, hpk⟩ := Option.isSome_iff_exists.mp hk
            have := hinj (k, pk) (lookupS_mem hpk) (k', p') (lookupS_mem hp') (by
              simp only [fieldName?, hf, hf', Option.map_some, Option.some.injEq]
              rw [← hnn, hn'])
            exact hkk this
          · simp [hnn]

/-! ### `fromStruct`, property by property -/

/-- what one property reads from the struct value -/
def readProp (st : StructTy) (fs : List (String × SV)) (k : String) (p : SProp) : Out (Option SV) :=
  match fieldFor st k with
  | none => .panic
  | some f =>
    match lookupS f.name fs with
    | none => .cerr
    | some fv => readField f (reflTy p.ty) p.disabled p.emptyIsDefault fv

/-- the entry a property contributes to the map read from the struct value -/
def readOpt (st : StructTy) (fs : List (String × SV)) (kp : String × SProp) : Option (String × SV) :=
  match readProp st fs kp.1 kp.2 with
  | .ok (some x) => some (kp.1, x)
  | _ => none

theorem fromStruct_cons (st : StructTy) (k : String) (p : SProp) (rest : List (String × SProp)) (fs : List (String × SV)) :
    fromStruct st ((k, p) :: rest) fs =
      (readProp st fs k p).bind fun o => (fromStruct st rest fs).bind fun m =>
        .ok (match o with | some x => (k, x) :: m | none => m) := by
  simp only [fromStruct, readProp]
  cases fieldFor st k with
  | none => rfl
  | some f =>
    simp only []
    cases lookupS f.name fs with
    | none => rfl
    | some fv => rfl

/-- `fromStruct` succeeds exactly when every property reads its field, and yields the entries of
    the set properties in table order -/
theorem fromStruct_ok_iff (st : StructTy) (fs : List (String × SV)) : ∀ (props : List (String × SProp)) (raw : List (String × SV)),
    fromStruct st props fs = .ok raw ↔
      (∀ kp, kp ∈ props → ∃ o, readProp st fs kp.1 kp.2 = .ok o) ∧ raw = props.filterMap (readOpt st fs)
  | [], raw => by simp [fromStruct, eq_comm]
  | (k, p) :: rest, raw => by
    rw [fromStruct_cons]
    constructor
    · intro h
      obtain ⟨o, ho, h⟩ := Out.bind_eq_ok h
      obtain ⟨m, hm, h⟩ := Out.bind_eq_ok h
      obtain ⟨h1, h2⟩ := (fromStruct_ok_iff st fs rest m).mp hm
      simp only [Out.ok.injEq] at h
      refine ⟨?_, ?_⟩
      · intro kp hkp
        rcases List.mem_cons.mp hkp with hkp | hkp
        · subst hkp; exact ⟨o, ho⟩
        · exact h1 kp hkp
      · subst h h2
        simp only [List.filterMap_cons, readOpt, ho]
        cases o <;> rfl
    · intro ⟨h1, h2⟩
      obtain ⟨o, ho⟩ := h1 (k, p) (List.mem_cons_self ..)
      have hm := (fromStruct_ok_iff st fs rest (rest.filterMap (readOpt st fs))).mpr
        ⟨fun kp hkp => h1 kp (List.mem_cons_of_mem _ hkp), rfl⟩
      simp only [] at ho
      rw [ho, hm]
      subst h2
      simp only [Out.bind, List.filterMap_cons, readOpt, ho]
      cases o <;> rfl

/-- `fromStruct` only errs when the value lacks a field (not a value of the struct type) -/
theorem fromStruct_outcomes (st : StructTy) (fs : List (String × SV)) : ∀ (props : List (String × SProp)),
    (∃ raw, fromStruct st props fs = .ok raw) ∨ fromStruct st props fs = .panic ∨ fromStruct st props fs = .cerr
  | [] => Or.inl ⟨[], rfl⟩
  | (k, p) :: rest => by
    rw [fromStruct_cons]
    have hr : (∃ o, readProp st fs k p = .ok o) ∨ readProp st fs k p = .panic ∨ readProp st fs k p = .cerr := by
      unfold readProp
      cases fieldFor st k with
      | none => simp
      | some f =>
        simp only []
        cases lookupS f.name fs with
        | none => simp
        | some fv =>
          simp only [readField]
          split
          · simp
          · split
            · simp
            · split
              · simp
              · split
                · simp
                · split
                  · unfold emptyLike
                    split
                    · simp [Out.bind]
                    · split
                      · simp [Out.bind]
                      · split <;> simp [Out.bind]
                  · simp
    rcases hr with ⟨o, ho⟩ | ho | ho
    · rw [ho]
      rcases fromStruct_outcomes st fs rest with ⟨m, hm⟩ | hm | hm
      · rw [hm]; exact Or.inl ⟨_, rfl⟩
      · rw [hm]; exact Or.inr (Or.inl rfl)
      · rw [hm]; exact Or.inr (Or.inr rfl)
    · rw [ho]; exact Or.inr (Or.inl rfl)
    · rw [ho]; exact Or.inr (Or.inr rfl)

theorem fieldFor_mem {st : StructTy} {k : String} {f : Field} (h : fieldFor st k = some f) : f ∈ st.fields := by
  unfold fieldFor at h
  split at h
  · rename_i g hg
    simp only [Option.some.injEq] at h
    subst h
    have : g ∈ st.fields.filter (fun f => tagKey f.tag == some k) := by rw [hg]; simp
    exact (List.mem_filter.mp this).1
  · exact List.mem_of_find?_eq_some h

theorem keysOf_zeroFields (st : StructTy) : keysOf (zeroFields st) = st.fields.map (·.name) := by
  simp [keysOf, zeroFields, List.map_map, Function.comp_def]

theorem lookupS_zeroFields {st : StructTy} (hn : (st.fields.map (·.name)).Nodup) {f : Field} (hf : f ∈ st.fields) :
    lookupS f.name (zeroFields st) = some f.zero := by
  apply lookupS_of_mem_nodup
  · rw [keysOf_zeroFields]; exact hn
  · exact List.mem_map.mpr ⟨f, hf, rfl⟩

/-! ### exact typing: what is stored and what is read back -/

/-- a value of a converted map as Go produces it (for a property of reflected type `src`): never
    a nil pointer, never the nil interface -/
def shaped (_src : GoTy) (v : SV) : Bool :=
  !v.isNilPtr && !v.isNilIface

theorem convOK_iface (src : GoTy) : convOK .iface src = true := by
  unfold convOK
  split
  · rfl
  · split <;> simp_all

theorem convOK_refl (t : GoTy) : convOK t t = true := by simp [convOK]

theorem conv_iface (src : GoTy) (v : SV) : conv .iface src v = v := by
  unfold conv
  split <;> rfl

theorem conv_refl (t : GoTy) (v : SV) : conv t t v = v := by simp [conv]

@[simp] theorem isPtr_ptr (e : GoTy) : (GoTy.ptr e).isPtr = true := rfl
@[simp] theorem deref_ptr (e : GoTy) : (GoTy.ptr e).deref = e := rfl
@[simp] theorem isPtr_iface : (GoTy.iface).isPtr = false := rfl

theorem ptr_ne_self {e : GoTy} (h : e.isPtr = false) : GoTy.ptr e ≠ e := by
  intro he
  have h2 : (GoTy.ptr e).isPtr = e.isPtr := congrArg GoTy.isPtr he
  rw [h, isPtr_ptr] at h2
  cases h2

theorem elemTy_ptr {e : GoTy} (h : e.isPtr = false) : elemTy (.ptr e) e = e := by
  simp [elemTy, h]

theorem elemTy_self (t : GoTy) : elemTy t t = t := by
  unfold elemTy
  cases h : t.isPtr <;> simp

theorem srcTy_of_ne_iface {t : STy} (h : reflTy t ≠ .iface) (v : SV) : srcTy t v = reflTy t := by
  unfold srcTy
  simp [h]

/-- under exact typing the assignment stores the value itself, behind a fresh pointer when the
    field is a pointer to the property's type -/
theorem setField_exact {f : Field} {t : STy} (hex : exactField f (reflTy t) = true) (v : SV) :
    setField f.ty (srcTy t v) v = some (if f.ty = reflTy t then v else .ptr v) := by
  simp only [exactField, Bool.or_eq_true, beq_iff_eq, Bool.and_eq_true, Bool.not_eq_true', bne_iff_ne, ne_eq] at hex
  rcases hex with hex | ⟨⟨hex, hnp⟩, hni⟩
  · simp only [hex, if_true]
    by_cases hi : reflTy t = .iface
    · -- an interface field takes whatever the value's dynamic type is
      have hnp : (GoTy.iface).isPtr = false := rfl
      unfold setField
      rw [hi]
      simp only [elemTy, hnp, Bool.false_and, Bool.false_eq_true, if_false, convOK_iface, if_true, conv_iface]
    · rw [srcTy_of_ne_iface hi]
      unfold setField
      simp only [elemTy_self, convOK_refl, if_true, conv_refl]
      cases h : (reflTy t).isPtr <;> simp
  · have hne : f.ty ≠ reflTy t := by rw [hex]; exact ptr_ne_self hnp
    rw [srcTy_of_ne_iface hni]
    unfold setField
    rw [hex, elemTy_ptr hnp]
    simp only [convOK_refl, if_true, conv_refl, isPtr_ptr, hnp, Bool.not_false, Bool.and_self]
    rw [if_neg (ptr_ne_self hnp)]

theorem emptyLike_exact {src : GoTy} (x : SV) : emptyLike src src x = .ok (src != .iface && x.isZero) := by
  unfold emptyLike
  simp only [convOK_refl, Bool.not_true, Bool.false_eq_true, if_false]
  by_cases hi : src = .iface
  · simp [hi]
  · have : (src == GoTy.iface) = false := by simpa using hi
    simp only [this, Bool.false_eq_true, if_false]
    have hb : (src != GoTy.iface) = true := by simpa using hi
    rw [hb, Bool.true_and]
    split
    · rename_i h
      simp only [Bool.and_eq_true, beq_iff_eq] at h
      rw [h.1] at h
      simp [GoTy.isIntKind] at h
    · rfl

/-- what a property of reflected type `src` reads from a field that holds `v` (directly, or behind
    the pointer) under exact typing -/
theorem readField_stored {f : Field} {src : GoTy} (hex : exactField f src = true) (hexp : f.exported = true)
    (dis eid : Bool) {v : SV} (hv : shaped src v = true) :
    readField f src dis eid (if f.ty = src then v else .ptr v) =
      .ok (if (dis || eid) && src != .iface && v.isZero then none else some v) := by
  simp only [shaped, Bool.and_eq_true, Bool.not_eq_true'] at hv
  obtain ⟨hv1, hv2⟩ := hv
  simp only [exactField, Bool.or_eq_true, beq_iff_eq, Bool.and_eq_true, Bool.not_eq_true', bne_iff_ne, ne_eq] at hex
  have hel : elemTy f.ty src = src := by
    rcases hex with hex | ⟨⟨hex, hnp⟩, _⟩
    · rw [hex, elemTy_self]
    · rw [hex, elemTy_ptr hnp]
  have hx : ∀ (fv : SV), fieldValue f.ty src fv = v →
      fv.isNilPtr = false → readField f src dis eid fv =
        .ok (if (dis || eid) && src != .iface && v.isZero then none else some v) := by
    intro fv hfv hnn
    unfold readField
    simp only [hnn, Bool.false_eq_true, if_false, hexp, Bool.not_true, hfv, hv2, hel, emptyLike_exact, reflIsZero]
    generalize (src != GoTy.iface) = c1
    generalize v.isZero = c2
    cases dis <;> cases eid <;> cases c1 <;> cases c2 <;> simp [Out.bind]
  by_cases hft : f.ty = src
  · simp only [hft, if_true]
    apply hx v _ hv1
    cases v with
    | ptr e => cases hp : src.isPtr <;> simp [fieldValue, hft, hp]
    | _ => rfl
  · simp only [hft, if_false]
    rcases hex with hex | ⟨⟨hex, hnp⟩, _⟩
    · exact absurd hex hft
    · apply hx (.ptr v) _ rfl
      simp [fieldValue, hex, hnp]

/-- what a property reads from a field that holds the field's zero value -/
theorem readField_zero {f : Field} {src : GoTy} (hex : exactField f src = true) (hexp : f.exported = true)
    (hz : zeroOK f = true) (dis eid : Bool) :
    readField f src dis eid f.zero =
      .ok (if f.ty.isPtr || f.ty == .iface || dis || eid then none else some f.zero) := by
  simp only [zeroOK] at hz
  by_cases hp : f.ty.isPtr = true
  · simp only [hp, if_true] at hz
    cases hzv : f.zero <;> simp [hzv, SV.isNilPtr] at hz
    simp [readField, hp, SV.isNilPtr]
  · have hp' : f.ty.isPtr = false := by simpa using hp
    simp only [hp', Bool.false_eq_true, if_false] at hz
    by_cases hi : f.ty = .iface
    · simp only [hi, beq_self_eq_true, if_true] at hz
      cases hzv : f.zero with
      | val v =>
        cases v <;> simp [hzv, SV.isNilIface] at hz
        simp [readField, hexp, hi, SV.isNilPtr, SV.isNilIface, fieldValue]
      | _ => simp [hzv, SV.isNilIface] at hz
    · have hi' : (f.ty == GoTy.iface) = false := by simpa using hi
      simp only [hi', Bool.false_eq_true, if_false, Bool.and_eq_true, Bool.not_eq_true'] at hz
      obtain ⟨⟨⟨hz1, hz2⟩, hz3⟩, hz4⟩ := hz
      -- the field is not a pointer: exact typing says it has the property's type
      simp only [exactField, Bool.or_eq_true, beq_iff_eq, Bool.and_eq_true, Bool.not_eq_true', bne_iff_ne, ne_eq] at hex
      have hft : f.ty = src := by
        rcases hex with hex | ⟨⟨hex, _⟩, _⟩
        · exact hex
        · rw [hex, isPtr_ptr] at hp'; cases hp'
      have hsi : (src != GoTy.iface) = true := by rw [← hft]; simpa using hi
      simp only [hp', hi', Bool.false_or]
      have hx : fieldValue f.ty src f.zero = f.zero := by
        cases hzv : f.zero <;> simp [hzv, SV.isPtrVal, fieldValue] at hz3 ⊢
      rw [hft] at hx
      unfold readField
      simp only [hz2, Bool.false_eq_true, if_false, hexp, Bool.not_true, hft, hx, hz4, elemTy_self, emptyLike_exact,
        hsi, hz1, reflIsZero]
      cases dis <;> cases eid <;> simp [Out.bind]

/-! ### map -> struct -> map -/

/-- what a property reads back after `toStruct`, given what the converted map held for it:
    a supplied value comes back unless it is the zero value of a treat-empty-as-default (or
    disabled) property; an absent property comes back with the field's zero value unless the field
    is a pointer or an interface or the property is treat-empty-as-default or disabled -/
def readBack (f : Field) (p : SProp) (o : Option SV) : Option SV :=
  match o with
  | some v => if (p.disabled || p.emptyIsDefault) && reflTy p.ty != .iface && v.isZero then none else some v
  | none => if f.ty.isPtr || f.ty == .iface || p.disabled || p.emptyIsDefault then none else some f.zero

/-- the map `fromStruct` reads from the struct built from `m` -/
def expectedBack (st : StructTy) (props : List (String × SProp)) (m : List (String × SV)) : List (String × SV) :=
  props.filterMap fun kp =>
    match fieldFor st kp.1 with
    | some f => (readBack f kp.2 (lookupS kp.1 m)).map fun x => (kp.1, x)
    | none => none

/-- a converted map as `convertData` hands it to `unserializeToStruct`: distinct declared keys,
    values shaped like what the properties' types unserialize to -/
structure ConvertedMap (props : List (String × SProp)) (m : List (String × SV)) : Prop where
  keys : (keysOf m).Nodup
  declared : ∀ kv, kv ∈ m → hasKey kv.1 props = true
  shaped : ∀ kv, kv ∈ m → ∀ p, lookupS kv.1 props = some p → shaped (reflTy p.ty) kv.2 = true

theorem exact_of_mem {st : StructTy} {props : List (String × SProp)} (hex : exactObjB st props = true)
    {kp : String × SProp} (hkp : kp ∈ props) {f : Field} (hf : fieldFor st kp.1 = some f) :
    exactField f (reflTy kp.2.ty) = true := by
  have := (List.all_eq_true.mp hex) kp hkp
  simpa [hf] using this

theorem entrySet_exact {st : StructTy} {props : List (String × SProp)} (hwf : WFObj st props)
    (hex : exactObjB st props = true) {k : String} {p : SProp} (hkp : (k, p) ∈ props) {f : Field}
    (hf : fieldFor st k = some f) (v : SV) :
    entrySet st props k v = some (f.name, if f.ty = reflTy p.ty then v else .ptr v) := by
  obtain ⟨f', hf', hexp, _, _⟩ := propOK_field (hwf.prop (k, p) hkp)
  simp only [] at hf'
  rw [hf] at hf'; cases hf'
  have hl : lookupS k props = some p := lookupS_of_mem_nodup hwf.keys hkp
  simp only [entrySet, hf, hl, hexp, if_true, setField_exact (exact_of_mem hex hkp hf) v, Option.map_some]

theorem toStruct_exact {st : StructTy} {props : List (String × SProp)} (hwf : WFObj st props)
    (hex : exactObjB st props = true) {m : List (String × SV)} (hm : ConvertedMap props m) :
    toStruct st props m = .ok (applyEntries st props m (zeroFields st)) := by
  unfold toStruct
  apply toStructGo_of_all
  intro kv hkv
  obtain ⟨p, hp⟩ := Option.isSome_iff_exists.mp (hm.declared kv hkv)
  have hkp := lookupS_mem hp
  obtain ⟨f, hf, _⟩ := propOK_field (hwf.prop (kv.1, p) hkp)
  simp only [] at hf
  rw [entrySet_exact hwf hex hkp hf]
  rfl

/-- the field of a property after `toStruct`: the stored value of the entry, else the zero value -/
theorem lookupS_applied {st : StructTy} {props : List (String × SProp)} (hwf : WFObj st props)
    (hex : exactObjB st props = true) {m : List (String × SV)} (hm : ConvertedMap props m)
    {k : String} {p : SProp} (hkp : (k, p) ∈ props) {f : Field} (hf : fieldFor st k = some f) :
    lookupS f.name (applyEntries st props m (zeroFields st)) =
      some (match lookupS k m with
        | some v => if f.ty = reflTy p.ty then v else .ptr v
        | none => f.zero) := by
  have hk : hasKey k props = true := by
    simp [hasKey, lookupS_of_mem_nodup hwf.keys hkp]
  rw [lookupS_applyEntries, lastTarget_of_inj hwf.inj hf hk m hm.keys,
    lookupS_zeroFields hwf.names (fieldFor_mem hf)]
  cases hl : lookupS k m with
  | none => rfl
  | some v => simp [entrySet_exact hwf hex hkp hf v]

theorem readProp_applied {st : StructTy} {props : List (String × SProp)} (hwf : WFObj st props)
    (hex : exactObjB st props = true) {m : List (String × SV)} (hm : ConvertedMap props m)
    {k : String} {p : SProp} (hkp : (k, p) ∈ props) {f : Field} (hf : fieldFor st k = some f) :
    readProp st (applyEntries st props m (zeroFields st)) k p = .ok (readBack f p (lookupS k m)) := by
  obtain ⟨f', hf', hexp, _, _⟩ := propOK_field (hwf.prop (k, p) hkp)
  simp only [] at hf'
  rw [hf] at hf'; cases hf'
  have hexf := exact_of_mem hex hkp hf
  simp only [readProp, hf, lookupS_applied hwf hex hm hkp hf]
  cases hl : lookupS k m with
  | none =>
    simp only [readBack]
    exact readField_zero hexf hexp (hwf.zeros f (fieldFor_mem hf)) _ _
  | some v =>
    simp only [readBack]
    have hsh := hm.shaped (k, v) (lookupS_mem hl) p (lookupS_of_mem_nodup hwf.keys hkp)
    have := readField_stored hexf hexp p.disabled p.emptyIsDefault hsh
    simp only [] at this
    rw [this]

/-! ### map -> struct -> map for every well-formed pair (values pass through `Convert`) -/

/-- the value stored for a property: the entry's value converted to the field's (element) type;
    an interface field takes the value as it is -/
def convBack (f : Field) (p : SProp) (v : SV) : SV :=
  if reflTy p.ty = .iface then v else conv (elemTy f.ty (reflTy p.ty)) (reflTy p.ty) v

/-- the treat-empty-as-default test as a Boolean (when the types convert) -/
def emptyB (vty src : GoTy) (x : SV) : Bool :=
  vty != .iface && (if vty.under == .str && src.under.isIntKind then isRune0 x else x.isZero)

theorem emptyLike_of_convOK {vty src : GoTy} (h : convOK vty src = true) (x : SV) :
    emptyLike vty src x = .ok (emptyB vty src x) := by
  unfold emptyLike emptyB
  simp only [h, Bool.not_true, Bool.false_eq_true, if_false]
  by_cases hi : vty = .iface
  · simp [hi]
  · have hb : (vty == GoTy.iface) = false := by simpa using hi
    have hb' : (vty != GoTy.iface) = true := by simpa using hi
    simp only [hb, Bool.false_eq_true, if_false, hb', Bool.true_and]
    split <;> rfl

/-- what a property reads back after `toStruct`, for any well-formed pair -/
def readBackC (f : Field) (p : SProp) (o : Option SV) : Option SV :=
  match o with
  | some v =>
    if (convBack f p v).isNilIface then none
    else if p.disabled && reflIsZero (elemTy f.ty (reflTy p.ty)) (convBack f p v) then none
    else if p.emptyIsDefault && emptyB (elemTy f.ty (reflTy p.ty)) (reflTy p.ty) (convBack f p v) then none
    else some (convBack f p v)
  | none =>
    if f.ty.isPtr || f.ty == .iface || p.disabled then none
    else if p.emptyIsDefault && emptyB f.ty (reflTy p.ty) f.zero then none
    else some f.zero

def expectedBackC (st : StructTy) (props : List (String × SProp)) (m : List (String × SV)) : List (String × SV) :=
  props.filterMap fun kp =>
    match fieldFor st kp.1 with
    | some f => (readBackC f kp.2 (lookupS kp.1 m)).map fun x => (kp.1, x)
    | none => none

theorem conv_isPtrVal (dst src : GoTy) (v : SV) : (conv dst src v).isPtrVal = v.isPtrVal := by
  unfold conv
  split
  · rfl
  · split
    · rfl
    · split <;> rfl

theorem conv_isNilPtr (dst src : GoTy) (v : SV) : (conv dst src v).isNilPtr = v.isNilPtr := by
  unfold conv
  split
  · rfl
  · split
    · rfl
    · split <;> rfl

theorem fieldValue_of_not_ptr {fty src : GoTy} {x : SV}
    (h : x.isPtrVal = false ∨ (fty.isPtr && !src.isPtr) = false) : fieldValue fty src x = x := by
  cases x with
  | ptr e =>
    rcases h with h | h
    · simp [SV.isPtrVal] at h
    · simp only [fieldValue, h]; rfl
  | _ => rfl

/-- the value stored in the field (behind a fresh pointer for a pointer field) -/
def storedC (f : Field) (p : SProp) (v : SV) : SV :=
  if f.ty.isPtr && !(reflTy p.ty).isPtr then .ptr (convBack f p v) else convBack f p v

theorem setField_wf {f : Field} {p : SProp}
    (hconv : convOK (elemTy f.ty (reflTy p.ty)) (reflTy p.ty) = true)
    (hif : reflTy p.ty = .iface → f.ty = .iface) (v : SV) :
    setField f.ty (srcTy p.ty v) v = some (storedC f p v) := by
  by_cases hi : reflTy p.ty = .iface
  · have hft := hif hi
    have hex : exactField f (reflTy p.ty) = true := by simp [exactField, hft, hi]
    rw [setField_exact hex v]
    simp [storedC, convBack, hi, hft]
  · rw [srcTy_of_ne_iface hi]
    unfold setField
    simp only [hconv, if_true, storedC, convBack, hi, if_false]

theorem readField_storedC {f : Field} {p : SProp} (hexp : f.exported = true)
    (hconv : convOK (elemTy f.ty (reflTy p.ty)) (reflTy p.ty) = true) {v : SV}
    (hv : shaped (reflTy p.ty) v = true) :
    readField f (reflTy p.ty) p.disabled p.emptyIsDefault (storedC f p v) = .ok (readBackC f p (some v)) := by
  simp only [shaped, Bool.and_eq_true, Bool.not_eq_true'] at hv
  obtain ⟨hv1, _⟩ := hv
  have hcn : (convBack f p v).isNilPtr = false := by
    unfold convBack; split
    · exact hv1
    · rw [conv_isNilPtr]; exact hv1
  have hfv : fieldValue f.ty (reflTy p.ty) (storedC f p v) = convBack f p v := by
    unfold storedC
    by_cases hw : (f.ty.isPtr && !(reflTy p.ty).isPtr) = true
    · simp only [hw, if_true]
      simp [fieldValue, hw]
    · simp only [hw, Bool.false_eq_true, if_false]
      exact fieldValue_of_not_ptr (Or.inr (by simpa using hw))
  have hnn : (storedC f p v).isNilPtr = false := by
    unfold storedC
    split
    · rfl
    · exact hcn
  unfold readField
  simp only [hnn, Bool.false_eq_true, if_false, hexp, Bool.not_true, hfv, readBackC]
  by_cases hni : (convBack f p v).isNilIface = true
  · simp [hni]
  · simp only [hni, Bool.false_eq_true, if_false]
    generalize (p.disabled && reflIsZero (elemTy f.ty (reflTy p.ty)) (convBack f p v)) = c
    cases c
    · simp only [Bool.false_eq_true, if_false]
      cases p.emptyIsDefault
      · simp
      · simp only [if_true, emptyLike_of_convOK hconv, Out.bind, Bool.true_and]
    · simp

theorem readField_zeroC {f : Field} {p : SProp} (hexp : f.exported = true)
    (hconv : convOK (elemTy f.ty (reflTy p.ty)) (reflTy p.ty) = true) (hz : zeroOK f = true) :
    readField f (reflTy p.ty) p.disabled p.emptyIsDefault f.zero = .ok (readBackC f p none) := by
  simp only [zeroOK] at hz
  by_cases hp : f.ty.isPtr = true
  · simp only [hp, if_true] at hz
    cases hzv : f.zero <;> simp [hzv, SV.isNilPtr] at hz
    simp [readField, readBackC, hp, SV.isNilPtr]
  · have hp' : f.ty.isPtr = false := by simpa using hp
    simp only [hp', Bool.false_eq_true, if_false] at hz
    by_cases hi : f.ty = .iface
    · simp only [hi, beq_self_eq_true, if_true] at hz
      cases hzv : f.zero with
      | val v =>
        cases v <;> simp [hzv, SV.isNilIface] at hz
        simp [readField, readBackC, hexp, hi, SV.isNilPtr, SV.isNilIface, fieldValue]
      | _ => simp [hzv, SV.isNilIface] at hz
    · have hi' : (f.ty == GoTy.iface) = false := by simpa using hi
      simp only [hi', Bool.false_eq_true, if_false, Bool.and_eq_true, Bool.not_eq_true'] at hz
      obtain ⟨⟨⟨hz1, hz2⟩, hz3⟩, hz4⟩ := hz
      have hel : elemTy f.ty (reflTy p.ty) = f.ty := by simp [elemTy, hp']
      rw [hel] at hconv
      have hx : fieldValue f.ty (reflTy p.ty) f.zero = f.zero := fieldValue_of_not_ptr (Or.inl hz3)
      have hrz : reflIsZero f.ty f.zero = true := by simp [reflIsZero, hi, hz1]
      unfold readField
      simp only [hz2, Bool.false_eq_true, if_false, hexp, Bool.not_true, hx, hz4, hel, readBackC, hp', hi',
        Bool.or_self, hrz, Bool.and_true, Bool.false_or]
      cases p.disabled
      · simp only [Bool.false_eq_true, if_false]
        cases p.emptyIsDefault
        · simp
        · simp only [if_true, emptyLike_of_convOK hconv, Out.bind, Bool.true_and]
      · simp

theorem entrySet_wf {st : StructTy} {props : List (String × SProp)} (hwf : WFObj st props)
    {k : String} {p : SProp} (hkp : (k, p) ∈ props) {f : Field} (hf : fieldFor st k = some f) (v : SV) :
    entrySet st props k v = some (f.name, storedC f p v) := by
  obtain ⟨f', hf', hexp, hconv, hif⟩ := propOK_field (hwf.prop (k, p) hkp)
  simp only [] at hf' hconv hif
  rw [hf] at hf'; cases hf'
  have hl : lookupS k props = some p := lookupS_of_mem_nodup hwf.keys hkp
  simp only [entrySet, hf, hl, hexp, if_true, setField_wf hconv hif v, Option.map_some]

theorem toStruct_wf {st : StructTy} {props : List (String × SProp)} (hwf : WFObj st props)
    {m : List (String × SV)} (hdecl : ∀ kv, kv ∈ m → hasKey kv.1 props = true) :
    toStruct st props m = .ok (applyEntries st props m (zeroFields st)) := by
  unfold toStruct
  apply toStructGo_of_all
  intro kv hkv
  obtain ⟨p, hp⟩ := Option.isSome_iff_exists.mp (hdecl kv hkv)
  have hkp := lookupS_mem hp
  obtain ⟨f, hf, _⟩ := propOK_field (hwf.prop (kv.1, p) hkp)
  simp only [] at hf
  rw [entrySet_wf hwf hkp hf]
  rfl

theorem readProp_appliedC {st : StructTy} {props : List (String × SProp)} (hwf : WFObj st props)
    {m : List (String × SV)} (hm : ConvertedMap props m)
    {k : String} {p : SProp} (hkp : (k, p) ∈ props) {f : Field} (hf : fieldFor st k = some f) :
    readProp st (applyEntries st props m (zeroFields st)) k p = .ok (readBackC f p (lookupS k m)) := by
  obtain ⟨f', hf', hexp, hconv, _⟩ := propOK_field (hwf.prop (k, p) hkp)
  simp only [] at hf' hconv
  rw [hf] at hf'; cases hf'
  have hk : hasKey k props = true := by simp [hasKey, lookupS_of_mem_nodup hwf.keys hkp]
  have hlook : lookupS f.name (applyEntries st props m (zeroFields st)) =
      some (match lookupS k m with | some v => storedC f p v | none => f.zero) := by
    rw [lookupS_applyEntries, lastTarget_of_inj hwf.inj hf hk m hm.keys,
      lookupS_zeroFields hwf.names (fieldFor_mem hf)]
    cases hl : lookupS k m with
    | none => rfl
    | some v => simp [entrySet_wf hwf hkp hf v]
  simp only [readProp, hf, hlook]
  cases hl : lookupS k m with
  | none => exact readField_zeroC hexp hconv (hwf.zeros f (fieldFor_mem hf))
  | some v =>
    exact readField_storedC hexp hconv (hm.shaped (k, v) (lookupS_mem hl) p (lookupS_of_mem_nodup hwf.keys hkp))

/-! ### struct -> map -> struct -/

/-- the shape of a field value under exact typing: a field of the property's own type holds a
    pointer only when that type is a pointer type; a pointer field holds nil or a pointer -/
def fieldShaped (f : Field) (src : GoTy) (fv : SV) : Bool :=
  if f.ty == src then (!fv.isPtrVal || src.isPtr) else (fv.isNilPtr || fv.isPtrVal)

/-- a value of the struct type whose unset and unmapped fields hold their zero values - exactly the
    values the map read from it determines -/
structure StructValue (st : StructTy) (props : List (String × SProp)) (fs : List (String × SV)) : Prop where
  names : keysOf fs = st.fields.map (·.name)
  shaped : ∀ kp, kp ∈ props → ∀ f fv, fieldFor st kp.1 = some f → lookupS f.name fs = some fv →
    fieldShaped f (reflTy kp.2.ty) fv = true
  /-- whatever reads as unset is the zero value (a non-nil pointer to the zero value of a
      treat-empty-as-default property, or a negative zero, would be lost) -/
  recoverable : ∀ kp, kp ∈ props → ∀ f fv, fieldFor st kp.1 = some f → lookupS f.name fs = some fv →
    readField f (reflTy kp.2.ty) kp.2.disabled kp.2.emptyIsDefault fv = .ok none → fv = f.zero
  /-- fields that no property is mapped to hold their zero value -/
  unmapped : ∀ f, f ∈ st.fields → (∀ kp, kp ∈ props → fieldName? st kp.1 ≠ some f.name) →
    lookupS f.name fs = some f.zero

theorem readField_some {f : Field} {src : GoTy} {dis eid : Bool} {fv x : SV}
    (h : readField f src dis eid fv = .ok (some x)) : x = fieldValue f.ty src fv ∧ fv.isNilPtr = false := by
  unfold readField at h
  split at h
  · cases h
  · rename_i hn
    split at h
    · cases h
    · split at h
      · cases h
      · split at h
        · cases h
        · split at h
          · obtain ⟨e, _, he⟩ := Out.bind_eq_ok h
            cases e <;> simp at he
            exact ⟨he.symm, by simpa using hn⟩
          · simp only [Out.ok.injEq, Option.some.injEq] at h
            exact ⟨h.symm, by simpa using hn⟩

theorem stored_eq_of_shaped {f : Field} {src : GoTy} (hex : exactField f src = true) {fv : SV}
    (hs : fieldShaped f src fv = true) (hn : fv.isNilPtr = false) :
    (if f.ty = src then fieldValue f.ty src fv else .ptr (fieldValue f.ty src fv)) = fv := by
  simp only [exactField, Bool.or_eq_true, beq_iff_eq, Bool.and_eq_true, Bool.not_eq_true', bne_iff_ne, ne_eq] at hex
  simp only [fieldShaped] at hs
  by_cases hft : f.ty = src
  · simp only [hft, beq_self_eq_true, if_true, Bool.or_eq_true, Bool.not_eq_true'] at hs ⊢
    cases fv with
    | ptr e => cases hp : src.isPtr <;> simp [fieldValue, hp]
    | _ => rfl
  · have hb : (f.ty == src) = false := by simpa using hft
    simp only [hb, Bool.false_eq_true, if_false, Bool.or_eq_true, hft] at hs ⊢
    rcases hex with hex | ⟨⟨hex, hnp⟩, _⟩
    · exact absurd hex hft
    · cases fv with
      | ptr e => simp [fieldValue, hex, hnp]
      | nilPtr => simp [SV.isNilPtr] at hn
      | _ => simp [SV.isNilPtr, SV.isPtrVal] at hs

theorem field_eq_of_name {st : StructTy} (hn : (st.fields.map (·.name)).Nodup) {f g : Field}
    (hf : f ∈ st.fields) (hg : g ∈ st.fields) (h : f.name = g.name) : f = g := by
  have h1 := lookupS_zeroFields hn hf
  have h2 := lookupS_zeroFields hn hg
  -- both are found at the first (only) field of that name; compare through the field list itself
  have key : ∀ (l : List Field), (l.map (·.name)).Nodup → f ∈ l → g ∈ l → f = g := by
    intro l
    induction l with
    | nil => intro _ hf; cases hf
    | cons a rest ih =>
      intro hnd hf hg
      simp only [List.map_cons, List.nodup_cons, List.mem_map, not_exists, not_and] at hnd
      rcases List.mem_cons.mp hf with hf1 | hf1
      · rcases List.mem_cons.mp hg with hg1 | hg1
        · rw [hf1, hg1]
        · subst hf1; exact absurd h.symm (hnd.1 g hg1)
      · rcases List.mem_cons.mp hg with hg1 | hg1
        · subst hg1; exact absurd h (hnd.1 f hf1)
        · exact ih hnd.2 hf1 hg1
  exact key _ hn hf hg

theorem lastTarget_none {st : StructTy} {props : List (String × SProp)} {n : String} :
    ∀ (m : List (String × SV)), (∀ kv, kv ∈ m → ∀ n' x, entrySet st props kv.1 kv.2 = some (n', x) → n' ≠ n) →
      lastTarget st props n m = none
  | [], _ => rfl
  | (k, v) :: rest, h => by
    simp only [lastTarget]
    rw [lastTarget_none rest (fun kv hkv => h kv (List.mem_cons_of_mem _ hkv))]
    simp only []
    cases hes : entrySet st props k v with
    | none => rfl
    | some nx =>
      obtain ⟨n', x⟩ := nx
      have := h (k, v) (List.mem_cons_self ..) n' x hes
      simp [this]

theorem keysOf_filterMap_readOpt (st : StructTy) (fs : List (String × SV)) : ∀ (props : List (String × SProp)),
    (keysOf (props.filterMap (readOpt st fs))).Sublist (keysOf props)
  | [] => by simp [keysOf]
  | kp :: rest => by
    have ih := keysOf_filterMap_readOpt st fs rest
    simp only [List.filterMap_cons]
    cases h : readOpt st fs kp with
    | none => simp only [keysOf, List.map_cons]; exact List.Sublist.cons _ ih
    | some kx =>
      have : kx.1 = kp.1 := by
        unfold readOpt at h
        split at h
        · simp only [Option.some.injEq] at h; rw [← h]
        · cases h
      simp only [keysOf, List.map_cons, this]
      exact List.Sublist.cons_cons _ ih

theorem lookupS_filterMap_readOpt (st : StructTy) (fs : List (String × SV)) : ∀ (props : List (String × SProp)),
    (keysOf props).Nodup → ∀ (k : String) (p : SProp), (k, p) ∈ props →
      lookupS k (props.filterMap (readOpt st fs)) = (readOpt st fs (k, p)).map (·.2)
  | [], _, _, _, h => by cases h
  | kp :: rest, hn, k, p, h => by
    simp only [keysOf, List.map_cons, List.nodup_cons] at hn
    simp only [List.filterMap_cons]
    rcases List.mem_cons.mp h with h | h
    · subst h
      cases hr : readOpt st fs (k, p) with
      | none =>
        simp only [Option.map_none]
        apply (lookupS_eq_none_iff _ _).mpr
        intro hc
        exact hn.1 ((keysOf_filterMap_readOpt st fs rest).subset hc)
      | some kx =>
        have : kx.1 = k := by
          unfold readOpt at hr
          split at hr
          · simp only [Option.some.injEq] at hr; rw [← hr]
          · cases hr
        obtain ⟨k', x⟩ := kx
        simp only [] at this
        subst this
        simp [lookupS_cons]
    · have hk : k ∈ keysOf rest := List.mem_map.mpr ⟨(k, p), h, rfl⟩
      have hne : k ≠ kp.1 := by intro e; subst e; exact hn.1 hk
      have ih := lookupS_filterMap_readOpt st fs rest hn.2 k p h
      cases hr : readOpt st fs kp with
      | none => exact ih
      | some kx =>
        have : kx.1 = kp.1 := by
          unfold readOpt at hr
          split at hr
          · simp only [Option.some.injEq] at hr; rw [← hr]
          · cases hr
        obtain ⟨k', x⟩ := kx
        simp only [] at this
        subst this
        simp only [lookupS_cons, hne, if_false]
        exact ih

end SM
end Arca
