import ArcaModel.Lemmas.StructRoundTripObj
/-
  The end-to-end round trip of slices and maps whose elements are struct-mapped objects.
-/
namespace Arca
namespace SM
open Out

/-- two lists related element by element -/
inductive All2 {α β} (R : α → β → Prop) : List α → List β → Prop
  | nil : All2 R [] []
  | cons {a b as bs} : R a b → All2 R as bs → All2 R (a :: as) (b :: bs)

theorem addSeg_ok_iff {α} {o : Out α} {seg : String} {r : α} : o.addSeg seg = .ok r ↔ o = .ok r := by
  cases o <;> simp [Out.addSeg]

theorem forIdxS_ok_iff {f : Nat → SV → Out SV} {P : SV → SV → Prop} (hf : ∀ j e y, f j e = .ok y ↔ P e y) :
    ∀ (i : Nat) (xs ys : List SV), forIdxS f i xs = .ok ys ↔ All2 P xs ys
  | _, [], ys => by
    simp only [forIdxS, Out.ok.injEq]
    constructor
    · intro h; subst h; exact .nil
    · intro h; cases h; rfl
  | i, x :: xs, ys => by
    have ih := forIdxS_ok_iff hf (i + 1) xs
    simp only [forIdxS]
    cases hx : f i x with
    | ok y =>
      simp only []
      cases hr : forIdxS f (i + 1) xs with
      | ok ys' =>
        simp only [Out.ok.injEq]
        constructor
        · intro h; subst h; exact .cons ((hf _ _ _).mp hx) ((ih ys').mp hr)
        · intro h
          cases h with
          | cons h1 h2 =>
            have h1' := (hf i _ _).mpr h1
            rw [hx] at h1'; cases h1'
            have := (ih _).mpr h2
            rw [hr] at this; cases this; rfl
      | err e =>
        constructor
        · intro h; cases h
        · intro h
          cases h with
          | cons h1 h2 => have := (ih _).mpr h2; rw [hr] at this; cases this
      | panic =>
        constructor
        · intro h; cases h
        · intro h
          cases h with
          | cons h1 h2 => have := (ih _).mpr h2; rw [hr] at this; cases this
      | fuel =>
        constructor
        · intro h; cases h
        · intro h
          cases h with
          | cons h1 h2 => have := (ih _).mpr h2; rw [hr] at this; cases this
    | err e =>
      constructor
      · intro h; cases h
      · intro h; cases h with | cons h1 _ => have := (hf i _ _).mpr h1; rw [hx] at this; cases this
    | panic =>
      constructor
      · intro h; cases h
      · intro h; cases h with | cons h1 _ => have := (hf i _ _).mpr h1; rw [hx] at this; cases this
    | fuel =>
      constructor
      · intro h; cases h
      · intro h; cases h with | cons h1 _ => have := (hf i _ _).mpr h1; rw [hx] at this; cases this

theorem forIdxS_addSeg_ok_iff {g : SV → Out SV} (i : Nat) (xs ys : List SV) :
    forIdxS (fun j e => (g e).addSeg (idxSeg j)) i xs = .ok ys ↔ All2 (fun e y => g e = .ok y) xs ys :=
  forIdxS_ok_iff (fun _ _ _ => addSeg_ok_iff) i xs ys

theorem forall₂_length {α β} {R : α → β → Prop} : ∀ {xs : List α} {ys : List β}, All2 R xs ys → xs.length = ys.length
  | _, _, .nil => rfl
  | _, _, .cons _ h => by simp [forall₂_length h]

theorem allVals_map_val : ∀ (wl : List V), allVals (wl.map SV.val) = .ok wl
  | [] => rfl
  | w :: rest => by simp [allVals, asVal, allVals_map_val rest, Out.bind]

/-- the chain over the elements of a slice -/
theorem list_chain {rec : SRec} {item : STy} (h : RTAt rec item) : ∀ {xs ys : List SV},
    All2 (fun e y => rec .U item e = .ok y) xs ys →
    ∃ (wl : List V) (ys' : List SV), All2 (fun y u => rec .V item y = .ok u) ys (ys.map fun _ => SV.val unitV) ∧
      All2 (fun y sw => rec .S item y = .ok sw) ys (wl.map SV.val) ∧
      All2 (fun e y' => rec .U item e = .ok y') (wl.map SV.val) ys' ∧
      EqvList item ys ys' ∧
      All2 (fun y' sw => rec .S item y' = .ok sw) ys' (wl.map SV.val) ∧
      All2 (fun y' u => rec .V item y' = .ok u) ys' (ys'.map fun _ => SV.val unitV)
  | _, _, .nil => ⟨[], [], .nil, .nil, .nil, .nil, .nil, .nil⟩
  | _, _, .cons hxy hrest => by
    obtain ⟨wl, ys', h1, h2, h3, h4, h5, h6⟩ := list_chain h hrest
    obtain ⟨hV, w, s', hS, hU2, hE, hS2, hV2, _⟩ := h _ _ hxy
    exact ⟨w :: wl, s' :: ys', .cons hV h1, .cons hS h2, .cons hU2 h3, .cons hE h4, .cons hS2 h5, .cons hV2 h6⟩

theorem elems_val_list (wl : List V) : (SV.val (V.list wl)).elems? = some (wl.map SV.val) := by
  simp [SV.elems?, V.sliceElems?]

/-- the end-to-end round trip of a slice of struct-mapped objects -/
theorem rt_list {rec : SRec} {item : STy} (min max : Option Int) (h : RTAt rec item) (v s : SV)
    (hU : runListS rec .U item min max v = .ok s) :
    runListS rec .V item min max s = .ok (.val unitV) ∧
    ∃ w s', runListS rec .S item min max s = .ok (.val w) ∧ runListS rec .U item min max (.val w) = .ok s' ∧
      Eqv (.list item min max) s s' ∧ runListS rec .S item min max s' = .ok (.val w) ∧
      runListS rec .V item min max s' = .ok (.val unitV) := by
  unfold runListS at hU
  split at hU
  · simp [Out.cerr] at hU
  · rename_i xs _
    obtain ⟨_, hlen, hU⟩ := Out.bind_eq_ok hU
    obtain ⟨ys, hys, hU⟩ := Out.bind_eq_ok hU
    cases hU
    have hF := (forIdxS_addSeg_ok_iff 0 xs ys).mp hys
    obtain ⟨wl, ys', h1, h2, h3, h4, h5, h6⟩ := list_chain h hF
    have hl1 : ys.length = xs.length := (forall₂_length hF).symm
    have hl2 : (wl.map SV.val).length = xs.length := by rw [← forall₂_length h2, hl1]
    have hl3 : ys'.length = xs.length := by rw [← forall₂_length h3, hl2]
    have hlen' : ∀ (n : Nat), n = xs.length → checkLen min max n = .ok () := by
      intro n hn; rw [hn]; cases hc : checkLen min max xs.length <;> simp_all
    have e1 := (forIdxS_addSeg_ok_iff (g := fun e => rec .V item e) 0 ys _).mpr h1
    have e2 := (forIdxS_addSeg_ok_iff (g := fun e => rec .S item e) 0 ys _).mpr h2
    have e3 := (forIdxS_addSeg_ok_iff (g := fun e => rec .U item e) 0 _ ys').mpr h3
    have e5 := (forIdxS_addSeg_ok_iff (g := fun e => rec .S item e) 0 ys' _).mpr h5
    have e6 := (forIdxS_addSeg_ok_iff (g := fun e => rec .V item e) 0 ys' _).mpr h6
    refine ⟨?_, V.list wl, .slice ys', ?_, ?_, .list h4, ?_, ?_⟩
    · simp [runListS, SV.elems?, hlen' _ hl1, e1, Out.bind]
    · simp [runListS, SV.elems?, hlen' _ hl1, e1, e2, allVals_map_val, Out.bind]
    · simp only [runListS, elems_val_list, hlen' _ hl2, e3, Out.bind]
    · simp [runListS, SV.elems?, hlen' _ hl3, e6, e5, allVals_map_val, Out.bind]
    · simp [runListS, SV.elems?, hlen' _ hl3, e6, Out.bind]

/-! ### maps of struct-mapped objects -/

theorem forKVS_ok_iff {f : V → SV → Out (V × SV)} : ∀ (kvs kvs' : List (V × SV)),
    forKVS f kvs = .ok kvs' ↔ All2 (fun ke ke' => f ke.1 ke.2 = .ok ke') kvs kvs'
  | [], kvs' => by
    simp only [forKVS, Out.ok.injEq]
    constructor
    · intro h; subst h; exact .nil
    · intro h; cases h; rfl
  | (k, e) :: rest, kvs' => by
    have ih := forKVS_ok_iff (f := f) rest
    simp only [forKVS]
    cases hx : f k e with
    | ok y =>
      simp only []
      cases hr : forKVS f rest with
      | ok ys' =>
        simp only [Out.ok.injEq]
        constructor
        · intro h; subst h; exact .cons hx ((ih ys').mp hr)
        · intro h
          cases h with
          | cons h1 h2 =>
            simp only [] at h1
            rw [hx] at h1; cases h1
            have := (ih _).mpr h2
            rw [hr] at this; cases this; rfl
      | err er =>
        constructor
        · intro h; cases h
        · intro h
          cases h with
          | cons h1 h2 => have := (ih _).mpr h2; rw [hr] at this; cases this
      | panic =>
        constructor
        · intro h; cases h
        · intro h
          cases h with
          | cons h1 h2 => have := (ih _).mpr h2; rw [hr] at this; cases this
      | fuel =>
        constructor
        · intro h; cases h
        · intro h
          cases h with
          | cons h1 h2 => have := (ih _).mpr h2; rw [hr] at this; cases this
    | err er =>
      constructor
      · intro h; cases h
      · intro h; cases h with | cons h1 _ => simp only [] at h1; rw [hx] at h1; cases h1
    | panic =>
      constructor
      · intro h; cases h
      · intro h; cases h with | cons h1 _ => simp only [] at h1; rw [hx] at h1; cases h1
    | fuel =>
      constructor
      · intro h; cases h
      · intro h; cases h with | cons h1 _ => simp only [] at h1; rw [hx] at h1; cases h1

theorem entryKVS_ok_iff {rec : SRec} {x : Ext} {fuel : Nat} {op : SOp} {kt : Ty} {vt : STy} {k : V} {e : SV} {r : V × SV} :
    entryKVS rec x fuel op kt vt k e = .ok r ↔ run x fuel op.toOp [] kt k = .ok r.1 ∧ rec op vt e = .ok r.2 := by
  unfold entryKVS
  constructor
  · intro h
    obtain ⟨k', hk, h⟩ := Out.bind_eq_ok h
    obtain ⟨e', he, h⟩ := Out.bind_eq_ok h
    cases h
    exact ⟨addSeg_ok_iff.mp hk, addSeg_ok_iff.mp he⟩
  · intro ⟨hk, he⟩
    rw [hk, he]
    simp [Out.addSeg, Out.bind]

theorem all2_length {α β} {R : α → β → Prop} {xs : List α} {ys : List β} (h : All2 R xs ys) : xs.length = ys.length :=
  forall₂_length h

theorem allValKVs_map_val : ∀ (es : List (V × V)), allValKVs (es.map fun kw => (kw.1, SV.val kw.2)) = .ok es
  | [] => rfl
  | (k, w) :: rest => by simp [allValKVs, asVal, allValKVs_map_val rest, Out.bind]

theorem entries_val_map (es : List (V × V)) :
    (SV.val (V.map .anyAny es)).entries? = some (es.map fun kw => (kw.1, SV.val kw.2)) := by
  simp [SV.entries?, V.mapEntries?]

theorem dupKeyS_congr : ∀ {t : STy} {a b : List (V × SV)}, EqvKVs t a b → dupKeyS a = dupKeyS b := by
  intro t a b h
  have : a.map (fun kv => (kv.1, V.nil)) = b.map (fun kv => (kv.1, V.nil)) := by
    induction a generalizing b with
    | nil => cases h; rfl
    | cons p r ih =>
      cases h with
      | cons _ hr => simp [ih hr]
  simp only [dupKeyS, this]

/-- the chain over the entries of a map: keys by C01's leaf round trip, values by `RTAt` -/
theorem map_chain {rec : SRec} {x : Ext} {fuel : Nat} {kt : Ty} {vt : STy} (hk : WF1 [] kt) (h : RTAt rec vt) :
    ∀ {kvs kvs1 : List (V × SV)}, All2 (fun ke ke' => entryKVS rec x fuel .U kt vt ke.1 ke.2 = .ok ke') kvs kvs1 →
    ∃ (es : List (V × V)) (kvs2 : List (V × SV)),
      All2 (fun ke ke' => entryKVS rec x fuel .V kt vt ke.1 ke.2 = .ok ke') kvs1 (kvs1.map fun _ => (unitV, SV.val unitV)) ∧
      All2 (fun ke ke' => entryKVS rec x fuel .S kt vt ke.1 ke.2 = .ok ke') kvs1 (es.map fun kw => (kw.1, SV.val kw.2)) ∧
      All2 (fun ke ke' => entryKVS rec x fuel .U kt vt ke.1 ke.2 = .ok ke') (es.map fun kw => (kw.1, SV.val kw.2)) kvs2 ∧
      EqvKVs vt kvs1 kvs2 ∧
      All2 (fun ke ke' => entryKVS rec x fuel .S kt vt ke.1 ke.2 = .ok ke') kvs2 (es.map fun kw => (kw.1, SV.val kw.2)) ∧
      All2 (fun ke ke' => entryKVS rec x fuel .V kt vt ke.1 ke.2 = .ok ke') kvs2 (kvs2.map fun _ => (unitV, SV.val unitV))
  | _, _, .nil => ⟨[], [], .nil, .nil, .nil, .nil, .nil, .nil⟩
  | _, _, .cons hxy hrest => by
    rename_i ke ke1 _ _
    obtain ⟨es, kvs2, h1, h2, h3, h4, h5, h6⟩ := map_chain hk h hrest
    obtain ⟨hku, hvu⟩ := entryKVS_ok_iff.mp hxy
    obtain ⟨hkV, kw, hkS, hkU⟩ := C01_roundtrip_closed_partial x fuel kt ke.1 ke1.1 hk hku
    obtain ⟨hV, w, s', hS, hU2, hE, hS2, hV2, _⟩ := h _ _ hvu
    simp only [done] at hkV
    refine ⟨(kw, w) :: es, (ke1.1, s') :: kvs2, .cons ?_ h1, .cons ?_ h2, .cons ?_ h3, .cons hE h4, .cons ?_ h5, .cons ?_ h6⟩
    · exact entryKVS_ok_iff.mpr ⟨hkV, hV⟩
    · exact entryKVS_ok_iff.mpr ⟨hkS, hS⟩
    · exact entryKVS_ok_iff.mpr ⟨hkU, hU2⟩
    · exact entryKVS_ok_iff.mpr ⟨hkS, hS2⟩
    · exact entryKVS_ok_iff.mpr ⟨hkV, hV2⟩

/-- the end-to-end round trip of a map of struct-mapped objects -/
theorem rt_map {rec : SRec} (x : Ext) (fuel : Nat) {kt : Ty} {vt : STy} (min max : Option Int) (hk : WF1 [] kt)
    (h : RTAt rec vt) (v s : SV) (hU : runMapS rec x fuel .U kt vt min max v = .ok s) :
    runMapS rec x fuel .V kt vt min max s = .ok (.val unitV) ∧
    ∃ w s', runMapS rec x fuel .S kt vt min max s = .ok (.val w) ∧
      runMapS rec x fuel .U kt vt min max (.val w) = .ok s' ∧
      Eqv (.map kt vt min max) s s' ∧ runMapS rec x fuel .S kt vt min max s' = .ok (.val w) ∧
      runMapS rec x fuel .V kt vt min max s' = .ok (.val unitV) := by
  unfold runMapS at hU
  split at hU
  · simp [Out.cerr] at hU
  · rename_i kvs _
    obtain ⟨_, hlen, hU⟩ := Out.bind_eq_ok hU
    obtain ⟨kvs1, hys, hU⟩ := Out.bind_eq_ok hU
    split at hU
    · simp [Out.cerr] at hU
    · rename_i hdup
      cases hU
      have hF := (forKVS_ok_iff kvs kvs1).mp hys
      obtain ⟨es, kvs2, h1, h2, h3, h4, h5, h6⟩ := map_chain hk h hF
      have hl1 : kvs1.length = kvs.length := (all2_length hF).symm
      have hl2 : (es.map fun kw => (kw.1, SV.val kw.2)).length = kvs.length := by rw [← all2_length h2, hl1]
      have hl3 : kvs2.length = kvs.length := by rw [← all2_length h3, hl2]
      have hlen' : ∀ (n : Nat), n = kvs.length → checkLen min max n = .ok () := by
        intro n hn; rw [hn]; cases hc : checkLen min max kvs.length <;> simp_all
      have e1 := (forKVS_ok_iff _ _).mpr h1
      have e2 := (forKVS_ok_iff _ _).mpr h2
      have e3 := (forKVS_ok_iff _ _).mpr h3
      have e5 := (forKVS_ok_iff _ _).mpr h5
      have e6 := (forKVS_ok_iff _ _).mpr h6
      have hdup2 : dupKeyS kvs2 = false := by
        rw [← dupKeyS_congr h4]; simpa using hdup
      refine ⟨?_, V.map .anyAny es, .map ⟨kt.keyTy, false⟩ kvs2, ?_, ?_, .map h4, ?_, ?_⟩
      · simp [runMapS, SV.entries?, hlen' _ hl1, e1, Out.bind]
      · simp [runMapS, SV.entries?, hlen' _ hl1, e1, e2, allValKVs_map_val, Out.bind]
      · simp only [runMapS, entries_val_map, hlen' _ hl2, e3, Out.bind, hdup2]
        simp
      · simp [runMapS, SV.entries?, hlen' _ hl3, e6, e5, allValKVs_map_val, Out.bind]
      · simp [runMapS, SV.entries?, hlen' _ hl3, e6, Out.bind]

end SM
end Arca
