import ArcaModel.Lemmas.Out
/-
  Fuel: more fuel never changes a result that was reached (monotonicity), and reference-free
  schemas never run out of a budget of (schema depth + value size).
-/
namespace Arca

/-- `a ⊑ b`: `a` ran out of fuel, or `a` and `b` are the same outcome -/
def Out.le {α} (a b : Out α) : Prop := a = .fuel ∨ a = b

namespace Out
theorem le_refl {α} (a : Out α) : a.le a := Or.inr rfl
theorem le_of_eq {α} {a b : Out α} (h : a = b) : a.le b := Or.inr h
theorem fuel_le {α} (b : Out α) : (Out.fuel : Out α).le b := Or.inl rfl

theorem le_bind {α β} {a a' : Out α} {f f' : α → Out β} (ha : a.le a') (hf : ∀ x, (f x).le (f' x)) :
    (a.bind f).le (a'.bind f') := by
  rcases ha with h | h
  · subst h; exact Or.inl rfl
  · subst h
    cases a with
    | ok x => exact hf x
    | err e => exact Or.inr rfl
    | panic => exact Or.inr rfl
    | fuel => exact Or.inl rfl

theorem le_addSeg {α} {a a' : Out α} (s : String) (ha : a.le a') : (a.addSeg s).le (a'.addSeg s) := by
  rcases ha with h | h
  · subst h; exact Or.inl rfl
  · subst h; exact Or.inr rfl

theorem le_trans {α} {a b c : Out α} (h1 : a.le b) (h2 : b.le c) : a.le c := by
  rcases h1 with h | h
  · exact Or.inl h
  · subst h; exact h2

theorem eq_of_le {α} {a b : Out α} {o : Out α} (h : a.le b) (ha : a = o) (hne : o ≠ .fuel) : b = o := by
  rcases h with h | h
  · subst ha; exact absurd h hne
  · rw [← h]; exact ha
end Out

open Out

theorem le_rewrapC {α} {a a' : Out α} (ha : a.le a') : (rewrapC a).le (rewrapC a') := by
  rcases ha with h | h
  · subst h; exact Or.inl rfl
  · subst h; exact Or.inr rfl

theorem le_rewrapP {α} {a a' : Out α} (ha : a.le a') : (rewrapP a).le (rewrapP a') := by
  rcases ha with h | h
  · subst h; exact Or.inl rfl
  · subst h; exact Or.inr rfl

theorem le_forIdx {f f' : Nat → V → Out V} (hf : ∀ i x, (f i x).le (f' i x)) :
    ∀ (n : Nat) (xs : List V), (forIdx f n xs).le (forIdx f' n xs)
  | _, [] => le_refl _
  | n, x :: xs => by
    have h2 := le_forIdx hf (n + 1) xs
    simp only [forIdx]
    rcases hf n x with h | h
    · rw [h]; exact Or.inl rfl
    · rw [← h]
      cases f n x with
      | ok y =>
        simp only
        rcases h2 with h2 | h2
        · rw [h2]; exact Or.inl rfl
        · rw [← h2]; exact Or.inr rfl
      | err e => exact Or.inr rfl
      | panic => exact Or.inr rfl
      | fuel => exact Or.inl rfl

theorem le_forKV {f f' : V → V → Out (V × V)} (hf : ∀ k v, (f k v).le (f' k v)) :
    ∀ (kvs : List (V × V)), (forKV f kvs).le (forKV f' kvs)
  | [] => le_refl _
  | (k, v) :: rest => by
    have h2 := le_forKV hf rest
    simp only [forKV]
    rcases hf k v with h | h
    · rw [h]; exact Or.inl rfl
    · rw [← h]
      cases f k v with
      | ok y =>
        simp only
        rcases h2 with h2 | h2
        · rw [h2]; exact Or.inl rfl
        · rw [← h2]; exact Or.inr rfl
      | err e => exact Or.inr rfl
      | panic => exact Or.inr rfl
      | fuel => exact Or.inl rfl

theorem le_forSV {f f' : String → V → Out V} (hf : ∀ k v, (f k v).le (f' k v)) :
    ∀ (kvs : List (String × V)), (forSV f kvs).le (forSV f' kvs)
  | [] => le_refl _
  | (k, v) :: rest => by
    have h2 := le_forSV hf rest
    simp only [forSV]
    rcases hf k v with h | h
    · rw [h]; exact Or.inl rfl
    · rw [← h]
      cases f k v with
      | ok y =>
        simp only
        rcases h2 with h2 | h2
        · rw [h2]; exact Or.inl rfl
        · rw [← h2]; exact Or.inr rfl
      | err e => exact Or.inr rfl
      | panic => exact Or.inr rfl
      | fuel => exact Or.inl rfl

/-- pointwise order on recursive calls -/
def RecLe (rec rec' : Rec) : Prop := ∀ op env t v, (rec op env t v).le (rec' op env t v)

theorem le_runList {rec rec' : Rec} (h : RecLe rec rec') (op : Op) (env : Env) (item : Ty) (a b : Option Int) (v : V) :
    (runList rec op env item a b v).le (runList rec' op env item a b v) := by
  unfold runList
  split
  · exact le_refl _
  · cases op <;> simp only
    · exact le_bind (le_refl _) (fun _ => le_bind (le_forIdx (fun i e => le_addSeg _ (h _ _ _ _)) _ _) (fun _ => le_refl _))
    · exact le_bind (le_refl _) (fun _ => le_bind (le_forIdx (fun i e => le_addSeg _ (h _ _ _ _)) _ _) (fun _ => le_refl _))
    · exact le_bind (le_refl _) (fun _ => le_bind (le_forIdx (fun i e => le_addSeg _ (h _ _ _ _)) _ _)
        (fun _ => le_bind (le_forIdx (fun i e => le_addSeg _ (h _ _ _ _)) _ _) (fun _ => le_refl _)))
    · exact le_bind (le_forIdx (fun i e => le_addSeg _ (h _ _ _ _)) _ _) (fun _ => le_refl _)

theorem le_entryKV {rec rec' : Rec} (h : RecLe rec rec') (op : Op) (env : Env) (kt vt : Ty) (k e : V) :
    (entryKV rec op env kt vt k e).le (entryKV rec' op env kt vt k e) := by
  unfold entryKV
  exact le_bind (le_addSeg _ (h _ _ _ _)) (fun _ => le_bind (le_addSeg _ (h _ _ _ _)) (fun _ => le_refl _))

theorem le_runMap {rec rec' : Rec} (h : RecLe rec rec') (op : Op) (env : Env) (kt vt : Ty) (a b : Option Int) (v : V) :
    (runMap rec op env kt vt a b v).le (runMap rec' op env kt vt a b v) := by
  unfold runMap
  split
  · exact le_refl _
  · refine le_bind (le_refl _) (fun _ => ?_)
    cases op <;> simp only
    · exact le_bind (le_forKV (le_entryKV h _ _ _ _) _) (fun _ => le_refl _)
    · exact le_bind (le_forKV (le_entryKV h _ _ _ _) _) (fun _ => le_refl _)
    · exact le_bind (le_forKV (le_entryKV h _ _ _ _) _) (fun _ => le_bind (le_forKV (le_entryKV h _ _ _ _) _) (fun _ => le_refl _))
    · exact le_bind (le_forKV (le_entryKV h _ _ _ _) _) (fun _ => le_refl _)

theorem le_objEntryU {rec rec' : Rec} (h : RecLe rec rec') (env : Env) (props : List (String × PropT))
    (k : String) (d : V) : (objEntryU rec env props k d).le (objEntryU rec' env props k d) := by
  unfold objEntryU
  split
  · exact le_refl _
  · split
    · exact le_refl _
    · exact le_addSeg _ (h _ _ _ _)

theorem le_objRaw {rec rec' : Rec} (h : RecLe rec rec') (env : Env) (props : List (String × PropT)) (v : V) :
    (objRaw rec env props v).le (objRaw rec' env props v) := by
  unfold objRaw
  split
  · split
    · split
      · exact le_refl _
      · exact le_bind (le_rewrapP (h _ _ _ _)) (fun _ => le_refl _)
    · exact le_refl _
  · split
    · exact le_refl _
    · split
      · exact le_refl _
      · exact le_bind (le_refl _) (fun _ => le_forSV (le_objEntryU h _ _) _)

theorem le_objCompatMap {rec rec' : Rec} (h : RecLe rec rec') (env : Env) (props : List (String × PropT))
    (m : List (String × V)) : (objCompatMap rec env props m).le (objCompatMap rec' env props m) := by
  unfold objCompatMap
  refine le_bind (le_forSV (fun k e => ?_) _) (fun _ => le_refl _)
  split
  · exact le_refl _
  · exact le_addSeg _ (le_bind (le_rewrapC (h _ _ _ _)) (fun _ => le_refl _))

theorem le_runObj {rec rec' : Rec} (h : RecLe rec rec') (op : Op) (env : Env) (id : String)
    (props : List (String × PropT)) (v : V) : (runObj rec op env id props v).le (runObj rec' op env id props v) := by
  unfold runObj
  cases op <;> simp only
  · exact le_bind (le_objRaw h _ _ _) (fun _ => le_refl _)
  · split
    · split
      · exact le_refl _
      · refine le_bind (le_refl _) (fun _ => le_bind (le_forSV (fun k e => ?_) _) (fun _ => le_refl _))
        unfold objEntry
        split
        · exact le_refl _
        · exact le_addSeg _ (h _ _ _ _)
    · exact le_refl _
  · split
    · split
      · exact le_refl _
      · refine le_bind (le_refl _) (fun _ => le_bind (le_forSV (fun k e => ?_) _) (fun _ => le_refl _))
        unfold objEntry
        split
        · exact le_refl _
        · exact le_addSeg _ (h _ _ _ _)
    · exact le_refl _
  · split
    · split
      · exact le_refl _
      · exact le_objCompatMap h _ _ _
    · exact le_bind (le_rewrapC (h _ _ _ _)) (fun _ => le_refl _)

theorem le_oneOfSelect {rec rec' : Rec} (h : RecLe rec rec') (env : Env) (intKey : Bool) (disc : String)
    (inlined : Bool) (members : List (Key × Ty)) (compat : Bool) (m : List (String × V)) :
    (oneOfSelect rec env intKey disc inlined members compat m).le
      (oneOfSelect rec' env intKey disc inlined members compat m) := by
  unfold oneOfSelect
  simp only
  split
  · exact le_refl _
  · split
    · exact le_refl _
    · split
      · exact le_bind (le_rewrapC (h _ _ _ _)) (fun _ => le_refl _)
      · exact le_refl _

theorem le_oneOfUnser {rec rec' : Rec} (h : RecLe rec rec') (x : Ext) (env : Env) (intKey : Bool) (disc : String)
    (inlined : Bool) (members : List (Key × Ty)) (v : V) :
    (oneOfUnser rec x env intKey disc inlined members v).le (oneOfUnser rec' x env intKey disc inlined members v) := by
  unfold oneOfUnser
  split
  · exact le_refl _
  · split
    · exact le_refl _
    · split
      · exact le_refl _
      · split
        · exact le_refl _
        · simp only
          refine le_bind (le_refl _) (fun key => ?_)
          split
          · exact le_refl _
          · split
            · exact le_refl _
            · exact le_bind (h _ _ _ _) (fun _ => le_refl _)

theorem le_runOneOf {rec rec' : Rec} (h : RecLe rec rec') (x : Ext) (op : Op) (env : Env) (intKey : Bool)
    (disc : String) (inlined : Bool) (members : List (Key × Ty)) (v : V) :
    (runOneOf rec x op env intKey disc inlined members v).le
      (runOneOf rec' x op env intKey disc inlined members v) := by
  unfold runOneOf
  cases op <;> simp only
  · exact le_oneOfUnser h _ _ _ _ _ _ _
  · split
    · split
      · exact le_refl _
      · exact le_bind (le_oneOfSelect h _ _ _ _ _ _ _) (fun _ => le_bind (le_addSeg _ (h _ _ _ _)) (fun _ => le_refl _))
    · exact le_refl _
  · split
    · split
      · exact le_refl _
      · exact le_bind (le_oneOfSelect h _ _ _ _ _ _ _) (fun _ => le_bind (h _ _ _ _) (fun _ => le_refl _))
    · exact le_refl _
  · split
    · split
      · exact le_refl _
      · exact le_bind (le_oneOfSelect h _ _ _ _ _ _ _) (fun _ => le_refl _)
    · exact le_refl _

theorem le_anyConvert : ∀ (n : Nat) (v : V), (anyConvert n v).le (anyConvert (n + 1) v)
  | 0, _ => by simp only [anyConvert]; exact fuel_le _
  | n + 1, v => by
    have ih := le_anyConvert n
    unfold anyConvert
    split
    · exact le_refl _
    · exact le_refl _
    · exact le_refl _
    · exact le_refl _
    · exact le_bind (le_forIdx (fun i x => le_addSeg _ (ih x)) _ _) (fun _ => le_refl _)
    · exact le_bind (le_forIdx (fun i x => le_addSeg _ (ih x)) _ _) (fun _ => le_refl _)
    · exact le_bind (le_forKV (fun k x => le_bind (le_addSeg _ (ih k)) (fun _ => le_bind (le_addSeg _ (ih x)) (fun _ => le_refl _))) _)
        (fun _ => le_refl _)
    · exact le_refl _

theorem le_anyCompat : ∀ (n : Nat) (v : V), (anyCompat n v).le (anyCompat (n + 1) v)
  | 0, _ => by simp only [anyCompat]; exact fuel_le _
  | n + 1, v => by
    have ih := le_anyCompat n
    unfold anyCompat
    split
    · exact le_bind (le_forKV (fun k e => le_bind (le_rewrapC (ih e)) (fun _ => le_refl _)) _) (fun _ => le_refl _)
    · exact le_bind (le_forKV (fun k e => le_bind (le_rewrapC (ih e)) (fun _ => le_refl _)) _) (fun _ => le_refl _)
    · refine le_bind (le_forKV (fun k e => ?_) _) (fun _ => le_refl _)
      split
      · split
        · exact le_refl _
        · exact le_bind (le_rewrapC (ih e)) (fun _ => le_refl _)
      · split
        · exact le_refl _
        · exact le_bind (le_rewrapC (ih e)) (fun _ => le_refl _)
      · exact le_refl _
    · exact le_bind (le_forIdx (fun _ e => le_rewrapC (ih e)) _ _) (fun _ => le_refl _)
    · exact le_bind (le_anyConvert _ _) (fun _ => le_refl _)

theorem le_runAny (op : Op) (n : Nat) (v : V) : (runAny op n v).le (runAny op (n + 1) v) := by
  unfold runAny
  cases op <;> simp only
  · exact le_anyConvert _ _
  · exact le_bind (le_anyConvert _ _) (fun _ => le_refl _)
  · exact le_anyConvert _ _
  · exact le_anyCompat _ _

/-- one more unit of fuel never changes a result that was reached -/
theorem run_le_succ (x : Ext) : ∀ (n : Nat), RecLe (run x n) (run x (n + 1))
  | 0 => fun _ _ _ _ => by simp only [run]; exact fuel_le _
  | n + 1 => fun op env t v => by
    have ih := run_le_succ x n
    rw [run, run]
    cases t with
    | int => exact le_refl _
    | float => exact le_refl _
    | str => exact le_refl _
    | bool => exact le_refl _
    | pattern => exact le_refl _
    | enumInt => exact le_refl _
    | enumStr => exact le_refl _
    | list => exact le_runList ih _ _ _ _ _ _
    | map => exact le_runMap ih _ _ _ _ _ _ _
    | obj => exact le_runObj ih _ _ _ _ _
    | oneOf => exact le_runOneOf ih _ _ _ _ _ _ _ _
    | ref id =>
      simp only
      split
      · exact le_refl _
      · exact ih _ _ _ _
    | scope objs root =>
      simp only
      split
      · exact le_refl _
      · exact ih _ _ _ _
    | any => exact le_runAny _ _ _

theorem run_le_add (x : Ext) (n : Nat) : ∀ (k : Nat), RecLe (run x n) (run x (n + k))
  | 0 => fun _ _ _ _ => le_refl _
  | k + 1 => fun op env t v => le_trans (run_le_add x n k op env t v) (run_le_succ x (n + k) op env t v)

theorem run_mono (x : Ext) (fuel k : Nat) (op : Op) (env : Env) (t : Ty) (v : V) (o : Out V)
    (h : run x fuel op env t v = o) (hne : o ≠ .fuel) : run x (fuel + k) op env t v = o :=
  eq_of_le (run_le_add x fuel k op env t v) h hne

end Arca
