import ArcaModel.Lemmas.Units
/-
  Lemmas for the float half of property C16: `Units.parseFloat` (Model/Scalar.lean) against the
  integer parser `Units.parseInt`, and soundness of the matcher including fractional base counts.
  Nothing here depends on a well-formedness assumption, and the externals `x : Ext` are arbitrary.
-/
namespace Arca

/-! ### the structure of `ParseFloat` -/

/-- the base-unit stage of `ParseFloat` after the multiplier groups -/
def baseStageF (x : Ext) (acc : Int) (facc : Nat) (b : String) : Option Nat :=
  if b.isEmpty then some (F64.ofInt acc)
  else if b.toList.contains '.' then
    match x.parseFloat b with
    | none => none
    | some f => some (F64.add facc (F64.mul f (F64.ofInt 1)))
  else match parseInt10 b with
    | none => none
    | some i => (accInt acc i 1).map F64.ofInt

theorem parseFloat_eq (u : Units) (x : Ext) (s : String) : u.parseFloat x s =
    if (trimSpace s.toList).isEmpty then none else
    match matchGroups ((sortDesc u.mults).map (·.2.all)) u.base.all (skipWS (trimSpace s.toList)) with
    | none => none
    | some (caps, b) =>
      match Units.parseFloat.go caps ((sortDesc u.mults).map (·.1)) 0 0 with
      | none => none
      | some (acc, facc) => baseStageF x acc facc b := rfl

/-- the float accumulator of the multiplier groups: left to right, starting from `facc`,
    `floatNumber += float64(count * multiplier)` for every non-empty capture (the product is the
    exact int64 product, rounded once by the conversion) -/
def capFSum : List String → List Int → Nat → Nat
  | c :: cs, m :: ms, facc =>
    if c.isEmpty then capFSum cs ms facc
    else capFSum cs ms (F64.add facc (F64.ofInt (capVal c * m)))
  | _, _, facc => facc

/-- the multiplier-group loop of `ParseFloat` succeeds exactly when the one of `ParseInt` does, with
    the same integer accumulator; its float accumulator is `capFSum` -/
theorem goF_eq_go (caps : List String) (ms : List Int) (acc : Int) (facc : Nat)
    (hcaps : ∀ c ∈ caps, AllDigits c.toList) :
    Units.parseFloat.go caps ms acc facc =
      (Units.parseInt.go caps ms acc).map (fun a => (a, capFSum caps ms facc)) := by
  induction caps generalizing ms acc facc with
  | nil => simp [Units.parseFloat.go, Units.parseInt.go, capFSum]
  | cons c cs ih =>
    cases ms with
    | nil => simp [Units.parseFloat.go, Units.parseInt.go, capFSum]
    | cons m ms =>
      have hcs : ∀ c ∈ cs, AllDigits c.toList := fun y hy => hcaps y (by simp [hy])
      rw [Units.parseFloat.go, Units.parseInt.go]
      by_cases he : c.isEmpty = true
      · simp only [he, if_true, capFSum]
        exact ih ms acc facc hcs
      · have he' : c.isEmpty = false := by simpa using he
        simp only [he', Bool.false_eq_true, if_false, capFSum]
        rw [parseInt10_cap c he' (hcaps c (by simp))]
        by_cases hv : capVal c ≤ maxInt64
        · simp only [hv, if_true]
          by_cases hp : inInt64 (capVal c * m) = true
          · simp only [hp, Bool.not_true, Bool.false_eq_true, if_false]
            cases ha : accInt acc (capVal c) m with
            | none => simp
            | some a => simp only []; exact ih ms a _ hcs
          · have hp' : inInt64 (capVal c * m) = false := by simpa using hp
            have : accInt acc (capVal c) m = none := by simp [accInt, hp']
            simp [hp', this]
        · simp [hv]

theorem baseStageF_noDot (x : Ext) (acc : Int) (facc : Nat) (b : String)
    (hb : b.toList.contains '.' = false) :
    baseStageF x acc facc b = (baseStage acc b).map F64.ofInt := by
  unfold baseStageF baseStage
  by_cases he : b.isEmpty = true
  · simp [he]
  · have he' : b.isEmpty = false := by simpa using he
    simp only [he', hb, Bool.false_eq_true, if_false]
    cases parseInt10 b with
    | none => rfl
    | some i => rfl

theorem baseStage_dot (acc : Int) (b : String) (hb : b.toList.contains '.' = true) :
    baseStage acc b = none := by
  unfold baseStage
  have he : b.isEmpty = false := by
    cases h : b.isEmpty with
    | false => rfl
    | true => rw [(isEmpty_iff_toList b).mp h] at hb; simp at hb
  simp only [he, hb, Bool.false_eq_true, if_false, if_true]

theorem baseStageF_dot (x : Ext) (acc : Int) (facc : Nat) (b : String)
    (hb : b.toList.contains '.' = true) :
    baseStageF x acc facc b =
      (x.parseFloat b).map (fun f => F64.add facc (F64.mul f (F64.ofInt 1))) := by
  unfold baseStageF
  have he : b.isEmpty = false := by
    cases h : b.isEmpty with
    | false => rfl
    | true => rw [(isEmpty_iff_toList b).mp h] at hb; simp at hb
  simp only [he, hb, Bool.false_eq_true, if_false, if_true]
  cases x.parseFloat b with
  | none => rfl
  | some f => rfl

/-- **`ParseFloat` in terms of `ParseInt`.** For every definition, every externals table and every
    string: when the base capture has no fraction, `ParseFloat` is `float64` of `ParseInt`; when it
    has one, `ParseInt` fails and `ParseFloat` is the float accumulator of the multiplier groups plus
    `strconv.ParseFloat(base) * float64(1)`, provided the integer part of the sum fits int64. -/
theorem parseFloat_split (u : Units) (x : Ext) (s : String) :
    (trimSpace s.toList).isEmpty = true ∧ u.parseFloat x s = none ∧ u.parseInt s = none ∨
    (trimSpace s.toList).isEmpty = false ∧
      (matchGroups ((sortDesc u.mults).map (·.2.all)) u.base.all (skipWS (trimSpace s.toList)) = none ∧
        u.parseFloat x s = none ∧ u.parseInt s = none ∨
       ∃ caps b,
        matchGroups ((sortDesc u.mults).map (·.2.all)) u.base.all (skipWS (trimSpace s.toList)) =
          some (caps, b) ∧
        (b.toList.contains '.' = false ∧ u.parseFloat x s = (u.parseInt s).map F64.ofInt ∨
         b.toList.contains '.' = true ∧ u.parseInt s = none ∧
          u.parseFloat x s =
            match Units.parseInt.go caps ((sortDesc u.mults).map (·.1)) 0 with
            | none => none
            | some _ =>
              (x.parseFloat b).map (fun f =>
                F64.add (capFSum caps ((sortDesc u.mults).map (·.1)) 0) (F64.mul f (F64.ofInt 1))))) := by
  rw [parseFloat_eq, parseInt_eq]
  cases he : (trimSpace s.toList).isEmpty with
  | true => left; simp
  | false =>
    right
    refine ⟨rfl, ?_⟩
    simp only [Bool.false_eq_true, if_false]
    cases hm : matchGroups ((sortDesc u.mults).map (·.2.all)) u.base.all (skipWS (trimSpace s.toList)) with
    | none => left; simp
    | some r =>
      right
      obtain ⟨caps, b⟩ := r
      obtain ⟨hc, _, _⟩ := matchGroups_cap _ _ _ _ _ hm
      refine ⟨caps, b, rfl, ?_⟩
      simp only [goF_eq_go caps _ 0 0 hc]
      cases hd : b.toList.contains '.' with
      | false =>
        left
        refine ⟨rfl, ?_⟩
        cases Units.parseInt.go caps ((sortDesc u.mults).map (·.1)) 0 with
        | none => rfl
        | some acc => simp only [Option.map_some]; exact baseStageF_noDot x acc _ b hd
      | true =>
        right
        refine ⟨rfl, ?_, ?_⟩
        · cases Units.parseInt.go caps ((sortDesc u.mults).map (·.1)) 0 with
          | none => rfl
          | some acc => exact baseStage_dot acc b hd
        · cases Units.parseInt.go caps ((sortDesc u.mults).map (·.1)) 0 with
          | none => rfl
          | some acc => simp only [Option.map_some]; exact baseStageF_dot x acc _ b hd


/-! ### soundness of the matcher, fractional base counts included -/

/-- a decimal-number string as the base group's `[0-9]+(|\.[0-9]+)` allows: digits, optionally
    followed by `.` and digits -/
def IsDecimal (ds : List Char) : Prop :=
  (ds ≠ [] ∧ AllDigits ds) ∨
  ∃ ip fp, ds = ip ++ '.' :: fp ∧ ip ≠ [] ∧ AllDigits ip ∧ fp ≠ [] ∧ AllDigits fp

/-- a base-unit token of the float grammar: the count is a decimal number, the name may be omitted -/
def BasePieceOKF (base : List String) (p : Piece) : Prop :=
  IsDecimal p.ds ∧ AllWS p.w1 ∧ AllWS p.w2 ∧ (p.nm = [] ∨ ∃ n ∈ base, n.toList = p.nm)

def BaseOKF (base : List String) (bp : Option Piece) : Prop :=
  ∀ p, bp = some p → BasePieceOKF base p

theorem BaseOK.toF {base : List String} {bp : Option Piece} (h : BaseOK base bp) : BaseOKF base bp := by
  intro p hp
  obtain ⟨h1, h2, h3, h4, h5⟩ := h p hp
  exact ⟨Or.inl ⟨h1, h2⟩, h3, h4, h5⟩

/-- an integer base token of the float grammar is a base token of the integer grammar -/
theorem BaseOKF.toInt {base : List String} {bp : Option Piece} (h : BaseOKF base bp)
    (hd : (capOf bp).toList.contains '.' = false) : BaseOK base bp := by
  intro p hp
  subst hp
  obtain ⟨h1, h3, h4, h5⟩ := h p rfl
  rcases h1 with ⟨hne, hD⟩ | ⟨ip, fp, e, _⟩
  · exact ⟨hne, hD, h3, h4, h5⟩
  · exfalso
    simp only [capOf, String.toList_ofList, e] at hd
    have : ('.' : Char) ∈ ip ++ '.' :: fp := by simp
    rw [List.contains_iff_mem.mpr this] at hd
    cases hd

/-- the base group accepts only `[decimal ws* (name)? ws*]` -/
theorem matchBase_soundF (names : List String) (cs : List Char) (b : String) (hcs : NoWSHead cs)
    (h : matchBase names cs = some b) :
    ∃ bp, BaseOKF names bp ∧ cs = renderOpt bp ∧ b = capOf bp := by
  rw [matchBase_eq] at h
  split at h
  · next he =>
    have : skipWS cs = [] := List.isEmpty_iff.mp he
    rw [skipWS_of_noWSHead hcs] at this
    exact ⟨none, (fun p hp => by cases hp), (by rw [this]; rfl), (Option.some.inj h).symm⟩
  · obtain ⟨k, hk, hk'⟩ := firstSome_mem _ _ _ h
    unfold baseSplit at hk'
    split at hk'
    · next c hc =>
      have hcap := tryTail_cap _ _ _ _ hc
      obtain ⟨w1, nm, w2, hw1, hw2, hnm, ex⟩ := tryTail_sound _ _ _ _ hc
      have hb : b = c := (Option.some.inj hk').symm
      refine ⟨some ⟨(cs.takeWhile isDigit).take k, w1, nm, w2⟩, ?_, ?_, ?_⟩
      · intro p hp; cases hp
        exact ⟨Or.inl ⟨take_ne_nil_of_countsDown hk, allDigits_take_takeWhile cs k⟩, hw1, hw2, hnm⟩
      · simp only [renderOpt, Piece.render]
        rw [← ex, ← List.append_assoc, List.take_append_drop]
        exact digits_split cs
      · rw [hb, hcap]; rfl
    · split at hk'
      · next r1 heq =>
        obtain ⟨j, hj, hj'⟩ := firstSome_mem _ _ _ hk'
        have hcap := tryTail_cap _ _ _ _ hj'
        obtain ⟨w1, nm, w2, hw1, hw2, hnm, ex⟩ := tryTail_sound _ _ _ _ hj'
        refine ⟨some ⟨(cs.takeWhile isDigit).take k ++ '.' :: (r1.takeWhile isDigit).take j,
          w1, nm, w2⟩, ?_, ?_, ?_⟩
        · intro p hp; cases hp
          exact ⟨Or.inr ⟨_, _, rfl, take_ne_nil_of_countsDown hk, allDigits_take_takeWhile cs k,
            take_ne_nil_of_countsDown hj, allDigits_take_takeWhile r1 j⟩, hw1, hw2, hnm⟩
        · simp only [renderOpt, Piece.render]
          have e1 : (r1.takeWhile isDigit).take j ++
              ((r1.takeWhile isDigit).drop j ++ r1.dropWhile isDigit) = r1 := by
            rw [← List.append_assoc, List.take_append_drop]; exact (digits_split r1).symm
          rw [← ex, List.append_assoc, List.cons_append, e1, ← heq, ← List.append_assoc,
            List.take_append_drop]
          exact digits_split cs
        · exact hcap
      · cases hk'

/-- whatever the group matcher accepts is a rendering of the float grammar: one optional
    `digits ws* name ws*` token per group in order, then the optional base token whose count is a
    decimal number -/
theorem matchGroups_soundF (gs : List (List String)) (base : List String) (cs : List Char)
    (caps : List String) (b : String) (hcs : NoWSHead cs)
    (h : matchGroups gs base cs = some (caps, b)) :
    ∃ ps bp, PiecesOK gs ps ∧ BaseOKF base bp ∧ cs = renderAll ps bp ∧
      caps = ps.map capOf ∧ b = capOf bp := by
  induction gs generalizing cs caps b with
  | nil =>
    simp only [matchGroups, Option.map_eq_some_iff] at h
    obtain ⟨b', hb', he⟩ := h
    simp only [Prod.mk.injEq] at he
    obtain ⟨e1, e2⟩ := he
    subst e1; subst e2
    obtain ⟨bp, h1, h2, h3⟩ := matchBase_soundF base cs b' hcs hb'
    exact ⟨[], bp, .nil, h1, h2, rfl, h3⟩
  | cons names gs ih =>
    rw [matchGroups_cons_eq] at h
    split at h
    · next caps' b' h' =>
      simp only [Option.some.injEq, Prod.mk.injEq] at h
      obtain ⟨e1, e2⟩ := h
      subst e1; subst e2
      rw [skipWS_of_noWSHead hcs] at h'
      obtain ⟨ps, bp, h1, h2, h3, h4, h5⟩ := ih cs caps' b' hcs h'
      refine ⟨none :: ps, bp, .cons (fun p hp => by cases hp) h1, h2, ?_, ?_, h5⟩
      · simpa [renderAll, renderOpt] using h3
      · simp [capOf, h4]
    · obtain ⟨k, hk, hk'⟩ := firstSome_mem _ _ _ h
      unfold groupSplit at hk'
      obtain ⟨n, hn, hn'⟩ := firstSome_mem _ _ _ hk'
      unfold groupName at hn'
      split at hn'
      · next r' hs =>
        split at hn'
        · next caps' b' h' =>
          simp only [Option.some.injEq, Prod.mk.injEq] at hn'
          obtain ⟨e1, e2⟩ := hn'
          subst e1; subst e2
          obtain ⟨ps, bp, h1, h2, h3, h4, h5⟩ := ih (skipWS r') caps' b' (skipWS_noWSHead r') h'
          obtain ⟨w1, hw1, ex1⟩ := skipWS_split
            ((cs.takeWhile isDigit).drop k ++ cs.dropWhile isDigit)
          obtain ⟨w2, hw2, ex2⟩ := skipWS_split r'
          rw [stripPrefix?_eq_some] at hs
          refine ⟨some ⟨(cs.takeWhile isDigit).take k, w1, n.toList, w2⟩ :: ps, bp,
            .cons ?_ h1, h2, ?_, ?_, h5⟩
          · intro p hp; cases hp
            exact ⟨take_ne_nil_of_countsDown hk, allDigits_take_takeWhile cs k, hw1, hw2, n, hn, rfl⟩
          · simp only [renderAll, renderOpt, Piece.render, List.append_assoc]
            rw [← h3, ← ex2, ← hs, ← ex1, ← List.append_assoc, List.take_append_drop]
            exact digits_split cs
          · simp [capOf, h4]
        · cases hn'
      · cases hn'


/-! ### a fraction can only be captured from a string that contains a '.' -/

theorem mem_of_mem_skipWS_trimSpace {c : Char} {l : List Char} (h : c ∈ skipWS (trimSpace l)) :
    c ∈ l := by
  have h1 : c ∈ trimSpace l := (List.dropWhile_sublist isReWS).mem h
  unfold trimSpace at h1
  have h2 := (List.dropWhile_sublist isUniSpace).mem (List.mem_reverse.mp h1)
  exact (List.dropWhile_sublist isUniSpace).mem (List.mem_reverse.mp h2)

theorem mem_renderAll_of_base {c : Char} (ps : List (Option Piece)) (p : Piece) (h : c ∈ p.ds) :
    c ∈ renderAll ps (some p) := by
  induction ps with
  | nil => simp [renderAll, renderOpt, Piece.render, h]
  | cons o ps ih => simp [renderAll, ih]

/-- if the base capture contains a '.', so does the matched input -/
theorem dot_mem_of_capture (gs : List (List String)) (base : List String) (cs : List Char)
    (caps : List String) (b : String) (hcs : NoWSHead cs)
    (h : matchGroups gs base cs = some (caps, b)) (hd : b.toList.contains '.' = true) :
    '.' ∈ cs := by
  obtain ⟨ps, bp, _, _, h3, _, h5⟩ := matchGroups_soundF gs base cs caps b hcs h
  cases bp with
  | none => rw [h5] at hd; simp [capOf] at hd
  | some p =>
    rw [h5] at hd
    simp only [capOf, String.toList_ofList] at hd
    rw [h3]
    exact mem_renderAll_of_base ps p (List.contains_iff_mem.mp hd)


/-! ### completeness on well-formed definitions: renderings of the float grammar are matched
    (the proofs of `matchGroups_render`, `rtrim_renderAll` redone with a decimal base count) -/

theorem IsDecimal.ne_nil {ds : List Char} (h : IsDecimal ds) : ds ≠ [] := by
  rcases h with ⟨h, _⟩ | ⟨ip, fp, e, _⟩
  · exact h
  · rw [e]; simp

theorem IsDecimal.digitHead {ds : List Char} (h : IsDecimal ds) (r : List Char) :
    DigitHead (ds ++ r) := by
  rcases h with ⟨hne, hD⟩ | ⟨ip, fp, e, hne, hD, _, _⟩
  · obtain ⟨d, t, e⟩ := List.exists_cons_of_ne_nil hne
    have : isDigit d = true := hD d (by rw [e]; simp)
    simp only [e, List.cons_append, DigitHead, this]
  · obtain ⟨d, t, e'⟩ := List.exists_cons_of_ne_nil hne
    have : isDigit d = true := hD d (by rw [e']; simp)
    simp only [e, e', List.cons_append, DigitHead, this]

theorem IsDecimal.lastOK {ds : List Char} (h : IsDecimal ds) : LastOK ds := by
  rcases h with ⟨_, hD⟩ | ⟨ip, fp, e, _, _, hne, hD⟩
  · exact lastOK_digits hD
  · unfold LastOK
    have hl := lastOK_digits hD
    unfold LastOK at hl
    rw [e, List.reverse_append, List.reverse_cons]
    cases hr : fp.reverse with
    | nil => exact absurd (List.reverse_eq_nil_iff.mp hr) hne
    | cons c t => rw [hr] at hl; simpa using hl

theorem renderAll_digitHeadF {gs : List (List String)} {base : List String}
    {ps : List (Option Piece)} {bp : Option Piece} (hv : PiecesOK gs ps) (hb : BaseOKF base bp) :
    DigitHead (renderAll ps bp) := by
  induction hv with
  | nil =>
    cases bp with
    | none => trivial
    | some p =>
      have := (hb p rfl).1.digitHead (p.w1 ++ (p.nm ++ p.w2))
      simpa [renderAll, renderOpt, Piece.render] using this
  | @cons names o gs' ps' ho _ ih =>
    cases o with
    | none => simpa [renderAll, renderOpt] using ih
    | some p =>
      obtain ⟨h1, h2, _⟩ := ho p rfl
      exact render_digitHead h1 h2 _

/-- the base group on a token with a fractional count -/
theorem matchBase_frac (base : List String) (hbase : ∀ n ∈ base, NameOK n)
    (ip fp w1 nm w2 : List Char) (hip : ip ≠ []) (hipD : AllDigits ip) (hfp : fp ≠ [])
    (hfpD : AllDigits fp) (hw1 : AllWS w1) (hw2 : AllWS w2)
    (hnm : nm = [] ∨ ∃ n ∈ base, n.toList = nm) :
    matchBase base ((ip ++ '.' :: fp) ++ (w1 ++ (nm ++ w2))) =
      some (String.ofList (ip ++ '.' :: fp)) := by
  obtain ⟨d0, dt, hip0⟩ := List.exists_cons_of_ne_nil hip
  obtain ⟨f0, ft, hfp0⟩ := List.exists_cons_of_ne_nil hfp
  have hd0 : isDigit d0 = true := hipD d0 (by rw [hip0]; simp)
  have hf0 : isDigit f0 = true := hfpD f0 (by rw [hfp0]; simp)
  have hcs : (ip ++ '.' :: fp) ++ (w1 ++ (nm ++ w2)) = ip ++ ('.' :: (fp ++ (w1 ++ (nm ++ w2)))) := by
    simp
  have hrest : NoDigitHead ('.' :: (fp ++ (w1 ++ (nm ++ w2)))) := dot_not_digit
  have hrest2 : NoDigitHead (w1 ++ (nm ++ w2)) := by
    cases h1 : w1 with
    | cons w ws => exact isReWS_not_digit (hw1 w (by rw [h1]; simp))
    | nil =>
      cases h2 : nm with
      | cons c t =>
        rcases hnm with e | ⟨n0, hn0, e⟩
        · rw [h2] at e; cases e
        · exact ((hbase n0 hn0).2 c (by rw [e, h2]; simp)).1
      | nil =>
        cases h3 : w2 with
        | nil => trivial
        | cons w ws => exact isReWS_not_digit (hw2 w (by rw [h3]; simp))
  have h1 : skipWS (ip ++ ('.' :: (fp ++ (w1 ++ (nm ++ w2))))) =
      ip ++ ('.' :: (fp ++ (w1 ++ (nm ++ w2)))) := by
    rw [hip0]; exact skipWS_of_noWSHead (cs := d0 :: (dt ++ _)) (isDigit_not_ws hd0)
  have h2 : (ip ++ ('.' :: (fp ++ (w1 ++ (nm ++ w2))))).isEmpty = false := by rw [hip0]; rfl
  rw [hcs, matchBase_eq, h1, h2, takeWhile_digits_append hipD hrest,
    dropWhile_digits_append hipD hrest]
  simp only [Bool.false_eq_true, if_false]
  apply firstSome_countsDown_first _ (by rw [hip0]; simp)
  unfold baseSplit
  simp only [List.take_length, List.drop_length, List.nil_append]
  -- the integer-only alternative fails: after the digits comes '.', then a digit
  have htry : tryTail base ip ('.' :: (fp ++ (w1 ++ (nm ++ w2)))) = none := by
    have hs : skipWS ('.' :: (fp ++ (w1 ++ (nm ++ w2)))) = '.' :: (fp ++ (w1 ++ (nm ++ w2))) :=
      skipWS_of_noWSHead (cs := '.' :: _) dot_not_ws
    unfold tryTail
    simp only [hs, List.isEmpty_cons, Bool.false_eq_true, if_false]
    apply firstSome_none
    intro n hn
    obtain ⟨hne, hc⟩ := hbase n hn
    cases hst : stripPrefix? n.toList ('.' :: (fp ++ (w1 ++ (nm ++ w2)))) with
    | none => rfl
    | some r' =>
      rw [stripPrefix?_eq_some] at hst
      -- n = '.' :: n', n' a prefix of fp ++ ...; n has no digit, so n' = []
      cases hl : n.toList with
      | nil => exact absurd hl hne
      | cons c p =>
        rw [hl, hfp0] at hst
        simp only [List.cons_append, List.cons.injEq] at hst
        obtain ⟨_, hst⟩ := hst
        cases p with
        | cons c1 p1 =>
          simp only [List.cons_append, List.cons.injEq] at hst
          have := (hc c1 (by rw [hl]; simp)).1
          rw [← hst.1, hf0] at this; cases this
        | nil =>
          simp only [List.nil_append] at hst
          have : skipWS r' = f0 :: (ft ++ (w1 ++ (nm ++ w2))) := by
            rw [← hst]; exact skipWS_of_noWSHead (cs := f0 :: _) (isDigit_not_ws hf0)
          simp only [this, List.isEmpty_cons, Bool.false_eq_true, if_false]
  rw [htry]
  simp only [takeWhile_digits_append hfpD hrest2, dropWhile_digits_append hfpD hrest2]
  apply firstSome_countsDown_first _ (by rw [hfp0]; simp)
  simp only [List.take_length, List.drop_length, List.nil_append]
  exact tryTail_own base _ w1 nm w2 hbase hw1 hw2 hnm

theorem matchBase_renderF (base : List String) (hbase : ∀ n ∈ base, NameOK n) (bp : Option Piece)
    (hb : BaseOKF base bp) : matchBase base (renderOpt bp) = some (capOf bp) := by
  cases bp with
  | none => exact matchBase_render base hbase none (fun p hp => by cases hp)
  | some p =>
    obtain ⟨hdec, hw1, hw2, hnm⟩ := hb p rfl
    rcases hdec with ⟨hne, hD⟩ | ⟨ip, fp, e, hip, hipD, hfp, hfpD⟩
    · exact matchBase_render base hbase (some p)
        (fun q hq => by cases hq; exact ⟨hne, hD, hw1, hw2, hnm⟩)
    · simp only [renderOpt, Piece.render, capOf, e]
      exact matchBase_frac base hbase ip fp p.w1 p.nm p.w2 hip hipD hfp hfpD hw1 hw2 hnm

/-- `matchGroups_render` with a decimal base count -/
theorem matchGroups_renderF (gs : List (List String)) (base : List String) (hwf : GroupsWF gs base)
    (ps : List (Option Piece)) (bp : Option Piece) (hv : PiecesOK gs ps) (hb : BaseOKF base bp) :
    matchGroups gs base (renderAll ps bp) = some (ps.map capOf, capOf bp) := by
  induction hv with
  | nil =>
    simp only [matchGroups, renderAll, matchBase_renderF base hwf.2.1 bp hb, Option.map_some,
      List.map_nil]
  | @cons names o gs' ps' ho hrest ih =>
    have hwf' := hwf.tail
    have ih := ih hwf'
    have hR : DigitHead (renderAll ps' bp) := renderAll_digitHeadF hrest hb
    have hRs : skipWS (renderAll ps' bp) = renderAll ps' bp := skipWS_of_noWSHead hR.noWS
    cases o with
    | none =>
      rw [matchGroups_cons_eq]
      simp only [renderAll, renderOpt, List.nil_append, hRs, ih, List.map_cons, capOf]
    | some p =>
      obtain ⟨hne, hD, hw1, hw2, n0, hn0, hnm⟩ := ho p rfl
      obtain ⟨hnames, hbaseOK, hsep, hsepB⟩ := hwf
      have hn0OK := hnames names (by simp) n0 hn0
      have hnmne : p.nm ≠ [] := by rw [← hnm]; exact hn0OK.1.1
      have hnmc : NameChars p.nm := by rw [← hnm]; exact hn0OK.1.2
      have hdot : p.nm ≠ ['.'] := by rw [← hnm]; exact hn0OK.2
      have htail : TailOK (p.w2 ++ renderAll ps' bp) := tailOK_ws_digitHead hw2 hR
      have hcs : renderAll (some p :: ps') bp =
          p.ds ++ (p.w1 ++ (p.nm ++ (p.w2 ++ renderAll ps' bp))) := by
        simp [renderAll, renderOpt, Piece.render]
      obtain ⟨d0, dt, hds0⟩ := List.exists_cons_of_ne_nil hne
      obtain ⟨c0, t0, hnm0⟩ := List.exists_cons_of_ne_nil hnmne
      have hd0 : isDigit d0 = true := hD d0 (by rw [hds0]; simp)
      have hrest' : NoDigitHead (p.w1 ++ (p.nm ++ (p.w2 ++ renderAll ps' bp))) := by
        cases h1 : p.w1 with
        | nil => rw [hnm0]; exact (hnmc c0 (by rw [hnm0]; simp)).1
        | cons w ws => exact isReWS_not_digit (hw1 w (by rw [h1]; simp))
      have h1 : skipWS (p.ds ++ (p.w1 ++ (p.nm ++ (p.w2 ++ renderAll ps' bp)))) =
          p.ds ++ (p.w1 ++ (p.nm ++ (p.w2 ++ renderAll ps' bp))) := by
        rw [hds0]; exact skipWS_of_noWSHead (cs := d0 :: (dt ++ _)) (isDigit_not_ws hd0)
      have h0 : NoWSHead (p.nm ++ (p.w2 ++ renderAll ps' bp)) := by
        rw [hnm0]; exact (hnmc c0 (by rw [hnm0]; simp)).2
      have hforeign : matchGroups gs' base
          (p.ds ++ (p.w1 ++ (p.nm ++ (p.w2 ++ renderAll ps' bp)))) = none := by
        apply matchGroups_foreign gs' base p.ds p.w1 p.nm _ _ _ hne hD hw1 hnmne hnmc hdot htail
        · intro names' hn' n hn
          refine ⟨(hnames names' (by simp [hn']) n hn).1, ?_⟩
          rw [← hnm]
          exact toList_ne_of_ne (Ne.symm ((List.pairwise_cons.mp hsep).1 names' hn' n0 hn0 n hn))
        · intro n hn
          refine ⟨hbaseOK n hn, ?_⟩
          rw [← hnm]
          exact toList_ne_of_ne (Ne.symm (hsepB names (by simp) n0 hn0 n hn))
      rw [hcs, matchGroups_cons_eq, h1, hforeign, takeWhile_digits_append hD hrest',
        dropWhile_digits_append hD hrest']
      dsimp only
      apply firstSome_countsDown_first _ (by rw [hds0]; simp)
      unfold groupSplit
      rw [List.take_length, List.drop_length, List.nil_append, skipWS_ws_append hw1,
        skipWS_of_noWSHead h0]
      have hown : ∀ n : String, n.toList = p.nm →
          groupName gs' base p.ds (p.nm ++ (p.w2 ++ renderAll ps' bp)) n =
            some (String.ofList p.ds :: ps'.map capOf, capOf bp) := by
        intro n hn
        unfold groupName
        rw [hn, stripPrefix?_append]
        simp only [skipWS_ws_append hw2, hRs, ih]
      simp only [List.map_cons, capOf]
      apply firstSome_some
      · intro n hn
        by_cases he : n.toList = p.nm
        · exact Or.inr (hown n he)
        · exact Or.inl (groupName_foreign gs' base _ p.nm _ n
            (hnames names (by simp) n hn).1.2 hnmc he htail)
      · exact ⟨n0, hn0, hown n0 hnm⟩


/-! ### `strings.TrimSpace` on renderings of the float grammar -/

theorem BasePieceOKF.trimmed {names : List String} {p : Piece} (h : BasePieceOKF names p) :
    BasePieceOKF names p.trimmed := by
  obtain ⟨h1, h3, h4, h5⟩ := h
  refine ⟨by rw [Piece.trimmed_ds]; exact h1, ?_, ?_, by rw [Piece.trimmed_nm]; exact h5⟩
  · unfold Piece.trimmed; split
    · exact allWS_nil
    · exact h3
  · unfold Piece.trimmed; split <;> exact allWS_nil

/-- `rtrim_render` for any count that ends in a character `TrimSpace` keeps -/
theorem rtrim_renderL (p : Piece) (hne : p.ds ≠ []) (hl : LastOK p.ds) (hw1 : AllWS p.w1)
    (hw2 : AllWS p.w2) (hnm : LastOK p.nm) :
    rtrim p.render = p.trimmed.render ∧ p.trimmed.render ≠ [] := by
  have hds : rtrim p.ds = p.ds := rtrim_of_lastOK hl
  have h2 : rtrim p.w2 = [] := rtrim_allUni hw2.allUni
  have h1 : rtrim p.w1 = [] := rtrim_allUni hw1.allUni
  unfold Piece.render Piece.trimmed
  by_cases he : p.nm = []
  · simp only [he, if_true]
    have h3 : rtrim ([] ++ p.w2) = [] := by simpa using h2
    have h4 : rtrim (p.w1 ++ ([] ++ p.w2)) = [] := by rw [rtrim_append, h3]; simp [h1]
    rw [rtrim_append, h4]
    simp [hds, hne]
  · simp only [he, if_false]
    have h3 : rtrim (p.nm ++ p.w2) = p.nm := by
      rw [rtrim_append]; simp [h2, rtrim_of_lastOK hnm]
    have h4 : rtrim (p.w1 ++ (p.nm ++ p.w2)) = p.w1 ++ p.nm := by
      rw [rtrim_append, h3]; simp [he]
    rw [rtrim_append, h4]
    simp [he, hne]

theorem rtrim_renderAllF {gs : List (List String)} {base : List String}
    {ps : List (Option Piece)} {bp : Option Piece} (hv : PiecesOK gs ps) (hb : BaseOKF base bp)
    (hend : NamesEndOK gs base) :
    ∃ ps' bp', PiecesOK gs ps' ∧ BaseOKF base bp' ∧ ps'.map capOf = ps.map capOf ∧
      capOf bp' = capOf bp ∧ rtrim (renderAll ps bp) = renderAll ps' bp' := by
  induction hv with
  | nil =>
    cases bp with
    | none => exact ⟨[], none, .nil, hb, rfl, rfl, rfl⟩
    | some p =>
      obtain ⟨h1, h3, h4, h5⟩ := hb p rfl
      have hl : LastOK p.nm := by
        rcases h5 with e | ⟨n, hn, e⟩
        · rw [e]; exact lastOK_nil
        · rw [← e]; exact hend.2 n hn
      refine ⟨[], some p.trimmed, .nil, ?_, rfl, ?_, ?_⟩
      · intro q hq; cases hq; exact (hb p rfl).trimmed
      · simp [capOf, Piece.trimmed_ds]
      · exact (rtrim_renderL p h1.ne_nil h1.lastOK h3 h4 hl).1
  | @cons names o gs' ps' ho hrest ih =>
    obtain ⟨ps1, bp1, hv1, hb1, hc1, hcb1, hr1⟩ := ih ⟨fun ns hn => hend.1 ns (by simp [hn]), hend.2⟩
    by_cases hR : renderAll ps1 bp1 = []
    · cases o with
      | none =>
        refine ⟨none :: ps1, bp1, .cons (fun p hp => by cases hp) hv1, hb1, by simp [hc1], hcb1, ?_⟩
        simp only [renderAll, renderOpt, List.nil_append]
        exact hr1
      | some p =>
        obtain ⟨h1, h2, h3, h4, n, hn, e⟩ := ho p rfl
        have hl : LastOK p.nm := by rw [← e]; exact hend.1 names (by simp) n hn
        refine ⟨some p.trimmed :: ps1, bp1, .cons ?_ hv1, hb1, ?_, hcb1, ?_⟩
        · intro q hq; cases hq; exact (ho p rfl).trimmed
        · simp [capOf, Piece.trimmed_ds, hc1]
        · simp only [renderAll, renderOpt]
          rw [rtrim_append, hr1, hR]
          simp [(rtrim_render p h1 h2 h3 h4 hl).1]
    · refine ⟨o :: ps1, bp1, .cons ho hv1, hb1, by simp [hc1], hcb1, ?_⟩
      simp only [renderAll]
      rw [rtrim_append, hr1]
      simp [hR]

/-- On a well-formed (sorted) group list the regexp matches a rendering of the float grammar,
    surrounded by any Unicode white space, with exactly its counts as captures. -/
theorem matchGroups_of_renderF (gs : List (List String)) (base : List String) (l : List Char)
    (lead trail : List Char) (ps : List (Option Piece)) (bp : Option Piece)
    (hwf : GroupsWF gs base) (hend : NamesEndOK gs base)
    (hs : l = lead ++ (renderAll ps bp ++ trail)) (hlead : AllUni lead) (htrail : AllUni trail)
    (hv : PiecesOK gs ps) (hb : BaseOKF base bp) (hne : renderAll ps bp ≠ []) :
    (trimSpace l).isEmpty = false ∧
      matchGroups gs base (skipWS (trimSpace l)) = some (ps.map capOf, capOf bp) := by
  have hR := renderAll_digitHeadF hv hb
  obtain ⟨d, t, hdt⟩ := List.exists_cons_of_ne_nil hne
  have hd : isDigit d = true := by rw [hdt] at hR; exact hR
  have hl : ltrim (lead ++ (renderAll ps bp ++ trail)) = renderAll ps bp ++ trail := by
    apply ltrim_append hlead
    intro c t' e
    rw [hdt] at e; cases e
    exact isDigit_not_uni hd
  have hrt : rtrim (renderAll ps bp ++ trail) = rtrim (renderAll ps bp) := by
    rw [rtrim_append, rtrim_allUni htrail]; simp
  obtain ⟨ps', bp', hv', hb', hc', hcb', hr'⟩ := rtrim_renderAllF hv hb hend
  have hne' : renderAll ps' bp' ≠ [] := by
    rw [← hr', hdt]; exact rtrim_ne_nil (isDigit_not_uni hd)
  have hR' := renderAll_digitHeadF hv' hb'
  have he : (renderAll ps' bp').isEmpty = false := by
    cases h : renderAll ps' bp' with
    | nil => exact absurd h hne'
    | cons _ _ => rfl
  rw [hs, trimSpace_eq, hl, hrt, hr', skipWS_of_noWSHead hR'.noWS,
    matchGroups_renderF _ _ hwf ps' bp' hv' hb', hc', hcb']
  exact ⟨he, rfl⟩

end Arca
