import ArcaModel.Lemmas.StructRoundTrip
import ArcaModel.Props.StructMap
/-
  The end-to-end round trip of ONE struct-mapped object, given the round trip of its property types.
-/
namespace Arca
namespace SM
open Out

/-- the end-to-end statement for one schema under a recursive call -/
def RTAt (rec : SRec) (t : STy) : Prop :=
  ∀ v s, rec .U t v = .ok s →
    rec .V t s = .ok (.val unitV) ∧
    ∃ w s', rec .S t s = .ok (.val w) ∧ rec .U t (.val w) = .ok s' ∧ Eqv t s s' ∧
      rec .S t s' = .ok (.val w) ∧ rec .V t s' = .ok (.val unitV) ∧ (plainLeaf t = true → s' = s)

/-- what the round trip does to one entry `kv` of the map read from the struct: it validates,
    serializes to `a`, `a` unserializes to `b`, which serializes to `a` again -/
structure EntryOK (rec : SRec) (props : List (String × SProp)) (m : List (String × SV)) (kv : String × SV)
    (a : V) (b : SV) : Prop where
  v : entryVS rec .V props kv.1 kv.2 = .ok (.val unitV)
  s : entryVS rec .S props kv.1 kv.2 = .ok (.val a)
  u : entryUS rec props kv.1 a = .ok b
  s' : entryVS rec .S props kv.1 b = .ok (.val a)
  rel : ∃ p, lookupS kv.1 props = some p ∧ Eqv p.ty kv.2 b ∧ shaped (reflTy p.ty) b = true ∧
    (p.emptyIsDefault = true → b = kv.2) ∧ (lookupS kv.1 m = none → b = kv.2)

theorem mem_rulesOf {props : List (String × SProp)} {k : String} {p : SProp} (h : (k, p) ∈ props) :
    (k, p.rules) ∈ rulesOf props := List.mem_map.mpr ⟨(k, p), h, rfl⟩

theorem entry_ok (x : Ext) (n : Nat) {st : StructTy} {props : List (String × SProp)} (hwf : WFObj st props)
    (hrt : ∀ kp, kp ∈ props → rtPropB st props kp = true)
    (ih : ∀ kp, kp ∈ props → RTAt (srun x (n + 2)) kp.2.ty)
    {m : List (String × SV)}
    (hent : ∀ kv, kv ∈ m → ∃ p v0, lookupS kv.1 props = some p ∧ p.disabled = false ∧ srun x (n + 2) .U p.ty v0 = .ok kv.2)
    (habs : ∀ kp, kp ∈ props → hasKey kp.1 m = false → dflStep (fieldSkips st kp.1) (n + 2) kp.2 = .ok none)
    (hi : interdeps (rulesOf props) (fun k => hasKey k m) = .ok ())
    {kv : String × SV} (hkv : kv ∈ expectedBack st props m) :
    ∃ a b, EntryOK (srun x (n + 2)) props m kv a b := by
  obtain ⟨p, f, hkp, hf, hrb⟩ := expectedBack_mem hkv
  have hl : lookupS kv.1 props = some p := lookupS_of_mem_nodup hwf.keys hkp
  cases hlm : lookupS kv.1 m with
  | some v =>
    rw [hlm] at hrb
    obtain ⟨hy, _⟩ := readBack_some hrb
    obtain ⟨p', v0, hl', hdis, hu⟩ := hent (kv.1, v) (lookupS_mem hlm)
    simp only [] at hl' hu
    rw [hl] at hl'; cases hl'
    obtain ⟨hV, w, s', hS, hU', hE, hS', _, hpl⟩ := ih (kv.1, p) hkp v0 v hu
    simp only [] at hV hS hU' hE hS' hpl
    refine ⟨w, s', ?_, ?_, ?_, ?_, ?_⟩
    · simp [entryVS, hl, hy, hV, Out.addSeg]
    · simp [entryVS, hl, hy, hS, Out.addSeg]
    · simp [entryUS, hl, hdis, hU', Out.addSeg]
    · simp [entryVS, hl, hS', Out.addSeg]
    · refine ⟨p, hl, by rw [hy]; exact hE, srun_U_shaped x _ _ _ _ hU', ?_, ?_⟩
      · intro he
        obtain ⟨_, _, hspec, _, _⟩ := rtPropB_spec (hrt (kv.1, p) hkp)
        rw [hy]; exact hpl (hspec he).1
      · intro hnone; rw [hlm] at hnone; cases hnone
  | none =>
    rw [hlm] at hrb
    obtain ⟨hy, hnp, hne, hdis⟩ := readBack_none_some hrb
    obtain ⟨f', hf', _, _, hspec⟩ := rtPropB_spec (hrt (kv.1, p) hkp)
    simp only [] at hf' hspec
    rw [hf] at hf'; cases hf'
    have hno : hasKey kv.1 m = false := by simp [hasKey, hlm]
    have hreq : p.rules.required = false := by
      have := (C03_rules_iff _ _).mp hi (kv.1, p.rules) (mem_rulesOf hkp)
      unfold RuleHolds at this
      simp only [hno, Bool.false_eq_true, if_false] at this
      exact this.1
    have hdef : p.rules.default = none := dflStep_none_default (habs (kv.1, p) hkp hno)
    obtain ⟨t, z, hty, hz, hzf⟩ := hspec hnp hne hdis hreq hdef
    obtain ⟨h1, h2, h3⟩ := zeroFine_srun x n hzf
    have hkv2 : kv.2 = .val z := by rw [hy, hz]
    refine ⟨z, .val z, ?_, ?_, ?_, ?_, ?_⟩
    · simp [entryVS, hl, hty, hkv2, h1, Out.addSeg]
    · simp [entryVS, hl, hty, hkv2, h2, Out.addSeg]
    · simp [entryUS, hl, hdis, hty, h3, Out.addSeg]
    · simp [entryVS, hl, hty, h2, Out.addSeg]
    · refine ⟨p, hl, by rw [hkv2]; exact .refl, ?_, fun _ => hkv2.symm, fun _ => hkv2.symm⟩
      have := srun_U_shaped x _ _ _ _ h3
      rw [hty]; exact this

theorem ptrLike_readBack_none {f : Field} {p : SProp} (h : ptrLike f = true) : readBack f p none = none := by
  simp only [ptrLike] at h
  simp [readBack, h]

theorem readBack_some_of_not_eid {f : Field} {p : SProp} (h : p.emptyIsDefault = false) (hd : p.disabled = false)
    (v : SV) : readBack f p (some v) = some v := by
  simp [readBack, h, hd]

theorem exact_not_ptr {f : Field} {src : GoTy} (hex : exactField f src = true) (hp : ptrLike f = false) : f.ty = src := by
  simp only [exactField, Bool.or_eq_true, beq_iff_eq, Bool.and_eq_true] at hex
  rcases hex with hex | ⟨⟨hex, _⟩, _⟩
  · exact hex
  · simp [ptrLike, hex] at hp

theorem expectedBack_def (st : StructTy) (props : List (String × SProp)) (m : List (String × SV)) :
    expectedBack st props m = props.filterMap fun kp =>
      match fieldFor st kp.1 with
      | some f => (readBack f kp.2 (lookupS kp.1 m)).map fun x => (kp.1, x)
      | none => none := rfl

theorem forSVS_append_ok {α β} {f : String → α → Out β} : ∀ {a b : List (String × α)} {a' b' : List (String × β)},
    forSVS f a = .ok a' → forSVS f b = .ok b' → forSVS f (a ++ b) = .ok (a' ++ b')
  | [], _, _, _, ha, hb => by
    simp only [forSVS, Out.ok.injEq] at ha; subst ha; simpa using hb
  | (k, v) :: rest, b, a', b', ha, hb => by
    simp only [forSVS] at ha
    cases hf : f k v with
    | ok v' =>
      rw [hf] at ha
      simp only [] at ha
      cases hr : forSVS f rest with
      | ok r' =>
        rw [hr] at ha
        simp only [Out.ok.injEq] at ha
        subst ha
        have := forSVS_append_ok hr hb
        simp only [List.cons_append, forSVS, hf, this]
      | err e => rw [hr] at ha; cases ha
      | panic => rw [hr] at ha; cases ha
      | fuel => rw [hr] at ha; cases ha
    | err e => rw [hf] at ha; cases ha
    | panic => rw [hf] at ha; cases ha
    | fuel => rw [hf] at ha; cases ha

theorem lookupS_append_eq {α} (k : String) : ∀ (a b : List (String × α)),
    lookupS k (a ++ b) = match lookupS k a with
      | some v => some v
      | none => lookupS k b
  | [], b => by simp [lookupS]
  | (k', v) :: rest, b => by
    simp only [List.cons_append, lookupS_cons]
    by_cases h : k = k'
    · simp [h]
    · simp only [h, if_false]; exact lookupS_append_eq k rest b

theorem hasKey_true_mem {α} {k : String} {m : List (String × α)} (h : hasKey k m = true) : ∃ a, (k, a) ∈ m := by
  obtain ⟨a, ha⟩ := Option.isSome_iff_exists.mp h
  exact ⟨a, lookupS_mem ha⟩

theorem hasKey_of_mem {α} {k : String} {a : α} {m : List (String × α)} (h : (k, a) ∈ m) : hasKey k m = true := by
  cases hk : hasKey k m with
  | true => rfl
  | false =>
    have : lookupS k m = none := by simpa [hasKey] using hk
    exact absurd (List.mem_map.mpr ⟨(k, a), h, rfl⟩) ((lookupS_eq_none_iff k m).mp this)

/-- The end-to-end round trip of one struct-mapped object, given that of its property types - with
    EXTRA entries appended to the serialized form before it is unserialized again: entries of
    treat-empty-as-default properties that the read from the struct dropped, carrying a value that
    unserializes to the value held by the struct (an inlined one-of restores its discriminator so).
    Also reported: the converted map `m` of the first Unserialize, which keys the serialized form
    has, and that its values are the serialized values of `m`. -/
theorem rt_obj_ext (x : Ext) (n : Nat) (id : String) {st : StructTy} (ptrT : Bool) {props : List (String × SProp)}
    (hwf : WFObj st props) (hex : exactObjB st props = true)
    (hrt : ∀ kp, kp ∈ props → rtPropB st props kp = true)
    (ih : ∀ kp, kp ∈ props → RTAt (srun x (n + 2)) kp.2.ty) (v s : SV) (extra : List (String × V))
    (hU : runObjS (srun x (n + 2)) (n + 2) .U st ptrT props v = .ok s)
    (hx : ∀ m, sobjRaw (srun x (n + 2)) (n + 2) st props v = .ok m →
      (keysOf extra).Nodup ∧ ∀ ka, ka ∈ extra → ∃ p f y, (ka.1, p) ∈ props ∧ fieldFor st ka.1 = some f ∧
        lookupS ka.1 m = some y ∧ srun x (n + 2) .U p.ty (.val ka.2) = .ok y ∧ readBack f p (some y) = none) :
    runObjS (srun x (n + 2)) (n + 2) .V st ptrT props s = .ok (.val unitV) ∧
    ∃ m wl s', sobjRaw (srun x (n + 2)) (n + 2) st props v = .ok m ∧
      runObjS (srun x (n + 2)) (n + 2) .S st ptrT props s = .ok (.val (toStrAny wl)) ∧
      (∀ k p f, (k, p) ∈ props → fieldFor st k = some f → hasKey k wl = (readBack f p (lookupS k m)).isSome) ∧
      (∀ k a y, lookupS k wl = some a → lookupS k m = some y →
        ∃ p, lookupS k props = some p ∧ srun x (n + 2) .S p.ty y = .ok (.val a)) ∧
      runObjS (srun x (n + 2)) (n + 2) .U st ptrT props (.val (toStrAny (wl ++ extra))) = .ok s' ∧
      Eqv (.obj id st ptrT props) s s' ∧
      runObjS (srun x (n + 2)) (n + 2) .S st ptrT props s' = .ok (.val (toStrAny wl)) := by
  simp only [runObjS] at hU
  obtain ⟨m, hm, hU⟩ := Out.bind_eq_ok hU
  obtain ⟨_, hi, hU⟩ := Out.bind_eq_ok hU
  obtain ⟨fs, hts, hU⟩ := Out.bind_eq_ok hU
  cases hU
  obtain ⟨hnd, hent, habs⟩ := sobjRaw_facts hm
  have hdecl := sobjRaw_declared hm
  obtain ⟨hxnd, hxe⟩ := hx m hm
  have hcm : ConvertedMap props m := ⟨hnd, hdecl, fun kv hkv p hp => by
    obtain ⟨p', v0, hl', _, hu⟩ := hent kv hkv
    rw [hp] at hl'; cases hl'
    exact srun_U_shaped x _ _ _ _ hu⟩
  -- a disabled property is never in the converted map (Unserialize refuses it)
  have hmdis : ∀ kp, kp ∈ props → ∀ v, lookupS kp.1 m = some v → kp.2.disabled = false := by
    intro kp hkp v hv
    obtain ⟨p', _, hl', hd, _⟩ := hent (kp.1, v) (lookupS_mem hv)
    simp only [] at hl'
    rw [lookupS_of_mem_nodup hwf.keys (show (kp.1, kp.2) ∈ props from hkp)] at hl'
    cases hl'; exact hd
  have hfs : fs = applyEntries st props m (zeroFields st) := by
    have := toStruct_exact hwf hex hcm
    rw [this] at hts; cases hts; rfl
  have hfrom : fromStruct st props fs = .ok (expectedBack st props m) :=
    C01_struct_fromStruct_toStruct st props m fs hwf hex hcm hts
  -- the entries of the map read back, and what the round trip does to each
  have hentry : ∀ kv, kv ∈ expectedBack st props m → ∃ a b, EntryOK (srun x (n + 2)) props m kv a b :=
    fun kv hkv => entry_ok x n hwf hrt ih hent habs hi hkv
  let A : String × SV → V := fun kv =>
    match okGet (entryVS (srun x (n + 2)) .S props kv.1 kv.2) with
    | .val a => a
    | _ => .nil
  let B : String × SV → SV := fun kv => okGet (entryUS (srun x (n + 2)) props kv.1 (A kv))
  have hAB : ∀ kv, kv ∈ expectedBack st props m → EntryOK (srun x (n + 2)) props m kv (A kv) (B kv) := by
    intro kv hkv
    obtain ⟨a, b, h⟩ := hentry kv hkv
    have ha : A kv = a := by simp only [A, h.s, okGet]
    have hb : B kv = b := by simp only [B, ha, h.u, okGet]
    rw [ha, hb]; exact h
  have hrawmem : ∀ kv, kv ∈ expectedBack st props m → ∃ p, (kv.1, p) ∈ props := fun kv hkv => by
    obtain ⟨p, _, hkp, _⟩ := expectedBack_mem hkv; exact ⟨p, hkp⟩
  have hrawnd : (keysOf (expectedBack st props m)).Nodup := by
    obtain ⟨_, hr⟩ := (fromStruct_ok_iff st fs props _).mp hfrom
    rw [hr]; exact (keysOf_filterMap_readOpt st fs props).nodup hwf.keys
  have hlr : ∀ kp, kp ∈ props → ∀ f, fieldFor st kp.1 = some f →
      lookupS kp.1 (expectedBack st props m) = readBack f kp.2 (lookupS kp.1 m) :=
    fun kp hkp f hf => lookupS_expectedBack st props m hwf kp.1 kp.2 hkp f hf
  -- the extra entries: what they unserialize to, and that the read dropped their properties
  let XB : String × V → SV := fun ka => okGet (entryUS (srun x (n + 2)) props ka.1 ka.2)
  have hXB : ∀ ka, ka ∈ extra → ∃ p f, (ka.1, p) ∈ props ∧ fieldFor st ka.1 = some f ∧
      lookupS ka.1 m = some (XB ka) ∧ entryUS (srun x (n + 2)) props ka.1 ka.2 = .ok (XB ka) ∧
      readBack f p (some (XB ka)) = none ∧ p.emptyIsDefault = true := by
    intro ka hka
    obtain ⟨p, f, y, hkp, hf, hly, hu, hrb⟩ := hxe ka hka
    have hdis := hmdis (ka.1, p) hkp y hly
    simp only [] at hdis
    have he : entryUS (srun x (n + 2)) props ka.1 ka.2 = .ok y := by
      simp [entryUS, lookupS_of_mem_nodup hwf.keys hkp, hdis, hu, Out.addSeg]
    have hxb : XB ka = y := by simp only [XB, he, okGet]
    rw [hxb]
    refine ⟨p, f, hkp, hf, hly, he, hrb, ?_⟩
    rcases readBack_some_none hrb with h | h
    · exact h
    · rw [hdis] at h; cases h
  have hxk : ∀ ka, ka ∈ extra → hasKey ka.1 (expectedBack st props m) = false := by
    intro ka hka
    obtain ⟨p, f, hkp, hf, hly, _, hrb, _⟩ := hXB ka hka
    simp only [hasKey, hlr (ka.1, p) hkp f hf, hly, hrb, Option.isSome_none]
  have hxprop : ∀ k, hasKey k extra = true → ∀ p, (k, p) ∈ props → ∃ ka f, ka ∈ extra ∧ ka.1 = k ∧ fieldFor st k = some f ∧
      lookupS k m = some (XB ka) ∧ readBack f p (some (XB ka)) = none ∧ p.emptyIsDefault = true := by
    intro k hk p hkp
    obtain ⟨a, ha⟩ := hasKey_true_mem hk
    obtain ⟨p', f, hkp', hf, hly, _, hrb, he⟩ := hXB (k, a) ha
    simp only [] at hkp' hf hly
    have : p' = p := by
      have h1 := lookupS_of_mem_nodup hwf.keys hkp'
      rw [lookupS_of_mem_nodup hwf.keys hkp] at h1
      exact (Option.some.inj h1).symm
    subst this
    exact ⟨(k, a), f, ha, rfl, hf, hly, hrb, he⟩
  -- presence rules: the map read back is accepted like the converted map
  have hiraw : interdeps (rulesOf props) (fun k => hasKey k (expectedBack st props m)) = .ok () := by
    refine interdeps_stable _ _ _ ?_ ?_ hi
    · intro k hrel
      by_cases hk : hasKey k props = true
      · obtain ⟨p, hp⟩ := Option.isSome_iff_exists.mp hk
        have hkp := lookupS_mem hp
        obtain ⟨f, hf, _, hspec, _⟩ := rtPropB_spec (hrt (k, p) hkp)
        simp only [] at hf hspec
        obtain ⟨hpl, hne⟩ := hspec hrel
        simp only [hasKey, hlr (k, p) hkp f hf]
        cases hlm : lookupS k m with
        | none => simp [ptrLike_readBack_none hpl]
        | some v => simp [readBack_some_of_not_eid hne (hmdis (k, p) hkp v hlm)]
      · have h1 : hasKey k m = false := by
          cases hkm : hasKey k m with
          | false => rfl
          | true =>
            obtain ⟨v, hv⟩ := Option.isSome_iff_exists.mp hkm
            exact absurd (hdecl (k, v) (lookupS_mem hv)) hk
        have h2 : hasKey k (expectedBack st props m) = false := by
          cases hkm : hasKey k (expectedBack st props m) with
          | false => rfl
          | true =>
            obtain ⟨y, hy⟩ := Option.isSome_iff_exists.mp hkm
            obtain ⟨p, hkp⟩ := hrawmem (k, y) (lookupS_mem hy)
            exfalso; apply hk
            simp [hasKey, lookupS_of_mem_nodup hwf.keys hkp]
        rw [h1, h2]
    · intro ip hip hreq hset
      obtain ⟨kp, hkp, rfl⟩ := List.mem_map.mp hip
      obtain ⟨f, hf, hspec, _, _⟩ := rtPropB_spec (hrt kp hkp)
      have hne : kp.2.emptyIsDefault = false := by
        cases he : kp.2.emptyIsDefault with
        | false => rfl
        | true => have := (hspec he).2.2; simp only [] at hreq; rw [this] at hreq; cases hreq
      simp only [hasKey] at hset ⊢
      rw [hlr kp hkp f hf]
      obtain ⟨v, hv⟩ := Option.isSome_iff_exists.mp hset
      simp [hv, readBack_some_of_not_eid hne (hmdis kp hkp v hv)]
  -- Validate
  have hV : runObjS (srun x (n + 2)) (n + 2) .V st ptrT props (wrapT ptrT st.name fs) = .ok (.val unitV) := by
    simp only [runObjS, unwrapT_wrapT, Out.bind, hfrom]
    rw [forSVS_pointwise (expectedBack st props m) (g2 := fun _ => SV.val unitV) (fun kv hkv => (hAB kv hkv).v)]
    simp only [hiraw]
  -- Serialize
  have hasv : ∀ (l : List (String × SV)) (g : String × SV → V),
      forSVS (fun _ e => asVal e) (l.map fun kv => (kv.1, SV.val (g kv))) = .ok (l.map fun kv => (kv.1, g kv)) :=
    fun l g => forSVS_map_pointwise (f := fun _ e => asVal e) (g1 := fun kv => SV.val (g kv)) (g2 := g) l (fun _ _ => rfl)
  have hS : runObjS (srun x (n + 2)) (n + 2) .S st ptrT props (wrapT ptrT st.name fs) =
      .ok (.val (toStrAny ((expectedBack st props m).map fun kv => (kv.1, A kv)))) := by
    simp only [runObjS, unwrapT_wrapT, Out.bind, hfrom]
    rw [forSVS_pointwise (expectedBack st props m) (g2 := fun kv => SV.val (A kv)) (fun kv hkv => (hAB kv hkv).s)]
    simp only [hasv, hiraw]
  -- Unserialize of the serialized form
  have hkeysL1 : keysOf ((expectedBack st props m).map fun kv => (kv.1, A kv)) = keysOf (expectedBack st props m) :=
    keysOf_map_val _ _
  have hkeysm' : keysOf ((expectedBack st props m).map fun kv => (kv.1, B kv)) = keysOf (expectedBack st props m) :=
    keysOf_map_val _ _
  have hnoadd : applyDefaultsS st (n + 2) props (((expectedBack st props m).map fun kv => (kv.1, A kv)) ++ extra) =
      .ok (((expectedBack st props m).map fun kv => (kv.1, A kv)) ++ extra) := by
    apply applyDefaultsS_noadd
    intro kp hkp
    rw [hasKey_append, hasKey_congr_keys hkeysL1]
    cases hk : hasKey kp.1 (expectedBack st props m) with
    | true => exact Or.inl rfl
    | false =>
      right
      obtain ⟨f, hf, hspec, _, _⟩ := rtPropB_spec (hrt kp hkp)
      have hnone : readBack f kp.2 (lookupS kp.1 m) = none := by
        rw [← hlr kp hkp f hf]
        simpa [hasKey] using hk
      cases hlm : lookupS kp.1 m with
      | none => exact habs kp hkp (by simp [hasKey, hlm])
      | some v =>
        rw [hlm] at hnone
        rcases readBack_some_none hnone with he | hdis
        · obtain ⟨hpl, hd, _⟩ := hspec he
          exact dflStep_plainLeaf hpl hd
        · rw [hmdis kp hkp v hlm] at hdis; cases hdis
  have hkeysX : keysOf (extra.map fun ka => (ka.1, XB ka)) = keysOf extra := keysOf_map_val _ _
  have hdisj : ∀ a, a ∈ keysOf (expectedBack st props m) → ∀ b, b ∈ keysOf extra → a ≠ b := by
    intro a ha b hb hab
    subst hab
    obtain ⟨ka, hka, rfl⟩ := List.mem_map.mp hb
    have := hxk ka hka
    have hnone : lookupS ka.1 (expectedBack st props m) = none := by simpa [hasKey] using this
    exact ((lookupS_eq_none_iff _ _).mp hnone) ha
  have hraw2 : sobjRaw (srun x (n + 2)) (n + 2) st props
      (.val (toStrAny (((expectedBack st props m).map fun kv => (kv.1, A kv)) ++ extra))) =
      .ok (((expectedBack st props m).map fun kv => (kv.1, B kv)) ++ extra.map fun ka => (ka.1, XB ka)) := by
    unfold sobjRaw
    simp only [rawEntries_toStrAny, strKeys_toStrAny]
    have h1 : (List.map (fun x => x.1) (((expectedBack st props m).map fun kv => (kv.1, A kv)) ++ extra)).Nodup := by
      rw [List.map_append, List.nodup_append]
      refine ⟨?_, hxnd, ?_⟩
      · have := hrawnd
        rw [← hkeysL1] at this
        exact this
      · intro a ha b hb
        exact hdisj a (by rw [← hkeysL1]; exact ha) b hb
    have h2 : ((((expectedBack st props m).map fun kv => (kv.1, A kv)) ++ extra).any fun kv => !hasKey kv.1 props) = false := by
      rw [List.any_eq_false]
      intro kv hkv
      rcases List.mem_append.mp hkv with hkv | hkv
      · obtain ⟨kv0, hkv0, rfl⟩ := List.mem_map.mp hkv
        obtain ⟨p, hkp⟩ := hrawmem kv0 hkv0
        simp [hasKey, lookupS_of_mem_nodup hwf.keys hkp]
      · obtain ⟨p, _, hkp, _⟩ := hXB kv hkv
        simp [hasKey, lookupS_of_mem_nodup hwf.keys hkp]
    simp only [h1, decide_true, Bool.not_true, Bool.false_eq_true, if_false, h2, hnoadd, Out.bind]
    exact forSVS_append_ok (forSVS_map_pointwise (g1 := A) (g2 := B) _ (fun kv hkv => (hAB kv hkv).u))
      (forSVS_pointwise extra (g2 := XB) (fun ka hka => by obtain ⟨_, _, _, _, _, he, _⟩ := hXB ka hka; exact he))
  have him' : interdeps (rulesOf props) (fun k => hasKey k
      (((expectedBack st props m).map fun kv => (kv.1, B kv)) ++ extra.map fun ka => (ka.1, XB ka))) = .ok () := by
    refine interdeps_stable _ _ _ ?_ ?_ hiraw
    · intro k hrel
      rw [hasKey_append, hasKey_congr_keys hkeysm', hasKey_congr_keys hkeysX]
      cases hkx : hasKey k extra with
      | false => simp
      | true =>
        exfalso
        obtain ⟨a, ha⟩ := hasKey_true_mem hkx
        obtain ⟨p, _, hkp, _, _, _, _, he⟩ := hXB (k, a) ha
        obtain ⟨_, _, _, hspec, _⟩ := rtPropB_spec (hrt (k, p) hkp)
        rw [(hspec hrel).2] at he; cases he
    · intro ip _ _ hset
      rw [hasKey_append, hasKey_congr_keys hkeysm', hset]; rfl
  have hcm' : ConvertedMap props
      (((expectedBack st props m).map fun kv => (kv.1, B kv)) ++ extra.map fun ka => (ka.1, XB ka)) := by
    refine ⟨?_, ?_, ?_⟩
    · simp only [keysOf, List.map_append]
      rw [List.nodup_append]
      refine ⟨by have := hrawnd; rw [← hkeysm'] at this; exact this, by have := hxnd; rw [← hkeysX] at this; exact this, ?_⟩
      intro a ha b hb
      exact hdisj a (by rw [← hkeysm']; exact ha) b (by rw [← hkeysX]; exact hb)
    · intro kv hkv
      rcases List.mem_append.mp hkv with hkv | hkv
      · obtain ⟨kv0, hkv0, rfl⟩ := List.mem_map.mp hkv
        obtain ⟨p, hkp⟩ := hrawmem kv0 hkv0
        simp [hasKey, lookupS_of_mem_nodup hwf.keys hkp]
      · obtain ⟨ka, hka, rfl⟩ := List.mem_map.mp hkv
        obtain ⟨p, _, hkp, _⟩ := hXB ka hka
        simp [hasKey, lookupS_of_mem_nodup hwf.keys hkp]
    · intro kv hkv p hp
      rcases List.mem_append.mp hkv with hkv | hkv
      · obtain ⟨kv0, hkv0, rfl⟩ := List.mem_map.mp hkv
        obtain ⟨p', hl', _, hsh, _⟩ := (hAB kv0 hkv0).rel
        simp only [] at hp
        rw [hp] at hl'; cases hl'
        exact hsh
      · obtain ⟨ka, hka, rfl⟩ := List.mem_map.mp hkv
        obtain ⟨p', _, hkp, _, hly, _, _, _⟩ := hXB ka hka
        simp only [] at hp
        exact hcm.shaped (ka.1, XB ka) (lookupS_mem hly) p hp
  have hts' := toStruct_exact hwf hex hcm'
  have hU2 : runObjS (srun x (n + 2)) (n + 2) .U st ptrT props
      (.val (toStrAny (((expectedBack st props m).map fun kv => (kv.1, A kv)) ++ extra))) =
      .ok (wrapT ptrT st.name (applyEntries st props
        (((expectedBack st props m).map fun kv => (kv.1, B kv)) ++ extra.map fun ka => (ka.1, XB ka)) (zeroFields st))) := by
    simp only [runObjS, hraw2, Out.bind, him', hts']
  -- what the second struct holds for each property
  have hlm' : ∀ k, hasKey k extra = false →
      lookupS k (((expectedBack st props m).map fun kv => (kv.1, B kv)) ++ extra.map fun ka => (ka.1, XB ka)) =
      (lookupS k (expectedBack st props m)).map (fun y => B (k, y)) := by
    intro k hk
    rw [lookupS_append_eq, lookupS_map_val B]
    cases hl : lookupS k (expectedBack st props m) with
    | some y => rfl
    | none =>
      simp only [Option.map_none]
      have : hasKey k (extra.map fun ka => (ka.1, XB ka)) = false := by rw [hasKey_congr_keys hkeysX]; exact hk
      simpa [hasKey] using this
  have hlmX : ∀ ka, ka ∈ extra →
      lookupS ka.1 (((expectedBack st props m).map fun kv => (kv.1, B kv)) ++ extra.map fun ka => (ka.1, XB ka)) =
      some (XB ka) := by
    intro ka hka
    rw [lookupS_append_eq, lookupS_map_val B]
    have hnone : lookupS ka.1 (expectedBack st props m) = none := by simpa [hasKey] using hxk ka hka
    rw [hnone]
    simp only [Option.map_none]
    exact lookupS_of_mem_nodup (by rw [hkeysX]; exact hxnd) (List.mem_map.mpr ⟨ka, hka, rfl⟩)
  -- Serialize of the second struct
  have hexp' : expectedBack st props (((expectedBack st props m).map fun kv => (kv.1, B kv)) ++ extra.map fun ka => (ka.1, XB ka)) =
      (expectedBack st props m).map fun kv => (kv.1, B kv) := by
    have hmap : ((expectedBack st props m).map fun kv => (kv.1, B kv)) =
        props.filterMap (fun kp => (match fieldFor st kp.1 with
          | some f => (readBack f kp.2 (lookupS kp.1 m)).map fun x => (kp.1, x)
          | none => none).map fun (kv : String × SV) => (kv.1, B kv)) := by
      rw [expectedBack_def st props m, List.map_filterMap]
    conv => rhs; rw [hmap]
    rw [expectedBack_def st props (((expectedBack st props m).map fun kv => (kv.1, B kv)) ++ extra.map fun ka => (ka.1, XB ka))]
    apply filterMap_congr'
    intro kp hkp
    obtain ⟨f, hf, _⟩ := propOK_field (hwf.prop kp hkp)
    simp only [hf]
    have hl := hlr kp hkp f hf
    cases hkx : hasKey kp.1 extra with
    | true =>
      obtain ⟨ka, f', hka, hk1, hf', hly, hrb, _⟩ := hxprop kp.1 hkx kp.2 hkp
      rw [hf] at hf'; cases hf'
      have := hlmX ka hka
      rw [hk1] at this
      rw [this, hly, hrb]
      rfl
    | false =>
    rw [hlm' kp.1 hkx, hl]
    cases hrb : readBack f kp.2 (lookupS kp.1 m) with
    | none =>
      simp only [Option.map_none]
      cases hlm : lookupS kp.1 m with
      | none =>
        rw [hlm] at hrb
        rcases readBack_none_none hrb with h | h | h
        · simp [ptrLike_readBack_none h]
        · simp [readBack, h]
        · simp [readBack, h]
      | some v =>
        rw [hlm] at hrb
        rcases readBack_some_none hrb with he | he
        · simp [readBack, he]
        · simp [readBack, he]
    | some y =>
      simp only [Option.map_some]
      have hmem : (kp.1, y) ∈ expectedBack st props m := lookupS_mem (by rw [hl, hrb])
      obtain ⟨p', hl', _, _, heq, hz⟩ := (hAB (kp.1, y) hmem).rel
      simp only [] at hl' heq hz
      rw [lookupS_of_mem_nodup hwf.keys (show (kp.1, kp.2) ∈ props from hkp)] at hl'; cases hl'
      have hdisF : kp.2.disabled = false := by
        cases hlm : lookupS kp.1 m with
        | none => rw [hlm] at hrb; exact (readBack_none_some hrb).2.2.2
        | some v => exact hmdis kp hkp v hlm
      cases he : kp.2.emptyIsDefault with
      | false => simp [readBack_some_of_not_eid he hdisF]
      | true =>
        rw [heq he]
        -- the value was not dropped the first time, and it is the same value
        cases hlm : lookupS kp.1 m with
        | none =>
          rw [hlm] at hrb
          have := (readBack_none_some hrb).2.2.1
          rw [he] at this; cases this
        | some v =>
          rw [hlm] at hrb
          obtain ⟨hy, hnd'⟩ := readBack_some hrb
          rw [hy]
          simp [readBack, hnd']
  have hfrom' := C01_struct_fromStruct_toStruct st props _ _ hwf hex hcm' hts'
  rw [hexp'] at hfrom'
  have hS2 : runObjS (srun x (n + 2)) (n + 2) .S st ptrT props
      (wrapT ptrT st.name (applyEntries st props (((expectedBack st props m).map fun kv => (kv.1, B kv)) ++ extra.map fun ka => (ka.1, XB ka)) (zeroFields st))) =
      .ok (.val (toStrAny ((expectedBack st props m).map fun kv => (kv.1, A kv)))) := by
    simp only [runObjS, unwrapT_wrapT, Out.bind, hfrom']
    rw [forSVS_map_pointwise (g1 := B) (g2 := fun kv => SV.val (A kv)) _ (fun kv hkv => (hAB kv hkv).s')]
    have him2 : interdeps (rulesOf props) (fun k => hasKey k ((expectedBack st props m).map fun kv => (kv.1, B kv))) = .ok () := by
      have : (fun k => hasKey k ((expectedBack st props m).map fun kv => (kv.1, B kv))) =
          (fun k => hasKey k (expectedBack st props m)) := funext (fun k => hasKey_congr_keys hkeysm' k)
      rw [this]; exact hiraw
    simp only [hasv, him2]
  refine ⟨hV, m, _, _, hm, hS, ?_, ?_, hU2, ?_, hS2⟩
  · -- which keys the serialized form has
    intro k p f hkp hf
    rw [hasKey_congr_keys hkeysL1]
    simp only [hasKey, hlr (k, p) hkp f hf]
  · -- its values are the serialized values of the converted map
    intro k a y hla hly
    rw [lookupS_map_val A] at hla
    cases hlraw : lookupS k (expectedBack st props m) with
    | none => rw [hlraw] at hla; cases hla
    | some y' =>
      rw [hlraw] at hla
      simp only [Option.map_some, Option.some.injEq] at hla
      have hmem := lookupS_mem hlraw
      obtain ⟨p, f, hkp, hf, hrb⟩ := expectedBack_mem hmem
      simp only [] at hkp hf hrb
      rw [hly] at hrb
      obtain ⟨hy, _⟩ := readBack_some hrb
      have hl : lookupS k props = some p := lookupS_of_mem_nodup hwf.keys hkp
      have hs := (hAB (k, y') hmem).s
      simp only [entryVS, hl, hla] at hs
      refine ⟨p, hl, ?_⟩
      rw [← hy]
      exact addSeg_eq_ok hs
  -- the two structs differ only where a treat-empty-as-default value was dropped
  rw [hfs]
  refine Eqv.obj (by rw [keysOf_applyEntries, keysOf_zeroFields]) (by rw [keysOf_applyEntries, keysOf_applyEntries]) ?_ ?_
  · intro nm hun
    have hnt : ∀ (mm : List (String × SV)), lastTarget st props nm mm = none := by
      intro mm
      apply lastTarget_none
      intro kv _ n' y hes hnn
      obtain ⟨f, p, hf, hp, hn', _, _⟩ := entrySet_some hes
      exact hun (kv.1, p) (lookupS_mem hp) (by simp [fieldName?, hf, ← hn', hnn])
    rw [lookupS_applyEntries, lookupS_applyEntries, hnt, hnt]
  · intro kp hkp f fv fv' hf hl1 hl2
    obtain ⟨f', hf', hexp, _, _⟩ := propOK_field (hwf.prop kp hkp)
    rw [hf] at hf'; cases hf'
    have hexf := exact_of_mem hex hkp hf
    rw [lookupS_applied hwf hex hcm hkp hf] at hl1
    rw [lookupS_applied hwf hex hcm' hkp hf] at hl2
    cases hkx : hasKey kp.1 extra with
    | true =>
      obtain ⟨ka, _, hka, hk1, _, hly, _, _⟩ := hxprop kp.1 hkx kp.2 hkp
      have := hlmX ka hka
      rw [hk1] at this
      rw [this] at hl2
      rw [hly] at hl1
      simp only [Option.some.injEq] at hl1 hl2
      subst hl1 hl2
      exact .same
    | false =>
    rw [hlm' kp.1 hkx, hlr kp hkp f hf] at hl2
    simp only [Option.some.injEq] at hl1 hl2
    subst hl1 hl2
    cases hlm : lookupS kp.1 m with
    | none =>
      simp only []
      cases hrb : readBack f kp.2 none with
      | none => exact .same
      | some y =>
        obtain ⟨hy, hnp, _, _⟩ := readBack_none_some hrb
        have hmem : (kp.1, y) ∈ expectedBack st props m := lookupS_mem (by rw [hlr kp hkp f hf, hlm, hrb])
        obtain ⟨_, _, _, _, _, hz⟩ := (hAB (kp.1, y) hmem).rel
        simp only [Option.map_some]
        rw [hz hlm, exact_not_ptr hexf hnp]
        simp only [if_true, hy]
        exact .same
    | some v =>
      simp only []
      have hsh := hcm.shaped (kp.1, v) (lookupS_mem hlm) kp.2 (lookupS_of_mem_nodup hwf.keys hkp)
      cases hrb : readBack f kp.2 (some v) with
      | none =>
        have he : kp.2.emptyIsDefault = true := by
          rcases readBack_some_none hrb with he | hd
          · exact he
          · rw [hmdis kp hkp v hlm] at hd; cases hd
        simp only [Option.map_none]
        have hrf := readField_stored hexf hexp kp.2.disabled kp.2.emptyIsDefault hsh
        have hcond : ((kp.2.disabled || kp.2.emptyIsDefault) && reflTy kp.2.ty != GoTy.iface && v.isZero) = true := by
          unfold readBack at hrb
          simp only [] at hrb
          split at hrb
          · rename_i hc; exact hc
          · cases hrb
        rw [hcond] at hrf
        simp only [if_true] at hrf
        rw [he] at hrf
        exact .absent he hrf
      | some y =>
        obtain ⟨hy, _⟩ := readBack_some hrb
        subst hy
        have hmem : (kp.1, y) ∈ expectedBack st props m := lookupS_mem (by rw [hlr kp hkp f hf, hlm, hrb])
        obtain ⟨p', hl', hE, _, _, _⟩ := (hAB (kp.1, y) hmem).rel
        simp only [] at hl' hE
        rw [lookupS_of_mem_nodup hwf.keys (show (kp.1, kp.2) ∈ props from hkp)] at hl'; cases hl'
        simp only [Option.map_some]
        by_cases hft : f.ty = reflTy kp.2.ty
        · simp only [hft, if_true]; exact .val hE
        · simp only [hft, if_false]; exact .ptr hE

/-- the end-to-end round trip of one struct-mapped object, given that of its property types -/
theorem rt_obj (x : Ext) (n : Nat) (id : String) {st : StructTy} (ptrT : Bool) {props : List (String × SProp)}
    (hwf : WFObj st props) (hex : exactObjB st props = true)
    (hrt : ∀ kp, kp ∈ props → rtPropB st props kp = true)
    (ih : ∀ kp, kp ∈ props → RTAt (srun x (n + 2)) kp.2.ty) (v s : SV)
    (hU : runObjS (srun x (n + 2)) (n + 2) .U st ptrT props v = .ok s) :
    runObjS (srun x (n + 2)) (n + 2) .V st ptrT props s = .ok (.val unitV) ∧
    ∃ w s', runObjS (srun x (n + 2)) (n + 2) .S st ptrT props s = .ok (.val w) ∧
      runObjS (srun x (n + 2)) (n + 2) .U st ptrT props (.val w) = .ok s' ∧
      Eqv (.obj id st ptrT props) s s' ∧
      runObjS (srun x (n + 2)) (n + 2) .S st ptrT props s' = .ok (.val w) := by
  obtain ⟨hV, _, wl, s', _, hS, _, _, hU2, hE, hS2⟩ := rt_obj_ext x n id ptrT hwf hex hrt ih v s [] hU
    (fun _ _ => ⟨List.nodup_nil, fun _ h => by cases h⟩)
  rw [List.append_nil] at hU2
  exact ⟨hV, _, s', hS, hU2, hE, hS2⟩

end SM
end Arca
