import ArcaModel.Model.Step
import ArcaModel.Props.C04
/-
  Lemmas for property C11 (step and signal calls): the call paths of `callStep` / `callSignal` as
  relations with one constructor per path (`StepPath`, `SigPath`), proved to be exactly the graph
  of the executable functions, and the inductive invariant of the step-data transition system.
-/
namespace Arca.Step
open Arca

/-! ### `Validate` never accepts the nil interface

so the unchecked assertion `input.(InputType)` behind a successful `Validate` cannot fail -/

theorem run_V_nil (x : Ext) : ∀ (fuel : Nat) (env : Env) (t : Ty) (u : V),
    run x fuel .V env t .nil ≠ .ok u := by
  intro fuel
  induction fuel with
  | zero => intro env t u; simp [run]
  | succ n ih =>
    intro env t u
    cases t with
    | int a b c => simp [run, runInt, asInt, V.under, Out.cerr, Out.bind]
    | float a b c => simp [run, runFloat, asFloat, V.under, Out.cerr, Out.bind]
    | str a b c => simp [run, runStr, asString, V.under, Out.cerr, Out.bind]
    | bool => simp [run, runBool, asBool, V.under, Out.cerr, Out.bind]
    | pattern => simp [run, runPattern, Out.cerr]
    | enumInt a b => simp [run, runEnumInt, asInt, V.under, Out.cerr, Out.bind]
    | enumStr a => simp [run, runEnumStr, asString, V.under, Out.cerr, Out.bind]
    | list a b c => simp [run, runList, V.sliceElems?, Out.cerr]
    | map a b c d => simp [run, runMap, V.mapEntries?, Out.cerr]
    | obj a b => simp [run, runObj, Out.cerr]
    | oneOf a b c d => simp [run, runOneOf, Out.cerr]
    | ref id =>
      simp only [run]
      split
      · simp
      · exact ih _ _ _
    | scope objs root =>
      simp only [run]
      split
      · simp
      · exact ih _ _ _
    | any => simp [run, runAny, anyConvert, V.under, Out.cerr, Out.bind]

theorem isNilV_of_valid {x : Ext} {fuel : Nat} {t : Ty} {v u : V}
    (h : run x fuel .V [] t v = .ok u) : isNilV v = false := by
  cases v <;> simp [isNilV]
  exact run_V_nil x fuel [] t u h

/-! ### the paths of `CallStep` -/

/-- the input is accepted by the step's input schema: `Unserialize` yields `v`, and `v` passes the
    `Validate` that `CallableStepSchema.Call` repeats on it -/
def Accepts (x : Ext) (fuel : Nat) (t : Ty) (raw v : V) : Prop :=
  run x fuel .U [] t raw = .ok v ∧ ∃ u, run x fuel .V [] t v = .ok u

/-- The paths of `CallStep`, one constructor per path, as a relation between the call and its
    result (outcome, handler invocations). -/
inductive StepPath (x : Ext) (fuel : Nat) (p : Plugin) (beh : String → HandlerBeh) (stepID : String) (raw : V) :
    StepOut × List V → Prop
  | unknownStep : lookupS stepID p = none → StepPath x fuel p beh stepID raw (.err .unknownStep, [])
  | unserErr {st e} : lookupS stepID p = some st → run x fuel .U [] st.input raw = .err e →
      StepPath x fuel p beh stepID raw (.err .invalidInput, [])
  | unserPanic {st} : lookupS stepID p = some st → run x fuel .U [] st.input raw = .panic →
      StepPath x fuel p beh stepID raw (.panic, [])
  | unserFuel {st} : lookupS stepID p = some st → run x fuel .U [] st.input raw = .fuel →
      StepPath x fuel p beh stepID raw (.fuel, [])
  | validErr {st v e} : lookupS stepID p = some st → run x fuel .U [] st.input raw = .ok v →
      run x fuel .V [] st.input v = .err e → StepPath x fuel p beh stepID raw (.err .invalidInput, [])
  | validPanic {st v} : lookupS stepID p = some st → run x fuel .U [] st.input raw = .ok v →
      run x fuel .V [] st.input v = .panic → StepPath x fuel p beh stepID raw (.panic, [])
  | validFuel {st v} : lookupS stepID p = some st → run x fuel .U [] st.input raw = .ok v →
      run x fuel .V [] st.input v = .fuel → StepPath x fuel p beh stepID raw (.fuel, [])
  | handlerPanic {st v} : lookupS stepID p = some st → Accepts x fuel st.input raw v →
      beh stepID v = none → StepPath x fuel p beh stepID raw (.panic, [v])
  | undeclared {st v oid d} : lookupS stepID p = some st → Accepts x fuel st.input raw v →
      beh stepID v = some (oid, d) → lookupS oid st.outputs = none →
      StepPath x fuel p beh stepID raw (.err .undeclaredOutput, [v])
  | outErr {st v oid d ot e} : lookupS stepID p = some st → Accepts x fuel st.input raw v →
      beh stepID v = some (oid, d) → lookupS oid st.outputs = some ot →
      run x fuel .V [] ot d = .err e → StepPath x fuel p beh stepID raw (.err .invalidOutput, [v])
  | outPanic {st v oid d ot} : lookupS stepID p = some st → Accepts x fuel st.input raw v →
      beh stepID v = some (oid, d) → lookupS oid st.outputs = some ot →
      run x fuel .V [] ot d = .panic → StepPath x fuel p beh stepID raw (.panic, [v])
  | outFuel {st v oid d ot} : lookupS stepID p = some st → Accepts x fuel st.input raw v →
      beh stepID v = some (oid, d) → lookupS oid st.outputs = some ot →
      run x fuel .V [] ot d = .fuel → StepPath x fuel p beh stepID raw (.fuel, [v])
  | serOk {st v oid d ot u w} : lookupS stepID p = some st → Accepts x fuel st.input raw v →
      beh stepID v = some (oid, d) → lookupS oid st.outputs = some ot →
      run x fuel .V [] ot d = .ok u → run x fuel .S [] ot d = .ok w →
      StepPath x fuel p beh stepID raw (.ok oid w, [v])
  | serErr {st v oid d ot u e} : lookupS stepID p = some st → Accepts x fuel st.input raw v →
      beh stepID v = some (oid, d) → lookupS oid st.outputs = some ot →
      run x fuel .V [] ot d = .ok u → run x fuel .S [] ot d = .err e →
      StepPath x fuel p beh stepID raw (.err .unserializableOutput, [v])
  | serPanic {st v oid d ot u} : lookupS stepID p = some st → Accepts x fuel st.input raw v →
      beh stepID v = some (oid, d) → lookupS oid st.outputs = some ot →
      run x fuel .V [] ot d = .ok u → run x fuel .S [] ot d = .panic →
      StepPath x fuel p beh stepID raw (.panic, [v])
  | serFuel {st v oid d ot u} : lookupS stepID p = some st → Accepts x fuel st.input raw v →
      beh stepID v = some (oid, d) → lookupS oid st.outputs = some ot →
      run x fuel .V [] ot d = .ok u → run x fuel .S [] ot d = .fuel →
      StepPath x fuel p beh stepID raw (.fuel, [v])

/-- the executable `callStep` takes exactly one of these paths -/
theorem callStep_path (x : Ext) (fuel : Nat) (p : Plugin) (beh : String → HandlerBeh) (stepID : String) (raw : V) :
    StepPath x fuel p beh stepID raw (callStep x fuel p beh stepID raw) := by
  unfold callStep
  cases hl : lookupS stepID p with
  | none => exact .unknownStep hl
  | some st =>
    dsimp only
    cases hu : run x fuel .U [] st.input raw with
    | err e => exact .unserErr hl hu
    | panic => exact .unserPanic hl hu
    | fuel => exact .unserFuel hl hu
    | ok v =>
      dsimp only
      unfold stepCall
      cases hv : run x fuel .V [] st.input v with
      | err e => exact .validErr hl hu hv
      | panic => exact .validPanic hl hu hv
      | fuel => exact .validFuel hl hu hv
      | ok u0 =>
        have ha : Accepts x fuel st.input raw v := ⟨hu, u0, hv⟩
        simp only [isNilV_of_valid hv, Bool.false_eq_true, ↓reduceIte]
        cases hb : beh stepID v with
        | none => exact .handlerPanic hl ha hb
        | some od =>
          obtain ⟨oid, d⟩ := od
          dsimp only
          cases ho : lookupS oid st.outputs with
          | none => exact .undeclared hl ha hb ho
          | some ot =>
            dsimp only
            cases hV : run x fuel .V [] ot d with
            | err e => exact .outErr hl ha hb ho hV
            | panic => exact .outPanic hl ha hb ho hV
            | fuel => exact .outFuel hl ha hb ho hV
            | ok u =>
              dsimp only
              unfold serializeOutput
              simp only [ho]
              cases hS : run x fuel .S [] ot d with
              | ok w => exact .serOk hl ha hb ho hV hS
              | err e => exact .serErr hl ha hb ho hV hS
              | panic => exact .serPanic hl ha hb ho hV hS
              | fuel => exact .serFuel hl ha hb ho hV hS

/-- the paths exclude each other: the relation is a function -/
theorem StepPath.unique {x : Ext} {fuel : Nat} {p : Plugin} {beh : String → HandlerBeh} {stepID : String} {raw : V}
    {r r' : StepOut × List V} (h : StepPath x fuel p beh stepID raw r) (h' : StepPath x fuel p beh stepID raw r') :
    r = r' := by
  cases h <;> cases h' <;> simp_all [Accepts]


theorem callStep_eq_iff {x : Ext} {fuel : Nat} {p : Plugin} {beh : String → HandlerBeh} {stepID : String} {raw : V}
    {r : StepOut × List V} : callStep x fuel p beh stepID raw = r ↔ StepPath x fuel p beh stepID raw r :=
  ⟨fun h => h ▸ callStep_path x fuel p beh stepID raw, fun h => (callStep_path x fuel p beh stepID raw).unique h⟩

/-! ### the paths of `CallSignal` -/

/-- the signal data is accepted: `Unserialize` yields `v`, and `v` passes the `Validate` that
    `CallableSignalSchema.Call` repeats on it -/
def SigAccepts (x : Ext) (fuel : Nat) (t : Ty) (raw v : V) : Prop :=
  run x fuel .U [] t raw = .ok v ∧ ∃ u, run x fuel .V [] t v = .ok u

inductive SigPath (x : Ext) (fuel : Nat) (p : Plugin) (sbeh : String → String → SignalBeh)
    (stepID sigID : String) (raw : V) : SigOut × List V → Prop
  | unknownStep : lookupS stepID p = none → SigPath x fuel p sbeh stepID sigID raw (.err .unknownStep, [])
  | unknownSignal {st} : lookupS stepID p = some st → lookupS sigID st.signals = none →
      SigPath x fuel p sbeh stepID sigID raw (.err .unknownSignal, [])
  | unserErr {st dt e} : lookupS stepID p = some st → lookupS sigID st.signals = some dt →
      run x fuel .U [] dt raw = .err e → SigPath x fuel p sbeh stepID sigID raw (.err .invalidInput, [])
  | unserPanic {st dt} : lookupS stepID p = some st → lookupS sigID st.signals = some dt →
      run x fuel .U [] dt raw = .panic → SigPath x fuel p sbeh stepID sigID raw (.panic, [])
  | unserFuel {st dt} : lookupS stepID p = some st → lookupS sigID st.signals = some dt →
      run x fuel .U [] dt raw = .fuel → SigPath x fuel p sbeh stepID sigID raw (.fuel, [])
  | validErr {st dt v e} : lookupS stepID p = some st → lookupS sigID st.signals = some dt →
      run x fuel .U [] dt raw = .ok v → run x fuel .V [] dt v = .err e →
      SigPath x fuel p sbeh stepID sigID raw (.err .invalidInput, [])
  | validPanic {st dt v} : lookupS stepID p = some st → lookupS sigID st.signals = some dt →
      run x fuel .U [] dt raw = .ok v → run x fuel .V [] dt v = .panic →
      SigPath x fuel p sbeh stepID sigID raw (.panic, [])
  | validFuel {st dt v} : lookupS stepID p = some st → lookupS sigID st.signals = some dt →
      run x fuel .U [] dt raw = .ok v → run x fuel .V [] dt v = .fuel →
      SigPath x fuel p sbeh stepID sigID raw (.fuel, [])
  | handlerPanic {st dt v} : lookupS stepID p = some st → lookupS sigID st.signals = some dt →
      SigAccepts x fuel dt raw v → sbeh stepID sigID v = false →
      SigPath x fuel p sbeh stepID sigID raw (.panic, [v])
  | ok {st dt v} : lookupS stepID p = some st → lookupS sigID st.signals = some dt →
      SigAccepts x fuel dt raw v → sbeh stepID sigID v = true →
      SigPath x fuel p sbeh stepID sigID raw (.ok, [v])

theorem callSignal_path (x : Ext) (fuel : Nat) (p : Plugin) (sbeh : String → String → SignalBeh)
    (stepID sigID : String) (raw : V) :
    SigPath x fuel p sbeh stepID sigID raw (callSignal x fuel p sbeh stepID sigID raw) := by
  unfold callSignal
  cases hl : lookupS stepID p with
  | none => exact .unknownStep hl
  | some st =>
    dsimp only
    cases hs : lookupS sigID st.signals with
    | none => exact .unknownSignal hl hs
    | some dt =>
      dsimp only
      cases hu : run x fuel .U [] dt raw with
      | err e => exact .unserErr hl hs hu
      | panic => exact .unserPanic hl hs hu
      | fuel => exact .unserFuel hl hs hu
      | ok v =>
        dsimp only
        unfold signalCall
        simp only [hs]
        cases hv : run x fuel .V [] dt v with
        | err e => exact .validErr hl hs hu hv
        | panic => exact .validPanic hl hs hu hv
        | fuel => exact .validFuel hl hs hu hv
        | ok u0 =>
          have ha : SigAccepts x fuel dt raw v := ⟨hu, u0, hv⟩
          simp only [isNilV_of_valid hv, Bool.false_eq_true, ↓reduceIte]
          cases hb : sbeh stepID sigID v with
          | false => simpa using .handlerPanic hl hs ha hb
          | true => simpa using .ok hl hs ha hb

theorem SigPath.unique {x : Ext} {fuel : Nat} {p : Plugin} {sbeh : String → String → SignalBeh}
    {stepID sigID : String} {raw : V} {r r' : SigOut × List V}
    (h : SigPath x fuel p sbeh stepID sigID raw r) (h' : SigPath x fuel p sbeh stepID sigID raw r') : r = r' := by
  cases h <;> cases h' <;> simp_all [SigAccepts]

theorem callSignal_eq_iff {x : Ext} {fuel : Nat} {p : Plugin} {sbeh : String → String → SignalBeh}
    {stepID sigID : String} {raw : V} {r : SigOut × List V} :
    callSignal x fuel p sbeh stepID sigID raw = r ↔ SigPath x fuel p sbeh stepID sigID raw r :=
  ⟨fun h => h ▸ callSignal_path x fuel p sbeh stepID sigID raw,
   fun h => (callSignal_path x fuel p sbeh stepID sigID raw).unique h⟩

/-! ### the step-data transition system -/

theorem lookupS_cons_self {α} (k : String) (v : α) (m : List (String × α)) :
    lookupS k ((k, v) :: m) = some v := by simp [lookupS]

theorem lookupS_cons_ne {α} {k k' : String} (v : α) (m : List (String × α)) (h : k ≠ k') :
    lookupS k ((k', v) :: m) = lookupS k m := by simp [lookupS, h]

theorem mem_removeNth {α} {c : α} : ∀ {l : List α} {i : Nat}, c ∈ removeNth l i → c ∈ l
  | [], _, h => by simp [removeNth] at h
  | _ :: xs, 0, h => by simp [removeNth] at h; exact List.mem_cons_of_mem _ h
  | y :: xs, n + 1, h => by
    simp only [removeNth, List.mem_cons] at h
    rcases h with rfl | h
    · simp
    · exact List.mem_cons_of_mem _ (mem_removeNth h)

/-- the invariant of the step-data transition system -/
structure Inv (hasInit : Bool) (σ : St) : Prop where
  store_of_init : ∀ r n, (r, n) ∈ σ.inits → lookupS r σ.store = some (some n)
  init_of_store : ∀ r n, lookupS r σ.store = some (some n) → (r, n) ∈ σ.inits
  lt_next : ∀ r n, (r, n) ∈ σ.inits → n < σ.next
  runs_nodup : (σ.inits.map Prod.fst).Nodup
  ords_nodup : (σ.inits.map Prod.snd).Nodup
  nonzero : hasInit = true → ∀ r d, lookupS r σ.store = some d → d ≠ none
  calls_own : ∀ c, c ∈ σ.pending ∨ c ∈ σ.seen → lookupS c.run σ.store = some c.data

theorem inv_init (hasInit : Bool) : Inv hasInit St.init := by
  constructor <;> simp [St.init, lookupS]

theorem setup_lookup (hasInit : Bool) (σ : St) (r : String) :
    lookupS r (setup hasInit σ r).1.store = some (setup hasInit σ r).2 := by
  unfold setup
  split
  · assumption
  · split <;> simp [lookupS]

theorem setup_pending (hasInit : Bool) (σ : St) (r : String) :
    (setup hasInit σ r).1.pending = σ.pending ∧ (setup hasInit σ r).1.seen = σ.seen := by
  unfold setup
  split
  · simp
  · split <;> simp

theorem inv_setup {hasInit : Bool} {σ : St} (h : Inv hasInit σ) (r : String) :
    Inv hasInit (setup hasInit σ r).1 := by
  unfold setup
  cases hl : lookupS r σ.store with
  | some d => exact h
  | none =>
    have hne : ∀ r' d, lookupS r' σ.store = some d → r' ≠ r := by
      intro r' d h' heq
      rw [heq, hl] at h'
      cases h'
    cases hasInit with
    | true =>
      dsimp only
      simp only [↓reduceIte]
      constructor
      · intro r' n hm
        simp only [List.mem_cons, Prod.mk.injEq] at hm
        rcases hm with ⟨rfl, rfl⟩ | hm
        · exact lookupS_cons_self _ _ _
        · have := h.store_of_init r' n hm
          rw [lookupS_cons_ne _ _ (hne _ _ this)]
          exact this
      · intro r' n hs
        by_cases heq : r' = r
        · subst heq
          rw [lookupS_cons_self] at hs
          simp only [Option.some.injEq] at hs
          subst hs
          simp
        · rw [lookupS_cons_ne _ _ heq] at hs
          exact List.mem_cons_of_mem _ (h.init_of_store r' n hs)
      · intro r' n hm
        simp only [List.mem_cons, Prod.mk.injEq] at hm
        rcases hm with ⟨rfl, rfl⟩ | hm
        · exact Nat.lt_succ_self _
        · exact Nat.lt_succ_of_lt (h.lt_next r' n hm)
      · simp only [List.map_cons, List.nodup_cons]
        refine ⟨?_, h.runs_nodup⟩
        intro hmem
        obtain ⟨⟨r', n⟩, hm, heq⟩ := List.mem_map.mp hmem
        exact hne _ _ (h.store_of_init _ _ hm) heq
      · simp only [List.map_cons, List.nodup_cons]
        refine ⟨?_, h.ords_nodup⟩
        intro hm
        obtain ⟨⟨r', n⟩, hm, heq⟩ := List.mem_map.mp hm
        have := h.lt_next r' n hm
        simp only at heq
        omega
      · intro _ r' d hs
        by_cases heq : r' = r
        · subst heq
          rw [lookupS_cons_self] at hs
          cases hs
          simp
        · rw [lookupS_cons_ne _ _ heq] at hs
          exact h.nonzero rfl r' d hs
      · intro c hc
        have := h.calls_own c hc
        rw [lookupS_cons_ne _ _ (hne _ _ this)]
        exact this
    | false =>
      dsimp only
      simp only [Bool.false_eq_true, ↓reduceIte]
      constructor
      · intro r' n hm
        have := h.store_of_init r' n hm
        rw [lookupS_cons_ne _ _ (hne _ _ this)]
        exact this
      · intro r' n hs
        by_cases heq : r' = r
        · subst heq
          rw [lookupS_cons_self] at hs
          cases hs
        · rw [lookupS_cons_ne _ _ heq] at hs
          exact h.init_of_store r' n hs
      · exact h.lt_next
      · exact h.runs_nodup
      · exact h.ords_nodup
      · intro hf; cases hf
      · intro c hc
        have := h.calls_own c hc
        rw [lookupS_cons_ne _ _ (hne _ _ this)]
        exact this

theorem inv_arrive {hasInit : Bool} {σ : St} (h : Inv hasInit σ) (who : Who) (r : String) :
    Inv hasInit { (setup hasInit σ r).1 with
      pending := (setup hasInit σ r).1.pending ++ [⟨who, r, (setup hasInit σ r).2⟩] } := by
  have h' := inv_setup h r
  have hl := setup_lookup hasInit σ r
  constructor
  · exact h'.store_of_init
  · exact h'.init_of_store
  · exact h'.lt_next
  · exact h'.runs_nodup
  · exact h'.ords_nodup
  · exact h'.nonzero
  · intro c hc
    simp only [List.mem_append, List.mem_singleton] at hc
    rcases hc with (hc | rfl) | hc
    · exact h'.calls_own c (Or.inl hc)
    · exact hl
    · exact h'.calls_own c (Or.inr hc)

theorem inv_apply {hasInit : Bool} {σ : St} (h : Inv hasInit σ) (a : Act) : Inv hasInit (apply hasInit σ a) := by
  cases a with
  | stepArrives r => exact inv_arrive h .step r
  | signalArrives r s => exact inv_arrive h (.signal s) r
  | invoke i =>
    simp only [apply]
    split
    · exact h
    · rename_i c hi
      have hc : c ∈ σ.pending := List.mem_of_getElem? hi
      constructor
      · exact h.store_of_init
      · exact h.init_of_store
      · exact h.lt_next
      · exact h.runs_nodup
      · exact h.ords_nodup
      · exact h.nonzero
      · intro c' hc'
        simp only [List.mem_append, List.mem_singleton] at hc'
        rcases hc' with hc' | hc' | rfl
        · exact h.calls_own c' (Or.inl (mem_removeNth hc'))
        · exact h.calls_own c' (Or.inr hc')
        · exact h.calls_own c' (Or.inl hc)

theorem inv_foldl {hasInit : Bool} : ∀ (acts : List Act) (σ : St), Inv hasInit σ →
    Inv hasInit (acts.foldl (apply hasInit) σ)
  | [], _, h => h
  | a :: rest, _, h => inv_foldl rest _ (inv_apply h a)

theorem inv_exec (hasInit : Bool) (acts : List Act) : Inv hasInit (exec hasInit acts) :=
  inv_foldl acts _ (inv_init hasInit)

theorem filter_fst_le_one {α} (r : String) : ∀ (l : List (String × α)), (l.map Prod.fst).Nodup →
    (l.filter (fun p => p.1 == r)).length ≤ 1
  | [], _ => by simp
  | (k, v) :: rest, h => by
    simp only [List.map_cons, List.nodup_cons] at h
    have ih := filter_fst_le_one r rest h.2
    by_cases hk : k = r
    · subst hk
      have : rest.filter (fun p => p.1 == k) = [] := by
        rw [List.filter_eq_nil_iff]
        intro p hp hpk
        have : p.1 = k := by simpa using hpk
        exact h.1 (this ▸ List.mem_map_of_mem hp)
      simp [List.filter, this]
    · have : ((k, v).1 == r) = false := by simpa using hk
      simp [List.filter, this, ih]

end Arca.Step
