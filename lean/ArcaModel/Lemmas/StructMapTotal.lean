import ArcaModel.Lemmas.StructMap
import ArcaModel.Lemmas.NoPanicRun
import ArcaModel.Props.C04
/-
  Totality of the struct-mapping model: under well-formedness (`WFS`) no operation panics, for any
  input, any externals, any fuel.
-/
namespace Arca
namespace SM
open Out

/-! ### traversals -/

theorem np_forIdxS {f : Nat → SV → Out SV} : ∀ (n : Nat) (xs : List SV), (∀ i x, x ∈ xs → NP (f i x)) → NP (forIdxS f n xs)
  | _, [], _ => by simp [forIdxS]
  | n, x :: xs, hf => by
    have h1 := hf n x (List.mem_cons_self ..)
    have h2 := np_forIdxS (f := f) (n + 1) xs (fun i y hy => hf i y (List.mem_cons_of_mem _ hy))
    simp only [forIdxS]
    cases hx : f n x <;> simp_all
    cases hr : forIdxS f (n + 1) xs <;> simp_all

theorem np_forKVS {f : V → SV → Out (V × SV)} : ∀ (kvs : List (V × SV)), (∀ k v, NP (f k v)) → NP (forKVS f kvs)
  | [], _ => by simp [forKVS]
  | (k, v) :: rest, hf => by
    have h1 := hf k v
    have h2 := np_forKVS (f := f) rest hf
    simp only [forKVS]
    cases hx : f k v <;> simp_all
    cases hr : forKVS f rest <;> simp_all

theorem np_forSVS {α β} {f : String → α → Out β} : ∀ (kvs : List (String × α)),
    (∀ kv, kv ∈ kvs → NP (f kv.1 kv.2)) → NP (forSVS f kvs)
  | [], _ => by simp [forSVS]
  | (k, v) :: rest, hf => by
    have h1 := hf (k, v) (List.mem_cons_self ..)
    have h2 := np_forSVS (f := f) rest (fun kv hkv => hf kv (List.mem_cons_of_mem _ hkv))
    simp only [forSVS]
    simp only [] at h1
    cases hx : f k v <;> simp_all
    cases hr : forSVS f rest <;> simp_all

theorem forSVS_keys {α β} {f : String → α → Out β} : ∀ {kvs : List (String × α)} {r : List (String × β)},
    forSVS f kvs = .ok r → keysOf r = keysOf kvs
  | [], r, h => by simp only [forSVS, Out.ok.injEq] at h; subst h; rfl
  | (k, v) :: rest, r, h => by
    simp only [forSVS] at h
    cases hx : f k v with
    | ok y =>
      simp only [hx] at h
      cases hr : forSVS f rest with
      | ok ys =>
        simp only [hr, Out.ok.injEq] at h
        subst h
        simp only [keysOf, List.map_cons, List.cons.injEq, true_and]
        exact forSVS_keys hr
      | err e => simp [hr] at h
      | panic => simp [hr] at h
      | fuel => simp [hr] at h
    | err e => simp [hx] at h
    | panic => simp [hx] at h
    | fuel => simp [hx] at h

theorem np_asVal (x : SV) : NP (asVal x) := by cases x <;> simp [asVal]

theorem np_allVals : ∀ (xs : List SV), NP (allVals xs)
  | [] => by simp [allVals]
  | x :: xs => by
    simp only [allVals]
    exact np_bind (np_asVal x) (fun _ => np_bind (np_allVals xs) (fun _ => by simp))

theorem np_allValKVs : ∀ (xs : List (V × SV)), NP (allValKVs xs)
  | [] => by simp [allValKVs]
  | (k, x) :: xs => by
    simp only [allValKVs]
    exact np_bind (np_asVal x) (fun _ => np_bind (np_allValKVs xs) (fun _ => by simp))

/-- the recursive call does not panic on a given sub-schema -/
def SRecNP (rec : SRec) (t : STy) : Prop := ∀ op s, NP (rec op t s)

theorem np_runLeaf (x : Ext) (fuel : Nat) (op : SOp) (t : Ty) (s : SV) (hwf : WF [] t) : NP (runLeaf x fuel op t s) := by
  unfold runLeaf
  split
  · simp
  · rename_i v _
    have := C04_no_panic_closed x fuel op.toOp t v hwf
    cases hr : run x fuel op.toOp [] t v <;> simp_all [NP]

theorem np_runListS {rec : SRec} {item : STy} (hrec : SRecNP rec item) (op : SOp) (min max : Option Int) (s : SV) :
    NP (runListS rec op item min max s) := by
  unfold runListS
  split
  · simp
  · refine np_bind (np_checkLen _ _ _) (fun _ => ?_)
    cases op
    · exact np_bind (np_forIdxS _ _ (fun i e _ => np_addSeg _ (hrec _ _))) (fun _ => by simp)
    · exact np_bind (np_forIdxS _ _ (fun i e _ => np_addSeg _ (hrec _ _))) (fun _ => by simp)
    · exact np_bind (np_forIdxS _ _ (fun i e _ => np_addSeg _ (hrec _ _))) (fun _ =>
        np_bind (np_forIdxS _ _ (fun i e _ => np_addSeg _ (hrec _ _))) (fun _ =>
          np_bind (np_allVals _) (fun _ => by simp)))

theorem np_entryKVS {rec : SRec} (x : Ext) (fuel : Nat) (op : SOp) {kt : Ty} {vt : STy} (hk : WF [] kt)
    (hrec : SRecNP rec vt) (k : V) (e : SV) : NP (entryKVS rec x fuel op kt vt k e) := by
  unfold entryKVS
  refine np_bind (np_addSeg _ (C04_no_panic_closed x fuel op.toOp kt k hk)) (fun _ => ?_)
  exact np_bind (np_addSeg _ (hrec _ _)) (fun _ => by simp)

theorem np_runMapS {rec : SRec} (x : Ext) (fuel : Nat) (op : SOp) {kt : Ty} {vt : STy} (hk : WF [] kt)
    (hrec : SRecNP rec vt) (min max : Option Int) (s : SV) : NP (runMapS rec x fuel op kt vt min max s) := by
  unfold runMapS
  split
  · simp
  · refine np_bind (np_checkLen _ _ _) (fun _ => ?_)
    cases op
    · exact np_bind (np_forKVS _ (np_entryKVS x fuel _ hk hrec)) (fun _ => by split <;> simp)
    · exact np_bind (np_forKVS _ (np_entryKVS x fuel _ hk hrec)) (fun _ => by simp)
    · exact np_bind (np_forKVS _ (np_entryKVS x fuel _ hk hrec)) (fun _ =>
        np_bind (np_forKVS _ (np_entryKVS x fuel _ hk hrec)) (fun _ =>
          np_bind (np_allValKVs _) (fun _ => by simp)))

/-! ### struct-mapped objects -/

theorem np_defaultsOf' : ∀ (ps : List (String × PropT)), (∀ kp, kp ∈ ps → defaultOK kp.2 = true) → NP (defaultsOf ps)
  | [], _ => by simp [defaultsOf]
  | (k, p) :: rest, h => by
    have hd := h (k, p) (List.mem_cons_self ..)
    have ih := np_defaultsOf' rest (fun kp hkp => h kp (List.mem_cons_of_mem _ hkp))
    simp only [defaultsOf]
    split
    · exact ih
    · rename_i hdv; simp [defaultOK, hdv] at hd
    · exact np_bind ih (fun _ => by simp)


theorem np_applyDefaultsS (st : StructTy) (fuel : Nat) : ∀ (ps : List (String × SProp)) (m : List (String × V)),
    (∀ kp, kp ∈ ps → defaultOK kp.2.rules = true ∧ ∀ e, NP (subDefS fuel kp.2.ty e)) → NP (applyDefaultsS st fuel ps m)
  | [], m, _ => by simp [applyDefaultsS]
  | (k, p) :: rest, m, h => by
    have ih := fun m' => np_applyDefaultsS st fuel rest m' (fun kp hkp => h kp (List.mem_cons_of_mem _ hkp))
    obtain ⟨hd, hs⟩ := h (k, p) (List.mem_cons_self ..)
    simp only [applyDefaultsS]
    split
    · exact ih m
    · split
      · rename_i hdv
        simp [defaultOK, hdv] at hd
      · refine np_bind ?_ (fun _ => ih _)
        split
        · simp
        · exact hs _

theorem applyDefaultsS_keys (st : StructTy) (fuel : Nat) : ∀ (ps : List (String × SProp)) (m m' : List (String × V)),
    applyDefaultsS st fuel ps m = .ok m' → ∀ kv, kv ∈ m' → kv ∈ m ∨ kv.1 ∈ keysOf ps
  | [], m, m', h, kv, hkv => by
    simp only [applyDefaultsS, Out.ok.injEq] at h
    subst h; exact Or.inl hkv
  | (k, p) :: rest, m, m', h, kv, hkv => by
    simp only [applyDefaultsS] at h
    have lift : (kv ∈ m ∨ kv.1 ∈ keysOf rest) → kv ∈ m ∨ kv.1 ∈ keysOf ((k, p) :: rest) := by
      intro h
      rcases h with h | h
      · exact Or.inl h
      · exact Or.inr (by simp only [keysOf, List.map_cons, List.mem_cons]; exact Or.inr h)
    split at h
    · exact lift (applyDefaultsS_keys st fuel rest m m' h kv hkv)
    · split at h
      · cases h
      · obtain ⟨o, _, h⟩ := Out.bind_eq_ok h
        rcases applyDefaultsS_keys st fuel rest _ m' h kv hkv with hm | hm
        · cases o with
          | none => exact lift (Or.inl hm)
          | some v =>
            simp only [List.mem_append, List.mem_singleton] at hm
            rcases hm with hm | hm
            · exact Or.inl hm
            · subst hm; exact Or.inr (by simp [keysOf])
        · exact lift (Or.inr hm)

/-- every key of the converted map is a declared property -/
theorem sobjRaw_declared {rec : SRec} {fuel : Nat} {st : StructTy} {props : List (String × SProp)} {s : SV} {m : List (String × SV)}
    (h : sobjRaw rec fuel st props s = .ok m) : ∀ kv, kv ∈ m → hasKey kv.1 props = true := by
  unfold sobjRaw at h
  split at h
  · split at h
    · rename_i name p
      split at h
      · simp [Out.plain] at h
      · obtain ⟨r, _, h⟩ := Out.bind_eq_ok h
        simp only [Out.ok.injEq] at h
        subst h
        intro kv hkv
        simp only [List.mem_singleton] at hkv
        subst hkv
        simp [hasKey, lookupS]
    · simp [Out.cerr] at h
  · split at h
    · simp [Out.cerr] at h
    · rename_i skvs _
      split at h
      · simp [Out.cerr] at h
      · split at h
        · simp [Out.cerr] at h
        · rename_i hany
          obtain ⟨m0, hm0, h⟩ := Out.bind_eq_ok h
          intro kv hkv
          have hk : kv.1 ∈ keysOf m0 := by
            rw [← forSVS_keys h]; exact List.mem_map.mpr ⟨kv, hkv, rfl⟩
          obtain ⟨kv0, hkv0, hk0⟩ := List.mem_map.mp hk
          rw [← hk0]
          rcases applyDefaultsS_keys st fuel props skvs m0 hm0 kv0 hkv0 with h1 | h1
          · have : ¬ (skvs.any fun kv => !hasKey kv.1 props) = true := hany
            simp only [List.any_eq_true, not_exists, not_and, Bool.not_eq_true', Bool.not_eq_false] at this
            exact this kv0 h1
          · exact (hasKey_iff_mem _ _).mpr h1

theorem np_toStructGo {st : StructTy} {props : List (String × SProp)}
    (hfield : ∀ kp, kp ∈ props → ∃ f, fieldFor st kp.1 = some f) :
    ∀ (m acc : List (String × SV)), (∀ kv, kv ∈ m → hasKey kv.1 props = true) → NP (toStructGo st props m acc)
  | [], _, _ => by simp [toStructGo]
  | (k, v) :: rest, acc, h => by
    obtain ⟨p, hp⟩ := Option.isSome_iff_exists.mp (h (k, v) (List.mem_cons_self ..))
    obtain ⟨f, hf⟩ := hfield (k, p) (lookupS_mem hp)
    simp only [] at hf
    simp only [toStructGo, hf, hp]
    split
    · simp
    · split
      · exact np_toStructGo hfield rest _ (fun kv hkv => h kv (List.mem_cons_of_mem _ hkv))
      · simp

theorem np_emptyLike {vty src : GoTy} (h : convOK vty src = true) (x : SV) : NP (emptyLike vty src x) := by
  unfold emptyLike
  simp only [h, Bool.not_true, Bool.false_eq_true, if_false]
  split
  · simp
  · split <;> simp

theorem np_readField {f : Field} {src : GoTy} (hexp : f.exported = true)
    (hconv : convOK (elemTy f.ty src) src = true) (dis eid : Bool) (fv : SV) : NP (readField f src dis eid fv) := by
  unfold readField
  split
  · simp
  · simp only [hexp, Bool.not_true, Bool.false_eq_true, if_false]
    split
    · simp
    · split
      · simp
      · split
        · exact np_bind (np_emptyLike hconv _) (fun _ => by simp)
        · simp

theorem np_fromStruct {st : StructTy} (fs : List (String × SV)) : ∀ (ps : List (String × SProp)),
    (∀ kp, kp ∈ ps → propOK st kp = true) → NP (fromStruct st ps fs)
  | [], _ => by simp [fromStruct]
  | (k, p) :: rest, h => by
    rw [fromStruct_cons]
    obtain ⟨f, hf, hexp, hconv, _⟩ := propOK_field (h (k, p) (List.mem_cons_self ..))
    simp only [] at hf hconv
    refine np_bind ?_ (fun _ => np_bind (np_fromStruct fs rest (fun kp hkp => h kp (List.mem_cons_of_mem _ hkp))) (fun _ => by simp))
    simp only [readProp, hf]
    split
    · simp
    · exact np_readField hexp hconv _ _ _

theorem np_unwrapT (ptrT : Bool) (id : String) (s : SV) : NP (unwrapT ptrT id s) := by
  unfold unwrapT
  split
  · split <;> simp
  · split <;> simp
  · simp

theorem np_runObjS {rec : SRec} (fuel : Nat) (op : SOp) {st : StructTy} (ptrT : Bool) {props : List (String × SProp)}
    (hwf : WFObj st props) (hrec : ∀ kp, kp ∈ props → SRecNP rec kp.2.ty)
    (hsafe : ∀ kp, kp ∈ props → ∀ e, NP (subDefS fuel kp.2.ty e)) (s : SV) : NP (runObjS rec fuel op st ptrT props s) := by
  have hfield : ∀ kp, kp ∈ props → ∃ f, fieldFor st kp.1 = some f := fun kp hkp => by
    obtain ⟨f, hf, _⟩ := propOK_field (hwf.prop kp hkp); exact ⟨f, hf⟩
  have hentry : ∀ (o : SOp) (k : String) (e : SV), NP (entryVS rec o props k e) := by
    intro o k e
    unfold entryVS
    split
    · simp
    · rename_i p hp
      exact np_addSeg _ (hrec (k, p) (lookupS_mem hp) _ _)
  cases op
  · -- Unserialize
    simp only [runObjS]
    refine np_bind' ?_ (fun m hm => np_bind (np_interdeps _ _) (fun _ => np_bind ?_ (fun _ => by simp)))
    · unfold sobjRaw
      split
      · split
        · rename_i name p
          split
          · simp
          · exact np_bind (np_rewrapP (hrec (name, p) (List.mem_singleton.mpr rfl) _ _)) (fun _ => by simp)
        · simp
      · split
        · simp
        · split
          · simp
          · split
            · simp
            · refine np_bind (np_applyDefaultsS st fuel props _ (fun kp hkp => ⟨hwf.defaults kp hkp, hsafe kp hkp⟩)) (fun m0 => ?_)
              apply np_forSVS
              intro kv _
              unfold entryUS
              split
              · simp
              · rename_i p hp
                split
                · simp
                · exact np_addSeg _ (hrec (kv.1, p) (lookupS_mem hp) _ _)
    · exact np_toStructGo hfield m _ (sobjRaw_declared hm)
  · simp only [runObjS]
    refine np_bind (np_unwrapT _ _ _) (fun fs => np_bind (np_fromStruct fs props hwf.prop) (fun raw => ?_))
    exact np_bind (np_forSVS _ (fun kv _ => hentry _ _ _)) (fun _ => np_bind (np_interdeps _ _) (fun _ => by simp))
  · simp only [runObjS]
    refine np_bind (np_unwrapT _ _ _) (fun fs => np_bind (np_fromStruct fs props hwf.prop) (fun raw => ?_))
    refine np_bind (np_forSVS _ (fun kv _ => hentry _ _ _)) (fun m => ?_)
    exact np_bind (np_forSVS _ (fun kv _ => np_asVal _)) (fun _ => np_bind (np_interdeps _ _) (fun _ => by simp))

/-- a schema that denotes a struct-mapped object: the object itself, or scopes around it -/
inductive ObjLikeS : STy → Prop
  | obj {id st ptrT props} : ObjLikeS (.obj id st ptrT props)
  | scope {t} : ObjLikeS t → ObjLikeS (.scope t)

theorem objLikeS_sound : ∀ (n : Nat) (t : STy), objLikeS n t = true → ObjLikeS t
  | 0, _, h => by simp [objLikeS] at h
  | n + 1, t, h => by
    cases t with
    | obj => exact .obj
    | scope t => exact .scope (objLikeS_sound n t (by simpa [objLikeS] using h))
    | leaf => simp [objLikeS] at h
    | list => simp [objLikeS] at h
    | map => simp [objLikeS] at h
    | oneOf => simp [objLikeS] at h

theorem mem_of_findMember {members : List (Key × STy)} {s : SV} {km : Key × STy}
    (h : findMember members s = some km) : km ∈ members ∧ svTy? s = some (reflTy km.2) := by
  unfold findMember at h
  split at h
  · cases h
  · rename_i g hg
    have hm := List.mem_of_getLast? h
    obtain ⟨h1, h2⟩ := List.mem_filter.mp hm
    exact ⟨h1, by rw [hg]; simp only [beq_iff_eq] at h2; rw [h2]⟩

/-- Well-formedness of a schema tree with struct-mapped objects: the map-backed leaves are
    well-formed closed schemas (`WF`), every struct-mapped object is a well-formed pair
    (`WFObj`), the members of a one-of are struct-mapped objects. (Since 79a33d2 a default that is
    not a map is no panic source any more.) -/
inductive WFS : STy → Prop
  | leaf {t} : WF [] t → WFS (.leaf t)
  | list {item a b} : WFS item → WFS (.list item a b)
  | map {k v a b} : WF [] k → WFS v → WFS (.map k v a b)
  | scope {t} : WFS t → WFS (.scope t)
  | obj {id st ptrT props} : WFObj st props → (∀ kp, kp ∈ props → WFS kp.2.ty) → WFS (.obj id st ptrT props)
  | oneOf {ik d inl members} : (∀ m, m ∈ members → WFS m.2) → (∀ m, m ∈ members → ObjLikeS m.2) →
      WFS (.oneOf ik d inl members)

/-- Serialize of an object-like schema yields a `map[string]any` -/
theorem srun_S_objLike (x : Ext) : ∀ (fuel : Nat) (t : STy) (s r : SV), ObjLikeS t →
    srun x fuel .S t s = .ok r → ∃ rm, r = .val (toStrAny rm)
  | 0, _, _, _, _, h => by simp [srun] at h
  | n + 1, t, s, r, ho, h => by
    cases ho with
    | obj =>
      simp only [srun, runObjS] at h
      obtain ⟨_, _, h⟩ := Out.bind_eq_ok h
      obtain ⟨_, _, h⟩ := Out.bind_eq_ok h
      obtain ⟨_, _, h⟩ := Out.bind_eq_ok h
      obtain ⟨m', _, h⟩ := Out.bind_eq_ok h
      obtain ⟨_, _, h⟩ := Out.bind_eq_ok h
      cases h
      exact ⟨m', rfl⟩
    | scope ho' =>
      simp only [srun] at h
      exact srun_S_objLike x n _ s r ho' h

theorem np_runOneOfS {rec : SRec} (x : Ext) (op : SOp) (ik : Bool) (d : String) (inl : Bool)
    {members : List (Key × STy)} (hrec : ∀ m, m ∈ members → SRecNP rec m.2)
    (hobj : ∀ m, m ∈ members → ∀ s r, rec .S m.2 s = .ok r → ∃ rm, r = .val (toStrAny rm)) (s : SV) :
    NP (runOneOfS rec x op ik d inl members s) := by
  cases op
  · simp only [runOneOfS, oneOfUnserS]
    split
    · simp
    · simp
    · split
      · simp
      · split
        · simp
        · split
          · simp
          · refine np_bind ?_ (fun key => ?_)
            · split
              · exact np_bind (np_rewrapC (np_intInputMapper _ _)) (fun _ => by simp)
              · exact np_bind (np_rewrapC (np_stringInputMapper _ _)) (fun _ => by simp)
            · split
              · simp
              · split
                · simp
                · rename_i mt hmt
                  refine np_bind (hrec (key, mt) (lookupK_mem hmt) _ _) (fun r => ?_)
                  (repeat' split) <;> simp
  · simp only [runOneOfS]
    split
    · simp
    · rename_i k mt hf
      exact np_bind (np_addSeg _ (hrec (k, mt) (mem_of_findMember hf).1 _ _)) (fun _ => by simp)
  · simp only [runOneOfS]
    split
    · simp
    · rename_i k mt hf
      have hm := (mem_of_findMember hf).1
      refine np_bind' (hrec (k, mt) hm _ _) (fun r hr => ?_)
      obtain ⟨rm, rfl⟩ := hobj (k, mt) hm _ _ hr
      simp only [toStrAny, MapShape.strAny, strKeys_toStrAny]
      simp

theorem np_subDefProps {α} {rec : String → α → Option V → Out (Option V)} : ∀ (ps : List (String × α)) (d : List (String × V)),
    (∀ kp, kp ∈ ps → ∀ e, NP (rec kp.1 kp.2 e)) → NP (subDefProps rec ps d)
  | [], d, _ => by simp [subDefProps]
  | (k, p) :: rest, d, h => by
    simp only [subDefProps]
    exact np_bind (h (k, p) (List.mem_cons_self ..) _) (fun _ =>
      np_subDefProps rest _ (fun kp hkp => h kp (List.mem_cons_of_mem _ hkp)))

/-- the sub-object defaults of a well-formed map-backed type never panic -/
theorem np_subDefTy : ∀ (n : Nat) (t : Ty) (e : Option V), WF [] t → NP (subDefTy n t e)
  | 0, _, _, _ => by simp [subDefTy]
  | n + 1, t, e, hwf => by
    cases hwf with
    | obj hp hd =>
      simp only [subDefTy]
      split
      · simp
      · refine np_bind (np_defaultsOf' _ (fun np hnp => ?_)) (fun _ => np_bind (np_subDefProps _ _ (fun kp hkp e' => ?_)) (fun _ => by simp))
        · unfold defaultOK
          have := hd np hnp
          split <;> simp_all
        · exact np_subDefTy n kp.2.ty e' (hp kp hkp)
    | int => simp [subDefTy]
    | float => simp [subDefTy]
    | str => simp [subDefTy]
    | bool => simp [subDefTy]
    | pattern => simp [subDefTy]
    | enumInt => simp [subDefTy]
    | enumStr => simp [subDefTy]
    | any => simp [subDefTy]
    | list => simp [subDefTy]
    | map => simp [subDefTy]
    | oneOf => simp [subDefTy]
    | ref => simp [subDefTy]
    | scope => simp [subDefTy]

/-- ... nor those of a well-formed tree: no default, of whatever shape, trips
    `applySubObjectDefaultValues` -/
theorem np_subDefS : ∀ (n : Nat) (t : STy) (e : Option V), WFS t → NP (subDefS n t e)
  | 0, _, _, _ => by simp [subDefS]
  | n + 1, t, e, hwf => by
    cases hwf with
    | leaf h => simp only [subDefS]; exact np_subDefTy (n + 1) _ e h
    | list => simp [subDefS]
    | map => simp [subDefS]
    | scope => simp [subDefS]
    | oneOf => simp [subDefS]
    | obj hw hp =>
      simp only [subDefS]
      split
      · simp
      · split
        · simp
        · refine np_bind (np_defaultsOf' _ (fun np hnp => ?_)) (fun _ => np_bind (np_subDefProps _ _ (fun kp hkp e' => ?_)) (fun _ => by simp))
          · obtain ⟨kp', hkp', rfl⟩ := List.mem_map.mp hnp
            exact hw.defaults kp' hkp'
          · split
            · simp
            · exact np_subDefS n kp.2.ty e' (hp kp hkp)

theorem srun_np (x : Ext) : ∀ (fuel : Nat) (op : SOp) (t : STy) (s : SV), WFS t → NP (srun x fuel op t s)
  | 0, _, _, _, _ => by simp [srun]
  | n + 1, op, t, s, hwf => by
    have ih : ∀ {t : STy}, WFS t → SRecNP (srun x n) t := fun ht op s => srun_np x n op _ s ht
    cases hwf with
    | leaf h => simp only [srun]; exact np_runLeaf x n op _ s h
    | list h => simp only [srun]; exact np_runListS (ih h) op _ _ s
    | map hk hv => simp only [srun]; exact np_runMapS x n op hk (ih hv) _ _ s
    | scope h => simp only [srun]; exact srun_np x n op _ s h
    | obj hw hp =>
      simp only [srun]
      exact np_runObjS n op _ hw (fun kp hkp => ih (hp kp hkp)) (fun kp hkp e => np_subDefS n _ e (hp kp hkp)) s
    | oneOf hm ho =>
      simp only [srun]
      exact np_runOneOfS x op _ _ _ (fun m hmm => ih (hm m hmm))
        (fun m hmm s r hr => srun_S_objLike x n _ s r (ho m hmm) hr) s

/-! ### fuel monotonicity of the sub-object defaults, and the executable check -/

theorem subDefProps_mono {α} {rec rec' : String → α → Option V → Out (Option V)}
    (h : ∀ k p e o, rec k p e = o → o ≠ .fuel → rec' k p e = o) :
    ∀ (ps : List (String × α)) (d : List (String × V)) (o : Out (List (String × V))),
      subDefProps rec ps d = o → o ≠ .fuel → subDefProps rec' ps d = o
  | [], d, o, ho, _ => by simpa [subDefProps] using ho
  | (k, p) :: rest, d, o, ho, hne => by
    simp only [subDefProps] at ho ⊢
    cases hr : rec k p (lookupS k d) with
    | ok r =>
      rw [h k p _ _ hr (by simp)]
      rw [hr] at ho
      exact subDefProps_mono h rest _ o ho hne
    | err e => rw [h k p _ _ hr (by simp)]; rw [hr] at ho; exact ho
    | panic => rw [h k p _ _ hr (by simp)]; rw [hr] at ho; exact ho
    | fuel => rw [hr] at ho; exact absurd ho.symm hne

theorem subDefTy_mono : ∀ (n : Nat) (t : Ty) (e : Option V) (o : Out (Option V)),
    subDefTy n t e = o → o ≠ .fuel → subDefTy (n + 1) t e = o
  | 0, _, _, o, ho, hne => by simp only [subDefTy] at ho; exact absurd ho.symm hne
  | n + 1, t, e, o, ho, hne => by
    cases t with
    | obj id props =>
      simp only [subDefTy] at ho ⊢
      cases hem : existingMap e with
      | none => simpa [hem] using ho
      | some d0 =>
        simp only [hem] at ho ⊢
        cases hd : defaultsOf props with
        | ok defs =>
          simp only [hd, Out.bind] at ho ⊢
          cases hp : subDefProps (fun _ (p : PropT) e => subDefTy n p.ty e) props (overlay d0 defs) with
          | fuel => simp [hp] at ho; exact absurd ho.symm hne
          | ok d =>
            rw [subDefProps_mono (fun _ p e o h1 h2 => subDefTy_mono n p.ty e o h1 h2) _ _ _ hp (by simp)]
            simpa [hp] using ho
          | err er =>
            rw [subDefProps_mono (fun _ p e o h1 h2 => subDefTy_mono n p.ty e o h1 h2) _ _ _ hp (by simp)]
            simpa [hp] using ho
          | panic =>
            rw [subDefProps_mono (fun _ p e o h1 h2 => subDefTy_mono n p.ty e o h1 h2) _ _ _ hp (by simp)]
            simpa [hp] using ho
        | err er => simpa [hd, Out.bind] using ho
        | panic => simpa [hd, Out.bind] using ho
        | fuel => simpa [hd, Out.bind] using ho
    | int => simpa [subDefTy] using ho
    | float => simpa [subDefTy] using ho
    | str => simpa [subDefTy] using ho
    | bool => simpa [subDefTy] using ho
    | pattern => simpa [subDefTy] using ho
    | enumInt => simpa [subDefTy] using ho
    | enumStr => simpa [subDefTy] using ho
    | list => simpa [subDefTy] using ho
    | map => simpa [subDefTy] using ho
    | oneOf => simpa [subDefTy] using ho
    | ref => simpa [subDefTy] using ho
    | scope => simpa [subDefTy] using ho
    | any => simpa [subDefTy] using ho

theorem subDefS_mono : ∀ (n : Nat) (t : STy) (e : Option V) (o : Out (Option V)),
    subDefS n t e = o → o ≠ .fuel → subDefS (n + 1) t e = o
  | 0, _, _, o, ho, hne => by simp only [subDefS] at ho; exact absurd ho.symm hne
  | n + 1, t, e, o, ho, hne => by
    cases t with
    | leaf t =>
      simp only [subDefS] at ho ⊢
      exact subDefTy_mono (n + 1) t e o ho hne
    | obj id st ptrT props =>
      simp only [subDefS] at ho ⊢
      cases ptrT with
      | true => simpa using ho
      | false =>
        simp only [Bool.false_eq_true, if_false] at ho ⊢
        cases hem : existingMap e with
        | none => simpa [hem] using ho
        | some d0 =>
          simp only [hem] at ho ⊢
          cases hd : defaultsOf (rulesOf props) with
          | ok defs =>
            simp only [hd, Out.bind] at ho ⊢
            cases hp : subDefProps (fun k (p : SProp) e => if fieldSkips st k then .ok e else subDefS n p.ty e) props (overlay d0 defs) with
            | fuel => simp [hp] at ho; exact absurd ho.symm hne
            | ok d =>
              rw [subDefProps_mono (rec' := fun k (p : SProp) e => if fieldSkips st k then .ok e else subDefS (n + 1) p.ty e) (fun k p e o h1 h2 => by
                split
                · rename_i hk; simpa [hk] using h1
                · rename_i hk; simp only [hk, Bool.false_eq_true, if_false] at h1; exact subDefS_mono n p.ty e o h1 h2) _ _ _ hp (by simp)]
              simpa [hp] using ho
            | err er =>
              rw [subDefProps_mono (rec' := fun k (p : SProp) e => if fieldSkips st k then .ok e else subDefS (n + 1) p.ty e) (fun k p e o h1 h2 => by
                split
                · rename_i hk; simpa [hk] using h1
                · rename_i hk; simp only [hk, Bool.false_eq_true, if_false] at h1; exact subDefS_mono n p.ty e o h1 h2) _ _ _ hp (by simp)]
              simpa [hp] using ho
            | panic =>
              rw [subDefProps_mono (rec' := fun k (p : SProp) e => if fieldSkips st k then .ok e else subDefS (n + 1) p.ty e) (fun k p e o h1 h2 => by
                split
                · rename_i hk; simpa [hk] using h1
                · rename_i hk; simp only [hk, Bool.false_eq_true, if_false] at h1; exact subDefS_mono n p.ty e o h1 h2) _ _ _ hp (by simp)]
              simpa [hp] using ho
          | err er => simpa [hd, Out.bind] using ho
          | panic => simpa [hd, Out.bind] using ho
          | fuel => simpa [hd, Out.bind] using ho
    | list => simpa [subDefS] using ho
    | map => simpa [subDefS] using ho
    | scope => simpa [subDefS] using ho
    | oneOf => simpa [subDefS] using ho

theorem subDefS_mono_k (n : Nat) (t : STy) (e : Option V) (o : Out (Option V))
    (ho : subDefS n t e = o) (hne : o ≠ .fuel) : ∀ k, subDefS (n + k) t e = o
  | 0 => ho
  | k + 1 => subDefS_mono (n + k) t e o (subDefS_mono_k n t e o ho hne k) hne

theorem wfSB_sound : ∀ (n : Nat) (t : STy), wfSB n t = true → WFS t
  | 0, _, h => by simp [wfSB] at h
  | n + 1, t, h => by
    cases t with
    | leaf t => exact .leaf (wfB_sound _ _ _ (by simpa [wfSB] using h))
    | list item a b => exact .list (wfSB_sound n item (by simpa [wfSB] using h))
    | map k v a b =>
      simp only [wfSB, Bool.and_eq_true] at h
      exact .map (wfB_sound _ _ _ h.1) (wfSB_sound n v h.2)
    | scope t => exact .scope (wfSB_sound n t (by simpa [wfSB] using h))
    | obj id st ptrT props =>
      simp only [wfSB, Bool.and_eq_true, List.all_eq_true] at h
      exact .obj ((wfObjB_iff st props).mp h.1) (fun kp hkp => wfSB_sound n kp.2.ty (h.2 kp hkp))
    | oneOf ik d inl members =>
      simp only [wfSB, Bool.and_eq_true, List.all_eq_true] at h
      exact .oneOf (fun m hm => wfSB_sound n m.2 (h.1.1 m hm).1.1) (fun m hm => objLikeS_sound n m.2 (h.1.1 m hm).1.2)

/-! ### construction -/

theorem np_defaultsOf (ps : List (String × PropT)) (h : ∀ kp, kp ∈ ps → defaultOK kp.2 = true) : NP (defaultsOf ps) :=
  np_defaultsOf' ps h

theorem np_allOk {α} {f : α → Out Unit} : ∀ (l : List α), (∀ a, a ∈ l → NP (f a)) → NP (allOk f l)
  | [], _ => by simp [allOk]
  | a :: rest, h => by
    simp only [allOk]
    exact np_bind (h a (List.mem_cons_self ..)) (fun _ => np_allOk rest (fun b hb => h b (List.mem_cons_of_mem _ hb)))

theorem np_constructObj {st : StructTy} {props : List (String × SProp)} (hwf : WFObj st props) :
    NP (constructObj st props) := by
  unfold constructObj
  refine np_bind (np_defaultsOf _ ?_) (fun _ => ?_)
  · intro kp hkp
    obtain ⟨kp', hkp', rfl⟩ := List.mem_map.mp hkp
    exact hwf.defaults kp' hkp'
  · have : props.all (fun kp => (fieldFor st kp.1).isSome) = true := by
      apply List.all_eq_true.mpr
      intro kp hkp
      obtain ⟨f, hf, _⟩ := propOK_field (hwf.prop kp hkp)
      simp [hf]
    simp [this]

theorem construct_np : ∀ (fuel : Nat) (t : STy), WFS t → NP (construct fuel t)
  | 0, _, _ => by simp [construct]
  | n + 1, t, hwf => by
    cases hwf with
    | leaf _ => simp [construct]
    | list h => simp only [construct]; exact construct_np n _ h
    | map _ h => simp only [construct]; exact construct_np n _ h
    | scope h => simp only [construct]; exact construct_np n _ h
    | obj hw hp =>
      simp only [construct]
      exact np_bind (np_allOk _ (fun kp hkp => construct_np n _ (hp kp hkp))) (fun _ => np_constructObj hw)
    | oneOf hm _ =>
      simp only [construct]
      exact np_allOk _ (fun m hmm => construct_np n _ (hm m hmm))

end SM
end Arca
