import ArcaModel.Lemmas.DescribeEval
/-
  `cborNorm (describe s) = describeR .cbor s`: one CBOR round trip of a description is the
  description in the CBOR representation (C09).
-/
namespace Arca

/-- normalise the values of a string-keyed field list -/
def cnF (m : List (String × V)) : List (String × V) := m.map fun kv => (kv.1, cborNorm kv.2)

theorem cnF_nil : cnF [] = [] := rfl
theorem cnF_cons (k : String) (v : V) (m : List (String × V)) : cnF ((k, v) :: m) = (k, cborNorm v) :: cnF m := rfl
theorem cnF_append (a b : List (String × V)) : cnF (a ++ b) = cnF a ++ cnF b := by simp [cnF]
theorem cnF_optF {α} (k : String) (f g : α → V) (o : Option α) (h : ∀ a, cborNorm (f a) = g a) :
    cnF (optF k f o) = optF k g o := by
  cases o <;> simp [optF, cnF, h]

theorem cborNormKV_kvsOf (m : List (String × V)) : cborNormKV (kvsOf m) = kvsOf (cnF m) := by
  induction m with
  | nil => rfl
  | cons p rest ih =>
    obtain ⟨k, v⟩ := p
    simp only [kvsOf, cnF, List.map_cons] at *
    simp [cborNormKV, cborNorm, ih]

theorem cn_obj (m : List (String × V)) : cborNorm (Rep.direct.obj m) = Rep.cbor.obj (cnF m) := by
  show cborNorm (.map .strAny (kvsOf m)) = .map .anyAny (kvsOf (cnF m))
  simp [cborNorm, cborNormKV_kvsOf]

theorem cn_typed (tid : String) (m : List (String × V)) :
    cborNorm (Rep.direct.typed tid m) = Rep.cbor.typed tid (cnF m) := by
  simp only [Rep.typed, cn_obj, cnF_append]
  rfl

theorem cn_kv (kt : KeyTy) (va : Bool) (kvs : List (V × V)) :
    cborNorm (Rep.direct.kv kt va kvs) = Rep.cbor.kv kt va (cborNormKV kvs) := by
  simp [Rep.kv, Rep.direct, Rep.cbor, cborNorm]

theorem cn_int (n : Int) : cborNorm (Rep.direct.int n) = Rep.cbor.int n := by
  simp only [Rep.int, Rep.direct, Rep.cbor, cborNorm]
  split <;> simp_all

theorem cn_str (s : String) : cborNorm (V.str s) = V.str s := by simp [cborNorm]
theorem cn_bool (b : Bool) : cborNorm (V.bool b) = V.bool b := by simp [cborNorm]
theorem cn_f64 (b : Nat) : cborNorm (f64 b) = f64 b := by simp [cborNorm, f64]

theorem cn_strList (ss : List String) : cborNorm (strList ss) = strList ss := by
  simp only [strList, cborNorm]
  congr 1
  induction ss with
  | nil => rfl
  | cons s rest ih => simp [cborNormL, cborNorm, ih]

theorem cn_disp (d : Disp) : cborNorm (descDisp .direct d) = descDisp .cbor d := by
  simp only [descDisp, cn_obj, cnF_append, cnF_optF _ V.str V.str _ cn_str]

theorem cn_unit (u : UnitNames) : cborNorm (descUnit .direct u) = descUnit .cbor u := by
  simp only [descUnit, cn_obj, cnF_cons, cnF_nil, cn_str]

theorem cn_mults : ∀ (ms : List (Int × UnitNames)), cborNormKV (descMults .direct ms) = descMults .cbor ms
  | [] => rfl
  | (m, n) :: rest => by simp [descMults, cborNormKV, cn_int, cn_unit, cn_mults rest]

theorem cn_units (u : Units) : cborNorm (descUnits .direct u) = descUnits .cbor u := by
  simp only [descUnits, cn_obj, cnF_cons, cnF_nil, cn_unit, cn_kv, cn_mults]

theorem cn_intVals : ∀ (vs : List (Int × Disp)), cborNormKV (descIntVals .direct vs) = descIntVals .cbor vs
  | [] => rfl
  | (n, d) :: rest => by simp [descIntVals, cborNormKV, cn_int, cn_disp, cn_intVals rest]

theorem cn_strVals : ∀ (vs : List (String × Disp)), cborNormKV (descStrVals .direct vs) = descStrVals .cbor vs
  | [] => rfl
  | (n, d) :: rest => by simp [descStrVals, cborNormKV, cn_str, cn_disp, cn_strVals rest]

theorem cn_key (k : Key) : cborNorm (k.rep .direct) = k.rep .cbor := by
  cases k <;> simp [Key.rep, cn_int, cn_str]

theorem cn_pat (s : String) : cborNorm (Rep.direct.pat s) = Rep.cbor.pat s := by
  simp [Rep.direct, Rep.cbor, cborNorm]

mutual
theorem cn_tyF : (t : DTy) → cnF (descTyF .direct t) = descTyF .cbor t
  | .int a b u => by
    simp only [descTyF, cnF_append, cnF_optF _ _ _ _ cn_int, cnF_optF _ _ _ _ cn_units]
  | .float a b u => by
    simp only [descTyF, cnF_append, cnF_optF _ _ _ _ cn_f64, cnF_optF _ _ _ _ cn_units]
  | .str a b p => by
    simp only [descTyF, cnF_append, cnF_optF _ _ _ _ cn_int, cnF_optF _ _ _ _ cn_pat]
  | .bool => rfl
  | .pattern => rfl
  | .any => rfl
  | .enumInt vs u => by
    simp only [descTyF, cnF_append, cnF_cons, cnF_nil, cn_kv, cn_intVals, cnF_optF _ _ _ _ cn_units]
  | .enumStr vs => by
    simp only [descTyF, cnF_cons, cnF_nil, cn_kv, cn_strVals]
  | .list item a b => by
    simp only [descTyF, cnF_append, cnF_cons, cnF_nil, cn_typed, cn_tyF item, cnF_optF _ _ _ _ cn_int]
  | .map k v a b => by
    simp only [descTyF, cnF_append, cnF_cons, cnF_nil, cn_typed, cn_tyF k, cn_tyF v, cnF_optF _ _ _ _ cn_int]
  | .obj o => by
    simp only [descTyF, cn_objF o]
  | .oneOf ik d inl ms => by
    simp only [descTyF, cnF_cons, cnF_nil, cn_kv, cn_members ms, cn_str, cn_bool]
  | .ref id ns d => by
    simp only [descTyF, cnF_append, cnF_cons, cnF_nil, cn_str, cnF_optF _ _ _ _ cn_disp]
  | .scope objs root => by
    simp only [descTyF, cnF_cons, cnF_nil, cn_kv, cn_objs objs, cn_str]
termination_by structural t => t
theorem cn_objF : (o : DObj) → cnF (descObjF .direct o) = descObjF .cbor o
  | .mk id unenf props => by
    simp only [descObjF, cnF_cons, cnF_nil, cn_kv, cn_props props, cn_str, cn_bool]
termination_by structural o => o
theorem cn_props : (ps : List (String × DProp)) → cborNormKV (descProps .direct ps) = descProps .cbor ps
  | [] => rfl
  | (n, p) :: rest => by
    simp only [descProps, cborNormKV, cn_str, cn_prop p, cn_props rest]
termination_by structural ps => ps
theorem cn_prop : (p : DProp) → cborNorm (descProp .direct p) = descProp .cbor p
  | .mk ty disp req rif rifn conf dflt ex dis reason => by
    simp only [descProp, cn_obj, cnF_append, cnF_cons, cnF_nil, cn_typed, cn_tyF ty, cn_bool, cn_strList,
      cnF_optF _ _ _ _ cn_disp, cnF_optF _ V.str V.str _ cn_str]
termination_by structural p => p
theorem cn_members : (ms : List (Key × DTy)) → cborNormKV (descMembers .direct ms) = descMembers .cbor ms
  | [] => rfl
  | (k, t) :: rest => by
    simp only [descMembers, cborNormKV, cn_key, cn_typed, cn_tyF t, cn_members rest]
termination_by structural ms => ms
theorem cn_objs : (objs : List (String × DObj)) → cborNormKV (descObjs .direct objs) = descObjs .cbor objs
  | [] => rfl
  | (n, o) :: rest => by
    simp only [descObjs, cborNormKV, cn_str, cn_obj, cn_objF o, cn_objs rest]
termination_by structural objs => objs
end

/-- one CBOR round trip of the description of a scope (or any type) is its description in the
    CBOR representation -/
theorem cborNorm_describe (s : DTy) : cborNorm (describe s) = describeR .cbor s := by
  simp only [describe, describeR, cn_obj, cn_tyF]

theorem cn_mapped {α} (f : Rep → α → V) (h : ∀ a, cborNorm (f .direct a) = f .cbor a) : ∀ (l : List (String × α)),
    cborNormKV (l.map fun (k, a) => (V.str k, f .direct a)) = l.map fun (k, a) => (V.str k, f .cbor a)
  | [] => rfl
  | (k, a) :: rest => by
    simp only [List.map_cons, cborNormKV, cn_str, h, cn_mapped f h rest]

theorem cn_signal (s : DSignal) : cborNorm (descSignal .direct s) = descSignal .cbor s := by
  simp only [descSignal, cn_obj, cnF_append, cnF_cons, cnF_nil, cn_str, cnF_optF _ _ _ _ cn_disp]
  rw [show cborNorm (describeR Rep.direct s.data) = describeR .cbor s.data from cborNorm_describe s.data]

theorem cn_output (o : DOutput) : cborNorm (descOutput .direct o) = descOutput .cbor o := by
  simp only [descOutput, cn_obj, cnF_append, cnF_cons, cnF_nil, cn_bool, cnF_optF _ _ _ _ cn_disp]
  rw [show cborNorm (describeR Rep.direct o.schema) = describeR .cbor o.schema from cborNorm_describe o.schema]

theorem cn_step (s : DStep) : cborNorm (descStep .direct s) = descStep .cbor s := by
  simp only [descStep, cn_obj, cnF_append, cnF_cons, cnF_nil, cn_str, cn_kv, cnF_optF _ _ _ _ cn_disp,
    cn_mapped descOutput cn_output, cn_mapped descSignal cn_signal]
  rw [show cborNorm (describeR Rep.direct s.input) = describeR .cbor s.input from cborNorm_describe s.input]

/-- the same for a whole plugin schema (the form it has inside the ATP hello message once decoded) -/
theorem cborNorm_describeSchema (p : DSchema) : cborNorm (describeSchema p) = describeSchemaR .cbor p := by
  simp only [describeSchema, describeSchemaR, cn_obj, cnF_cons, cnF_nil, cn_kv, cn_mapped descStep cn_step]

end Arca
