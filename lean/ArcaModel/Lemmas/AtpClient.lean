import ArcaModel.Model.AtpClient
/-
  Helper lemmas for the ATP client transition system: association lists (`setT`, `delT`, `hasKey`,
  `List.lookup`), the entry table (`failAll`, `setRes`, `anyPending`), frame lemmas per owner, and
  the dispatch combinator `stepG_cases`.
-/
namespace Arca.AtpClient

/-! ### association lists -/

section assoc
variable {β : Type}

/-- the keys of an association list -/
def keys (l : List (Nat × β)) : List Nat := l.map Prod.fst

@[simp] theorem keys_nil : keys ([] : List (Nat × β)) = [] := rfl
@[simp] theorem keys_cons (p : Nat × β) (l : List (Nat × β)) : keys (p :: l) = p.1 :: keys l := rfl
@[simp] theorem keys_append (l₁ l₂ : List (Nat × β)) : keys (l₁ ++ l₂) = keys l₁ ++ keys l₂ := by
  simp [keys]

theorem lookup_cons' (a k : Nat) (b : β) (l : List (Nat × β)) :
    List.lookup a ((k, b) :: l) = if a = k then some b else List.lookup a l := by
  rw [List.lookup_cons]
  by_cases h : a = k
  · subst h; simp
  · have : (a == k) = false := by simpa using h
    simp [this, h]

@[simp] theorem setT_nil (k : Nat) (v : β) : setT ([] : List (Nat × β)) k v = [] := rfl
@[simp] theorem delT_nil (k : Nat) : delT ([] : List (Nat × β)) k = [] := rfl
@[simp] theorem hasKey_nil (k : Nat) : hasKey ([] : List (Nat × β)) k = false := rfl

theorem setT_cons (a : Nat) (b : β) (l : List (Nat × β)) (k : Nat) (v : β) :
    setT ((a, b) :: l) k v = (if a = k then (a, v) else (a, b)) :: setT l k v := by
  simp only [setT, List.map_cons]
  by_cases h : a = k
  · subst h; simp
  · have : (a == k) = false := by simpa using h
    simp [this, h]

theorem delT_cons (a : Nat) (b : β) (l : List (Nat × β)) (k : Nat) :
    delT ((a, b) :: l) k = if a = k then delT l k else (a, b) :: delT l k := by
  simp only [delT, List.filter_cons]
  by_cases h : a = k
  · subst h; simp
  · simp [h]

theorem hasKey_cons (a : Nat) (b : β) (l : List (Nat × β)) (k : Nat) :
    hasKey ((a, b) :: l) k = (decide (a = k) || hasKey l k) := by
  simp only [hasKey, List.any_cons]
  by_cases h : a = k <;> simp [h]

theorem lookup_setT (l : List (Nat × β)) (k k' : Nat) (v : β) :
    (setT l k v).lookup k' = if k' = k then (l.lookup k').map (fun _ => v) else l.lookup k' := by
  induction l with
  | nil => simp
  | cons p ps ih =>
    obtain ⟨a, b⟩ := p
    rw [setT_cons]
    by_cases hak : a = k
    · subst hak
      simp only [if_true, lookup_cons', ih]
      by_cases h : k' = a <;> simp [h]
    · simp only [hak, if_false, lookup_cons', ih]
      by_cases h : k' = k
      · subst h
        have : ¬ k' = a := fun e => hak e.symm
        simp [this]
      · simp [h]

theorem map_const_eq_some {α γ : Type} {o : Option α} {v w : γ} :
    Option.map (fun _ => v) o = some w ↔ (∃ a, o = some a) ∧ v = w := by
  cases o <;> simp

theorem map_const_eq_none {α γ : Type} {o : Option α} {v : γ} :
    Option.map (fun _ => v) o = none ↔ o = none := by
  cases o <;> simp

theorem lookup_setT_self (l : List (Nat × β)) (k : Nat) (v : β) :
    (setT l k v).lookup k = (l.lookup k).map (fun _ => v) := by
  rw [lookup_setT]; simp

theorem lookup_setT_ne (l : List (Nat × β)) {k k' : Nat} (v : β) (h : k' ≠ k) :
    (setT l k v).lookup k' = l.lookup k' := by
  rw [lookup_setT]; simp [h]

theorem lookup_delT (l : List (Nat × β)) (k k' : Nat) :
    (delT l k).lookup k' = if k' = k then none else l.lookup k' := by
  induction l with
  | nil => simp
  | cons p ps ih =>
    obtain ⟨a, b⟩ := p
    rw [delT_cons]
    by_cases hak : a = k
    · subst hak
      simp only [if_true, lookup_cons', ih]
      by_cases h : k' = a <;> simp [h]
    · simp only [hak, if_false, lookup_cons', ih]
      by_cases h : k' = k
      · subst h
        have : ¬ k' = a := fun e => hak e.symm
        simp [this]
      · simp [h]

theorem lookup_delT_self (l : List (Nat × β)) (k : Nat) : (delT l k).lookup k = none := by
  rw [lookup_delT]; simp

theorem lookup_delT_ne (l : List (Nat × β)) {k k' : Nat} (h : k' ≠ k) :
    (delT l k).lookup k' = l.lookup k' := by
  rw [lookup_delT]; simp [h]

theorem hasKey_eq_true {l : List (Nat × β)} {k : Nat} : hasKey l k = true ↔ k ∈ keys l := by
  simp only [hasKey, keys, List.any_eq_true, List.mem_map, beq_iff_eq]

theorem hasKey_eq_false {l : List (Nat × β)} {k : Nat} : hasKey l k = false ↔ k ∉ keys l := by
  rw [← hasKey_eq_true]; simp

theorem lookup_isSome_iff {l : List (Nat × β)} {k : Nat} : (l.lookup k).isSome = true ↔ k ∈ keys l := by
  induction l with
  | nil => simp
  | cons p ps ih =>
    obtain ⟨a, b⟩ := p
    rw [lookup_cons']
    by_cases h : k = a
    · subst h; simp
    · simp [h, ih]

theorem lookup_eq_none_iff' {l : List (Nat × β)} {k : Nat} : l.lookup k = none ↔ k ∉ keys l := by
  rw [← lookup_isSome_iff]; cases l.lookup k <;> simp

theorem mem_keys_of_lookup {l : List (Nat × β)} {k : Nat} {v : β} (h : l.lookup k = some v) :
    k ∈ keys l := by
  rw [← lookup_isSome_iff, h]; rfl

theorem hasKey_of_lookup {l : List (Nat × β)} {k : Nat} {v : β} (h : l.lookup k = some v) :
    hasKey l k = true := hasKey_eq_true.2 (mem_keys_of_lookup h)

theorem lookup_none_of_hasKey_false {l : List (Nat × β)} {k : Nat} (h : hasKey l k = false) :
    l.lookup k = none := lookup_eq_none_iff'.2 (hasKey_eq_false.1 h)

theorem mem_of_lookup {l : List (Nat × β)} {k : Nat} {v : β} (h : l.lookup k = some v) :
    (k, v) ∈ l := by
  induction l with
  | nil => simp at h
  | cons p ps ih =>
    obtain ⟨a, b⟩ := p
    rw [lookup_cons'] at h
    by_cases hk : k = a
    · subst hk; simp at h; subst h; simp
    · simp [hk] at h; exact List.mem_cons_of_mem _ (ih h)

theorem mem_keys_of_mem {l : List (Nat × β)} {k : Nat} {v : β} (h : (k, v) ∈ l) : k ∈ keys l :=
  List.mem_map.2 ⟨(k, v), h, rfl⟩

theorem lookup_of_mem {l : List (Nat × β)} {k : Nat} {v : β} (hn : (keys l).Nodup) (h : (k, v) ∈ l) :
    l.lookup k = some v := by
  induction l with
  | nil => simp at h
  | cons p ps ih =>
    obtain ⟨a, b⟩ := p
    simp only [keys_cons, List.nodup_cons] at hn
    rw [lookup_cons']
    rcases List.mem_cons.1 h with h | h
    · cases h; simp
    · have hk : k ≠ a := fun e => hn.1 (e ▸ mem_keys_of_mem h)
      simp [hk, ih hn.2 h]

@[simp] theorem keys_setT (l : List (Nat × β)) (k : Nat) (v : β) : keys (setT l k v) = keys l := by
  induction l with
  | nil => rfl
  | cons p ps ih =>
    obtain ⟨a, b⟩ := p
    rw [setT_cons]
    by_cases h : a = k <;> simp [h, ih]

@[simp] theorem length_setT (l : List (Nat × β)) (k : Nat) (v : β) : (setT l k v).length = l.length := by
  simp [setT]

theorem setT_eq_nil {l : List (Nat × β)} {k : Nat} {v : β} : setT l k v = [] ↔ l = [] := by
  simp [setT]

theorem keys_delT (l : List (Nat × β)) (k : Nat) : keys (delT l k) = (keys l).filter (· != k) := by
  induction l with
  | nil => rfl
  | cons p ps ih =>
    obtain ⟨a, b⟩ := p
    rw [delT_cons]
    by_cases h : a = k <;> simp [h, ih]

theorem nodup_keys_delT {l : List (Nat × β)} (k : Nat) (h : (keys l).Nodup) : (keys (delT l k)).Nodup := by
  rw [keys_delT]; exact List.Nodup.sublist List.filter_sublist h

theorem nodup_keys_append_single {l : List (Nat × β)} {k : Nat} (v : β) (h : (keys l).Nodup)
    (hk : hasKey l k = false) : (keys (l ++ [(k, v)])).Nodup := by
  rw [keys_append, List.nodup_append]
  refine ⟨h, by simp, ?_⟩
  intro a ha b hb e
  simp at hb
  subst hb; subst e
  exact hasKey_eq_false.1 hk ha

theorem mem_keys_delT {l : List (Nat × β)} {k k' : Nat} : k' ∈ keys (delT l k) ↔ k' ∈ keys l ∧ k' ≠ k := by
  rw [keys_delT, List.mem_filter]; simp

theorem length_delT_le (l : List (Nat × β)) (k : Nat) : (delT l k).length ≤ l.length := by
  unfold delT; exact List.length_filter_le _ _

theorem lookup_append_single (l : List (Nat × β)) (k k' : Nat) (v : β) :
    (l ++ [(k, v)]).lookup k' = (l.lookup k').or (if k' = k then some v else none) := by
  rw [List.lookup_append, lookup_cons']; simp

theorem lookup_append_single_ne (l : List (Nat × β)) {k k' : Nat} (v : β) (h : k' ≠ k) :
    (l ++ [(k, v)]).lookup k' = l.lookup k' := by
  rw [lookup_append_single]; simp [h]

theorem lookup_append_single_fresh (l : List (Nat × β)) {k : Nat} (v : β) (h : hasKey l k = false) :
    (l ++ [(k, v)]).lookup k = some v := by
  rw [lookup_append_single, lookup_none_of_hasKey_false h]; simp

/-- a list of length at most one whose lookup succeeds is that singleton -/
theorem eq_singleton_of_lookup {l : List (Nat × β)} {k : Nat} {v : β} (hl : l.length ≤ 1)
    (h : l.lookup k = some v) : l = [(k, v)] := by
  match l, hl, h with
  | [(a, b)], _, h =>
    rw [lookup_cons'] at h
    by_cases hk : k = a
    · subst hk; simp at h; subst h; rfl
    · simp [hk] at h

theorem delT_singleton (k : Nat) (v : β) : delT [(k, v)] k = [] := by
  simp [delT]

theorem nodup_append_single {α : Type} {l : List α} {a : α} : (l ++ [a]).Nodup ↔ l.Nodup ∧ a ∉ l := by
  rw [List.nodup_append]
  constructor
  · rintro ⟨h1, _, h3⟩
    exact ⟨h1, fun ha => h3 a ha a (by simp) rfl⟩
  · rintro ⟨h1, h2⟩
    refine ⟨h1, by simp, ?_⟩
    intro x hx b hb e
    simp at hb; subst hb; subst e; exact h2 hx

end assoc

theorem fresh_iff {s : State} {t : Tid} :
    fresh s t = true ↔ t ∉ keys s.loops ∧ t ∉ keys s.writers ∧ t ∉ keys s.callers := by
  simp [fresh, hasKey_eq_false, and_assoc]


/-! ### the entry table -/

theorem anyPending_failAll (es : List (Run × Entry)) : anyPending (failAll es) = false := by
  induction es with
  | nil => rfl
  | cons p ps ih => simp_all [anyPending, failAll, Entry.isPending]

theorem mem_failAll {es : List (Run × Entry)} {r : Run} {e : Entry} (h : (r, e) ∈ failAll es) :
    e = .result .err := by
  simp only [failAll, List.mem_map] at h
  obtain ⟨p, _, hp⟩ := h
  cases hp; rfl

@[simp] theorem keys_failAll (es : List (Run × Entry)) : keys (failAll es) = keys es := by
  simp [keys, failAll, Function.comp_def]

@[simp] theorem keys_setRes (es : List (Run × Entry)) (r : Run) (v : Res) : keys (setRes es r v) = keys es := by
  simp [setRes]

theorem lookup_failAll (es : List (Run × Entry)) (r : Run) :
    (failAll es).lookup r = (es.lookup r).map (fun _ => .result .err) := by
  induction es with
  | nil => rfl
  | cons p ps ih =>
    obtain ⟨a, b⟩ := p
    have : failAll ((a, b) :: ps) = (a, .result .err) :: failAll ps := rfl
    rw [this, lookup_cons', lookup_cons', ih]
    by_cases h : r = a <;> simp [h]

theorem anyPending_eq_true {es : List (Run × Entry)} :
    anyPending es = true ↔ ∃ r, (r, Entry.pending) ∈ es := by
  simp only [anyPending, List.any_eq_true]
  constructor
  · rintro ⟨⟨r, e⟩, hp, he⟩
    cases e with
    | pending => exact ⟨r, hp⟩
    | result _ => simp [Entry.isPending] at he
  · rintro ⟨r, hr⟩; exact ⟨(r, .pending), hr, rfl⟩

theorem anyPending_of_lookup {es : List (Run × Entry)} {r : Run} (h : es.lookup r = some .pending) :
    anyPending es = true := anyPending_eq_true.2 ⟨r, mem_of_lookup h⟩

theorem anyPending_setRes {es : List (Run × Entry)} {r : Run} {v : Res}
    (h : anyPending (setRes es r v) = true) : anyPending es = true := by
  induction es with
  | nil => simp [setRes] at h; exact h
  | cons p ps ih =>
    obtain ⟨a, b⟩ := p
    simp only [setRes] at h ih
    rw [setT_cons] at h
    simp only [anyPending, List.any_cons, Bool.or_eq_true] at h ih ⊢
    rcases h with h | h
    · by_cases ha : a = r
      · simp [ha, Entry.isPending] at h
      · simp [ha] at h; exact Or.inl h
    · exact Or.inr (ih h)

theorem anyPending_delT {es : List (Run × Entry)} {r : Run}
    (h : anyPending (delT es r) = true) : anyPending es = true := by
  rw [anyPending_eq_true] at h ⊢
  obtain ⟨r', hr⟩ := h
  exact ⟨r', (List.mem_filter.1 hr).1⟩

theorem anyPending_append_pending (es : List (Run × Entry)) (r : Run) :
    anyPending (es ++ [(r, .pending)]) = true := by
  simp [anyPending, Entry.isPending]

theorem anyPending_false_nil : anyPending [] = false := rfl

/-! ### classification of labels -/

/-- a terminal message for a run the server may owe: work-done, or a step-fatal (not
    server-fatal) error for a non-blank run -/
def Msg.isOwedTerminal : Msg → Bool
  | .workDone _ _ => true
  | .error r true false => r != 0
  | _ => false

/-- free inputs of the application (`call`, `rsCall`, `clCall`, signals handed to a writer) and of the
    peer (arbitrary stream items, unsolicited server messages) -/
def Label.isInput : Label → Bool
  | .call .. | .rsCall | .clCall | .wRecv .. | .envPut _ | .envLate _ => true
  | .sSend m => !m.isOwedTerminal
  | _ => false

/-- steps the system itself is obliged to take eventually: the read loop's own steps, the server
    reading its input, answering an accepted work-start, and ending its output after client-done -/
def Label.obliged : Label → Bool
  | .lRead _ | .lDeliver _ | .lCheck _ => true
  | .sRecv | .sEnd => true
  | .sSend (.workDone _ (some _)) => true
  | _ => false

/-! ### dispatch -/

theorem stepG_cases {P : Prop} {p : Bool} {s s' : State} {l : Label} (h : stepG p s l = some s')
    (hrs : l.owner = .rs → stepRs s l = some s' → P)
    (hca : l.owner = .caller → stepCaller s l = some s' → P)
    (hlo : l.owner = .loop → stepLoop p s l = some s' → P)
    (hwr : l.owner = .writer → stepWriter s l = some s' → P)
    (hcl : l.owner = .closer → stepCloser s l = some s' → P)
    (hen : l.owner = .env → stepEnv s l = some s' → P) : P := by
  unfold stepG at h
  cases ho : l.owner <;> rw [ho] at h <;> simp only at h
  · exact hrs ho h
  · exact hca ho h
  · exact hlo ho h
  · exact hwr ho h
  · exact hcl ho h
  · exact hen ho h

theorem Step.cases {P : Prop} {s s' : State} {l : Label} (h : Step s l s')
    (hrs : l.owner = .rs → stepRs s l = some s' → P)
    (hca : l.owner = .caller → stepCaller s l = some s' → P)
    (hlo : l.owner = .loop → stepLoop false s l = some s' → P)
    (hwr : l.owner = .writer → stepWriter s l = some s' → P)
    (hcl : l.owner = .closer → stepCloser s l = some s' → P)
    (hen : l.owner = .env → stepEnv s l = some s' → P) : P :=
  stepG_cases (p := false) h hrs hca hlo hwr hcl hen

/-- repeatedly split the step hypothesis, discard the `none = some _` branches and substitute the
    successor state -/
syntax "step_split " ident : tactic
macro_rules
  | `(tactic| step_split $h:ident) =>
    `(tactic| repeat' (first | contradiction | (injection $h:ident with $h:ident <;> subst $h:ident) | split at $h:ident))

theorem run_nil (s : State) : run s [] = some s := rfl

theorem run_cons {s s1 s' : State} {l : Label} {ls : List Label} (h : step? s l = some s1)
    (hr : run s1 ls = some s') : run s (l :: ls) = some s' := by
  simp only [run, runG] at hr ⊢
  simp only [step?] at h
  rw [h]; exact hr

theorem delT_setT {β : Type} (l : List (Nat × β)) (k : Nat) (v : β) : delT (setT l k v) k = delT l k := by
  induction l with
  | nil => rfl
  | cons p ps ih =>
    obtain ⟨a, b⟩ := p
    rw [setT_cons]
    by_cases h : a = k
    · subst h; simp only [if_true, delT_cons, ih]
    · simp only [h, if_false, delT_cons, ih]

/-! ### concrete runs (used for the non-vacuity examples) -/

/-- run a list of labels, checking that every step is one a healthy connection can produce -/
def runH : State → List Label → Option State
  | s, [] => some s
  | s, l :: ls =>
    if healthy s l = true then
      match step? s l with
      | some s' => runH s' ls
      | none => none
    else none

/-- the state a trace leads to from `init` (`init` itself when the trace is not a run) -/
def stateAt (ls : List Label) : State := (run init ls).getD init

/-- the same for healthy runs -/
def stateAtH (ls : List Label) : State := (runH init ls).getD init

theorem reachable_stateAt (ls : List Label) : Reachable (stateAt ls) := by
  unfold stateAt
  cases h : run init ls with
  | none => exact .init
  | some s => exact run_reachable .init h

theorem runH_reachableH {s s' : State} {ls : List Label} (h : ReachableH s)
    (hr : runH s ls = some s') : ReachableH s' := by
  induction ls generalizing s with
  | nil => simp only [runH] at hr; cases hr; exact h
  | cons l ls ih =>
    simp only [runH] at hr
    split at hr
    · rename_i hh
      cases hst : step? s l with
      | none => simp [hst] at hr
      | some s1 =>
        simp only [hst] at hr
        exact ih (.step h hst hh) hr
    · cases hr

theorem reachableH_stateAtH (ls : List Label) : ReachableH (stateAtH ls) := by
  unfold stateAtH
  cases h : runH init ls with
  | none => exact .init
  | some s => exact runH_reachableH .init h

/-! ### frame lemmas: the fields an owner never writes -/

theorem frame_stepRs {s s' : State} {l : Label} (h : stepRs s l = some s') :
    s'.entries = s.entries ∧ s'.sigs = s.sigs ∧ s'.flag = s.flag ∧ s'.done = s.done ∧
    s'.cancelled = s.cancelled ∧ s'.loops = s.loops ∧ s'.callers = s.callers ∧
    s'.writers = s.writers ∧ s'.closer = s.closer ∧ s'.srv = s.srv ∧ s'.consumed = s.consumed ∧
    s'.retd = s.retd := by
  cases l <;> simp only [stepRs] at h <;> step_split h <;> simp

theorem frame_stepLoop {p : Bool} {s s' : State} {l : Label} (h : stepLoop p s l = some s') :
    s'.ver = s.ver ∧ s'.done = s.done ∧ s'.cancelled = s.cancelled ∧ s'.callers = s.callers ∧
    s'.writers = s.writers ∧ s'.closer = s.closer ∧ s'.rs = s.rs ∧ s'.c2s = s.c2s ∧
    s'.srv = s.srv ∧ s'.retd = s.retd := by
  cases p <;> cases l <;> simp only [stepLoop, Bool.false_eq_true, if_false, if_true] at h <;>
    step_split h <;> simp

theorem frame_stepCaller {s s' : State} {l : Label} (h : stepCaller s l = some s') :
    s'.ver = s.ver ∧ s'.done = s.done ∧ s'.cancelled = s.cancelled ∧ s'.closer = s.closer ∧
    s'.rs = s.rs ∧ s'.srv = s.srv := by
  cases l <;> simp only [stepCaller] at h <;> step_split h <;> simp

theorem frame_stepWriter {s s' : State} {l : Label} (h : stepWriter s l = some s') :
    s'.ver = s.ver ∧ s'.entries = s.entries ∧ s'.sigs = s.sigs ∧ s'.flag = s.flag ∧
    s'.done = s.done ∧ s'.cancelled = s.cancelled ∧ s'.loops = s.loops ∧ s'.callers = s.callers ∧
    s'.closer = s.closer ∧ s'.rs = s.rs ∧ s'.s2c = s.s2c ∧ s'.srv = s.srv ∧
    s'.consumed = s.consumed ∧ s'.retd = s.retd := by
  cases l <;> simp only [stepWriter] at h <;> step_split h <;> simp

theorem frame_stepCloser {s s' : State} {l : Label} (h : stepCloser s l = some s') :
    s'.ver = s.ver ∧ s'.entries = s.entries ∧ s'.sigs = s.sigs ∧ s'.flag = s.flag ∧
    s'.loops = s.loops ∧ s'.callers = s.callers ∧ s'.writers = s.writers ∧ s'.rs = s.rs ∧
    s'.s2c = s.s2c ∧ s'.srv = s.srv ∧ s'.consumed = s.consumed ∧ s'.retd = s.retd := by
  cases l <;> simp only [stepCloser] at h <;> step_split h <;> simp

theorem frame_stepEnv {s s' : State} {l : Label} (h : stepEnv s l = some s') :
    s'.ver = s.ver ∧ s'.entries = s.entries ∧ s'.sigs = s.sigs ∧ s'.flag = s.flag ∧
    s'.done = s.done ∧ s'.cancelled = s.cancelled ∧ s'.loops = s.loops ∧ s'.callers = s.callers ∧
    s'.writers = s.writers ∧ s'.closer = s.closer ∧ s'.rs = s.rs ∧ s'.consumed = s.consumed ∧
    s'.retd = s.retd := by
  cases l <;> simp only [stepEnv] at h <;> step_split h <;> simp

end Arca.AtpClient
