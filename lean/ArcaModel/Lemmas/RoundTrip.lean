import ArcaModel.Props.C03
/-
  Round trip lemmas (C01): per schema kind, if Unserialize of the level below round-trips then so
  does this level.
-/
namespace Arca
open Out

/-- the round-trip property of the recursive call at sub-schema `t`:
    whatever Unserialize accepts validates, serializes, and unserializes back to itself -/
def RT (rec : Rec) (env : Env) (t : Ty) : Prop :=
  ∀ v r, rec .U env t v = .ok r →
    rec .V env t r = done ∧ ∃ w, rec .S env t r = .ok w ∧ rec .U env t w = .ok r

/-! ### integers produced by the mappers are int64 values -/

theorem wrapInt64_of_inInt64 {n : Int} (hn : inInt64 n = true) : wrapInt64 n = n := by
  unfold inInt64 minInt64 maxInt64 at hn
  unfold wrapInt64
  simp at hn
  have h1 : (2:Int)^64 = 18446744073709551616 := by decide
  have h2 : (2:Int)^63 = 9223372036854775808 := by decide
  simp only [h1, h2] at *
  split <;> omega

theorem accInt_inInt64 {acc i m a : Int} (h : accInt acc i m = some a) : inInt64 a = true := by
  unfold accInt at h
  simp only at h
  split at h
  · simp at h
  · split at h
    · simp at h
    · rename_i hs
      simp at h; subst h
      simpa using hs

theorem parseInt10_inInt64 {s : String} {n : Int} (h : parseInt10 s = some n) : inInt64 n = true := by
  unfold parseInt10 at h
  simp only at h
  split at h
  · split at h
    · rename_i hr
      simp at h; subst h; exact hr
    · simp at h
  · simp at h

theorem parseIntGo_inInt64 : ∀ (caps : List String) (ms : List Int) (acc a : Int),
    Units.parseInt.go caps ms acc = some a → inInt64 acc = true → inInt64 a = true
  | [], _, acc, a, h, hacc => by simp [Units.parseInt.go] at h; subst h; exact hacc
  | _ :: _, [], acc, a, h, hacc => by simp [Units.parseInt.go] at h; subst h; exact hacc
  | c :: cs, m :: ms, acc, a, h, hacc => by
    simp only [Units.parseInt.go] at h
    split at h
    · exact parseIntGo_inInt64 cs ms acc a h hacc
    · split at h
      · simp at h
      · split at h
        · simp at h
        · rename_i a' ha'
          exact parseIntGo_inInt64 cs ms a' a h (accInt_inInt64 ha')

theorem unitsParseInt_inInt64 {u : Units} {s : String} {n : Int} (h : u.parseInt s = some n) : inInt64 n = true := by
  unfold Units.parseInt at h
  simp only at h
  split at h
  · simp at h
  · split at h
    · simp at h
    · rename_i caps b _
      split at h
      · simp at h
      · rename_i acc hgo
        have hacc : inInt64 acc = true := parseIntGo_inInt64 _ _ 0 acc hgo (by decide)
        split at h
        · simp at h; subst h; exact hacc
        · split at h
          · simp at h
          · split at h
            · simp at h
            · exact accInt_inInt64 h

theorem toInt64Exact_inInt64 {b : Nat} {n : Int} (h : F64.toInt64Exact b = some n) : inInt64 n = true := by
  unfold F64.toInt64Exact at h
  (repeat' split at h) <;> (try simp at h) <;>
    first | (obtain ⟨h1, h2⟩ := h; rw [← h2]; exact h1) | (obtain ⟨_, h1, h2⟩ := h; rw [← h2]; exact h1)

theorem intDenotes_inInt64 {u : Option Units} {v : V} {n : Int} (h : IntDenotes u v n) : inInt64 n = true := by
  cases h with
  | int hn => exact hn
  | float hf => exact toInt64Exact_inInt64 hf
  | strPlain _ hp => exact parseInt10_inInt64 hp
  | strUnits _ hp => exact unitsParseInt_inInt64 hp
  | bool => rename_i b; cases b <;> decide

/-! ### scalars -/

theorem rt_int (x : Ext) (n : Nat) (env : Env) (min max : Option Int) (u : Option Units) :
    RT (run x (n + 1)) env (.int min max u) := by
  intro v r h
  obtain ⟨k, hd, hb, hr⟩ := (C02_int_unser_iff x n env min max u v r).mp h
  subst hr
  have hk := intDenotes_inInt64 hd
  obtain ⟨hV, hS⟩ := C02_int_native x n env min max u k hk
  refine ⟨hV.mpr hb, .int .int64 k, (hS _).mpr ⟨hb, rfl⟩, ?_⟩
  exact (C02_int_unser_iff x n env min max u _ _).mpr ⟨k, .int hk, hb, rfl⟩

theorem rt_float (x : Ext) (n : Nat) (env : Env) (min max : Option Nat) (u : Option Units) :
    RT (run x (n + 1)) env (.float min max u) := by
  intro v r h
  obtain ⟨b, hd, hb, hr⟩ := (C02_float_unser_iff x n env min max u v r).mp h
  subst hr
  obtain ⟨hV, hS⟩ := C02_float_native x n env min max u b
  refine ⟨hV.mpr hb, .float .f64 b, (hS _).mpr ⟨hb, rfl⟩, ?_⟩
  exact (C02_float_unser_iff x n env min max u _ _).mpr ⟨b, .float, hb, rfl⟩

theorem rt_str (x : Ext) (n : Nat) (env : Env) (min max : Option Int) (pat : Option String) :
    RT (run x (n + 1)) env (.str min max pat) := by
  intro v r h
  obtain ⟨s, hd, hb, hr⟩ := (C02_str_unser_iff x n env min max pat v r).mp h
  subst hr
  obtain ⟨hV, hS⟩ := C02_str_native x n env min max pat s
  refine ⟨hV.mpr hb, .str s, (hS _).mpr ⟨hb, rfl⟩, ?_⟩
  exact (C02_str_unser_iff x n env min max pat _ _).mpr ⟨s, .str, hb, rfl⟩

theorem rt_bool (x : Ext) (n : Nat) (env : Env) : RT (run x (n + 1)) env .bool := by
  intro v r h
  obtain ⟨b, _, hr⟩ := (C02_bool_unser_iff x n env v r).mp h
  subst hr
  refine ⟨by simp [run, runBool, asBool, V.under, Out.bind], .bool b, by simp [run, runBool, asBool, V.under, Out.bind], ?_⟩
  exact (C02_bool_unser_iff x n env _ _).mpr ⟨b, .bool, rfl⟩

theorem rt_pattern (x : Ext) (n : Nat) (env : Env) : RT (run x (n + 1)) env .pattern := by
  intro v r h
  obtain ⟨s, _, hc, hr⟩ := (C02_pattern_unser_iff x n env v r).mp h
  subst hr
  refine ⟨by simp [run, runPattern], .str s, by simp [run, runPattern], ?_⟩
  exact (C02_pattern_unser_iff x n env _ _).mpr ⟨s, .str, hc, rfl⟩

theorem rt_enumInt (x : Ext) (n : Nat) (env : Env) (vals : List Int) (u : Option Units) :
    RT (run x (n + 1)) env (.enumInt vals u) := by
  intro v r h
  obtain ⟨k, hd, hm, hr⟩ := (C02_enumInt_unser_iff x n env vals u v r).mp h
  subst hr
  have hk := intDenotes_inInt64 hd
  have hw := wrapInt64_of_inInt64 hk
  refine ⟨by simp [run, runEnumInt, asInt, V.under, hw, Out.bind, hm], .int .int64 k,
    by simp [run, runEnumInt, asInt, V.under, hw, Out.bind, hm], ?_⟩
  exact (C02_enumInt_unser_iff x n env vals u _ _).mpr ⟨k, .int hk, hm, rfl⟩

theorem rt_enumStr (x : Ext) (n : Nat) (env : Env) (vals : List String) :
    RT (run x (n + 1)) env (.enumStr vals) := by
  intro v r h
  obtain ⟨s, hd, hm, hr⟩ := (C02_enumStr_unser_iff x n env vals v r).mp h
  subst hr
  refine ⟨by simp [run, runEnumStr, asString, V.under, Out.bind, hm], .str s,
    by simp [run, runEnumStr, asString, V.under, Out.bind, hm], ?_⟩
  exact (C02_enumStr_unser_iff x n env vals _ _).mpr ⟨s, .str, hm, rfl⟩

end Arca

namespace Arca
open Out

/-! ### the any schema: conversion is idempotent -/

theorem forall2_idem {g : V → Out V} (hidem : ∀ a b, g a = .ok b → g b = .ok b) {xs ys : List V}
    (h : Forall2 (fun e y => g e = .ok y) xs ys) : Forall2 (fun e y => g e = .ok y) ys ys := by
  induction h with
  | nil => exact .nil
  | cons hab _ ih => exact .cons (hidem _ _ hab) ih

theorem allIdx_any_iff {g : V → Out V} : ∀ {n : Nat} {xs ys : List V},
    AllIdx (fun i e => (g e).addSeg ("[" ++ toString i ++ "]")) n xs ys ↔ Forall2 (fun e y => g e = .ok y) xs ys := by
  intro n xs
  induction xs generalizing n with
  | nil =>
    intro ys
    constructor
    · intro h; cases h; exact .nil
    · intro h; cases h; exact .nil
  | cons x xs ih =>
    intro ys
    constructor
    · intro h
      cases h with
      | cons hx hr => exact .cons (addSeg_eq_ok.mp hx) (ih.mp hr)
    · intro h
      cases h with
      | cons hx hr => exact .cons (addSeg_eq_ok.mpr hx) (ih.mpr hr)

/-- the per-entry function of the any-schema's map conversion -/
def anyEntry (n : Nat) (k x : V) : Out (V × V) :=
  ((anyConvert n k).addSeg ("{" ++ fmtKey k ++ "}")).bind fun k' =>
    ((anyConvert n x).addSeg ("[" ++ fmtKey k' ++ "]")).bind fun x' => .ok (k', x')

theorem allKV_any_idem {n : Nat} (ih : ∀ v r, anyConvert n v = .ok r → anyConvert n r = .ok r)
    {kvs kvs' : List (V × V)} (hall : AllKV (anyEntry n) kvs kvs') : AllKV (anyEntry n) kvs' kvs' := by
  induction hall with
  | nil => exact .nil
  | @cons k v kv rest rest' hf _ ih' =>
    unfold anyEntry at hf
    obtain ⟨k', hk, h3⟩ := bind_eq_ok hf
    obtain ⟨x', hx, h4⟩ := bind_eq_ok h3
    simp at h4; subst h4
    refine .cons ?_ ih'
    simp [anyEntry, addSeg_eq_ok.mpr (ih _ _ (addSeg_eq_ok.mp hk)), addSeg_eq_ok.mpr (ih _ _ (addSeg_eq_ok.mp hx)), Out.bind]

theorem anyConvert_idem : ∀ (n : Nat) (v r : V), anyConvert n v = .ok r → anyConvert n r = .ok r
  | 0, _, _, h => by simp [anyConvert] at h
  | n + 1, v, r, h => by
    have ih := anyConvert_idem n
    unfold anyConvert at h
    split at h
    · -- integers
      split at h
      · simp at h; subst h; simp [anyConvert, V.under]
      · split at h
        · simp [plain] at h
        · obtain ⟨m, _, h2⟩ := bind_eq_ok h
          simp at h2; subst h2; simp [anyConvert, V.under]
    · -- floats
      (repeat' split at h) <;> simp [plain] at h <;> (subst h; simp [anyConvert, V.under])
    · simp at h; subst h; simp [anyConvert, V.under]
    · simp at h; subst h; simp [anyConvert, V.under]
    · -- slices
      obtain ⟨ys, h1, h2⟩ := bind_eq_ok h
      simp at h2; subst h2
      have hall := allIdx_any_iff.mp (forIdx_ok_iff.mp h1)
      have hys := forIdx_ok_iff.mpr (allIdx_any_iff (n := 0) |>.mpr (forall2_idem ih hall))
      simp only [anyConvert, V.under]
      rw [hys]; rfl
    · -- byte slices
      obtain ⟨ys, h1, h2⟩ := bind_eq_ok h
      simp at h2; subst h2
      have hall := allIdx_any_iff.mp (forIdx_ok_iff.mp h1)
      have hys := forIdx_ok_iff.mpr (allIdx_any_iff (n := 0) |>.mpr (forall2_idem ih hall))
      simp only [anyConvert, V.under]
      rw [hys]; rfl
    · -- maps
      obtain ⟨kvs', h1, h2⟩ := bind_eq_ok h
      split at h2
      · simp [cerr] at h2
      · rename_i hd
        simp at h2; subst h2
        have hall : AllKV (anyEntry n) _ kvs' := forKV_ok_iff.mp h1
        have hself := allKV_any_idem ih hall
        have hf := forKV_ok_iff.mpr hself
        unfold anyEntry at hf
        simp only [anyConvert, V.under]
        rw [hf]
        simp [Out.bind, hd]
    · simp [cerr] at h

theorem rt_any (x : Ext) (n : Nat) (env : Env) : RT (run x (n + 1)) env .any := by
  intro v r h
  simp only [run, runAny] at h ⊢
  have hr := anyConvert_idem _ _ _ h
  exact ⟨by simp [hr, Out.bind], r, hr, hr⟩

end Arca

namespace Arca
open Out

/-! ### lists -/

theorem forall2_rt_split {rec : Rec} {env : Env} {item : Ty} (hi : RT rec env item) {xs ys : List V}
    (h : Forall2 (fun e y => rec .U env item e = .ok y) xs ys) :
    Forall2 (fun y u => rec .V env item y = .ok u) ys (ys.map fun _ => unitV) ∧
    ∃ ws, Forall2 (fun y w => rec .S env item y = .ok w) ys ws ∧ Forall2 (fun w y => rec .U env item w = .ok y) ws ys := by
  induction h with
  | nil => exact ⟨.nil, [], .nil, .nil⟩
  | cons hab _ ih =>
    obtain ⟨hv, w, hs, hu⟩ := hi _ _ hab
    obtain ⟨ihv, ws, ihs, ihu⟩ := ih
    exact ⟨.cons hv ihv, w :: ws, .cons hs ihs, .cons hu ihu⟩

theorem rt_list (x : Ext) (n : Nat) (env : Env) (item : Ty) (mn mx : Option Int) (hi : RT (run x n) env item) :
    RT (run x (n + 1)) env (.list item mn mx) := by
  intro v r h
  obtain ⟨xs, ys, _, hl, hall, hr⟩ := (C02_list_unser_iff x n env item mn mx v r).mp h
  subst hr
  obtain ⟨hv, ws, hs, hu⟩ := forall2_rt_split hi hall
  have hlen : ys.length = xs.length := hall.length_eq.symm
  have hl' : LenOK mn mx ys.length := by rw [hlen]; exact hl
  have hlw : LenOK mn mx ws.length := by rw [← hs.length_eq]; exact hl'
  have hV := forIdx_ok_iff.mpr (allIdx_addSeg_iff (n := 0) |>.mpr hv)
  have hS := forIdx_ok_iff.mpr (allIdx_addSeg_iff (n := 0) |>.mpr hs)
  refine ⟨?_, .list ws, ?_, ?_⟩
  · simp only [run, runList, V.sliceElems?, (checkLen_ok_iff _ _ _).mpr hl', Out.bind, hV]
  · simp only [run, runList, V.sliceElems?, (checkLen_ok_iff _ _ _).mpr hl', Out.bind, hV, hS]
  · exact (C02_list_unser_iff x n env item mn mx _ _).mpr ⟨ws, ys, rfl, hlw, hu, rfl⟩

/-! ### maps -/

theorem forall2_rt_split_kv {rec : Rec} {env : Env} {kt vt : Ty} (hk : RT rec env kt) (hv : RT rec env vt)
    {kvs es : List (V × V)}
    (h : Forall2 (fun (kv kv' : V × V) => rec .U env kt kv.1 = .ok kv'.1 ∧ rec .U env vt kv.2 = .ok kv'.2) kvs es) :
    Forall2 (fun (kv kv' : V × V) => rec .V env kt kv.1 = .ok kv'.1 ∧ rec .V env vt kv.2 = .ok kv'.2) es (es.map fun (_ : V × V) => ((unitV, unitV) : V × V)) ∧
    ∃ ws, Forall2 (fun (kv kv' : V × V) => rec .S env kt kv.1 = .ok kv'.1 ∧ rec .S env vt kv.2 = .ok kv'.2) es ws ∧
      Forall2 (fun (kv kv' : V × V) => rec .U env kt kv.1 = .ok kv'.1 ∧ rec .U env vt kv.2 = .ok kv'.2) ws es := by
  induction h with
  | nil => exact ⟨.nil, [], .nil, .nil⟩
  | cons hab _ ih =>
    obtain ⟨hkv, wk, hks, hku⟩ := hk _ _ hab.1
    obtain ⟨hvv, wv, hvs, hvu⟩ := hv _ _ hab.2
    obtain ⟨ihv, ws, ihs, ihu⟩ := ih
    exact ⟨.cons ⟨hkv, hvv⟩ ihv, (wk, wv) :: ws, .cons ⟨hks, hvs⟩ ihs, .cons ⟨hku, hvu⟩ ihu⟩

theorem rt_map (x : Ext) (n : Nat) (env : Env) (kt vt : Ty) (mn mx : Option Int)
    (hk : RT (run x n) env kt) (hv : RT (run x n) env vt) :
    RT (run x (n + 1)) env (.map kt vt mn mx) := by
  intro v r h
  obtain ⟨sh, kvs, es, _, hl, hall, hd, hr⟩ := (C02_map_unser_iff x n env kt vt mn mx v r).mp h
  subst hr
  obtain ⟨hvv, ws, hs, hu⟩ := forall2_rt_split_kv hk hv hall
  have hlen : es.length = kvs.length := hall.length_eq.symm
  have hl' : LenOK mn mx es.length := by rw [hlen]; exact hl
  have hlw : LenOK mn mx ws.length := by rw [← hs.length_eq]; exact hl'
  have hV := forKV_ok_iff.mpr (allKV_entry_iff.mpr hvv)
  have hS := forKV_ok_iff.mpr (allKV_entry_iff.mpr hs)
  refine ⟨?_, .map .anyAny ws, ?_, ?_⟩
  · simp only [run, runMap, V.mapEntries?, (checkLen_ok_iff _ _ _).mpr hl', Out.bind, hV]
  · simp only [run, runMap, V.mapEntries?, (checkLen_ok_iff _ _ _).mpr hl', Out.bind, hV, hS]
  · exact (C02_map_unser_iff x n env kt vt mn mx _ _).mpr ⟨.anyAny, ws, es, rfl, hlw, hu, hd, rfl⟩

end Arca

namespace Arca
open Out

/-! ### objects -/

/-- every entry of an unserialized property map is the Unserialize result of its (declared,
    enabled) property's type -/
def EntriesOK (rec : Rec) (env : Env) (props : List (String × PropT)) (m : List (String × V)) : Prop :=
  ∀ kv, kv ∈ m → ∃ p d, lookupS kv.1 props = some p ∧ p.disabled = false ∧ rec .U env p.ty d = .ok kv.2

theorem entriesOK_of_allSV {rec : Rec} {env : Env} {props : List (String × PropT)} {m m' : List (String × V)}
    (h : AllSV (objEntryU rec env props) m m') : EntriesOK rec env props m' := by
  induction h with
  | nil => intro kv hkv; simp at hkv
  | @cons k v v' rest rest' hf _ ih =>
    intro kv hkv
    rcases List.mem_cons.mp hkv with heq | hkv'
    · subst heq
      unfold objEntryU at hf
      split at hf
      · simp [cerr] at hf
      · rename_i p hp
        split at hf
        · simp [cerrAt] at hf
        · rename_i hd
          exact ⟨p, v, hp, by simpa using hd, addSeg_eq_ok.mp hf⟩
    · exact ih kv hkv'

theorem allSV_objEntryU_declared {rec : Rec} {env : Env} {props : List (String × PropT)} {m m' : List (String × V)}
    (h : AllSV (objEntryU rec env props) m m') : ∀ kv, kv ∈ m → hasKey kv.1 props = true := by
  induction h with
  | nil => intro kv hkv; simp at hkv
  | @cons k v v' rest rest' hf _ ih =>
    intro kv hkv
    rcases List.mem_cons.mp hkv with heq | hkv'
    · subst heq
      unfold objEntryU at hf
      split at hf
      · simp [cerr] at hf
      · rename_i p hp
        simp [hasKey, hp]
    · exact ih kv hkv'

theorem entries_rt {rec : Rec} {env : Env} {props : List (String × PropT)}
    (hrt : ∀ np, np ∈ props → RT rec env np.2.ty) :
    ∀ {m' : List (String × V)}, EntriesOK rec env props m' →
      AllSV (objEntry rec .V env props) m' (m'.map fun kv => (kv.1, unitV)) ∧
      ∃ m'', AllSV (objEntry rec .S env props) m' m'' ∧ AllSV (objEntryU rec env props) m'' m' := by
  intro m'
  induction m' with
  | nil => intro _; exact ⟨.nil, [], .nil, .nil⟩
  | cons kv rest ih =>
    intro hok
    obtain ⟨k, e⟩ := kv
    obtain ⟨p, d, hp, hdis, hu⟩ := hok (k, e) (by simp)
    obtain ⟨hv, w, hs, hu'⟩ := hrt (k, p) (lookupS_mem hp) d e hu
    obtain ⟨ihv, m'', ihs, ihu⟩ := ih (fun kv hkv => hok kv (List.mem_cons_of_mem _ hkv))
    refine ⟨.cons ?_ ihv, (k, w) :: m'', .cons ?_ ihs, .cons ?_ ihu⟩
    · simp only at hp; simp [objEntry, hp, hv, addSeg, done]
    · simp only at hp; simp [objEntry, hp, hs, addSeg]
    · simp only at hp; simp [objEntryU, hp, hdis, hu', addSeg]

theorem applyDefaults_id : ∀ (props : List (String × PropT)) (m : List (String × V)),
    (∀ np, np ∈ props → np.2.defaultV.isSome = true → hasKey np.1 m = true) → applyDefaults props m = .ok m
  | [], m, _ => by simp [applyDefaults]
  | (id, p) :: rest, m, h => by
    have hr := applyDefaults_id rest m (fun np hnp => h np (List.mem_cons_of_mem _ hnp))
    simp only [applyDefaults]
    split
    · exact hr
    · rename_i hk
      split
      · exact hr
      · rename_i hd
        have := h (id, p) List.mem_cons_self (by simp [hd])
        exact absurd this hk
      · rename_i d hd
        have := h (id, p) List.mem_cons_self (by simp [hd])
        exact absurd this hk

/-- result of `objRaw`: the entries are Unserialize results and every defaulted property is present -/
theorem objRaw_spec {rec : Rec} {env : Env} {props : List (String × PropT)} {v : V} {m' : List (String × V)}
    (h : objRaw rec env props v = .ok m') :
    EntriesOK rec env props m' ∧ (∀ np, np ∈ props → np.2.defaultV.isSome = true → hasKey np.1 m' = true) := by
  unfold objRaw at h
  split at h
  · -- shorthand
    split at h
    · rename_i name p
      split at h
      · simp [plain] at h
      · rename_i hdis
        obtain ⟨pv, h1, h2⟩ := bind_eq_ok h
        simp at h2; subst h2
        refine ⟨?_, ?_⟩
        · intro kv hkv
          simp at hkv; subst hkv
          exact ⟨p, v, by simp [lookupS], by simpa using hdis, rewrapP_eq_ok.mp h1⟩
        · intro np hnp _
          simp at hnp; subst hnp
          simp [hasKey, lookupS]
    · simp [cerr] at h
  · split at h
    · simp [cerr] at h
    · rename_i skvs _
      split at h
      · simp [cerr] at h
      · obtain ⟨m, h1, h2⟩ := bind_eq_ok h
        have hall := forSV_ok_iff.mp h2
        refine ⟨entriesOK_of_allSV hall, ?_⟩
        intro np hnp hd
        rw [hasKey_eq_of_keys (allSV_keys hall)]
        exact (C03_default_keys props skvs m np.1 h1).mpr (Or.inr ⟨np.2, hnp, hd⟩)

theorem rt_obj (x : Ext) (n : Nat) (env : Env) (id : String) (props : List (String × PropT))
    (hrt : ∀ np, np ∈ props → RT (run x n) env np.2.ty) : RT (run x (n + 1)) env (.obj id props) := by
  intro v r h
  simp only [run, runObj] at h
  obtain ⟨m', h1, h2⟩ := bind_eq_ok h
  obtain ⟨_, h3, h4⟩ := bind_eq_ok h2
  simp at h4; subst h4
  obtain ⟨hok, hdef⟩ := objRaw_spec h1
  obtain ⟨hV, m'', hS, hU⟩ := entries_rt hrt hok
  have hkeys : ∀ k, hasKey k m'' = hasKey k m' := fun k => hasKey_eq_of_keys (allSV_keys hU).symm k
  have hi'' : interdeps props (fun k => hasKey k m'') = .ok () := by
    have : (fun k => hasKey k m'') = (fun k => hasKey k m') := funext hkeys
    rw [this]; exact h3
  refine ⟨?_, toStrAny m'', ?_, ?_⟩
  · simp only [run, runObj, toStrAny, MapShape.strAny, strKeys_toStrAny, h3, Out.bind, forSV_ok_iff.mpr hV]
    simp [done]
  · simp only [run, runObj, toStrAny, MapShape.strAny, strKeys_toStrAny, h3, Out.bind, forSV_ok_iff.mpr hS]
    simp
  · have hdecl : (m''.any fun kv => !hasKey kv.1 props) = false := by
      cases hh : m''.any fun kv => !hasKey kv.1 props with
      | false => rfl
      | true =>
        obtain ⟨kv, hkv, hk⟩ := List.any_eq_true.mp hh
        rw [allSV_objEntryU_declared hU kv hkv] at hk
        simp at hk
    have hdef'' : applyDefaults props m'' = .ok m'' :=
      applyDefaults_id props m'' (fun np hnp hd => by rw [hkeys]; exact hdef np hnp hd)
    simp only [run, runObj, objRaw, toStrAny, MapShape.strAny, V.mapEntries?, strKeys_toStrAny, hdecl,
      Bool.false_eq_true, if_false, hdef'', Out.bind, forSV_ok_iff.mpr hU, h3]

end Arca

namespace Arca
open Out

/-! ### one-of (discriminator not inlined) -/

/-- what the one-of level needs to know about a member: its Unserialize results are property maps
    without the discriminator key, and its Serialize keeps the key set -/
def MemberOK (rec : Rec) (env : Env) (t : Ty) (disc : String) : Prop :=
  (∀ v r, rec .U env t v = .ok r → ∃ rm, r = toStrAny rm ∧ hasKey disc rm = false) ∧
  (∀ rm w, rec .S env t (toStrAny rm) = .ok w → ∃ wm, w = toStrAny wm ∧ ∀ k, hasKey k wm = hasKey k rm)

theorem setKey_absent {α} (k : String) (v : α) (m : List (String × α)) (h : hasKey k m = false) :
    setKey k v m = m ++ [(k, v)] := by
  induction m with
  | nil => rfl
  | cons p rest ih =>
    obtain ⟨k', v'⟩ := p
    simp only [hasKey, lookupS] at h
    split at h
    · simp at h
    · rename_i hne
      simp only [setKey, hne, List.cons_append]
      rw [ih (by simpa [hasKey] using h)]
      rfl

theorem eraseKey_append_self {α} (k : String) (v : α) (m : List (String × α)) (h : hasKey k m = false) :
    eraseKey k (m ++ [(k, v)]) = m := by
  induction m with
  | nil => simp [eraseKey]
  | cons p rest ih =>
    obtain ⟨k', v'⟩ := p
    simp only [hasKey, lookupS] at h
    split at h
    · simp at h
    · rename_i hne
      simp only [List.cons_append, eraseKey, hne]
      rw [ih (by simpa [hasKey] using h)]
      rfl

theorem lookupS_append_absent {α} (k : String) (v : α) (m : List (String × α)) (h : hasKey k m = false) :
    lookupS k (m ++ [(k, v)]) = some v := by
  induction m with
  | nil => simp [lookupS]
  | cons p rest ih =>
    obtain ⟨k', v'⟩ := p
    simp only [hasKey, lookupS] at h
    split at h
    · simp at h
    · rename_i hne
      simp only [List.cons_append, lookupS, hne]
      exact ih (by simpa [hasKey] using h)

theorem find_disc_append (disc : String) (d : V) (m : List (String × V)) (h : hasKey disc m = false) :
    ((m ++ [(disc, d)]).map fun (kv : String × V) => (V.str kv.1, kv.2)).find? (isDiscKey disc) = some (V.str disc, d) := by
  induction m with
  | nil => simp [isDiscKey]
  | cons p rest ih =>
    obtain ⟨k', v'⟩ := p
    simp only [hasKey, lookupS] at h
    split at h
    · simp at h
    · rename_i hne
      have hne' : (k' == disc) = false := by
        cases hh : (k' == disc) with
        | false => rfl
        | true =>
          have : k' = disc := by simpa using hh
          subst this
          simp at hne
      simp only [List.cons_append, List.map_cons, List.find?_cons, isDiscKey, hne']
      exact ih (by simpa [hasKey] using h)

theorem key_toV_typed (x : Ext) (intKey : Bool) (d : V) (key : Key) (h : DiscDenotes x intKey d key) :
    (match key.toV with
      | .int .int64 n => if intKey then some (Key.i n) else none
      | .str s => if intKey then none else some (Key.s s)
      | _ => none) = some key ∧ DiscDenotes x intKey key.toV key := by
  unfold DiscDenotes at h ⊢
  by_cases hik : intKey = true
  · simp only [hik, if_true] at h ⊢
    obtain ⟨n, hn, hk⟩ := h
    subst hk
    exact ⟨by simp [Key.toV], n, .int (intDenotes_inInt64 hn), rfl⟩
  · simp only [hik, if_false, Bool.false_eq_true] at h ⊢
    obtain ⟨s, _, hk⟩ := h
    subst hk
    exact ⟨by simp [Key.toV], s, .str, rfl⟩

theorem rt_oneOf (x : Ext) (n : Nat) (env : Env) (intKey : Bool) (disc : String) (members : List (Key × Ty))
    (hrt : ∀ m, m ∈ members → RT (run x n) env m.2)
    (hmem : ∀ m, m ∈ members → MemberOK (run x n) env m.2 disc) :
    RT (run x (n + 1)) env (.oneOf intKey disc false members) := by
  intro v r h
  -- the input is a map (everything else is rejected)
  have hvm : ∃ sh kvs, v = .map sh kvs := by
    simp only [run, runOneOf, oneOfUnser] at h
    split at h
    · simp [plain] at h
    · split at h
      · simp [cerr] at h
      · rename_i sh kvs hm
        cases v <;> simp [V.mapEntries?] at hm
        obtain ⟨rfl, rfl⟩ := hm
        exact ⟨_, _, rfl⟩
  obtain ⟨sh, kvs, rfl⟩ := hvm
  obtain ⟨hsh, dk, d, key, m, mt, mr, hfind, hkey, hm, hmt, hmr⟩ :=
    C03_oneof_routes x n env intKey disc false members sh kvs r h
  have hmm : (key, mt) ∈ members := lookupK_mem hmt
  obtain ⟨hU, hS⟩ := hmem _ hmm
  obtain ⟨rm, hrm, hnod⟩ := hU _ _ hmr
  subst hrm
  -- the result is the member's map with the converted discriminator attached
  have hr : r = toStrAny (rm ++ [(disc, key.toV)]) := by
    have := C03_oneof_accepts x n env intKey disc false members sh kvs dk d key m rm mt hsh hfind hkey hm hmt hmr
    rw [this] at h
    simp at h
    rw [← h, setKey_absent _ _ _ hnod]
  subst hr
  obtain ⟨hV, w, hSm, hUw⟩ := hrt _ hmm _ _ hmr
  obtain ⟨wm, hwm, hwk⟩ := hS _ _ hSm
  subst hwm
  have hnodw : hasKey disc wm = false := by rw [hwk]; exact hnod
  obtain ⟨htyped, hkey'⟩ := key_toV_typed x intKey d key hkey
  have hsel : ∀ compat, oneOfSelect (run x n) env intKey disc false members compat (rm ++ [(disc, key.toV)]) =
      (if compat then (rewrapC (run x n .C env mt (toStrAny rm))).bind fun _ => .ok (key, mt, rm) else .ok (key, mt, rm)) := by
    intro compat
    simp only [oneOfSelect, lookupS_append_absent _ _ _ hnod, Bool.false_eq_true, if_false,
      eraseKey_append_self _ _ _ hnod]
    unfold DiscDenotes at hkey'
    by_cases hik : intKey = true
    · simp only [hik, if_true] at hkey'
      obtain ⟨k, _, hk⟩ := hkey'
      subst hk
      simp only [Key.toV, hik, if_true, hmt]
    · simp only [hik, if_false, Bool.false_eq_true] at hkey'
      obtain ⟨k, _, hk⟩ := hkey'
      subst hk
      simp only [Key.toV, hik, if_false, Bool.false_eq_true, hmt]
  refine ⟨?_, toStrAny (wm ++ [(disc, key.toV)]), ?_, ?_⟩
  · simp only [run, runOneOf, toStrAny, MapShape.strAny, strKeys_toStrAny]
    rw [hsel false]
    simp only [Bool.false_eq_true, if_false, Out.bind]
    have : run x n .V env mt (toStrAny rm) = done := hV
    simp only [toStrAny, MapShape.strAny] at this
    rw [this]
    simp [done, addSeg]
  · simp only [run, runOneOf, toStrAny, MapShape.strAny, strKeys_toStrAny]
    rw [hsel false]
    simp only [Bool.false_eq_true, if_false, Out.bind]
    have : run x n .S env mt (toStrAny rm) = .ok (toStrAny wm) := hSm
    simp only [toStrAny, MapShape.strAny] at this
    rw [this]
    simp only [strKeys_toStrAny, hnodw, Bool.false_eq_true, if_false]
  · have hfind' := find_disc_append disc key.toV wm hnodw
    have := C03_oneof_accepts x n env intKey disc false members .strAny
      ((wm ++ [(disc, key.toV)]).map fun (kv : String × V) => (V.str kv.1, kv.2))
      (V.str disc) key.toV key (wm ++ [(disc, key.toV)]) rm mt (Or.inr rfl) hfind' hkey'
      (strKeys_toStrAny _) hmt (by
        simp only [Bool.false_eq_true, if_false, eraseKey_append_self _ _ _ hnodw]
        exact hUw)
    simp only [toStrAny] at this ⊢
    rw [this, setKey_absent _ _ _ hnod]

end Arca

namespace Arca
open Out

/-! ### the induction over the schema -/

/-- does the object denoted by an object-like schema declare the property `disc`? -/
def declares (env : Env) (disc : String) : Ty → Prop
  | .obj _ props => hasKey disc props = true
  | .ref id => ∃ oid ps, lookupS id env = some (.obj oid ps) ∧ hasKey disc ps = true
  | .scope objs root => ∃ oid ps, lookupS root objs = some (.obj oid ps) ∧ hasKey disc ps = true
  | _ => False

/-- Schemas covered by the round-trip theorem: as `WF`, with one-ofs whose discriminator is not
    inlined (and whose members, as `ApplyNamespace` checks, do not declare the discriminator). -/
inductive WF1 : Env → Ty → Prop
  | int {env a b u} : WF1 env (.int a b u)
  | float {env a b u} : WF1 env (.float a b u)
  | str {env a b p} : WF1 env (.str a b p)
  | bool {env} : WF1 env .bool
  | pattern {env} : WF1 env .pattern
  | enumInt {env vs u} : WF1 env (.enumInt vs u)
  | enumStr {env vs} : WF1 env (.enumStr vs)
  | any {env} : WF1 env .any
  | list {env item a b} : WF1 env item → WF1 env (.list item a b)
  | map {env k v a b} : WF1 env k → WF1 env v → WF1 env (.map k v a b)
  | obj {env id props} : (∀ np, np ∈ props → WF1 env np.2.ty) → WF1 env (.obj id props)
  | oneOf {env ik d members} :
      (∀ m, m ∈ members → WF1 env m.2) → (∀ m, m ∈ members → ObjLike env m.2) →
      (∀ m, m ∈ members → ¬ declares env d m.2) → WF1 env (.oneOf ik d false members)
  | ref {env id o} : lookupS id env = some o → WF1 env (.ref id)
  | scope {env objs root o} :
      lookupS root objs = some o → (∀ p, p ∈ objs → WF1 objs p.2) → WF1 env (.scope objs root)

def EnvWF1 (env : Env) : Prop := ∀ p, p ∈ env → WF1 env p.2

theorem mem_of_hasKey {α} {k : String} {m : List (String × α)} (h : hasKey k m = true) : ∃ v, (k, v) ∈ m := by
  simp only [hasKey] at h
  cases hl : lookupS k m with
  | none => simp [hl] at h
  | some v => exact ⟨v, lookupS_mem hl⟩

theorem memberOK_obj (x : Ext) (n : Nat) (env : Env) (id : String) (props : List (String × PropT)) (disc : String)
    (hnd : ¬ hasKey disc props = true) : MemberOK (run x (n + 1)) env (.obj id props) disc := by
  constructor
  · intro v r h
    simp only [run, runObj] at h
    obtain ⟨m', h1, h2⟩ := bind_eq_ok h
    obtain ⟨_, _, h4⟩ := bind_eq_ok h2
    simp at h4; subst h4
    refine ⟨m', rfl, ?_⟩
    obtain ⟨hok, _⟩ := objRaw_spec h1
    cases hk : hasKey disc m' with
    | false => rfl
    | true =>
      obtain ⟨e, he⟩ := mem_of_hasKey hk
      obtain ⟨p, _, hp, _, _⟩ := hok _ he
      exact absurd (by simp [hasKey, hp]) hnd
  · intro rm w h
    simp only [run, runObj, toStrAny, MapShape.strAny, strKeys_toStrAny] at h
    obtain ⟨_, _, h2⟩ := bind_eq_ok h
    obtain ⟨wm, h3, h4⟩ := bind_eq_ok h2
    simp at h4
    exact ⟨wm, by simp [toStrAny, MapShape.strAny, h4], fun k => hasKey_eq_of_keys (allSV_keys (forSV_ok_iff.mp h3)) k⟩

theorem rt_aux (x : Ext) : ∀ (n : Nat) (env : Env) (t : Ty), EnvWF1 env → WF1 env t →
    RT (run x n) env t ∧ (ObjLike env t → ∀ disc, ¬ declares env disc t → MemberOK (run x n) env t disc)
  | 0, env, t, _, _ => by
    refine ⟨fun v r h => by simp [run] at h, fun _ disc _ => ⟨fun v r h => by simp [run] at h, fun rm w h => by simp [run] at h⟩⟩
  | n + 1, env, t, henv, hwf => by
    have ih := rt_aux x n
    cases hwf with
    | int => exact ⟨rt_int x n env _ _ _, fun h => by simp [ObjLike] at h⟩
    | float => exact ⟨rt_float x n env _ _ _, fun h => by simp [ObjLike] at h⟩
    | str => exact ⟨rt_str x n env _ _ _, fun h => by simp [ObjLike] at h⟩
    | bool => exact ⟨rt_bool x n env, fun h => by simp [ObjLike] at h⟩
    | pattern => exact ⟨rt_pattern x n env, fun h => by simp [ObjLike] at h⟩
    | enumInt => exact ⟨rt_enumInt x n env _ _, fun h => by simp [ObjLike] at h⟩
    | enumStr => exact ⟨rt_enumStr x n env _, fun h => by simp [ObjLike] at h⟩
    | any => exact ⟨rt_any x n env, fun h => by simp [ObjLike] at h⟩
    | list hi => exact ⟨rt_list x n env _ _ _ (ih env _ henv hi).1, fun h => by simp [ObjLike] at h⟩
    | map hk hv =>
      exact ⟨rt_map x n env _ _ _ _ (ih env _ henv hk).1 (ih env _ henv hv).1, fun h => by simp [ObjLike] at h⟩
    | obj hp =>
      refine ⟨rt_obj x n env _ _ (fun np hnp => (ih env _ henv (hp np hnp)).1), fun _ disc hnd => ?_⟩
      exact memberOK_obj x n env _ _ disc (by simpa [declares] using hnd)
    | oneOf hm ho hd =>
      refine ⟨?_, fun h => by simp [ObjLike] at h⟩
      exact rt_oneOf x n env _ _ _ (fun m hmm => (ih env _ henv (hm m hmm)).1)
        (fun m hmm => (ih env _ henv (hm m hmm)).2 (ho m hmm) _ (hd m hmm))
    | ref hl =>
      rename_i id o
      have ho : WF1 env o := henv _ (lookupS_mem hl)
      obtain ⟨hrt, hmo⟩ := ih env o henv ho
      have hrun : ∀ op v, run x (n + 1) op env (.ref id) v = run x n op env o v := by
        intro op v; simp [run, hl]
      refine ⟨?_, fun hobj disc hnd => ?_⟩
      · intro v r h
        rw [hrun] at h
        obtain ⟨h1, w, h2, h3⟩ := hrt v r h
        exact ⟨by rw [hrun]; exact h1, w, by rw [hrun]; exact h2, by rw [hrun]; exact h3⟩
      · obtain ⟨oid, ps, hl'⟩ := hobj
        rw [hl] at hl'
        cases hl'
        have hnd' : ¬ declares env disc (.obj oid ps) := by
          intro hd
          exact hnd ⟨oid, ps, hl, hd⟩
        obtain ⟨m1, m2⟩ := hmo (by simp [ObjLike]) disc hnd'
        exact ⟨fun v r h => m1 v r (by rw [hrun] at h; exact h), fun rm w h => m2 rm w (by rw [hrun] at h; exact h)⟩
    | scope hl hobjs =>
      rename_i objs root o
      have ho : WF1 objs o := hobjs _ (lookupS_mem hl)
      obtain ⟨hrt, hmo⟩ := ih objs o hobjs ho
      have hrun : ∀ op v, run x (n + 1) op env (.scope objs root) v = run x n op objs o v := by
        intro op v; simp [run, hl]
      refine ⟨?_, fun hobj disc hnd => ?_⟩
      · intro v r h
        rw [hrun] at h
        obtain ⟨h1, w, h2, h3⟩ := hrt v r h
        exact ⟨by rw [hrun]; exact h1, w, by rw [hrun]; exact h2, by rw [hrun]; exact h3⟩
      · obtain ⟨oid, ps, hl'⟩ := hobj
        rw [hl] at hl'
        cases hl'
        have hnd' : ¬ declares objs disc (.obj oid ps) := by
          intro hd
          exact hnd ⟨oid, ps, hl, hd⟩
        obtain ⟨m1, m2⟩ := hmo (by simp [ObjLike]) disc hnd'
        exact ⟨fun v r h => m1 v r (by rw [hrun] at h; exact h), fun rm w h => m2 rm w (by rw [hrun] at h; exact h)⟩

end Arca
