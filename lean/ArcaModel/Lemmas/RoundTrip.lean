import ArcaModel.Props.C03
import ArcaModel.Lemmas.UnitsPlain
/-
  Round trip lemmas (C01): per schema kind, if Unserialize of the level below round-trips then so
  does this level.
-/
namespace Arca
open Out

/-- the round-trip property of the recursive call at sub-schema `t`:
    whatever Unserialize accepts validates, serializes, and unserializes back to itself -/
def RT (rec : Rec) (env : Env) (t : Ty) : Prop :=
  ∀ v r, rec .U env t v = .ok r →
    rec .V env t r = done ∧ ∃ w, rec .S env t r = .ok w ∧ rec .U env t w = .ok r

/-! ### integers produced by the mappers are int64 values -/

theorem wrapInt64_of_inInt64 {n : Int} (hn : inInt64 n = true) : wrapInt64 n = n := by
  unfold inInt64 minInt64 maxInt64 at hn
  unfold wrapInt64
  simp at hn
  have h1 : (2:Int)^64 = 18446744073709551616 := by decide
  have h2 : (2:Int)^63 = 9223372036854775808 := by decide
  simp only [h1, h2] at *
  split <;> omega

theorem accInt_inInt64 {acc i m a : Int} (h : accInt acc i m = some a) : inInt64 a = true := by
  unfold accInt at h
  simp only at h
  split at h
  · simp at h
  · split at h
    · simp at h
    · rename_i hs
      simp at h; subst h
      simpa using hs

theorem parseInt10_inInt64 {s : String} {n : Int} (h : parseInt10 s = some n) : inInt64 n = true := by
  unfold parseInt10 at h
  simp only at h
  split at h
  · split at h
    · rename_i hr
      simp at h; subst h; exact hr
    · simp at h
  · simp at h

theorem parseIntGo_inInt64 : ∀ (caps : List String) (ms : List Int) (acc a : Int),
    Units.parseInt.go caps ms acc = some a → inInt64 acc = true → inInt64 a = true
  | [], _, acc, a, h, hacc => by simp [Units.parseInt.go] at h; subst h; exact hacc
  | _ :: _, [], acc, a, h, hacc => by simp [Units.parseInt.go] at h; subst h; exact hacc
  | c :: cs, m :: ms, acc, a, h, hacc => by
    simp only [Units.parseInt.go] at h
    split at h
    · exact parseIntGo_inInt64 cs ms acc a h hacc
    · split at h
      · simp at h
      · split at h
        · simp at h
        · rename_i a' ha'
          exact parseIntGo_inInt64 cs ms a' a h (accInt_inInt64 ha')

theorem unitsParseInt_inInt64 {u : Units} {s : String} {n : Int} (h : u.parseInt s = some n) : inInt64 n = true := by
  unfold Units.parseInt at h
  simp only at h
  split at h
  · simp at h
  · split at h
    · simp at h
    · rename_i caps b _
      split at h
      · simp at h
      · rename_i acc hgo
        have hacc : inInt64 acc = true := parseIntGo_inInt64 _ _ 0 acc hgo (by decide)
        split at h
        · simp at h; subst h; exact hacc
        · split at h
          · simp at h
          · split at h
            · simp at h
            · exact accInt_inInt64 h

theorem toInt64Exact_inInt64 {b : Nat} {n : Int} (h : F64.toInt64Exact b = some n) : inInt64 n = true := by
  unfold F64.toInt64Exact at h
  (repeat' split at h) <;> (try simp at h) <;>
    first | (obtain ⟨h1, h2⟩ := h; rw [← h2]; exact h1) | (obtain ⟨_, h1, h2⟩ := h; rw [← h2]; exact h1)

theorem intDenotes_inInt64 {u : Option Units} {v : V} {n : Int} (h : IntDenotes u v n) : inInt64 n = true := by
  cases h with
  | int hn => exact hn
  | float hf => exact toInt64Exact_inInt64 hf
  | strPlain _ hp => exact parseInt10_inInt64 hp
  | strUnits _ hp => exact unitsParseInt_inInt64 hp
  | bool => rename_i b; cases b <;> decide

/-! ### scalars -/

theorem rt_int (x : Ext) (n : Nat) (env : Env) (min max : Option Int) (u : Option Units) :
    RT (run x (n + 1)) env (.int min max u) := by
  intro v r h
  obtain ⟨k, hd, hb, hr⟩ := (C02_int_unser_iff x n env min max u v r).mp h
  subst hr
  have hk := intDenotes_inInt64 hd
  obtain ⟨hV, hS⟩ := C02_int_native x n env min max u k hk
  refine ⟨hV.mpr hb, .int .int64 k, (hS _).mpr ⟨hb, rfl⟩, ?_⟩
  exact (C02_int_unser_iff x n env min max u _ _).mpr ⟨k, .int hk, hb, rfl⟩

theorem rt_float (x : Ext) (n : Nat) (env : Env) (min max : Option Nat) (u : Option Units) :
    RT (run x (n + 1)) env (.float min max u) := by
  intro v r h
  obtain ⟨b, hd, hb, hr⟩ := (C02_float_unser_iff x n env min max u v r).mp h
  subst hr
  obtain ⟨hV, hS⟩ := C02_float_native x n env min max u b
  refine ⟨hV.mpr hb, .float .f64 b, (hS _).mpr ⟨hb, rfl⟩, ?_⟩
  exact (C02_float_unser_iff x n env min max u _ _).mpr ⟨b, .float, hb, rfl⟩

theorem rt_str (x : Ext) (n : Nat) (env : Env) (min max : Option Int) (pat : Option String) :
    RT (run x (n + 1)) env (.str min max pat) := by
  intro v r h
  obtain ⟨s, hd, hb, hr⟩ := (C02_str_unser_iff x n env min max pat v r).mp h
  subst hr
  obtain ⟨hV, hS⟩ := C02_str_native x n env min max pat s
  refine ⟨hV.mpr hb, .str s, (hS _).mpr ⟨hb, rfl⟩, ?_⟩
  exact (C02_str_unser_iff x n env min max pat _ _).mpr ⟨s, .str, hb, rfl⟩

theorem rt_bool (x : Ext) (n : Nat) (env : Env) : RT (run x (n + 1)) env .bool := by
  intro v r h
  obtain ⟨b, _, hr⟩ := (C02_bool_unser_iff x n env v r).mp h
  subst hr
  refine ⟨by simp [run, runBool, asBool, V.under, Out.bind], .bool b, by simp [run, runBool, asBool, V.under, Out.bind], ?_⟩
  exact (C02_bool_unser_iff x n env _ _).mpr ⟨b, .bool, rfl⟩

theorem rt_pattern (x : Ext) (n : Nat) (env : Env) : RT (run x (n + 1)) env .pattern := by
  intro v r h
  obtain ⟨s, _, hc, hr⟩ := (C02_pattern_unser_iff x n env v r).mp h
  subst hr
  refine ⟨by simp [run, runPattern], .str s, by simp [run, runPattern], ?_⟩
  exact (C02_pattern_unser_iff x n env _ _).mpr ⟨s, .str, hc, rfl⟩

theorem rt_enumInt (x : Ext) (n : Nat) (env : Env) (vals : List Int) (u : Option Units) :
    RT (run x (n + 1)) env (.enumInt vals u) := by
  intro v r h
  obtain ⟨k, hd, hm, hr⟩ := (C02_enumInt_unser_iff x n env vals u v r).mp h
  subst hr
  have hk := intDenotes_inInt64 hd
  have hw := wrapInt64_of_inInt64 hk
  refine ⟨by simp [run, runEnumInt, asInt, V.under, hw, Out.bind, hm], .int .int64 k,
    by simp [run, runEnumInt, asInt, V.under, hw, Out.bind, hm], ?_⟩
  exact (C02_enumInt_unser_iff x n env vals u _ _).mpr ⟨k, .int hk, hm, rfl⟩

theorem rt_enumStr (x : Ext) (n : Nat) (env : Env) (vals : List String) :
    RT (run x (n + 1)) env (.enumStr vals) := by
  intro v r h
  obtain ⟨s, hd, hm, hr⟩ := (C02_enumStr_unser_iff x n env vals v r).mp h
  subst hr
  refine ⟨by simp [run, runEnumStr, asString, V.under, Out.bind, hm], .str s,
    by simp [run, runEnumStr, asString, V.under, Out.bind, hm], ?_⟩
  exact (C02_enumStr_unser_iff x n env vals _ _).mpr ⟨s, .str, hm, rfl⟩

end Arca

namespace Arca
open Out

/-! ### the any schema: conversion is idempotent -/

theorem forall2_idem {g : V → Out V} (hidem : ∀ a b, g a = .ok b → g b = .ok b) {xs ys : List V}
    (h : Forall2 (fun e y => g e = .ok y) xs ys) : Forall2 (fun e y => g e = .ok y) ys ys := by
  induction h with
  | nil => exact .nil
  | cons hab _ ih => exact .cons (hidem _ _ hab) ih

theorem allIdx_any_iff {g : V → Out V} : ∀ {n : Nat} {xs ys : List V},
    AllIdx (fun i e => (g e).addSeg ("[" ++ toString i ++ "]")) n xs ys ↔ Forall2 (fun e y => g e = .ok y) xs ys := by
  intro n xs
  induction xs generalizing n with
  | nil =>
    intro ys
    constructor
    · intro h; cases h; exact .nil
    · intro h; cases h; exact .nil
  | cons x xs ih =>
    intro ys
    constructor
    · intro h
      cases h with
      | cons hx hr => exact .cons (addSeg_eq_ok.mp hx) (ih.mp hr)
    · intro h
      cases h with
      | cons hx hr => exact .cons (addSeg_eq_ok.mpr hx) (ih.mpr hr)

/-- the per-entry function of the any-schema's map conversion -/
def anyEntry (n : Nat) (k x : V) : Out (V × V) :=
  ((anyConvert n k).addSeg ("{" ++ fmtKey k ++ "}")).bind fun k' =>
    ((anyConvert n x).addSeg ("[" ++ fmtKey k' ++ "]")).bind fun x' => .ok (k', x')

theorem allKV_any_idem {n : Nat} (ih : ∀ v r, anyConvert n v = .ok r → anyConvert n r = .ok r)
    {kvs kvs' : List (V × V)} (hall : AllKV (anyEntry n) kvs kvs') : AllKV (anyEntry n) kvs' kvs' := by
  induction hall with
  | nil => exact .nil
  | @cons k v kv rest rest' hf _ ih' =>
    unfold anyEntry at hf
    obtain ⟨k', hk, h3⟩ := bind_eq_ok hf
    obtain ⟨x', hx, h4⟩ := bind_eq_ok h3
    simp at h4; subst h4
    refine .cons ?_ ih'
    simp [anyEntry, addSeg_eq_ok.mpr (ih _ _ (addSeg_eq_ok.mp hk)), addSeg_eq_ok.mpr (ih _ _ (addSeg_eq_ok.mp hx)), Out.bind]

theorem anyConvert_idem : ∀ (n : Nat) (v r : V), anyConvert n v = .ok r → anyConvert n r = .ok r
  | 0, _, _, h => by simp [anyConvert] at h
  | n + 1, v, r, h => by
    have ih := anyConvert_idem n
    unfold anyConvert at h
    split at h
    · -- integers
      split at h
      · simp at h; subst h; simp [anyConvert, V.under]
      · split at h
        · simp [plain] at h
        · obtain ⟨m, _, h2⟩ := bind_eq_ok h
          simp at h2; subst h2; simp [anyConvert, V.under]
    · -- floats
      (repeat' split at h) <;> simp [plain] at h <;> (subst h; simp [anyConvert, V.under])
    · simp at h; subst h; simp [anyConvert, V.under]
    · simp at h; subst h; simp [anyConvert, V.under]
    · -- slices
      obtain ⟨ys, h1, h2⟩ := bind_eq_ok h
      simp at h2; subst h2
      have hall := allIdx_any_iff.mp (forIdx_ok_iff.mp h1)
      have hys := forIdx_ok_iff.mpr (allIdx_any_iff (n := 0) |>.mpr (forall2_idem ih hall))
      simp only [anyConvert, V.under]
      rw [hys]; rfl
    · -- byte slices
      obtain ⟨ys, h1, h2⟩ := bind_eq_ok h
      simp at h2; subst h2
      have hall := allIdx_any_iff.mp (forIdx_ok_iff.mp h1)
      have hys := forIdx_ok_iff.mpr (allIdx_any_iff (n := 0) |>.mpr (forall2_idem ih hall))
      simp only [anyConvert, V.under]
      rw [hys]; rfl
    · -- maps
      obtain ⟨kvs', h1, h2⟩ := bind_eq_ok h
      split at h2
      · simp [cerr] at h2
      · rename_i hd
        simp at h2; subst h2
        have hall : AllKV (anyEntry n) _ kvs' := forKV_ok_iff.mp h1
        have hself := allKV_any_idem ih hall
        have hf := forKV_ok_iff.mpr hself
        unfold anyEntry at hf
        simp only [anyConvert, V.under]
        rw [hf]
        simp [Out.bind, hd]
    · simp [cerr] at h

theorem rt_any (x : Ext) (n : Nat) (env : Env) : RT (run x (n + 1)) env .any := by
  intro v r h
  simp only [run, runAny] at h ⊢
  have hr := anyConvert_idem _ _ _ h
  exact ⟨by simp [hr, Out.bind], r, hr, hr⟩

end Arca

namespace Arca
open Out

/-! ### lists -/

theorem forall2_rt_split {rec : Rec} {env : Env} {item : Ty} (hi : RT rec env item) {xs ys : List V}
    (h : Forall2 (fun e y => rec .U env item e = .ok y) xs ys) :
    Forall2 (fun y u => rec .V env item y = .ok u) ys (ys.map fun _ => unitV) ∧
    ∃ ws, Forall2 (fun y w => rec .S env item y = .ok w) ys ws ∧ Forall2 (fun w y => rec .U env item w = .ok y) ws ys := by
  induction h with
  | nil => exact ⟨.nil, [], .nil, .nil⟩
  | cons hab _ ih =>
    obtain ⟨hv, w, hs, hu⟩ := hi _ _ hab
    obtain ⟨ihv, ws, ihs, ihu⟩ := ih
    exact ⟨.cons hv ihv, w :: ws, .cons hs ihs, .cons hu ihu⟩

theorem rt_list (x : Ext) (n : Nat) (env : Env) (item : Ty) (mn mx : Option Int) (hi : RT (run x n) env item) :
    RT (run x (n + 1)) env (.list item mn mx) := by
  intro v r h
  obtain ⟨xs, ys, _, hl, hall, hr⟩ := (C02_list_unser_iff x n env item mn mx v r).mp h
  subst hr
  obtain ⟨hv, ws, hs, hu⟩ := forall2_rt_split hi hall
  have hlen : ys.length = xs.length := hall.length_eq.symm
  have hl' : LenOK mn mx ys.length := by rw [hlen]; exact hl
  have hlw : LenOK mn mx ws.length := by rw [← hs.length_eq]; exact hl'
  have hV := forIdx_ok_iff.mpr (allIdx_addSeg_iff (n := 0) |>.mpr hv)
  have hS := forIdx_ok_iff.mpr (allIdx_addSeg_iff (n := 0) |>.mpr hs)
  refine ⟨?_, .list ws, ?_, ?_⟩
  · simp only [run, runList, V.sliceElems?, (checkLen_ok_iff _ _ _).mpr hl', Out.bind, hV]
  · simp only [run, runList, V.sliceElems?, (checkLen_ok_iff _ _ _).mpr hl', Out.bind, hV, hS]
  · exact (C02_list_unser_iff x n env item mn mx _ _).mpr ⟨ws, ys, rfl, hlw, hu, rfl⟩

/-! ### maps -/

theorem forall2_rt_split_kv {rec : Rec} {env : Env} {kt vt : Ty} (hk : RT rec env kt) (hv : RT rec env vt)
    {kvs es : List (V × V)}
    (h : Forall2 (fun (kv kv' : V × V) => rec .U env kt kv.1 = .ok kv'.1 ∧ rec .U env vt kv.2 = .ok kv'.2) kvs es) :
    Forall2 (fun (kv kv' : V × V) => rec .V env kt kv.1 = .ok kv'.1 ∧ rec .V env vt kv.2 = .ok kv'.2) es (es.map fun (_ : V × V) => ((unitV, unitV) : V × V)) ∧
    ∃ ws, Forall2 (fun (kv kv' : V × V) => rec .S env kt kv.1 = .ok kv'.1 ∧ rec .S env vt kv.2 = .ok kv'.2) es ws ∧
      Forall2 (fun (kv kv' : V × V) => rec .U env kt kv.1 = .ok kv'.1 ∧ rec .U env vt kv.2 = .ok kv'.2) ws es := by
  induction h with
  | nil => exact ⟨.nil, [], .nil, .nil⟩
  | cons hab _ ih =>
    obtain ⟨hkv, wk, hks, hku⟩ := hk _ _ hab.1
    obtain ⟨hvv, wv, hvs, hvu⟩ := hv _ _ hab.2
    obtain ⟨ihv, ws, ihs, ihu⟩ := ih
    exact ⟨.cons ⟨hkv, hvv⟩ ihv, (wk, wv) :: ws, .cons ⟨hks, hvs⟩ ihs, .cons ⟨hku, hvu⟩ ihu⟩

theorem rt_map (x : Ext) (n : Nat) (env : Env) (kt vt : Ty) (mn mx : Option Int)
    (hk : RT (run x n) env kt) (hv : RT (run x n) env vt) :
    RT (run x (n + 1)) env (.map kt vt mn mx) := by
  intro v r h
  obtain ⟨sh, kvs, es, _, hl, hall, hd, hr⟩ := (C02_map_unser_iff x n env kt vt mn mx v r).mp h
  subst hr
  obtain ⟨hvv, ws, hs, hu⟩ := forall2_rt_split_kv hk hv hall
  have hlen : es.length = kvs.length := hall.length_eq.symm
  have hl' : LenOK mn mx es.length := by rw [hlen]; exact hl
  have hlw : LenOK mn mx ws.length := by rw [← hs.length_eq]; exact hl'
  have hV := forKV_ok_iff.mpr (allKV_entry_iff.mpr hvv)
  have hS := forKV_ok_iff.mpr (allKV_entry_iff.mpr hs)
  refine ⟨?_, .map .anyAny ws, ?_, ?_⟩
  · simp only [run, runMap, V.mapEntries?, (checkLen_ok_iff _ _ _).mpr hl', Out.bind, hV]
  · simp only [run, runMap, V.mapEntries?, (checkLen_ok_iff _ _ _).mpr hl', Out.bind, hV, hS]
  · exact (C02_map_unser_iff x n env kt vt mn mx _ _).mpr ⟨.anyAny, ws, es, rfl, hlw, hu, hd, rfl⟩

end Arca

namespace Arca
open Out

/-! ### objects -/

/-- every entry of an unserialized property map is the Unserialize result of its (declared,
    enabled) property's type -/
def EntriesOK (rec : Rec) (env : Env) (props : List (String × PropT)) (m : List (String × V)) : Prop :=
  ∀ kv, kv ∈ m → ∃ p d, lookupS kv.1 props = some p ∧ p.disabled = false ∧ rec .U env p.ty d = .ok kv.2

theorem entriesOK_of_allSV {rec : Rec} {env : Env} {props : List (String × PropT)} {m m' : List (String × V)}
    (h : AllSV (objEntryU rec env props) m m') : EntriesOK rec env props m' := by
  induction h with
  | nil => intro kv hkv; simp at hkv
  | @cons k v v' rest rest' hf _ ih =>
    intro kv hkv
    rcases List.mem_cons.mp hkv with heq | hkv'
    · subst heq
      unfold objEntryU at hf
      split at hf
      · simp [cerr] at hf
      · rename_i p hp
        split at hf
        · simp [cerrAt] at hf
        · rename_i hd
          exact ⟨p, v, hp, by simpa using hd, addSeg_eq_ok.mp hf⟩
    · exact ih kv hkv'

theorem allSV_objEntryU_declared {rec : Rec} {env : Env} {props : List (String × PropT)} {m m' : List (String × V)}
    (h : AllSV (objEntryU rec env props) m m') : ∀ kv, kv ∈ m → hasKey kv.1 props = true := by
  induction h with
  | nil => intro kv hkv; simp at hkv
  | @cons k v v' rest rest' hf _ ih =>
    intro kv hkv
    rcases List.mem_cons.mp hkv with heq | hkv'
    · subst heq
      unfold objEntryU at hf
      split at hf
      · simp [cerr] at hf
      · rename_i p hp
        simp [hasKey, hp]
    · exact ih kv hkv'

theorem entries_rt {rec : Rec} {env : Env} {props : List (String × PropT)}
    (hrt : ∀ np, np ∈ props → RT rec env np.2.ty) :
    ∀ {m' : List (String × V)}, EntriesOK rec env props m' →
      AllSV (objEntry rec .V env props) m' (m'.map fun kv => (kv.1, unitV)) ∧
      ∃ m'', AllSV (objEntry rec .S env props) m' m'' ∧ AllSV (objEntryU rec env props) m'' m' := by
  intro m'
  induction m' with
  | nil => intro _; exact ⟨.nil, [], .nil, .nil⟩
  | cons kv rest ih =>
    intro hok
    obtain ⟨k, e⟩ := kv
    obtain ⟨p, d, hp, hdis, hu⟩ := hok (k, e) (by simp)
    obtain ⟨hv, w, hs, hu'⟩ := hrt (k, p) (lookupS_mem hp) d e hu
    obtain ⟨ihv, m'', ihs, ihu⟩ := ih (fun kv hkv => hok kv (List.mem_cons_of_mem _ hkv))
    refine ⟨.cons ?_ ihv, (k, w) :: m'', .cons ?_ ihs, .cons ?_ ihu⟩
    · simp only at hp; simp [objEntry, hp, hv, addSeg, done]
    · simp only at hp; simp [objEntry, hp, hs, addSeg]
    · simp only at hp; simp [objEntryU, hp, hdis, hu', addSeg]

theorem applyDefaults_id : ∀ (props : List (String × PropT)) (m : List (String × V)),
    (∀ np, np ∈ props → np.2.defaultV.isSome = true → hasKey np.1 m = true) → applyDefaults props m = .ok m
  | [], m, _ => by simp [applyDefaults]
  | (id, p) :: rest, m, h => by
    have hr := applyDefaults_id rest m (fun np hnp => h np (List.mem_cons_of_mem _ hnp))
    simp only [applyDefaults]
    split
    · exact hr
    · rename_i hk
      split
      · exact hr
      · rename_i hd
        have := h (id, p) List.mem_cons_self (by simp [hd])
        exact absurd this hk
      · rename_i d hd
        have := h (id, p) List.mem_cons_self (by simp [hd])
        exact absurd this hk

/-- result of `objRaw`: the entries are Unserialize results and every defaulted property is present -/
theorem objRaw_spec {rec : Rec} {env : Env} {props : List (String × PropT)} {v : V} {m' : List (String × V)}
    (h : objRaw rec env props v = .ok m') :
    EntriesOK rec env props m' ∧ (∀ np, np ∈ props → np.2.defaultV.isSome = true → hasKey np.1 m' = true) := by
  unfold objRaw at h
  split at h
  · -- shorthand
    split at h
    · rename_i name p
      split at h
      · simp [plain] at h
      · rename_i hdis
        obtain ⟨pv, h1, h2⟩ := bind_eq_ok h
        simp at h2; subst h2
        refine ⟨?_, ?_⟩
        · intro kv hkv
          simp at hkv; subst hkv
          exact ⟨p, v, by simp [lookupS], by simpa using hdis, rewrapP_eq_ok.mp h1⟩
        · intro np hnp _
          simp at hnp; subst hnp
          simp [hasKey, lookupS]
    · simp [cerr] at h
  · split at h
    · simp [cerr] at h
    · rename_i skvs _
      split at h
      · simp [cerr] at h
      · obtain ⟨m, h1, h2⟩ := bind_eq_ok h
        have hall := forSV_ok_iff.mp h2
        refine ⟨entriesOK_of_allSV hall, ?_⟩
        intro np hnp hd
        rw [hasKey_eq_of_keys (allSV_keys hall)]
        exact (C03_default_keys props skvs m np.1 h1).mpr (Or.inr ⟨np.2, hnp, hd⟩)

theorem rt_obj (x : Ext) (n : Nat) (env : Env) (id : String) (props : List (String × PropT))
    (hrt : ∀ np, np ∈ props → RT (run x n) env np.2.ty) : RT (run x (n + 1)) env (.obj id props) := by
  intro v r h
  simp only [run, runObj] at h
  obtain ⟨m', h1, h2⟩ := bind_eq_ok h
  obtain ⟨_, h3, h4⟩ := bind_eq_ok h2
  simp at h4; subst h4
  obtain ⟨hok, hdef⟩ := objRaw_spec h1
  obtain ⟨hV, m'', hS, hU⟩ := entries_rt hrt hok
  have hkeys : ∀ k, hasKey k m'' = hasKey k m' := fun k => hasKey_eq_of_keys (allSV_keys hU).symm k
  have hi'' : interdeps props (fun k => hasKey k m'') = .ok () := by
    have : (fun k => hasKey k m'') = (fun k => hasKey k m') := funext hkeys
    rw [this]; exact h3
  refine ⟨?_, toStrAny m'', ?_, ?_⟩
  · simp only [run, runObj, toStrAny, MapShape.strAny, strKeys_toStrAny, h3, Out.bind, forSV_ok_iff.mpr hV]
    simp [done]
  · simp only [run, runObj, toStrAny, MapShape.strAny, strKeys_toStrAny, h3, Out.bind, forSV_ok_iff.mpr hS]
    simp
  · have hdecl : (m''.any fun kv => !hasKey kv.1 props) = false := by
      cases hh : m''.any fun kv => !hasKey kv.1 props with
      | false => rfl
      | true =>
        obtain ⟨kv, hkv, hk⟩ := List.any_eq_true.mp hh
        rw [allSV_objEntryU_declared hU kv hkv] at hk
        simp at hk
    have hdef'' : applyDefaults props m'' = .ok m'' :=
      applyDefaults_id props m'' (fun np hnp hd => by rw [hkeys]; exact hdef np hnp hd)
    simp only [run, runObj, objRaw, toStrAny, MapShape.strAny, V.mapEntries?, strKeys_toStrAny, hdecl,
      Bool.false_eq_true, if_false, hdef'', Out.bind, forSV_ok_iff.mpr hU, h3]

end Arca

namespace Arca
open Out

/-! ### one-of (discriminator not inlined) -/

/-- what the one-of level needs to know about a member: its Unserialize results are property maps
    without the discriminator key, and its Serialize keeps the key set -/
def MemberOK (rec : Rec) (env : Env) (t : Ty) (disc : String) : Prop :=
  (∀ v r, rec .U env t v = .ok r → ∃ rm, r = toStrAny rm ∧ hasKey disc rm = false) ∧
  (∀ rm w, rec .S env t (toStrAny rm) = .ok w → ∃ wm, w = toStrAny wm ∧ ∀ k, hasKey k wm = hasKey k rm)

theorem setKey_absent {α} (k : String) (v : α) (m : List (String × α)) (h : hasKey k m = false) :
    setKey k v m = m ++ [(k, v)] := by
  induction m with
  | nil => rfl
  | cons p rest ih =>
    obtain ⟨k', v'⟩ := p
    simp only [hasKey, lookupS] at h
    split at h
    · simp at h
    · rename_i hne
      simp only [setKey, hne, List.cons_append]
      rw [ih (by simpa [hasKey] using h)]
      rfl

theorem eraseKey_append_self {α} (k : String) (v : α) (m : List (String × α)) (h : hasKey k m = false) :
    eraseKey k (m ++ [(k, v)]) = m := by
  induction m with
  | nil => simp [eraseKey]
  | cons p rest ih =>
    obtain ⟨k', v'⟩ := p
    simp only [hasKey, lookupS] at h
    split at h
    · simp at h
    · rename_i hne
      simp only [List.cons_append, eraseKey, hne]
      rw [ih (by simpa [hasKey] using h)]
      rfl

theorem lookupS_append_absent {α} (k : String) (v : α) (m : List (String × α)) (h : hasKey k m = false) :
    lookupS k (m ++ [(k, v)]) = some v := by
  induction m with
  | nil => simp [lookupS]
  | cons p rest ih =>
    obtain ⟨k', v'⟩ := p
    simp only [hasKey, lookupS] at h
    split at h
    · simp at h
    · rename_i hne
      simp only [List.cons_append, lookupS, hne]
      exact ih (by simpa [hasKey] using h)

theorem find_disc_append (disc : String) (d : V) (m : List (String × V)) (h : hasKey disc m = false) :
    ((m ++ [(disc, d)]).map fun (kv : String × V) => (V.str kv.1, kv.2)).find? (isDiscKey disc) = some (V.str disc, d) := by
  induction m with
  | nil => simp [isDiscKey]
  | cons p rest ih =>
    obtain ⟨k', v'⟩ := p
    simp only [hasKey, lookupS] at h
    split at h
    · simp at h
    · rename_i hne
      have hne' : (k' == disc) = false := by
        cases hh : (k' == disc) with
        | false => rfl
        | true =>
          have : k' = disc := by simpa using hh
          subst this
          simp at hne
      simp only [List.cons_append, List.map_cons, List.find?_cons, isDiscKey, hne']
      exact ih (by simpa [hasKey] using h)

theorem key_toV_typed (x : Ext) (intKey : Bool) (d : V) (key : Key) (h : DiscDenotes x intKey d key) :
    (match key.toV with
      | .int .int64 n => if intKey then some (Key.i n) else none
      | .str s => if intKey then none else some (Key.s s)
      | _ => none) = some key ∧ DiscDenotes x intKey key.toV key := by
  unfold DiscDenotes at h ⊢
  by_cases hik : intKey = true
  · simp only [hik, if_true] at h ⊢
    obtain ⟨n, hn, hk⟩ := h
    subst hk
    exact ⟨by simp [Key.toV], n, .int (intDenotes_inInt64 hn), rfl⟩
  · simp only [hik, if_false, Bool.false_eq_true] at h ⊢
    obtain ⟨s, _, hk⟩ := h
    subst hk
    exact ⟨by simp [Key.toV], s, .str, rfl⟩

theorem rt_oneOf (x : Ext) (n : Nat) (env : Env) (intKey : Bool) (disc : String) (members : List (Key × Ty))
    (hrt : ∀ m, m ∈ members → RT (run x n) env m.2)
    (hmem : ∀ m, m ∈ members → MemberOK (run x n) env m.2 disc) :
    RT (run x (n + 1)) env (.oneOf intKey disc false members) := by
  intro v r h
  -- the input is a map (everything else is rejected)
  have hvm : ∃ sh kvs, v = .map sh kvs := by
    simp only [run, runOneOf, oneOfUnser] at h
    split at h
    · simp [plain] at h
    · split at h
      · simp [cerr] at h
      · rename_i sh kvs hm
        cases v <;> simp [V.mapEntries?] at hm
        obtain ⟨rfl, rfl⟩ := hm
        exact ⟨_, _, rfl⟩
  obtain ⟨sh, kvs, rfl⟩ := hvm
  obtain ⟨hsh, dk, d, key, m, mt, mr, hfind, hkey, hm, hmt, hmr⟩ :=
    C03_oneof_routes x n env intKey disc false members sh kvs r h
  have hmm : (key, mt) ∈ members := lookupK_mem hmt
  obtain ⟨hU, hS⟩ := hmem _ hmm
  obtain ⟨rm, hrm, hnod⟩ := hU _ _ hmr
  subst hrm
  -- the result is the member's map with the converted discriminator attached
  have hr : r = toStrAny (rm ++ [(disc, key.toV)]) := by
    have := C03_oneof_accepts x n env intKey disc false members sh kvs dk d key m rm mt hsh hfind hkey hm hmt hmr
    rw [this] at h
    simp at h
    rw [← h, setKey_absent _ _ _ hnod]
  subst hr
  obtain ⟨hV, w, hSm, hUw⟩ := hrt _ hmm _ _ hmr
  obtain ⟨wm, hwm, hwk⟩ := hS _ _ hSm
  subst hwm
  have hnodw : hasKey disc wm = false := by rw [hwk]; exact hnod
  obtain ⟨htyped, hkey'⟩ := key_toV_typed x intKey d key hkey
  have hsel : ∀ compat, oneOfSelect (run x n) env intKey disc false members compat (rm ++ [(disc, key.toV)]) =
      (if compat then (rewrapC (run x n .C env mt (toStrAny rm))).bind fun _ => .ok (key, mt, rm) else .ok (key, mt, rm)) := by
    intro compat
    simp only [oneOfSelect, lookupS_append_absent _ _ _ hnod, Bool.false_eq_true, if_false,
      eraseKey_append_self _ _ _ hnod]
    unfold DiscDenotes at hkey'
    by_cases hik : intKey = true
    · simp only [hik, if_true] at hkey'
      obtain ⟨k, _, hk⟩ := hkey'
      subst hk
      simp only [Key.toV, hik, if_true, hmt]
    · simp only [hik, if_false, Bool.false_eq_true] at hkey'
      obtain ⟨k, _, hk⟩ := hkey'
      subst hk
      simp only [Key.toV, hik, if_false, Bool.false_eq_true, hmt]
  refine ⟨?_, toStrAny (wm ++ [(disc, key.toV)]), ?_, ?_⟩
  · simp only [run, runOneOf, toStrAny, MapShape.strAny, strKeys_toStrAny]
    rw [hsel false]
    simp only [Bool.false_eq_true, if_false, Out.bind]
    have : run x n .V env mt (toStrAny rm) = done := hV
    simp only [toStrAny, MapShape.strAny] at this
    rw [this]
    simp [done, addSeg]
  · simp only [run, runOneOf, toStrAny, MapShape.strAny, strKeys_toStrAny]
    rw [hsel false]
    simp only [Bool.false_eq_true, if_false, Out.bind]
    have : run x n .S env mt (toStrAny rm) = .ok (toStrAny wm) := hSm
    simp only [toStrAny, MapShape.strAny] at this
    rw [this]
    simp only [strKeys_toStrAny, hnodw, Bool.false_eq_true, if_false]
  · have hfind' := find_disc_append disc key.toV wm hnodw
    have := C03_oneof_accepts x n env intKey disc false members .strAny
      ((wm ++ [(disc, key.toV)]).map fun (kv : String × V) => (V.str kv.1, kv.2))
      (V.str disc) key.toV key (wm ++ [(disc, key.toV)]) rm mt (Or.inr rfl) hfind' hkey'
      (strKeys_toStrAny _) hmt (by
        simp only [Bool.false_eq_true, if_false, eraseKey_append_self _ _ _ hnodw]
        exact hUw)
    simp only [toStrAny] at this ⊢
    rw [this, setKey_absent _ _ _ hnod]

end Arca

namespace Arca
open Out

/-! ### one-of (discriminator inlined)

With `inlined = true` the member object receives the WHOLE map, discriminator included, so the
member must declare the discriminator as one of its own properties (otherwise it rejects the map
for the undeclared key). Unserialize then overwrites the member's own conversion of that property
with the one-of's conversion of the key (`setKey disc key.toV`); the round trip works because for a
property whose Go kind is the kind of the keys both conversions coincide. -/

/-- Does the type of a member's discriminator property have the Go kind of the one-of's keys?
    This is the check of `validateSubtypeDiscriminatorInlineFields`
    (`property.ReflectedType().Kind() == reflect.TypeOf(key).Kind()`): kind `string` is reflected by
    string and string-enum schemas, kind `int64` by int and int-enum schemas (with or without units),
    by nothing else. -/
def discTyOK (intKey : Bool) : Ty → Bool
  | .str _ _ _ => !intKey
  | .enumStr _ => !intKey
  | .int _ _ _ => intKey
  | .enumInt _ _ => intKey
  | _ => false

/-- the object denoted by an object-like schema declares the property `disc`, with a type of the
    key kind of the one-of (`intKey`) -/
def declaresTyped (env : Env) (intKey : Bool) (disc : String) : Ty → Prop
  | .obj _ props => ∃ p, lookupS disc props = some p ∧ discTyOK intKey p.ty = true
  | .ref id => ∃ oid ps p, lookupS id env = some (.obj oid ps) ∧ lookupS disc ps = some p ∧ discTyOK intKey p.ty = true
  | .scope objs root =>
    ∃ oid ps p, lookupS root objs = some (.obj oid ps) ∧ lookupS disc ps = some p ∧ discTyOK intKey p.ty = true
  | _ => False

/-- what the inlined one-of level needs to know about a member: its Unserialize results are
    property maps; it converts the discriminator property to exactly the value the one-of's own
    key conversion yields; its Serialize keeps the key set and the discriminator value -/
def MemberInl (rec : Rec) (x : Ext) (env : Env) (t : Ty) (intKey : Bool) (disc : String) : Prop :=
  (∀ v r, rec .U env t v = .ok r → ∃ rm, r = toStrAny rm) ∧
  (∀ m rm d key, rec .U env t (toStrAny m) = .ok (toStrAny rm) → lookupS disc m = some d →
    DiscDenotes x intKey d key → lookupS disc rm = some key.toV) ∧
  (∀ rm w, rec .S env t (toStrAny rm) = .ok w → ∃ wm, w = toStrAny wm ∧ (∀ k, hasKey k wm = hasKey k rm) ∧
    (∀ d key, DiscDenotes x intKey d key → lookupS disc rm = some key.toV → lookupS disc wm = some key.toV))

theorem strDenotes_fun {x : Ext} {d : V} {s s' : String} (h : StrDenotes x d s) (h' : StrDenotes x d s') : s = s' := by
  have h1 := (stringInputMapper_ok_iff x d s).mpr h
  have h2 := (stringInputMapper_ok_iff x d s').mpr h'
  rw [h1] at h2
  exact Out.ok.inj h2

/-- an integer denoted under a units definition and also without one is the same integer -/
theorem intDenotes_plain_eq {u : Option Units} {d : V} {k n : Int} (h1 : IntDenotes u d k) (h2 : IntDenotes none d n) :
    k = n := by
  cases h1 with
  | int _ => cases h2; rfl
  | float hf =>
    cases h2 with
    | float hf' => rw [hf] at hf'; exact Option.some.inj hf'
  | strPlain _ hp =>
    cases h2 with
    | strPlain _ hp' => rw [hp] at hp'; exact Option.some.inj hp'
    | strUnits hu _ => cases hu
  | strUnits _ hp =>
    cases h2 with
    | strPlain _ hp' => exact UnitsPlain.unitsParseInt_plain _ _ _ _ hp' hp
    | strUnits hu _ => cases hu
  | bool => cases h2; rfl

/-- Unserialize of a discriminator property of the key kind yields the one-of's converted key -/
theorem discProp_unser (x : Ext) (n : Nat) (env : Env) (ik : Bool) (T : Ty) (hT : discTyOK ik T = true)
    (d d' : V) (key : Key) (hk : DiscDenotes x ik d key) (h : run x n .U env T d = .ok d') : d' = key.toV := by
  cases n with
  | zero => simp [run] at h
  | succ n =>
    unfold DiscDenotes at hk
    cases T <;> simp only [discTyOK, Bool.not_eq_true', Bool.false_eq_true] at hT
    · -- int
      subst hT
      simp only [if_true] at hk
      obtain ⟨k, hk1, rfl⟩ := hk
      obtain ⟨k', hk', _, rfl⟩ := (C02_int_unser_iff x n env _ _ _ d d').mp h
      rw [intDenotes_plain_eq hk' hk1]; rfl
    · -- str
      subst hT
      simp only [Bool.false_eq_true, if_false] at hk
      obtain ⟨s, hs, rfl⟩ := hk
      obtain ⟨s', hs', _, rfl⟩ := (C02_str_unser_iff x n env _ _ _ d d').mp h
      rw [strDenotes_fun hs' hs]; rfl
    · -- enumInt
      subst hT
      simp only [if_true] at hk
      obtain ⟨k, hk1, rfl⟩ := hk
      obtain ⟨k', hk', _, rfl⟩ := (C02_enumInt_unser_iff x n env _ _ d d').mp h
      rw [intDenotes_plain_eq hk' hk1]; rfl
    · -- enumStr
      subst hT
      simp only [Bool.false_eq_true, if_false] at hk
      obtain ⟨s, hs, rfl⟩ := hk
      obtain ⟨s', hs', _, rfl⟩ := (C02_enumStr_unser_iff x n env _ d d').mp h
      rw [strDenotes_fun hs' hs]; rfl

/-- Serialize of a discriminator property of the key kind is the identity on a converted key -/
theorem discProp_ser (x : Ext) (n : Nat) (env : Env) (ik : Bool) (T : Ty) (hT : discTyOK ik T = true)
    (d e' : V) (key : Key) (hk : DiscDenotes x ik d key) (h : run x n .S env T key.toV = .ok e') : e' = key.toV := by
  cases n with
  | zero => simp [run] at h
  | succ n =>
    unfold DiscDenotes at hk
    cases T <;> simp only [discTyOK, Bool.not_eq_true', Bool.false_eq_true] at hT
    · -- int
      subst hT
      simp only [if_true] at hk
      obtain ⟨k, hk1, rfl⟩ := hk
      exact (((C02_int_native x n env _ _ _ k (intDenotes_inInt64 hk1)).2 e').mp h).2
    · -- str
      subst hT
      simp only [Bool.false_eq_true, if_false] at hk
      obtain ⟨s, _, rfl⟩ := hk
      exact (((C02_str_native x n env _ _ _ s).2 e').mp h).2
    · -- enumInt
      subst hT
      simp only [if_true] at hk
      obtain ⟨k, hk1, rfl⟩ := hk
      have hw := wrapInt64_of_inInt64 (intDenotes_inInt64 hk1)
      simp only [run, runEnumInt, Key.toV, asInt, V.under, hw, Out.bind] at h
      split at h
      · simp at h; exact h.symm
      · simp [cerr] at h
    · -- enumStr
      subst hT
      simp only [Bool.false_eq_true, if_false] at hk
      obtain ⟨s, _, rfl⟩ := hk
      simp only [run, runEnumStr, Key.toV, asString, V.under, Out.bind] at h
      split at h
      · simp at h; exact h.symm
      · simp [cerr] at h

theorem allSV_lookup {f : String → V → Out V} {m m' : List (String × V)} (h : AllSV f m m') {k : String} {d : V}
    (hl : lookupS k m = some d) : ∃ d', lookupS k m' = some d' ∧ f k d = .ok d' := by
  induction h with
  | nil => simp [lookupS] at hl
  | @cons k0 v v' rest rest' hf _ ih =>
    simp only [lookupS] at hl ⊢
    split at hl
    · rename_i hk
      have : k = k0 := by simpa using hk
      subst this
      simp at hl; subst hl
      exact ⟨v', by simp, hf⟩
    · rename_i hk
      simp only [hk, if_false, Bool.false_eq_true]
      exact ih hl

theorem toStrAny_inj {a b : List (String × V)} (h : toStrAny a = toStrAny b) : a = b := by
  simp only [toStrAny, V.map.injEq, true_and] at h
  induction a generalizing b with
  | nil => cases b <;> simp_all
  | cons p rest ih =>
    cases b with
    | nil => simp at h
    | cons q rest' =>
      obtain ⟨k1, v1⟩ := p
      obtain ⟨k2, v2⟩ := q
      simp only [List.map_cons, List.cons.injEq, Prod.mk.injEq, V.str.injEq] at h
      obtain ⟨⟨hk, hv⟩, hr⟩ := h
      rw [hk, hv, ih hr]

theorem memberInl_obj (x : Ext) (n : Nat) (env : Env) (id : String) (props : List (String × PropT)) (ik : Bool)
    (disc : String) (p : PropT) (hp : lookupS disc props = some p) (hT : discTyOK ik p.ty = true) :
    MemberInl (run x (n + 1)) x env (.obj id props) ik disc := by
  refine ⟨?_, ?_, ?_⟩
  · intro v r h
    simp only [run, runObj] at h
    obtain ⟨m', _, h2⟩ := bind_eq_ok h
    obtain ⟨_, _, h4⟩ := bind_eq_ok h2
    simp at h4; subst h4
    exact ⟨m', rfl⟩
  · intro m rm d key h hl hk
    obtain ⟨skvs, m1, m', hs, _, hdef, hfor, _, hr⟩ := (C03_obj_unser_iff x n env id props _ _ _).mp h
    rw [strKeys_toStrAny] at hs
    cases hs
    have := toStrAny_inj hr
    subst this
    have hl1 := C03_default_keeps_supplied props _ m1 disc d hdef hl
    obtain ⟨d', hl', hf⟩ := allSV_lookup (forSV_ok_iff.mp hfor) hl1
    unfold objEntryU at hf
    rw [hp] at hf
    simp only at hf
    split at hf
    · simp [cerrAt] at hf
    · rw [discProp_unser x n env ik p.ty hT d d' key hk (addSeg_eq_ok.mp hf)] at hl'
      exact hl'
  · intro rm w h
    simp only [run, runObj, toStrAny, MapShape.strAny, strKeys_toStrAny] at h
    obtain ⟨_, _, h2⟩ := bind_eq_ok h
    obtain ⟨wm, h3, h4⟩ := bind_eq_ok h2
    simp at h4
    have hall := forSV_ok_iff.mp h3
    refine ⟨wm, by simp [toStrAny, MapShape.strAny, h4], fun k => hasKey_eq_of_keys (allSV_keys hall) k, ?_⟩
    intro d key hk hl
    obtain ⟨e', hl', hf⟩ := allSV_lookup hall hl
    unfold objEntry at hf
    rw [hp] at hf
    simp only at hf
    rw [discProp_ser x n env ik p.ty hT d e' key hk (addSeg_eq_ok.mp hf)] at hl'
    exact hl'

theorem find_lookup_disc (disc : String) : ∀ (kvs : List (V × V)) (m : List (String × V)) (dk d : V),
    strKeys? kvs = some m → kvs.find? (isDiscKey disc) = some (dk, d) → lookupS disc m = some d
  | [], _, _, _, _, hf => by simp at hf
  | (k, v) :: rest, m, dk, d, hs, hf => by
    cases k <;> simp only [strKeys?, reduceCtorEq] at hs
    rename_i s
    cases hr : strKeys? rest with
    | none => simp [hr] at hs
    | some a =>
      simp [hr] at hs
      subst hs
      simp only [List.find?_cons, isDiscKey] at hf
      by_cases hsd : s = disc
      · subst hsd
        simp at hf
        simp [lookupS, hf.2]
      · have h1 : (s == disc) = false := by simpa using hsd
        have h2 : (disc == s) = false := by simpa using (fun h : disc = s => hsd h.symm)
        simp only [h1] at hf
        simp only [lookupS, h2, if_false, Bool.false_eq_true]
        exact find_lookup_disc disc rest a dk d hr hf

theorem lookup_find_disc (disc : String) (d : V) : ∀ (m : List (String × V)), lookupS disc m = some d →
    (m.map fun (kv : String × V) => (V.str kv.1, kv.2)).find? (isDiscKey disc) = some (V.str disc, d)
  | [], h => by simp [lookupS] at h
  | (k, v) :: rest, h => by
    simp only [lookupS] at h
    simp only [List.map_cons, List.find?_cons, isDiscKey]
    by_cases hkd : k = disc
    · subst hkd
      simp at h
      simp [h]
    · have h1 : (k == disc) = false := by simpa using hkd
      have h2 : (disc == k) = false := by simpa using (fun h : disc = k => hkd h.symm)
      simp only [h2, if_false, Bool.false_eq_true] at h
      simp only [h1]
      exact lookup_find_disc disc d rest h

theorem setKey_same {α} (k : String) (v : α) : ∀ (m : List (String × α)), lookupS k m = some v → setKey k v m = m
  | [], h => by simp [lookupS] at h
  | (k', v') :: rest, h => by
    simp only [lookupS] at h
    simp only [setKey]
    split at h
    · rename_i hk
      have : k = k' := by simpa using hk
      subst this
      simp at h; subst h
      simp
    · rename_i hk
      simp only [hk, if_false, Bool.false_eq_true]
      rw [setKey_same k v rest h]

theorem discDenotes_fun {x : Ext} {ik : Bool} {d : V} {k k' : Key} (h : DiscDenotes x ik d k) (h' : DiscDenotes x ik d k') :
    k = k' := by
  have h1 := (typedDisc_ok_iff x ik d k).mpr h
  have h2 := (typedDisc_ok_iff x ik d k').mpr h'
  rw [h1] at h2
  exact Out.ok.inj h2

theorem rt_oneOf_inl (x : Ext) (n : Nat) (env : Env) (intKey : Bool) (disc : String) (members : List (Key × Ty))
    (hrt : ∀ m, m ∈ members → RT (run x n) env m.2)
    (hmem : ∀ m, m ∈ members → MemberInl (run x n) x env m.2 intKey disc) :
    RT (run x (n + 1)) env (.oneOf intKey disc true members) := by
  intro v r h
  -- the input is a map (everything else is rejected)
  have hvm : ∃ sh kvs, v = .map sh kvs := by
    simp only [run, runOneOf, oneOfUnser] at h
    split at h
    · simp [plain] at h
    · split at h
      · simp [cerr] at h
      · rename_i sh kvs hm
        cases v <;> simp [V.mapEntries?] at hm
        obtain ⟨rfl, rfl⟩ := hm
        exact ⟨_, _, rfl⟩
  obtain ⟨sh, kvs, rfl⟩ := hvm
  obtain ⟨hsh, dk, d, key, m, mt, mr, hfind, hkey, hm, hmt, hmr⟩ :=
    C03_oneof_routes x n env intKey disc true members sh kvs r h
  simp only [if_true] at hmr
  have hmm : (key, mt) ∈ members := lookupK_mem hmt
  obtain ⟨hU, hD, hS⟩ := hmem _ hmm
  obtain ⟨rm, hrm⟩ := hU _ _ hmr
  subst hrm
  -- the member already converted the discriminator to the one-of's key
  have hld : lookupS disc m = some d := find_lookup_disc disc kvs m dk d hm hfind
  have hlk : lookupS disc rm = some key.toV := hD m rm d key hmr hld hkey
  -- so attaching the converted discriminator changes nothing
  have hr : r = toStrAny rm := by
    have := C03_oneof_accepts x n env intKey disc true members sh kvs dk d key m rm mt hsh hfind hkey hm hmt
      (by simp only [if_true]; exact hmr)
    rw [this] at h
    simp at h
    rw [← h, setKey_same _ _ _ hlk]
  subst hr
  obtain ⟨hV, w, hSm, hUw⟩ := hrt _ hmm _ _ hmr
  obtain ⟨wm, hwm, hwk, hwd⟩ := hS _ _ hSm
  subst hwm
  have hlw : lookupS disc wm = some key.toV := hwd d key hkey hlk
  have hdw : hasKey disc wm = true := by simp [hasKey, hlw]
  obtain ⟨htyped, hkey'⟩ := key_toV_typed x intKey d key hkey
  have hsel : oneOfSelect (run x n) env intKey disc true members false rm = .ok (key, mt, rm) := by
    simp only [oneOfSelect, hlk, Bool.false_eq_true, if_false, if_true]
    unfold DiscDenotes at hkey'
    by_cases hik : intKey = true
    · simp only [hik, if_true] at hkey'
      obtain ⟨k, _, hk⟩ := hkey'
      subst hk
      simp only [Key.toV, hik, if_true, hmt]
    · simp only [hik, if_false, Bool.false_eq_true] at hkey'
      obtain ⟨k, _, hk⟩ := hkey'
      subst hk
      simp only [Key.toV, hik, if_false, Bool.false_eq_true, hmt]
  refine ⟨?_, toStrAny wm, ?_, ?_⟩
  · simp only [run, runOneOf, toStrAny, MapShape.strAny, strKeys_toStrAny]
    rw [hsel]
    simp only [Out.bind]
    have : run x n .V env mt (toStrAny rm) = done := hV
    simp only [toStrAny, MapShape.strAny] at this
    rw [this]
    simp [done, addSeg]
  · simp only [run, runOneOf, toStrAny, MapShape.strAny, strKeys_toStrAny]
    rw [hsel]
    simp only [Out.bind]
    have : run x n .S env mt (toStrAny rm) = .ok (toStrAny wm) := hSm
    simp only [toStrAny, MapShape.strAny] at this
    rw [this]
    simp only [strKeys_toStrAny, hdw, if_true]
  · have hfind' := lookup_find_disc disc key.toV wm hlw
    have := C03_oneof_accepts x n env intKey disc true members .strAny
      (wm.map fun (kv : String × V) => (V.str kv.1, kv.2))
      (V.str disc) key.toV key wm rm mt (Or.inr rfl) hfind' hkey'
      (strKeys_toStrAny _) hmt (by simp only [if_true]; exact hUw)
    simp only [toStrAny] at this ⊢
    rw [this, setKey_same _ _ _ hlk]

end Arca

namespace Arca
open Out

/-! ### the induction over the schema -/

/-- does the object denoted by an object-like schema declare the property `disc`? -/
def declares (env : Env) (disc : String) : Ty → Prop
  | .obj _ props => hasKey disc props = true
  | .ref id => ∃ oid ps, lookupS id env = some (.obj oid ps) ∧ hasKey disc ps = true
  | .scope objs root => ∃ oid ps, lookupS root objs = some (.obj oid ps) ∧ hasKey disc ps = true
  | _ => False

/-- Schemas covered by the round-trip theorem: as `WF` (minus the condition on defaults, which the
    round trip does not need), plus, for one-ofs, exactly what `ApplyNamespace`
    (`validateSubtypeDiscriminatorInlineFields`) checks and panics on otherwise:

    * `oneOf` (discriminator NOT inlined): every member is object-like and does NOT declare the
      discriminator property;
    * `oneOfInl` (discriminator inlined): every member is object-like and DECLARES the
      discriminator property, with a type of the one-of's key kind (`declaresTyped`, `discTyOK`:
      a string-keyed one-of needs a string or string-enum property, an int-keyed one-of an int or
      int-enum property - units allowed).

    Nothing else is required of an inlined discriminator property: it may be optional or required,
    carry a default, bounds, a pattern, enum values excluding some keys, conflict / required-if
    rules. (Where such a declaration excludes a key the member rejects the input at Unserialize, so
    there is nothing to round-trip; a default never applies because the one-of itself rejects a
    map without the discriminator.) -/
inductive WF1 : Env → Ty → Prop
  | int {env a b u} : WF1 env (.int a b u)
  | float {env a b u} : WF1 env (.float a b u)
  | str {env a b p} : WF1 env (.str a b p)
  | bool {env} : WF1 env .bool
  | pattern {env} : WF1 env .pattern
  | enumInt {env vs u} : WF1 env (.enumInt vs u)
  | enumStr {env vs} : WF1 env (.enumStr vs)
  | any {env} : WF1 env .any
  | list {env item a b} : WF1 env item → WF1 env (.list item a b)
  | map {env k v a b} : WF1 env k → WF1 env v → WF1 env (.map k v a b)
  | obj {env id props} : (∀ np, np ∈ props → WF1 env np.2.ty) → WF1 env (.obj id props)
  | oneOf {env ik d members} :
      (∀ m, m ∈ members → WF1 env m.2) → (∀ m, m ∈ members → ObjLike env m.2) →
      (∀ m, m ∈ members → ¬ declares env d m.2) → WF1 env (.oneOf ik d false members)
  | oneOfInl {env ik d members} :
      (∀ m, m ∈ members → WF1 env m.2) → (∀ m, m ∈ members → declaresTyped env ik d m.2) →
      WF1 env (.oneOf ik d true members)
  | ref {env id o} : lookupS id env = some o → WF1 env (.ref id)
  | scope {env objs root o} :
      lookupS root objs = some o → (∀ p, p ∈ objs → WF1 objs p.2) → WF1 env (.scope objs root)

def EnvWF1 (env : Env) : Prop := ∀ p, p ∈ env → WF1 env p.2

theorem declaresTyped_objLike {env : Env} {ik : Bool} {disc : String} {t : Ty} (h : declaresTyped env ik disc t) :
    ObjLike env t := by
  cases t <;> simp only [declaresTyped] at h <;> simp only [ObjLike]
  · obtain ⟨oid, ps, _, hl, _⟩ := h; exact ⟨oid, ps, hl⟩
  · obtain ⟨oid, ps, _, hl, _⟩ := h; exact ⟨oid, ps, hl⟩

theorem mem_of_hasKey {α} {k : String} {m : List (String × α)} (h : hasKey k m = true) : ∃ v, (k, v) ∈ m := by
  simp only [hasKey] at h
  cases hl : lookupS k m with
  | none => simp [hl] at h
  | some v => exact ⟨v, lookupS_mem hl⟩

theorem memberOK_obj (x : Ext) (n : Nat) (env : Env) (id : String) (props : List (String × PropT)) (disc : String)
    (hnd : ¬ hasKey disc props = true) : MemberOK (run x (n + 1)) env (.obj id props) disc := by
  constructor
  · intro v r h
    simp only [run, runObj] at h
    obtain ⟨m', h1, h2⟩ := bind_eq_ok h
    obtain ⟨_, _, h4⟩ := bind_eq_ok h2
    simp at h4; subst h4
    refine ⟨m', rfl, ?_⟩
    obtain ⟨hok, _⟩ := objRaw_spec h1
    cases hk : hasKey disc m' with
    | false => rfl
    | true =>
      obtain ⟨e, he⟩ := mem_of_hasKey hk
      obtain ⟨p, _, hp, _, _⟩ := hok _ he
      exact absurd (by simp [hasKey, hp]) hnd
  · intro rm w h
    simp only [run, runObj, toStrAny, MapShape.strAny, strKeys_toStrAny] at h
    obtain ⟨_, _, h2⟩ := bind_eq_ok h
    obtain ⟨wm, h3, h4⟩ := bind_eq_ok h2
    simp at h4
    exact ⟨wm, by simp [toStrAny, MapShape.strAny, h4], fun k => hasKey_eq_of_keys (allSV_keys (forSV_ok_iff.mp h3)) k⟩

/-- the three facts the induction carries: the round trip itself, and what a one-of one level up
    needs from this schema as a member (non-inlined / inlined) -/
def RTAux (x : Ext) (n : Nat) (env : Env) (t : Ty) : Prop :=
  RT (run x n) env t ∧
  (ObjLike env t → ∀ disc, ¬ declares env disc t → MemberOK (run x n) env t disc) ∧
  (∀ ik disc, declaresTyped env ik disc t → MemberInl (run x n) x env t ik disc)

theorem rtAux_leaf {x : Ext} {n : Nat} {env : Env} {t : Ty} (h : RT (run x n) env t)
    (hno : ¬ ObjLike env t) : RTAux x n env t :=
  ⟨h, fun ho => absurd ho hno, fun _ _ hd => absurd (declaresTyped_objLike hd) hno⟩

theorem rt_aux' (x : Ext) : ∀ (n : Nat) (env : Env) (t : Ty), EnvWF1 env → WF1 env t → RTAux x n env t
  | 0, env, t, _, _ => by
    refine ⟨fun v r h => by simp [run] at h, fun _ disc _ => ⟨fun v r h => by simp [run] at h, fun rm w h => by simp [run] at h⟩,
      fun _ _ _ => ⟨fun v r h => by simp [run] at h, fun m rm d key h => by simp [run] at h, fun rm w h => by simp [run] at h⟩⟩
  | n + 1, env, t, henv, hwf => by
    have ih := rt_aux' x n
    cases hwf with
    | int => exact rtAux_leaf (rt_int x n env _ _ _) (by simp [ObjLike])
    | float => exact rtAux_leaf (rt_float x n env _ _ _) (by simp [ObjLike])
    | str => exact rtAux_leaf (rt_str x n env _ _ _) (by simp [ObjLike])
    | bool => exact rtAux_leaf (rt_bool x n env) (by simp [ObjLike])
    | pattern => exact rtAux_leaf (rt_pattern x n env) (by simp [ObjLike])
    | enumInt => exact rtAux_leaf (rt_enumInt x n env _ _) (by simp [ObjLike])
    | enumStr => exact rtAux_leaf (rt_enumStr x n env _) (by simp [ObjLike])
    | any => exact rtAux_leaf (rt_any x n env) (by simp [ObjLike])
    | list hi => exact rtAux_leaf (rt_list x n env _ _ _ (ih env _ henv hi).1) (by simp [ObjLike])
    | map hk hv =>
      exact rtAux_leaf (rt_map x n env _ _ _ _ (ih env _ henv hk).1 (ih env _ henv hv).1) (by simp [ObjLike])
    | obj hp =>
      refine ⟨rt_obj x n env _ _ (fun np hnp => (ih env _ henv (hp np hnp)).1), fun _ disc hnd => ?_, fun ik disc hd => ?_⟩
      · exact memberOK_obj x n env _ _ disc (by simpa [declares] using hnd)
      · simp only [declaresTyped] at hd
        obtain ⟨p, hp', hT⟩ := hd
        exact memberInl_obj x n env _ _ ik disc p hp' hT
    | oneOf hm ho hd =>
      refine rtAux_leaf ?_ (by simp [ObjLike])
      exact rt_oneOf x n env _ _ _ (fun m hmm => (ih env _ henv (hm m hmm)).1)
        (fun m hmm => (ih env _ henv (hm m hmm)).2.1 (ho m hmm) _ (hd m hmm))
    | oneOfInl hm hd =>
      refine rtAux_leaf ?_ (by simp [ObjLike])
      exact rt_oneOf_inl x n env _ _ _ (fun m hmm => (ih env _ henv (hm m hmm)).1)
        (fun m hmm => (ih env _ henv (hm m hmm)).2.2 _ _ (hd m hmm))
    | ref hl =>
      rename_i id o
      have ho : WF1 env o := henv _ (lookupS_mem hl)
      obtain ⟨hrt, hmo, hmi⟩ := ih env o henv ho
      have hrun : ∀ op v, run x (n + 1) op env (.ref id) v = run x n op env o v := by
        intro op v; simp [run, hl]
      refine ⟨?_, fun hobj disc hnd => ?_, fun ik disc hd => ?_⟩
      · intro v r h
        rw [hrun] at h
        obtain ⟨h1, w, h2, h3⟩ := hrt v r h
        exact ⟨by rw [hrun]; exact h1, w, by rw [hrun]; exact h2, by rw [hrun]; exact h3⟩
      · obtain ⟨oid, ps, hl'⟩ := hobj
        rw [hl] at hl'
        cases hl'
        have hnd' : ¬ declares env disc (.obj oid ps) := by
          intro hd
          exact hnd ⟨oid, ps, hl, hd⟩
        obtain ⟨m1, m2⟩ := hmo (by simp [ObjLike]) disc hnd'
        exact ⟨fun v r h => m1 v r (by rw [hrun] at h; exact h), fun rm w h => m2 rm w (by rw [hrun] at h; exact h)⟩
      · simp only [declaresTyped] at hd
        obtain ⟨oid, ps, p, hl', hp', hT⟩ := hd
        rw [hl] at hl'
        cases hl'
        obtain ⟨m1, m2, m3⟩ := hmi ik disc (by simp only [declaresTyped]; exact ⟨p, hp', hT⟩)
        exact ⟨fun v r h => m1 v r (by rw [hrun] at h; exact h),
          fun m rm d key h => m2 m rm d key (by rw [hrun] at h; exact h),
          fun rm w h => m3 rm w (by rw [hrun] at h; exact h)⟩
    | scope hl hobjs =>
      rename_i objs root o
      have ho : WF1 objs o := hobjs _ (lookupS_mem hl)
      obtain ⟨hrt, hmo, hmi⟩ := ih objs o hobjs ho
      have hrun : ∀ op v, run x (n + 1) op env (.scope objs root) v = run x n op objs o v := by
        intro op v; simp [run, hl]
      refine ⟨?_, fun hobj disc hnd => ?_, fun ik disc hd => ?_⟩
      · intro v r h
        rw [hrun] at h
        obtain ⟨h1, w, h2, h3⟩ := hrt v r h
        exact ⟨by rw [hrun]; exact h1, w, by rw [hrun]; exact h2, by rw [hrun]; exact h3⟩
      · obtain ⟨oid, ps, hl'⟩ := hobj
        rw [hl] at hl'
        cases hl'
        have hnd' : ¬ declares objs disc (.obj oid ps) := by
          intro hd
          exact hnd ⟨oid, ps, hl, hd⟩
        obtain ⟨m1, m2⟩ := hmo (by simp [ObjLike]) disc hnd'
        exact ⟨fun v r h => m1 v r (by rw [hrun] at h; exact h), fun rm w h => m2 rm w (by rw [hrun] at h; exact h)⟩
      · simp only [declaresTyped] at hd
        obtain ⟨oid, ps, p, hl', hp', hT⟩ := hd
        rw [hl] at hl'
        cases hl'
        obtain ⟨m1, m2, m3⟩ := hmi ik disc (by simp only [declaresTyped]; exact ⟨p, hp', hT⟩)
        exact ⟨fun v r h => m1 v r (by rw [hrun] at h; exact h),
          fun m rm d key h => m2 m rm d key (by rw [hrun] at h; exact h),
          fun rm w h => m3 rm w (by rw [hrun] at h; exact h)⟩

/-- the statement under its previous name and shape (round trip + the non-inlined member facts) -/
theorem rt_aux (x : Ext) (n : Nat) (env : Env) (t : Ty) (henv : EnvWF1 env) (hwf : WF1 env t) :
    RT (run x n) env t ∧ (ObjLike env t → ∀ disc, ¬ declares env disc t → MemberOK (run x n) env t disc) :=
  ⟨(rt_aux' x n env t henv hwf).1, (rt_aux' x n env t henv hwf).2.1⟩

end Arca
