import ArcaModel.Props.C03
/-
  Round trip lemmas (C01): per schema kind, if Unserialize of the level below round-trips then so
  does this level.
-/
namespace Arca
open Out

/-- the round-trip property of the recursive call at sub-schema `t`:
    whatever Unserialize accepts validates, serializes, and unserializes back to itself -/
def RT (rec : Rec) (env : Env) (t : Ty) : Prop :=
  ∀ v r, rec .U env t v = .ok r →
    rec .V env t r = done ∧ ∃ w, rec .S env t r = .ok w ∧ rec .U env t w = .ok r

/-! ### integers produced by the mappers are int64 values -/

theorem wrapInt64_of_inInt64 {n : Int} (hn : inInt64 n = true) : wrapInt64 n = n := by
  unfold inInt64 minInt64 maxInt64 at hn
  unfold wrapInt64
  simp at hn
  have h1 : (2:Int)^64 = 18446744073709551616 := by decide
  have h2 : (2:Int)^63 = 9223372036854775808 := by decide
  simp only [h1, h2] at *
  split <;> omega

theorem accInt_inInt64 {acc i m a : Int} (h : accInt acc i m = some a) : inInt64 a = true := by
  unfold accInt at h
  simp only at h
  split at h
  · simp at h
  · split at h
    · simp at h
    · rename_i hs
      simp at h; subst h
      simpa using hs

theorem parseInt10_inInt64 {s : String} {n : Int} (h : parseInt10 s = some n) : inInt64 n = true := by
  unfold parseInt10 at h
  simp only at h
  split at h
  · split at h
    · rename_i hr
      simp at h; subst h; exact hr
    · simp at h
  · simp at h

theorem parseIntGo_inInt64 : ∀ (caps : List String) (ms : List Int) (acc a : Int),
    Units.parseInt.go caps ms acc = some a → inInt64 acc = true → inInt64 a = true
  | [], _, acc, a, h, hacc => by simp [Units.parseInt.go] at h; subst h; exact hacc
  | _ :: _, [], acc, a, h, hacc => by simp [Units.parseInt.go] at h; subst h; exact hacc
  | c :: cs, m :: ms, acc, a, h, hacc => by
    simp only [Units.parseInt.go] at h
    split at h
    · exact parseIntGo_inInt64 cs ms acc a h hacc
    · split at h
      · simp at h
      · split at h
        · simp at h
        · rename_i a' ha'
          exact parseIntGo_inInt64 cs ms a' a h (accInt_inInt64 ha')

theorem unitsParseInt_inInt64 {u : Units} {s : String} {n : Int} (h : u.parseInt s = some n) : inInt64 n = true := by
  unfold Units.parseInt at h
  simp only at h
  split at h
  · simp at h
  · split at h
    · simp at h
    · rename_i caps b _
      split at h
      · simp at h
      · rename_i acc hgo
        have hacc : inInt64 acc = true := parseIntGo_inInt64 _ _ 0 acc hgo (by decide)
        split at h
        · simp at h; subst h; exact hacc
        · split at h
          · simp at h
          · split at h
            · simp at h
            · exact accInt_inInt64 h

theorem toInt64Exact_inInt64 {b : Nat} {n : Int} (h : F64.toInt64Exact b = some n) : inInt64 n = true := by
  unfold F64.toInt64Exact at h
  (repeat' split at h) <;> (try simp at h) <;>
    first | (obtain ⟨h1, h2⟩ := h; rw [← h2]; exact h1) | (obtain ⟨_, h1, h2⟩ := h; rw [← h2]; exact h1)

theorem intDenotes_inInt64 {u : Option Units} {v : V} {n : Int} (h : IntDenotes u v n) : inInt64 n = true := by
  cases h with
  | int hn => exact hn
  | float hf => exact toInt64Exact_inInt64 hf
  | strPlain _ hp => exact parseInt10_inInt64 hp
  | strUnits _ hp => exact unitsParseInt_inInt64 hp
  | bool => rename_i b; cases b <;> decide

/-! ### scalars -/

theorem rt_int (x : Ext) (n : Nat) (env : Env) (min max : Option Int) (u : Option Units) :
    RT (run x (n + 1)) env (.int min max u) := by
  intro v r h
  obtain ⟨k, hd, hb, hr⟩ := (C02_int_unser_iff x n env min max u v r).mp h
  subst hr
  have hk := intDenotes_inInt64 hd
  obtain ⟨hV, hS⟩ := C02_int_native x n env min max u k hk
  refine ⟨hV.mpr hb, .int .int64 k, (hS _).mpr ⟨hb, rfl⟩, ?_⟩
  exact (C02_int_unser_iff x n env min max u _ _).mpr ⟨k, .int hk, hb, rfl⟩

theorem rt_float (x : Ext) (n : Nat) (env : Env) (min max : Option Nat) (u : Option Units) :
    RT (run x (n + 1)) env (.float min max u) := by
  intro v r h
  obtain ⟨b, hd, hb, hr⟩ := (C02_float_unser_iff x n env min max u v r).mp h
  subst hr
  obtain ⟨hV, hS⟩ := C02_float_native x n env min max u b
  refine ⟨hV.mpr hb, .float .f64 b, (hS _).mpr ⟨hb, rfl⟩, ?_⟩
  exact (C02_float_unser_iff x n env min max u _ _).mpr ⟨b, .float, hb, rfl⟩

theorem rt_str (x : Ext) (n : Nat) (env : Env) (min max : Option Int) (pat : Option String) :
    RT (run x (n + 1)) env (.str min max pat) := by
  intro v r h
  obtain ⟨s, hd, hb, hr⟩ := (C02_str_unser_iff x n env min max pat v r).mp h
  subst hr
  obtain ⟨hV, hS⟩ := C02_str_native x n env min max pat s
  refine ⟨hV.mpr hb, .str s, (hS _).mpr ⟨hb, rfl⟩, ?_⟩
  exact (C02_str_unser_iff x n env min max pat _ _).mpr ⟨s, .str, hb, rfl⟩

theorem rt_bool (x : Ext) (n : Nat) (env : Env) : RT (run x (n + 1)) env .bool := by
  intro v r h
  obtain ⟨b, _, hr⟩ := (C02_bool_unser_iff x n env v r).mp h
  subst hr
  refine ⟨by simp [run, runBool, asBool, V.under, Out.bind], .bool b, by simp [run, runBool, asBool, V.under, Out.bind], ?_⟩
  exact (C02_bool_unser_iff x n env _ _).mpr ⟨b, .bool, rfl⟩

theorem rt_pattern (x : Ext) (n : Nat) (env : Env) : RT (run x (n + 1)) env .pattern := by
  intro v r h
  obtain ⟨s, _, hc, hr⟩ := (C02_pattern_unser_iff x n env v r).mp h
  subst hr
  refine ⟨by simp [run, runPattern], .str s, by simp [run, runPattern], ?_⟩
  exact (C02_pattern_unser_iff x n env _ _).mpr ⟨s, .str, hc, rfl⟩

theorem rt_enumInt (x : Ext) (n : Nat) (env : Env) (vals : List Int) (u : Option Units) :
    RT (run x (n + 1)) env (.enumInt vals u) := by
  intro v r h
  obtain ⟨k, hd, hm, hr⟩ := (C02_enumInt_unser_iff x n env vals u v r).mp h
  subst hr
  have hk := intDenotes_inInt64 hd
  have hw := wrapInt64_of_inInt64 hk
  refine ⟨by simp [run, runEnumInt, asInt, V.under, hw, Out.bind, hm], .int .int64 k,
    by simp [run, runEnumInt, asInt, V.under, hw, Out.bind, hm], ?_⟩
  exact (C02_enumInt_unser_iff x n env vals u _ _).mpr ⟨k, .int hk, hm, rfl⟩

theorem rt_enumStr (x : Ext) (n : Nat) (env : Env) (vals : List String) :
    RT (run x (n + 1)) env (.enumStr vals) := by
  intro v r h
  obtain ⟨s, hd, hm, hr⟩ := (C02_enumStr_unser_iff x n env vals v r).mp h
  subst hr
  refine ⟨by simp [run, runEnumStr, asString, V.under, Out.bind, hm], .str s,
    by simp [run, runEnumStr, asString, V.under, Out.bind, hm], ?_⟩
  exact (C02_enumStr_unser_iff x n env vals _ _).mpr ⟨s, .str, hm, rfl⟩

end Arca

namespace Arca
open Out

/-! ### the any schema: conversion is idempotent -/

theorem forall2_idem {g : V → Out V} (hidem : ∀ a b, g a = .ok b → g b = .ok b) {xs ys : List V}
    (h : Forall2 (fun e y => g e = .ok y) xs ys) : Forall2 (fun e y => g e = .ok y) ys ys := by
  induction h with
  | nil => exact .nil
  | cons hab _ ih => exact .cons (hidem _ _ hab) ih

theorem allIdx_any_iff {g : V → Out V} : ∀ {n : Nat} {xs ys : List V},
    AllIdx (fun i e => (g e).addSeg ("[" ++ toString i ++ "]")) n xs ys ↔ Forall2 (fun e y => g e = .ok y) xs ys := by
  intro n xs
  induction xs generalizing n with
  | nil =>
    intro ys
    constructor
    · intro h; cases h; exact .nil
    · intro h; cases h; exact .nil
  | cons x xs ih =>
    intro ys
    constructor
    · intro h
      cases h with
      | cons hx hr => exact .cons (addSeg_eq_ok.mp hx) (ih.mp hr)
    · intro h
      cases h with
      | cons hx hr => exact .cons (addSeg_eq_ok.mpr hx) (ih.mpr hr)

/-- the per-entry function of the any-schema's map conversion -/
def anyEntry (n : Nat) (k x : V) : Out (V × V) :=
  ((anyConvert n k).addSeg ("{" ++ fmtKey k ++ "}")).bind fun k' =>
    ((anyConvert n x).addSeg ("[" ++ fmtKey k' ++ "]")).bind fun x' => .ok (k', x')

theorem allKV_any_idem {n : Nat} (ih : ∀ v r, anyConvert n v = .ok r → anyConvert n r = .ok r)
    {kvs kvs' : List (V × V)} (hall : AllKV (anyEntry n) kvs kvs') : AllKV (anyEntry n) kvs' kvs' := by
  induction hall with
  | nil => exact .nil
  | @cons k v kv rest rest' hf _ ih' =>
    unfold anyEntry at hf
    obtain ⟨k', hk, h3⟩ := bind_eq_ok hf
    obtain ⟨x', hx, h4⟩ := bind_eq_ok h3
    simp at h4; subst h4
    refine .cons ?_ ih'
    simp [anyEntry, addSeg_eq_ok.mpr (ih _ _ (addSeg_eq_ok.mp hk)), addSeg_eq_ok.mpr (ih _ _ (addSeg_eq_ok.mp hx)), Out.bind]

theorem anyConvert_idem : ∀ (n : Nat) (v r : V), anyConvert n v = .ok r → anyConvert n r = .ok r
  | 0, _, _, h => by simp [anyConvert] at h
  | n + 1, v, r, h => by
    have ih := anyConvert_idem n
    unfold anyConvert at h
    split at h
    · -- integers
      split at h
      · simp at h; subst h; simp [anyConvert, V.under]
      · split at h
        · simp [plain] at h
        · obtain ⟨m, _, h2⟩ := bind_eq_ok h
          simp at h2; subst h2; simp [anyConvert, V.under]
    · -- floats
      (repeat' split at h) <;> simp [plain] at h <;> (subst h; simp [anyConvert, V.under])
    · simp at h; subst h; simp [anyConvert, V.under]
    · simp at h; subst h; simp [anyConvert, V.under]
    · -- slices
      obtain ⟨ys, h1, h2⟩ := bind_eq_ok h
      simp at h2; subst h2
      have hall := allIdx_any_iff.mp (forIdx_ok_iff.mp h1)
      have hys := forIdx_ok_iff.mpr (allIdx_any_iff (n := 0) |>.mpr (forall2_idem ih hall))
      simp only [anyConvert, V.under]
      rw [hys]; rfl
    · -- byte slices
      obtain ⟨ys, h1, h2⟩ := bind_eq_ok h
      simp at h2; subst h2
      have hall := allIdx_any_iff.mp (forIdx_ok_iff.mp h1)
      have hys := forIdx_ok_iff.mpr (allIdx_any_iff (n := 0) |>.mpr (forall2_idem ih hall))
      simp only [anyConvert, V.under]
      rw [hys]; rfl
    · -- maps
      obtain ⟨kvs', h1, h2⟩ := bind_eq_ok h
      split at h2
      · simp [cerr] at h2
      · rename_i hd
        simp at h2; subst h2
        have hall : AllKV (anyEntry n) _ kvs' := forKV_ok_iff.mp h1
        have hself := allKV_any_idem ih hall
        have hf := forKV_ok_iff.mpr hself
        unfold anyEntry at hf
        simp only [anyConvert, V.under]
        rw [hf]
        simp [Out.bind, hd]
    · simp [cerr] at h

theorem rt_any (x : Ext) (n : Nat) (env : Env) : RT (run x (n + 1)) env .any := by
  intro v r h
  simp only [run, runAny] at h ⊢
  have hr := anyConvert_idem _ _ _ h
  exact ⟨by simp [hr, Out.bind], r, hr, hr⟩

end Arca

namespace Arca
open Out

/-! ### lists -/

theorem forall2_rt_split {rec : Rec} {env : Env} {item : Ty} (hi : RT rec env item) {xs ys : List V}
    (h : Forall2 (fun e y => rec .U env item e = .ok y) xs ys) :
    Forall2 (fun y u => rec .V env item y = .ok u) ys (ys.map fun _ => unitV) ∧
    ∃ ws, Forall2 (fun y w => rec .S env item y = .ok w) ys ws ∧ Forall2 (fun w y => rec .U env item w = .ok y) ws ys := by
  induction h with
  | nil => exact ⟨.nil, [], .nil, .nil⟩
  | cons hab _ ih =>
    obtain ⟨hv, w, hs, hu⟩ := hi _ _ hab
    obtain ⟨ihv, ws, ihs, ihu⟩ := ih
    exact ⟨.cons hv ihv, w :: ws, .cons hs ihs, .cons hu ihu⟩

theorem rt_list (x : Ext) (n : Nat) (env : Env) (item : Ty) (mn mx : Option Int) (hi : RT (run x n) env item) :
    RT (run x (n + 1)) env (.list item mn mx) := by
  intro v r h
  obtain ⟨xs, ys, _, hl, hall, hr⟩ := (C02_list_unser_iff x n env item mn mx v r).mp h
  subst hr
  obtain ⟨hv, ws, hs, hu⟩ := forall2_rt_split hi hall
  have hlen : ys.length = xs.length := hall.length_eq.symm
  have hl' : LenOK mn mx ys.length := by rw [hlen]; exact hl
  have hlw : LenOK mn mx ws.length := by rw [← hs.length_eq]; exact hl'
  have hV := forIdx_ok_iff.mpr (allIdx_addSeg_iff (n := 0) |>.mpr hv)
  have hS := forIdx_ok_iff.mpr (allIdx_addSeg_iff (n := 0) |>.mpr hs)
  refine ⟨?_, .list ws, ?_, ?_⟩
  · simp only [run, runList, V.sliceElems?, (checkLen_ok_iff _ _ _).mpr hl', Out.bind, hV]
  · simp only [run, runList, V.sliceElems?, (checkLen_ok_iff _ _ _).mpr hl', Out.bind, hV, hS]
  · exact (C02_list_unser_iff x n env item mn mx _ _).mpr ⟨ws, ys, rfl, hlw, hu, rfl⟩

/-! ### maps -/

theorem forall2_rt_split_kv {rec : Rec} {env : Env} {kt vt : Ty} (hk : RT rec env kt) (hv : RT rec env vt)
    {kvs es : List (V × V)}
    (h : Forall2 (fun (kv kv' : V × V) => rec .U env kt kv.1 = .ok kv'.1 ∧ rec .U env vt kv.2 = .ok kv'.2) kvs es) :
    Forall2 (fun (kv kv' : V × V) => rec .V env kt kv.1 = .ok kv'.1 ∧ rec .V env vt kv.2 = .ok kv'.2) es (es.map fun (_ : V × V) => ((unitV, unitV) : V × V)) ∧
    ∃ ws, Forall2 (fun (kv kv' : V × V) => rec .S env kt kv.1 = .ok kv'.1 ∧ rec .S env vt kv.2 = .ok kv'.2) es ws ∧
      Forall2 (fun (kv kv' : V × V) => rec .U env kt kv.1 = .ok kv'.1 ∧ rec .U env vt kv.2 = .ok kv'.2) ws es := by
  induction h with
  | nil => exact ⟨.nil, [], .nil, .nil⟩
  | cons hab _ ih =>
    obtain ⟨hkv, wk, hks, hku⟩ := hk _ _ hab.1
    obtain ⟨hvv, wv, hvs, hvu⟩ := hv _ _ hab.2
    obtain ⟨ihv, ws, ihs, ihu⟩ := ih
    exact ⟨.cons ⟨hkv, hvv⟩ ihv, (wk, wv) :: ws, .cons ⟨hks, hvs⟩ ihs, .cons ⟨hku, hvu⟩ ihu⟩

theorem rt_map (x : Ext) (n : Nat) (env : Env) (kt vt : Ty) (mn mx : Option Int)
    (hk : RT (run x n) env kt) (hv : RT (run x n) env vt) :
    RT (run x (n + 1)) env (.map kt vt mn mx) := by
  intro v r h
  obtain ⟨sh, kvs, es, _, hl, hall, hd, hr⟩ := (C02_map_unser_iff x n env kt vt mn mx v r).mp h
  subst hr
  obtain ⟨hvv, ws, hs, hu⟩ := forall2_rt_split_kv hk hv hall
  have hlen : es.length = kvs.length := hall.length_eq.symm
  have hl' : LenOK mn mx es.length := by rw [hlen]; exact hl
  have hlw : LenOK mn mx ws.length := by rw [← hs.length_eq]; exact hl'
  have hV := forKV_ok_iff.mpr (allKV_entry_iff.mpr hvv)
  have hS := forKV_ok_iff.mpr (allKV_entry_iff.mpr hs)
  refine ⟨?_, .map .anyAny ws, ?_, ?_⟩
  · simp only [run, runMap, V.mapEntries?, (checkLen_ok_iff _ _ _).mpr hl', Out.bind, hV]
  · simp only [run, runMap, V.mapEntries?, (checkLen_ok_iff _ _ _).mpr hl', Out.bind, hV, hS]
  · exact (C02_map_unser_iff x n env kt vt mn mx _ _).mpr ⟨.anyAny, ws, es, rfl, hlw, hu, hd, rfl⟩

end Arca
