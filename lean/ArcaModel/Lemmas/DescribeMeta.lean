import ArcaModel.Lemmas.DescribeEval
/-
  Evaluation of the meta-schema (`Meta.scopeObjs` / `Meta.schemaObjs`) on the description of a
  schema: `run .U` returns the description in normal representation (C09).
-/
namespace Arca
open Out Meta

/-- an environment that contains the objects of `DescribeScope()` -/
structure MetaEnv (E : Env) : Prop where
  any : lookupS "AnySchema" E = some oAny
  bool : lookupS "BoolSchema" E = some oBool
  display : lookupS "Display" E = some oDisplay
  float : lookupS "Float" E = some oFloat
  int : lookupS "Int" E = some oInt
  intEnum : lookupS "IntEnum" E = some oIntEnum
  list : lookupS "List" E = some oList
  map : lookupS "Map" E = some oMap
  object : lookupS "Object" E = some oObject
  oneOfInt : lookupS "OneOfIntSchema" E = some oOneOfInt
  oneOfString : lookupS "OneOfStringSchema" E = some oOneOfString
  pattern : lookupS "Pattern" E = some oPattern
  property : lookupS "Property" E = some oProperty
  ref : lookupS "Ref" E = some oRef
  scope : lookupS "Scope" E = some oScope
  string : lookupS "String" E = some oString
  stringEnum : lookupS "StringEnum" E = some oStringEnum
  unit : lookupS "Unit" E = some oUnit
  units : lookupS "Units" E = some oUnits

theorem metaEnv_scope : MetaEnv scopeObjs :=
  ⟨rfl, rfl, rfl, rfl, rfl, rfl, rfl, rfl, rfl, rfl, rfl, rfl, rfl, rfl, rfl, rfl, rfl, rfl, rfl⟩
theorem metaEnv_schema : MetaEnv schemaObjs :=
  ⟨rfl, rfl, rfl, rfl, rfl, rfl, rfl, rfl, rfl, rfl, rfl, rfl, rfl, rfl, rfl, rfl, rfl, rfl, rfl⟩
theorem metaEnv_stepOutput : MetaEnv stepOutputObjs :=
  ⟨rfl, rfl, rfl, rfl, rfl, rfl, rfl, rfl, rfl, rfl, rfl, rfl, rfl, rfl, rfl, rfl, rfl, rfl, rfl⟩

/-- representations the lemmas apply to: objects arrive as maps keyed by `string` or `any`,
    patterns as strings -/
structure Rep.Good (r : Rep) : Prop where
  objKey : r.objShape.key = .any ∨ r.objShape.key = .string
  pat : ∀ s, r.pat s = V.str s

theorem Rep.direct_good : Rep.direct.Good := ⟨Or.inr rfl, fun _ => rfl⟩
theorem Rep.cbor_good : Rep.cbor.Good := ⟨Or.inl rfl, fun _ => rfl⟩

/-! ### checks on the property tables (closed terms: decided by evaluation) -/

/-- sufficient for `noPending`: every property with a default is among `ks`, and `ks` are set -/
theorem noPending_of (props : List (String × PropT)) (ks : List String) (m : List (String × V))
    (h1 : (props.all fun kp => kp.2.defaultV.isNone || ks.contains kp.1) = true)
    (h2 : ∀ k, k ∈ ks → hasKey k m = true) : noPending props m = true := by
  simp only [noPending, List.all_eq_true, Bool.or_eq_true] at *
  intro kp hkp
  rcases h1 kp hkp with h | h
  · exact Or.inr h
  · exact Or.inl (h2 _ (by simpa using h))

/-- sufficient for `requiredSet` -/
theorem requiredSet_of (props : List (String × PropT)) (ks : List String) (m : List (String × V))
    (h1 : (props.all fun kp => (ks.contains kp.1 || !kp.2.required) && kp.2.requiredIf.isEmpty &&
      kp.2.requiredIfNot.isEmpty && kp.2.conflicts.isEmpty) = true)
    (h2 : ∀ k, k ∈ ks → hasKey k m = true) : requiredSet props m = true := by
  simp only [requiredSet, List.all_eq_true, Bool.and_eq_true, Bool.or_eq_true] at *
  intro kp hkp
  obtain ⟨⟨⟨h, ha⟩, hb⟩, hc⟩ := h1 kp hkp
  refine ⟨⟨⟨?_, ha⟩, hb⟩, hc⟩
  rcases h with h | h
  · exact Or.inl (h2 _ (by simpa using h))
  · exact Or.inr h

theorem hasKey_cons {α} (k k' : String) (v : α) (m : List (String × α)) :
    hasKey k ((k', v) :: m) = (k == k' || hasKey k m) := by
  simp only [hasKey, lookupS]
  split <;> simp_all

@[simp] theorem hasKey_nil {α} (k : String) : hasKey k ([] : List (String × α)) = false := rfl

theorem hasKey_optF {α} (k k' : String) (f : α → V) (o : Option α) :
    hasKey k (optF k' f o) = (k == k' && o.isSome) := by
  cases o <;> simp [optF, hasKey_cons]

/-! ### display values and units -/

theorem ev_str1 {x : Ext} {E : Env} {s : String} (h : 1 ≤ s.utf8ByteSize) : Evals x E str1 (.str s) (.str s) :=
  evals_str (checkStr_min1 x s h)

theorem ev_strT {x : Ext} {E : Env} {s : String} : Evals x E strT (.str s) (.str s) :=
  evals_str (checkStr_none x s)

/-- the fields of a display value -/
def dispF (d : Disp) : List (String × V) :=
  optF "name" V.str d.name ++ optF "description" V.str d.desc ++ optF "icon" V.str d.icon

theorem descDisp_eq (r : Rep) (d : Disp) : descDisp r d = .map r.objShape (kvsOf (dispF d)) := rfl

theorem ev_disp_obj {x : Ext} {E : Env} (d : Disp) (h : dispOK d = true) (sh : MapShape) :
    Evals x E oDisplay (.map sh (kvsOf (dispF d))) (toStrAny (dispF d)) := by
  simp only [dispOK, Bool.and_eq_true] at h
  obtain ⟨⟨h1, h2⟩, h3⟩ := h
  refine evals_obj (.append (.append (.optF _ rfl rfl ?_) (.optF _ rfl rfl ?_)) (.optF _ rfl rfl ?_)) ?_ ?_
  · intro a ha; exact ev_str1 (by simpa [nonEmpty, ha] using h1)
  · intro a ha; exact ev_str1 (by simpa [nonEmpty, ha] using h2)
  · intro a ha; exact ev_str1 (by simpa [nonEmpty, ha] using h3)
  · exact noPending_of _ [] _ (by decide) (by simp)
  · exact requiredSet_of _ [] _ (by decide) (by simp)

theorem ev_disp {x : Ext} {E : Env} (hE : MetaEnv E) (r : Rep) (d : Disp) (h : dispOK d = true) :
    Evals x E (.ref "Display") (descDisp r d) (descDisp .norm d) :=
  evals_ref hE.display (ev_disp_obj d h _)

/-- the fields of a unit -/
def unitF (u : UnitNames) : List (String × V) :=
  [("name_short_singular", .str u.ss), ("name_short_plural", .str u.sp),
   ("name_long_singular", .str u.ls), ("name_long_plural", .str u.lp)]

theorem ev_unit {x : Ext} {E : Env} (hE : MetaEnv E) (r : Rep) (u : UnitNames) :
    Evals x E (.ref "Unit") (descUnit r u) (descUnit .norm u) := by
  refine evals_ref hE.unit ?_
  show Evals x E oUnit (.map r.objShape (kvsOf (unitF u))) (toStrAny (unitF u))
  refine evals_obj (.cons rfl rfl ev_strT (.cons rfl rfl ev_strT (.cons rfl rfl ev_strT (.cons rfl rfl ev_strT .nil)))) ?_ ?_
  · exact noPending_of _ [] _ (by decide) (by simp)
  · exact requiredSet_of _ ["name_long_plural", "name_long_singular", "name_short_plural", "name_short_singular"] _
      (by decide) (by simp [unitF, hasKey_cons])

/-! ### integers, lengths, IDs -/

theorem checkInt_none (n : Int) : checkInt none none n = .ok () := rfl

theorem checkInt_min (m n : Int) (h : m ≤ n) : checkInt (some m) none n = .ok () := by
  have : ¬ n < m := by omega
  simp [checkInt, this]

theorem ev_intT {x : Ext} {E : Env} (r : Rep) {n : Int} (h : inInt64 n = true) :
    Evals x E intT (r.int n) (Rep.norm.int n) := evals_int h (checkInt_none n)

theorem inInt64_of_len {n : Int} (h0 : 0 ≤ n) (h1 : n ≤ maxInt64) : inInt64 n = true := by
  have hm : minInt64 ≤ 0 := by decide
  simp only [inInt64, Bool.and_eq_true, decide_eq_true_eq]
  exact ⟨by omega, h1⟩

theorem lenOK_some {n : Int} (h : lenOK (some n) = true) : 0 ≤ n ∧ inInt64 n = true := by
  simp only [lenOK, Bool.and_eq_true, decide_eq_true_eq] at h
  exact ⟨h.1, inInt64_of_len h.1 h.2⟩

theorem ev_nat0 {x : Ext} {E : Env} (r : Rep) {n : Int} (h : lenOK (some n) = true) :
    Evals x E nat0 (r.int n) (Rep.norm.int n) :=
  evals_int (lenOK_some h).2 (checkInt_min 0 n (lenOK_some h).1)

theorem ev_len0 {x : Ext} {E : Env} (r : Rep) {n : Int} (h : lenOK (some n) = true) :
    Evals x E len0 (r.int n) (Rep.norm.int n) :=
  evals_int (lenOK_some h).2 (checkInt_min 0 n (lenOK_some h).1)

theorem ev_id {x : Ext} {E : Env} {s : String} (h : idOK x s = true) : Evals x E idType (.str s) (.str s) := by
  simp only [idOK, Bool.and_eq_true, decide_eq_true_eq] at h
  obtain ⟨⟨h1, h2⟩, h3⟩ := h
  refine evals_str ?_
  have a : ¬ ((1 : Int) > (s.utf8ByteSize : Int)) := by omega
  have b : ¬ ((255 : Int) < (s.utf8ByteSize : Int)) := by omega
  simp [checkStr, checkLen, a, b, h3]

/-! ### units -/

theorem kv_mults {x : Ext} {E : Env} (hE : MetaEnv E) (r : Rep) :
    ∀ (ms : List (Int × UnitNames)), (ms.all fun m => decide (1 ≤ m.1) && decide (m.1 ≤ maxInt64)) = true →
      KVEvals x E (.int (some 1) none none) (.ref "Unit") (descMults r ms) (descMults .norm ms)
  | [], _ => .nil
  | (m, n) :: rest, h => by
    simp only [List.all_cons, Bool.and_eq_true, decide_eq_true_eq] at h
    refine .cons ?_ (ev_unit hE r n) (kv_mults hE r rest (by simpa using h.2))
    exact evals_int (inInt64_of_len (by omega) h.1.2) (checkInt_min 1 m h.1.1)

theorem keys_mults (r : Rep) : ∀ (ms : List (Int × UnitNames)),
    (descMults r ms).map (fun kv => kv.1.key?) = (ms.map fun m => Key.i m.1).map some
  | [] => rfl
  | (m, n) :: rest => by
    simp only [descMults, List.map_cons, keys_mults r rest]
    rfl

theorem nodup_map_inj {α β} (f : α → β) (hf : ∀ a b, f a = f b → a = b) : ∀ (l : List α), l.Nodup → (l.map f).Nodup
  | [], _ => List.nodup_nil
  | a :: rest, h => by
    simp only [List.nodup_cons, List.map_cons, List.mem_map, not_exists, not_and] at *
    exact ⟨fun b hb hab => h.1 (hf _ _ hab ▸ hb), nodup_map_inj f hf rest h.2⟩

/-- the fields of a units definition -/
theorem ev_units {x : Ext} {E : Env} (hE : MetaEnv E) (r : Rep) (u : Units) (h : unitsOK (some u) = true) :
    Evals x E (.ref "Units") (descUnits r u) (descUnits .norm u) := by
  simp only [unitsOK, Bool.and_eq_true, decide_eq_true_eq] at h
  refine evals_ref hE.units ?_
  show Evals x E oUnits (.map r.objShape (kvsOf [("base_unit", descUnit r u.base),
      ("multipliers", r.kv .int64 false (descMults r u.mults))]))
    (toStrAny [("base_unit", descUnit .norm u.base), ("multipliers", Rep.norm.kv .int64 false (descMults .norm u.mults))])
  refine evals_obj (.cons rfl rfl (ev_unit hE r u.base) (.cons rfl rfl ?_ .nil)) ?_ ?_
  · exact evals_map (kv_mults hE r u.mults h.1) rfl
      (dupKey_false_of_keys _ _ (keys_mults .norm u.mults)
        (by
          have := nodup_map_inj (fun n : Int => Key.i n) (fun a b hab => by injection hab) _ h.2
          simpa [List.map_map, Function.comp_def] using this))
  · exact noPending_of _ [] _ (by decide) (by simp)
  · exact requiredSet_of _ ["base_unit"] _ (by decide) (by simp [hasKey_cons])

theorem ent_units {x : Ext} {E : Env} (hE : MetaEnv E) (r : Rep) {props : List (String × PropT)}
    (hl : lookupS "units" props = some unitsP) (u : Option Units) (h : unitsOK u = true) :
    EntEvals x E props (optF "units" (descUnits r) u) (optF "units" (descUnits .norm) u) :=
  .optF u hl rfl fun a ha => ev_units hE r a (by simpa [ha] using h)

theorem ent_optInt {x : Ext} {E : Env} (r : Rep) {props : List (String × PropT)} {k : String} {t : Ty} {req : Bool}
    (hl : lookupS k props = some (P t req)) (o : Option Int)
    (h : ∀ n, o = some n → Evals x E t (r.int n) (Rep.norm.int n)) :
    EntEvals x E props (optF k r.int o) (optF k Rep.norm.int o) :=
  .optF o hl rfl h

/-! ### the scalar kinds -/

theorem evF_int {x : Ext} {E : Env} (hE : MetaEnv E) (r : Rep) (a b : Option Int) (u : Option Units)
    (h : describable x (.int a b u) = true) (sh : MapShape) :
    Evals x E oInt (.map sh (kvsOf (descTyF r (.int a b u)))) (toStrAny (descTyF .norm (.int a b u))) := by
  simp only [describable, Bool.and_eq_true] at h
  obtain ⟨⟨ha, hb⟩, hu⟩ := h
  simp only [descTyF]
  refine evals_obj (.append (.append (ent_optInt r rfl a ?_) (ent_optInt r rfl b ?_)) (ent_units hE r rfl u hu)) ?_ ?_
  · intro n hn; exact ev_intT r (by simpa [i64OK, hn] using ha)
  · intro n hn; exact ev_intT r (by simpa [i64OK, hn] using hb)
  · exact noPending_of _ [] _ (by decide) (by simp)
  · exact requiredSet_of _ [] _ (by decide) (by simp)

theorem evF_float {x : Ext} {E : Env} (hE : MetaEnv E) (r : Rep) (a b : Option Nat) (u : Option Units)
    (h : describable x (.float a b u) = true) (sh : MapShape) :
    Evals x E oFloat (.map sh (kvsOf (descTyF r (.float a b u)))) (toStrAny (descTyF .norm (.float a b u))) := by
  simp only [describable] at h
  simp only [descTyF]
  refine evals_obj (.append (.append (.optF a rfl rfl fun _ _ => evals_float) (.optF b rfl rfl fun _ _ => evals_float))
    (ent_units hE r rfl u h)) ?_ ?_
  · exact noPending_of _ [] _ (by decide) (by simp)
  · exact requiredSet_of _ [] _ (by decide) (by simp)

theorem evF_str {x : Ext} {E : Env} {r : Rep} (hr : r.Good) (a b : Option Int) (p : Option String)
    (h : describable x (.str a b p) = true) (sh : MapShape) :
    Evals x E oString (.map sh (kvsOf (descTyF r (.str a b p)))) (toStrAny (descTyF .norm (.str a b p))) := by
  simp only [describable, Bool.and_eq_true] at h
  obtain ⟨⟨ha, hb⟩, hp⟩ := h
  simp only [descTyF]
  refine evals_obj (.append (.append (ent_optInt r rfl a ?_) (ent_optInt r rfl b ?_)) (.optF p rfl rfl ?_)) ?_ ?_
  · intro n hn; exact ev_len0 r (by simpa [hn] using ha)
  · intro n hn; exact ev_len0 r (by simpa [hn] using hb)
  · intro s hs
    rw [hr.pat s]
    exact evals_pattern (by simpa [hs] using hp)
  · exact noPending_of _ [] _ (by decide) (by simp)
  · exact requiredSet_of _ [] _ (by decide) (by simp)

theorem evF_empty {x : Ext} {E : Env} (id : String) (sh : MapShape) :
    Evals x E (.obj id []) (.map sh (kvsOf [])) (toStrAny []) :=
  evals_obj .nil rfl rfl

/-! ### enums -/

theorem kv_intVals {x : Ext} {E : Env} (hE : MetaEnv E) (r : Rep) :
    ∀ (vs : List (Int × Disp)), (vs.all fun v => inInt64 v.1 && dispOK v.2) = true →
      KVEvals x E intT (.ref "Display") (descIntVals r vs) (descIntVals .norm vs)
  | [], _ => .nil
  | (n, d) :: rest, h => by
    simp only [List.all_cons, Bool.and_eq_true] at h
    exact .cons (ev_intT r h.1.1) (ev_disp hE r d h.1.2) (kv_intVals hE r rest (by simpa using h.2))

theorem keys_intVals (r : Rep) : ∀ (vs : List (Int × Disp)),
    (descIntVals r vs).map (fun kv => kv.1.key?) = (vs.map fun v => Key.i v.1).map some
  | [] => rfl
  | (n, d) :: rest => by
    simp only [descIntVals, List.map_cons, keys_intVals r rest]
    rfl

theorem len_intVals (r : Rep) : ∀ (vs : List (Int × Disp)), (descIntVals r vs).length = vs.length
  | [] => rfl
  | (n, d) :: rest => by simp [descIntVals, len_intVals r rest]

theorem kv_strVals {x : Ext} {E : Env} (hE : MetaEnv E) (r : Rep) :
    ∀ (vs : List (String × Disp)), (vs.all fun v => dispOK v.2) = true →
      KVEvals x E strT (.ref "Display") (descStrVals r vs) (descStrVals .norm vs)
  | [], _ => .nil
  | (n, d) :: rest, h => by
    simp only [List.all_cons, Bool.and_eq_true] at h
    exact .cons ev_strT (ev_disp hE r d h.1) (kv_strVals hE r rest (by simpa using h.2))

theorem keys_strVals (r : Rep) : ∀ (vs : List (String × Disp)),
    (descStrVals r vs).map (fun kv => kv.1.key?) = (vs.map fun v => Key.s v.1).map some
  | [] => rfl
  | (n, d) :: rest => by
    simp only [descStrVals, List.map_cons, keys_strVals r rest]
    rfl

theorem len_strVals (r : Rep) : ∀ (vs : List (String × Disp)), (descStrVals r vs).length = vs.length
  | [] => rfl
  | (n, d) :: rest => by simp [descStrVals, len_strVals r rest]

theorem checkLen_min1 {n : Nat} (h : 0 < n) : checkLen (some 1) none n = .ok () := by
  have : ¬ ((1 : Int) > (n : Int)) := by omega
  simp [checkLen, this]

theorem evF_enumInt {x : Ext} {E : Env} (hE : MetaEnv E) (r : Rep) (vs : List (Int × Disp)) (u : Option Units)
    (h : describable x (.enumInt vs u) = true) (sh : MapShape) :
    Evals x E oIntEnum (.map sh (kvsOf (descTyF r (.enumInt vs u)))) (toStrAny (descTyF .norm (.enumInt vs u))) := by
  simp only [describable, Bool.and_eq_true, decide_eq_true_eq] at h
  obtain ⟨⟨⟨hne, hall⟩, hnd⟩, hu⟩ := h
  simp only [descTyF]
  refine evals_obj (.append (.one rfl rfl ?_) (ent_units hE r rfl u hu)) ?_ ?_
  · refine evals_map (kv_intVals hE r vs hall) (checkLen_min1 ?_)
      (dupKey_false_of_keys _ _ (keys_intVals .norm vs)
        (by
          have := nodup_map_inj (fun n : Int => Key.i n) (fun a b hab => by injection hab) _ hnd
          simpa [List.map_map, Function.comp_def] using this))
    rw [len_intVals]
    cases vs with
    | nil => simp at hne
    | cons _ _ => simp
  · exact noPending_of _ [] _ (by decide) (by simp)
  · exact requiredSet_of _ ["values"] _ (by decide) (by simp [hasKey_cons])

theorem evF_enumStr {x : Ext} {E : Env} (hE : MetaEnv E) (r : Rep) (vs : List (String × Disp))
    (h : describable x (.enumStr vs) = true) (sh : MapShape) :
    Evals x E oStringEnum (.map sh (kvsOf (descTyF r (.enumStr vs)))) (toStrAny (descTyF .norm (.enumStr vs))) := by
  simp only [describable, Bool.and_eq_true, decide_eq_true_eq] at h
  obtain ⟨⟨hne, hall⟩, hnd⟩ := h
  simp only [descTyF]
  refine evals_obj (.one rfl rfl ?_) ?_ ?_
  · refine evals_map (kv_strVals hE r vs hall) (checkLen_min1 ?_)
      (dupKey_false_of_keys _ _ (keys_strVals .norm vs)
        (by
          have := nodup_map_inj (fun n : String => Key.s n) (fun a b hab => by injection hab) _ hnd
          simpa [List.map_map, Function.comp_def] using this))
    rw [len_strVals]
    cases vs with
    | nil => simp at hne
    | cons _ _ => simp
  · exact noPending_of _ [] _ (by decide) (by simp)
  · exact requiredSet_of _ ["values"] _ (by decide) (by simp [hasKey_cons])

/-! ### types as members of the `type_id` one-ofs -/

/-- the meta object describing a type of the given kind -/
def metaObj : DTy → Ty
  | .int _ _ _ => oInt
  | .float _ _ _ => oFloat
  | .str _ _ _ => oString
  | .bool => oBool
  | .pattern => oPattern
  | .enumInt _ _ => oIntEnum
  | .enumStr _ => oStringEnum
  | .list _ _ _ => oList
  | .map _ _ _ _ => oMap
  | .obj _ => oObject
  | .oneOf ik _ _ _ => if ik then oOneOfInt else oOneOfString
  | .ref _ _ _ => oRef
  | .scope _ _ => oScope
  | .any => oAny

/-- the fields of `t` evaluate against the meta object of its kind, whatever map type they arrive in -/
def FEv (x : Ext) (E : Env) (r : Rep) (t : DTy) : Prop :=
  ∀ sh, Evals x E (metaObj t) (.map sh (kvsOf (descTyF r t))) (toStrAny (descTyF .norm t))

theorem noTypeId (r : Rep) (t : DTy) : hasKey "type_id" (descTyF r t) = false := by
  cases t with
  | obj o => cases o; simp [descTyF, descObjF, hasKey_cons]
  | _ => simp [descTyF, hasKey_append, hasKey_optF, hasKey_cons]

theorem descTy_eq (r : Rep) (t : DTy) :
    descTy r t = .map r.objShape (kvsOf (descTyF r t ++ [("type_id", V.str t.typeId)])) := rfl

theorem descTy_norm_eq (t : DTy) :
    descTy .norm t = toStrAny (descTyF .norm t ++ [("type_id", V.str t.typeId)]) := rfl

theorem ev_ty_of {x : Ext} {E : Env} (hE : MetaEnv E) {r : Rep} (hr : r.Good) (t : DTy) (hF : FEv x E r t) :
    Evals x E valueType (descTy r t) (descTy .norm t) := by
  rw [descTy_eq, descTy_norm_eq]
  have hn := noTypeId r t
  have hn' := noTypeId .norm t
  cases t with
  | int a b u => exact evals_typed hr.objKey (mt := .ref "Int") rfl hn hn' (evals_ref hE.int (hF _))
  | float a b u => exact evals_typed hr.objKey (mt := .ref "Float") rfl hn hn' (evals_ref hE.float (hF _))
  | str a b p => exact evals_typed hr.objKey (mt := .ref "String") rfl hn hn' (evals_ref hE.string (hF _))
  | bool => exact evals_typed hr.objKey (mt := .ref "BoolSchema") rfl hn hn' (evals_ref hE.bool (hF _))
  | pattern => exact evals_typed hr.objKey (mt := .ref "Pattern") rfl hn hn' (evals_ref hE.pattern (hF _))
  | enumInt vs u => exact evals_typed hr.objKey (mt := .ref "IntEnum") rfl hn hn' (evals_ref hE.intEnum (hF _))
  | enumStr vs => exact evals_typed hr.objKey (mt := .ref "StringEnum") rfl hn hn' (evals_ref hE.stringEnum (hF _))
  | list item a b => exact evals_typed hr.objKey (mt := .ref "List") rfl hn hn' (evals_ref hE.list (hF _))
  | map k v a b => exact evals_typed hr.objKey (mt := .ref "Map") rfl hn hn' (evals_ref hE.map (hF _))
  | obj o => exact evals_typed hr.objKey (mt := .ref "Object") rfl hn hn' (evals_ref hE.object (hF _))
  | oneOf ik d inl ms =>
    cases ik with
    | true => exact evals_typed hr.objKey (mt := .ref "OneOfIntSchema") rfl hn hn' (evals_ref hE.oneOfInt (hF _))
    | false => exact evals_typed hr.objKey (mt := .ref "OneOfStringSchema") rfl hn hn' (evals_ref hE.oneOfString (hF _))
  | ref id ns d => exact evals_typed hr.objKey (mt := .ref "Ref") rfl hn hn' (evals_ref hE.ref (hF _))
  | scope objs root => exact evals_typed hr.objKey (mt := .ref "Scope") rfl hn hn' (evals_ref hE.scope (hF _))
  | any => exact evals_typed hr.objKey (mt := .ref "AnySchema") rfl hn hn' (evals_ref hE.any (hF _))

/-- map keys: integer and string types -/
def isKeyKind : DTy → Bool
  | .int _ _ _ | .str _ _ _ => true
  | _ => false

theorem ev_key_of {x : Ext} {E : Env} (hE : MetaEnv E) {r : Rep} (hr : r.Good) (t : DTy) (hk : isKeyKind t = true)
    (hF : FEv x E r t) : Evals x E mapKeyType (descTy r t) (descTy .norm t) := by
  rw [descTy_eq, descTy_norm_eq]
  have hn := noTypeId r t
  have hn' := noTypeId .norm t
  cases t with
  | int a b u => exact evals_typed hr.objKey (mt := .ref "Int") rfl hn hn' (evals_ref hE.int (hF _))
  | str a b p => exact evals_typed hr.objKey (mt := .ref "String") rfl hn hn' (evals_ref hE.string (hF _))
  | _ => simp [isKeyKind] at hk

/-- one-of members: objects, references, scopes -/
def isMemberKind : DTy → Bool
  | .obj _ | .ref _ _ _ | .scope _ _ => true
  | _ => false

theorem ev_member_of {x : Ext} {E : Env} (hE : MetaEnv E) {r : Rep} (hr : r.Good) (t : DTy) (hk : isMemberKind t = true)
    (hF : FEv x E r t) : Evals x E memberType (descTy r t) (descTy .norm t) := by
  rw [descTy_eq, descTy_norm_eq]
  have hn := noTypeId r t
  have hn' := noTypeId .norm t
  cases t with
  | obj o => exact evals_typed hr.objKey (mt := .ref "Object") rfl hn hn' (evals_ref hE.object (hF _))
  | ref id ns d => exact evals_typed hr.objKey (mt := .ref "Ref") rfl hn hn' (evals_ref hE.ref (hF _))
  | scope objs root => exact evals_typed hr.objKey (mt := .ref "Scope") rfl hn hn' (evals_ref hE.scope (hF _))
  | _ => simp [isMemberKind] at hk

/-! ### the container kinds, given their components -/

theorem checkLen_none (n : Nat) : checkLen none none n = .ok () := rfl

theorem evF_list {x : Ext} {E : Env} (r : Rep) (item : DTy) (a b : Option Int)
    (hitem : Evals x E valueType (descTy r item) (descTy .norm item))
    (ha : lenOK a = true) (hb : lenOK b = true) : FEv x E r (.list item a b) := by
  intro sh
  simp only [descTyF, metaObj]
  refine evals_obj (.append (.append (.one rfl rfl hitem) (ent_optInt r rfl a ?_)) (ent_optInt r rfl b ?_)) ?_ ?_
  · intro n hn; exact ev_nat0 r (by simpa [hn] using ha)
  · intro n hn; exact ev_nat0 r (by simpa [hn] using hb)
  · exact noPending_of _ [] _ (by decide) (by simp)
  · exact requiredSet_of _ ["items"] _ (by decide) (by simp [hasKey_cons, hasKey_append])

theorem evF_map {x : Ext} {E : Env} (r : Rep) (k v : DTy) (a b : Option Int)
    (hk : Evals x E mapKeyType (descTy r k) (descTy .norm k))
    (hv : Evals x E valueType (descTy r v) (descTy .norm v))
    (ha : lenOK a = true) (hb : lenOK b = true) : FEv x E r (.map k v a b) := by
  intro sh
  simp only [descTyF, metaObj]
  refine evals_obj (.append (.append (.cons rfl rfl hk (.one rfl rfl hv)) (ent_optInt r rfl a ?_)) (ent_optInt r rfl b ?_)) ?_ ?_
  · intro n hn; exact ev_nat0 r (by simpa [hn] using ha)
  · intro n hn; exact ev_nat0 r (by simpa [hn] using hb)
  · exact noPending_of _ [] _ (by decide) (by simp)
  · exact requiredSet_of _ ["keys", "values"] _ (by decide) (by simp [hasKey_cons, hasKey_append])

theorem evF_ref {x : Ext} {E : Env} (hE : MetaEnv E) (r : Rep) (id ns : String) (d : Option Disp)
    (h : describable x (.ref id ns d) = true) : FEv x E r (.ref id ns d) := by
  intro sh
  simp only [describable, Bool.and_eq_true] at h
  simp only [descTyF, metaObj]
  refine evals_obj (.append (.cons rfl rfl (ev_id h.1) (.one rfl rfl ev_strT)) (.optF d rfl rfl ?_)) ?_ ?_
  · intro a ha; exact ev_disp hE r a (by simpa [optDispOK, ha] using h.2)
  · exact noPending_of _ ["namespace"] _ (by decide) (by simp [hasKey_cons, hasKey_append])
  · exact requiredSet_of _ [] _ (by decide) (by simp)

theorem keys_props (r : Rep) : ∀ (ps : List (String × DProp)),
    (descProps r ps).map (fun kv => kv.1.key?) = (ps.map fun p => Key.s p.1).map some
  | [] => rfl
  | (n, p) :: rest => by
    simp only [descProps, List.map_cons, keys_props r rest]
    rfl

theorem nodup_keys_s {α} (l : List (String × α)) (h : (l.map (·.1)).Nodup) : (l.map fun p => Key.s p.1).Nodup := by
  have := nodup_map_inj (fun n : String => Key.s n) (fun a b hab => by injection hab) _ h
  simpa [List.map_map, Function.comp_def] using this

theorem evObjF_of {x : Ext} {E : Env} (r : Rep) (id : String) (unenf : Bool) (props : List (String × DProp))
    (hid : idOK x id = true) (hnd : (props.map (·.1)).Nodup)
    (hps : KVEvals x E str1 (.ref "Property") (descProps r props) (descProps .norm props)) (sh : MapShape) :
    Evals x E oObject (.map sh (kvsOf (descObjF r (.mk id unenf props)))) (toStrAny (descObjF .norm (.mk id unenf props))) := by
  simp only [descObjF]
  refine evals_obj (.cons rfl rfl (ev_id hid) (.cons rfl rfl ?_ (.one rfl rfl evals_bool))) ?_ ?_
  · exact evals_map hps (checkLen_none _) (dupKey_false_of_keys _ _ (keys_props .norm props) (nodup_keys_s props hnd))
  · exact noPending_of _ ["id_unenforced"] _ (by decide) (by simp [hasKey_cons])
  · exact requiredSet_of _ ["id", "properties"] _ (by decide) (by simp [hasKey_cons])

theorem ev_prop_of {x : Ext} {E : Env} (hE : MetaEnv E) (r : Rep) (ty : DTy) (disp : Option Disp) (req : Bool)
    (rif rifn conf : List String) (dflt : Option String) (ex : List String) (dis : Bool) (reason : Option String)
    (hty : Evals x E valueType (descTy r ty) (descTy .norm ty)) (hd : optDispOK disp = true) :
    Evals x E (.ref "Property") (descProp r (.mk ty disp req rif rifn conf dflt ex dis reason))
      (descProp .norm (.mk ty disp req rif rifn conf dflt ex dis reason)) := by
  refine evals_ref hE.property ?_
  simp only [descProp, Rep.obj_eq]
  show Evals x E oProperty (V.map r.objShape (kvsOf _)) (toStrAny _)
  refine evals_obj
    (.append (.append (.append (.append (.append (.one rfl rfl hty) (.optF disp rfl rfl ?_))
      (.cons rfl rfl evals_bool (.cons rfl rfl (evals_strList rif) (.cons rfl rfl (evals_strList rifn)
        (.one rfl rfl (evals_strList conf))))))
      (.optF dflt rfl rfl fun _ _ => ev_strT))
      (.cons rfl rfl (evals_strList ex) (.one rfl rfl evals_bool)))
      (.optF reason rfl rfl fun _ _ => ev_strT)) ?_ ?_
  · intro a ha; exact ev_disp hE r a (by simpa [optDispOK, ha] using hd)
  · exact noPending_of _ ["required"] _ (by decide) (by simp [hasKey_cons, hasKey_append])
  · exact requiredSet_of _ ["type"] _ (by decide) (by simp [hasKey_cons, hasKey_append])

theorem keys_members (r : Rep) : ∀ (ms : List (Key × DTy)),
    (descMembers r ms).map (fun kv => kv.1.key?) = (ms.map (·.1)).map some
  | [] => rfl
  | (k, t) :: rest => by
    simp only [descMembers, List.map_cons, keys_members r rest]
    cases k <;> rfl

theorem evF_oneOf {x : Ext} {E : Env} (r : Rep) (ik : Bool) (d : String) (inl : Bool) (ms : List (Key × DTy))
    (hnd : (ms.map (·.1)).Nodup)
    (hms : KVEvals x E (if ik then intT else strT) memberType (descMembers r ms) (descMembers .norm ms)) :
    FEv x E r (.oneOf ik d inl ms) := by
  intro sh
  simp only [descTyF]
  cases ik with
  | true =>
    simp only [metaObj, ↓reduceIte] at hms ⊢
    refine evals_obj (.cons rfl rfl evals_bool (.cons rfl rfl ev_strT (.one rfl rfl ?_))) ?_ ?_
    · exact evals_map hms (checkLen_none _) (dupKey_false_of_keys _ _ (keys_members .norm ms) hnd)
    · exact noPending_of _ ["discriminator_inlined"] _ (by decide) (by simp [hasKey_cons])
    · exact requiredSet_of _ ["discriminator_field_name", "discriminator_inlined"] _ (by decide) (by simp [hasKey_cons])
  | false =>
    simp only [metaObj, Bool.false_eq_true, ↓reduceIte] at hms ⊢
    refine evals_obj (.cons rfl rfl evals_bool (.cons rfl rfl ev_strT (.one rfl rfl ?_))) ?_ ?_
    · exact evals_map hms (checkLen_none _) (dupKey_false_of_keys _ _ (keys_members .norm ms) hnd)
    · exact noPending_of _ ["discriminator_inlined"] _ (by decide) (by simp [hasKey_cons])
    · exact requiredSet_of _ ["discriminator_field_name", "discriminator_inlined"] _ (by decide) (by simp [hasKey_cons])

theorem keys_objs (r : Rep) : ∀ (objs : List (String × DObj)),
    (descObjs r objs).map (fun kv => kv.1.key?) = (objs.map fun p => Key.s p.1).map some
  | [] => rfl
  | (n, o) :: rest => by
    simp only [descObjs, List.map_cons, keys_objs r rest]
    rfl

theorem evF_scope {x : Ext} {E : Env} (r : Rep) (objs : List (String × DObj)) (root : String)
    (hroot : idOK x root = true) (hnd : (objs.map (·.1)).Nodup)
    (hobjs : KVEvals x E idType (.ref "Object") (descObjs r objs) (descObjs .norm objs)) :
    FEv x E r (.scope objs root) := by
  intro sh
  simp only [descTyF, metaObj]
  refine evals_obj (.cons rfl rfl ?_ (.one rfl rfl (ev_id hroot))) ?_ ?_
  · exact evals_map hobjs (checkLen_none _) (dupKey_false_of_keys _ _ (keys_objs .norm objs) (nodup_keys_s objs hnd))
  · exact noPending_of _ [] _ (by decide) (by simp)
  · exact requiredSet_of _ ["objects", "root"] _ (by decide) (by simp [hasKey_cons])

/-! ### the induction over the schema tree -/

def keyKindOK (ik : Bool) (k : Key) : Bool := match k with | .i _ => ik | .s _ => !ik
def keyRangeOK (k : Key) : Bool := match k with | .i n => inInt64 n | .s _ => true

theorem kv_member_key {x : Ext} {E : Env} (r : Rep) (ik : Bool) (k : Key)
    (hk : keyKindOK ik k = true) (hrange : keyRangeOK k = true) :
    Evals x E (if ik then intT else strT) (k.rep r) (k.rep .norm) := by
  cases k with
  | i n =>
    have : ik = true := by simpa [keyKindOK] using hk
    subst this
    exact ev_intT r (by simpa [keyRangeOK] using hrange)
  | s t =>
    have : ik = false := by simpa [keyKindOK] using hk
    subst this
    exact ev_strT

mutual
theorem evF_all {x : Ext} {E : Env} (hE : MetaEnv E) {r : Rep} (hr : r.Good) :
    (t : DTy) → describable x t = true → FEv x E r t
  | .int a b u, h => fun sh => evF_int hE r a b u h sh
  | .float a b u, h => fun sh => evF_float hE r a b u h sh
  | .str a b p, h => fun sh => evF_str hr a b p h sh
  | .bool, _ => fun sh => evF_empty "BoolSchema" sh
  | .pattern, _ => fun sh => evF_empty "Pattern" sh
  | .any, _ => fun sh => evF_empty "AnySchema" sh
  | .enumInt vs u, h => fun sh => evF_enumInt hE r vs u h sh
  | .enumStr vs, h => fun sh => evF_enumStr hE r vs h sh
  | .list item a b, h => by
    simp only [describable, Bool.and_eq_true] at h
    exact evF_list r item a b (ev_ty_of hE hr item (evF_all hE hr item h.1.1)) h.1.2 h.2
  | .map k v a b, h => by
    simp only [describable, Bool.and_eq_true] at h
    obtain ⟨⟨⟨⟨hkk, hk⟩, hv⟩, ha⟩, hb⟩ := h
    refine evF_map r k v a b (ev_key_of hE hr k ?_ (evF_all hE hr k hk)) (ev_ty_of hE hr v (evF_all hE hr v hv)) ha hb
    cases k <;> simp_all [isKeyKind]
  | .obj o, h => by
    simp only [describable] at h
    intro sh
    simp only [descTyF, metaObj]
    exact evObjF_all hE hr o h sh
  | .oneOf ik d inl ms, h => by
    simp only [describable, Bool.and_eq_true, decide_eq_true_eq] at h
    exact evF_oneOf r ik d inl ms h.1.1 (evMembers_all hE hr ik ms h.1.2 h.2)
  | .ref id ns d, h => evF_ref hE r id ns d h
  | .scope objs root, h => by
    simp only [describable, Bool.and_eq_true, decide_eq_true_eq] at h
    exact evF_scope r objs root h.1.1 h.1.2 (evObjs_all hE hr objs h.2)
termination_by structural t => t
theorem evObjF_all {x : Ext} {E : Env} (hE : MetaEnv E) {r : Rep} (hr : r.Good) :
    (o : DObj) → describableObj x o = true → ∀ sh,
      Evals x E oObject (.map sh (kvsOf (descObjF r o))) (toStrAny (descObjF .norm o))
  | .mk id unenf props, h => by
    simp only [describableObj, Bool.and_eq_true, decide_eq_true_eq] at h
    exact evObjF_of r id unenf props h.1.1 h.1.2 (evProps_all hE hr props h.2)
termination_by structural o => o
theorem evProps_all {x : Ext} {E : Env} (hE : MetaEnv E) {r : Rep} (hr : r.Good) :
    (ps : List (String × DProp)) → describableProps x ps = true →
      KVEvals x E str1 (.ref "Property") (descProps r ps) (descProps .norm ps)
  | [], _ => .nil
  | (n, p) :: rest, h => by
    simp only [describableProps, Bool.and_eq_true, decide_eq_true_eq] at h
    exact .cons (ev_str1 h.1.1) (evProp_all hE hr p h.1.2) (evProps_all hE hr rest h.2)
termination_by structural ps => ps
theorem evProp_all {x : Ext} {E : Env} (hE : MetaEnv E) {r : Rep} (hr : r.Good) :
    (p : DProp) → describableProp x p = true → Evals x E (.ref "Property") (descProp r p) (descProp .norm p)
  | .mk ty disp req rif rifn conf dflt ex dis reason, h => by
    simp only [describableProp, Bool.and_eq_true] at h
    exact ev_prop_of hE r ty disp req rif rifn conf dflt ex dis reason (ev_ty_of hE hr ty (evF_all hE hr ty h.1)) h.2
termination_by structural p => p
theorem evMembers_all {x : Ext} {E : Env} (hE : MetaEnv E) {r : Rep} (hr : r.Good) (ik : Bool) :
    (ms : List (Key × DTy)) → (ms.all fun m => match m.1 with | .i _ => ik | .s _ => !ik) = true →
      describableMembers x ms = true →
      KVEvals x E (if ik then intT else strT) memberType (descMembers r ms) (descMembers .norm ms)
  | [], _, _ => .nil
  | (k, t) :: rest, hk, h => by
    simp only [describableMembers, Bool.and_eq_true] at h
    simp only [List.all_cons, Bool.and_eq_true] at hk
    obtain ⟨⟨⟨hkr, hkind⟩, ht⟩, hrest⟩ := h
    refine .cons (kv_member_key r ik k hk.1 hkr) (ev_member_of hE hr t ?_ (evF_all hE hr t ht))
      (evMembers_all hE hr ik rest hk.2 hrest)
    cases t <;> simp_all [isMemberKind]
termination_by structural ms => ms
theorem evObjs_all {x : Ext} {E : Env} (hE : MetaEnv E) {r : Rep} (hr : r.Good) :
    (objs : List (String × DObj)) → describableObjs x objs = true →
      KVEvals x E idType (.ref "Object") (descObjs r objs) (descObjs .norm objs)
  | [], _ => .nil
  | (n, o) :: rest, h => by
    simp only [describableObjs, Bool.and_eq_true] at h
    exact .cons (ev_id h.1.1) (evals_ref hE.object (evObjF_all hE hr o h.1.2 _)) (evObjs_all hE hr rest h.2)
termination_by structural objs => objs
end

/-- `DescribeScope().Unserialize` on the description of a scope, in any good representation,
    yields the description in normal representation. -/
theorem ev_scope {x : Ext} {r : Rep} (hr : r.Good) (objs : List (String × DObj)) (root : String)
    (h : describable x (.scope objs root) = true) :
    Evals x [] metaScope (describeR r (.scope objs root)) (describeR .norm (.scope objs root)) := by
  obtain ⟨f0, hf⟩ := evF_all metaEnv_scope hr (.scope objs root) h r.objShape
  refine Evals.step f0 fun f hle => ?_
  have := hf f hle
  simp only [metaObj] at this
  show (match lookupS "Scope" scopeObjs with
    | none => Out.panic
    | some o => run x f .U scopeObjs o (describeR r (.scope objs root))) = _
  exact this

end Arca
