import ArcaModel.Model.Scalar
/-
  A plain decimal integer string means the same number with and without a units definition:
  whenever `strconv.ParseInt(s, 10, 64)` and `UnitsDefinition.ParseInt(s)` both succeed they agree.
  (A sign makes the units parser fail; an unsigned digit string is matched by the base group with
  every multiplier group empty.)  Used by the round trip of int-keyed one-ofs whose inlined
  discriminator property carries units.
-/
namespace Arca
namespace UnitsPlain

theorem digitVal_isDigit {c : Char} {d : Nat} (h : digitVal? c = some d) : isDigit c = true := by
  unfold digitVal? at h
  unfold isDigit
  split at h
  · assumption
  · simp at h

theorem readNatAux_digits : ∀ (cs : List Char) (acc n : Nat), readNatAux cs acc = some n →
    ∀ c, c ∈ cs → isDigit c = true
  | [], _, _, _ => by intro c hc; simp at hc
  | c :: cs, acc, n, h => by
    simp only [readNatAux] at h
    split at h
    · rename_i d hd
      intro c' hc'
      rcases List.mem_cons.mp hc' with rfl | hc'
      · exact digitVal_isDigit hd
      · exact readNatAux_digits cs _ n h c' hc'
    · simp at h

theorem readNat_digits {cs : List Char} {n : Nat} (h : readNat cs = some n) :
    cs ≠ [] ∧ ∀ c, c ∈ cs → isDigit c = true := by
  unfold readNat at h
  split at h
  · simp at h
  · rename_i hne
    exact ⟨fun he => hne he, readNatAux_digits cs 0 n h⟩

theorem isDigit_range {c : Char} (h : isDigit c = true) : 48 ≤ c.toNat ∧ c.toNat ≤ 57 := by
  unfold isDigit at h
  simp only [Bool.and_eq_true, decide_eq_true_eq] at h
  obtain ⟨h1, h2⟩ := h
  rw [Char.le_def] at h1 h2
  have h1' := UInt32.le_iff_toNat_le.mp h1
  have h2' := UInt32.le_iff_toNat_le.mp h2
  exact ⟨h1', h2'⟩

theorem isDigit_not_reWS {c : Char} (h : isDigit c = true) : isReWS c = false := by
  have hr := isDigit_range h
  cases hw : isReWS c with
  | false => rfl
  | true =>
    simp only [isReWS, Bool.or_eq_true, beq_iff_eq] at hw
    rcases hw with (((rfl | rfl) | rfl) | rfl) | rfl <;> exact absurd hr (by decide)

theorem isDigit_not_uniSpace {c : Char} (h : isDigit c = true) : isUniSpace c = false := by
  have hr := isDigit_range h
  unfold isUniSpace
  simp only [Bool.or_eq_false_iff, Bool.and_eq_false_iff, decide_eq_false_iff_not, beq_eq_false_iff_ne]
  omega

theorem dropWhile_head_false {p : Char → Bool} {c : Char} {t : List Char} (h : p c = false) :
    (c :: t).dropWhile p = c :: t := by
  simp [h]

theorem trimSpace_id {cs : List Char} (h : ∀ c, c ∈ cs → isUniSpace c = false) : trimSpace cs = cs := by
  unfold trimSpace
  have h1 : cs.dropWhile isUniSpace = cs := by
    cases cs with
    | nil => rfl
    | cons c t => exact dropWhile_head_false (h c (by simp))
  rw [h1]
  have h2 : cs.reverse.dropWhile isUniSpace = cs.reverse := by
    cases hr : cs.reverse with
    | nil => rfl
    | cons c t =>
      have : c ∈ cs := by
        have : c ∈ cs.reverse := by rw [hr]; simp
        simpa using this
      exact dropWhile_head_false (h c this)
  rw [h2, List.reverse_reverse]

theorem takeWhile_all {p : Char → Bool} : ∀ {cs : List Char}, (∀ c, c ∈ cs → p c = true) → cs.takeWhile p = cs
  | [], _ => rfl
  | c :: t, h => by
    simp only [List.takeWhile_cons, h c (by simp), if_true]
    rw [takeWhile_all (fun c' hc' => h c' (List.mem_cons_of_mem _ hc'))]

theorem dropWhile_all {p : Char → Bool} : ∀ {cs : List Char}, (∀ c, c ∈ cs → p c = true) → cs.dropWhile p = []
  | [], _ => rfl
  | c :: t, h => by
    simp only [List.dropWhile_cons, h c (by simp), if_true]
    exact dropWhile_all (fun c' hc' => h c' (List.mem_cons_of_mem _ hc'))

/-! ### an unsigned digit string: the base group takes all of it -/

theorem skipWS_digits {c : Char} {t : List Char} (hc : isDigit c = true) : skipWS (c :: t) = c :: t :=
  dropWhile_head_false (isDigit_not_reWS hc)

theorem matchBase_digits (names : List String) (c : Char) (t : List Char)
    (hd : ∀ c', c' ∈ c :: t → isDigit c' = true) : matchBase names (c :: t) = some (String.ofList (c :: t)) := by
  have hc : isDigit c = true := hd c (by simp)
  unfold matchBase
  simp only [skipWS_digits hc, List.isEmpty_cons, Bool.false_eq_true, if_false, takeWhile_all hd, dropWhile_all hd,
    List.length_cons, countsDown, firstSome, List.append_nil]
  have : (t.length + 1) = (c :: t).length := rfl
  simp only [this, List.take_length, List.drop_length, skipWS, List.dropWhile_nil, List.isEmpty_nil,
    if_true]

theorem matchGroups_digits (base : List String) (c : Char) (t : List Char)
    (hd : ∀ c', c' ∈ c :: t → isDigit c' = true) : ∀ (gs : List (List String)),
    matchGroups gs base (c :: t) = some (gs.map (fun _ => ""), String.ofList (c :: t))
  | [] => by simp [matchGroups, matchBase_digits base c t hd]
  | names :: gs => by
    have hc : isDigit c = true := hd c (by simp)
    simp only [matchGroups, skipWS_digits hc, matchGroups_digits base c t hd gs, List.map_cons]

theorem parseGo_empties {α} : ∀ (gs : List α) (ms : List Int) (acc : Int),
    Units.parseInt.go (gs.map fun _ => "") ms acc = some acc
  | [], _, _ => by simp [Units.parseInt.go]
  | _ :: gs, [], _ => by simp [Units.parseInt.go]
  | _ :: gs, _ :: ms, acc => by
    simp only [List.map_cons, Units.parseInt.go]
    have : ("" : String).isEmpty = true := by decide
    simp only [this, if_true]
    exact parseGo_empties gs ms acc

/-! ### a signed string: no group matches -/

theorem matchBase_nondigit (names : List String) (c : Char) (t : List Char)
    (hd : isDigit c = false) (hw : isReWS c = false) : matchBase names (c :: t) = none := by
  unfold matchBase
  have hs : skipWS (c :: t) = c :: t := dropWhile_head_false hw
  simp [hs, hd, countsDown, firstSome]

theorem matchGroups_nondigit (base : List String) (c : Char) (t : List Char)
    (hd : isDigit c = false) (hw : isReWS c = false) : ∀ (gs : List (List String)),
    matchGroups gs base (c :: t) = none
  | [] => by simp [matchGroups, matchBase_nondigit base c t hd hw]
  | names :: gs => by
    have hs : skipWS (c :: t) = c :: t := dropWhile_head_false hw
    simp [matchGroups, hs, matchGroups_nondigit base c t hd hw gs, hd, countsDown, firstSome]

theorem unitsParseInt_signed_none (u : Units) (s : String) (c : Char) (t : List Char) (n : Nat)
    (hs : s.toList = c :: t) (hc : c = '-' ∨ c = '+') (ht : readNat t = some n) : u.parseInt s = none := by
  obtain ⟨_, htd⟩ := readNat_digits ht
  have hcd : isDigit c = false := by rcases hc with rfl | rfl <;> decide
  have hcw : isReWS c = false := by rcases hc with rfl | rfl <;> decide
  have hcu : isUniSpace c = false := by rcases hc with rfl | rfl <;> decide
  have htrim : trimSpace (c :: t) = c :: t := trimSpace_id (by
    intro c' hc'
    rcases List.mem_cons.mp hc' with rfl | hc'
    · exact hcu
    · exact isDigit_not_uniSpace (htd c' hc'))
  have hskip : skipWS (c :: t) = c :: t := dropWhile_head_false hcw
  unfold Units.parseInt
  simp only [hs, htrim, List.isEmpty_cons, Bool.false_eq_true, if_false, hskip,
    matchGroups_nondigit _ c t hcd hcw]

theorem accInt_zero_one {n : Int} (h : inInt64 n = true) : accInt 0 n 1 = some n := by
  simp [accInt, h]

theorem unitsParseInt_unsigned (u : Units) (s : String) (n : Nat) (hr : readNat s.toList = some n)
    (hin : inInt64 (n : Int) = true) (hp : parseInt10 s = some (n : Int)) : u.parseInt s = some (n : Int) := by
  obtain ⟨hne, hd⟩ := readNat_digits hr
  cases hs : s.toList with
  | nil => exact absurd hs hne
  | cons c t =>
    rw [hs] at hd
    have hc : isDigit c = true := hd c (by simp)
    have htrim : trimSpace (c :: t) = c :: t := trimSpace_id (fun c' hc' => isDigit_not_uniSpace (hd c' hc'))
    have hb : String.ofList (c :: t) = s := by rw [← hs]; exact String.ofList_toList
    have hse : s.isEmpty = false := by
      cases he : s.isEmpty with
      | false => rfl
      | true =>
        have : s = "" := String.isEmpty_iff.mp he
        subst this
        simp at hs
    have hdot : (c :: t).contains '.' = false := by
      cases hcn : (c :: t).contains '.' with
      | false => rfl
      | true =>
        have hmem : '.' ∈ c :: t := by simpa using hcn
        exact absurd (hd '.' hmem) (by decide)
    unfold Units.parseInt
    simp only [hs, htrim, List.isEmpty_cons, Bool.false_eq_true, if_false, skipWS_digits hc,
      matchGroups_digits _ c t hd, parseGo_empties, hb, hse, hdot, hp, accInt_zero_one hin]

/-- whenever the plain and the units parser both accept a string they yield the same integer -/
theorem unitsParseInt_plain (u : Units) (s : String) (n k : Int)
    (hp : parseInt10 s = some n) (hu : u.parseInt s = some k) : k = n := by
  have hp0 := hp
  unfold parseInt10 at hp
  simp only at hp
  split at hp
  · rename_i v hv
    split at hp
    · rename_i hin
      simp at hp; subst hp
      split at hv
      · rename_i cs hs
        cases hr : readNat cs with
        | none => simp [hr] at hv
        | some m =>
          rw [unitsParseInt_signed_none u s '-' cs m hs (Or.inl rfl) hr] at hu
          simp at hu
      · rename_i cs hs
        cases hr : readNat cs with
        | none => simp [hr] at hv
        | some m =>
          rw [unitsParseInt_signed_none u s '+' cs m hs (Or.inr rfl) hr] at hu
          simp at hu
      · rename_i cs _ _
        cases hr : readNat s.toList with
        | none => simp [hr] at hv
        | some m =>
          simp [hr] at hv
          subst hv
          rw [unitsParseInt_unsigned u s m hr hin hp0] at hu
          simp at hu
          exact hu.symm
    · simp at hp
  · simp at hp

end UnitsPlain
end Arca
