import ArcaModel.Lemmas.AtpServer
/-
  Progress of the ATP server model under the repaired rules: a measure that every action other than
  new client input decreases, and absence of stuck states once the input has ended.
-/
namespace Arca.AtpServer

variable {c : Cfg}

def loopRank : LoopPc → Nat
  | .start => 6
  | .idle => 5
  | .sending _ false => 8
  | .sending _ true => 4
  | .ending => 1
  | .ended => 0

def pcRank : GPc → Nat
  | .spawned => 5
  | .entered => 4
  | .failing => 3
  | .writing => 1
  | _ => 0

def gRank (x : G) : Nat := pcRank x.pc

def hRank : HPc → Nat
  | .idle => 1
  | .holding _ => 2
  | .done => 0

def flag (b : Bool) : Nat := if b then 0 else 1

/-- bounds the number of actions the server (and the running handlers) can still perform without
    new client input -/
def mu (s : State) : Nat :=
  12 * s.input.length + loopRank s.loop + sumW gRank s.gs + 2 * s.queue.length + hRank s.h +
    flag s.closed + flag s.returned + flag s.stopped

theorem rank_set {s : State} {g : Nat} {x : G} (pc : GPc) (hx : s.gs[g]? = some x) :
    sumW gRank (s.gs.set g { x with pc := pc }) + pcRank x.pc = sumW gRank s.gs + pcRank pc := by
  have := sumW_set gRank s.gs g x { x with pc := pc } hx
  simpa [gRank] using this

theorem mu_react {s : State} (src : Nat) (d : Decoded) (hl : s.loop = .idle) :
    mu (react s src d) < mu s + 12 := by
  unfold react
  repeat' split
  all_goals simp [mu, spawn, hl, loopRank, sumW_append, sumW, gRank, pcRank]
  all_goals omega

theorem mu_decreases (hg : c.Good) {s s' : State} {a : Act} (hA : InvA s) (ha : a.isEnvInput = false)
    (e : step? c s a = some s') : mu s' < mu s := by
  unfold step? at e
  split at e
  · simp at e
  · cases a <;> simp [Act.isEnvInput] at ha <;> simp only at e
    case exit g b =>
      unfold gExit at e
      split at e
      · rename_i x hx
        split at e
        · rename_i hc
          simp at e; subst e
          have := rank_set (match b with | .ok => GPc.writing | _ => GPc.failing) hx
          cases b <;> simp [mu, setPc, hc.2, pcRank] at this ⊢ <;> omega
        · simp at e
      · simp at e
    case loopRead =>
      unfold loopRead at e
      split at e
      · simp at e
      · rename_i it rest hin
        split at e
        · rename_i hloop
          split at e <;> simp at e <;> subst e <;> simp [mu, hin, hloop, loopRank] <;> omega
        · rename_i hloop
          simp at e; subst e; simp [mu, hin, hloop, loopRank]; omega
        · rename_i w hloop
          simp at e; subst e
          have hl : s.loop = .idle := by simpa using hloop
          have := mu_react (s := { s with input := rest, nread := s.nread + 1, last := decode c s.last w }) s.nread
            (decode c s.last w) hl
          simp [mu, hin] at this ⊢
          omega
        · rename_i hloop
          simp at e; subst e; simp [mu, hin, hloop, loopRank]; omega
        · simp at e
    case loopReadErr =>
      unfold loopReadErr at e
      split at e
      · split at e <;> simp at e <;> subst e <;> (rename_i hloop; simp [mu, hloop, loopRank])
      · simp at e
    case loopSend =>
      obtain ⟨er, stop, hloop, hlt, hcl, e⟩ := loopSend_spec hA e
      subst e
      cases stop <;> simp [mu, hloop, loopRank] <;> omega
    case loopEnd =>
      unfold loopEnd at e
      split at e
      · rename_i hloop
        simp [hg.close] at e; subst e; simp [mu, hloop, loopRank]
      · simp at e
    case gStart g p =>
      unfold gStart at e
      split at e
      · rename_i x hx
        split at e
        · rename_i hc
          simp at e; subst e
          have := rank_set (match p with | .reject => GPc.failing | .enter => GPc.entered) hx
          cases p <;> simp [mu, setPc, hc.2, pcRank] at this ⊢ <;> omega
        · simp at e
      · simp at e
    case gWrite g =>
      unfold gWrite at e
      split at e
      · rename_i x hx
        split at e
        · rename_i hc
          split at e <;> simp at e <;> subst e
          · have := rank_set GPc.doneLost hx
            simp [mu, setPc, hc.2, pcRank] at this ⊢; omega
          · have := rank_set GPc.doneOk hx
            simp [mu, setPc, hc.2, pcRank] at this ⊢; omega
        · simp at e
      · simp at e
    case gSend g =>
      obtain ⟨x, hx, hc, hlt, hcl, e⟩ := gSend_spec hA e
      subst e
      have := rank_set GPc.doneErr hx
      simp [mu, hc, pcRank] at this ⊢; omega
    case sigRun g r =>
      unfold sigRun at e
      split at e
      · rename_i x hx
        split at e
        · rename_i hc
          cases r <;> simp [hg.guarded] at e <;> subst e
          · have := rank_set GPc.doneOk hx
            simp [mu, setPc, hc.2, pcRank] at this ⊢; omega
          all_goals
            have := rank_set GPc.failing hx
            simp [mu, setPc, hc.2, pcRank] at this ⊢; omega
        · simp at e
      · simp at e
    case hRecv =>
      unfold hRecv at e
      split at e
      · rename_i hh
        split at e
        · rename_i er rest hq
          simp at e; subst e; simp [mu, hh, hq, hRank]; omega
        · split at e <;> simp at e
          subst e; simp [mu, hh, hRank]
      · simp at e
    case hEmit =>
      obtain ⟨er, w, hh, hh', hq, hgs, hw, ho, hwo⟩ := hEmit_spec e
      obtain ⟨f1, f2, f3, f4, f5, f6, f7, f8, f9⟩ := hEmit_frame e
      have hidle := hEmit_idle hg e
      have hst : s.stopped = true → s'.stopped = true := by
        intro hs
        unfold hEmit at e
        rw [hh] at e
        simp [hs] at e
        subst e; simp
      have : flag s'.stopped ≤ flag s.stopped := by
        unfold flag
        cases h1 : s.stopped
        · split <;> simp
        · simp [hst h1]
      simp [mu, f2, f3, f4, f6, f7, f8, hidle, hh, hRank]
      omega
    case hCancel =>
      unfold hCancel at e
      split at e
      · rename_i hc
        simp [hg.drain] at e; subst e; simp [mu, hc.2.2, flag]
      · simp at e
    case close =>
      unfold closeChan at e
      split at e
      · rename_i hc
        simp at e; subst e; simp [mu, hc.2.2, flag]
      · simp at e
    case ret =>
      unfold doRet at e
      split at e
      · rename_i hc
        simp at e; subst e; simp [mu, hc.2.2, flag]
      · simp at e

theorem sumW_pos_get (w : G → Nat) : ∀ (gs : List G), sumW w gs ≠ 0 → ∃ (g : Nat) (x : G), gs[g]? = some x ∧ w x ≠ 0 := by
  intro gs
  induction gs with
  | nil => intro h; simp [sumW] at h
  | cons a as ih =>
    intro h
    by_cases ha : w a = 0
    · have : sumW w as ≠ 0 := by simp [sumW, ha] at h; exact h
      obtain ⟨g, x, hx, hw⟩ := ih this
      exact ⟨g + 1, x, by simpa using hx, hw⟩
    · exact ⟨0, a, by simp, ha⟩

/-- Once the input has ended, a state that has not returned always has an enabled action of the
    server or of a running handler: nobody is blocked forever. -/
theorem no_stuck (hg : c.Good) {s : State} (I : Inv s) (hin : s.inputClosed = true)
    (hr : s.returned = false) : ∃ a : Act, a.isEnvInput = false ∧ (step? c s a).isSome = true := by
  have hcr := I.a.crashed
  cases hh : s.h with
  | holding er =>
    refine ⟨.hEmit, rfl, ?_⟩
    simp [step?, hcr, hEmit, hh]
    repeat' split
    all_goals simp
  | done =>
    obtain ⟨hcl, hq⟩ := I.s.hDone hh
    have hw := I.a.closed hcl
    refine ⟨.ret, rfl, ?_⟩
    simp [step?, hcr, doRet, hh, hw, hr]
  | idle =>
    cases hq : s.queue with
    | cons er rest =>
      refine ⟨.hRecv, rfl, ?_⟩
      simp [step?, hcr, hRecv, hh, hq]
    | nil =>
      cases hcl : s.closed with
      | true =>
        refine ⟨.hRecv, rfl, ?_⟩
        simp [step?, hcr, hRecv, hh, hq, hcl]
      | false =>
        by_cases hw : s.wg = 0
        · refine ⟨.close, rfl, ?_⟩
          simp [step?, hcr, closeChan, hg.close, hw, hcl]
        · -- somebody is live: the read loop or a goroutine
          have hcap : s.queue.length < c.cap := by have := hg.cap; simp [hq]; omega
          cases hl : s.loop with
          | start =>
            cases hi : s.input with
            | nil =>
              refine ⟨.loopReadErr, rfl, ?_⟩
              simp [step?, hcr, loopReadErr, hi, hin, hl]
            | cons it rest =>
              refine ⟨.loopRead, rfl, ?_⟩
              cases it <;> simp [step?, hcr, loopRead, hi, hl]
              split <;> simp
          | idle =>
            cases hi : s.input with
            | nil =>
              refine ⟨.loopReadErr, rfl, ?_⟩
              simp [step?, hcr, loopReadErr, hi, hin, hl]
            | cons it rest =>
              refine ⟨.loopRead, rfl, ?_⟩
              cases it <;> simp [step?, hcr, loopRead, hi, hl]
          | sending er st =>
            refine ⟨.loopSend, rfl, ?_⟩
            simp [step?, hcr, loopSend, hl, chanSend, hcl, hcap]
          | ending =>
            refine ⟨.loopEnd, rfl, ?_⟩
            simp [step?, hcr, loopEnd, hl]
          | ended =>
            have hlive : live s.gs ≠ 0 := by
              have := I.a.wg; simp [hl, loopLive] at this; omega
            obtain ⟨g, x, hx, hwx⟩ := sumW_pos_get liveW s.gs hlive
            have hnd : x.pc.done = false := by
              simp [liveW] at hwx; simpa using hwx
            cases hk : x.kind with
            | step =>
              cases hpc : x.pc with
              | spawned =>
                refine ⟨.gStart g .reject, rfl, ?_⟩
                simp [step?, hcr, gStart, hx, hk, hpc]
              | entered =>
                refine ⟨.exit g .ok, rfl, ?_⟩
                simp [step?, hcr, gExit, hx, hk, hpc]
              | writing =>
                refine ⟨.gWrite g, rfl, ?_⟩
                simp [step?, hcr, gWrite, hx, hk, hpc]
                split <;> simp
              | failing =>
                refine ⟨.gSend g, rfl, ?_⟩
                simp [step?, hcr, gSend, hx, hpc, chanSend, hcl, hcap]
              | doneOk => simp [hpc, GPc.done] at hnd
              | doneLost => simp [hpc, GPc.done] at hnd
              | doneErr => simp [hpc, GPc.done] at hnd
            | signal =>
              have hsp := I.s.sigPc g x hx hk
              cases hpc : x.pc with
              | spawned =>
                refine ⟨.sigRun g .ok, rfl, ?_⟩
                simp [step?, hcr, sigRun, hx, hk, hpc]
              | entered => simp [hpc] at hsp
              | writing => simp [hpc] at hsp
              | failing =>
                refine ⟨.gSend g, rfl, ?_⟩
                simp [step?, hcr, gSend, hx, hpc, chanSend, hcl, hcap]
              | doneOk => simp [hpc, GPc.done] at hnd
              | doneLost => simp [hpc, GPc.done] at hnd
              | doneErr => simp [hpc, GPc.done] at hnd

end Arca.AtpServer
