import ArcaModel.Lemmas.Termination
import ArcaModel.Model.WF
/-
  Unserialize on recursive scopes needs only a budget linear in the nesting depth of the input
  (C14, "self-referential object graphs work on all finite inputs"), provided recursion through
  references always consumes input: no object with exactly one property (the single-property
  shorthand passes a non-map value on unchanged) and no defaults (a default is schema-supplied
  input of its own depth).
-/
namespace Arca
open Out

/-- "did not run out of fuel" -/
def Out.NF {α} (o : Out α) : Prop := o ≠ .fuel

namespace Out
@[simp] theorem nf_ok {α} (a : α) : NF (Out.ok a) := by simp [NF]
@[simp] theorem nf_err {α} (e : Err) : NF (Out.err e : Out α) := by simp [NF]
@[simp] theorem nf_panic {α} : NF (Out.panic : Out α) := by simp [NF]
@[simp] theorem not_nf_fuel {α} : ¬ NF (Out.fuel : Out α) := by simp [NF]
@[simp] theorem nf_cerr {α} : NF (Out.cerr : Out α) := by simp [NF, cerr]
@[simp] theorem nf_plain {α} : NF (Out.plain : Out α) := by simp [NF, plain]
@[simp] theorem nf_cerrAt {α} (p : List String) : NF (Out.cerrAt p : Out α) := by simp [NF, cerrAt]

theorem nf_bind {α β} {a : Out α} {f : α → Out β} (ha : NF a) (hf : ∀ x, a = .ok x → NF (f x)) : NF (a.bind f) := by
  cases a <;> simp_all [NF, bind]

theorem nf_bind' {α β} {a : Out α} {f : α → Out β} (ha : NF a) (hf : ∀ x, NF (f x)) : NF (a.bind f) :=
  nf_bind ha (fun x _ => hf x)

theorem nf_addSeg {α} {a : Out α} (s : String) (ha : NF a) : NF (a.addSeg s) := by
  cases a <;> simp_all [NF, addSeg]
end Out

theorem nf_rewrapC {α} {a : Out α} (ha : NF a) : NF (rewrapC a) := by
  cases a <;> simp_all [rewrapC]

theorem nf_rewrapP {α} {a : Out α} (ha : NF a) : NF (rewrapP a) := by
  cases a <;> simp_all [rewrapP]

theorem nf_forIdx {f : Nat → V → Out V} : ∀ (n : Nat) (xs : List V), (∀ i x, x ∈ xs → NF (f i x)) → NF (forIdx f n xs)
  | _, [], _ => by simp [forIdx]
  | n, x :: xs, hf => by
    have h1 := hf n x (List.mem_cons_self ..)
    have h2 := nf_forIdx (f := f) (n + 1) xs (fun i y hy => hf i y (List.mem_cons_of_mem _ hy))
    simp only [forIdx]
    cases hx : f n x <;> simp_all
    cases hr : forIdx f (n + 1) xs <;> simp_all

theorem nf_forKV {f : V → V → Out (V × V)} : ∀ (kvs : List (V × V)), (∀ k v, (k, v) ∈ kvs → NF (f k v)) → NF (forKV f kvs)
  | [], _ => by simp [forKV]
  | (k, v) :: rest, hf => by
    have h1 := hf k v (List.mem_cons_self ..)
    have h2 := nf_forKV (f := f) rest (fun k' v' h => hf k' v' (List.mem_cons_of_mem _ h))
    simp only [forKV]
    cases hx : f k v <;> simp_all
    cases hr : forKV f rest <;> simp_all

theorem nf_forSV {f : String → V → Out V} : ∀ (kvs : List (String × V)), (∀ k v, (k, v) ∈ kvs → NF (f k v)) → NF (forSV f kvs)
  | [], _ => by simp [forSV]
  | (k, v) :: rest, hf => by
    have h1 := hf k v (List.mem_cons_self ..)
    have h2 := nf_forSV (f := f) rest (fun k' v' h => hf k' v' (List.mem_cons_of_mem _ h))
    simp only [forSV]
    cases hx : f k v <;> simp_all
    cases hr : forSV f rest <;> simp_all

/-! ### scalars never consume fuel -/

theorem nf_intInputMapper (u : Option Units) (v : V) : NF (intInputMapper u v) := by
  unfold intInputMapper; (repeat' split) <;> simp

theorem nf_stringInputMapper (x : Ext) (v : V) : NF (stringInputMapper x v) := by
  unfold stringInputMapper; (repeat' split) <;> simp

theorem nf_boolInputMapper (v : V) : NF (boolInputMapper v) := by
  unfold boolInputMapper; (repeat' split) <;> simp
  (repeat' split) <;> simp

theorem nf_floatInputMapper (x : Ext) (u : Option Units) (v : V) : NF (floatInputMapper x u v) := by
  unfold floatInputMapper; (repeat' split) <;> simp

theorem nf_checkInt (a b : Option Int) (n : Int) : NF (checkInt a b n) := by
  unfold checkInt; (repeat' split) <;> simp
theorem nf_checkLen (a b : Option Int) (n : Nat) : NF (checkLen a b n) := by
  unfold checkLen; (repeat' split) <;> simp
theorem nf_checkFloat (a b : Option Nat) (n : Nat) : NF (checkFloat a b n) := by
  unfold checkFloat; (repeat' split) <;> simp
theorem nf_checkStr (x : Ext) (a b : Option Int) (p : Option String) (s : String) : NF (checkStr x a b p s) := by
  unfold checkStr
  have := nf_checkLen a b s.utf8ByteSize
  (repeat' split) <;> simp_all

theorem nf_runInt_U (a b : Option Int) (u : Option Units) (v : V) : NF (runInt .U a b u v) := by
  unfold runInt
  exact nf_bind' (nf_rewrapC (nf_intInputMapper _ _)) (fun _ => nf_bind' (nf_checkInt _ _ _) (fun _ => by simp))

theorem nf_runFloat_U (x : Ext) (a b : Option Nat) (u : Option Units) (v : V) : NF (runFloat x .U a b u v) := by
  unfold runFloat
  exact nf_bind' (nf_rewrapC (nf_floatInputMapper _ _ _)) (fun _ => nf_bind' (nf_checkFloat _ _ _) (fun _ => by simp))

theorem nf_runStr_U (x : Ext) (a b : Option Int) (p : Option String) (v : V) : NF (runStr x .U a b p v) := by
  unfold runStr
  exact nf_bind' (nf_rewrapC (nf_stringInputMapper _ _)) (fun _ => nf_bind' (nf_checkStr _ _ _ _ _) (fun _ => by simp))

theorem nf_runBool_U (v : V) : NF (runBool .U v) := by
  unfold runBool
  exact nf_bind' (nf_boolInputMapper _) (fun _ => by simp)

theorem nf_runPattern_U (x : Ext) (v : V) : NF (runPattern x .U v) := by
  unfold runPattern
  exact nf_bind' (nf_rewrapC (nf_stringInputMapper _ _)) (fun _ => by split <;> simp)

theorem nf_runEnumInt_U (vals : List Int) (u : Option Units) (v : V) : NF (runEnumInt .U vals u v) := by
  unfold runEnumInt
  exact nf_bind' (nf_rewrapC (nf_intInputMapper _ _)) (fun _ => by split <;> simp)

theorem nf_runEnumStr_U (x : Ext) (vals : List String) (v : V) : NF (runEnumStr x .U vals v) := by
  unfold runEnumStr
  exact nf_bind' (nf_rewrapC (nf_stringInputMapper _ _)) (fun _ => by split <;> simp)

/-! ### nesting depth of values -/

/-- `vfits d v`: the containers of `v` are nested at most `d` deep -/
def vfits : Nat → V → Bool
  | _, .nil => true
  | _, .bool _ => true
  | _, .int _ _ => true
  | _, .float _ _ => true
  | _, .str _ => true
  | _, .regex _ => true
  | _, .opaque => true
  | 0, .bytes _ => false
  | 0, .list _ => false
  | 0, .map _ _ => false
  | 0, .named _ => false
  | _ + 1, .bytes _ => true
  | n + 1, .list xs => xs.all (vfits n)
  | n + 1, .map _ kvs => kvs.all (fun kv => vfits n kv.1 && vfits n kv.2)
  | n + 1, .named v => vfits n v

theorem vfits_succ : ∀ (d : Nat) (v : V), vfits d v = true → vfits (d + 1) v = true
  | 0, v, h => by cases v <;> simp_all [vfits]
  | d + 1, v, h => by
    cases v with
    | list xs =>
      simp only [vfits, List.all_eq_true] at h ⊢
      exact fun x hx => vfits_succ d x (h x hx)
    | map sh kvs =>
      simp only [vfits, List.all_eq_true, Bool.and_eq_true] at h ⊢
      exact fun kv hkv => ⟨vfits_succ d _ (h kv hkv).1, vfits_succ d _ (h kv hkv).2⟩
    | named w =>
      simp only [vfits] at h ⊢
      exact vfits_succ d w h
    | _ => simp_all [vfits]

theorem vfits_mono {d d' : Nat} {v : V} (h : vfits d v = true) (hle : d ≤ d') : vfits d' v = true := by
  induction hle with
  | refl => exact h
  | step _ ih => exact vfits_succ _ _ ih

theorem vfits_slice {d : Nat} {v : V} {xs : List V} (h : vfits d v = true) (hs : v.sliceElems? = some xs) :
    ∃ d', d = d' + 1 ∧ ∀ x ∈ xs, vfits d' x = true := by
  cases v <;> simp only [V.sliceElems?, Option.some.injEq] at hs <;> try cases hs
  · -- bytes
    cases d with
    | zero => simp [vfits] at h
    | succ d' =>
      refine ⟨d', rfl, ?_⟩
      intro x hx
      simp only [List.mem_map] at hx
      obtain ⟨n, _, rfl⟩ := hx
      simp [vfits]
  · cases d with
    | zero => simp [vfits] at h
    | succ d' =>
      simp only [vfits, List.all_eq_true] at h
      exact ⟨d', rfl, h⟩

theorem vfits_map {d : Nat} {v : V} {sh : MapShape} {kvs : List (V × V)} (h : vfits d v = true)
    (hs : v.mapEntries? = some (sh, kvs)) :
    ∃ d', d = d' + 1 ∧ ∀ kv ∈ kvs, vfits d' kv.1 = true ∧ vfits d' kv.2 = true := by
  cases v with
  | map sh' kvs' =>
    simp only [V.mapEntries?, Option.some.injEq, Prod.mk.injEq] at hs
    obtain ⟨rfl, rfl⟩ := hs
    cases d with
    | zero => simp [vfits] at h
    | succ d' =>
      simp only [vfits, List.all_eq_true, Bool.and_eq_true] at h
      exact ⟨d', rfl, h⟩
  | _ => simp [V.mapEntries?] at hs

theorem strKeys_mem : ∀ {kvs : List (V × V)} {skvs : List (String × V)}, strKeys? kvs = some skvs →
    ∀ k v, (k, v) ∈ skvs → (V.str k, v) ∈ kvs
  | [], skvs, h, k, v, hm => by simp only [strKeys?, Option.some.injEq] at h; subst h; cases hm
  | (kk, vv) :: rest, skvs, h, k, v, hm => by
    cases kk with
    | str s =>
      simp only [strKeys?] at h
      cases hr : strKeys? rest with
      | none => rw [hr] at h; simp at h
      | some r =>
        rw [hr] at h
        simp only [Option.map_some, Option.some.injEq] at h
        subst h
        rcases List.mem_cons.mp hm with he | hm'
        · cases he; exact List.mem_cons_self ..
        · exact List.mem_cons_of_mem _ (strKeys_mem hr k v hm')
    | _ => simp [strKeys?] at h

theorem eraseKey_mem {α} (disc : String) : ∀ (m : List (String × α)) (kv : String × α), kv ∈ eraseKey disc m → kv ∈ m
  | [], _, h => by simp [eraseKey] at h
  | (k', v') :: rest, kv, h => by
    simp only [eraseKey] at h
    split at h
    · exact List.mem_cons_of_mem _ (eraseKey_mem disc rest kv h)
    · rcases List.mem_cons.mp h with he | h'
      · rw [he]; exact List.mem_cons_self ..
      · exact List.mem_cons_of_mem _ (eraseKey_mem disc rest kv h')

theorem vfits_toStrAny {d : Nat} {m : List (String × V)} (h : ∀ kv ∈ m, vfits d kv.2 = true) :
    vfits (d + 1) (toStrAny m) = true := by
  simp only [toStrAny, vfits, List.all_eq_true, Bool.and_eq_true, List.mem_map]
  rintro kv ⟨⟨k, v⟩, hm, rfl⟩
  exact ⟨by simp [vfits], h _ hm⟩

/-! ### the any-schema -/

theorem nf_anyConvert : ∀ (n d : Nat) (v : V), vfits d v = true → d < n → NF (anyConvert n v)
  | 0, _, _, _, h => by omega
  | n + 1, d, v, hv, hd => by
    have ih := nf_anyConvert n
    have hu : vfits d v.under = true := by
      cases v with
      | named w =>
        cases d with
        | zero => simp [vfits] at hv
        | succ d' => simp only [V.under]; simp only [vfits] at hv; exact vfits_succ _ _ hv
      | _ => exact hv
    unfold anyConvert
    split
    · split
      · simp
      · split
        · simp
        · exact nf_bind' (nf_intInputMapper _ _) (fun _ => by simp)
    · (repeat' split) <;> simp
    · simp
    · simp
    · rename_i xs heq
      rw [heq] at hu
      cases d with
      | zero => simp [vfits] at hu
      | succ d' =>
        simp only [vfits, List.all_eq_true] at hu
        exact nf_bind' (nf_forIdx _ _ (fun i x hx => nf_addSeg _ (ih d' x (hu x hx) (by omega)))) (fun _ => by simp)
    · rename_i b heq
      refine nf_bind' (nf_forIdx _ _ (fun i x hx => nf_addSeg _ ?_)) (fun _ => by simp)
      simp only [List.mem_map] at hx
      obtain ⟨m, _, rfl⟩ := hx
      cases n with
      | zero =>
        -- the budget is at least 2 here: a byte slice has depth 1
        rw [heq] at hu
        cases d with
        | zero => simp [vfits] at hu
        | succ d' => omega
      | succ n' => exact ih 0 _ (by simp [vfits]) (by omega)
    · rename_i sh kvs heq
      rw [heq] at hu
      cases d with
      | zero => simp [vfits] at hu
      | succ d' =>
        simp only [vfits, List.all_eq_true, Bool.and_eq_true] at hu
        refine nf_bind' (nf_forKV _ (fun k e hke => ?_)) (fun _ => by split <;> simp)
        exact nf_bind' (nf_addSeg _ (ih d' k (hu _ hke).1 (by omega)))
          (fun _ => nf_bind' (nf_addSeg _ (ih d' e (hu _ hke).2 (by omega))) (fun _ => by simp))
    · simp

/-! ### containers: Unserialize needs fuel only where the recursive calls do -/

theorem nf_runList_U {rec : Rec} {env : Env} {item : Ty} {a b : Option Int} {v : V}
    (h : ∀ xs, v.sliceElems? = some xs → ∀ e ∈ xs, NF (rec .U env item e)) :
    NF (runList rec .U env item a b v) := by
  unfold runList
  split
  · simp
  · rename_i xs hs
    simp only
    exact nf_bind' (nf_checkLen _ _ _) (fun _ =>
      nf_bind' (nf_forIdx _ _ (fun i e he => nf_addSeg _ (h xs hs e he))) (fun _ => by simp))

theorem nf_runMap_U {rec : Rec} {env : Env} {kt vt : Ty} {a b : Option Int} {v : V}
    (h : ∀ sh kvs, v.mapEntries? = some (sh, kvs) → ∀ kv ∈ kvs, NF (rec .U env kt kv.1) ∧ NF (rec .U env vt kv.2)) :
    NF (runMap rec .U env kt vt a b v) := by
  unfold runMap
  split
  · simp
  · rename_i sh kvs hs
    refine nf_bind' (nf_checkLen _ _ _) (fun _ => ?_)
    simp only
    refine nf_bind' (nf_forKV _ (fun k e hke => ?_)) (fun _ => by split <;> simp)
    unfold entryKV
    exact nf_bind' (nf_addSeg _ (h sh kvs hs _ hke).1) (fun _ => nf_bind' (nf_addSeg _ (h sh kvs hs _ hke).2) (fun _ => by simp))

theorem nf_interdeps (props : List (String × PropT)) (isSet : String → Bool) : NF (interdeps props isSet) := by
  unfold interdeps
  induction props with
  | nil => simp [interdeps.go]
  | cons p rest ih =>
    obtain ⟨id, p⟩ := p
    simp only [interdeps.go]
    (repeat' split) <;> first | exact ih | simp

theorem applyDefaults_none : ∀ (props : List (String × PropT)) (m : List (String × V)),
    (∀ np ∈ props, np.2.default = none) → applyDefaults props m = .ok m
  | [], m, _ => rfl
  | (id, p) :: rest, m, h => by
    have hp : p.defaultV = none := by
      have := h (id, p) (List.mem_cons_self ..)
      simp only at this
      simp [PropT.defaultV, this]
    simp only [applyDefaults, hp]
    have ih := applyDefaults_none rest m (fun np hnp => h np (List.mem_cons_of_mem _ hnp))
    split <;> exact ih

theorem nf_objRaw {rec : Rec} {env : Env} {props : List (String × PropT)} {v : V}
    (hlen : props.length ≠ 1) (hdef : ∀ np ∈ props, np.2.default = none)
    (h : ∀ sh kvs skvs, v.mapEntries? = some (sh, kvs) → strKeys? kvs = some skvs →
      ∀ k d p, (k, d) ∈ skvs → lookupS k props = some p → NF (rec .U env p.ty d)) :
    NF (objRaw rec env props v) := by
  unfold objRaw
  split
  · split
    · simp at hlen
    · simp
  · rename_i sh kvs hs
    split
    · simp
    · rename_i skvs hk
      split
      · simp
      · rw [applyDefaults_none props skvs hdef]
        simp only [Out.bind]
        refine nf_forSV _ (fun k d hkd => ?_)
        unfold objEntryU
        split
        · simp
        · rename_i p hp
          split
          · simp
          · exact nf_addSeg _ (h sh kvs skvs hs hk k d p hkd hp)

theorem nf_runObj_U {rec : Rec} {env : Env} {id : String} {props : List (String × PropT)} {v : V}
    (hlen : props.length ≠ 1) (hdef : ∀ np ∈ props, np.2.default = none)
    (h : ∀ sh kvs skvs, v.mapEntries? = some (sh, kvs) → strKeys? kvs = some skvs →
      ∀ k d p, (k, d) ∈ skvs → lookupS k props = some p → NF (rec .U env p.ty d)) :
    NF (runObj rec .U env id props v) := by
  unfold runObj
  simp only
  exact nf_bind' (nf_objRaw hlen hdef h) (fun _ => nf_bind' (nf_interdeps _ _) (fun _ => by simp))

theorem nf_oneOfUnser {rec : Rec} {x : Ext} {env : Env} {intKey : Bool} {disc : String} {inlined : Bool}
    {members : List (Key × Ty)} {v : V}
    (h : ∀ sh kvs m key mt, v.mapEntries? = some (sh, kvs) → strKeys? kvs = some m →
      lookupK key members = some mt → NF (rec .U env mt (toStrAny (if inlined then m else eraseKey disc m)))) :
    NF (oneOfUnser rec x env intKey disc inlined members v) := by
  unfold oneOfUnser
  split
  · simp
  · split
    · simp
    · rename_i sh kvs hs
      split
      · simp
      · split
        · simp
        · simp only
          refine nf_bind ?_ (fun key _ => ?_)
          · split
            · exact nf_bind' (nf_rewrapC (nf_intInputMapper _ _)) (fun _ => by simp)
            · exact nf_bind' (nf_rewrapC (nf_stringInputMapper _ _)) (fun _ => by simp)
          · split
            · simp
            · rename_i m hm
              split
              · simp
              · rename_i mt hmt
                refine nf_bind' (h sh kvs m key mt hs hm hmt) (fun r => ?_)
                split
                · split <;> simp
                · simp

/-! ### schemas on which recursion through references consumes input -/

def Ty.isObj : Ty → Bool
  | .obj _ _ => true
  | _ => false

/-- `okTy s t`: `t` is nested at most `s` deep (references are leaves), no object in it has exactly
    one property or a default, and scope entries are objects -/
def okTy : Nat → Ty → Bool
  | 0, _ => false
  | s + 1, t =>
    match t with
    | .int _ _ _ | .float _ _ _ | .str _ _ _ | .bool | .pattern | .enumInt _ _ | .enumStr _ | .any => true
    | .ref _ => true
    | .list item _ _ => okTy s item
    | .map k v _ _ => okTy s k && okTy s v
    | .obj _ props => props.length != 1 && props.all fun np => np.2.default.isNone && okTy s np.2.ty
    | .oneOf _ _ _ members => members.all fun m => okTy s m.2
    | .scope objs _ => objs.all fun p => p.2.isObj && okTy s p.2

theorem okTy_succ : ∀ (s : Nat) (t : Ty), okTy s t = true → okTy (s + 1) t = true
  | 0, _, h => by simp [okTy] at h
  | s + 1, t, h => by
    have ih := okTy_succ s
    cases t with
    | list item a b => simp only [okTy] at h ⊢; exact ih _ h
    | map k v a b =>
      simp only [okTy, Bool.and_eq_true] at h ⊢
      exact ⟨ih _ h.1, ih _ h.2⟩
    | obj id props =>
      simp only [okTy, Bool.and_eq_true, List.all_eq_true] at h ⊢
      exact ⟨h.1, fun np hnp => ⟨(h.2 np hnp).1, ih _ (h.2 np hnp).2⟩⟩
    | oneOf ik d inl ms =>
      simp only [okTy, List.all_eq_true] at h ⊢
      exact fun m hm => ih _ (h m hm)
    | scope objs root =>
      simp only [okTy, Bool.and_eq_true, List.all_eq_true] at h ⊢
      exact fun p hp => ⟨(h p hp).1, ih _ (h p hp).2⟩
    | _ => simp [okTy]

theorem okTy_mono {s s' : Nat} {t : Ty} (h : okTy s t = true) (hle : s ≤ s') : okTy s' t = true := by
  induction hle with
  | refl => exact h
  | step _ ih => exact okTy_succ _ _ ih

/-- every object of the scope is an object without shorthand and defaults, nested at most `M` deep -/
def EnvOK (M : Nat) (env : Env) : Prop := ∀ p ∈ env, p.2.isObj = true ∧ okTy M p.2 = true

theorem nf_run_mono (x : Ext) {n n' : Nat} (hle : n ≤ n') {op : Op} {env : Env} {t : Ty} {v : V}
    (h : NF (run x n op env t v)) : NF (run x n' op env t v) := by
  obtain ⟨k, rfl⟩ := Nat.exists_eq_add_of_le hle
  rw [run_mono x n k op env t v _ rfl h]
  exact h

/-- **Linear budget.** On schemas of nesting depth ≤ `M` without single-property objects and without
    defaults, Unserialize of a value of container nesting depth ≤ `d` does not run out of a budget
    of `s + 2 + d * (M + 2)` (`s` = nesting depth of the schema it starts at). -/
theorem nf_run_U (x : Ext) (M : Nat) : ∀ (d s : Nat) (env : Env) (t : Ty) (v : V),
    s ≤ M → EnvOK M env → okTy s t = true → vfits d v = true →
    NF (run x (s + 2 + d * (M + 2)) .U env t v) := by
  intro d
  induction d using Nat.strongRecOn with
  | _ d ihd =>
    intro s
    induction s with
    | zero => intro env t v _ _ ht _; simp [okTy] at ht
    | succ s ihs =>
      intro env t v hsM henv ht hv
      have hfuel : s + 1 + 2 + d * (M + 2) = (s + 2 + d * (M + 2)) + 1 := by omega
      rw [hfuel]
      -- the recursive calls of the current node run with `s + 2 + d * (M + 2)`
      have recS : ∀ {env' : Env} {c : Ty} {w : V}, EnvOK M env' → okTy s c = true → vfits d w = true →
          NF (run x (s + 2 + d * (M + 2)) .U env' c w) :=
        fun he hc hw => ihs _ _ _ (by omega) he hc hw
      cases t with
      | int => simp only [run]; exact nf_runInt_U _ _ _ _
      | float => simp only [run]; exact nf_runFloat_U _ _ _ _ _
      | str => simp only [run]; exact nf_runStr_U _ _ _ _ _
      | bool => simp only [run]; exact nf_runBool_U _
      | pattern => simp only [run]; exact nf_runPattern_U _ _
      | enumInt => simp only [run]; exact nf_runEnumInt_U _ _ _
      | enumStr => simp only [run]; exact nf_runEnumStr_U _ _ _
      | any =>
        simp only [run, runAny]
        refine nf_anyConvert _ d v hv ?_
        have : d ≤ d * (M + 2) := Nat.le_mul_of_pos_right d (by omega)
        omega
      | list item a b =>
        simp only [run]
        simp only [okTy] at ht
        refine nf_runList_U (fun xs hs e he => ?_)
        obtain ⟨d', rfl, hall⟩ := vfits_slice hv hs
        exact recS henv ht (vfits_succ _ _ (hall e he))
      | map kt vt a b =>
        simp only [run]
        simp only [okTy, Bool.and_eq_true] at ht
        refine nf_runMap_U (fun sh kvs hs kv hkv => ?_)
        obtain ⟨d', rfl, hall⟩ := vfits_map hv hs
        exact ⟨recS henv ht.1 (vfits_succ _ _ (hall kv hkv).1), recS henv ht.2 (vfits_succ _ _ (hall kv hkv).2)⟩
      | obj id props =>
        simp only [run]
        simp only [okTy, Bool.and_eq_true, List.all_eq_true, bne_iff_ne, ne_eq] at ht
        refine nf_runObj_U ht.1 (fun np hnp => by simpa using (ht.2 np hnp).1) ?_
        intro sh kvs skvs hs hk k e p hke hp
        obtain ⟨d', rfl, hall⟩ := vfits_map hv hs
        have hmem := strKeys_mem hk k e hke
        exact recS henv (ht.2 _ (lookupS_mem hp)).2 (vfits_succ _ _ (hall _ hmem).2)
      | oneOf ik disc inl ms =>
        simp only [run, runOneOf]
        simp only [okTy, List.all_eq_true] at ht
        refine nf_oneOfUnser (fun sh kvs m key mt hs hm hmt => ?_)
        obtain ⟨d', rfl, hall⟩ := vfits_map hv hs
        have hmv : ∀ kv ∈ m, vfits d' kv.2 = true := fun kv hkv => (hall _ (strKeys_mem hm kv.1 kv.2 hkv)).2
        refine recS henv (ht _ (lookupK_mem hmt)) (vfits_toStrAny ?_)
        split
        · exact hmv
        · exact fun kv hkv => hmv kv (eraseKey_mem disc m kv hkv)
      | scope objs root =>
        simp only [run]
        simp only [okTy, Bool.and_eq_true, List.all_eq_true] at ht
        split
        · simp
        · rename_i o ho
          have henv' : EnvOK M objs := fun p hp => ⟨(ht p hp).1, okTy_mono (ht p hp).2 (by omega)⟩
          exact recS henv' (ht _ (lookupS_mem ho)).2 hv
      | ref id =>
        simp only [run]
        split
        · simp
        · rename_i o ho
          -- the object the reference denotes: its properties see strictly shallower values
          obtain ⟨hobj, hok⟩ := henv _ (lookupS_mem ho)
          cases o with
          | obj oid props =>
            cases M with
            | zero => simp [okTy] at hok
            | succ M' =>
              simp only [okTy, Bool.and_eq_true, List.all_eq_true, bne_iff_ne, ne_eq] at hok
              -- one unit for the reference was spent; the object itself takes another
              have hs1 : s + 2 + d * (M' + 1 + 2) = (s + 1 + d * (M' + 1 + 2)) + 1 := by omega
              rw [hs1]
              simp only [run]
              refine nf_runObj_U hok.1 (fun np hnp => by simpa using (hok.2 np hnp).1) ?_
              intro sh kvs skvs hs hk k e p hke hp
              obtain ⟨d', rfl, hall⟩ := vfits_map hv hs
              have hmem := strKeys_mem hk k e hke
              have := ihd d' (by omega) M' env p.ty e (by omega) henv (hok.2 _ (lookupS_mem hp)).2 (hall _ hmem).2
              refine nf_run_mono x ?_ this
              have : (d' + 1) * (M' + 1 + 2) = d' * (M' + 1 + 2) + (M' + 1 + 2) := by
                rw [Nat.add_mul, Nat.one_mul]
              omega
          | _ => simp [Ty.isObj] at hobj

end Arca
