import ArcaModel.Model.AtpSession
/-
  C05  "ATP is transparent: each Execute returns its own step's in-process result."

  Theorems about `Arca.AtpSession.step?` (Model/AtpSession.lean), over ALL reachable states, for any
  number of `Execute` calls in any overlap, any interleaving of the callers, the transport and the
  server, and any `input` / `callStep` (both are parameters).

  What is assumed rather than proved (stated in Model/AtpSession.lean): messages are appended to a
  stream as a whole (writer atomicity; `Props/C07Facts.lean` F7 checks the server side on the
  working tree), the transport is a reliable FIFO per direction, and CBOR framing is at message
  level. Payload fidelity across CBOR is C01's subject, `callStep` itself C11's.
-/
namespace Arca.AtpSession

variable {Inp Res : Type} {input : Run → Inp} {callStep : Inp → Res}

/-! ### counting messages per run -/

def cntR {α : Type} (r : Run) (l : List (Run × α)) : Nat := l.countP (fun e => e.1 == r)

theorem cntR_append {α : Type} (r : Run) (a b : List (Run × α)) : cntR r (a ++ b) = cntR r a + cntR r b := by
  simp [cntR, List.countP_append]

theorem cntR_single {α : Type} (r : Run) (m : Run × α) : cntR r [m] = if m.1 = r then 1 else 0 := by
  simp [cntR, List.countP_cons]

@[simp] theorem cntR_nil {α : Type} (r : Run) : cntR r ([] : List (Run × α)) = 0 := rfl

theorem cntR_cons {α : Type} (r : Run) (m : Run × α) (l : List (Run × α)) :
    cntR r (m :: l) = cntR r l + if m.1 = r then 1 else 0 := by
  simp [cntR, List.countP_cons]

theorem cntR_eraseIdx {α : Type} (r : Run) : ∀ (l : List (Run × α)) (i : Nat) (m : Run × α), l[i]? = some m →
    cntR r (l.eraseIdx i) + (if m.1 = r then 1 else 0) = cntR r l := by
  intro l
  induction l with
  | nil => intro i m h; simp at h
  | cons a as ih =>
    intro i m h
    cases i with
    | zero => simp at h; subst h; simp [cntR_cons]
    | succ n =>
      simp at h
      have := ih n m h
      simp [cntR_cons]; omega

theorem cntR_filter_ne {α : Type} (r r' : Run) (l : List (Run × α)) :
    cntR r' (l.filter (fun e => e.1 ≠ r)) = if r' = r then 0 else cntR r' l := by
  induction l with
  | nil => simp [cntR]
  | cons a as ih =>
    rw [List.filter_cons]
    by_cases h1 : a.1 = r
    · have hd : decide (a.1 ≠ r) = false := by simp [h1]
      rw [hd]
      simp only [Bool.false_eq_true, if_false]
      rw [ih, cntR_cons]
      by_cases h2 : r' = r
      · simp [h2]
      · have h3 : ¬ a.1 = r' := by rw [h1]; exact fun h => h2 h.symm
        simp [h2, h3]
    · have hd : decide (a.1 ≠ r) = true := by simp [h1]
      rw [hd]
      simp only [if_true]
      rw [cntR_cons, cntR_cons, ih]
      by_cases h2 : r' = r
      · subst h2; simp [h1]
      · simp [h2]

theorem cntR_pos_of_find {α : Type} (r : Run) (l : List (Run × α)) (m : Run × α)
    (h : l.find? (fun e => e.1 = r) = some m) : m.1 = r ∧ 1 ≤ cntR r l := by
  induction l with
  | nil => simp at h
  | cons a as ih =>
    simp [List.find?_cons] at h
    by_cases h1 : a.1 = r
    · simp [h1] at h; subst h; simp [cntR_cons, h1]
    · simp [h1] at h
      have := ih h
      exact ⟨this.1, by simp [cntR_cons]; omega⟩

theorem count_erase_mem (r r' : Run) (l : List Run) (h : r ∈ l) :
    (l.erase r).count r' + (if r = r' then 1 else 0) = l.count r' := by
  by_cases h1 : r = r'
  · subst h1
    have := List.count_pos_iff.mpr h
    simp [List.count_erase_self]; omega
  · simp [h1, List.count_erase_of_ne (Ne.symm h1)]

theorem cntR_setReady (r r' : Run) (y : Res) (l : List (Run × Res)) :
    cntR r' (setReady l r y) = cntR r' l := by
  induction l with
  | nil => simp [setReady, cntR]
  | cons a as ih =>
    simp [setReady] at ih ⊢
    simp [cntR_cons, ih]
    by_cases h : a.1 = r <;> simp [h]

/-! ## C05_routing: the inductive invariant -/

/-- every message in flight, every running step and every result entry of run `r` carries exactly
    `input r` resp. `spec r` -/
structure Routed (input : Run → Inp) (callStep : Inp → Res) (s : State Inp Res) : Prop where
  c2s : ∀ m ∈ s.c2s, m.2 = input m.1
  srv : ∀ m ∈ s.srv, m.2 = input m.1
  s2c : ∀ m ∈ s.s2c, m.2 = spec input callStep m.1
  ready : ∀ m ∈ s.ready, m.2 = spec input callStep m.1
  returned : ∀ m ∈ s.returned, m.2 = spec input callStep m.1

/-- the work-start / answer of run `r` still on its way to the client's result entry -/
def tok (s : State Inp Res) (r : Run) : Nat :=
  s.unsent.count r + cntR r s.c2s + cntR r s.srv + cntR r s.s2c

/-- every registered run is represented exactly once: as a pending entry whose message is at
    exactly one place on its way, or as a stored result, or as a returned call -/
structure Tokens (s : State Inp Res) : Prop where
  flight : ∀ r, s.pending.count r = tok s r
  one : ∀ r, s.pending.count r + cntR r s.ready + cntR r s.returned = if r ∈ s.issued then 1 else 0

theorem routed_init : Routed input callStep (State.init : State Inp Res) := by
  constructor <;> simp [State.init]

theorem tokens_init : Tokens (State.init : State Inp Res) := by
  constructor <;> simp [State.init, tok, cntR]

theorem routed_step {s s' : State Inp Res} {a : Act} (h : Routed input callStep s)
    (e : step? input callStep s a = some s') : Routed input callStep s' := by
  obtain ⟨h1, h2, h3, h4, h5⟩ := h
  cases a with
  | register r =>
    simp [step?] at e; obtain ⟨_, e⟩ := e; subst e
    exact ⟨h1, h2, h3, h4, h5⟩
  | send r =>
    simp [step?] at e; obtain ⟨_, e⟩ := e; subst e
    refine ⟨?_, h2, h3, h4, h5⟩
    intro m hm
    simp at hm
    rcases hm with hm | hm
    · exact h1 m hm
    · subst hm; rfl
  | deliverC2S =>
    simp only [step?] at e
    split at e
    · rename_i m rest hc
      simp at e; subst e
      refine ⟨?_, ?_, h3, h4, h5⟩
      · intro x hx; exact h1 x (by simp [hc, hx])
      · intro x hx
        simp at hx
        rcases hx with hx | hx
        · exact h2 x hx
        · subst hx; exact h1 x (by simp [hc])
    · simp at e
  | finish i =>
    simp only [step?] at e
    split at e
    · rename_i r x hx
      simp at e; subst e
      refine ⟨h1, ?_, ?_, h4, h5⟩
      · intro m hm; exact h2 m (List.mem_of_mem_eraseIdx hm)
      · intro m hm
        simp at hm
        rcases hm with hm | hm
        · exact h3 m hm
        · subst hm
          have := h2 (r, x) (List.mem_of_getElem? hx)
          simp at this
          simp [spec, this]
    · simp at e
  | deliverS2C =>
    simp only [step?] at e
    split at e
    · rename_i r y rest hc
      have hy : y = spec input callStep r := by
        have := h3 (r, y) (by simp [hc]); simpa using this
      split at e <;> simp at e <;> subst e
      · refine ⟨h1, h2, ?_, ?_, h5⟩
        · intro m hm; exact h3 m (by simp [hc, hm])
        · intro m hm
          simp at hm
          rcases hm with hm | hm
          · exact h4 m hm
          · subst hm; exact hy
      · refine ⟨h1, h2, ?_, ?_, h5⟩
        · intro m hm; exact h3 m (by simp [hc, hm])
        · intro m hm
          simp [setReady] at hm
          obtain ⟨a, b, hab, hm⟩ := hm
          split at hm
          · subst hm; exact hy
          · subst hm; exact h4 (a, b) hab
    · simp at e
  | take r =>
    simp only [step?] at e
    split at e
    · rename_i r0 y hf
      simp at e; subst e
      have hmem := List.mem_of_find?_eq_some hf
      have hr0 : r0 = r := by
        have := List.find?_some hf; simpa using this
      refine ⟨h1, h2, h3, ?_, ?_⟩
      · intro m hm; exact h4 m (List.mem_filter.mp hm).1
      · intro m hm
        simp at hm
        rcases hm with hm | hm
        · exact h5 m hm
        · subst hm
          have := h4 (r0, y) hmem
          simp at this
          simp [this, hr0]
    · simp at e

theorem tokens_step {s s' : State Inp Res} {a : Act} (h : Tokens s)
    (e : step? input callStep s a = some s') : Tokens s' := by
  obtain ⟨hf, ho⟩ := h
  cases a with
  | register r =>
    simp [step?] at e; obtain ⟨hni, e⟩ := e; subst e
    constructor
    · intro r'
      have := hf r'
      simp [tok, List.count_cons] at this ⊢
      omega
    · intro r'
      have := ho r'
      simp [List.count_cons] at this ⊢
      by_cases hr : r = r'
      · subst hr; simp [hni] at this ⊢; omega
      · have hr' : ¬ r' = r := fun h => hr h.symm
        simp [hr, hr'] at this ⊢; exact this
  | send r =>
    simp [step?] at e; obtain ⟨hm, e⟩ := e; subst e
    constructor
    · intro r'
      have := hf r'
      have he := count_erase_mem r r' s.unsent hm
      simp [tok, cntR_append, cntR_single] at this ⊢
      omega
    · exact ho
  | deliverC2S =>
    simp only [step?] at e
    split at e
    · rename_i m rest hc
      simp at e; subst e
      constructor
      · intro r'
        have := hf r'
        simp [tok, hc, cntR_cons, cntR_append, cntR_single] at this ⊢
        omega
      · exact ho
    · simp at e
  | finish i =>
    simp only [step?] at e
    split at e
    · rename_i r x hx
      simp at e; subst e
      constructor
      · intro r'
        have := hf r'
        have he := cntR_eraseIdx r' s.srv i (r, x) hx
        simp [tok, cntR_append, cntR_single] at this he ⊢
        omega
      · exact ho
    · simp at e
  | deliverS2C =>
    simp only [step?] at e
    split at e
    · rename_i r y rest hc
      split at e
      · rename_i hm
        simp at e; subst e
        constructor
        · intro r'
          have := hf r'
          have he := count_erase_mem r r' s.pending hm
          simp [tok, hc, cntR_cons] at this ⊢
          omega
        · intro r'
          have := ho r'
          have he := count_erase_mem r r' s.pending hm
          simp [cntR_append, cntR_single] at this ⊢
          omega
      · rename_i hm
        -- impossible: the answer of a run without pending entry cannot be in flight
        have := hf r
        have h0 : s.pending.count r = 0 := List.count_eq_zero.mpr hm
        simp [tok, hc, cntR_cons] at this
        omega
    · simp at e
  | take r =>
    simp only [step?] at e
    split at e
    · rename_i r0 y hf'
      simp at e; subst e
      obtain ⟨hr0, hpos⟩ := cntR_pos_of_find r s.ready (r0, y) hf'
      simp at hr0
      subst hr0
      constructor
      · exact hf
      · intro r'
        have h1 := ho r'
        have h2 := cntR_filter_ne r0 r' s.ready
        simp only [ne_eq, decide_not] at h2
        simp only []
        rw [h2, cntR_append, cntR_single]
        by_cases hr : r' = r0
        · subst hr
          simp only [if_true]
          split at h1 <;> rename_i hi <;> simp only [hi, if_true, if_false] <;> omega
        · have hr' : ¬ r0 = r' := fun h => hr h.symm
          simp only [hr, hr', if_false, Nat.add_zero]
          exact h1
    · simp at e

theorem routed_reachable {s : State Inp Res} (h : Reachable input callStep s) : Routed input callStep s := by
  induction h with
  | init => exact routed_init
  | step _ e ih => exact routed_step ih e

theorem tokens_reachable {s : State Inp Res} (h : Reachable input callStep s) : Tokens s := by
  induction h with
  | init => exact tokens_init
  | step _ e ih => exact tokens_step ih e

/-- C05_routing. In every reachable state every message in flight, every running step and every
    client result entry for run `r` carries exactly `input r` resp. `spec r`; hence every returning
    `Execute r` returns `spec r` - whatever the number and overlap of the calls and the timing of
    the transport. -/
theorem C05_routing {s : State Inp Res} (h : Reachable input callStep s) :
    Routed input callStep s := routed_reachable h

/-- every `Execute` that returns, returns its own step's in-process result -/
theorem C05_execute_returns_spec {s : State Inp Res} (h : Reachable input callStep s) (r : Run) (y : Res)
    (hr : (r, y) ∈ s.returned) : y = spec input callStep r := by
  have := (routed_reachable h).returned (r, y) hr
  simpa using this

/-- no duplication: a run returns at most once, and never after or while another copy of its
    result or message exists anywhere -/
theorem C05_no_duplication {s : State Inp Res} (h : Reachable input callStep s) (r : Run) :
    cntR r s.returned + cntR r s.ready + tok s r ≤ 1 := by
  have T := tokens_reachable h
  have h1 := T.one r
  have h2 := T.flight r
  split at h1 <;> omega

/-- no cross-delivery: nothing exists for a run that was never issued -/
theorem C05_no_foreign_result {s : State Inp Res} (h : Reachable input callStep s) (r : Run)
    (hr : r ∉ s.issued) : cntR r s.returned = 0 ∧ cntR r s.ready = 0 ∧ tok s r = 0 := by
  have T := tokens_reachable h
  have h1 := T.one r
  have h2 := T.flight r
  simp [hr] at h1
  omega

/-- no loss: every issued run has returned, or its result is stored, or its message is at exactly
    one place on its way - in which case an action of the caller, the transport or the server is
    enabled (nothing waits for a message that does not exist) -/
theorem C05_no_loss {s : State Inp Res} (h : Reachable input callStep s) (r : Run) (hr : r ∈ s.issued) :
    cntR r s.returned = 1 ∨ cntR r s.ready = 1 ∨
    (tok s r = 1 ∧ ∃ a, (step? input callStep s a).isSome = true ∧ ∀ r', a ≠ .register r') := by
  have T := tokens_reachable h
  have h1 := T.one r
  have h2 := T.flight r
  simp [hr] at h1
  by_cases hp : s.pending.count r = 0
  · by_cases h3 : cntR r s.returned = 1
    · exact Or.inl h3
    · exact Or.inr (Or.inl (by omega))
  · refine Or.inr (Or.inr ⟨by omega, ?_⟩)
    have ht : tok s r = 1 := by omega
    unfold tok at ht
    -- somewhere a message of some run is in flight: the corresponding action is enabled
    cases hu : s.unsent with
    | cons u us => exact ⟨.send u, by simp [step?, hu], by intro r'; simp⟩
    | nil =>
      cases hc : s.c2s with
      | cons m rest => exact ⟨.deliverC2S, by simp [step?, hc], by intro r'; simp⟩
      | nil =>
        cases hs : s.srv with
        | cons m rest => exact ⟨.finish 0, by simp [step?, hs], by intro r'; simp⟩
        | nil =>
          cases hsc : s.s2c with
          | cons m rest =>
            refine ⟨.deliverS2C, ?_, by intro r'; simp⟩
            simp only [step?, hsc]
            split <;> simp
          | nil => simp [hu, hc, hs, hsc, cntR] at ht

-- non-vacuity: two overlapping executes whose answers arrive in the opposite order
example : ∃ s : State Nat Nat, Reachable (fun r => r + 10) (fun x => x * 2) s ∧
    s.returned = [(2, 24), (1, 22)] := by
  have run : ∀ (as : List Act) (s : State Nat Nat), Reachable (fun r => r + 10) (fun x => x * 2) s →
      ∀ s', as.foldl (fun o a => o.bind fun t => step? (fun r => r + 10) (fun x => x * 2) t a) (some s) = some s' →
      Reachable (fun r => r + 10) (fun x => x * 2) s' := by
    intro as
    induction as with
    | nil => intro s h s' e; simp at e; exact e ▸ h
    | cons a rest ih =>
      intro s h s' e
      simp only [List.foldl_cons, Option.bind_some] at e
      cases hs : step? (fun r => r + 10) (fun x => x * 2) s a with
      | none =>
        rw [hs] at e
        have : ∀ l : List Act, l.foldl (fun o a => o.bind fun t => step? (fun r => r + 10) (fun x => x * 2) t a)
            (none : Option (State Nat Nat)) = none := by
          intro l; induction l with
          | nil => rfl
          | cons _ _ ih => simpa using ih
        rw [this] at e; simp at e
      | some s1 => rw [hs] at e; exact ih s1 (Reachable.step h hs) s' e
  refine ⟨_, run [.register 1, .register 2, .send 1, .send 2, .deliverC2S, .deliverC2S, .finish 1, .finish 0,
    .deliverS2C, .deliverS2C, .take 2, .take 1] State.init Reachable.init _ rfl, ?_⟩
  decide

/-! ## C05_v1: the legacy framing -/

/-- at most one message exists at any time, and it belongs to the call in progress -/
structure V1Inv (input : Run → Inp) (callStep : Inp → Res) (s : V1State Inp Res) : Prop where
  returned : ∀ m ∈ s.returned, m.2 = spec input callStep m.1
  idle : s.cur = none → s.c2s = [] ∧ s.srv = none ∧ s.s2c = []
  unsent : s.sent = false → s.c2s = [] ∧ s.srv = none ∧ s.s2c = []
  cur : ∀ r, s.cur = some r → s.sent = true →
    (s.c2s = [input r] ∧ s.srv = none ∧ s.s2c = []) ∨
    (s.c2s = [] ∧ s.srv = some (input r) ∧ s.s2c = []) ∨
    (s.c2s = [] ∧ s.srv = none ∧ s.s2c = [spec input callStep r])

theorem v1inv_reachable {s : V1State Inp Res} (h : V1Reachable input callStep s) : V1Inv input callStep s := by
  induction h with
  | init => constructor <;> simp [V1State.init]
  | step _ e ih =>
    rename_i s s' a _
    obtain ⟨h1, h2, h3, h4⟩ := ih
    cases a with
    | call r =>
      simp only [v1step?] at e
      split at e <;> simp at e
      rename_i hc
      subst e
      have hn : s.cur = none := by simpa using hc
      exact ⟨h1, by simp, by intro _; exact h2 hn, by simp⟩
    | send =>
      simp only [v1step?] at e
      split at e <;> simp at e
      rename_i r hc hs
      subst e
      have := h3 hs
      refine ⟨h1, by simp [hc], by simp, ?_⟩
      intro r' hr' _
      simp [hc] at hr'; subst hr'
      simp [this]
    | deliverC2S =>
      simp only [v1step?] at e
      split at e <;> simp at e
      rename_i x rest hc hs
      subst e
      cases hcur : s.cur with
      | none => have := (h2 hcur).1; simp [hc] at this
      | some r =>
        cases hsent : s.sent with
        | false => have := (h3 hsent).1; simp [hc] at this
        | true =>
          have := h4 r hcur hsent
          simp [hc, hs] at this
          obtain ⟨⟨hx, hrest⟩, hs2c⟩ := this
          refine ⟨h1, by simp [hcur], by simp [hsent], ?_⟩
          intro r' hr' _
          simp [hcur] at hr'; subst hr'
          simp [hs2c, hx, hrest]
    | finish =>
      simp only [v1step?] at e
      split at e <;> simp at e
      rename_i x hs
      subst e
      cases hcur : s.cur with
      | none => have := (h2 hcur).2.1; simp [hs] at this
      | some r =>
        cases hsent : s.sent with
        | false => have := (h3 hsent).2.1; simp [hs] at this
        | true =>
          have := h4 r hcur hsent
          simp [hs] at this
          obtain ⟨hc, hx, hs2c⟩ := this
          refine ⟨h1, by simp [hcur], by simp [hsent], ?_⟩
          intro r' hr' _
          simp [hcur] at hr'; subst hr'
          simp [hc, hs2c, hx, spec]
    | recv =>
      simp only [v1step?] at e
      split at e <;> simp at e
      rename_i r y rest hc hs hq
      subst e
      have := h4 r hc hs
      simp [hq] at this
      obtain ⟨hc2, hsrv, hy, hrest⟩ := this
      refine ⟨?_, by simp [hc2, hsrv, hrest], by simp [hc2, hsrv, hrest], by simp⟩
      intro m hm
      simp at hm
      rcases hm with hm | hm
      · exact h1 m hm
      · subst hm; exact hy

/-- C05_v1. Over the legacy framing every `Execute` returns its own step's result. -/
theorem C05_v1 {s : V1State Inp Res} (h : V1Reachable input callStep s) (r : Run) (y : Res)
    (hr : (r, y) ∈ s.returned) : y = spec input callStep r := by
  have := (v1inv_reachable h).returned (r, y) hr
  simpa using this

end Arca.AtpSession

open Arca.AtpSession in
#print axioms C05_routing
open Arca.AtpSession in
#print axioms C05_execute_returns_spec
open Arca.AtpSession in
#print axioms C05_no_duplication
open Arca.AtpSession in
#print axioms C05_no_foreign_result
open Arca.AtpSession in
#print axioms C05_no_loss
open Arca.AtpSession in
#print axioms C05_v1
