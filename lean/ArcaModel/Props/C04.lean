import ArcaModel.Lemmas.NoPanicRun
import ArcaModel.Lemmas.Termination
import ArcaModel.Lemmas.TerminatesRec
import ArcaModel.Model.WFCheck
/-
  C04  Schema operations are total: bad data yields an error, never a panic or hang.

  The model `run` has explicit `panic` and `fuel` outcomes and mirrors the panicking paths of the Go
  code (unlinked reference, missing scope root, undecodable default, unchecked type assertion in
  one-of Serialize), so these are statements about reachable behaviour, not about Lean totality.
-/
namespace Arca

/-- No operation (Unserialize, Validate, Serialize, data-mode ValidateCompatibility) panics, for
    ANY Go value `v`, any externals `x`, any fuel, on every well-formed schema. -/
theorem C04_no_panic (x : Ext) (fuel : Nat) (op : Op) (env : Env) (t : Ty) (v : V)
    (henv : EnvWF env) (hwf : WF env t) : run x fuel op env t v ≠ .panic :=
  (run_np_aux x fuel op env t v henv hwf).1

/-- closed (top-level) schemas -/
theorem C04_no_panic_closed (x : Ext) (fuel : Nat) (op : Op) (t : Ty) (v : V) (hwf : WF [] t) :
    run x fuel op [] t v ≠ .panic :=
  C04_no_panic x fuel op [] t v envWF_nil hwf

/-- More fuel never changes a result that was reached: a result other than `fuel` is the
    operation's result for every larger budget (so "the" result of an operation is well defined). -/
theorem C04_fuel_mono (x : Ext) (fuel k : Nat) (op : Op) (env : Env) (t : Ty) (v : V) (o : Out V)
    (h : run x fuel op env t v = o) (hne : o ≠ .fuel) : run x (fuel + k) op env t v = o :=
  run_mono x fuel k op env t v o h hne

/- Termination itself (that SOME budget suffices) is not proved here. It is false without a
   further well-formedness clause: a single-property object whose property refers to itself
   recurses without consuming input through the inline shorthand (`A{next: ref A}` on input `5`;
   recorded as a known finding), so no unconditional bound exists. The correspondence check
   compares the model's `fuel` outcome (budget 400) with non-termination / stack exhaustion of
   the implementation on every generated case. -/

/-! non-vacuity: a nested schema with a scope, references, a one-of, defaults, and all container
    kinds is well-formed -/
def c04Example : Ty :=
  .scope
    [("Root", .obj "Root"
        [("items", .mk (.list (.ref "Item") (some 0) (some 3)) true [] [] [] none false),
         ("choice", .mk (.oneOf false "kind" false [(.s "a", .ref "Item"), (.s "b", .obj "B" [])]) false [] [] [] none false),
         ("n", .mk (.int (some 0) (some 10) none) false [] [] [] (some ⟨some (.float .f64 0), none⟩) false),
         ("m", .mk (.map (.str none none none) .any none none) false [] [] [] none false)]),
     ("Item", .obj "Item" [("name", .mk (.str (some 1) none none) true [] [] [] none false),
                           ("next", .mk (.ref "Item") false [] [] [] none false)])]
    "Root"

example : WF [] c04Example := wfB_sound 10 [] c04Example (by decide)

end Arca

#print axioms Arca.C04_no_panic
#print axioms Arca.C04_fuel_mono

/-! ## C04, second half: schema operations never hang

`run` reports a hang (or a recursion deeper than the budget) as the outcome `fuel`. Unconditional
termination is false (`C04_selfLoop_hangs` below), so it is proved under two conditions on the
schema, each with an explicit budget and an executable check (`finB`, `guardedB`):

* `C04_terminates_acyclic`: a schema whose unfolding through its references is finite
  (`FinDepth env t d`) terminates on EVERY Go value, within `2 d + depth v + 1`;
* `C04_terminates_guarded`: a schema WITH reference cycles terminates on every Go value when no
  cycle consists only of steps that hand on the same value (`Guard`, `Hered`), within
  `(depth v + 1) (2 G + 2) + D`.

Together with `C04_no_panic` and `C04_fuel_mono` each gives totality: one outcome, a value or an
error, for all sufficient budgets (`C04_total_acyclic`, `C04_total_guarded`). -/
namespace Arca

/-- an outcome that is neither a panic nor a hang is a value or an error -/
theorem Out.ok_or_err {α} {o : Out α} (hp : o ≠ .panic) (hf : o ≠ .fuel) :
    (∃ r, o = .ok r) ∨ (∃ e, o = .err e) := by
  cases o with
  | ok r => exact Or.inl ⟨r, rfl⟩
  | err e => exact Or.inr ⟨e, rfl⟩
  | panic => exact absurd rfl hp
  | fuel => exact absurd rfl hf

/-- Acyclic schemas terminate on every input: if the schema `t` unfolds - following references
    through `env`, and counting the depth of the defaults it declares - to depth `d`, then no
    operation, on ANY Go value `v`, with any externals, exhausts a budget of
    `2 * d + V.depth v + 1`. -/
theorem C04_terminates_acyclic (x : Ext) (env : Env) (t : Ty) (d : Nat) (hfin : FinDepth env t d)
    (op : Op) (v : V) (n : Nat) (hn : 2 * d + V.depth v + 1 ≤ n) : run x n op env t v ≠ .fuel :=
  fin_halts x hfin n op v hn

/-- On an acyclic schema every operation has one outcome, reached by every budget from
    `2 * d + V.depth v + 1` on. -/
theorem C04_acyclic_result (x : Ext) (env : Env) (t : Ty) (d : Nat) (hfin : FinDepth env t d)
    (op : Op) (v : V) :
    ∃ o : Out V, o ≠ .fuel ∧ ∀ n, 2 * d + V.depth v + 1 ≤ n → run x n op env t v = o := by
  refine ⟨run x (2 * d + V.depth v + 1) op env t v, fin_halts x hfin _ op v (Nat.le_refl _), fun n hn => ?_⟩
  obtain ⟨k, rfl⟩ : ∃ k, n = 2 * d + V.depth v + 1 + k := ⟨n - (2 * d + V.depth v + 1), by omega⟩
  exact run_mono x _ k op env t v _ rfl (fin_halts x hfin _ op v (Nat.le_refl _))

/-- Totality on well-formed acyclic schemas: every operation on every Go value yields a value or
    an error - never a panic, never a hang - and the same one for every sufficient budget. -/
theorem C04_total_acyclic (x : Ext) (env : Env) (t : Ty) (d : Nat) (henv : EnvWF env) (hwf : WF env t)
    (hfin : FinDepth env t d) (op : Op) (v : V) :
    ∃ o : Out V, ((∃ r, o = .ok r) ∨ (∃ e, o = .err e)) ∧
      ∀ n, 2 * d + V.depth v + 1 ≤ n → run x n op env t v = o := by
  obtain ⟨o, hne, ho⟩ := C04_acyclic_result x env t d hfin op v
  refine ⟨o, Out.ok_or_err ?_ hne, ho⟩
  rw [← ho _ (Nat.le_refl _)]
  exact C04_no_panic x _ op env t v henv hwf

/-- Recursive schemas terminate on every finite input, provided every turn of a reference cycle
    consumes a level of the value. Precisely: the steps that hand the SAME value to a sub-schema
    are references, scope roots, one-of members (which receive a map) and the single enabled
    property of an object that is given a non-map value; `Guard false env t G` says at most `G` of
    them follow each other from `t`, `Hered G D env t` (`EnvHered` for the enclosing scope) says the
    same of every sub-schema that receives a sub-value, inside all scopes, and that a property
    with a default has an acyclic type on which the default needs at most `D`. Then no operation
    on ANY Go value `v` exhausts a budget of `(V.depth v + 1) * (2 * G + 2) + D`. -/
theorem C04_terminates_guarded (x : Ext) (G D : Nat) (env : Env) (t : Ty) (henv : EnvHered G D env)
    (hh : Hered G D env t) (hg : Guard false env t G) (op : Op) (v : V) (n : Nat)
    (hn : (V.depth v + 1) * (2 * G + 2) + D ≤ n) : run x n op env t v ≠ .fuel :=
  guarded_halts x henv hh hg n op v hn

/-- Totality on well-formed guarded schemas: a value or an error, the same one for every
    sufficient budget. -/
theorem C04_total_guarded (x : Ext) (G D : Nat) (env : Env) (t : Ty) (henvwf : EnvWF env) (hwf : WF env t)
    (henv : EnvHered G D env) (hh : Hered G D env t) (hg : Guard false env t G) (op : Op) (v : V) :
    ∃ o : Out V, ((∃ r, o = .ok r) ∨ (∃ e, o = .err e)) ∧
      ∀ n, (V.depth v + 1) * (2 * G + 2) + D ≤ n → run x n op env t v = o := by
  have hnf := guarded_halts x henv hh hg _ op v (Nat.le_refl _)
  refine ⟨run x ((V.depth v + 1) * (2 * G + 2) + D) op env t v,
    Out.ok_or_err (C04_no_panic x _ op env t v henvwf hwf) hnf, fun n hn => ?_⟩
  obtain ⟨k, rfl⟩ : ∃ k, n = (V.depth v + 1) * (2 * G + 2) + D + k := ⟨n - ((V.depth v + 1) * (2 * G + 2) + D), by omega⟩
  exact run_mono x _ k op env t v _ rfl hnf

/-- The shape the guard condition excludes does hang: Unserialize of ANY non-map Go value with
    `scope{A{next: ref A}}` exhausts EVERY budget (the single-property shorthand wraps the value
    into `A`, whose property is `A` again). -/
theorem C04_selfLoop_hangs (x : Ext) (v : V) (hv : v.mapEntries? = none) (n : Nat) :
    run x n .U [] selfLoop v = .fuel :=
  selfLoop_fuel x hv n

/-- ... and no bound `G` makes it guarded, no depth `d` makes it acyclic: the hypotheses of the two
    termination theorems do exclude it. -/
theorem C04_selfLoop_excluded (k : Nat) : ¬ Guard false [] selfLoop k ∧ ¬ FinDepth [] selfLoop k :=
  ⟨selfLoop_not_guarded_closed k, selfLoop_not_fin k⟩

/-! non-vacuity -/

/-- an acyclic schema: a scope with two objects, one referring to the other (through a list and
    through a one-of), defaults (a scalar and a list), a map of `any` -/
def c04Acyclic : Ty :=
  .scope
    [("Root", .obj "Root"
        [("items", .mk (.list (.ref "Item") (some 0) (some 3)) true [] [] [] none false),
         ("choice", .mk (.oneOf false "kind" false [(.s "a", .ref "Item"), (.s "b", .obj "B" [])]) false [] [] [] none false),
         ("n", .mk (.int (some 0) (some 10) none) false [] [] [] (some ⟨some (.float .f64 0), none⟩) false),
         ("tags", .mk (.list (.str none none none) none none) false [] [] []
            (some ⟨some (.list [.str "x", .str "y"]), none⟩) false),
         ("m", .mk (.map (.str none none none) .any none none) false [] [] [] none false)]),
     ("Item", .obj "Item" [("name", .mk (.str (some 1) none none) true [] [] [] none false)])]
    "Root"

example : FinDepth [] c04Acyclic 6 := finB_sound 10 [] c04Acyclic 6 (by decide)
example : WF [] c04Acyclic := wfB_sound 10 [] c04Acyclic (by decide)

/-- hence: 13 + depth of the value is enough, for every operation and every value -/
example (x : Ext) (op : Op) (v : V) (n : Nat) (hn : 13 + V.depth v ≤ n) : run x n op [] c04Acyclic v ≠ .fuel :=
  C04_terminates_acyclic x [] c04Acyclic 6 (finB_sound 10 [] c04Acyclic 6 (by decide)) op v n (by omega)

/-- `c04Example` above is recursive (`Item.next : ref Item`), hence not acyclic, but guarded:
    `Item` has two properties -/
example : finB 10 [] c04Example = none := by decide
example : Hered 2 1 [] c04Example ∧ Guard false [] c04Example 2 := guardedB_sound (k := 10) (by decide)

example (x : Ext) (op : Op) (v : V) (n : Nat) (hn : (V.depth v + 1) * 6 + 1 ≤ n) : run x n op [] c04Example v ≠ .fuel :=
  have h : Hered 2 1 [] c04Example ∧ Guard false [] c04Example 2 := guardedB_sound (k := 10) (by decide)
  C04_terminates_guarded x 2 1 [] c04Example (envHered_nil 2 1) h.1 h.2 op v n (by omega)

/-- recursion through single-property objects is fine as long as a list or a one-of is on the
    cycle: a tree (`Tree{children: list(ref Tree)}`), an expression (`Expr{e: oneOf{neg: Expr, lit: Lit}}`) -/
def c04Recursive : Ty :=
  .scope
    [("Tree", .obj "Tree" [("children", .mk (.list (.ref "Tree") none none) false [] [] [] none false)]),
     ("Wrap", .obj "Wrap" [("tree", .mk (.ref "Tree") true [] [] [] none false)]),
     ("Expr", .obj "Expr" [("e", .mk (.oneOf false "op" false [(.s "neg", .ref "Expr"), (.s "lit", .ref "Lit")]) true [] [] [] none false)]),
     ("Lit", .obj "Lit" [("n", .mk (.int none none none) true [] [] [] (some ⟨some (.int .int64 0), none⟩) false)]),
     ("Top", .obj "Top" [("w", .mk (.ref "Wrap") false [] [] [] none false), ("x", .mk (.ref "Expr") false [] [] [] none false)])]
    "Top"

example : WF [] c04Recursive := wfB_sound 10 [] c04Recursive (by decide)
example : finB 20 [] c04Recursive = none := by decide
example : Hered 4 1 [] c04Recursive ∧ Guard false [] c04Recursive 4 := guardedB_sound (k := 12) (by decide)

/-- the known non-terminating shape: the checks reject it, and it does run out of fuel -/
example : guardedB 100 100 50 selfLoop = false := by decide
example : finB 50 [] selfLoop = none := by decide
example : WF [] selfLoop := wfB_sound 10 [] selfLoop (by decide)
example (x : Ext) : run x 50 .U [] selfLoop (.int .int64 5) = .fuel := C04_selfLoop_hangs x _ rfl 50

/-- the same by evaluation, with externals that are never consulted -/
def c04NoExt : Ext := ⟨fun _ => none, fun _ => "", fun _ => false, fun _ _ => false⟩
example : (match run c04NoExt 50 .U [] selfLoop (.int .int64 5) with | .fuel => true | _ => false) = true := by decide

end Arca

#print axioms Arca.C04_terminates_acyclic
#print axioms Arca.C04_total_acyclic
#print axioms Arca.C04_terminates_guarded
#print axioms Arca.C04_total_guarded
#print axioms Arca.C04_selfLoop_hangs
#print axioms Arca.C04_selfLoop_excluded
