import ArcaModel.Lemmas.NoPanicRun
import ArcaModel.Lemmas.Termination
import ArcaModel.Model.WFCheck
/-
  C04  Schema operations are total: bad data yields an error, never a panic or hang.

  The model `run` has explicit `panic` and `fuel` outcomes and mirrors the panicking paths of the Go
  code (unlinked reference, missing scope root, undecodable default, unchecked type assertion in
  one-of Serialize), so these are statements about reachable behaviour, not about Lean totality.
-/
namespace Arca

/-- No operation (Unserialize, Validate, Serialize, data-mode ValidateCompatibility) panics, for
    ANY Go value `v`, any externals `x`, any fuel, on every well-formed schema. -/
theorem C04_no_panic (x : Ext) (fuel : Nat) (op : Op) (env : Env) (t : Ty) (v : V)
    (henv : EnvWF env) (hwf : WF env t) : run x fuel op env t v ≠ .panic :=
  (run_np_aux x fuel op env t v henv hwf).1

/-- closed (top-level) schemas -/
theorem C04_no_panic_closed (x : Ext) (fuel : Nat) (op : Op) (t : Ty) (v : V) (hwf : WF [] t) :
    run x fuel op [] t v ≠ .panic :=
  C04_no_panic x fuel op [] t v envWF_nil hwf

/-- More fuel never changes a result that was reached: a result other than `fuel` is the
    operation's result for every larger budget (so "the" result of an operation is well defined). -/
theorem C04_fuel_mono (x : Ext) (fuel k : Nat) (op : Op) (env : Env) (t : Ty) (v : V) (o : Out V)
    (h : run x fuel op env t v = o) (hne : o ≠ .fuel) : run x (fuel + k) op env t v = o :=
  run_mono x fuel k op env t v o h hne

/- Termination itself (that SOME budget suffices) is not proved here. It is false without a
   further well-formedness clause: a single-property object whose property refers to itself
   recurses without consuming input through the inline shorthand (`A{next: ref A}` on input `5`;
   recorded as a known finding), so no unconditional bound exists. The correspondence check
   compares the model's `fuel` outcome (budget 400) with non-termination / stack exhaustion of
   the implementation on every generated case. -/

/-! non-vacuity: a nested schema with a scope, references, a one-of, defaults, and all container
    kinds is well-formed -/
def c04Example : Ty :=
  .scope
    [("Root", .obj "Root"
        [("items", .mk (.list (.ref "Item") (some 0) (some 3)) true [] [] [] none false),
         ("choice", .mk (.oneOf false "kind" false [(.s "a", .ref "Item"), (.s "b", .obj "B" [])]) false [] [] [] none false),
         ("n", .mk (.int (some 0) (some 10) none) false [] [] [] (some ⟨some (.float .f64 0), none⟩) false),
         ("m", .mk (.map (.str none none none) .any none none) false [] [] [] none false)]),
     ("Item", .obj "Item" [("name", .mk (.str (some 1) none none) true [] [] [] none false),
                           ("next", .mk (.ref "Item") false [] [] [] none false)])]
    "Root"

example : WF [] c04Example := wfB_sound 10 [] c04Example (by decide)

end Arca

#print axioms Arca.C04_no_panic
#print axioms Arca.C04_fuel_mono
