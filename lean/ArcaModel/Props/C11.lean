import ArcaModel.Lemmas.Step
import ArcaModel.Props.C01
/-
  C11  Step calls: the handler runs iff the input is valid; outputs are checked; bad IDs are errors.

  All statements are about `callStep` / `callSignal` (ArcaModel/Model/Step.lean), the path-by-path
  model of `CallableSchema.CallStep` / `CallSignal` with `CallableStepSchema.Call` / `CallSignal`
  and `CallableSignalSchema.Call` as repaired, and about the transition system `apply` / `exec` of
  the per-run step data. They hold for ALL plugins, step and signal IDs, raw inputs, handler
  behaviours, externals and fuel budgets; nothing is assumed about the schemas except where `WF`
  is stated.

  What the code does and the theorems therefore say:
  * "accepted by the input schema" is `Accepts`: `Unserialize` succeeds with `v` AND `v` passes the
    `Validate` that `Call` repeats on it. That the second follows from the first is the round-trip
    property C01 of the schema operations, not proved here; `C11_handler_iff_unser_partial` states
    the property in the wording of C11 under that hypothesis.
  * a step handler `func(ctx, data, input) (string, any)` has no error result: it returns or
    panics; a panic of the handler propagates out of `CallStep` (the ATP server recovers it).
  * error kinds and Go types: unknown step -> `BadArgumentError`; rejected input ->
    `InvalidInputError`; undeclared output ID -> `InvalidOutputError`; declared ID whose data fails
    `Validate` -> that schema's own error, unwrapped; data that passes `Validate` but not
    `Serialize` -> `InvalidOutputError` (no generated case reaches this last path).
-/
namespace Arca.Step
open Arca

section calls
variable (x : Ext) (fuel : Nat) (p : Plugin) (beh : String → HandlerBeh) (stepID : String) (raw : V)

/-! ### the handler runs exactly once iff the step exists and the input is accepted -/

/-- The handler invocations of a `CallStep` are exactly `[v]` iff the step exists and the raw input
    is accepted with unserialized value `v`. -/
theorem C11_handler_iff (v : V) :
    (callStep x fuel p beh stepID raw).2 = [v] ↔
      ∃ st, lookupS stepID p = some st ∧ Accepts x fuel st.input raw v := by
  constructor
  · intro h
    have hp := callStep_path x fuel p beh stepID raw
    generalize callStep x fuel p beh stepID raw = r at h hp
    cases hp <;> simp at h <;> subst h <;> exact ⟨_, ‹_›, ‹_›⟩
  · rintro ⟨st, hl, ha⟩
    have hp := callStep_path x fuel p beh stepID raw
    generalize callStep x fuel p beh stepID raw = r at hp
    obtain ⟨hu, u, hv⟩ := ha
    cases hp <;> simp_all [Accepts]

/-- ... and otherwise the handler is not invoked at all: never twice, never with another value. -/
theorem C11_handler_else :
    (callStep x fuel p beh stepID raw).2 = [] ↔
      ¬ ∃ st v, lookupS stepID p = some st ∧ Accepts x fuel st.input raw v := by
  constructor
  · rintro h ⟨st, v, hl, ha⟩
    rw [(C11_handler_iff x fuel p beh stepID raw v).mpr ⟨st, hl, ha⟩] at h
    cases h
  · intro hn
    have hp := callStep_path x fuel p beh stepID raw
    generalize callStep x fuel p beh stepID raw = r at hp
    cases hp <;> first | rfl | exact absurd ⟨_, _, ‹_›, ‹_›⟩ hn

theorem C11_handler_at_most_once :
    (callStep x fuel p beh stepID raw).2 = [] ∨ ∃ v, (callStep x fuel p beh stepID raw).2 = [v] := by
  have hp := callStep_path x fuel p beh stepID raw
  generalize callStep x fuel p beh stepID raw = r at hp
  cases hp <;> simp

/-- C11 in its own wording ("the raw input is accepted by the step's input schema" = Unserialize
    succeeds). PARTIAL: assumes for this input schema that a value produced by `Unserialize` passes
    `Validate` (C01, round trip of the schema operations); without it the code - and the model -
    does not call the handler when the repeated `Validate` in `Call` rejects the value. -/
theorem C11_handler_iff_unser_partial (v : V)
    (hC01 : ∀ st, lookupS stepID p = some st → ∀ v, run x fuel .U [] st.input raw = .ok v →
      ∃ u, run x fuel .V [] st.input v = .ok u) :
    (callStep x fuel p beh stepID raw).2 = [v] ↔
      ∃ st, lookupS stepID p = some st ∧ run x fuel .U [] st.input raw = .ok v := by
  rw [C11_handler_iff]
  constructor
  · rintro ⟨st, hl, hu, _⟩
    exact ⟨st, hl, hu⟩
  · rintro ⟨st, hl, hu⟩
    exact ⟨st, hl, hu, hC01 st hl v hu⟩

/-- C11 in its own wording, with the round-trip hypothesis discharged by C01: for every plugin whose
    step input schemas are what the Go constructors accept (`WF1`, decidable by `wf1B`), the handler
    runs exactly once, on `v`, iff the step exists and `Unserialize` of the raw input yields `v`. -/
theorem C11_handler_iff_unser (v : V)
    (hwf : ∀ st, lookupS stepID p = some st → WF1 [] st.input) :
    (callStep x fuel p beh stepID raw).2 = [v] ↔
      ∃ st, lookupS stepID p = some st ∧ run x fuel .U [] st.input raw = .ok v :=
  C11_handler_iff_unser_partial x fuel p beh stepID raw v (fun st hl v' hu =>
    ⟨unitV, (C01_roundtrip_closed_partial x fuel st.input raw v' (hwf st hl) hu).1⟩)

/-! ### the result -/

/-- Success with output `(oid, w)` iff: the step exists, the input is accepted, the handler returned
    `oid` with data `d`, `oid` is declared, `d` passes `Validate` of the declared schema and `w` is
    its serialization. -/
theorem C11_result (oid : String) (w : V) :
    (callStep x fuel p beh stepID raw).1 = .ok oid w ↔
      ∃ st v d ot, lookupS stepID p = some st ∧ Accepts x fuel st.input raw v ∧
        beh stepID v = some (oid, d) ∧ lookupS oid st.outputs = some ot ∧
        (∃ u, run x fuel .V [] ot d = .ok u) ∧ run x fuel .S [] ot d = .ok w := by
  constructor
  · intro h
    have hp := callStep_path x fuel p beh stepID raw
    generalize callStep x fuel p beh stepID raw = r at h hp
    cases hp <;> simp at h
    rename_i st v oid' d ot u w' hl ha hb ho hV hS
    obtain ⟨rfl, rfl⟩ := h
    exact ⟨st, v, d, ot, hl, ha, hb, ho, ⟨u, hV⟩, hS⟩
  · rintro ⟨st, v, d, ot, hl, ha, hb, ho, ⟨u, hV⟩, hS⟩
    rw [callStep_eq_iff.mpr (.serOk hl ha hb ho hV hS)]

/-- unknown step ↔ no such ID -/
theorem C11_result_unknownStep :
    (callStep x fuel p beh stepID raw).1 = .err .unknownStep ↔ lookupS stepID p = none := by
  constructor
  · intro h
    have hp := callStep_path x fuel p beh stepID raw
    generalize callStep x fuel p beh stepID raw = r at h hp
    cases hp <;> simp at h
    assumption
  · intro hl
    rw [callStep_eq_iff.mpr (.unknownStep hl)]

/-- invalid input ↔ the step exists and its input schema rejects the raw input (in `Unserialize`, or
    in the `Validate` of the unserialized value) -/
theorem C11_result_invalidInput :
    (callStep x fuel p beh stepID raw).1 = .err .invalidInput ↔
      ∃ st, lookupS stepID p = some st ∧
        ((∃ e, run x fuel .U [] st.input raw = .err e) ∨
         (∃ v e, run x fuel .U [] st.input raw = .ok v ∧ run x fuel .V [] st.input v = .err e)) := by
  constructor
  · intro h
    have hp := callStep_path x fuel p beh stepID raw
    generalize callStep x fuel p beh stepID raw = r at h hp
    cases hp <;> simp at h
    · rename_i st e hl hu
      exact ⟨st, hl, Or.inl ⟨e, hu⟩⟩
    · rename_i st v e hl hu hv
      exact ⟨st, hl, Or.inr ⟨v, e, hu, hv⟩⟩
  · rintro ⟨st, hl, ⟨e, hu⟩ | ⟨v, e, hu, hv⟩⟩
    · rw [callStep_eq_iff.mpr (.unserErr hl hu)]
    · rw [callStep_eq_iff.mpr (.validErr hl hu hv)]

/-- undeclared output ↔ the handler ran and returned an ID the step does not declare -/
theorem C11_result_undeclaredOutput :
    (callStep x fuel p beh stepID raw).1 = .err .undeclaredOutput ↔
      ∃ st v oid d, lookupS stepID p = some st ∧ Accepts x fuel st.input raw v ∧
        beh stepID v = some (oid, d) ∧ lookupS oid st.outputs = none := by
  constructor
  · intro h
    have hp := callStep_path x fuel p beh stepID raw
    generalize callStep x fuel p beh stepID raw = r at h hp
    cases hp <;> simp at h
    rename_i st v oid d hl ha hb ho
    exact ⟨st, v, oid, d, hl, ha, hb, ho⟩
  · rintro ⟨st, v, oid, d, hl, ha, hb, ho⟩
    rw [callStep_eq_iff.mpr (.undeclared hl ha hb ho)]

/-- invalid output ↔ the handler returned a declared ID whose data fails `Validate` -/
theorem C11_result_invalidOutput :
    (callStep x fuel p beh stepID raw).1 = .err .invalidOutput ↔
      ∃ st v oid d ot e, lookupS stepID p = some st ∧ Accepts x fuel st.input raw v ∧
        beh stepID v = some (oid, d) ∧ lookupS oid st.outputs = some ot ∧
        run x fuel .V [] ot d = .err e := by
  constructor
  · intro h
    have hp := callStep_path x fuel p beh stepID raw
    generalize callStep x fuel p beh stepID raw = r at h hp
    cases hp <;> simp at h
    rename_i st v oid d ot e hl ha hb ho hV
    exact ⟨st, v, oid, d, ot, e, hl, ha, hb, ho, hV⟩
  · rintro ⟨st, v, oid, d, ot, e, hl, ha, hb, ho, hV⟩
    rw [callStep_eq_iff.mpr (.outErr hl ha hb ho hV)]

/-- unserializable output ↔ declared ID, data passes `Validate`, `Serialize` fails -/
theorem C11_result_unserializableOutput :
    (callStep x fuel p beh stepID raw).1 = .err .unserializableOutput ↔
      ∃ st v oid d ot e, lookupS stepID p = some st ∧ Accepts x fuel st.input raw v ∧
        beh stepID v = some (oid, d) ∧ lookupS oid st.outputs = some ot ∧
        (∃ u, run x fuel .V [] ot d = .ok u) ∧ run x fuel .S [] ot d = .err e := by
  constructor
  · intro h
    have hp := callStep_path x fuel p beh stepID raw
    generalize callStep x fuel p beh stepID raw = r at h hp
    cases hp <;> simp at h
    rename_i st v oid d ot u e hl ha hb ho hV hS
    exact ⟨st, v, oid, d, ot, e, hl, ha, hb, ho, ⟨u, hV⟩, hS⟩
  · rintro ⟨st, v, oid, d, ot, e, hl, ha, hb, ho, ⟨u, hV⟩, hS⟩
    rw [callStep_eq_iff.mpr (.serErr hl ha hb ho hV hS)]

/-- `CallStep` returns no other kind of error. -/
theorem C11_result_kinds (k : ErrKind) (h : (callStep x fuel p beh stepID raw).1 = .err k) :
    k = .unknownStep ∨ k = .invalidInput ∨ k = .undeclaredOutput ∨ k = .invalidOutput ∨
      k = .unserializableOutput := by
  have hp := callStep_path x fuel p beh stepID raw
  generalize callStep x fuel p beh stepID raw = r at h hp
  cases hp <;> simp at h <;> simp [← h]

/-! ### signals -/

variable (sbeh : String → String → SignalBeh) (sigID : String)

/-- The signal handler runs exactly once, with the unserialized data, iff step and signal exist and
    the raw data is accepted by the signal's data schema. -/
theorem C11_signal_handler_iff (v : V) :
    (callSignal x fuel p sbeh stepID sigID raw).2 = [v] ↔
      ∃ st dt, lookupS stepID p = some st ∧ lookupS sigID st.signals = some dt ∧
        SigAccepts x fuel dt raw v := by
  constructor
  · intro h
    have hp := callSignal_path x fuel p sbeh stepID sigID raw
    generalize callSignal x fuel p sbeh stepID sigID raw = r at h hp
    cases hp <;> simp at h <;> subst h <;> exact ⟨_, _, ‹_›, ‹_›, ‹_›⟩
  · rintro ⟨st, dt, hl, hs, hu, u, hv⟩
    have hp := callSignal_path x fuel p sbeh stepID sigID raw
    generalize callSignal x fuel p sbeh stepID sigID raw = r at hp
    cases hp <;> simp_all [SigAccepts]

theorem C11_signal_handler_at_most_once :
    (callSignal x fuel p sbeh stepID sigID raw).2 = [] ∨
      ∃ v, (callSignal x fuel p sbeh stepID sigID raw).2 = [v] := by
  have hp := callSignal_path x fuel p sbeh stepID sigID raw
  generalize callSignal x fuel p sbeh stepID sigID raw = r at hp
  cases hp <;> simp

theorem C11_signal_result_ok :
    (callSignal x fuel p sbeh stepID sigID raw).1 = .ok ↔
      ∃ st dt v, lookupS stepID p = some st ∧ lookupS sigID st.signals = some dt ∧
        SigAccepts x fuel dt raw v ∧ sbeh stepID sigID v = true := by
  constructor
  · intro h
    have hp := callSignal_path x fuel p sbeh stepID sigID raw
    generalize callSignal x fuel p sbeh stepID sigID raw = r at h hp
    cases hp <;> simp at h
    exact ⟨_, _, _, ‹_›, ‹_›, ‹_›, ‹_›⟩
  · rintro ⟨st, dt, v, hl, hs, ha, hb⟩
    rw [callSignal_eq_iff.mpr (.ok hl hs ha hb)]

theorem C11_signal_result_unknownStep :
    (callSignal x fuel p sbeh stepID sigID raw).1 = .err .unknownStep ↔ lookupS stepID p = none := by
  constructor
  · intro h
    have hp := callSignal_path x fuel p sbeh stepID sigID raw
    generalize callSignal x fuel p sbeh stepID sigID raw = r at h hp
    cases hp <;> simp at h
    assumption
  · intro hl
    rw [callSignal_eq_iff.mpr (.unknownStep hl)]

theorem C11_signal_result_unknownSignal :
    (callSignal x fuel p sbeh stepID sigID raw).1 = .err .unknownSignal ↔
      ∃ st, lookupS stepID p = some st ∧ lookupS sigID st.signals = none := by
  constructor
  · intro h
    have hp := callSignal_path x fuel p sbeh stepID sigID raw
    generalize callSignal x fuel p sbeh stepID sigID raw = r at h hp
    cases hp <;> simp at h
    exact ⟨_, ‹_›, ‹_›⟩
  · rintro ⟨st, hl, hs⟩
    rw [callSignal_eq_iff.mpr (.unknownSignal hl hs)]

theorem C11_signal_result_invalidInput :
    (callSignal x fuel p sbeh stepID sigID raw).1 = .err .invalidInput ↔
      ∃ st dt, lookupS stepID p = some st ∧ lookupS sigID st.signals = some dt ∧
        ((∃ e, run x fuel .U [] dt raw = .err e) ∨
         (∃ v e, run x fuel .U [] dt raw = .ok v ∧ run x fuel .V [] dt v = .err e)) := by
  constructor
  · intro h
    have hp := callSignal_path x fuel p sbeh stepID sigID raw
    generalize callSignal x fuel p sbeh stepID sigID raw = r at h hp
    cases hp <;> simp at h
    · exact ⟨_, _, ‹_›, ‹_›, Or.inl ⟨_, ‹_›⟩⟩
    · exact ⟨_, _, ‹_›, ‹_›, Or.inr ⟨_, _, ‹_›, ‹_›⟩⟩
  · rintro ⟨st, dt, hl, hs, ⟨e, hu⟩ | ⟨v, e, hu, hv⟩⟩
    · rw [callSignal_eq_iff.mpr (.unserErr hl hs hu)]
    · rw [callSignal_eq_iff.mpr (.validErr hl hs hu hv)]

/-! ### unknown IDs are errors; nothing but a handler panics -/

/-- Unknown step and signal IDs yield the errors, with no handler invoked - for every plugin, with
    no well-formedness assumption. -/
theorem C11_unknown_ids :
    (lookupS stepID p = none →
      callStep x fuel p beh stepID raw = (.err .unknownStep, []) ∧
      callSignal x fuel p sbeh stepID sigID raw = (.err .unknownStep, [])) ∧
    (∀ st, lookupS stepID p = some st → lookupS sigID st.signals = none →
      callSignal x fuel p sbeh stepID sigID raw = (.err .unknownSignal, [])) :=
  ⟨fun hl => ⟨callStep_eq_iff.mpr (.unknownStep hl), callSignal_eq_iff.mpr (.unknownStep hl)⟩,
   fun _ hl hs => callSignal_eq_iff.mpr (.unknownSignal hl hs)⟩

/-- every schema of the plugin is well-formed (what the SDK's constructors enforce) -/
def PluginWF (p : Plugin) : Prop :=
  ∀ id st, (id, st) ∈ p →
    WF [] st.input ∧ (∀ o, o ∈ st.outputs → WF [] o.2) ∧ (∀ s, s ∈ st.signals → WF [] s.2)

/-- On a well-formed plugin `CallStep` panics only if the step's handler was invoked and panicked
    itself: no step ID, input, output ID or output data makes the SDK's own code panic. -/
theorem C11_no_panic (hwf : PluginWF p) (h : (callStep x fuel p beh stepID raw).1 = .panic) :
    ∃ v, (callStep x fuel p beh stepID raw).2 = [v] ∧ beh stepID v = none := by
  have hp := callStep_path x fuel p beh stepID raw
  generalize callStep x fuel p beh stepID raw = r at h hp
  cases hp <;> simp at h
  · rename_i st hl hu
    exact absurd hu (C04_no_panic_closed x fuel .U _ raw (hwf _ _ (lookupS_mem hl)).1)
  · rename_i st v hl hu hv
    exact absurd hv (C04_no_panic_closed x fuel .V _ v (hwf _ _ (lookupS_mem hl)).1)
  · rename_i st v hl ha hb
    exact ⟨v, rfl, hb⟩
  · rename_i st v oid d ot hl ha hb ho hV
    exact absurd hV (C04_no_panic_closed x fuel .V _ d ((hwf _ _ (lookupS_mem hl)).2.1 _ (lookupS_mem ho)))
  · rename_i st v oid d ot u hl ha hb ho hV hS
    exact absurd hS (C04_no_panic_closed x fuel .S _ d ((hwf _ _ (lookupS_mem hl)).2.1 _ (lookupS_mem ho)))

/-- in particular: no panic at all when the handler does not panic -/
theorem C11_no_panic_total (hwf : PluginWF p) (hb : ∀ v, beh stepID v ≠ none) :
    (callStep x fuel p beh stepID raw).1 ≠ .panic := by
  intro h
  obtain ⟨v, _, hv⟩ := C11_no_panic x fuel p beh stepID raw hwf h
  exact hb v hv

/-- the same for signals -/
theorem C11_signal_no_panic (hwf : PluginWF p)
    (h : (callSignal x fuel p sbeh stepID sigID raw).1 = .panic) :
    ∃ v, (callSignal x fuel p sbeh stepID sigID raw).2 = [v] ∧ sbeh stepID sigID v = false := by
  have hp := callSignal_path x fuel p sbeh stepID sigID raw
  generalize callSignal x fuel p sbeh stepID sigID raw = r at h hp
  cases hp <;> simp at h
  · rename_i st dt hl hs hu
    exact absurd hu (C04_no_panic_closed x fuel .U _ raw ((hwf _ _ (lookupS_mem hl)).2.2 _ (lookupS_mem hs)))
  · rename_i st dt v hl hs hu hv
    exact absurd hv (C04_no_panic_closed x fuel .V _ v ((hwf _ _ (lookupS_mem hl)).2.2 _ (lookupS_mem hs)))
  · rename_i st dt v hl hs ha hb
    exact ⟨v, rfl, hb⟩

end calls

/-! ### the per-run step data

`exec hasInit acts` is the state after ANY finite history `acts` of the three actions - a step call
or a signal call of any run ID passing through `setupStepData` (one atomic action, as the whole
function body holds `initializerMutex`), and any pending call invoking its handler - so the
statement covers every arrival order and interleaving, for the same and for different run IDs. -/

/-- Over all interleavings:
    (1) the initialiser ran at most once per run ID;
    (2) a handler (of the step or of a signal) invoked for run `r` got the object made by the
        initialiser call for `r` - no other run's;
    (3) all handlers of one run got the same data;
    (4) with an initialiser no handler ever got the zero value. -/
theorem C11_stepdata_once (hasInit : Bool) (acts : List Act) :
    (∀ r, ((exec hasInit acts).inits.filter (fun i => i.1 == r)).length ≤ 1) ∧
    (∀ c, c ∈ (exec hasInit acts).seen → ∀ n, c.data = some n →
      (c.run, n) ∈ (exec hasInit acts).inits ∧
      ∀ r', (r', n) ∈ (exec hasInit acts).inits → r' = c.run) ∧
    (∀ c c', c ∈ (exec hasInit acts).seen → c' ∈ (exec hasInit acts).seen →
      c.run = c'.run → c.data = c'.data) ∧
    (hasInit = true → ∀ c, c ∈ (exec hasInit acts).seen → c.data ≠ none) := by
  have inv := inv_exec hasInit acts
  generalize exec hasInit acts = σ at inv
  refine ⟨fun r => filter_fst_le_one r _ inv.runs_nodup, ?_, ?_, ?_⟩
  · intro c hc n hn
    have hown := inv.calls_own c (Or.inr hc)
    rw [hn] at hown
    refine ⟨inv.init_of_store _ _ hown, fun r' hr' => ?_⟩
    -- two initialiser calls with the same ordinal are the same call
    have h1 := inv.init_of_store _ _ hown
    have hnd := inv.ords_nodup
    have : ∀ (l : List (String × Nat)), (l.map Prod.snd).Nodup → (r', n) ∈ l → (c.run, n) ∈ l → r' = c.run := by
      intro l
      induction l with
      | nil => intro _ h; cases h
      | cons hd tl ih =>
        intro hnd h1 h2
        simp only [List.map_cons, List.nodup_cons] at hnd
        simp only [List.mem_cons] at h1 h2
        rcases h1 with rfl | h1 <;> rcases h2 with h2 | h2
        · exact (Prod.mk.inj h2).1.symm
        · exact absurd (List.mem_map_of_mem (f := Prod.snd) h2) hnd.1
        · subst h2; exact absurd (List.mem_map_of_mem (f := Prod.snd) h1) hnd.1
        · exact ih hnd.2 h1 h2
    exact this _ hnd hr' h1
  · intro c c' hc hc' hr
    have h1 := inv.calls_own c (Or.inr hc)
    have h2 := inv.calls_own c' (Or.inr hc')
    rw [hr, h2] at h1
    exact (Option.some.inj h1).symm
  · intro hi c hc
    exact inv.nonzero hi _ _ (inv.calls_own c (Or.inr hc))

/-- Whichever of the step call or a signal call of run `r` arrives first creates the entry; an
    arrival that finds the entry changes neither the store nor the initialiser count. -/
theorem C11_stepdata_first_arrival (hasInit : Bool) (σ : St) (r : String) (a : Act)
    (ha : a = .stepArrives r ∨ ∃ s, a = .signalArrives r s) :
    lookupS r (apply hasInit σ a).store ≠ none ∧
    (∀ d, lookupS r σ.store = some d →
      (apply hasInit σ a).store = σ.store ∧ (apply hasInit σ a).inits = σ.inits ∧
      (apply hasInit σ a).next = σ.next) := by
  have key : lookupS r (setup hasInit σ r).1.store ≠ none ∧
      (∀ d, lookupS r σ.store = some d → (setup hasInit σ r).1 = σ) := by
    refine ⟨by rw [setup_lookup]; simp, fun d hd => ?_⟩
    simp [setup, hd]
  rcases ha with rfl | ⟨s, rfl⟩
  · exact ⟨key.1, fun d hd => by simp [apply, key.2 d hd]⟩
  · exact ⟨key.1, fun d hd => by simp [apply, key.2 d hd]⟩

/-! ### non-vacuity -/

section examples

def noExt : Ext := ⟨fun _ => none, fun _ => "", fun _ => false, fun _ _ => false⟩

def nameScope (id : String) (min : Int) : Ty :=
  .scope [(id, .obj id [("name", .mk (.str (some min) none none) true [] [] [] none false),
                        ("n", .mk (.int none none none) false [] [] [] none false)])] id

/-- one step "hello": input `{name: string (min 1), n?: int}`, outputs `success` / `error`,
    one signal handler -/
def helloPlugin : Plugin :=
  [("hello", ⟨nameScope "in" 1, [("success", nameScope "out" 2), ("error", nameScope "err" 1)],
              [("cancel", nameScope "sig" 1)]⟩)]

def rawName (s : String) : V := .map .strAny [(.str "name", .str s)]

def greet : String → HandlerBeh := fun _ _ => some ("success", rawName "hi")
def undeclaredBeh : String → HandlerBeh := fun _ _ => some ("nope", rawName "hi")
def shortBeh : String → HandlerBeh := fun _ _ => some ("success", rawName "x")

example : PluginWF helloPlugin := by
  intro id st h
  simp only [helloPlugin, List.mem_singleton, Prod.mk.injEq] at h
  obtain ⟨rfl, rfl⟩ := h
  refine ⟨wfB_sound 10 [] _ (by decide), ?_, ?_⟩
  · intro o ho
    simp only [List.mem_cons, List.not_mem_nil, or_false] at ho
    rcases ho with rfl | rfl <;> exact wfB_sound 10 [] _ (by decide)
  · intro s hs
    simp only [List.mem_singleton] at hs
    subst hs
    exact wfB_sound 10 [] _ (by decide)

-- the hypothesis of `C11_handler_iff_unser` holds for the example plugin
example : ∀ st, lookupS "hello" helloPlugin = some st → WF1 [] st.input := by
  intro st h
  simp only [helloPlugin, lookupS] at h
  simp at h
  subst h
  exact wf1B_sound 10 [] _ (by decide)

-- every path is inhabited: success, each error kind, handler panic
example : callStep noExt 20 helloPlugin greet "hello" (rawName "Arca") =
    (.ok "success" (rawName "hi"), [rawName "Arca"]) := by rfl
example : callStep noExt 20 helloPlugin greet "bye" (rawName "Arca") = (.err .unknownStep, []) := by
  rfl
example : callStep noExt 20 helloPlugin greet "hello" (rawName "") = (.err .invalidInput, []) := by
  rfl
example : callStep noExt 20 helloPlugin greet "hello" .nil = (.err .invalidInput, []) := by
  rfl
example : callStep noExt 20 helloPlugin undeclaredBeh "hello" (rawName "Arca") =
    (.err .undeclaredOutput, [rawName "Arca"]) := by rfl
example : callStep noExt 20 helloPlugin shortBeh "hello" (rawName "Arca") =
    (.err .invalidOutput, [rawName "Arca"]) := by rfl
example : callStep noExt 20 helloPlugin (fun _ _ => none) "hello" (rawName "Arca") =
    (.panic, [rawName "Arca"]) := by rfl
example : callSignal noExt 20 helloPlugin (fun _ _ _ => true) "hello" "cancel" (rawName "now") =
    (.ok, [rawName "now"]) := by rfl
example : callSignal noExt 20 helloPlugin (fun _ _ _ => true) "hello" "stop" (rawName "now") =
    (.err .unknownSignal, []) := by rfl
example : callSignal noExt 20 helloPlugin (fun _ _ _ => true) "bye" "cancel" (rawName "now") =
    (.err .unknownStep, []) := by rfl

-- the hypothesis of `C11_handler_iff`'s right-hand side is satisfiable
example : Accepts noExt 20 (nameScope "in" 1) (rawName "Arca") (rawName "Arca") :=
  ⟨by rfl, .nil, by rfl⟩

-- a history in which a signal of run r1 arrives before the step, run r2 interleaves, and the
-- handlers are invoked out of arrival order: one initialisation per run, each sees its own
def history : List Act :=
  [.signalArrives "r1" "cancel", .stepArrives "r2", .stepArrives "r1", .signalArrives "r2" "cancel",
   .invoke 2, .invoke 0, .invoke 1, .invoke 0]

example : (exec true history).inits = [("r2", 1), ("r1", 0)] := by rfl
example : (exec true history).seen =
    [⟨.step, "r1", some 0⟩, ⟨.signal "cancel", "r1", some 0⟩, ⟨.signal "cancel", "r2", some 1⟩,
     ⟨.step, "r2", some 1⟩] := by rfl
example : (exec true history).pending = [] := by rfl

end examples

end Arca.Step

#print axioms Arca.Step.C11_handler_iff
#print axioms Arca.Step.C11_handler_else
#print axioms Arca.Step.C11_handler_at_most_once
#print axioms Arca.Step.C11_handler_iff_unser_partial
#print axioms Arca.Step.C11_handler_iff_unser
#print axioms Arca.Step.C11_result
#print axioms Arca.Step.C11_result_unknownStep
#print axioms Arca.Step.C11_result_invalidInput
#print axioms Arca.Step.C11_result_undeclaredOutput
#print axioms Arca.Step.C11_result_invalidOutput
#print axioms Arca.Step.C11_result_unserializableOutput
#print axioms Arca.Step.C11_result_kinds
#print axioms Arca.Step.C11_signal_handler_iff
#print axioms Arca.Step.C11_signal_handler_at_most_once
#print axioms Arca.Step.C11_signal_result_ok
#print axioms Arca.Step.C11_signal_result_unknownStep
#print axioms Arca.Step.C11_signal_result_unknownSignal
#print axioms Arca.Step.C11_signal_result_invalidInput
#print axioms Arca.Step.C11_unknown_ids
#print axioms Arca.Step.C11_no_panic
#print axioms Arca.Step.C11_no_panic_total
#print axioms Arca.Step.C11_signal_no_panic
#print axioms Arca.Step.C11_stepdata_once
#print axioms Arca.Step.C11_stepdata_first_arrival
