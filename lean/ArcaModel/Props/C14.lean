import ArcaModel.Lemmas.Link
import ArcaModel.Lemmas.Inline
import ArcaModel.Lemmas.NoFuel
/-
  C14  References resolve lexically; inlining a reference never changes behaviour.

  Part 1 (LINKING, model `Arca.Link`): what the constructors and any sequence of `ApplyNamespace`
  calls do to every reference, proved for ALL schema trees.
  Part 2 (INLINING, on `Arca.run`): replacing a reference by the object it denotes - at any
  position, inside any nesting of lists, maps, properties, one-of members and inner scopes, any
  finite number of times - preserves every result any operation reaches, for all values.
  Part 3: recursion through references on finite inputs (see `C14_recursive_...` below).

  KNOWN FINDING the theorems are stated around: a single-property object whose property refers to
  the object itself (`scope{A{next: ref A}}`), given a non-map input, re-enters the single-property
  shorthand for ever. The model has this behaviour too (`run` returns `fuel` for every budget), so
  the inlining theorems speak about REACHED results (`Reaches`: outcome ≠ `fuel`), and say that
  inlining neither creates nor removes such a divergence; the termination statement carries the
  explicit hypothesis that excludes it (no object with exactly one property).
-/
namespace Arca
open Arca.Link

/-! ## Part 1: linking -/

/-- a freshly written tree: no reference is linked yet (`NewRefSchema`, `NewNamespacedRefSchema`) -/
def Link.Fresh (t : LTy) : Prop := ∀ o ∈ occs "" none [] t, o.link = none

theorem filter_map_of_fixed {α} (p : α → Bool) (f : α → α) (hp : ∀ a, p (f a) = p a) (hf : ∀ a, p a = true → f a = a) :
    ∀ (l : List α), (l.map f).filter p = l.filter p
  | [] => rfl
  | a :: l => by
    simp only [List.map, List.filter, hp a]
    cases h : p a with
    | true => simp only; rw [hf a h, filter_map_of_fixed p f hp hf l]
    | false => simp only; exact filter_map_of_fixed p f hp hf l

/-- `applying one namespace leaves references to other namespaces untouched`: a pass for namespace
    `n` (with ANY table, at any position, successful) leaves every occurrence of a different
    namespace exactly as it was - same position, ID, namespace, link. -/
theorem C14_other_ns_untouched (w : String) (n : String) (tbl : Table) (ctx : Option Table) (p : Path) (t t' : LTy)
    (hc : n = "" → ctx.getD tbl = tbl)
    (h : applyNs w tbl n p t = .ok t') :
    (occs w ctx p t').filter (fun o => o.ns != n) = (occs w ctx p t).filter (fun o => o.ns != n) := by
  rw [applyNs_occs w n t tbl ctx p t' hc h]
  apply filter_map_of_fixed
  · intro o; rw [(relink_fields tbl n o).2.1]
  · intro o ho; simp only [relink, ho, ↓reduceIte]

/-- the same for a root-level call, where no side condition is needed -/
theorem C14_other_ns_untouched_root (n : String) (tbl : Table) (t t' : LTy)
    (h : applyNs "" tbl n [] t = .ok t') :
    (occs "" none [] t').filter (fun o => o.ns != n) = (occs "" none [] t).filter (fun o => o.ns != n) :=
  C14_other_ns_untouched "" n tbl none [] t t' (fun _ => rfl) h

/-- `a missing ID panics`: the pass returns iff every occurrence of the namespace finds its ID in
    the table it is looked up in (its nearest scope for the self namespace, the given table else) -/
theorem C14_apply_ok_iff (n : String) (tbl : Table) (t : LTy) :
    (∃ t', applyNs "" tbl n [] t = .ok t') ↔
      ∀ o ∈ occs "" none [] t, o.ns = n → (lookupS o.id (passTable tbl n o)).isSome :=
  applyNs_ok_iff "" n t tbl none [] (fun _ => rfl)

theorem lookupS_none_of_not_mem {α} (k : String) : ∀ (l : List (String × α)), k ∉ l.map (·.1) → lookupS k l = none
  | [], _ => rfl
  | (k', v) :: l, h => by
    simp only [List.map, List.mem_cons, not_or] at h
    have : (k == k') = false := by simpa using h.1
    simp only [lookupS, this, Bool.false_eq_true, ↓reduceIte]
    exact lookupS_none_of_not_mem k l h.2

/-- **Links are lexical.** Build a fresh tree with the public constructors (every scope applies
    itself, innermost first, outer scopes re-traversing inner ones), then apply ANY sequence of
    namespaces with pairwise distinct names: every reference ends up linked to exactly what
    `lexical` says - the object with its ID in the nearest enclosing scope for the self namespace
    (never an outer scope's object: inner scopes shadow), the entry of its own namespace's table
    otherwise - and references whose namespace was not applied stay unlinked. -/
theorem C14_links_lexical (apps : List (String × Table)) (t₀ t₁ t₂ : LTy)
    (hfresh : Fresh t₀)
    (hbuild : build "" [] t₀ = .ok t₁) (happly : applySeq apps t₁ = .ok t₂)
    (hnd : (apps.map (·.1)).Nodup) (hne : ∀ a ∈ apps, a.1 ≠ "") :
    occs "" none [] t₂ = (occs "" none [] t₀).map (fun o => { o with link := lexical apps o }) := by
  rw [applySeq_occs apps t₁ t₂ happly, build_occs "" t₀ [] t₁ hbuild, List.map_map]
  apply map_congr_of_forall
  intro o ho
  have hl := hfresh o ho
  simp only [Function.comp]
  obtain ⟨path, id, ns, link, ctx⟩ := o
  simp only at hl
  subst hl
  by_cases hns : ns = ""
  · subst hns
    have hnone : lookupS "" apps = none := by
      apply lookupS_none_of_not_mem
      intro hm
      obtain ⟨a, ha, he⟩ := List.mem_map.mp hm
      exact hne a ha he
    cases ctx with
    | none =>
      rw [seqLink_eq apps _ hnd hne]
      simp [selfLinked, lexical, hnone]
    | some tb =>
      rw [seqLink_eq apps _ hnd hne]
      simp [selfLinked, lexical, hnone]
  · have hb : (ns == "") = false := by simpa using hns
    have : selfLinked ⟨path, id, ns, none, ctx⟩ = ⟨path, id, ns, none, ctx⟩ := by simp [selfLinked, hb]
    rw [this, seqLink_eq apps _ hnd hne]
    simp only [lexical, hb, Bool.false_eq_true, ↓reduceIte]
    cases lookupS ns apps <;> rfl

/-- the reading asked for: every LINKED reference points to `lexical` -/
theorem C14_linked_points_to_lexical (apps : List (String × Table)) (t₀ t₁ t₂ : LTy)
    (hfresh : Fresh t₀) (hbuild : build "" [] t₀ = .ok t₁) (happly : applySeq apps t₁ = .ok t₂)
    (hnd : (apps.map (·.1)).Nodup) (hne : ∀ a ∈ apps, a.1 ≠ "") :
    ∀ o ∈ occs "" none [] t₂, ∀ a, o.link = some a → lexical apps o = some a := by
  intro o ho a ha
  rw [C14_links_lexical apps t₀ t₁ t₂ hfresh hbuild happly hnd hne] at ho
  obtain ⟨o₀, _, rfl⟩ := List.mem_map.mp ho
  simp only at ha
  rw [← ha]
  simp [lexical]

/-- **Order independence.** Passes for pairwise distinct namespaces may be applied in any order:
    the outcome - the linked tree, or a panic - is the same. -/
theorem C14_order_independent {apps apps' : List (String × Table)} (hp : apps.Perm apps')
    (hnd : (apps.map (·.1)).Nodup) (t : LTy) : applySeq apps t = applySeq apps' t :=
  applySeq_perm hp hnd t

/-- **Re-application is idempotent.** A pass that succeeded is a fixed point of itself: applying
    the same namespace with the same table again (e.g. `ApplySelf()` a second time) returns the very
    same tree - no link changes, no panic. -/
theorem C14_reapply_idempotent (w : String) (ns : String) (tbl : Table) (p : Path) (t t' : LTy)
    (h : applyNs w tbl ns p t = .ok t') : applyNs w tbl ns p t' = .ok t' :=
  applyNs_idem w ns t tbl p t' h

/-- in `Out` form: `applyNs … (applyNs … t) = applyNs … t` for successful applications -/
theorem C14_reapply_idempotent_bind (w : String) (ns : String) (tbl : Table) (p : Path) (t t' : LTy)
    (h : applyNs w tbl ns p t = .ok t') :
    (applyNs w tbl ns p t).bind (applyNs w tbl ns p) = applyNs w tbl ns p t := by
  rw [h]; exact applyNs_idem w ns t tbl p t' h

/-- `ApplySelf()` on a scope right after its construction changes nothing -/
theorem C14_applySelf_after_build (w : String) (p : Path) (objs : LTy) (root : String) (t₁ : LTy)
    (h : build w p (.scope objs root) = .ok t₁) : applyNs w [] "" p t₁ = .ok t₁ := by
  simp only [build] at h
  obtain ⟨x, _, hx⟩ := Out.bind_eq_ok h
  exact applyNs_idem w "" _ [] p t₁ hx

/-- **Re-applying anything already applied, at any later time, changes nothing.** After any
    sequence of passes (repetitions allowed, the self namespace included) in which a namespace is
    always applied with the same table, the resulting tree is a fixed point of every pass of the
    sequence. Together with `C14_order_independent`: only the SET of (namespace, table) pairs
    applied matters, not order and not multiplicity. -/
theorem C14_reapply_anywhere (apps : List (String × Table)) (t r : LTy) (ns : String) (tbl : Table)
    (h : applySeq apps t = .ok r) (hmem : (ns, tbl) ∈ apps) (hcons : ∀ b ∈ apps, b.1 = ns → b.2 = tbl) :
    applySeq [(ns, tbl)] r = .ok r := by
  simp only [applySeq]
  rw [applySeq_fix apps t r ns tbl h hmem hcons]; rfl

/-- **Re-binding: the last binding wins, for every occurrence.** Applying a namespace a second time
    with ANOTHER table (another object set for the same namespace name) gives exactly the tree that
    applying the second table to the original tree gives: no reference - below a list, a list of
    lists, a map, a one-of member, an inline object, an inner scope - keeps its old target. -/
theorem C14_rebind_last_wins (w : String) (ns : String) (tb1 tb2 : Table) (p : Path) (t t1 t2 : LTy)
    (h1 : applyNs w tb1 ns p t = .ok t1) (h2 : applyNs w tb2 ns p t1 = .ok t2) :
    applyNs w tb2 ns p t = .ok t2 :=
  applyNs_overwrite w ns t tb1 tb2 p t1 t2 h1 h2

/-- the same on the occurrences of a root-level call: after the second application every occurrence
    of the namespace is linked to the entry of the SECOND table, whatever it was linked to before -/
theorem C14_rebind_every_occurrence (ns : String) (tb1 tb2 : Table) (t t1 t2 : LTy)
    (h1 : applyNs "" tb1 ns [] t = .ok t1) (h2 : applyNs "" tb2 ns [] t1 = .ok t2) :
    occs "" none [] t2 = (occs "" none [] t).map (relink tb2 ns) :=
  applyNs_occs "" ns t tb2 none [] t2 (fun _ => rfl) (applyNs_overwrite "" ns t tb1 tb2 [] t1 t2 h1 h2)

/-- **When an application fails.** A root-level pass panics exactly when some occurrence of the
    namespace does not find its ID in the table it is looked up in; it then yields NO tree (there is
    nothing to observe of a failed application), ... -/
theorem C14_apply_panics_iff (n : String) (tbl : Table) (t : LTy) :
    applyNs "" tbl n [] t = .panic ↔
      ∃ o ∈ occs "" none [] t, o.ns = n ∧ lookupS o.id (passTable tbl n o) = none := by
  have hiff := C14_apply_ok_iff n tbl t
  constructor
  · intro hp
    apply Classical.byContradiction
    intro hne
    have : ∃ t', applyNs "" tbl n [] t = .ok t' := hiff.mpr (fun o ho hn => by
      cases hl : lookupS o.id (passTable tbl n o) with
      | none => exact absurd ⟨o, ho, hn, hl⟩ hne
      | some a => rfl)
    obtain ⟨t', ht'⟩ := this
    rw [hp] at ht'; cases ht'
  · rintro ⟨o, ho, hn, hl⟩
    rcases applyNs_ok_or_panic "" n t tbl [] with hok | hp
    · have := hiff.mp hok o ho hn
      rw [hl] at this; cases this
    · exact hp

/-- ... so a caller that recovers from the panic keeps the tree it had: every reference - the one
    whose ID is missing included - is linked (or unlinked) exactly as before, and `ValidateReferences`
    answers as before. -/
theorem C14_failed_apply_unchanged (w : String) (ns : String) (tbl : Table) (p : Path) (t : LTy)
    (h : applyNs w tbl ns p t = .panic) :
    recovered (applyNs w tbl ns p t) t = t ∧
    validateRefs (recovered (applyNs w tbl ns p t) t) = validateRefs t := by
  rw [h]; exact ⟨rfl, rfl⟩

/-- **`ApplySelf` on the root re-links every nested scope against ITS OWN objects**, whatever the
    nested references were linked to before (nothing, a plain `&ScopeSchema{}` value that never
    applied itself, a tree rebuilt from its description, an object that has since been replaced):
    after a successful root-level application of the self namespace every self-namespace occurrence
    below a scope carries the entry of its nearest enclosing scope's table. -/
theorem C14_root_self_relinks_nested (tbl : Table) (t t' : LTy) (h : applyNs "" tbl "" [] t = .ok t') :
    ∀ o ∈ occs "" none [] t', o.ns = "" → ∀ tb, o.ctx = some tb → o.link = lookupS o.id tb := by
  intro o ho hns tb hctx
  rw [applyNs_occs "" "" t tbl none [] t' (fun _ => rfl) h] at ho
  obtain ⟨o₀, _, rfl⟩ := List.mem_map.mp ho
  obtain ⟨_, hns0, hctx0, _⟩ := relink_fields tbl "" o₀
  rw [hns0] at hns
  rw [hctx0] at hctx
  simp [relink, hns, hctx]

/-- **`ValidateReferences` succeeds exactly when every reference is linked** - at any depth:
    `occs` lists the references below properties, list items, map keys and values, one-of members,
    and in ALL objects of every (inner) scope, reachable from the root object or not. -/
theorem C14_validate_refs_iff (w : String) (ctx : Option Table) (p : Path) (t : LTy) :
    validateRefs t = true ↔ ∀ o ∈ occs w ctx p t, o.link.isSome = true :=
  validateRefs_iff w t ctx p

/-- **The two models agree on what a reference denotes.** Take a scope `scope objs root` at
    position `p` of tree `w` whose translation for `run` is `.scope env root`. Then
    (1) `run` executes the scope's root with `env`, the translated objects of exactly this scope;
    (2) for every ID, looking the ID up in `env` (what `run` does for `.ref id`) gives the
        translation of the object `child id objs` - the object whose address `⟨w, p, id⟩` the
        linking pass stores (`lexical` for a self-namespace occurrence whose nearest scope this is);
    (3) hence `.ref id` runs that object, in the same environment. -/
theorem C14_run_env_is_lexical (x : Ext) (w : String) (p : Path) (objs : LTy) (root : String) (env : Env)
    (ht : toTy (.scope objs root) = some (.scope env root)) :
    (∀ n op e v, run x (n + 1) op e (.scope env root) v =
        match lookupS root env with
        | none => .panic
        | some o => run x n op env o v) ∧
    (∀ (o : Occ), o.ns = "" → o.ctx = some (selfTable w p objs) →
        lexical [] o = (child o.id objs).map (fun _ => (⟨w, p, o.id⟩ : Addr))) ∧
    (∀ id, lookupS id env = (child id objs).bind toTy) ∧
    (∀ id obj ty, child id objs = some obj → toTy obj = some ty →
        ∀ n op v, run x (n + 1) op env (.ref id) v = run x n op env ty v) := by
  have henv : toTy.toKids objs = some env := by
    simp only [toTy] at ht
    cases hk : toTy.toKids objs with
    | none => rw [hk] at ht; simp at ht
    | some env' =>
      rw [hk] at ht
      simp only [Option.map_some, Option.some.injEq, Ty.scope.injEq, and_true] at ht
      rw [ht]
  refine ⟨fun n op e v => rfl, ?_, fun id => toKids_lookup id objs env henv, ?_⟩
  · intro o hns hctx
    simp only [lexical, hns, hctx, BEq.rfl, ↓reduceIte]
    exact lookupS_selfTable w p o.id objs
  · intro id obj ty hc hty n op v
    have := toKids_lookup id objs env henv
    rw [hc] at this
    simp only [Option.bind_some, hty] at this
    simp only [run, this]

/-! ## Part 2: inlining -/

/-- **Inlining a reference at the root.** For every operation, value and outcome other than
    `fuel`: the reference reaches it iff the object it denotes does. -/
theorem C14_inline_ref (x : Ext) (env : Env) (id : String) (o : Ty) (h : lookupS id env = some o)
    (op : Op) (v : V) (r : Out V) (hr : r ≠ .fuel) :
    (∃ n, run x n op env (.ref id) v = r) ↔ (∃ n, run x n op env o v = r) := by
  constructor
  · rintro ⟨n, hn⟩
    cases n with
    | zero => exact absurd hn.symm hr
    | succ n => exact ⟨n, by simpa only [run, h] using hn⟩
  · rintro ⟨n, hn⟩
    exact ⟨n + 1, by simp only [run, h]; exact hn⟩

/-- what "same behaviour" means for two schemas in their environments -/
def SameBehaviour (x : Ext) (e : Env) (t : Ty) (e' : Env) (t' : Ty) : Prop :=
  ∀ op v r, Reaches x op e t v r ↔ Reaches x op e' t' v r

theorem limRec_of_reaches (x : Ext) {e e' : Env} {t t' : Ty}
    (h : ∀ op v r, Reaches x op e t v r → Reaches x op e' t' v r) (n : Nat) :
    LimRec (run x n) (run x) e t e' t' := by
  intro op v
  by_cases hf : run x n op e t v = .fuel
  · exact Or.inl hf
  · obtain ⟨m, hm, _⟩ := h op v _ ⟨n, rfl, hf⟩
    exact Or.inr ⟨m, fun k => run_mono x m k op e' t' v _ hm hf⟩

theorem reaches_of_lim {x : Ext} {op : Op} {e' : Env} {t' : Ty} {v : V} {a : Out V}
    (h : Lim (fun m => run x m op e' t' v) a) (ha : a ≠ .fuel) : Reaches x op e' t' v a := by
  rcases h with h | ⟨m, hm⟩
  · exact absurd h ha
  · exact ⟨m, hm 0, ha⟩

/-- congruence, lists: if the item schemas behave the same, so do the lists -/
theorem C14_congr_list (x : Ext) {e e' : Env} {i i' : Ty} (a b : Option Int) (h : SameBehaviour x e i e' i') :
    SameBehaviour x e (.list i a b) e' (.list i' a b) := by
  intro op v r
  constructor
  · rintro ⟨n, hn, hne⟩
    cases n with
    | zero => exact absurd hn.symm hne
    | succ n =>
      rw [← hn] at hne ⊢
      exact reaches_of_lim (lim_shift (g := fun m => runList (run x m) op e' i' a b v) (fun m => by simp only [run])
        (by simp only [run]; exact lim_runList (limRec_of_reaches x (fun op v r => (h op v r).mp) n) op a b v)) hne
  · rintro ⟨n, hn, hne⟩
    cases n with
    | zero => exact absurd hn.symm hne
    | succ n =>
      rw [← hn] at hne ⊢
      exact reaches_of_lim (lim_shift (g := fun m => runList (run x m) op e i a b v) (fun m => by simp only [run])
        (by simp only [run]; exact lim_runList (limRec_of_reaches x (fun op v r => (h op v r).mpr) n) op a b v)) hne

/-- congruence, maps (key and value schemas; the two shape facts the map consults must agree) -/
theorem C14_congr_map (x : Ext) {e e' : Env} {k k' w w' : Ty} (a b : Option Int)
    (hk : SameBehaviour x e k e' k') (hw : SameBehaviour x e w e' w')
    (hkt : k.keyTy = k'.keyTy) (hvt : w.reflectsAny = w'.reflectsAny) :
    SameBehaviour x e (.map k w a b) e' (.map k' w' a b) := by
  intro op v r
  constructor
  · rintro ⟨n, hn, hne⟩
    cases n with
    | zero => exact absurd hn.symm hne
    | succ n =>
      rw [← hn] at hne ⊢
      exact reaches_of_lim (lim_shift (g := fun m => runMap (run x m) op e' k' w' a b v) (fun m => by simp only [run])
        (by simp only [run]
            exact lim_runMap (limRec_of_reaches x (fun op v r => (hk op v r).mp) n)
              (limRec_of_reaches x (fun op v r => (hw op v r).mp) n) hkt hvt op a b v)) hne
  · rintro ⟨n, hn, hne⟩
    cases n with
    | zero => exact absurd hn.symm hne
    | succ n =>
      rw [← hn] at hne ⊢
      exact reaches_of_lim (lim_shift (g := fun m => runMap (run x m) op e k w a b v) (fun m => by simp only [run])
        (by simp only [run]
            exact lim_runMap (limRec_of_reaches x (fun op v r => (hk op v r).mpr) n)
              (limRec_of_reaches x (fun op v r => (hw op v r).mpr) n) hkt.symm hvt.symm op a b v)) hne

theorem limRec_obj (x : Ext) {e e' : Env} {id : String} {ps ps' : List (String × PropT)}
    (h : PropsRel (fun t t' => ∀ op v r, Reaches x op e t v r → Reaches x op e' t' v r) ps ps') :
    ∀ n, LimRec (run x n) (run x) e (.obj id ps) e' (.obj id ps')
  | 0 => fun _ _ => Or.inl rfl
  | n + 1 => fun op v =>
    lim_shift (g := fun m => runObj (run x m) op e' id ps' v) (fun m => by simp only [run])
      (by simp only [run]
          exact lim_runObj (PropsRel.imp (fun _ _ hq => limRec_of_reaches x hq n) h) (limRec_obj x h n) op v)

/-- congruence, objects: same property names and flags, property types that behave the same -/
theorem C14_congr_obj (x : Ext) {e e' : Env} (id : String) {ps ps' : List (String × PropT)}
    (h : PropsRel (fun t t' => SameBehaviour x e t e' t') ps ps') :
    SameBehaviour x e (.obj id ps) e' (.obj id ps') := by
  intro op v r
  constructor
  · rintro ⟨n, hn, hne⟩
    rw [← hn] at hne ⊢
    exact reaches_of_lim (limRec_obj x (PropsRel.imp (fun _ _ hq op v r => (hq op v r).mp) h) n op v) hne
  · rintro ⟨n, hn, hne⟩
    rw [← hn] at hne ⊢
    exact reaches_of_lim (limRec_obj x (PropsRel.imp (fun _ _ hq op v r => (hq op v r).mpr) (PropsRel.flip h)) n op v) hne

/-- congruence, one-of: same keys, members that behave the same -/
theorem C14_congr_oneOf (x : Ext) {e e' : Env} (ik : Bool) (d : String) (inl : Bool) {ms ms' : List (Key × Ty)}
    (h : MembersRel (fun t t' => SameBehaviour x e t e' t') ms ms') :
    SameBehaviour x e (.oneOf ik d inl ms) e' (.oneOf ik d inl ms') := by
  intro op v r
  constructor
  · rintro ⟨n, hn, hne⟩
    cases n with
    | zero => exact absurd hn.symm hne
    | succ n =>
      rw [← hn] at hne ⊢
      exact reaches_of_lim (lim_shift (g := fun m => runOneOf (run x m) x op e' ik d inl ms' v) (fun m => by simp only [run])
        (by simp only [run]
            exact lim_runOneOf (MembersRel.imp (fun _ _ hq => limRec_of_reaches x (fun op v r => (hq op v r).mp) n) h) x op ik d inl v)) hne
  · rintro ⟨n, hn, hne⟩
    cases n with
    | zero => exact absurd hn.symm hne
    | succ n =>
      rw [← hn] at hne ⊢
      exact reaches_of_lim (lim_shift (g := fun m => runOneOf (run x m) x op e ik d inl ms v) (fun m => by simp only [run])
        (by simp only [run]
            exact lim_runOneOf (MembersRel.imp (fun _ _ hq => limRec_of_reaches x (fun op v r => (hq op v r).mpr) n)
              (MembersRel.flip h)) x op ik d inl v)) hne

/-- replace the type of a property -/
def PropT.withTy : PropT → Ty → PropT
  | .mk _ r ri rin c d dis, t => .mk t r ri rin c d dis

/-- `InlinedOnce env t t'`: `t'` is `t` with ONE reference occurrence replaced by the object that
    reference denotes in the scope it occurs in (`env` = the objects of the scope enclosing `t`;
    below an inner scope, that scope's own objects). -/
inductive InlinedOnce : Env → Ty → Ty → Prop
  | here {env id oid ps} : lookupS id env = some (.obj oid ps) → InlinedOnce env (.ref id) (.obj oid ps)
  | list {env i i' a b} : InlinedOnce env i i' → InlinedOnce env (.list i a b) (.list i' a b)
  | mapKey {env k k' v a b} : InlinedOnce env k k' → InlinedOnce env (.map k v a b) (.map k' v a b)
  | mapVal {env k v v' a b} : InlinedOnce env v v' → InlinedOnce env (.map k v a b) (.map k v' a b)
  | prop {env id pre post name p t'} : InlinedOnce env p.ty t' →
      InlinedOnce env (.obj id (pre ++ (name, p) :: post)) (.obj id (pre ++ (name, p.withTy t') :: post))
  | member {env ik d inl pre post key m m'} : InlinedOnce env m m' →
      InlinedOnce env (.oneOf ik d inl (pre ++ (key, m) :: post)) (.oneOf ik d inl (pre ++ (key, m') :: post))
  | scopeObj {env pre post root k o o'} : InlinedOnce (pre ++ (k, o) :: post) o o' →
      InlinedOnce env (.scope (pre ++ (k, o) :: post) root) (.scope (pre ++ (k, o') :: post) root)

theorem PRel.withTy {Q : Ty → Ty → Prop} (p : PropT) (t' : Ty) (hq : Q p.ty t') (hs : p.ty.isStr = t'.isStr) :
    PRel Q p (p.withTy t') := by
  cases p
  exact ⟨hq, hs, rfl, rfl, rfl, rfl, rfl, rfl⟩

theorem sim_of_inlinedOnce {env : Env} {t t' : Ty} (h : InlinedOnce env t t') :
    ∀ (e' : Env), ∃ k, Sim k env e' t t' := by
  induction h with
  | here hl => intro e'; exact ⟨1, Or.inr (.inlL hl rfl)⟩
  | list _ ih => intro e'; obtain ⟨k, hk⟩ := ih e'; exact ⟨k + 1, Or.inr (.list hk)⟩
  | mapKey _ ih =>
    intro e'; obtain ⟨k, hk⟩ := ih e'
    exact ⟨k + 1, Or.inr (.map hk (Sim.refl k _ _ _) hk.shape.1 rfl)⟩
  | mapVal _ ih =>
    intro e'; obtain ⟨k, hk⟩ := ih e'
    exact ⟨k + 1, Or.inr (.map (Sim.refl k _ _ _) hk rfl hk.shape.2.1)⟩
  | @prop env id pre post name p t' _ ih =>
    intro e'; obtain ⟨k, hk⟩ := ih e'
    refine ⟨k + 1, Or.inr (.obj ?_)⟩
    exact Forall2.append (Forall2.refl (fun a => ⟨rfl, PRel.refl (Sim.refl k _ _) a.2⟩) pre)
      (.cons ⟨rfl, PRel.withTy p t' hk hk.shape.2.2⟩ (Forall2.refl (fun a => ⟨rfl, PRel.refl (Sim.refl k _ _) a.2⟩) post))
  | @member env ik d inl pre post key m m' _ ih =>
    intro e'; obtain ⟨k, hk⟩ := ih e'
    refine ⟨k + 1, Or.inr (.oneOf ?_)⟩
    exact Forall2.append (Forall2.refl (fun a => ⟨rfl, Sim.refl k _ _ a.2⟩) pre)
      (.cons ⟨rfl, hk⟩ (Forall2.refl (fun a => ⟨rfl, Sim.refl k _ _ a.2⟩) post))
  | @scopeObj env pre post root k0 o o' _ ih =>
    intro e'; obtain ⟨k, hk⟩ := ih (pre ++ (k0, o') :: post)
    refine ⟨k + 1, Or.inr (.scope ?_)⟩
    exact Forall2.append (Forall2.refl (fun a => ⟨rfl, Sim.refl k _ _ a.2⟩) pre)
      (.cons ⟨rfl, hk⟩ (Forall2.refl (fun a => ⟨rfl, Sim.refl k _ _ a.2⟩) post))

/-- **Inlining never changes behaviour.** Replace one reference occurrence - anywhere: under list
    items, map keys/values, object properties, one-of members, inside inner scopes (where the
    scope's own object table, which the replaced occurrence lives in, changes with it) - by the
    object it denotes: every operation reaches exactly the same results on every value.
    (A result is "reached" when it is not `fuel`; see the header for why.) -/
theorem C14_inline (x : Ext) {env : Env} {t t' : Ty} (h : InlinedOnce env t t') :
    ∀ op v r, Reaches x op env t v r ↔ Reaches x op env t' v r := by
  intro op v r
  obtain ⟨k, hk⟩ := sim_of_inlinedOnce h env
  exact sim_reaches_of_Sim x (EnvSim.refl env) hk op v r

/-- finitely many inlining steps (any finite unfolding of recursive objects included) -/
inductive InlinedStar (env : Env) : Ty → Ty → Prop
  | refl {t} : InlinedStar env t t
  | step {t t' t''} : InlinedStar env t t' → InlinedOnce env t' t'' → InlinedStar env t t''

theorem C14_inline_star (x : Ext) {env : Env} {t t' : Ty} (h : InlinedStar env t t') :
    ∀ op v r, Reaches x op env t v r ↔ Reaches x op env t' v r := by
  induction h with
  | refl => intro op v r; exact Iff.rfl
  | step _ h1 ih => intro op v r; exact (ih op v r).trans (C14_inline x h1 op v r)

/-- consequence for accepted inputs and their values: with enough fuel both sides return the SAME
    outcome (`ok` with the same value, the same error, or a panic) -/
theorem C14_inline_same_result (x : Ext) {env : Env} {t t' : Ty} (h : InlinedStar env t t')
    (op : Op) (v : V) (n : Nat) (hn : run x n op env t v ≠ .fuel) :
    ∃ m, run x m op env t' v = run x n op env t v := by
  obtain ⟨m, hm, _⟩ := (C14_inline_star x h op v _).mp ⟨n, rfl, hn⟩
  exact ⟨m, hm⟩

/-- ... and inlining neither introduces nor removes non-termination -/
theorem C14_inline_diverges_iff (x : Ext) {env : Env} {t t' : Ty} (h : InlinedStar env t t') (op : Op) (v : V) :
    (∀ n, run x n op env t v = .fuel) ↔ (∀ n, run x n op env t' v = .fuel) := by
  constructor
  · intro hall n
    apply Classical.byContradiction
    intro hne
    obtain ⟨m, hm, _⟩ := (C14_inline_star x h op v _).mpr ⟨n, rfl, hne⟩
    rw [hall m] at hm
    exact hne hm.symm
  · intro hall n
    apply Classical.byContradiction
    intro hne
    obtain ⟨m, hm, _⟩ := (C14_inline_star x h op v _).mp ⟨n, rfl, hne⟩
    rw [hall m] at hm
    exact hne hm.symm

/-! ## Part 3: self-referential object graphs on finite inputs -/

/-- **Recursion through references terminates on every finite input, with a linear budget.**
    Let `t` be a schema (typically a scope of recursive / mutually recursive objects) of nesting
    depth ≤ `M` in which no object has exactly one property and no property has a default
    (`okTy M t`), and `v` ANY value whose containers are nested at most `d` deep. Then Unserialize
    does not run out of the budget `(d + 1) * (M + 2)`: every reference step is followed by an object
    that either rejects a non-map input at once or hands strictly shallower values to its properties.

    `_partial`: (1) the hypothesis "no defaults" is stronger than necessary - a default is input
    supplied by the schema, and only a default that re-enters a reference cycle is harmful
    (`scope{A{next: ref A, default "{}"; x: int}}` on `{}` overflows the stack in the implementation
    and is `fuel` in the model, although `A` has two properties); defaults elsewhere would need their
    depth added to the budget. (2) Only Unserialize is covered; Validate / Serialize / data-mode
    ValidateCompatibility recurse over native values in the same way but are not proved here.
    The hypothesis "no object with exactly one property" is the recorded known finding
    (single-property shorthand: `scope{A{next: ref A}}` on `5` never returns). -/
theorem C14_recursive_total_partial (x : Ext) (M d : Nat) (t : Ty) (v : V)
    (ht : okTy M t = true) (hv : vfits d v = true) :
    run x ((d + 1) * (M + 2)) .U [] t v ≠ .fuel := by
  have h := nf_run_U x M d M [] t v (Nat.le_refl _) (fun p hp => by cases hp) ht hv
  have e : (d + 1) * (M + 2) = M + 2 + d * (M + 2) := by rw [Nat.add_mul, Nat.one_mul, Nat.add_comm]
  rw [e]; exact h

/-- the same inside any enclosing scope whose objects satisfy the hypothesis -/
theorem C14_recursive_total_env_partial (x : Ext) (M d : Nat) (env : Env) (t : Ty) (v : V)
    (henv : EnvOK M env) (ht : okTy M t = true) (hv : vfits d v = true) :
    run x ((d + 1) * (M + 2)) .U env t v ≠ .fuel := by
  have h := nf_run_U x M d M env t v (Nat.le_refl _) henv ht hv
  have e : (d + 1) * (M + 2) = M + 2 + d * (M + 2) := by rw [Nat.add_mul, Nat.one_mul, Nat.add_comm]
  rw [e]; exact h

/-- hence Unserialize on such a schema always HAS a result -/
theorem C14_recursive_reaches_partial (x : Ext) (M d : Nat) (t : Ty) (v : V)
    (ht : okTy M t = true) (hv : vfits d v = true) : ∃ r, Reaches x .U [] t v r :=
  ⟨_, _, rfl, C14_recursive_total_partial x M d t v ht hv⟩

/-- The recorded known finding, in the model: the single-property self-reference on a non-map
    input never returns, whatever the budget (so the hypotheses above cannot be dropped). -/
theorem C14_known_shorthand_divergence (x : Ext) (n : Nat) :
    run x n .U [] (.scope [("A", .obj "A" [("next", .mk (.ref "A") false [] [] [] none false)])] "A")
      (.int .int64 5) = .fuel := by
  have key : ∀ n, run x n .U [("A", .obj "A" [("next", .mk (.ref "A") false [] [] [] none false)])]
        (.obj "A" [("next", .mk (.ref "A") false [] [] [] none false)]) (.int .int64 5) = .fuel ∧
      run x n .U [("A", .obj "A" [("next", .mk (.ref "A") false [] [] [] none false)])] (.ref "A") (.int .int64 5) = .fuel := by
    intro n
    induction n with
    | zero => exact ⟨rfl, rfl⟩
    | succ n ih =>
      refine ⟨?_, ?_⟩
      · simp only [run, runObj, objRaw, V.mapEntries?, PropT.disabled, PropT.ty, Bool.false_eq_true, ↓reduceIte, ih.2]
        rfl
      · simp only [run, lookupS, BEq.rfl, ↓reduceIte, ih.1]
  cases n with
  | zero => rfl
  | succ n =>
    simp only [run, lookupS, BEq.rfl, ↓reduceIte]
    exact (key n).1

/-! ## non-vacuity -/

namespace C14Examples
open Arca.Link

/-- nested scopes with a COLLIDING object ID: the outer scope has objects `A` and `B`; `A` embeds an
    inner scope with its own `B`, which refers to `B` (itself: shadowing), and to `Z` of namespace
    `n1`; `A.x` refers to the outer `B`; `A.l` is a list of references to `A` (recursion). -/
def tree : LTy :=
  .scope
    (.cons "A" (.obj "A"
        (.cons "x" (.ref "B" "" none)
        (.cons "in" (.scope (.cons "B" (.obj "B" (.cons "self" (.ref "B" "" none) (.cons "e" (.ref "Z" "n1" none) .nil))) .nil) "B")
        (.cons "l" (.list (.ref "A" "" none)) .nil))))
    (.cons "B" (.obj "B" (.cons "o" (.oneOf "_t" (.cons "m0" (.ref "A" "" none) (.cons "m1" (.ref "Y" "n2" none) .nil))) .nil)) .nil))
    "A"

def extTables : List (String × Table) :=
  [("n1", [("Z", ⟨"n1", [], "Z"⟩)]), ("n2", [("Y", ⟨"n2", [], "Y"⟩)])]

theorem tree_fresh : Fresh tree := by
  intro o ho
  simp only [tree, occs, List.append_nil, List.nil_append, List.cons_append, List.mem_cons, List.not_mem_nil, or_false] at ho
  rcases ho with rfl | rfl | rfl | rfl | rfl | rfl <;> rfl

/-- what construction and the two applications (here: n2 before n1) produce -/
example :
    ((build "" [] tree).bind (applySeq extTables.reverse)).bind (fun t => .ok ((occs "" none [] t).map fun o => (o.path, o.link))) =
    .ok [ (["A", "x"], some ⟨"", [], "B"⟩),
          (["A", "in", "B", "self"], some ⟨"", ["A", "in"], "B"⟩),   -- the INNER `B`, not the outer one
          (["A", "in", "B", "e"], some ⟨"n1", [], "Z"⟩),
          (["A", "l", "[]"], some ⟨"", [], "A"⟩),
          (["B", "o", "m0"], some ⟨"", [], "A"⟩),
          (["B", "o", "m1"], some ⟨"n2", [], "Y"⟩) ] := by
  rfl

/-- the hypotheses of `C14_links_lexical` are satisfiable on this tree, in both orders -/
example : ∃ t₁ t₂, build "" [] tree = .ok t₁ ∧ applySeq extTables t₁ = .ok t₂ ∧
    (extTables.map (·.1)).Nodup ∧ (∀ a ∈ extTables, a.1 ≠ "") ∧ validateRefs t₁ = false ∧ validateRefs t₂ = true :=
  ⟨_, _, rfl, rfl, by decide, by decide, rfl, rfl⟩

/-- a dangling reference (ID only in the OUTER scope) panics at construction instead of linking outwards -/
example : build "" [] (.scope
    (.cons "A" (.obj "A" (.cons "in" (.scope (.cons "C" (.obj "C" (.cons "x" (.ref "B" "" none) .nil)) .nil) "C") .nil))
    (.cons "B" (.obj "B" .nil) .nil)) "A") = .panic := by
  rfl

/-- a recursive list-of-self object ... -/
def nodeProps (item : Ty) : List (String × PropT) :=
  [("v", .mk (.int none none none) true [] [] [] none false),
   ("kids", .mk (.list item none none) false [] [] [] none false)]

def recScope : Ty := .scope [("Node", .obj "Node" (nodeProps (.ref "Node")))] "Node"

/-- ... with the reference inside the scope's own object replaced by the object (one unfolding) -/
def recScope1 : Ty := .scope [("Node", .obj "Node" (nodeProps (.obj "Node" (nodeProps (.ref "Node")))))] "Node"

example : InlinedOnce [] recScope recScope1 :=
  .scopeObj (pre := []) (post := []) (k := "Node")
    (.prop (pre := [("v", .mk (.int none none none) true [] [] [] none false)]) (post := []) (name := "kids")
      (p := .mk (.list (.ref "Node") none none) false [] [] [] none false)
      (.list (.here rfl)))

def noExt : Ext := ⟨fun _ => none, fun _ => "", fun _ => false, fun _ _ => false⟩

def nodeVal (kids : List V) : V :=
  .map .strAny [(.str "v", .int .int64 1), (.str "kids", .list kids)]

/-- both accept a three-level value (the inlined one with less fuel), as `C14_inline` predicts -/
example : (run noExt 12 .U [] recScope (nodeVal [nodeVal [nodeVal []], nodeVal []])).isOk = true := by decide +kernel
example : (run noExt 10 .U [] recScope1 (nodeVal [nodeVal [nodeVal []], nodeVal []])).isOk = true := by decide +kernel
/-- and both reject a value whose innermost node lacks the required property -/
example : (run noExt 12 .U [] recScope (nodeVal [.map .strAny []])).isErr = true := by decide +kernel
example : (run noExt 12 .U [] recScope1 (nodeVal [.map .strAny []])).isErr = true := by decide +kernel

/-- nested scopes with a colliding ID on the `run` side: inlining inside the INNER scope uses the
    inner `B` -/
def innerB : Ty := .obj "B" [("n", .mk (.int none none none) false [] [] [] none false),
                            ("s", .mk (.str none none none) false [] [] [] none false)]
def outerB : Ty := .obj "B" [("n", .mk .bool false [] [] [] none false),
                            ("t", .mk .bool false [] [] [] none false)]
def shadow (r : Ty) : Ty :=
  .scope [("A", .obj "A" [("in", .mk (.scope [("R", .obj "R" [("b", .mk r false [] [] [] none false),
                                                             ("k", .mk .bool false [] [] [] none false)]),
                                               ("B", innerB)] "R") false [] [] [] none false),
                          ("z", .mk .bool false [] [] [] none false)]),
          ("B", outerB)] "A"

example : InlinedOnce [] (shadow (.ref "B")) (shadow innerB) :=
  .scopeObj (pre := []) (post := [("B", outerB)]) (k := "A")
    (.prop (pre := []) (post := [("z", .mk .bool false [] [] [] none false)]) (name := "in")
      (p := .mk _ false [] [] [] none false)
      (.scopeObj (pre := []) (post := [("B", innerB)]) (k := "R")
        (.prop (pre := []) (post := [("k", .mk .bool false [] [] [] none false)]) (name := "b")
          (p := .mk (.ref "B") false [] [] [] none false) (.here rfl))))

/-- the recursive list-of-self scope satisfies the hypothesis of `C14_recursive_total_partial`
    (depth 4), and so does the mutually recursive pair below -/
example : okTy 4 recScope = true := by decide +kernel

def mutualScope : Ty :=
  .scope [("A", .obj "A" [("b", .mk (.ref "B") false [] [] [] none false), ("n", .mk (.int none none none) true [] [] [] none false)]),
          ("B", .obj "B" [("a", .mk (.oneOf false "_t" false [(.s "x", .ref "A")]) false [] [] [] none false),
                          ("m", .mk (.map (.str none none none) (.ref "B") none none) false [] [] [] none false)])] "A"

example : okTy 5 mutualScope = true := by decide +kernel
example : vfits 6 (nodeVal [nodeVal [nodeVal []], nodeVal []]) = true := by decide +kernel

/-- the known finding does NOT satisfy it -/
example : ∀ M, okTy M (.scope [("A", .obj "A" [("next", .mk (.ref "A") false [] [] [] none false)])] "A") = false := by
  intro M
  cases M with
  | zero => rfl
  | succ M => cases M <;> simp [okTy, Ty.isObj]

end C14Examples

end Arca

#print axioms Arca.C14_links_lexical
#print axioms Arca.C14_linked_points_to_lexical
#print axioms Arca.C14_other_ns_untouched
#print axioms Arca.C14_apply_ok_iff
#print axioms Arca.C14_order_independent
#print axioms Arca.C14_reapply_idempotent
#print axioms Arca.C14_reapply_idempotent_bind
#print axioms Arca.C14_applySelf_after_build
#print axioms Arca.C14_reapply_anywhere
#print axioms Arca.C14_rebind_last_wins
#print axioms Arca.C14_apply_panics_iff
#print axioms Arca.C14_root_self_relinks_nested
#print axioms Arca.C14_failed_apply_unchanged
#print axioms Arca.C14_rebind_every_occurrence
#print axioms Arca.C14_validate_refs_iff
#print axioms Arca.C14_run_env_is_lexical
#print axioms Arca.C14_inline_ref
#print axioms Arca.C14_congr_list
#print axioms Arca.C14_congr_map
#print axioms Arca.C14_congr_obj
#print axioms Arca.C14_congr_oneOf
#print axioms Arca.C14_inline
#print axioms Arca.C14_inline_star
#print axioms Arca.C14_inline_same_result
#print axioms Arca.C14_inline_diverges_iff
#print axioms Arca.C14_recursive_total_partial
#print axioms Arca.C14_recursive_total_env_partial
#print axioms Arca.C14_recursive_reaches_partial
#print axioms Arca.C14_known_shorthand_divergence
