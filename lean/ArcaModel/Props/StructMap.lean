import ArcaModel.Lemmas.StructMap
import ArcaModel.Lemmas.StructMapTotal
import ArcaModel.Props.C03
import ArcaModel.Props.C04
/-
  Struct-mapped objects: the map -> struct -> map leg of C01 / C03 / C04.

  Theorems about `Model/StructMap.lean` (the model of `unserializeToStruct`, `serializeStruct` /
  `validateStruct`, `buildObjectFieldCache`, `applySubObjectDefaultValues`), tied to the code by the
  `structmodel` differential stream.

  (a) round trip, per object: `C01_struct_fromStruct_toStruct` (map -> struct -> map, with the
      losses of the code stated exactly: `readBack`), `C01_struct_lossless` (no loss when optional
      properties are on pointer / interface fields and no supplied treat-empty-as-default value is
      the zero value), `C01_struct_toStruct_fromStruct` (struct -> map -> struct under `StructValue`),
      `C01_struct_which_field` (which field gets what, for any typing).
  (b) presence rules read from the struct agree with the rules on `fromStruct`'s map:
      `C03_struct_set_agrees`, `C03_struct_rules_agree`, `C03_struct_validate_iff`.
  (c) totality: see the second half of this file.
-/
namespace Arca
namespace SM
open Out

/-! ### (a) map -> struct -> map -/

/-- Which field gets what, for ANY pair and typing: when `unserializeToStruct` succeeds, every
    field holds the value of the last entry assigned to it (`lastTarget`: the entry's value after
    `reflect.Value.Convert`, behind a fresh pointer for a pointer field) and otherwise its zero
    value; the field names and their order are those of the struct type. -/
theorem C01_struct_which_field (st : StructTy) (props : List (String × SProp)) (m fs : List (String × SV))
    (h : toStruct st props m = .ok fs) :
    keysOf fs = st.fields.map (·.name) ∧
    ∀ n, lookupS n fs =
      match lastTarget st props n m with
      | some x => (lookupS n (zeroFields st)).map (fun _ => x)
      | none => lookupS n (zeroFields st) := by
  obtain ⟨hr, _⟩ := toStructGo_ok h
  subst hr
  exact ⟨by rw [keysOf_applyEntries, keysOf_zeroFields], fun n => lookupS_applyEntries st props n m _⟩

/-- ... and under injectivity the last entry assigned to the field of property `k` is `k`'s own. -/
theorem C01_struct_field_of_property (st : StructTy) (props : List (String × SProp)) (m fs : List (String × SV))
    (hwf : WFObj st props) (hkeys : (keysOf m).Nodup) (h : toStruct st props m = .ok fs)
    (k : String) (p : SProp) (hkp : (k, p) ∈ props) (f : Field) (hf : fieldFor st k = some f) :
    lookupS f.name fs = some (match lookupS k m with
      | some v => (match setField f.ty (srcTy p.ty v) v with | some x => x | none => f.zero)
      | none => f.zero) := by
  obtain ⟨hr, hall⟩ := toStructGo_ok h
  subst hr
  have hk : hasKey k props = true := by simp [hasKey, lookupS_of_mem_nodup hwf.keys hkp]
  rw [lookupS_applyEntries, lastTarget_of_inj hwf.inj hf hk m hkeys, lookupS_zeroFields hwf.names (fieldFor_mem hf)]
  cases hl : lookupS k m with
  | none => rfl
  | some v =>
    have hs := hall (k, v) (lookupS_mem hl)
    obtain ⟨nx, hnx⟩ := Option.isSome_iff_exists.mp hs
    obtain ⟨n, x⟩ := nx
    obtain ⟨f', p', hf', hp', _, _, hset⟩ := entrySet_some hnx
    rw [hf] at hf'; cases hf'
    rw [lookupS_of_mem_nodup hwf.keys hkp] at hp'; cases hp'
    simp [hnx, hset]

/-- `unserializeToStruct` succeeds on every converted map of an exactly typed well-formed pair. -/
theorem C01_struct_toStruct_total (st : StructTy) (props : List (String × SProp)) (m : List (String × SV))
    (hwf : WFObj st props) (hex : exactObjB st props = true) (hm : ConvertedMap props m) :
    ∃ fs, toStruct st props m = .ok fs :=
  ⟨_, toStruct_exact hwf hex hm⟩

/-- **map -> struct -> map.** For a well-formed, exactly typed pair and a converted map `m`, what
    `serializeStruct` / `validateStruct` read from the struct built from `m` is `expectedBack`:
    per property, in table order, `readBack` of what `m` held. The losses are exactly these:
    * a supplied value that is the zero value of a treat-empty-as-default or disabled property
      (whose type is not the empty interface) is gone;
    * an absent property whose field is neither a pointer nor an interface comes back holding the
      field's zero value - an optional non-pointer field holding its zero value is
      indistinguishable from unset - unless the property is treat-empty-as-default or disabled. -/
theorem C01_struct_fromStruct_toStruct (st : StructTy) (props : List (String × SProp)) (m fs : List (String × SV))
    (hwf : WFObj st props) (hex : exactObjB st props = true) (hm : ConvertedMap props m)
    (h : toStruct st props m = .ok fs) :
    fromStruct st props fs = .ok (expectedBack st props m) := by
  rw [toStruct_exact hwf hex hm] at h
  cases h
  rw [fromStruct_ok_iff]
  refine ⟨?_, ?_⟩
  · intro kp hkp
    obtain ⟨f, hf, _⟩ := propOK_field (hwf.prop kp hkp)
    exact ⟨_, readProp_applied hwf hex hm (k := kp.1) (p := kp.2) hkp hf⟩
  · unfold expectedBack
    apply filterMap_congr'
    intro kp hkp
    obtain ⟨f, hf, _⟩ := propOK_field (hwf.prop kp hkp)
    simp only [hf, readOpt, readProp_applied hwf hex hm (k := kp.1) (p := kp.2) hkp hf]
    cases readBack f kp.2 (lookupS kp.1 m) <;> rfl

/-- `unserializeToStruct` succeeds on every map with declared keys, for EVERY well-formed pair. -/
theorem C01_struct_toStruct_total_wf (st : StructTy) (props : List (String × SProp)) (m : List (String × SV))
    (hwf : WFObj st props) (hdecl : ∀ kv, kv ∈ m → hasKey kv.1 props = true) :
    ∃ fs, toStruct st props m = .ok fs :=
  ⟨_, toStruct_wf hwf hdecl⟩

/-- **map -> struct -> map for every well-formed pair** (the field's type need only be one that
    `reflect.Value.Convert` reaches from the property's type: narrow and unsigned integers, float32,
    defined types, ...). What is read back from the struct built from `m` is `expectedBackC`: per
    property the entry's value AFTER the conversion to the field's type (`convBack`: e.g. 300 comes
    back as 44 from a uint8 field, 65 as "A" from a string field) - dropped when that is the nil
    interface or the zero value of a treat-empty-as-default property - and, for an absent property
    on a non-pointer non-interface field, the field's zero value unless it is treat-empty-as-default
    (for an integer property on a string field the test compares with "\x00", so "" stays). -/
theorem C01_struct_fromStruct_toStruct_conv (st : StructTy) (props : List (String × SProp)) (m fs : List (String × SV))
    (hwf : WFObj st props) (hm : ConvertedMap props m) (h : toStruct st props m = .ok fs) :
    fromStruct st props fs = .ok (expectedBackC st props m) := by
  rw [toStruct_wf hwf hm.declared] at h
  cases h
  rw [fromStruct_ok_iff]
  refine ⟨?_, ?_⟩
  · intro kp hkp
    obtain ⟨f, hf, _⟩ := propOK_field (hwf.prop kp hkp)
    exact ⟨_, readProp_appliedC hwf hm (k := kp.1) (p := kp.2) hkp hf⟩
  · unfold expectedBackC
    apply filterMap_congr'
    intro kp hkp
    obtain ⟨f, hf, _⟩ := propOK_field (hwf.prop kp hkp)
    simp only [hf, readOpt, readProp_appliedC hwf hm (k := kp.1) (p := kp.2) hkp hf]
    cases readBackC f kp.2 (lookupS kp.1 m) <;> rfl

/-- `expectedBack`, entry by entry -/
theorem lookupS_expectedBack (st : StructTy) (props : List (String × SProp)) (m : List (String × SV))
    (hwf : WFObj st props) (k : String) (p : SProp) (hkp : (k, p) ∈ props) (f : Field) (hf : fieldFor st k = some f) :
    lookupS k (expectedBack st props m) = readBack f p (lookupS k m) := by
  have key : ∀ (ps : List (String × SProp)), (keysOf ps).Nodup → (k, p) ∈ ps →
      lookupS k (ps.filterMap fun kp => match fieldFor st kp.1 with
        | some f => (readBack f kp.2 (lookupS kp.1 m)).map fun x => (kp.1, x)
        | none => none) = readBack f p (lookupS k m) := by
    intro ps
    induction ps with
    | nil => intro _ h; cases h
    | cons a rest ih =>
      intro hn h
      simp only [keysOf, List.map_cons, List.nodup_cons] at hn
      simp only [List.filterMap_cons]
      rcases List.mem_cons.mp h with h | h
      · subst h
        simp only [hf]
        cases hr : readBack f p (lookupS k m) with
        | some x => simp [lookupS_cons]
        | none =>
          simp only [Option.map_none]
          apply (lookupS_eq_none_iff _ _).mpr
          intro hc
          apply hn.1
          simp only [keysOf, List.mem_map, List.mem_filterMap] at hc ⊢
          obtain ⟨kx, ⟨b, hb, hbx⟩, hkx⟩ := hc
          refine ⟨b, hb, ?_⟩
          cases hfb : fieldFor st b.1 with
          | none => simp [hfb] at hbx
          | some g =>
            simp only [hfb] at hbx
            cases hrb : readBack g b.2 (lookupS b.1 m) with
            | none => simp [hrb] at hbx
            | some y => simp only [hrb, Option.map_some, Option.some.injEq] at hbx; rw [← hkx, ← hbx]
      · have hk : k ∈ keysOf rest := List.mem_map.mpr ⟨(k, p), h, rfl⟩
        have hne : k ≠ a.1 := by intro e; subst e; exact hn.1 hk
        cases hfa : fieldFor st a.1 with
        | none => exact ih hn.2 h
        | some g =>
          simp only []
          cases readBack g a.2 (lookupS a.1 m) with
          | none => exact ih hn.2 h
          | some y => simp only [Option.map_some, lookupS_cons, hne, if_false]; exact ih hn.2 h
  exact key props hwf.keys hkp

/-- **No loss.** When every property absent from `m` sits on a pointer or interface field (or is
    treat-empty-as-default or disabled) and no supplied value of a treat-empty-as-default (or
    disabled) property is the zero value, the map read back from the struct equals `m` as a finite map: same value under every
    key. -/
theorem C01_struct_lossless (st : StructTy) (props : List (String × SProp)) (m fs : List (String × SV))
    (hwf : WFObj st props) (hex : exactObjB st props = true) (hm : ConvertedMap props m)
    (habsent : ∀ kp, kp ∈ props → lookupS kp.1 m = none → ∀ f, fieldFor st kp.1 = some f →
      (f.ty.isPtr || f.ty == .iface || kp.2.disabled || kp.2.emptyIsDefault) = true)
    (hzero : ∀ kp, kp ∈ props → ∀ v, lookupS kp.1 m = some v →
      ((kp.2.disabled || kp.2.emptyIsDefault) && reflTy kp.2.ty != .iface && v.isZero) = false)
    (h : toStruct st props m = .ok fs) :
    ∃ raw, fromStruct st props fs = .ok raw ∧ ∀ k, lookupS k raw = lookupS k m := by
  refine ⟨_, C01_struct_fromStruct_toStruct st props m fs hwf hex hm h, ?_⟩
  intro k
  by_cases hk : hasKey k props = true
  · obtain ⟨p, hp⟩ := Option.isSome_iff_exists.mp hk
    have hkp := lookupS_mem hp
    obtain ⟨f, hf, _⟩ := propOK_field (hwf.prop (k, p) hkp)
    simp only [] at hf
    rw [lookupS_expectedBack st props m hwf k p hkp f hf]
    cases hl : lookupS k m with
    | none => simp [readBack, habsent (k, p) hkp hl f hf]
    | some v => simp [readBack, hzero (k, p) hkp v hl]
  · -- an undeclared key is in neither map
    have h1 : lookupS k m = none := by
      apply (lookupS_eq_none_iff _ _).mpr
      intro hc
      obtain ⟨kv, hkv, rfl⟩ := List.mem_map.mp hc
      exact hk (hm.declared kv hkv)
    have h2 : lookupS k (expectedBack st props m) = none := by
      apply (lookupS_eq_none_iff _ _).mpr
      intro hc
      simp only [expectedBack, keysOf, List.mem_map, List.mem_filterMap] at hc
      obtain ⟨kx, ⟨b, hb, hbx⟩, hkx⟩ := hc
      apply hk
      cases hfb : fieldFor st b.1 with
      | none => simp [hfb] at hbx
      | some g =>
        simp only [hfb] at hbx
        cases hrb : readBack g b.2 (lookupS b.1 m) with
        | none => simp [hrb] at hbx
        | some y =>
          simp only [hrb, Option.map_some, Option.some.injEq] at hbx
          have : k = b.1 := by rw [← hkx, ← hbx]
          rw [this, hasKey, lookupS_of_mem_nodup hwf.keys (show (b.1, b.2) ∈ props from hb)]
          rfl
    rw [h1, h2]

/-! ### (a) struct -> map -> struct -/

/-- **struct -> map -> struct.** For a well-formed, exactly typed pair and a value of the struct
    type whose unset and unmapped fields hold their zero values (`StructValue`: the guard
    corresponding to the losses above), `unserializeToStruct` of the map read from the value
    rebuilds the identical value. -/
theorem C01_struct_toStruct_fromStruct (st : StructTy) (props : List (String × SProp)) (fs m : List (String × SV))
    (hwf : WFObj st props) (hex : exactObjB st props = true) (hv : StructValue st props fs)
    (h : fromStruct st props fs = .ok m) : toStruct st props m = .ok fs := by
  obtain ⟨hall, hm⟩ := (fromStruct_ok_iff st fs props m).mp h
  -- every entry of the map stores back the value its field holds
  have hentry : ∀ kv, kv ∈ m → ∃ p f fv, (kv.1, p) ∈ props ∧ fieldFor st kv.1 = some f ∧
      lookupS f.name fs = some fv ∧ entrySet st props kv.1 kv.2 = some (f.name, fv) := by
    intro kv hkv
    rw [hm] at hkv
    obtain ⟨kp, hkp, hro⟩ := List.mem_filterMap.mp hkv
    unfold readOpt at hro
    split at hro
    · rename_i x hrp
      simp only [Option.some.injEq] at hro
      subst hro
      obtain ⟨f, hf, _⟩ := propOK_field (hwf.prop kp hkp)
      simp only [readProp, hf] at hrp
      cases hl : lookupS f.name fs with
      | none => simp [hl, Out.cerr] at hrp
      | some fv =>
        simp only [hl] at hrp
        obtain ⟨hx, hnn⟩ := readField_some hrp
        refine ⟨kp.2, f, fv, hkp, hf, hl, ?_⟩
        rw [entrySet_exact hwf hex (k := kp.1) (p := kp.2) hkp hf, hx,
          stored_eq_of_shaped (exact_of_mem hex hkp hf) (hv.shaped kp hkp f fv hf hl) hnn]
    · cases hro
  have hkeys : (keysOf m).Nodup := by
    rw [hm]; exact (keysOf_filterMap_readOpt st fs props).nodup hwf.keys
  unfold toStruct
  rw [toStructGo_of_all m _ (fun kv hkv => by
    obtain ⟨_, _, _, _, _, _, he⟩ := hentry kv hkv
    simp [he])]
  congr 1
  -- same field names, same value under every name
  apply assoc_ext
  · rw [keysOf_applyEntries, keysOf_zeroFields, hv.names]
  · rw [keysOf_applyEntries, keysOf_zeroFields]; exact hwf.names
  · intro n
    rw [lookupS_applyEntries]
    by_cases hn : n ∈ st.fields.map (·.name)
    · obtain ⟨f, hf, rfl⟩ := List.mem_map.mp hn
      rw [lookupS_zeroFields hwf.names hf]
      by_cases hmapped : ∃ kp, kp ∈ props ∧ fieldName? st kp.1 = some f.name
      · obtain ⟨kp, hkp, hfn⟩ := hmapped
        obtain ⟨g, hg, _⟩ := propOK_field (hwf.prop kp hkp)
        have hgf : g = f := by
          simp only [fieldName?, hg, Option.map_some, Option.some.injEq] at hfn
          exact field_eq_of_name hwf.names (fieldFor_mem hg) hf hfn
        subst hgf
        have hk : hasKey kp.1 props = true := by
          simp [hasKey, lookupS_of_mem_nodup hwf.keys (show (kp.1, kp.2) ∈ props from hkp)]
        rw [lastTarget_of_inj hwf.inj hg hk m hkeys, hm,
          lookupS_filterMap_readOpt st fs props hwf.keys kp.1 kp.2 hkp]
        obtain ⟨o, ho⟩ := hall kp hkp
        have hro : readOpt st fs (kp.1, kp.2) = o.map (fun x => (kp.1, x)) := by
          simp only [readOpt, ho]; cases o <;> rfl
        rw [hro]
        simp only [readProp, hg] at ho
        cases hl : lookupS g.name fs with
        | none => simp [hl, Out.cerr] at ho
        | some fv =>
          simp only [hl] at ho
          cases o with
          | none =>
            simp only [Option.map_none, Option.bind_none]
            rw [hv.recoverable kp hkp g fv hg hl ho]
          | some x =>
            simp only [Option.map_some, Option.bind_some]
            have hmem : (kp.1, x) ∈ m := by
              rw [hm]
              exact List.mem_filterMap.mpr ⟨kp, hkp, by simp [readOpt, readProp, hg, hl, ho]⟩
            obtain ⟨_, f', fv', _, hf', hl', he⟩ := hentry (kp.1, x) hmem
            simp only [] at hf' he
            rw [hg] at hf'; cases hf'
            rw [hl] at hl'; cases hl'
            simp [he]
      · -- no property is mapped to this field
        have hnone : lastTarget st props f.name m = none := by
          apply lastTarget_none
          intro kv hkv n' x hes hnn
          obtain ⟨p, g, fv, hkp, hg, _, he⟩ := hentry kv hkv
          rw [he] at hes
          simp only [Option.some.injEq, Prod.mk.injEq] at hes
          exact hmapped ⟨(kv.1, p), hkp, by simp [fieldName?, hg, hes.1, hnn]⟩
        rw [hnone]
        exact (hv.unmapped f hf (fun kp hkp hc => hmapped ⟨kp, hkp, hc⟩)).symm
    · have h1 : lookupS n (zeroFields st) = none :=
        (lookupS_eq_none_iff _ _).mpr (by rw [keysOf_zeroFields]; exact hn)
      have h2 : lookupS n fs = none := (lookupS_eq_none_iff _ _).mpr (by rw [hv.names]; exact hn)
      rw [h1, h2]
      cases lastTarget st props n m <;> rfl

/-! ### (b) presence rules on the struct -/

/-- is the property set, as read directly from the struct value (`getFieldReflection` returns a
    value and the treat-empty-as-default test does not discard it)? -/
def isSetIn (st : StructTy) (props : List (String × SProp)) (fs : List (String × SV)) (k : String) : Bool :=
  match lookupS k props with
  | some p => (readOpt st fs (k, p)).isSome
  | none => false

/-- The keys of the map `serializeStruct` / `validateStruct` build are exactly the properties that
    read as set from the struct value. -/
theorem C03_struct_set_agrees (st : StructTy) (props : List (String × SProp)) (fs raw : List (String × SV))
    (hkeys : (keysOf props).Nodup) (h : fromStruct st props fs = .ok raw) (k : String) :
    hasKey k raw = isSetIn st props fs k := by
  obtain ⟨_, hm⟩ := (fromStruct_ok_iff st fs props raw).mp h
  subst hm
  unfold isSetIn hasKey
  cases hl : lookupS k props with
  | none =>
    have : lookupS k (props.filterMap (readOpt st fs)) = none := by
      apply (lookupS_eq_none_iff _ _).mpr
      intro hc
      exact (lookupS_eq_none_iff _ _).mp hl ((keysOf_filterMap_readOpt st fs props).subset hc)
    simp [this]
  | some p =>
    rw [lookupS_filterMap_readOpt st fs props hkeys k p (lookupS_mem hl)]
    cases hr : readOpt st fs (k, p) <;> simp [hr]

/-- **Presence rules evaluated on the struct agree with the rules evaluated on `fromStruct`'s
    map**: `validateFieldInterdependencies` gives the same verdict (same error, same path) on the
    map read from the value as on the set-ness read directly from the fields. -/
theorem C03_struct_rules_agree (st : StructTy) (props : List (String × SProp)) (fs raw : List (String × SV))
    (hkeys : (keysOf props).Nodup) (h : fromStruct st props fs = .ok raw) :
    interdeps (rulesOf props) (fun k => hasKey k raw) = interdeps (rulesOf props) (isSetIn st props fs) := by
  have : (fun k => hasKey k raw) = isSetIn st props fs :=
    funext (C03_struct_set_agrees st props fs raw hkeys h)
  rw [this]

theorem forSVS_ok_iff {α β} (f : String → α → Out β) : ∀ (m : List (String × α)),
    (∃ m', forSVS f m = .ok m') ↔ ∀ kv, kv ∈ m → ∃ r, f kv.1 kv.2 = .ok r
  | [] => by simp [forSVS]
  | (k, v) :: rest => by
    have ih := forSVS_ok_iff f rest
    simp only [forSVS, List.mem_cons, forall_eq_or_imp]
    cases hf : f k v with
    | ok r =>
      simp only [Out.ok.injEq, exists_eq', true_and]
      rw [← ih]
      cases forSVS f rest <;> simp
    | err e => simp
    | panic => simp
    | fuel => simp

/-- **Validate of a struct value** accepts exactly when the value has the struct type, every
    property reads its field, the value of every SET property validates against the property's
    type, and the declared presence rules (C03's `RuleHolds`: required, required-if,
    required-if-not, conflicts) hold of the set-ness read from the struct. -/
theorem C03_struct_validate_iff (rec : SRec) (fuel : Nat) (st : StructTy) (ptrT : Bool)
    (props : List (String × SProp)) (s : SV) (hkeys : (keysOf props).Nodup) :
    (∃ r, runObjS rec fuel .V st ptrT props s = .ok r) ↔
      ∃ fs raw, unwrapT ptrT st.name s = .ok fs ∧ fromStruct st props fs = .ok raw ∧
        (∀ kx, kx ∈ raw → ∃ r, entryVS rec .V props kx.1 kx.2 = .ok r) ∧
        ∀ np, np ∈ rulesOf props → RuleHolds (isSetIn st props fs) np.1 np.2 := by
  simp only [runObjS]
  constructor
  · intro ⟨r, h⟩
    obtain ⟨fs, hfs, h⟩ := Out.bind_eq_ok h
    obtain ⟨raw, hraw, h⟩ := Out.bind_eq_ok h
    obtain ⟨m', hm', h⟩ := Out.bind_eq_ok h
    obtain ⟨_, hi, _⟩ := Out.bind_eq_ok h
    refine ⟨fs, raw, hfs, hraw, (forSVS_ok_iff _ raw).mp ⟨m', hm'⟩, ?_⟩
    rw [C03_struct_rules_agree st props fs raw hkeys hraw] at hi
    exact (C03_rules_iff _ _).mp hi
  · intro ⟨fs, raw, hfs, hraw, hall, hrules⟩
    obtain ⟨m', hm'⟩ := (forSVS_ok_iff _ raw).mpr hall
    have hi := (C03_rules_iff (rulesOf props) (isSetIn st props fs)).mpr hrules
    rw [← C03_struct_rules_agree st props fs raw hkeys hraw] at hi
    exact ⟨.val unitV, by simp [hfs, hraw, hm', hi, Out.bind]⟩

/-! ### (c) totality -/

/-- **No panic.** On a well-formed tree (`WFS`: well-formed map-backed leaves, well-formed
    struct / property pairs `WFObj`) Unserialize, Validate and Serialize never panic - for every
    input value (raw data, struct values of any shape, pointers, nils), every externals, every
    budget. -/
theorem C04_struct_no_panic (x : Ext) (fuel : Nat) (op : SOp) (t : STy) (s : SV) (hwf : WFS t) :
    srun x fuel op t s ≠ .panic :=
  srun_np x fuel op t s hwf

/-- ... including the construction of the schema (what a harness case observes). -/
theorem C04_struct_case_no_panic (x : Ext) (fuel : Nat) (op : SOp) (t : STy) (s : SV) (hwf : WFS t) :
    caseRun x fuel op t s ≠ .panic :=
  np_bind (construct_np fuel t hwf) (fun _ => srun_np x fuel op t s hwf)

/-- the decidable check implies `WFS` -/
theorem C04_struct_wf_decidable (n : Nat) (t : STy) (h : wfSB n t = true) : WFS t := wfSB_sound n t h

/-! #### which ill-formed pairs panic -/

theorem defaultsOf_panic_iff : ∀ (ps : List (String × PropT)),
    defaultsOf ps = .panic ↔ ∃ kp, kp ∈ ps ∧ defaultOK kp.2 = false
  | [] => by simp [defaultsOf]
  | (k, p) :: rest => by
    have ih := defaultsOf_panic_iff rest
    simp only [defaultsOf, List.mem_cons, exists_eq_or_imp]
    split
    · rename_i hd
      rw [ih]
      simp [defaultOK, hd]
    · rename_i hd
      simp [defaultOK, hd]
    · rename_i d hd
      have : defaultOK p = true := by simp [defaultOK, hd]
      simp only [this, Bool.true_eq_false, false_or]
      rw [← ih]
      cases defaultsOf rest <;> simp [Out.bind]

theorem defaultsOf_ok_or_panic : ∀ (ps : List (String × PropT)), (∃ ds, defaultsOf ps = .ok ds) ∨ defaultsOf ps = .panic
  | [] => Or.inl ⟨[], rfl⟩
  | (k, p) :: rest => by
    simp only [defaultsOf]
    split
    · exact defaultsOf_ok_or_panic rest
    · exact Or.inr rfl
    · rcases defaultsOf_ok_or_panic rest with ⟨ds, h⟩ | h
      · rw [h]; exact Or.inl ⟨_, rfl⟩
      · rw [h]; exact Or.inr rfl

/-- **The constructor panics exactly on these pairs**: a property whose default does not decode
    (`extractObjectDefaultValues`) or a property without a field (`buildObjectFieldCache`: no
    field carries the property ID as its unique json tag, none is named like it). -/
theorem C04_struct_construct_panics_iff (st : StructTy) (props : List (String × SProp)) :
    constructObj st props = .panic ↔
      (∃ kp, kp ∈ props ∧ defaultOK kp.2.rules = false) ∨ (∃ kp, kp ∈ props ∧ fieldFor st kp.1 = none) := by
  unfold constructObj
  rcases defaultsOf_ok_or_panic (rulesOf props) with ⟨ds, hd⟩ | hd
  · have hnd : ¬ ∃ kp, kp ∈ props ∧ defaultOK kp.2.rules = false := by
      intro ⟨kp, hkp, hb⟩
      have := (defaultsOf_panic_iff (rulesOf props)).mpr ⟨(kp.1, kp.2.rules), List.mem_map.mpr ⟨kp, hkp, rfl⟩, hb⟩
      rw [hd] at this; cases this
    rw [hd]
    simp only [Out.bind]
    constructor
    · intro h
      right
      split at h
      · cases h
      · rename_i hall
        apply Classical.byContradiction
        intro hne
        apply hall
        apply List.all_eq_true.mpr
        intro kp hkp
        cases hf : fieldFor st kp.1 with
        | none => exact absurd ⟨kp, hkp, hf⟩ hne
        | some f => rfl
    · intro h
      rcases h with h | ⟨kp, hkp, hn⟩
      · exact absurd h hnd
      · have : ¬ props.all (fun kp => (fieldFor st kp.1).isSome) = true := by
          intro hall
          have := (List.all_eq_true.mp hall) kp hkp
          simp [hn] at this
        simp [this]
  · rw [hd]
    simp only [Out.bind, true_iff]
    left
    obtain ⟨kp, hkp, hb⟩ := (defaultsOf_panic_iff (rulesOf props)).mp hd
    obtain ⟨kp', hkp', rfl⟩ := List.mem_map.mp hkp
    exact ⟨kp', hkp', hb⟩

/-- Construction either succeeds or panics (it reports no error). -/
theorem C04_struct_construct_total (st : StructTy) (props : List (String × SProp)) :
    constructObj st props = .ok () ∨ constructObj st props = .panic := by
  unfold constructObj
  rcases defaultsOf_ok_or_panic (rulesOf props) with ⟨ds, hd⟩ | hd
  · rw [hd]; simp only [Out.bind]; split <;> simp
  · rw [hd]; simp [Out.bind]

/-- **A property on an unexported field**: Unserialize of an input that sets it is an error at that
    key (`reflect.Value.Set` panics, and `unserializeToStruct` recovers) ... -/
theorem C04_struct_unexported_unserialize_err (st : StructTy) (props : List (String × SProp)) (k : String) (v : SV)
    (rest acc : List (String × SV)) (f : Field) (p : SProp) (hf : fieldFor st k = some f) (hp : lookupS k props = some p)
    (hexp : f.exported = false) : toStructGo st props ((k, v) :: rest) acc = .cerrAt [k] := by
  simp [toStructGo, hf, hp, hexp]

/-- ... while Validate and Serialize of EVERY value of the struct type panic
    (`reflect.Value.Interface` on an unexported field), unless the field is a nil pointer. -/
theorem C04_struct_unexported_panics (st : StructTy) (props : List (String × SProp)) (fs : List (String × SV))
    (hall : ∀ kp, kp ∈ props → ∃ f fv, fieldFor st kp.1 = some f ∧ lookupS f.name fs = some fv)
    (kp : String × SProp) (hkp : kp ∈ props) (f : Field) (fv : SV) (hf : fieldFor st kp.1 = some f)
    (hfv : lookupS f.name fs = some fv) (hexp : f.exported = false) (hnil : fv.isNilPtr = false) :
    fromStruct st props fs = .panic := by
  have hpanic : readProp st fs kp.1 kp.2 = .panic := by
    simp [readProp, hf, hfv, readField, hnil, hexp]
  rcases fromStruct_outcomes st fs props with ⟨raw, h⟩ | h | h
  · obtain ⟨hok, _⟩ := (fromStruct_ok_iff st fs props raw).mp h
    obtain ⟨o, ho⟩ := hok kp hkp
    rw [hpanic] at ho; cases ho
  · exact h
  · -- an error would need a missing field
    exfalso
    have key : ∀ (ps : List (String × SProp)), (∀ kp, kp ∈ ps → ∃ f fv, fieldFor st kp.1 = some f ∧ lookupS f.name fs = some fv) →
        fromStruct st ps fs ≠ .cerr := by
      intro ps
      induction ps with
      | nil => intro _ h; simp [fromStruct, Out.cerr] at h
      | cons a rest ih =>
        intro hps hc
        obtain ⟨g, gv, hg, hgv⟩ := hps a (List.mem_cons_self ..)
        obtain ⟨ak, ap⟩ := a
        rw [fromStruct_cons] at hc
        simp only [readProp, hg, hgv] at hc
        have hrf : (∃ o, readField g (reflTy ap.ty) ap.disabled ap.emptyIsDefault gv = .ok o) ∨
            readField g (reflTy ap.ty) ap.disabled ap.emptyIsDefault gv = .panic := by
          unfold readField
          split
          · simp
          · split
            · simp
            · split
              · simp
              · split
                · simp
                · split
                  · unfold emptyLike
                    split
                    · simp [Out.bind]
                    · split
                      · simp [Out.bind]
                      · split <;> simp [Out.bind]
                  · simp
        rcases hrf with ⟨o, ho⟩ | ho
        · rw [ho] at hc
          simp only [Out.bind] at hc
          have := ih (fun kp hkp => hps kp (List.mem_cons_of_mem _ hkp))
          cases hr : fromStruct st rest fs with
          | ok m => rw [hr] at hc; simp [Out.cerr] at hc
          | err e => rw [hr] at hc; simp only [Out.cerr] at hc this; exact this (by rw [hr]; exact hc)
          | panic => rw [hr] at hc; simp [Out.cerr] at hc
          | fuel => rw [hr] at hc; simp [Out.cerr] at hc
        · rw [ho] at hc; simp [Out.bind, Out.cerr] at hc
    exact key props hall h

/-- **A default that is not a map** under a non-pointer struct-mapped sub-object (its
    single-property shorthand, null, a list, a number) is left as it is by
    `applySubObjectDefaultValues` - nothing is merged into it, nothing panics (as repaired in
    79a33d2; before, the unchecked type assertion `existingData.(map[string]any)` panicked whenever
    the property was absent). The property's own Unserialize then judges the value. -/
theorem C04_struct_default_not_map_unchanged (fuel : Nat) (id : String) (st : StructTy) (sub : List (String × SProp))
    (d : V) (hnm : existingMap (some d) = none) :
    subDefS (fuel + 1) (.obj id st false sub) (some d) = .ok (some d) := by
  simp [subDefS, hnm]

/-- **A sub-object behind a pointer (or interface) field stays nil when it is not given** (as
    repaired in 177d942; before, a non-pointer `T` on a field `*T` was synthesized from the defaults
    below it, and a recursive struct type never stopped): an absent property without a default of
    its own that is mapped to such a field adds nothing to the converted map, whatever defaults its
    sub-object declares. -/
theorem C03_struct_pointer_field_stays_nil (st : StructTy) (fuel : Nat) (k : String) (p : SProp)
    (rest : List (String × SProp)) (m : List (String × V)) (hs : fieldSkips st k = true)
    (hd : p.rules.defaultV = none) (hk : hasKey k m = false) :
    applyDefaultsS st fuel ((k, p) :: rest) m = applyDefaultsS st fuel rest m := by
  simp [applyDefaultsS, hk, hd, hs, Out.bind]

/-- **No default, of whatever shape, makes the sub-object defaults panic** on a well-formed tree:
    well-formedness asks nothing of the values of defaults beyond that they decode. -/
theorem C04_struct_subdefaults_no_panic (n : Nat) (t : STy) (e : Option V) (hwf : WFS t) :
    subDefS n t e ≠ .panic :=
  np_subDefS n t e hwf

/-- The parent's declared default wins over the sub-object's own defaults key by key (as repaired
    in 985c8c1): a key the data already has is kept by `overlay`. -/
theorem C03_struct_parent_default_kept : ∀ (defs data : List (String × V)) (k : String) (v : V),
    lookupS k data = some v → lookupS k (overlay data defs) = some v
  | [], _, _, _, h => h
  | (k', v') :: rest, data, k, v, h => by
    simp only [overlay]
    apply C03_struct_parent_default_kept rest
    split
    · exact h
    · rename_i hk
      have hne : k ≠ k' := by
        intro e; subst e
        simp [hasKey, h] at hk
      have key : ∀ (d : List (String × V)), lookupS k (setKey k' v' d) = lookupS k d := by
        intro d
        induction d with
        | nil => simp [setKey, lookupS_cons, hne]
        | cons a r ih =>
          obtain ⟨ak, av⟩ := a
          simp only [setKey]
          split
          · rename_i hak
            have : k' = ak := by simpa using hak
            subst this
            simp [lookupS_cons, hne]
          · simp only [lookupS_cons]; rw [ih]
      rw [key]; exact h

/-- **Treat-empty-as-default on a field whose type the property's zero value does not convert to**:
    Validate and Serialize panic whenever the field holds a (non-nil) value. -/
theorem C04_struct_empty_unconvertible_panics (f : Field) (src : GoTy) (fv : SV) (hexp : f.exported = true)
    (hconv : convOK (elemTy f.ty src) src = false) (hnil : fv.isNilPtr = false)
    (hni : (fieldValue f.ty src fv).isNilIface = false) : readField f src false true fv = .panic := by
  simp [readField, hnil, hexp, hni, emptyLike, hconv, Out.bind]

/-! ### non-vacuity: a non-trivial well-formed, exactly typed instance, and the documented oddities -/

namespace Example

/-- `type Inner struct { Level int64 `json:"level"`; Tag string `json:"tag"`; P *string `json:"p,omitempty"` }` -/
def stInner : StructTy := ⟨"Inner", [
  ⟨"Level", "level", true, .int .int64, .val (.int .int64 0)⟩,
  ⟨"Tag", "tag", true, .str, .val (.str "")⟩,
  ⟨"P", "p,omitempty", true, .ptr .str, .nilPtr⟩]⟩

def zeroInner : SV := .struct "Inner" [("Level", .val (.int .int64 0)), ("Tag", .val (.str "")), ("P", .nilPtr)]

/-- a struct with a nested struct by value and by pointer, a pointer, a value, an `any`, a slice, a
    field without tag and an unexported field that no property uses -/
def stMid : StructTy := ⟨"Mid", [
  ⟨"Inner", "inner", true, .struct "Inner", zeroInner⟩,
  ⟨"InnerP", "innerp", true, .ptr (.struct "Inner"), .nilPtr⟩,
  ⟨"Note", "note,omitempty", true, .ptr .str, .nilPtr⟩,
  ⟨"Flag", "", true, .bool, .val (.bool false)⟩,
  ⟨"Any", "any", true, .iface, .val .nil⟩,
  ⟨"Items", "items", true, .slice .str, .nilSlice⟩,
  ⟨"hidden", "", false, .int .int64, .val (.int .int64 0)⟩]⟩

def innerProps : List (String × SProp) := [
  ("level", .mk (.leaf (.int none (some 100) none)) false [] [] [] (some ⟨some (.float .f64 0x401C000000000000), none⟩) false false),
  ("tag", .mk (.leaf (.str none none none)) false ["p"] [] [] none false true),
  ("p", .mk (.leaf (.str none none none)) false [] [] [] none false false)]

def innerObj : STy := .obj "Inner" stInner false innerProps

def midProps : List (String × SProp) := [
  ("inner", .mk innerObj false [] [] [] (some ⟨some (toStrAny [("tag", .str "t")]), none⟩) false false),
  ("innerp", .mk innerObj false [] [] [] none false false),
  ("note", .mk (.leaf (.str (some 1) none none)) false [] [] ["Flag"] none false false),
  ("Flag", .mk (.leaf .bool) false [] [] [] none false true),
  ("any", .mk (.leaf .any) false [] [] [] none false false),
  ("items", .mk (.leaf (.list (.str none none none) none none)) true [] [] [] none false false)]

def midObj : STy := .scope (.obj "Mid" stMid false midProps)

/-- the instance passes the decidable check ... -/
example : wfSB 4 midObj = true := by decide +kernel
/-- ... hence is well-formed, hence never panics -/
example (x : Ext) (fuel : Nat) (op : SOp) (s : SV) : caseRun x fuel op midObj s ≠ .panic :=
  C04_struct_case_no_panic x fuel op midObj s (wfSB_sound 4 midObj (by decide +kernel))
example : WFObj stMid midProps := (wfObjB_iff _ _).mp (by decide +kernel)
example : exactObjB stMid midProps = true := by decide +kernel
example : WFObj stInner innerProps := (wfObjB_iff _ _).mp (by decide +kernel)
example : exactObjB stInner innerProps = true := by decide +kernel

/-- map -> struct -> map on the instance: `tag` is treat-empty-as-default, so the absent tag stays
    absent although its field holds ""; `p` sits behind a fresh pointer -/
example : toStruct stInner innerProps [("level", .val (.int .int64 5)), ("p", .val (.str "x"))] =
    .ok [("Level", .val (.int .int64 5)), ("Tag", .val (.str "")), ("P", .ptr (.val (.str "x")))] := by rfl
example : fromStruct stInner innerProps [("Level", .val (.int .int64 5)), ("Tag", .val (.str "")), ("P", .ptr (.val (.str "x")))] =
    .ok [("level", .val (.int .int64 5)), ("p", .val (.str "x"))] := by rfl
/-- the loss: an absent `level` (a plain int64 field) reads back as 0 -/
example : fromStruct stInner innerProps [("Level", .val (.int .int64 0)), ("Tag", .val (.str "")), ("P", .nilPtr)] =
    .ok [("level", .val (.int .int64 0))] := by rfl

/-- clashing json tags: "x" names two fields and no field is called x - the constructor panics;
    "Y" is the tag of field Z (and the name of field Y): the tag wins -/
def stDup : StructTy := ⟨"Dup", [
  ⟨"A", "x", true, .str, .val (.str "")⟩, ⟨"B", "x", true, .str, .val (.str "")⟩,
  ⟨"X", "", true, .str, .val (.str "")⟩,
  ⟨"Y", "y", true, .int .int64, .val (.int .int64 0)⟩, ⟨"Z", "Y", true, .int .int64, .val (.int .int64 0)⟩]⟩
example : (fieldFor stDup "x").map (·.name) = none := by decide +kernel
example : (fieldFor stDup "Y").map (·.name) = some "Z" := by decide +kernel
example : (fieldFor stDup "y").map (·.name) = some "Y" := by decide +kernel
example : (fieldFor stDup "X").map (·.name) = some "X" := by decide +kernel
example : constructObj stDup [("x", .mk (.leaf (.str none none none)) false [] [] [] none false false)] = .panic := by rfl

/-- the parent's default for the sub-object (level 5) is kept; the sub-object's own default (level 7)
    fills in only when the parent's default does not name the key -/
example : subDefS 3 innerObj (some (toStrAny [("level", .float .f64 0x4014000000000000)])) =
    .ok (some (toStrAny [("level", .float .f64 0x4014000000000000)])) := by rfl
example : subDefS 3 innerObj (some (toStrAny [("tag", .str "t")])) =
    .ok (some (toStrAny [("tag", .str "t"), ("level", .float .f64 0x401C000000000000)])) := by rfl
/-- `inner` (by value) is filled in from its default and the sub-object's defaults; `innerp` (the same
    sub-object on a `*Inner` field) stays absent -/
example : applyDefaultsS stMid 3 midProps [] =
    .ok [("inner", toStrAny [("tag", .str "t"), ("level", .float .f64 0x401C000000000000)])] := by rfl
/-- a default that is not a map stays as it is -/
example : subDefS 3 innerObj (some (.float .f64 0x4014000000000000)) = .ok (some (.float .f64 0x4014000000000000)) := by rfl

end Example

end SM
end Arca
