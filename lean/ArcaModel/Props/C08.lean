import ArcaModel.Model.AtpClient
import ArcaModel.Lemmas.AtpClient
import ArcaModel.Props.C06
/-
  C08  A dead stream releases every Execute with an error; results are never fabricated;
  ReadSchema and Close return.
-/
namespace Arca.AtpClient

/-! traces used by the non-vacuity examples -/

/-- the stream dies (garbage) while Execute 1 waits -/
def trDead : List Label :=
  hs3 ++ [.call 1 1 false false, .cRegister 1 (some 10), .cSend 1 true, .envPut .garbage, .lRead 10,
    .lDeliver 10]

/-- the stream is already dead (end of file) when Execute 1 registers -/
def trLate : List Label := hs3 ++ [.envPut .eof, .call 1 1 false false, .cRegister 1 (some 10)]

/-! ### (7) fan-out of a decode error -/

/-- C08 (7): when the loop handles a decode error, every entry gets the error result, the flag is
    cleared and the loop is gone, all in the same critical section. -/
theorem C08_fanout {s s' : State} {l : Tid} (hr : Reachable s) (h : Step s (.lDeliver l) s')
    (hl : s.loops.lookup l = some (.handle none)) :
    anyPending s'.entries = false ∧ (∀ r e, (r, e) ∈ s'.entries → e = .result .err) ∧
    s'.flag = false ∧ s'.loops.lookup l = none ∧ s'.loops = [] ∧ keys s'.entries = keys s.entries := by
  have hL := eq_singleton_of_lookup (invA_of_reachable hr).len hl
  simp only [Step, step?, stepG, Label.owner, stepLoop, hl, Bool.false_eq_true, if_false] at h
  cases h
  refine ⟨anyPending_failAll _, fun r e h => mem_failAll h, rfl, lookup_delT_self _ _, ?_, keys_failAll _⟩
  simp [hL, delT]

/- non-vacuity: a concrete instance of the hypotheses of `C08_fanout` -/
example : Reachable (stateAt (trDead.take 11)) ∧
    Step (stateAt (trDead.take 11)) (.lDeliver 10) (stateAt trDead) ∧
    (stateAt (trDead.take 11)).loops.lookup 10 = some (.handle none) :=
  ⟨reachable_stateAt _, by decide, by decide⟩

/-! ### (8) a dead stream stays dead -/

/-- the head of the server-to-client stream is a fault the decoder reports on every call -/
def deadStream (s : State) : Prop := ∃ it rest, s.s2c = it :: rest ∧ it.sticky = true

theorem dead_stepRs {s s' : State} {l : Label} (hd : deadStream s) (h : stepRs s l = some s') :
    deadStream s' := by
  obtain ⟨it, rest, hs, hst⟩ := hd
  cases l <;> simp only [stepRs] at h <;> step_split h <;> (try exact ⟨it, rest, hs, hst⟩)
  all_goals (unfold deadStream; simp_all [Item.sticky]; try (obtain ⟨rfl, rfl⟩ := hs; simp at hst))

theorem dead_stepLoop {s s' : State} {l : Label} (hd : deadStream s) (h : stepLoop false s l = some s') :
    deadStream s' := by
  obtain ⟨it, rest, hs, hst⟩ := hd
  cases l <;> simp only [stepLoop, Bool.false_eq_true, if_false] at h <;> step_split h <;>
    (try exact ⟨it, rest, hs, hst⟩)
  all_goals (unfold deadStream; simp_all)

theorem dead_stepCaller {s s' : State} {l : Label} (hd : deadStream s) (h : stepCaller s l = some s') :
    deadStream s' := by
  obtain ⟨it, rest, hs, hst⟩ := hd
  cases l <;> simp only [stepCaller] at h <;> step_split h <;> (try exact ⟨it, rest, hs, hst⟩)
  all_goals (unfold deadStream; simp_all [Item.sticky]; try (obtain ⟨rfl, rfl⟩ := hs; simp at hst))

theorem dead_stepEnv {s s' : State} {l : Label} (hd : deadStream s) (h : stepEnv s l = some s') :
    deadStream s' := by
  obtain ⟨it, rest, hs, hst⟩ := hd
  cases l <;> simp only [stepEnv] at h <;> step_split h <;> (try exact ⟨it, rest, hs, hst⟩)
  all_goals exact ⟨it, _, by simp only [hs, List.cons_append]; rfl, hst⟩

/-- C08 (8): sticky faults are never consumed, so the stream stays dead whatever happens. -/
theorem C08_dead_stable {s s' : State} {l : Label} (hd : deadStream s) (h : Step s l s') :
    deadStream s' := by
  refine h.cases ?_ ?_ ?_ ?_ ?_ ?_ <;> intro _ h'
  · exact dead_stepRs hd h'
  · exact dead_stepCaller hd h'
  · exact dead_stepLoop hd h'
  · unfold deadStream; rw [(frame_stepWriter h').2.2.2.2.2.2.2.2.2.2.1]; exact hd
  · unfold deadStream; rw [(frame_stepCloser h').2.2.2.2.2.2.2.2.1]; exact hd
  · exact dead_stepEnv hd h'

/- non-vacuity: a concrete instance of the hypotheses of `C08_dead_stable` -/
example : deadStream (stateAt (trDead.take 10)) ∧
    Step (stateAt (trDead.take 10)) (.lRead 10) (stateAt (trDead.take 11)) :=
  ⟨⟨.garbage, [], by decide, rfl⟩, by decide⟩

/-! ### (10) no fabricated results -/

structure InvF (s : State) : Prop where
  ent : ∀ r x, s.entries.lookup r = some (.result (.ok x)) → (r, x) ∈ s.consumed
  cal : ∀ c k x, s.callers.lookup c = some k → k.pc = .returned (.ok x) → (k.run, x) ∈ s.consumed
  lp : ∀ l r x, s.loops.lookup l = some (.handle (some (.workDone r (some x)))) → (r, x) ∈ s.consumed

theorem invF_stepLoop {s s' : State} {l : Label} (hi : InvF s) (h : stepLoop false s l = some s') :
    InvF s' := by
  obtain ⟨h1, h2, h3⟩ := hi
  cases l <;> simp only [stepLoop, Bool.false_eq_true, if_false] at h <;> step_split h
  all_goals
    constructor <;> simp only [lookup_failAll, setRes, lookup_setT, lookup_delT] <;> (try assumption)
  all_goals try simp only [map_const_eq_some]
  all_goals try grind
  all_goals try (intro a b hx; split at hx <;> (try simp only [map_const_eq_some] at hx) <;> grind)

theorem invF_stepCaller {s s' : State} {l : Label} (hi : InvF s) (h : stepCaller s l = some s') :
    InvF s' := by
  obtain ⟨h1, h2, h3⟩ := hi
  cases l <;> simp only [stepCaller] at h <;> step_split h
  all_goals
    constructor <;> simp only [lookup_setT, lookup_delT, lookup_append_single] <;> (try assumption)
  all_goals try simp only [map_const_eq_some]
  all_goals try grind
  all_goals try (simp only [Option.or_eq_some_iff]; grind)

theorem InvF.congr {s s' : State} (hi : InvF s) (he : s'.entries = s.entries)
    (hc : s'.callers = s.callers) (hl : s'.loops = s.loops) (hk : s'.consumed = s.consumed) : InvF s' := by
  obtain ⟨h1, h2, h3⟩ := hi
  constructor
  · rw [he, hk]; exact h1
  · rw [hc, hk]; exact h2
  · rw [hl, hk]; exact h3

theorem invF_step {s s' : State} {l : Label} (hi : InvF s) (h : Step s l s') : InvF s' := by
  refine h.cases ?_ ?_ ?_ ?_ ?_ ?_ <;> intro _ h'
  · have f := frame_stepRs h'
    exact hi.congr f.1 f.2.2.2.2.2.2.1 f.2.2.2.2.2.1 f.2.2.2.2.2.2.2.2.2.2.1
  · exact invF_stepCaller hi h'
  · exact invF_stepLoop hi h'
  · have f := frame_stepWriter h'
    exact hi.congr f.2.1 f.2.2.2.2.2.2.2.1 f.2.2.2.2.2.2.1 f.2.2.2.2.2.2.2.2.2.2.2.2.1
  · have f := frame_stepCloser h'
    exact hi.congr f.2.1 f.2.2.2.2.2.1 f.2.2.2.2.1 f.2.2.2.2.2.2.2.2.2.2.1
  · have f := frame_stepEnv h'
    exact hi.congr f.2.1 f.2.2.2.2.2.2.2.1 f.2.2.2.2.2.2.1 f.2.2.2.2.2.2.2.2.2.2.2.1

theorem invF_of_reachable {s : State} (h : Reachable s) : InvF s := by
  induction h with
  | init => constructor <;> simp [init]
  | step _ hs ih => exact invF_step ih hs

/-- C08 (10): no result is fabricated: every success result in the table, in a returning Execute and
    in the hands of the loop is a work-done item that was actually read from the stream. -/
theorem C08_no_fabrication {s : State} (h : Reachable s) :
    (∀ r x, s.entries.lookup r = some (.result (.ok x)) → (r, x) ∈ s.consumed) ∧
    (∀ c k x, s.callers.lookup c = some k → k.pc = .returned (.ok x) → (k.run, x) ∈ s.consumed) ∧
    (∀ l r x, s.loops.lookup l = some (.handle (some (.workDone r (some x)))) → (r, x) ∈ s.consumed) :=
  let hi := invF_of_reachable h
  ⟨hi.ent, hi.cal, hi.lp⟩

/- non-vacuity: a concrete instance of the hypotheses of `C08_no_fabrication` -/
example : Reachable (stateAt (repairedTrace.take 13)) ∧
    (stateAt (repairedTrace.take 13)).entries.lookup 1 = some (.result (.ok 7)) ∧
    (1, 7) ∈ (stateAt (repairedTrace.take 13)).consumed :=
  ⟨reachable_stateAt _, by decide, by decide⟩

/-- C08 (10): `consumed` only grows by reading an intact work-done item from the head of the stream
    (the read loop for ATP v3, the caller itself for ATP v1). -/
theorem C08_consumed_intact {s s' : State} {l : Label} {p : Run × Nat} (h : Step s l s')
    (h1 : p ∈ s'.consumed) (h0 : p ∉ s.consumed) :
    (∃ t rest, l = .lRead t ∧ s.s2c = .msg (.workDone p.1 (some p.2)) :: rest) ∨
    (∃ c k rest, l = .cReadV1 c ∧ s.callers.lookup c = some k ∧ k.pc = .sentV1 ∧ k.run = p.1 ∧
      s.s2c = .v1done p.2 :: rest) := by
  refine h.cases ?_ ?_ ?_ ?_ ?_ ?_ <;> intro _ h'
  · rw [(frame_stepRs h').2.2.2.2.2.2.2.2.2.2.1] at h1; exact absurd h1 h0
  · cases l <;> simp only [stepCaller] at h' <;> step_split h' <;> (try exact absurd h1 h0)
    all_goals simp only [List.mem_append, List.mem_singleton] at h1
    all_goals grind
  · cases l <;> simp only [stepLoop, Bool.false_eq_true, if_false] at h' <;> step_split h' <;>
      (try exact absurd h1 h0)
    simp only at h1
    split at h1
    · simp only [List.mem_append, List.mem_singleton] at h1
      grind
    · exact absurd h1 h0
  · rw [(frame_stepWriter h').2.2.2.2.2.2.2.2.2.2.2.2.1] at h1; exact absurd h1 h0
  · rw [(frame_stepCloser h').2.2.2.2.2.2.2.2.2.2.1] at h1; exact absurd h1 h0
  · rw [(frame_stepEnv h').2.2.2.2.2.2.2.2.2.2.2.1] at h1; exact absurd h1 h0

/- non-vacuity: a concrete instance of the hypotheses of `C08_consumed_intact` -/
example : Step (stateAt (repairedTrace.take 11)) (.lRead 10) (stateAt (repairedTrace.take 12)) ∧
    (1, 7) ∈ (stateAt (repairedTrace.take 12)).consumed ∧
    (1, 7) ∉ (stateAt (repairedTrace.take 11)).consumed := by decide

/-! ### (11), (12) ReadSchema and Close -/

/-- C08 (11): ReadSchema reports success only for a hello message with a supported version and a
    decodable schema. -/
theorem C08_readschema {s s' : State} (h : Step s .rsRead s') (hr : s'.rs = .returned true) :
    ∃ v rest, s.s2c = .hello v true :: rest ∧ (v = 1 ∨ v = 3) ∧ s'.ver = v := by
  simp only [Step, step?, stepG, Label.owner, stepRs] at h
  step_split h <;> simp at hr
  all_goals grind

/- non-vacuity: a concrete instance of the hypotheses of `C08_readschema` -/
example : Step (stateAt (hs3.take 4)) .rsRead (stateAt (hs3.take 5)) ∧
    (stateAt (hs3.take 5)).rs = .returned true := by decide

/-- C08 (12): after a failed client-done write, Close returns (when the goroutines are gone, or by the
    graceful timeout while some remain). -/
theorem C08_close_returns {s : State} (h : s.closer = .failed) :
    (∃ s', Step s .clRet s' ∧ s'.closer = .returned false) ∨
    (∃ s', Step s .clTimeout s' ∧ s'.closer = .returned false) := by
  cases hw : wgZero s
  · right; exact ⟨{ s with closer := .returned false },
      by simp [Step, step?, stepG, Label.owner, stepCloser, h, hw], rfl⟩
  · left; exact ⟨{ s with closer := .returned false },
      by simp [Step, step?, stepG, Label.owner, stepCloser, h, hw], rfl⟩

/- non-vacuity: a concrete instance of the hypotheses of `C08_close_returns` -/
example : (stateAt (hs3 ++ [.clCall, .clCancel, .clMark, .clSend false])).closer = .failed := by decide

/-! ### (9) on a dead stream every pending Execute is released -/

theorem deadStream_of_s2c {s s' : State} (hd : deadStream s) (h : s'.s2c = s.s2c) : deadStream s' := by
  unfold deadStream; rw [h]; exact hd

/-- one step: a loop holding a decode error fails every entry -/
theorem release_handleNone {s : State} {t : Tid} (hl : s.loops.lookup t = some (.handle none)) :
    ∃ s', run s [.lDeliver t] = some s' ∧ anyPending s'.entries = false ∧
      keys s'.entries = keys s.entries := by
  refine ⟨_, run_cons (by simp only [step?, stepG, Label.owner, stepLoop, hl]; rfl) (run_nil _), ?_, ?_⟩
  · exact anyPending_failAll _
  · exact keys_failAll _

/-- two steps: a loop about to decode reads the sticky fault and fails every entry -/
theorem release_decode {s : State} {t : Tid} (hd : deadStream s)
    (hl : s.loops.lookup t = some .decode) :
    ∃ s', run s [.lRead t, .lDeliver t] = some s' ∧ anyPending s'.entries = false ∧
      keys s'.entries = keys s.entries := by
  obtain ⟨it, rest, hs, hst⟩ := hd
  have hne : ∀ m, it ≠ .msg m := by intro m e; subst e; simp [Item.sticky] at hst
  have h1 : step? s (.lRead t) = some { s with loops := setT s.loops t (.handle none) } := by
    simp only [step?, stepG, Label.owner, stepLoop, hl, hs, hst, if_true]
    cases it <;> simp [Item.sticky] at hst <;> simp
  obtain ⟨s', hr, hp, hk⟩ := release_handleNone (s := { s with loops := setT s.loops t (.handle none) })
    (t := t) (by simp only [lookup_setT_self, hl]; rfl)
  exact ⟨s', run_cons h1 hr, hp, hk⟩

/-- three steps from `check` -/
theorem release_check {s : State} {t : Tid} (hd : deadStream s) (hp : anyPending s.entries = true)
    (hl : s.loops.lookup t = some .check) :
    ∃ s', run s [.lCheck t, .lRead t, .lDeliver t] = some s' ∧ anyPending s'.entries = false ∧
      keys s'.entries = keys s.entries := by
  have h1 : step? s (.lCheck t) = some { s with loops := setT s.loops t .decode } := by
    simp only [step?, stepG, Label.owner, stepLoop, hl, hp, if_true]
  obtain ⟨s', hr, hp', hk⟩ := release_decode (s := { s with loops := setT s.loops t .decode }) (t := t)
    (deadStream_of_s2c hd rfl) (by simp only [lookup_setT_self, hl]; rfl)
  exact ⟨s', run_cons h1 hr, hp', hk⟩

/-- delivering a message either fails everything or leads to `check`; the stream is not touched
    and no entry is added or removed -/
theorem deliver_some {s : State} {t : Tid} {m : Msg} (hl : s.loops.lookup t = some (.handle (some m))) :
    ∃ s1, step? s (.lDeliver t) = some s1 ∧ s1.s2c = s.s2c ∧ keys s1.entries = keys s.entries ∧
      (anyPending s1.entries = false ∨ s1.loops.lookup t = some .check) := by
  have hc : (setT s.loops t LPc.check).lookup t = some .check := by
    simp only [lookup_setT_self, hl]; rfl
  simp only [step?, stepG, Label.owner, stepLoop, hl, Bool.false_eq_true, if_false]
  cases m with
  | workDone r x => exact ⟨_, rfl, rfl, keys_setRes _ _ _, Or.inr hc⟩
  | signal r g => exact ⟨_, rfl, rfl, rfl, Or.inr hc⟩
  | unknown r => exact ⟨_, rfl, rfl, rfl, Or.inr hc⟩
  | error r sf vf =>
    simp only
    split
    · exact ⟨_, rfl, rfl, keys_failAll _, Or.inl (anyPending_failAll _)⟩
    · split
      · split
        · exact ⟨_, rfl, rfl, keys_failAll _, Or.inl (anyPending_failAll _)⟩
        · exact ⟨_, rfl, rfl, keys_setRes _ _ _, Or.inr hc⟩
      · exact ⟨_, rfl, rfl, rfl, Or.inr hc⟩

/-- C08 (9): on a dead stream the existing read loop (there is one, by C06_inv) releases EVERY pending
    entry within its next at most four own steps, whatever it was doing.  Together with
    `C08_dead_stable` (the stream stays dead) and `C06_inv` (a pending entry always has a loop) this
    covers every Execute that registers later as well: see `C08_later_execute`. -/
theorem C08_all_released {s : State} (hr : Reachable s) (hd : deadStream s)
    (hp : anyPending s.entries = true) :
    ∃ ls s', ls.length ≤ 4 ∧ (∀ l ∈ ls, l.owner = .loop) ∧ run s ls = some s' ∧
      anyPending s'.entries = false ∧ keys s'.entries = keys s.entries := by
  obtain ⟨t, pc, hL⟩ := C06_pending_has_loop hr hp
  have hl : s.loops.lookup t = some pc := by rw [hL, lookup_cons']; simp
  cases pc with
  | decode =>
    obtain ⟨s', h1, h2, h3⟩ := release_decode hd hl
    exact ⟨_, s', by simp, by simp [Label.owner], h1, h2, h3⟩
  | check =>
    obtain ⟨s', h1, h2, h3⟩ := release_check hd hp hl
    exact ⟨_, s', by simp, by simp [Label.owner], h1, h2, h3⟩
  | exiting => exact absurd hl (C06_no_exiting hr t)
  | handle om =>
    cases om with
    | none =>
      obtain ⟨s', h1, h2, h3⟩ := release_handleNone hl
      exact ⟨_, s', by simp, by simp [Label.owner], h1, h2, h3⟩
    | some m =>
      obtain ⟨s1, hs1, hs2c, hk1, hor⟩ := deliver_some hl
      rcases hor with hnp | hck
      · exact ⟨[.lDeliver t], s1, by simp, by simp [Label.owner], run_cons hs1 (run_nil _), hnp, hk1⟩
      · cases hp1 : anyPending s1.entries with
        | false =>
          exact ⟨[.lDeliver t], s1, by simp, by simp [Label.owner], run_cons hs1 (run_nil _), hp1, hk1⟩
        | true =>
          obtain ⟨s', h1, h2, h3⟩ := release_check (deadStream_of_s2c hd hs2c) hp1 hck
          exact ⟨_, s', by simp, by simp [Label.owner], run_cons hs1 h1, h2, h3.trans hk1⟩

/- non-vacuity: a concrete instance of the hypotheses of `C08_all_released` -/
example : Reachable (stateAt (trDead.take 10)) ∧ deadStream (stateAt (trDead.take 10)) ∧
    anyPending (stateAt (trDead.take 10)).entries = true :=
  ⟨reachable_stateAt _, ⟨.garbage, [], by decide, rfl⟩, by decide⟩

/-- a released caller can take its result -/
theorem C08_caller_released {s : State} {c : Tid} {k : Caller} {v : Res}
    (hk : s.callers.lookup c = some k) (hpc : k.pc = .sent ∨ k.pc = .waiting)
    (he : s.entries.lookup k.run = some (.result v)) :
    ∃ s' k', Step s (.cTake c) s' ∧ s'.callers.lookup c = some k' ∧ k'.pc = .returned v := by
  refine ⟨{ s with entries := delT s.entries k.run,
                   callers := setT s.callers c { k with pc := .returned v } },
    { k with pc := .returned v }, ?_, ?_, rfl⟩
  · simp only [Step, step?, stepG, Label.owner, stepCaller, hk, hpc, he, if_true]
  · simp only [lookup_setT_self, hk]; rfl

/- non-vacuity: a concrete instance of the hypotheses of `C08_caller_released` -/
example : (stateAt trDead).callers.lookup 1 = some ⟨1, false, false, .sent⟩ ∧
    (stateAt trDead).entries.lookup 1 = some (.result .err) := by decide

theorem entry_result_of_not_pending {es : List (Run × Entry)} {r : Run} (hk : r ∈ keys es)
    (hp : anyPending es = false) : ∃ v, es.lookup r = some (.result v) := by
  cases h : es.lookup r with
  | none => exact absurd hk (lookup_eq_none_iff'.1 h)
  | some e =>
    cases e with
    | pending => rw [anyPending_of_lookup h] at hp; cases hp
    | result v => exact ⟨v, rfl⟩

/-- C08 (9), corollary: an Execute that registers AFTER the stream died (fresh run ID, client not closed) is released as
    well: registering makes its entry pending, so by `C06_inv` a loop exists (the running one, or the
    one this very step starts), the stream is still dead (`C08_dead_stable`), and that loop's next at
    most four steps turn the new entry into a result, which the caller can then take. -/
theorem C08_later_execute {s s1 : State} {c : Tid} {lo : Option Tid} {k : Caller}
    (hr : Reachable s) (hd : deadStream s) (hst : Step s (.cRegister c lo) s1)
    (hk : s.callers.lookup c = some k) (hf : hasKey s.entries k.run = false)
    (hnd : s.done = false) :
    ∃ ls s', ls.length ≤ 4 ∧ (∀ l ∈ ls, l.owner = .loop) ∧ run s1 ls = some s' ∧
      anyPending s'.entries = false ∧ ∃ v, s'.entries.lookup k.run = some (.result v) := by
  have he : s1.entries = s.entries ++ [(k.run, .pending)] := by
    have h := hst
    simp only [Step, step?, stepG, Label.owner, stepCaller, hk, hf, hnd] at h
    step_split h <;> rfl
  have hp : anyPending s1.entries = true := by rw [he]; exact anyPending_append_pending _ _
  obtain ⟨ls, s', h1, h2, h3, h4, h5⟩ :=
    C08_all_released (.step hr hst) (C08_dead_stable hd hst) hp
  refine ⟨ls, s', h1, h2, h3, h4, entry_result_of_not_pending ?_ h4⟩
  rw [h5, he]; simp

/- non-vacuity: a concrete instance of the hypotheses of `C08_later_execute` -/
example : Reachable (stateAt (trLate.take 8)) ∧ deadStream (stateAt (trLate.take 8)) ∧
    Step (stateAt (trLate.take 8)) (.cRegister 1 (some 10)) (stateAt trLate) ∧
    (stateAt (trLate.take 8)).callers.lookup 1 = some ⟨1, false, false, .start false⟩ ∧
    hasKey (stateAt (trLate.take 8)).entries 1 = false ∧ (stateAt (trLate.take 8)).done = false :=
  ⟨reachable_stateAt _, ⟨.eof, [], by decide, rfl⟩, by decide, by decide, by decide, by decide⟩

/-! ### a frame that does not decode strictly as work-done never yields a success

  Since commit 1454f2e the client decodes the payload of a work-done / signal / error frame with its
  strict decoder (an unknown field is an error).  A frame with message ID work-done whose payload
  belongs to another message type - what a single flipped ID byte turns a signal frame into - is
  therefore the item `.msg (.workDone r none)` (the harness classifies frames with the same strict
  decoder, harness/atpcs/wire.go `Classify`), and in the model such an item can only fail run `r`. -/

/-- Handling a work-done frame whose payload does not decode creates no success result, for no run:
    every `ok` entry after the step was there before it. -/
theorem C08_undecodable_done_no_success {s s' : State} {l : Tid} {r r' : Run} {x : Nat}
    (h : Step s (.lDeliver l) s')
    (hl : s.loops.lookup l = some (.handle (some (.workDone r none))))
    (h1 : s'.entries.lookup r' = some (.result (.ok x))) :
    s.entries.lookup r' = some (.result (.ok x)) := by
  apply Classical.byContradiction
  intro h0
  obtain ⟨t, ht, hlk⟩ := C06_set_from_same_run h h1 h0
  cases ht
  rw [hl] at hlk
  cases hlk

/-- REGRESSION WITNESS (type flip): Execute 1 waits, the server's frame for run 1 has ID work-done
    but a payload that is not a work-done message. -/
def trTypeFlip : List Label :=
  [.rsCall, .rsSend true, .sRecv, .envPut (.hello 3 true), .rsRead, .rsRet,
   .call 1 1 false false, .cRegister 1 (some 10), .cSend 1 true, .sRecv, .cWait 1,
   .envPut (.msg (.workDone 1 none)), .lRead 10, .lDeliver 10, .cTake 1]

/-- The run exists, Execute 1 ends with an ERROR, nothing was recorded as an intact work-done, and
    the history in which it returns any success is not a history of the model. -/
theorem C08_typeflip_witness :
    (run init trTypeFlip).isSome = true ∧
    (stateAt trTypeFlip).callers.lookup 1 = some ⟨1, false, false, .returned .err⟩ ∧
    (stateAt trTypeFlip).consumed = [] ∧
    (run init (trTypeFlip ++ [.cRet 1 .err])).isSome = true ∧
    run init (trTypeFlip ++ [.cRet 1 (.ok 0)]) = none := by decide

/- non-vacuity of `C08_undecodable_done_no_success`: the step of the witness is an instance -/
example : Step (stateAt (trTypeFlip.take 13)) (.lDeliver 10) (stateAt (trTypeFlip.take 14)) ∧
    (stateAt (trTypeFlip.take 13)).loops.lookup 10 = some (.handle (some (.workDone 1 none))) ∧
    (stateAt (trTypeFlip.take 14)).entries.lookup 1 = some (.result .err) := by decide

/-! ### axioms used -/

#print axioms C08_fanout
#print axioms C08_dead_stable
#print axioms C08_all_released
#print axioms C08_later_execute
#print axioms C08_caller_released
#print axioms C08_no_fabrication
#print axioms C08_consumed_intact
#print axioms C08_readschema
#print axioms C08_close_returns
#print axioms C08_undecodable_done_no_success
#print axioms C08_typeflip_witness

end Arca.AtpClient
