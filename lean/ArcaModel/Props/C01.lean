import ArcaModel.Lemmas.RoundTrip
import ArcaModel.Model.WFCheck
/-
  C01  Serialize and Unserialize are mutual inverses.

  Proved for every schema of the modelled kinds whose one-ofs do not inline the discriminator
  (`WF1`), every raw value and every externals: whatever Unserialize accepts passes Validate,
  serializes, and unserializing the serialized form yields the identical value, whose
  serialization is identical again. What is NOT covered by a theorem (hence `_partial`): one-ofs
  with an inlined discriminator, the CBOR leg (the encode/decode type normalisation), the typed
  entry points, struct-mapped objects. Those are covered by the correspondence run and the
  chain oracle of the check only.
-/
namespace Arca
open Out

/-- Unserialize ∘ Serialize is the identity on unserialized values; every unserialized value
    validates. -/
theorem C01_roundtrip_partial (x : Ext) (fuel : Nat) (env : Env) (t : Ty) (v r : V)
    (henv : EnvWF1 env) (hwf : WF1 env t) (h : run x fuel .U env t v = .ok r) :
    run x fuel .V env t r = done ∧
    ∃ w, run x fuel .S env t r = .ok w ∧ run x fuel .U env t w = .ok r :=
  (rt_aux x fuel env t henv hwf).1 v r h

/-- Serialize ∘ Unserialize is idempotent on wire forms: unserializing a serialized form and
    serializing again yields the identical wire form. -/
theorem C01_serialize_idempotent_partial (x : Ext) (fuel : Nat) (env : Env) (t : Ty) (v r w : V)
    (henv : EnvWF1 env) (hwf : WF1 env t) (h : run x fuel .U env t v = .ok r)
    (hs : run x fuel .S env t r = .ok w) :
    ∃ r', run x fuel .U env t w = .ok r' ∧ run x fuel .S env t r' = .ok w := by
  obtain ⟨_, w', hs', hu⟩ := C01_roundtrip_partial x fuel env t v r henv hwf h
  rw [hs] at hs'
  cases hs'
  exact ⟨r, hu, hs⟩

/-- closed schemas -/
theorem C01_roundtrip_closed_partial (x : Ext) (fuel : Nat) (t : Ty) (v r : V)
    (hwf : WF1 [] t) (h : run x fuel .U [] t v = .ok r) :
    run x fuel .V [] t r = done ∧ ∃ w, run x fuel .S [] t r = .ok w ∧ run x fuel .U [] t w = .ok r :=
  C01_roundtrip_partial x fuel [] t v r (by intro p hp; simp at hp) hwf h

/-! ### an executable check of `WF1`, for the non-vacuity example -/

def declaresB (env : Env) (disc : String) : Ty → Bool
  | .obj _ props => hasKey disc props
  | .ref id => match lookupS id env with
    | some (.obj _ ps) => hasKey disc ps
    | _ => false
  | .scope objs root => match lookupS root objs with
    | some (.obj _ ps) => hasKey disc ps
    | _ => false
  | _ => false

theorem declaresB_complete {env : Env} {disc : String} {t : Ty} (h : declaresB env disc t = false) :
    ¬ declares env disc t := by
  cases t <;> simp [declaresB] at h <;> simp [declares]
  · simpa using h
  · intro oid ps hl
    simpa [hl] using h
  · intro oid ps hl
    simpa [hl] using h

def wf1B : Nat → Env → Ty → Bool
  | 0, _, _ => false
  | n + 1, env, t =>
    match t with
    | .int _ _ _ | .float _ _ _ | .str _ _ _ | .bool | .pattern | .enumInt _ _ | .enumStr _ | .any => true
    | .list item _ _ => wf1B n env item
    | .map k v _ _ => wf1B n env k && wf1B n env v
    | .obj _ props => props.all fun np => wf1B n env np.2.ty
    | .oneOf _ d inl members => !inl && members.all fun m => wf1B n env m.2 && objLikeB env m.2 && !declaresB env d m.2
    | .ref id => (lookupS id env).isSome
    | .scope objs root => (lookupS root objs).isSome && objs.all fun p => wf1B n objs p.2

theorem wf1B_sound : ∀ (n : Nat) (env : Env) (t : Ty), wf1B n env t = true → WF1 env t
  | 0, _, _, h => by simp [wf1B] at h
  | n + 1, env, t, h => by
    have ih := wf1B_sound n
    cases t with
    | int => exact .int
    | float => exact .float
    | str => exact .str
    | bool => exact .bool
    | pattern => exact .pattern
    | enumInt => exact .enumInt
    | enumStr => exact .enumStr
    | any => exact .any
    | list item a b => exact .list (ih _ _ (by simpa [wf1B] using h))
    | map k v a b =>
      simp only [wf1B, Bool.and_eq_true] at h
      exact .map (ih _ _ h.1) (ih _ _ h.2)
    | obj id props =>
      simp only [wf1B, List.all_eq_true] at h
      exact .obj (fun np hnp => ih _ _ (h np hnp))
    | oneOf ik d inl members =>
      simp only [wf1B, List.all_eq_true, Bool.and_eq_true, Bool.not_eq_true'] at h
      obtain ⟨hinl, hm⟩ := h
      subst hinl
      exact .oneOf (fun m hmm => ih _ _ (hm m hmm).1.1) (fun m hmm => objLikeB_sound (hm m hmm).1.2)
        (fun m hmm => declaresB_complete (hm m hmm).2)
    | ref id =>
      simp only [wf1B] at h
      cases hl : lookupS id env with
      | none => simp [hl] at h
      | some o => exact .ref hl
    | scope objs root =>
      simp only [wf1B, Bool.and_eq_true, List.all_eq_true] at h
      cases hl : lookupS root objs with
      | none => simp [hl] at h
      | some o => exact .scope hl (fun p hp => ih _ _ (h.2 p hp))

/-- the nested example schema of C04 (scope, recursive references, a non-inlined one-of, defaults,
    all container kinds) satisfies the hypotheses -/
def c01Example : Ty :=
  .scope
    [("Root", .obj "Root"
        [("items", .mk (.list (.ref "Item") (some 0) (some 3)) true [] [] [] none false),
         ("choice", .mk (.oneOf false "kind" false [(.s "a", .ref "Item"), (.s "b", .obj "B" [])]) false [] [] [] none false),
         ("n", .mk (.int (some 0) (some 10) none) false [] [] [] (some ⟨some (.float .f64 0), none⟩) false),
         ("m", .mk (.map (.str none none none) .any none none) false [] [] [] none false)]),
     ("Item", .obj "Item" [("name", .mk (.str (some 1) none none) true [] [] [] none false),
                           ("next", .mk (.ref "Item") false [] [] [] none false)])]
    "Root"

example : WF1 [] c01Example := wf1B_sound 10 [] c01Example (by decide)

#print axioms C01_roundtrip_partial
#print axioms C01_serialize_idempotent_partial

end Arca
