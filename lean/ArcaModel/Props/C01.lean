import ArcaModel.Lemmas.RoundTrip
import ArcaModel.Lemmas.CborLeg
import ArcaModel.Model.WFCheck
/-
  C01  Serialize and Unserialize are mutual inverses.

  Proved for every schema of the modelled kinds (`WF1`), every raw value and every externals:
  whatever Unserialize accepts passes Validate, serializes, and unserializing the serialized form
  yields the identical value, whose serialization is identical again. One-ofs are covered in BOTH
  modes: discriminator not inlined (members must not declare the discriminator) and discriminator
  inlined (members must declare it with a type of the one-of's key kind) - in each mode `WF1` asks
  exactly what `ApplyNamespace` / `validateSubtypeDiscriminatorInlineFields` enforces by panicking,
  and nothing more (see the docstring of `WF1`; `C01_inlined_needs_key_kind` and
  `C01_inlined_needs_key_kind_int` below show that the key-kind condition cannot be dropped).

  The CBOR leg (the type normalisation `cborNorm` that one Marshal / Unmarshal-into-any round trip
  performs) is covered by the `C01_cbor_*` theorems at the end of this file.

  What is NOT covered by a theorem (hence the `_partial` suffix kept on the in-memory theorems): the
  typed entry points (`UnserializeType`, `SerializeType`, ...) and struct-mapped objects. Those lie
  outside the model `run` and are covered by the correspondence run, the chain oracle and the
  struct-mapped oracle stream of the check only; that `cborNorm` is what fxamacker/cbor does is
  compared with the real library on every run. Within the model nothing is missing any more.
-/
namespace Arca
open Out

/-- Unserialize ∘ Serialize is the identity on unserialized values; every unserialized value
    validates. -/
theorem C01_roundtrip_partial (x : Ext) (fuel : Nat) (env : Env) (t : Ty) (v r : V)
    (henv : EnvWF1 env) (hwf : WF1 env t) (h : run x fuel .U env t v = .ok r) :
    run x fuel .V env t r = done ∧
    ∃ w, run x fuel .S env t r = .ok w ∧ run x fuel .U env t w = .ok r :=
  (rt_aux' x fuel env t henv hwf).1 v r h

/-- Serialize ∘ Unserialize is idempotent on wire forms: unserializing a serialized form and
    serializing again yields the identical wire form. -/
theorem C01_serialize_idempotent_partial (x : Ext) (fuel : Nat) (env : Env) (t : Ty) (v r w : V)
    (henv : EnvWF1 env) (hwf : WF1 env t) (h : run x fuel .U env t v = .ok r)
    (hs : run x fuel .S env t r = .ok w) :
    ∃ r', run x fuel .U env t w = .ok r' ∧ run x fuel .S env t r' = .ok w := by
  obtain ⟨_, w', hs', hu⟩ := C01_roundtrip_partial x fuel env t v r henv hwf h
  rw [hs] at hs'
  cases hs'
  exact ⟨r, hu, hs⟩

/-- closed schemas -/
theorem C01_roundtrip_closed_partial (x : Ext) (fuel : Nat) (t : Ty) (v r : V)
    (hwf : WF1 [] t) (h : run x fuel .U [] t v = .ok r) :
    run x fuel .V [] t r = done ∧ ∃ w, run x fuel .S [] t r = .ok w ∧ run x fuel .U [] t w = .ok r :=
  C01_roundtrip_partial x fuel [] t v r (by intro p hp; simp at hp) hwf h

/-! ### an executable check of `WF1`, for the non-vacuity example -/

def declaresB (env : Env) (disc : String) : Ty → Bool
  | .obj _ props => hasKey disc props
  | .ref id => match lookupS id env with
    | some (.obj _ ps) => hasKey disc ps
    | _ => false
  | .scope objs root => match lookupS root objs with
    | some (.obj _ ps) => hasKey disc ps
    | _ => false
  | _ => false

theorem declaresB_complete {env : Env} {disc : String} {t : Ty} (h : declaresB env disc t = false) :
    ¬ declares env disc t := by
  cases t <;> simp [declaresB] at h <;> simp [declares]
  · simpa using h
  · intro oid ps hl
    simpa [hl] using h
  · intro oid ps hl
    simpa [hl] using h

def declaresTypedB (env : Env) (ik : Bool) (disc : String) : Ty → Bool
  | .obj _ props => match lookupS disc props with
    | some p => discTyOK ik p.ty
    | none => false
  | .ref id => match lookupS id env with
    | some (.obj _ ps) => (match lookupS disc ps with
      | some p => discTyOK ik p.ty
      | none => false)
    | _ => false
  | .scope objs root => match lookupS root objs with
    | some (.obj _ ps) => (match lookupS disc ps with
      | some p => discTyOK ik p.ty
      | none => false)
    | _ => false
  | _ => false

theorem declaresTypedB_sound {env : Env} {ik : Bool} {disc : String} {t : Ty} (h : declaresTypedB env ik disc t = true) :
    declaresTyped env ik disc t := by
  cases t <;> simp only [declaresTypedB, Bool.false_eq_true] at h <;> simp only [declaresTyped]
  · split at h
    · rename_i p hp; exact ⟨p, hp, h⟩
    · simp at h
  · split at h
    · rename_i oid ps hl
      split at h
      · rename_i p hp; exact ⟨oid, ps, p, hl, hp, h⟩
      · simp at h
    · simp at h
  · split at h
    · rename_i oid ps hl
      split at h
      · rename_i p hp; exact ⟨oid, ps, p, hl, hp, h⟩
      · simp at h
    · simp at h

def wf1B : Nat → Env → Ty → Bool
  | 0, _, _ => false
  | n + 1, env, t =>
    match t with
    | .int _ _ _ | .float _ _ _ | .str _ _ _ | .bool | .pattern | .enumInt _ _ | .enumStr _ | .any => true
    | .list item _ _ => wf1B n env item
    | .map k v _ _ => wf1B n env k && wf1B n env v
    | .obj _ props => props.all fun np => wf1B n env np.2.ty
    | .oneOf ik d inl members =>
      if inl then members.all fun m => wf1B n env m.2 && declaresTypedB env ik d m.2
      else members.all fun m => wf1B n env m.2 && objLikeB env m.2 && !declaresB env d m.2
    | .ref id => (lookupS id env).isSome
    | .scope objs root => (lookupS root objs).isSome && objs.all fun p => wf1B n objs p.2

theorem wf1B_sound : ∀ (n : Nat) (env : Env) (t : Ty), wf1B n env t = true → WF1 env t
  | 0, _, _, h => by simp [wf1B] at h
  | n + 1, env, t, h => by
    have ih := wf1B_sound n
    cases t with
    | int => exact .int
    | float => exact .float
    | str => exact .str
    | bool => exact .bool
    | pattern => exact .pattern
    | enumInt => exact .enumInt
    | enumStr => exact .enumStr
    | any => exact .any
    | list item a b => exact .list (ih _ _ (by simpa [wf1B] using h))
    | map k v a b =>
      simp only [wf1B, Bool.and_eq_true] at h
      exact .map (ih _ _ h.1) (ih _ _ h.2)
    | obj id props =>
      simp only [wf1B, List.all_eq_true] at h
      exact .obj (fun np hnp => ih _ _ (h np hnp))
    | oneOf ik d inl members =>
      simp only [wf1B] at h
      cases inl with
      | true =>
        simp only [if_true, List.all_eq_true, Bool.and_eq_true] at h
        exact .oneOfInl (fun m hmm => ih _ _ (h m hmm).1) (fun m hmm => declaresTypedB_sound (h m hmm).2)
      | false =>
        simp only [Bool.false_eq_true, if_false, List.all_eq_true, Bool.and_eq_true, Bool.not_eq_true'] at h
        exact .oneOf (fun m hmm => ih _ _ (h m hmm).1.1) (fun m hmm => objLikeB_sound (h m hmm).1.2)
          (fun m hmm => declaresB_complete (h m hmm).2)
    | ref id =>
      simp only [wf1B] at h
      cases hl : lookupS id env with
      | none => simp [hl] at h
      | some o => exact .ref hl
    | scope objs root =>
      simp only [wf1B, Bool.and_eq_true, List.all_eq_true] at h
      cases hl : lookupS root objs with
      | none => simp [hl] at h
      | some o => exact .scope hl (fun p hp => ih _ _ (h.2 p hp))

/-- the nested example schema of C04 (scope, recursive references, a non-inlined one-of, defaults,
    all container kinds) satisfies the hypotheses -/
def c01Example : Ty :=
  .scope
    [("Root", .obj "Root"
        [("items", .mk (.list (.ref "Item") (some 0) (some 3)) true [] [] [] none false),
         ("choice", .mk (.oneOf false "kind" false [(.s "a", .ref "Item"), (.s "b", .obj "B" [])]) false [] [] [] none false),
         ("n", .mk (.int (some 0) (some 10) none) false [] [] [] (some ⟨some (.float .f64 0), none⟩) false),
         ("m", .mk (.map (.str none none none) .any none none) false [] [] [] none false)]),
     ("Item", .obj "Item" [("name", .mk (.str (some 1) none none) true [] [] [] none false),
                           ("next", .mk (.ref "Item") false [] [] [] none false)])]
    "Root"

example : WF1 [] c01Example := wf1B_sound 10 [] c01Example (by decide)

/-! ### inlined one-ofs: a non-trivial instance, and why the key-kind condition is needed -/

def c01Ext : Ext := ⟨fun _ => none, fun _ => "", fun _ => true, fun _ _ => true⟩

def c01Bytes : Units := ⟨⟨"B", "B", "byte", "bytes"⟩, [(1024, ⟨"kB", "kB", "kilobyte", "kilobytes"⟩)]⟩

/-- Inlined one-ofs of both key kinds: a string-keyed one over references inside a list (one member
    declares the discriminator as a required bounded string, the other as an optional string enum
    with a default and a conflict rule); an int-keyed one whose members declare the discriminator
    as a required bounded int WITH UNITS and as an int enum, the second member recursing to the
    root; and a non-inlined one-of next to them. -/
def c01InlExample : Ty :=
  .scope
    [("Root", .obj "Root"
        [("shapes", .mk (.list (.oneOf false "kind" true [(.s "circle", .ref "Circle"), (.s "rect", .ref "Rect")])
            none (some 4)) true [] [] [] none false),
         ("level", .mk (.oneOf true "v" true
            [(.i 1, .obj "V1" [("v", .mk (.int (some 0) (some 9) (some c01Bytes)) true [] [] [] none false),
                               ("a", .mk .bool false [] [] [] none false)]),
             (.i 2, .obj "V2" [("v", .mk (.enumInt [2, 3] none) false [] [] [] none false),
                               ("next", .mk (.ref "Root") false [] [] [] none false)])]) false [] [] [] none false),
         ("plain", .mk (.oneOf false "kind" false [(.s "c", .obj "C" [])]) false [] [] [] none false)]),
     ("Circle", .obj "Circle"
        [("kind", .mk (.str (some 1) (some 10) none) true [] [] [] none false),
         ("r", .mk (.int (some 0) none none) true [] [] [] none false)]),
     ("Rect", .obj "Rect"
        [("kind", .mk (.enumStr ["rect", "square"]) false [] [] ["r"] (some ⟨some (.str "square"), none⟩) false),
         ("w", .mk (.int none none none) false [] [] [] (some ⟨some (.int .int64 0), none⟩) false),
         ("r", .mk (.int none none none) false [] [] [] none false)])]
    "Root"

example : WF1 [] c01InlExample := wf1B_sound 10 [] c01InlExample (by decide)

/-- the theorem on that schema -/
example (x : Ext) (fuel : Nat) (v r : V) (h : run x fuel .U [] c01InlExample v = .ok r) :
    run x fuel .V [] c01InlExample r = done ∧
    ∃ w, run x fuel .S [] c01InlExample r = .ok w ∧ run x fuel .U [] c01InlExample w = .ok r :=
  C01_roundtrip_closed_partial x fuel c01InlExample v r (wf1B_sound 10 [] c01InlExample (by decide)) h

/-- an input it accepts (so the instance is not vacuous): both string members, the int member with
    units given as the string "1", a nested level through the recursive member -/
def c01InlInput : V :=
  .map .anyAny
    [(.str "shapes", .list
        [.map .anyAny [(.str "kind", .str "circle"), (.str "r", .int .int 2)],
         .map .strAny [(.str "kind", .str "rect"), (.str "w", .str "7")]]),
     (.str "level", .map .anyAny
        [(.str "v", .float .f64 0x4000000000000000),
         (.str "next", .map .anyAny
            [(.str "shapes", .list []),
             (.str "level", .map .anyAny [(.str "v", .str "1"), (.str "a", .str "yes")])])])]

example : (run c01Ext 12 .U [] c01InlExample c01InlInput).isOk = true := by decide

/-- The key-kind condition of the inlined clause (`discTyOK`) cannot be dropped - string keys.
    Schema: string-keyed inlined one-of on "k", single member "5" = object B {k : int}.
    Raw input {"k": "5"}.  Unserialize accepts (the member converts "5" to the integer 5, the one-of
    then overwrites it with its own converted key, the string "5") and returns the
    `map[string]any{"k": "5"}`; Validate and Serialize of that value both fail (the member's int
    property rejects a string).  `NewOneOfStringSchema` + `ApplyNamespace` refuse this schema (kind
    `int64` ≠ kind `string`), so this is not a defect of the SDK but the reason for the condition. -/
def c01BadKindS : Ty :=
  .oneOf false "k" true [(.s "5", .obj "B" [("k", .mk (.int none none none) false [] [] [] none false)])]

theorem C01_inlined_needs_key_kind :
    run c01Ext 3 .U [] c01BadKindS (.map .anyAny [(.str "k", .str "5")]) = .ok (.map .strAny [(.str "k", .str "5")]) ∧
    (run c01Ext 3 .V [] c01BadKindS (.map .strAny [(.str "k", .str "5")])).isErr = true ∧
    (run c01Ext 3 .S [] c01BadKindS (.map .strAny [(.str "k", .str "5")])).isErr = true :=
  ⟨rfl, by decide, by decide⟩

example : wf1B 10 [] c01BadKindS = false := by decide

/-- The same for int keys.  Schema: int-keyed inlined one-of on "k", single member 5 = object
    B {k : string}.  Raw input {"k": 5}.  Unserialize accepts and returns
    `map[string]any{"k": int64(5)}`; Validate passes and Serialize succeeds - but `reflect` converts
    the integer 5 to the one-rune string "\x05", so the serialized form is {"k": "\x05"}, which
    Unserialize rejects (not a decimal integer).  Also refused by the constructors. -/
def c01BadKindI : Ty :=
  .oneOf true "k" true [(.i 5, .obj "B" [("k", .mk (.str none none none) false [] [] [] none false)])]

theorem C01_inlined_needs_key_kind_int :
    run c01Ext 3 .U [] c01BadKindI (.map .anyAny [(.str "k", .int .int 5)]) = .ok (.map .strAny [(.str "k", .int .int64 5)]) ∧
    run c01Ext 3 .V [] c01BadKindI (.map .strAny [(.str "k", .int .int64 5)]) = done ∧
    run c01Ext 3 .S [] c01BadKindI (.map .strAny [(.str "k", .int .int64 5)]) = .ok (.map .strAny [(.str "k", .str "\x05")]) ∧
    (run c01Ext 3 .U [] c01BadKindI (.map .strAny [(.str "k", .str "\x05")])).isErr = true :=
  ⟨rfl, rfl, rfl, by decide⟩

example : wf1B 10 [] c01BadKindI = false := by decide

/-- Nothing beyond the key kind is needed. E.g. a discriminator property whose own constraints
    exclude the member's key (here: an enum without the key "b") is harmless: the member rejects
    the input at Unserialize, so there is nothing to round-trip. -/
def c01Excluding : Ty :=
  .oneOf false "k" true [(.s "a", .obj "A" [("k", .mk (.enumStr ["a"]) true [] [] [] none false)]),
                         (.s "b", .obj "B" [("k", .mk (.enumStr ["a"]) true [] [] [] none false)])]

example : wf1B 10 [] c01Excluding = true := by decide
example : (run c01Ext 3 .U [] c01Excluding (.map .anyAny [(.str "k", .str "b")])).isErr = true := by decide
example : (run c01Ext 3 .U [] c01Excluding (.map .anyAny [(.str "k", .str "a")])).isOk = true := by decide

#print axioms C01_roundtrip_partial
#print axioms C01_serialize_idempotent_partial
#print axioms C01_roundtrip_closed_partial

end Arca

/-! ## The CBOR leg

  ATP does not hand the serialized value `w` to the peer's Unserialize directly: it goes through
  `cbor.Marshal` and is decoded into `any`, which changes the Go types (`cborNorm`,
  Model/Describe.lean, compared with fxamacker/cbor on every run of the check): a non-negative
  integer of any kind arrives as `uint64`, a negative one as `int64`, every float as `float64`,
  every map as `map[any]any`, every slice as `[]any`, a defined type as its underlying type.

  The theorems below close that gap for the whole model: what the receiving side unserializes
  from the CBOR-normalised wire form is IDENTICAL to the sender's value (`C01_cbor_roundtrip`), so
  it validates and serializes to the identical wire form again (`C01_cbor_serialize_fixed`,
  `C01_cbor_end_to_end`). This supersedes the remark in the header of this file that the CBOR
  leg is covered by the correspondence run only.

  The one hypothesis beyond `WF1`: the values are GO VALUES (`GoV`: every integer lies within the
  range of its kind, a byte is below 256, a defined type wraps a scalar). The model type `V` is
  wider than Go's value universe - it can write down an `int64` holding 2^63 - and the encoder
  chooses the unsigned major type by the NUMBER; `C01_cbor_needs_go_values` shows the statement is
  false for that non-value, so the hypothesis cannot be dropped, and that it excludes nothing that
  exists in a Go process. It is asked of the raw input `v` and of the property defaults of the
  schema (`DefGo`/`EnvDefGo`; defaults are what `encoding/json` decoded into `any`), and proved to
  propagate to the unserialized value and to the wire form (`C01_wire_is_go_value`).
  `C01_cbor_unserialize` is the underlying fact about Unserialize alone: no round trip, no
  well-formedness of the schema, any Go value. No kind of schema had to be excluded: in the model
  there is NO Go value on which the CBOR leg changes a successful Unserialize. -/
namespace Arca
open Out

/-- Unserialize does not see the CBOR leg: whatever it accepts (a Go value `w`), it accepts in
    CBOR-normalised form too, with the identical result. Every schema kind, every environment
    (references, scopes), every externals; no well-formedness of the schema is needed. -/
theorem C01_cbor_unserialize (x : Ext) (fuel : Nat) (env : Env) (t : Ty) (w r : V)
    (hw : GoV w = true) (h : run x fuel .U env t w = .ok r) :
    run x fuel .U env t (cborNorm w) = .ok r :=
  unser_cborNorm x fuel env t w r hw h

/-- Go values in, Go values out: from a raw Go value (and a schema whose defaults are Go values)
    Unserialize yields a Go value, and Serialize yields a Go value from that. -/
theorem C01_wire_is_go_value (x : Ext) (fuel : Nat) (env : Env) (t : Ty) (v r w : V)
    (hdenv : EnvDefGo env) (hdt : DefGo t) (hv : GoV v = true)
    (h : run x fuel .U env t v = .ok r) (hs : run x fuel .S env t r = .ok w) :
    GoV r = true ∧ GoV w = true := by
  have hr := unserialize_goV x fuel env t v r hdenv hdt hv h
  exact ⟨hr, serialize_goV x fuel env t r w hr hs⟩

/-- The round trip over the CBOR wire, given only that the wire form is a Go value. -/
theorem C01_cbor_roundtrip_wire (x : Ext) (fuel : Nat) (env : Env) (t : Ty) (v r w : V)
    (henv : EnvWF1 env) (hwf : WF1 env t) (hw : GoV w = true)
    (h : run x fuel .U env t v = .ok r) (hs : run x fuel .S env t r = .ok w) :
    run x fuel .U env t (cborNorm w) = .ok r := by
  obtain ⟨_, w', hs', hu⟩ := C01_roundtrip_partial x fuel env t v r henv hwf h
  rw [hs] at hs'
  cases hs'
  exact C01_cbor_unserialize x fuel env t w r hw hu

/-- THE ROUND TRIP OVER THE CBOR WIRE. If Unserialize accepts the raw Go value `v` with result `r`
    and `r` serializes to `w`, then unserializing what CBOR delivers of `w` yields exactly `r`. -/
theorem C01_cbor_roundtrip (x : Ext) (fuel : Nat) (env : Env) (t : Ty) (v r w : V)
    (henv : EnvWF1 env) (hwf : WF1 env t) (hdenv : EnvDefGo env) (hdt : DefGo t) (hv : GoV v = true)
    (h : run x fuel .U env t v = .ok r) (hs : run x fuel .S env t r = .ok w) :
    run x fuel .U env t (cborNorm w) = .ok r :=
  C01_cbor_roundtrip_wire x fuel env t v r w henv hwf
    (C01_wire_is_go_value x fuel env t v r w hdenv hdt hv h hs).2 h hs

/-- Serialization is a fixed point across the wire: the receiving side's value validates and
    serializes to the identical wire form. -/
theorem C01_cbor_serialize_fixed (x : Ext) (fuel : Nat) (env : Env) (t : Ty) (v r w : V)
    (henv : EnvWF1 env) (hwf : WF1 env t) (hdenv : EnvDefGo env) (hdt : DefGo t) (hv : GoV v = true)
    (h : run x fuel .U env t v = .ok r) (hs : run x fuel .S env t r = .ok w) :
    ∃ r', run x fuel .U env t (cborNorm w) = .ok r' ∧ run x fuel .V env t r' = done ∧
      run x fuel .S env t r' = .ok w :=
  ⟨r, C01_cbor_roundtrip x fuel env t v r w henv hwf hdenv hdt hv h hs,
    (C01_roundtrip_partial x fuel env t v r henv hwf h).1, hs⟩

/-- End to end, from acceptance of the raw value alone: the accepted value validates, serializes,
    the wire form is a Go value, and both the wire form and what CBOR delivers of it unserialize
    to the identical value. -/
theorem C01_cbor_end_to_end (x : Ext) (fuel : Nat) (env : Env) (t : Ty) (v r : V)
    (henv : EnvWF1 env) (hwf : WF1 env t) (hdenv : EnvDefGo env) (hdt : DefGo t) (hv : GoV v = true)
    (h : run x fuel .U env t v = .ok r) :
    run x fuel .V env t r = done ∧
    ∃ w, run x fuel .S env t r = .ok w ∧ GoV w = true ∧ run x fuel .U env t w = .ok r ∧
      run x fuel .U env t (cborNorm w) = .ok r := by
  obtain ⟨hV, w, hs, hu⟩ := C01_roundtrip_partial x fuel env t v r henv hwf h
  exact ⟨hV, w, hs, (C01_wire_is_go_value x fuel env t v r w hdenv hdt hv h hs).2, hu,
    C01_cbor_roundtrip x fuel env t v r w henv hwf hdenv hdt hv h hs⟩

/-- closed schemas -/
theorem C01_cbor_roundtrip_closed (x : Ext) (fuel : Nat) (t : Ty) (v r w : V)
    (hwf : WF1 [] t) (hdt : DefGo t) (hv : GoV v = true)
    (h : run x fuel .U [] t v = .ok r) (hs : run x fuel .S [] t r = .ok w) :
    run x fuel .U [] t (cborNorm w) = .ok r :=
  C01_cbor_roundtrip x fuel [] t v r w (by intro p hp; simp at hp) hwf envDefGo_nil hdt hv h hs

/-- The Go-value hypothesis cannot be dropped, and what it excludes is not a Go value.
    Schema: `any`. "Value": an `int64` holding 2^63 = 9223372036854775808 (no such Go value: it is
    outside the range of its kind, `GoV` says so). In the model Unserialize and Serialize pass it
    through unchanged (an `int64` needs no range check in Go); the encoder would write it as an
    unsigned integer, it would arrive as `uint64(2^63)`, and the any-schema rejects a `uint64`
    above MaxInt64. Not a defect of the SDK: the sending side cannot hold this value. -/
theorem C01_cbor_needs_go_values :
    run c01Ext 2 .U [] .any (.int .int64 9223372036854775808) = .ok (.int .int64 9223372036854775808) ∧
    run c01Ext 2 .S [] .any (.int .int64 9223372036854775808) = .ok (.int .int64 9223372036854775808) ∧
    cborNorm (.int .int64 9223372036854775808) = .int .uint64 9223372036854775808 ∧
    (run c01Ext 2 .U [] .any (cborNorm (.int .int64 9223372036854775808))).isErr = true ∧
    GoV (.int .int64 9223372036854775808) = false :=
  ⟨rfl, rfl, rfl, by decide, by decide⟩

/-- the largest real int64 is fine -/
example : run c01Ext 2 .U [] .any (cborNorm (.int .int64 9223372036854775807)) = .ok (.int .int64 9223372036854775807) :=
  C01_cbor_unserialize c01Ext 2 [] .any _ _ (by decide) rfl

/-! ### non-vacuity: the hypotheses hold of the example schemas, the wire forms really change -/

example : DefGo c01Example := defGoB_sound 10 c01Example (by decide)
example : DefGo c01InlExample := defGoB_sound 10 c01InlExample (by decide)

/-- the theorem on the inlined example schema -/
example (x : Ext) (fuel : Nat) (v r w : V) (hv : GoV v = true)
    (h : run x fuel .U [] c01InlExample v = .ok r) (hs : run x fuel .S [] c01InlExample r = .ok w) :
    run x fuel .U [] c01InlExample (cborNorm w) = .ok r :=
  C01_cbor_roundtrip_closed x fuel c01InlExample v r w (wf1B_sound 10 [] c01InlExample (by decide))
    (defGoB_sound 10 c01InlExample (by decide)) hv h hs

/-- what Unserialize makes of `c01InlInput`; Serialize maps it to itself (every map is a
    `map[string]any` of an object, every integer an int64) -/
def c01InlValue : V :=
  .map .strAny
    [(.str "shapes", .list
        [.map .strAny [(.str "kind", .str "circle"), (.str "r", .int .int64 2)],
         .map .strAny [(.str "kind", .str "rect"), (.str "w", .int .int64 7)]]),
     (.str "level", .map .strAny
        [(.str "v", .int .int64 2),
         (.str "next", .map .strAny
            [(.str "shapes", .list []),
             (.str "level", .map .strAny [(.str "v", .int .int64 1), (.str "a", .bool true)])])])]

/-- what CBOR delivers of it: every map a `map[any]any`, every integer - including the int
    discriminators `v` - a `uint64` -/
def c01InlCbor : V :=
  .map .anyAny
    [(.str "shapes", .list
        [.map .anyAny [(.str "kind", .str "circle"), (.str "r", .int .uint64 2)],
         .map .anyAny [(.str "kind", .str "rect"), (.str "w", .int .uint64 7)]]),
     (.str "level", .map .anyAny
        [(.str "v", .int .uint64 2),
         (.str "next", .map .anyAny
            [(.str "shapes", .list []),
             (.str "level", .map .anyAny [(.str "v", .int .uint64 1), (.str "a", .bool true)])])])]

example : GoV c01InlInput = true := by decide
example : run c01Ext 12 .U [] c01InlExample c01InlInput = .ok c01InlValue := by rfl
example : run c01Ext 12 .S [] c01InlExample c01InlValue = .ok c01InlValue := by rfl
example : cborNorm c01InlValue = c01InlCbor := by rfl
example : cborNorm c01InlValue ≠ c01InlValue := by
  intro h
  rw [show cborNorm c01InlValue = c01InlCbor from rfl] at h
  simp [c01InlCbor, c01InlValue, MapShape.anyAny, MapShape.strAny] at h

/-- the instance of the theorem: the receiving side obtains the sender's value from `c01InlCbor` -/
example : run c01Ext 12 .U [] c01InlExample c01InlCbor = .ok c01InlValue :=
  C01_cbor_roundtrip_closed c01Ext 12 c01InlExample c01InlInput c01InlValue c01InlValue
    (wf1B_sound 10 [] c01InlExample (by decide)) (defGoB_sound 10 c01InlExample (by decide)) (by decide) (by rfl) (by rfl)

/-- A second instance, on `c01Example` (non-inlined one-of, a default, a map with an `any` value
    schema), where raw input, unserialized value, wire form and CBOR-delivered form are four
    different values: a negative int8 under a string schema and under `any`, a float32, a byte
    slice and a defined int64 under `any`. -/
def c01CborInput : V :=
  .map .anyAny
    [(.str "items", .list [.map .strAny [(.str "name", .int .int8 (-3)),
        (.str "next", .map .anyAny [(.str "name", .str "b")])]]),
     (.str "choice", .map .anyAny [(.str "kind", .str "a"), (.str "name", .str "x")]),
     (.str "m", .map .strAny [(.str "k", .int .int8 (-5)),
        (.str "l", .list [.float .f32 0x3FF8000000000000, .bytes [1, 255], .named (.int .int64 7)])])]

/-- the unserialized value: `m` is a `map[string]any` -/
def c01CborValue : V :=
  .map .strAny
    [(.str "items", .list [.map .strAny [(.str "name", .str "-3"),
        (.str "next", .map .strAny [(.str "name", .str "b")])]]),
     (.str "choice", .map .strAny [(.str "name", .str "x"), (.str "kind", .str "a")]),
     (.str "m", .map ⟨.string, true⟩ [(.str "k", .int .int64 (-5)),
        (.str "l", .list [.float .f64 0x3FF8000000000000, .list [.int .int64 1, .int .int64 255], .int .int64 7])]),
     (.str "n", .int .int64 0)]

/-- the wire form: `m` is serialized to a `map[any]any` -/
def c01CborWire : V :=
  .map .strAny
    [(.str "items", .list [.map .strAny [(.str "name", .str "-3"),
        (.str "next", .map .strAny [(.str "name", .str "b")])]]),
     (.str "choice", .map .strAny [(.str "name", .str "x"), (.str "kind", .str "a")]),
     (.str "m", .map .anyAny [(.str "k", .int .int64 (-5)),
        (.str "l", .list [.float .f64 0x3FF8000000000000, .list [.int .int64 1, .int .int64 255], .int .int64 7])]),
     (.str "n", .int .int64 0)]

/-- what CBOR delivers: the negative integer stays an int64, the others become uint64 -/
def c01CborDelivered : V :=
  .map .anyAny
    [(.str "items", .list [.map .anyAny [(.str "name", .str "-3"),
        (.str "next", .map .anyAny [(.str "name", .str "b")])]]),
     (.str "choice", .map .anyAny [(.str "name", .str "x"), (.str "kind", .str "a")]),
     (.str "m", .map .anyAny [(.str "k", .int .int64 (-5)),
        (.str "l", .list [.float .f64 0x3FF8000000000000, .list [.int .uint64 1, .int .uint64 255], .int .uint64 7])]),
     (.str "n", .int .uint64 0)]

example : GoV c01CborInput = true := by decide
-- (the default of `n` is the float 0, whose exactness test computes 2^1074)
set_option exponentiation.threshold 1100 in
example : run c01Ext 12 .U [] c01Example c01CborInput = .ok c01CborValue := by rfl
example : run c01Ext 12 .S [] c01Example c01CborValue = .ok c01CborWire := by rfl
example : cborNorm c01CborWire = c01CborDelivered := by rfl
example : cborNorm c01CborWire ≠ c01CborWire := by
  intro h
  rw [show cborNorm c01CborWire = c01CborDelivered from rfl] at h
  simp [c01CborDelivered, c01CborWire, MapShape.anyAny, MapShape.strAny] at h

set_option exponentiation.threshold 1100 in
example : run c01Ext 12 .U [] c01Example c01CborDelivered = .ok c01CborValue :=
  C01_cbor_roundtrip_closed c01Ext 12 c01Example c01CborInput c01CborValue c01CborWire
    (wf1B_sound 10 [] c01Example (by decide)) (defGoB_sound 10 c01Example (by decide)) (by decide) (by rfl) (by rfl)

#print axioms C01_cbor_unserialize
#print axioms C01_wire_is_go_value
#print axioms C01_cbor_roundtrip_wire
#print axioms C01_cbor_roundtrip
#print axioms C01_cbor_serialize_fixed
#print axioms C01_cbor_end_to_end
#print axioms C01_cbor_roundtrip_closed
#print axioms C01_cbor_needs_go_values

end Arca
