import ArcaModel.Lemmas.StructRoundTripAll
/-
  C01 for struct-mapped objects, end to end: Unserialize, Validate, Serialize, Unserialize,
  Serialize over `srun`, through nested struct-mapped objects, scopes and map-backed leaves
  (C01_roundtrip_partial is the leaf case).
-/
namespace Arca
namespace SM
open Out

/-- **End-to-end round trip of struct-mapped trees.** For every tree that passes the round-trip
    hypotheses `RTOK d t` (decidable: `rtOKB`, `C01_struct_rtOK_decidable`), every budget
    `fuel ≥ d`, every externals and EVERY raw value `v`: if Unserialize accepts `v` with result `s`,
    then `s` validates, serializes to some `w`, and `w` unserializes to an `s'` that is `s` up to
    exactly the identification `Eqv` - in the field of a treat-empty-as-default property a value that
    reads as unset (the zero value, a pointer to it, a negative zero) has become the absent state
    (the field's zero value, nil for a pointer field); nothing else changes - and `s'` validates and
    serializes to the identical `w` (idempotence on wire forms).

    The trees covered are all of `STy`: map-backed leaves (C01's `WF1`), scopes, slices and maps of
    struct-mapped objects, struct-mapped objects nested to any depth (by value, behind pointers, with
    defaults at every level), and one-ofs over struct-mapped members of pairwise distinct struct
    types (`RTOK.oneOf`: separate discriminator, which Serialize attaches; `RTOK.oneOfInl`: inlined
    discriminator, with or without treat-empty-as-default - a dropped zero discriminator is attached
    again by the one-of; `Eqv.oneOf`: the two structs are identified as values of ONE member).
    `_partial` only because of what the struct model itself leaves out
    (one-ofs mixing struct-mapped and map-backed members, recursive struct types, typed enums) and because `RTOK` is
    a sufficient condition: per pair it asks exact typing (`exactObjB`) and `rtPropB` - the latter's
    clauses are each necessary (`C01_struct_needs_zero_accepted` below and the doc comment of
    `rtPropB`), the former excludes narrow / unsigned / defined-type fields, whose values come back
    converted (`C01_struct_fromStruct_toStruct_conv`) and are not composed here. -/
theorem C01_struct_end_to_end_partial (x : Ext) (fuel d : Nat) (t : STy) (hok : RTOK d t) (hd : d ≤ fuel)
    (v s : SV) (hU : srun x fuel .U t v = .ok s) :
    srun x fuel .V t s = .ok (.val unitV) ∧
    ∃ w s', srun x fuel .S t s = .ok (.val w) ∧ srun x fuel .U t (.val w) = .ok s' ∧ Eqv t s s' ∧
      srun x fuel .V t s' = .ok (.val unitV) ∧ srun x fuel .S t s' = .ok (.val w) := by
  obtain ⟨hV, w, s', hS, hU2, hE, hS2, hV2, _⟩ := rt_all x fuel d t hok hd v s hU
  exact ⟨hV, w, s', hS, hU2, hE, hV2, hS2⟩

/-- the decidable check implies the hypotheses, for every budget from `n + 2` on -/
theorem C01_struct_rtOK_decidable (n : Nat) (t : STy) (h : rtOKB n t = true) : RTOK (n + 2) t :=
  rtOKB_sound n t h

/-- **Without treat-empty-as-default the round trip is exact**: the value unserialized from the
    serialized form is IDENTICAL to the first one. -/
theorem C01_struct_end_to_end_exact_partial (x : Ext) (fuel d n : Nat) (t : STy) (hok : RTOK d t) (hd : d ≤ fuel)
    (hne : noEmptyB n t = true) (v s : SV) (hU : srun x fuel .U t v = .ok s) :
    srun x fuel .V t s = .ok (.val unitV) ∧
    ∃ w, srun x fuel .S t s = .ok (.val w) ∧ srun x fuel .U t (.val w) = .ok s := by
  obtain ⟨hV, w, s', hS, hU2, hE, _, _⟩ := C01_struct_end_to_end_partial x fuel d t hok hd v s hU
  rw [← Eqv_eq n d t s s' hne hok hE] at hU2
  exact ⟨hV, w, hS, hU2⟩

/-! ### non-vacuity, and the necessity of the zero-value hypothesis -/

namespace RTExample

/-- `type Inner struct { Level int64 `json:"level"`; Tag string `json:"tag"`; P *string `json:"p,omitempty"` }` -/
def stInner : StructTy := ⟨"Inner", [
  ⟨"Level", "level", true, .int .int64, .val (.int .int64 0)⟩,
  ⟨"Tag", "tag", true, .str, .val (.str "")⟩,
  ⟨"P", "p,omitempty", true, .ptr .str, .nilPtr⟩]⟩

def zeroInner : SV := .struct "Inner" [("Level", .val (.int .int64 0)), ("Tag", .val (.str "")), ("P", .nilPtr)]

def stMid : StructTy := ⟨"Mid", [
  ⟨"Inner", "inner", true, .struct "Inner", zeroInner⟩,
  ⟨"InnerP", "innerp", true, .ptr (.struct "Inner"), .nilPtr⟩,
  ⟨"Note", "note,omitempty", true, .ptr .str, .nilPtr⟩,
  ⟨"Flag", "", true, .bool, .val (.bool false)⟩,
  ⟨"Any", "any", true, .iface, .val .nil⟩,
  ⟨"Items", "items", true, .slice .str, .nilSlice⟩,
  ⟨"Inners", "inners", true, .slice (.struct "Inner"), .nilSlice⟩,
  ⟨"ByKey", "bykey", true, .map .str (.struct "Inner"), .nilMap ⟨.string, false⟩⟩,
  ⟨"hidden", "", false, .int .int64, .val (.int .int64 0)⟩]⟩

/-- `level`: optional, no default, on a plain int64 field - its bounds accept 0 (`zeroFine`);
    `tag`: treat-empty-as-default; `p`: behind a pointer, with a default -/
def innerProps : List (String × SProp) := [
  ("level", .mk (.leaf (.int none (some 100) none)) false [] [] [] none false false),
  ("tag", .mk (.leaf (.str none none none)) false [] [] [] none false true),
  ("p", .mk (.leaf (.str (some 1) none none)) false [] [] [] (some ⟨some (.str "x"), none⟩) false false)]

def innerObj : STy := .obj "Inner" stInner false innerProps

/-- a sub-object by value with a default, the same behind a pointer, a pointer property with a
    conflicts rule against an interface property, a treat-empty-as-default flag, a required slice, a
    slice and a map of struct-mapped objects -/
def midProps : List (String × SProp) := [
  ("inner", .mk innerObj false [] [] [] (some ⟨some (toStrAny [("tag", .str "t")]), none⟩) false false),
  ("innerp", .mk innerObj false [] [] [] none false false),
  ("note", .mk (.leaf (.str (some 1) none none)) false [] [] ["any"] none false false),
  ("Flag", .mk (.leaf .bool) false [] [] [] none false true),
  ("any", .mk (.leaf .any) false [] [] [] none false false),
  ("items", .mk (.leaf (.list (.str none none none) none none)) true [] [] [] none false false),
  ("inners", .mk (.list innerObj none (some 3)) true [] [] [] none false false),
  ("bykey", .mk (.map (.str none none none) innerObj none none) true [] [] [] none false false)]

def midObj : STy := .scope (.obj "Mid" stMid false midProps)

/-- the instance passes the decidable check ... -/
example : rtOKB 6 midObj = true := by decide +kernel
/-- ... so the end-to-end round trip holds of it for every input, externals and budget from 8 on -/
example (x : Ext) (fuel : Nat) (hf : 8 ≤ fuel) (v s : SV) (hU : srun x fuel .U midObj v = .ok s) :
    srun x fuel .V midObj s = .ok (.val unitV) ∧
    ∃ w s', srun x fuel .S midObj s = .ok (.val w) ∧ srun x fuel .U midObj (.val w) = .ok s' ∧ Eqv midObj s s' ∧
      srun x fuel .V midObj s' = .ok (.val unitV) ∧ srun x fuel .S midObj s' = .ok (.val w) :=
  C01_struct_end_to_end_partial x fuel 8 midObj (rtOKB_sound 6 midObj (by decide +kernel)) hf v s hU

/-- The recorded finding `struct-optional-bounded-zero-value`: `tag` optional, string of at least
    one character, on a plain string field. -/
def boundedProps : List (String × SProp) := [
  ("tag", .mk (.leaf (.str (some 1) none none)) false [] [] [] none false false),
  ("level", .mk (.leaf (.int none none none)) false [] [] [] none false false)]

def boundedObj : STy := .obj "Inner" stInner false boundedProps

/-- the pair is well-formed and exactly typed, and only `zeroFine` fails ... -/
example : wfObjB stInner boundedProps = true ∧ exactObjB stInner boundedProps = true ∧ rtOKB 4 boundedObj = false := by
  decide +kernel

/-- since f26fa04 a DISABLED property on a plain field reads as unset while the field holds the zero
    value: the same bounded `tag`, disabled, is inside the theorem's scope -/
def disabledProps : List (String × SProp) := [
  ("tag", .mk (.leaf (.str (some 1) none none)) false [] [] [] none true false),
  ("level", .mk (.leaf (.int none none none)) false [] [] [] none false false)]

example : rtOKB 4 (.obj "Inner" stInner false disabledProps) = true := by decide +kernel
example : fromStruct stInner disabledProps [("Level", .val (.int .int64 0)), ("Tag", .val (.str "")), ("P", .nilPtr)] =
    .ok [("level", .val (.int .int64 0))] := by rfl

end RTExample

/-- **The zero-value hypothesis cannot be dropped.** On the well-formed, exactly typed pair
    `boundedObj` (an optional string of at least one character on a plain string field) Unserialize
    accepts the empty map, and its own result fails Validate and Serialize at `tag`: the unset field
    reads back as "" - the recorded finding `struct-optional-bounded-zero-value`. -/
theorem C01_struct_needs_zero_accepted (x : Ext) :
    ∃ s, srun x 5 .U RTExample.boundedObj (.val (toStrAny [])) = .ok s ∧
      srun x 5 .V RTExample.boundedObj s = .err ⟨true, ["tag"]⟩ ∧
      srun x 5 .S RTExample.boundedObj s = .err ⟨true, ["tag"]⟩ :=
  ⟨.struct "Inner" [("Level", .val (.int .int64 0)), ("Tag", .val (.str "")), ("P", .nilPtr)], by
    refine ⟨?_, ?_, ?_⟩ <;> rfl⟩

end SM
end Arca
