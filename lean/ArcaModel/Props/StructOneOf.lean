import ArcaModel.Props.StructRoundTrip
/-
  One-ofs over struct-mapped members (`NewOneOfStringSchema[any]` / `NewOneOfIntSchema[any]` whose
  members are `NewStructMappedObjectSchema[T]`): dispatch (C03), round trip (C01), totality (C04).

  Unserialize routes by the discriminator of the raw map; Validate and Serialize route through
  `findUnderlyingType`, by the DYNAMIC TYPE of the struct value. The two routes agree only when the
  members' struct types are pairwise distinct - part of `wfSB` / `rtOKB`;
  `oneof_shared_type_order_dependent` shows what happens otherwise.

  (a) dispatch: `C03_struct_oneof_unser_iff`, `C03_struct_oneof_unser_struct`,
      `C03_struct_oneof_selects`, `C03_struct_oneof_refuses`;
  (b) round trip: `C01_struct_oneof_roundtrip` (separate and inlined discriminator; the instance of
      `C01_struct_end_to_end_partial`, whose hypotheses `RTOK` have the clauses `oneOf` / `oneOfInl`),
      `C01_struct_oneof_inlined_restores` (the dropped treat-empty-as-default discriminator is put back);
  (c) totality: `C04_struct_no_panic` covers one-ofs through `WFS.oneOf`;
      `C04_struct_oneof_nonobject_member_panics` is the ill-formed shape that panics.
-/
namespace Arca
namespace SM
open Out

/-! ### (a) dispatch -/

/-- **Unserialize accepts iff the discriminator denotes a declared member and that member accepts**
    (the map's key type allows strings, all keys are strings, the discriminator - read with the key
    type's lenient mapper - is the key of a declared member, which accepts the map: with the
    discriminator when it is inlined, without it otherwise). The result is the member's result -
    `oneOfOut`: a struct is returned as it is, a `map[string]any` gets the converted discriminator. -/
theorem C03_struct_oneof_unser_iff (x : Ext) (fuel : Nat) (ik : Bool) (disc : String) (inl : Bool)
    (members : List (Key × STy)) (s r : SV) :
    srun x (fuel + 1) .U (.oneOf ik disc inl members) s = .ok r ↔
      ∃ sh kvs dk d key m mt mr, s.toV? = some (.map sh kvs) ∧ (sh.key = .any ∨ sh.key = .string) ∧
        kvs.find? (isDiscKey disc) = some (dk, d) ∧ DiscDenotes x ik d key ∧ strKeys? kvs = some m ∧
        lookupK key members = some mt ∧
        srun x fuel .U mt (.val (toStrAny (if inl then m else eraseKey disc m))) = .ok mr ∧
        oneOfOut disc key mr = .ok r := by
  simp only [srun, runOneOfS]
  constructor
  · exact oneOfUnserS_routes
  · intro ⟨sh, kvs, dk, d, key, m, mt, mr, hs, hsh, hfind, hkey, hm, hmt, hmr, hout⟩
    rw [oneOfUnserS_accepts hs hsh hfind hkey hm hmt hmr]
    exact hout

/-- ... and when the members are struct-mapped objects the result IS the member's struct value, of
    the member's struct type. -/
theorem C03_struct_oneof_unser_struct (x : Ext) (fuel : Nat) (ik : Bool) (disc : String) (inl : Bool)
    (members : List (Key × STy)) (hobj : ∀ m, m ∈ members → ObjLikeS m.2) (s r : SV)
    (h : srun x (fuel + 1) .U (.oneOf ik disc inl members) s = .ok r) :
    ∃ key mt, (key, mt) ∈ members ∧ svTy? r = some (reflTy mt) := by
  obtain ⟨_, _, _, _, key, _, mt, mr, _, _, _, _, _, hmt, hmr, hout⟩ :=
    (C03_struct_oneof_unser_iff x fuel ik disc inl members s r).mp h
  have hmm := lookupK_mem hmt
  have hty := srun_U_objLike x fuel mt _ mr (hobj _ hmm) hmr
  rw [oneOfOut_struct hty] at hout
  cases hout
  exact ⟨key, mt, hmm, hty⟩

/-- **Validate and Serialize of a struct value select the member of its dynamic type**: when the
    members' struct types are pairwise distinct, a value whose dynamic type is the struct type of
    the member `(key, mt)` is validated by `mt`, and serialized by `mt` with `key` attached as the
    discriminator unless `mt` serialized one itself; a value of no member's type is refused. -/
theorem C03_struct_oneof_selects (x : Ext) (fuel : Nat) (ik : Bool) (disc : String) (inl : Bool)
    (members : List (Key × STy)) (hnd : (members.map fun m => reflTy m.2).Nodup)
    (key : Key) (mt : STy) (hm : (key, mt) ∈ members) (s : SV) (hs : svTy? s = some (reflTy mt)) :
    srun x (fuel + 1) .V (.oneOf ik disc inl members) s =
      ((srun x fuel .V mt s).addSeg ("{oneof[" ++ key.fmt ++ "]}")).bind (fun _ => .ok (.val unitV)) ∧
    ∀ rm, srun x fuel .S mt s = .ok (.val (toStrAny rm)) →
      srun x (fuel + 1) .S (.oneOf ik disc inl members) s =
        .ok (.val (toStrAny (if hasKey disc rm then rm else rm ++ [(disc, key.toV)]))) := by
  have hfm := findMember_unique hnd hm hs
  refine ⟨by simp only [srun, runOneOfS, hfm], fun rm hrm => ?_⟩
  simp only [srun, runOneOfS, hfm, hrm, Out.bind, toStrAny, MapShape.strAny, strKeys_toStrAny]

theorem C03_struct_oneof_refuses (x : Ext) (fuel : Nat) (ik : Bool) (disc : String) (inl : Bool)
    (members : List (Key × STy)) (s : SV) (h : ∀ km, km ∈ members → svTy? s ≠ some (reflTy km.2)) :
    srun x (fuel + 1) .V (.oneOf ik disc inl members) s = .cerr ∧
    srun x (fuel + 1) .S (.oneOf ik disc inl members) s = .cerr := by
  have hfm := findMember_none h
  exact ⟨by simp only [srun, runOneOfS, hfm], by simp only [srun, runOneOfS, hfm]⟩

/-! ### (c) totality: `C04_struct_no_panic` covers one-ofs (`WFS.oneOf`: the members are well-formed
    struct-mapped objects); a member that is not an object makes Serialize panic -/

/-- **Which ill-formed one-of panics**: Serialize asserts that the member serialized to a
    `map[string]any`; a member that is no object (here: an int leaf; only a cast through `Object`
    could build it) and accepts the value breaks the assertion. -/
theorem C04_struct_oneof_nonobject_member_panics (rec : SRec) (x : Ext) (ik : Bool) (disc : String) (inl : Bool)
    (members : List (Key × STy)) (key : Key) (mt : STy) (s r : SV)
    (hf : findMember members s = some (key, mt)) (hr : rec .S mt s = .ok r)
    (hnm : ∀ rk, r ≠ .val (.map ⟨.string, true⟩ rk)) :
    runOneOfS rec x .S ik disc inl members s = .panic := by
  simp only [runOneOfS, hf, hr, Out.bind]

/-! ### (b) round trip -/

/-- **Round trip through a one-of over struct-mapped members** - the instance of
    `C01_struct_end_to_end_partial` for a one-of, separate or inlined discriminator alike: the members
    satisfy the round-trip hypotheses, are struct-mapped objects (possibly in scopes) of pairwise
    distinct struct types, and are consistent about the discriminator (`RTOK.oneOf` /
    `RTOK.oneOfInl`; decidable: `rtOKB`). Then every accepted input yields a struct that validates,
    serializes to `w`, and `w` leads back - through the SAME member (`Eqv.oneOf`) - to a struct
    identified with the first, which validates and serializes to the identical `w`. -/
theorem C01_struct_oneof_roundtrip (x : Ext) (fuel d : Nat) (ik : Bool) (disc : String) (inl : Bool)
    (members : List (Key × STy)) (hok : RTOK d (.oneOf ik disc inl members)) (hd : d ≤ fuel)
    (v s : SV) (hU : srun x fuel .U (.oneOf ik disc inl members) v = .ok s) :
    srun x fuel .V (.oneOf ik disc inl members) s = .ok (.val unitV) ∧
    ∃ w s' km, srun x fuel .S (.oneOf ik disc inl members) s = .ok (.val w) ∧
      srun x fuel .U (.oneOf ik disc inl members) (.val w) = .ok s' ∧ km ∈ members ∧ Eqv km.2 s s' ∧
      srun x fuel .V (.oneOf ik disc inl members) s' = .ok (.val unitV) ∧
      srun x fuel .S (.oneOf ik disc inl members) s' = .ok (.val w) := by
  obtain ⟨hV, w, s', hS, hU2, hE, hV2, hS2⟩ := C01_struct_end_to_end_partial x fuel d _ hok hd v s hU
  have : ∃ km, km ∈ members ∧ Eqv km.2 s s' := by
    cases hE with
    | refl =>
      obtain ⟨f, rfl⟩ : ∃ f, fuel = f + 1 := by
        cases fuel with
        | zero => simp [srun] at hU
        | succ f => exact ⟨f, rfl⟩
      obtain ⟨_, _, _, _, key, _, mt, _, _, _, _, _, _, hmt, _, _⟩ :=
        (C03_struct_oneof_unser_iff x f ik disc inl members v s).mp hU
      exact ⟨(key, mt), lookupK_mem hmt, .refl⟩
    | oneOf hkm hE' => exact ⟨_, hkm, hE'⟩
  obtain ⟨km, hkm, hE'⟩ := this
  exact ⟨hV, w, s', km, hS, hU2, hkm, hE', hV2, hS2⟩

/-- **Inlined discriminator, treat-empty-as-default: the one-of restores what the member dropped**
    (the documented loss, made explicit). When the selected member serialized WITHOUT the
    discriminator (its inlined discriminator field is treat-empty-as-default and holds the zero
    value: the member keyed by 0 / ""), Serialize of the one-of attaches the key of the member found
    by the value's type - at the end of the map, typed as the key - and Unserialize of that wire
    form is routed to the SAME member, which receives the wire form with the restored discriminator
    (that it rebuilds an identified struct from it is part of `C01_struct_oneof_roundtrip`). -/
theorem C01_struct_oneof_inlined_restores (x : Ext) (fuel : Nat) (ik : Bool) (disc : String)
    (members : List (Key × STy)) (hnd : (members.map fun m => reflTy m.2).Nodup)
    (key : Key) (mt : STy) (hl : lookupK key members = some mt) (s : SV) (hs : svTy? s = some (reflTy mt))
    (hkey : ∃ d, DiscDenotes x ik d key)
    (rm : List (String × V)) (hrm : srun x fuel .S mt s = .ok (.val (toStrAny rm))) (hno : hasKey disc rm = false) :
    srun x (fuel + 1) .S (.oneOf ik disc true members) s = .ok (.val (toStrAny (rm ++ [(disc, key.toV)]))) ∧
    ∀ mr, srun x fuel .U mt (.val (toStrAny (rm ++ [(disc, key.toV)]))) = .ok mr →
      srun x (fuel + 1) .U (.oneOf ik disc true members) (.val (toStrAny (rm ++ [(disc, key.toV)]))) =
        oneOfOut disc key mr := by
  obtain ⟨d, hd⟩ := hkey
  have hsel := (C03_struct_oneof_selects x fuel ik disc true members hnd key mt (lookupK_mem hl) s hs).2 rm hrm
  simp only [hno, Bool.false_eq_true, if_false] at hsel
  refine ⟨hsel, fun mr hmr => ?_⟩
  simp only [srun, runOneOfS]
  exact oneOfUnserS_accepts (s := .val (toStrAny (rm ++ [(disc, key.toV)]))) (sh := .strAny)
    (kvs := (rm ++ [(disc, key.toV)]).map fun (kv : String × V) => (V.str kv.1, kv.2))
    (by simp [toV_val, toStrAny]) (Or.inr rfl) (find_disc_append disc key.toV rm hno)
    (key_toV_typed x ik d key hd).2 (strKeys_toStrAny _) hl (by simpa using hmr)

/-! ### instances: non-vacuity, and what happens when two members share a struct type -/

namespace OneOfExample

/-- `type Circle struct { R int64 `json:"r"`; Label *string `json:"label,omitempty"` }` -/
def stCircle : StructTy := ⟨"Circle", [
  ⟨"R", "r", true, .int .int64, .val (.int .int64 0)⟩,
  ⟨"Label", "label,omitempty", true, .ptr .str, .nilPtr⟩]⟩
/-- `type Square struct { S int64 `json:"s"` }` -/
def stSquare : StructTy := ⟨"Square", [⟨"S", "s", true, .int .int64, .val (.int .int64 0)⟩]⟩
/-- `type Holder struct { Shape any `json:"shape"`; Name string `json:"name"` }` -/
def stHolder : StructTy := ⟨"Holder", [
  ⟨"Shape", "shape", true, .iface, .val .nil⟩,
  ⟨"Name", "name", true, .str, .val (.str "")⟩]⟩

def circleObj : STy := .obj "Circle" stCircle false [
  ("r", .mk (.leaf (.int none none none)) true [] [] [] none false false),
  ("label", .mk (.leaf (.str none none none)) false [] [] [] none false false)]
def squareObj : STy := .scope (.obj "Square" stSquare false [
  ("s", .mk (.leaf (.int none none none)) true [] [] [] none false false)])

/-- `NewOneOfStringSchema[any]({"circle": ..., "square": ...}, "_type", false)` -/
def shape : STy := .oneOf false "_type" false [(.s "circle", circleObj), (.s "square", squareObj)]

def holderObj : STy := .scope (.obj "Holder" stHolder false [
  ("shape", .mk shape true [] [] [] none false false),
  ("name", .mk (.leaf (.str none none none)) false [] [] [] none false true)])

/-- the instance is well-formed and inside the round trip theorem's scope ... -/
example : wfSB 6 holderObj = true ∧ rtOKB 6 holderObj = true := by decide +kernel
/-- ... so no operation on it panics, and the end-to-end round trip holds of it -/
example (x : Ext) (fuel : Nat) (op : SOp) (s : SV) : srun x fuel op holderObj s ≠ .panic :=
  srun_np x fuel op holderObj s (wfSB_sound 6 _ (by decide +kernel))
example (x : Ext) (fuel : Nat) (hf : 8 ≤ fuel) (v s : SV) (hU : srun x fuel .U holderObj v = .ok s) :
    srun x fuel .V holderObj s = .ok (.val unitV) ∧
    ∃ w s', srun x fuel .S holderObj s = .ok (.val w) ∧ srun x fuel .U holderObj (.val w) = .ok s' ∧ Eqv holderObj s s' ∧
      srun x fuel .V holderObj s' = .ok (.val unitV) ∧ srun x fuel .S holderObj s' = .ok (.val w) :=
  C01_struct_end_to_end_partial x fuel 8 holderObj (rtOKB_sound 6 holderObj (by decide +kernel)) hf v s hU

/-- the struct in the interface field; Serialize attaches the discriminator of the member found by
    the struct's type -/
example (x : Ext) :
    srun x 8 .U holderObj (.val (toStrAny [("shape", toStrAny [("_type", .str "square"), ("s", .int .int64 3)])])) =
      .ok (.struct "Holder" [("Shape", .struct "Square" [("S", .val (.int .int64 3))]), ("Name", .val (.str ""))]) := by rfl
example (x : Ext) :
    srun x 8 .S holderObj (.struct "Holder" [("Shape", .struct "Square" [("S", .val (.int .int64 3))]), ("Name", .val (.str ""))]) =
      .ok (.val (toStrAny [("shape", toStrAny [("s", .int .int64 3), ("_type", .str "square")])])) := by rfl

/-- `type Stop struct { Kind int64 `json:"kind"`; Reason string `json:"reason"` }` and
    `type Go struct { Kind int64 `json:"kind"`; Speed int64 `json:"speed"` }`: an inlined int
    discriminator, treat-empty-as-default -/
def stStop : StructTy := ⟨"Stop", [
  ⟨"Kind", "kind", true, .int .int64, .val (.int .int64 0)⟩,
  ⟨"Reason", "reason", true, .str, .val (.str "")⟩]⟩
def stGo : StructTy := ⟨"Go", [
  ⟨"Kind", "kind", true, .int .int64, .val (.int .int64 0)⟩,
  ⟨"Speed", "speed", true, .int .int64, .val (.int .int64 0)⟩]⟩
def kindProp : SProp := .mk (.leaf (.int none none none)) false [] [] [] none false true
def stopObj : STy := .obj "Stop" stStop false [
  ("kind", kindProp), ("reason", .mk (.leaf (.str none none none)) false [] [] [] none false false)]
def goObj : STy := .obj "Go" stGo false [
  ("kind", kindProp), ("speed", .mk (.leaf (.int none none none)) false [] [] [] none false false)]
/-- `NewOneOfIntSchema[any]({0: Stop, 1: Go}, "kind", true)` -/
def signal : STy := .oneOf true "kind" true [(.i 0, stopObj), (.i 1, goObj)]

example : wfSB 5 signal = true ∧ rtOKB 5 signal = true := by decide +kernel
/-- the round trip holds of the inlined one-of, for every input -/
example (x : Ext) (fuel : Nat) (hf : 7 ≤ fuel) (v s : SV) (hU : srun x fuel .U signal v = .ok s) :
    srun x fuel .V signal s = .ok (.val unitV) ∧
    ∃ w s', srun x fuel .S signal s = .ok (.val w) ∧ srun x fuel .U signal (.val w) = .ok s' ∧ Eqv signal s s' ∧
      srun x fuel .V signal s' = .ok (.val unitV) ∧ srun x fuel .S signal s' = .ok (.val w) :=
  C01_struct_end_to_end_partial x fuel 7 signal (rtOKB_sound 5 signal (by decide +kernel)) hf v s hU

/-- **the documented loss, and its repair by the one-of**: member 0's own Serialize drops the zero
    discriminator (treat-empty-as-default), the one-of attaches it again - at the END of the map,
    typed as the key (int64) - and the wire form comes back to the same struct; member 1 keeps its
    discriminator in place. -/
example (x : Ext) :
    srun x 5 .U signal (.val (toStrAny [("kind", .str "0"), ("reason", .str "r")])) =
      .ok (.struct "Stop" [("Kind", .val (.int .int64 0)), ("Reason", .val (.str "r"))]) ∧
    srun x 4 .S stopObj (.struct "Stop" [("Kind", .val (.int .int64 0)), ("Reason", .val (.str "r"))]) =
      .ok (.val (toStrAny [("reason", .str "r")])) ∧
    srun x 5 .S signal (.struct "Stop" [("Kind", .val (.int .int64 0)), ("Reason", .val (.str "r"))]) =
      .ok (.val (toStrAny [("reason", .str "r"), ("kind", .int .int64 0)])) ∧
    srun x 5 .U signal (.val (toStrAny [("reason", .str "r"), ("kind", .int .int64 0)])) =
      .ok (.struct "Stop" [("Kind", .val (.int .int64 0)), ("Reason", .val (.str "r"))]) ∧
    srun x 5 .S signal (.struct "Go" [("Kind", .val (.int .int64 1)), ("Speed", .val (.int .int64 7))]) =
      .ok (.val (toStrAny [("kind", .int .int64 1), ("speed", .int .int64 7)])) := by
  refine ⟨?_, ?_, ?_, ?_, ?_⟩ <;> rfl

/-- an inlined one-of does NOT check that the struct's discriminator field names the member found
    by type: a `Go` value whose `Kind` says 0 is valid and serializes with `kind: 0` only because
    the zero is dropped and the key of `Go` attached ... -/
example (x : Ext) :
    srun x 5 .S signal (.struct "Go" [("Kind", .val (.int .int64 0)), ("Speed", .val (.int .int64 7))]) =
      .ok (.val (toStrAny [("speed", .int .int64 7), ("kind", .int .int64 1)])) := by rfl
/-- ... while a `Stop` whose `Kind` says 1 serializes to a map that Unserialize routes to `Go`,
    which refuses `reason` - Unserialize results never look like this (`Eqv`), hand-built values may -/
example (x : Ext) :
    srun x 5 .V signal (.struct "Stop" [("Kind", .val (.int .int64 1)), ("Reason", .val (.str "r"))]) = .ok (.val unitV) ∧
    srun x 5 .S signal (.struct "Stop" [("Kind", .val (.int .int64 1)), ("Reason", .val (.str "r"))]) =
      .ok (.val (toStrAny [("kind", .int .int64 1), ("reason", .str "r")])) ∧
    srun x 5 .U signal (.val (toStrAny [("kind", .int .int64 1), ("reason", .str "r")])) = .err ⟨true, []⟩ := by
  refine ⟨?_, ?_, ?_⟩ <;> rfl

/-- two keys for ONE struct type; `members` lists them in the order in which this run of the
    program iterates over the Go map -/
def twins (members : List (Key × STy)) : STy := .oneOf false "_type" false members
def twinsAB : STy := twins [(.s "a", circleObj), (.s "b", circleObj)]
def twinsBA : STy := twins [(.s "b", circleObj), (.s "a", circleObj)]

end OneOfExample

open OneOfExample in
/-- **Pairwise distinct member struct types cannot be dropped**: with two keys for one struct type
    (`wfSB` fails on nothing else) Unserialize of `_type: a` yields a `Circle`, and Serialize of that
    `Circle` - `findUnderlyingType` keeps the LAST member of matching type in the iteration order of
    a Go map - says `_type: b` in one iteration order and `_type: a` in the other: the outcome
    depends on the map order of the run, and the round trip can change the member. (`members` of
    the model lists the members in the iteration order of the run. Harness: the fixed probe
    `shared-member-type` sees both `_type=a` and `_type=b` in 64 runs on fresh instances; generated
    `oneof-shared-type` groups whose runs disagree are counted under `order-dependent-outcome`
    and not compared - there is no function to compare with.) -/
theorem oneof_shared_type_order_dependent (x : Ext) :
    wfSB 5 twinsAB = false ∧ wfSB 5 (twins [(.s "a", circleObj), (.s "b", squareObj)]) = true ∧
    ∃ s, srun x 5 .U twinsAB (.val (toStrAny [("_type", .str "a"), ("r", .int .int64 2)])) = .ok s ∧
      srun x 5 .U twinsBA (.val (toStrAny [("_type", .str "a"), ("r", .int .int64 2)])) = .ok s ∧
      srun x 5 .S twinsAB s = .ok (.val (toStrAny [("r", .int .int64 2), ("_type", .str "b")])) ∧
      srun x 5 .S twinsBA s = .ok (.val (toStrAny [("r", .int .int64 2), ("_type", .str "a")])) :=
  ⟨by decide +kernel, by decide +kernel,
   .struct "Circle" [("R", .val (.int .int64 2)), ("Label", .nilPtr)], by rfl, by rfl, by rfl, by rfl⟩

end SM
end Arca
