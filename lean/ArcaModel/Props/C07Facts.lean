import ArcaModel.Gen.AtpServerFacts
import ArcaModel.Model.AtpServer
/-
  C07 / C05, translator tie: the facts about atp/server.go (and schema.CallSignal) that the rules of
  `ArcaModel/Model/AtpServer.lean` assume for the `repaired` configuration, checked against the
  table that `harness atpserverfacts` regenerates from the working tree
  (`ArcaModel/Gen/AtpServerFacts.lean`). A change of the synchronisation structure - the channel
  closed somewhere else, a new sender that is not counted in the wait group, the handler leaving
  its loop early, an Encode outside the encoder mutex, the decode target hoisted out of the loop, a
  different channel capacity - changes the generated table and breaks one of the `decide`s below at
  `lake build`.
-/
namespace Arca.AtpServerFacts

open Arca.Gen.AtpServerFacts Arca.AtpServer

/-- F1. Capacity of `workDone` = the model's `cap`. -/
theorem cap_is_model_cap : workDoneCap = repaired.cap := by decide

/-- F2. `workDone` is closed in exactly one place, directly after `wg.Wait()` (the closer goroutine
    of `RunATPServer`): the model's `close` action with guard `wg = 0`; no close at the end of the
    read loop (`closeAtLoopEnd = false`). -/
theorem close_is_after_wait : closes = [("RunATPServer", true)] ∧ repaired.closeAtLoopEnd = false := by decide

/-- F3. Every send on `workDone` is performed by a goroutine that is counted in the wait group
    while it can send (the model's `wg` invariant `InvA.wg`), and the read loop is counted before
    it starts. -/
theorem senders_are_counted : sends.all (·.2) = true ∧ readLoopCountedFirst = true := by decide

/-- F3'. The senders are the ones the model has: the read loop (`loopSend`), step goroutines
    (`gSend` of kind step: `runStep`), signal goroutines (`gSend` of kind signal: the literal in
    `handleSignalMessage`). -/
theorem senders_are_model_senders :
    (sends.map (·.1)).eraseDups =
      ["handleSignalMessage", "handleWorkStartMessage", "onRuntimeMessageReceived", "runATPReadLoop",
       "runStep", "run"] := by decide

/-- F4. `handleClosure` leaves its loop only when `workDone` is closed: `drainAfterStop = true`. -/
theorem handler_drains : handlerLeavesOnlyWhenClosed = repaired.drainAfterStop := by decide

/-- F5. The decode target is per iteration: `freshDecode = true`. -/
theorem decode_is_fresh : decodeTargetInLoop = repaired.freshDecode := by decide

/-- F6. Unknown signals are errors and signal handler panics are recovered: `signalGuarded`. -/
theorem signals_guarded : (callSignalChecksLookup && signalGoroutineRecovers) = repaired.signalGuarded := by decide

/-- F7 (writer atomicity, used by C05 and by the model's `written` list): every Encode on the
    shared encoder happens under the encoder mutex, except the hello message, which `run()` writes
    before the read loop - the only spawner of other writers - starts. -/
theorem encodes_are_serialised :
    encodes.all (fun e => e.2 != .unguarded) = true ∧ helloBeforeReadLoop = true ∧
    encodes = [("sendInitialMessagesToClient", .init), ("sendRuntimeMessage", .locked)] := by decide

/-- Stated, not proved away: `sendRuntimeMessage` stops waiting for a stalled Encode after a
    timeout and releases the mutex while that Encode may still be running. Writer atomicity is
    therefore an assumption for clients that stop reading the output for longer than the timeout;
    the model's `written` list does not cover that situation. -/
theorem encode_wait_has_timeout : encodeWaitHasTimeout = true := by decide

/-! ### unsynchronised session state is confined to the read loop's goroutine

The LTS gives `runningSteps` (and the decode target, and the stdin decoder) to the read loop alone:
`react` reads and extends `running` inside the `loopRead` action, no goroutine action touches it.
In the Go code `runningSteps` is a plain map without a lock, so this is only true as long as every
access sits on the call chain run -> runATPReadLoop -> onRuntimeMessageReceived ->
handleWorkStartMessage / handleSignalMessage, outside `go` literals (context `loop`). An access from
a step or signal goroutine (context `spawned`) or from `handleClosure` (`main`) is a data race - the
runtime ends the process with `fatal error: concurrent map writes`, which nothing can recover. -/

def accessesOf (f : String) : List Access := accesses.filter (fun a => a.field == f)

/-- F8. `runningSteps` is touched exactly twice, both times on the read loop's goroutine: the insert
    in `handleWorkStartMessage` and the lookup in `handleSignalMessage`. -/
theorem runningSteps_read_loop_only :
    accessesOf "runningSteps" =
      [⟨"runningSteps", "read", "handleSignalMessage", "loop"⟩,
       ⟨"runningSteps", "write", "handleWorkStartMessage", "loop"⟩] := by decide

/-- F9. More generally: a field of the session that is neither a channel, a mutex nor a wait group
    and that is ever written, deleted from, ranged over or has its address taken after
    construction is accessed from the read loop's goroutine only; and a map is never accessed from
    anywhere else, written or not. The remaining fields are only read (their values are interfaces
    or pointers whose methods synchronise themselves: context, pipe, plugin schema; the stdout
    encoder is F7's subject). -/
theorem mutated_fields_read_loop_only :
    sharedFields.all (fun f =>
      let as := accessesOf f.1
      ((as.all (fun a => a.kind == "read")) && !(mapFields.contains f.1)) ||
        as.all (fun a => a.ctx == "loop" || a.ctx == "init")) = true := by decide

/-- F10. The stdin decoder (stateful, not safe for concurrent use) is used by the read loop's
    goroutine only: the start message in `sendInitialMessagesToClient`, then `runATPReadLoop`. -/
theorem decoder_read_loop_only :
    (accessesOf "cborStdin").all (fun a => a.ctx == "loop") = true ∧
    (accessesOf "cborStdin").length = 2 := by decide

/-- F11. No function of server.go is unreachable from `RunATPServer` (every access above has a
    goroutine context). -/
theorem every_access_has_a_context :
    accesses.all (fun a => a.ctx == "loop" || a.ctx == "spawned" || a.ctx == "main" || a.ctx == "init") = true := by
  decide

end Arca.AtpServerFacts
