import ArcaModel.Lemmas.DescribeMeta
import ArcaModel.Lemmas.DescribeParse
import ArcaModel.Lemmas.DescribeSchema
import ArcaModel.Lemmas.DescribeCbor
import ArcaModel.Gen.Meta
/-
  C09  Self-description is faithful: describe, rebuild, describe is a fixed point.

  `describe s`      the wire form `ScopeSchema.SelfSerialize()` produces
  `rebuild x f w`   `DescribeScope().Unserialize(w)`: `run .U` of the meta-schema `metaScope` on
                    `w`, then the conversion of the unserialized map to the schema tree
  `describable x s` what the meta-schema demands of a description (see `Model/Describe.lean`);
                    every scope built through the public constructors from the kinds the
                    meta-schema knows satisfies it, except for the cases listed as known findings
                    (typed containers D26, nil enum display D27) and negative length bounds,
                    enum-keyed maps, empty enums, IDs outside the ID pattern, empty display
                    strings (the harness compares this verdict with `SelfSerialize`'s).
  `forget jd s`     the schema as a value of `Arca.Ty`, the type `Arca.run` interprets.

  All theorems hold for every externals `x` (regexp, float parsing) and every JSON decoder `jd`.
-/
namespace Arca

/-- C09 in representation `r` (`Rep.direct`: what `SelfSerialize` returns; `Rep.cbor`: the same
    after one CBOR round trip): with enough fuel, rebuilding the description of a describable
    scope yields that very scope. -/
theorem C09_fixpoint_rep (x : Ext) (r : Rep) (hr : r.Good) (objs : List (String × DObj)) (root : String)
    (h : describable x (.scope objs root) = true) :
    ∃ f0, ∀ f, f0 ≤ f → rebuild x f (describeR r (.scope objs root)) = .ok (.scope objs root) := by
  obtain ⟨f1, hf1⟩ := ev_scope hr objs root h
  refine ⟨max f1 (DTy.scope objs root).size, fun f hf => ?_⟩
  have h1 := hf1 f (by omega)
  have hpos : 0 < f := by have := size_pos (DTy.scope objs root); omega
  obtain ⟨n, rfl⟩ : ∃ n, f = n + 1 := ⟨f - 1, by omega⟩
  have h2 := parse_scope (x := x) objs root h (n + 1) (by omega)
  simp only [rebuild, h1, liftParse, h2]

/-- C09, fixed point: rebuilding the description of a scope yields a scope with the identical
    description (indeed the identical scope). -/
theorem C09_fixpoint (x : Ext) (objs : List (String × DObj)) (root : String)
    (h : describable x (.scope objs root) = true) :
    ∃ f0, ∀ f, f0 ≤ f → ∃ s', rebuild x f (describe (.scope objs root)) = .ok s' ∧
      describe s' = describe (.scope objs root) := by
  obtain ⟨f0, hf⟩ := C09_fixpoint_rep x .direct Rep.direct_good objs root h
  exact ⟨f0, fun f hle => ⟨_, hf f hle, rfl⟩⟩

/-- C09 over CBOR: `cborNorm` is one `cbor.Marshal`/`cbor.Unmarshal` into `any` (tied to the real
    library by the CBORNORM correspondence); rebuilding the normalised description yields the
    same scope, hence the identical description. -/
theorem C09_fixpoint_cbor (x : Ext) (objs : List (String × DObj)) (root : String)
    (h : describable x (.scope objs root) = true) :
    ∃ f0, ∀ f, f0 ≤ f → ∃ s', rebuild x f (cborNorm (describe (.scope objs root))) = .ok s' ∧
      describe s' = describe (.scope objs root) := by
  obtain ⟨f0, hf⟩ := C09_fixpoint_rep x .cbor Rep.cbor_good objs root h
  exact ⟨f0, fun f hle => ⟨_, by rw [cborNorm_describe]; exact hf f hle, rfl⟩⟩

/-- C09, acceptance: the meta-schema accepts the description of every describable scope. -/
theorem C09_accepts (x : Ext) (objs : List (String × DObj)) (root : String)
    (h : describable x (.scope objs root) = true) :
    ∃ f0, ∀ f, f0 ≤ f → (run x f .U [] metaScope (describe (.scope objs root))).isOk = true := by
  obtain ⟨f0, hf⟩ := ev_scope Rep.direct_good objs root h
  exact ⟨f0, fun f hle => by rw [show describe _ = describeR .direct _ from rfl, hf f hle]; rfl⟩

/-- C09, behaviour: the rebuilt schema IS the original schema as a value of `Ty`; hence every
    operation (`Unserialize`, `Validate`, `Serialize`, compatibility) on every input, with any
    fuel and externals, gives the identical result on both. -/
theorem C09_behaviour (x : Ext) (jd : JD) (objs : List (String × DObj)) (root : String)
    (h : describable x (.scope objs root) = true) :
    ∃ f0, ∀ f, f0 ≤ f → ∃ s', rebuild x f (describe (.scope objs root)) = .ok s' ∧
      forget jd s' = forget jd (.scope objs root) ∧
      ∀ (x' : Ext) (fuel : Nat) (op : Op) (env : Env) (v : V),
        run x' fuel op env (forget jd s') v = run x' fuel op env (forget jd (.scope objs root)) v := by
  obtain ⟨f0, hf⟩ := C09_fixpoint_rep x .direct Rep.direct_good objs root h
  exact ⟨f0, fun f hle => ⟨_, hf f hle, rfl, fun _ _ _ _ _ => rfl⟩⟩

/-! ### whole plugin schemas (what the ATP hello message carries) -/

/-- C09 for plugin schemas in representation `r`: rebuilding the description of a describable
    schema (every step with its input, outputs, signal handlers and signal emitters) yields that
    very schema. -/
theorem C09_fixpoint_schema_rep (x : Ext) (r : Rep) (hr : r.Good) (p : DSchema)
    (h : describableSchema x p = true) :
    ∃ f0, ∀ f, f0 ≤ f → rebuildSchema x f (describeSchemaR r p) = .ok p := by
  obtain ⟨f1, hf1⟩ := ev_schema hr p h
  refine ⟨max f1 (p.bound + 1), fun f hf => ?_⟩
  have h1 := hf1 f (by omega)
  obtain ⟨n, rfl⟩ : ∃ n, f = n + 1 := ⟨f - 1, by omega⟩
  have h2 := parse_schema (x := x) p h (n + 1) fun st hst sc hsc => by
    have := p.bound_le st hst sc hsc
    omega
  simp only [rebuildSchema, h1, liftParse, h2]

/-- C09 for plugin schemas: directly and after the CBOR transport of the hello message, the
    rebuilt schema has the identical description, and every data scope of it (signal data schemas
    included) is the identical `Ty`, so every operation behaves identically. -/
theorem C09_fixpoint_schema (x : Ext) (p : DSchema) (h : describableSchema x p = true) :
    ∃ f0, ∀ f, f0 ≤ f →
      (∃ p', rebuildSchema x f (describeSchema p) = .ok p' ∧ describeSchema p' = describeSchema p ∧ p' = p) ∧
      (∃ p', rebuildSchema x f (cborNorm (describeSchema p)) = .ok p' ∧ describeSchema p' = describeSchema p ∧ p' = p) := by
  obtain ⟨f1, hf1⟩ := C09_fixpoint_schema_rep x .direct Rep.direct_good p h
  obtain ⟨f2, hf2⟩ := C09_fixpoint_schema_rep x .cbor Rep.cbor_good p h
  refine ⟨max f1 f2, fun f hf => ⟨⟨p, hf1 f (by omega), rfl, rfl⟩, ⟨p, ?_, rfl, rfl⟩⟩⟩
  rw [cborNorm_describeSchema]
  exact hf2 f (by omega)

/-- C09, acceptance for plugin schemas -/
theorem C09_accepts_schema (x : Ext) (p : DSchema) (h : describableSchema x p = true) :
    ∃ f0, ∀ f, f0 ≤ f → (run x f .U [] metaSchema (describeSchema p)).isOk = true := by
  obtain ⟨f0, hf⟩ := ev_schema Rep.direct_good p h
  exact ⟨f0, fun f hle => by rw [show describeSchema _ = describeSchemaR .direct _ from rfl, hf f hle]; rfl⟩

/-! ### lock-step with the implementation's meta-schema (regenerated table `Gen/Meta.lean`) -/

/-- the meta-schema the model uses IS the one dumped from the implementation -/
theorem meta_scope_agrees : Gen.Meta.scopeObjs = Meta.scopeObjs := rfl
theorem meta_schema_agrees : Gen.Meta.schemaObjs = Meta.schemaObjs := rfl
theorem meta_stepOutput_agrees : Gen.Meta.stepOutputObjs = Meta.stepOutputObjs := rfl
theorem meta_roots_agree :
    Gen.Meta.scopeRoot = "Scope" ∧ Gen.Meta.schemaRoot = "Schema" ∧ Gen.Meta.stepOutputRoot = "StepOutput" :=
  ⟨rfl, rfl, rfl⟩

/-- property names of an object schema -/
def propNamesOf : Ty → List String
  | .obj _ props => props.map (·.1)
  | _ => []

/-- every json-tagged exported field of every Go struct the meta-schema is mapped to has exactly
    one property of the same name in its meta object, and vice versa (both lists are sorted and
    duplicate-free, so list equality is the bijection) -/
theorem meta_lockstep_fields :
    Gen.Meta.structFields.map (fun p => (p.1, p.2.map (·.1))) =
      Gen.Meta.schemaObjs.map (fun p => (p.1, propNamesOf p.2)) := by decide +kernel

/-- per meta object: the Go fields that are neither pointers nor interfaces, i.e. the fields
    `SelfSerialize` can never omit (compared with `describe` below) -/
def alwaysFields : List (String × List String) :=
  Gen.Meta.structFields.map fun p => (p.1, (p.2.filter (fun f => !f.2)).map (·.1))

/-- the type IDs of the value one-of are the implementation's `TypeID` constants -/
theorem meta_typeIDs :
    (match Meta.valueType with
     | .oneOf _ _ _ ms => ms.map (fun m => match m.1 with | .s t => t | .i _ => "")
     | _ => []) = Gen.Meta.typeIDs := by decide +kernel

/-- keys of a field list, sorted (insertion sort on strings) -/
def insertS (s : String) : List String → List String
  | [] => [s]
  | t :: rest => if s < t then s :: t :: rest else t :: insertS s rest
def sortS (l : List String) : List String := l.foldr insertS []
def fieldNames (m : List (String × V)) : List String := sortS (m.map (·.1))

def lookupFields (id : String) : List String :=
  match Gen.Meta.structFields.find? (·.1 == id) with
  | some p => p.2.map (·.1)
  | none => []
def lookupAlways (id : String) : List String :=
  match alwaysFields.find? (·.1 == id) with
  | some p => p.2
  | none => []

/-- `describe` writes, for each kind, exactly the fields of the Go struct when every optional
    part is present, and when every optional part is absent at least the fields that are neither
    pointers nor interfaces (fields `SelfSerialize` can never omit) -/
def someUnits : Option Units := some ⟨⟨"a", "b", "c", "d"⟩, []⟩
def someDisp : Option Disp := some ⟨some "n", none, none⟩

theorem describe_lockstep_full :
    fieldNames (descTyF .direct (.int (some 0) (some 1) someUnits)) = lookupFields "Int" ∧
    fieldNames (descTyF .direct (.float (some 0) (some 1) someUnits)) = lookupFields "Float" ∧
    fieldNames (descTyF .direct (.str (some 0) (some 1) (some "a"))) = lookupFields "String" ∧
    fieldNames (descTyF .direct (.enumInt [] someUnits)) = lookupFields "IntEnum" ∧
    fieldNames (descTyF .direct (.enumStr [])) = lookupFields "StringEnum" ∧
    fieldNames (descTyF .direct (.list .bool (some 0) (some 1))) = lookupFields "List" ∧
    fieldNames (descTyF .direct (.map .bool .bool (some 0) (some 1))) = lookupFields "Map" ∧
    fieldNames (descTyF .direct (.obj (.mk "a" false []))) = lookupFields "Object" ∧
    fieldNames (descTyF .direct (.oneOf true "d" false [])) = lookupFields "OneOfIntSchema" ∧
    fieldNames (descTyF .direct (.oneOf false "d" false [])) = lookupFields "OneOfStringSchema" ∧
    fieldNames (descTyF .direct (.ref "a" "" someDisp)) = lookupFields "Ref" ∧
    fieldNames (descTyF .direct (.scope [] "a")) = lookupFields "Scope" ∧
    fieldNames (descTyF .direct .bool) = lookupFields "BoolSchema" ∧
    fieldNames (descTyF .direct .pattern) = lookupFields "Pattern" ∧
    fieldNames (descTyF .direct .any) = lookupFields "AnySchema" := by decide +kernel

theorem describe_lockstep_minimal :
    (lookupAlways "Int").all (fieldNames (descTyF .direct (.int none none none))).contains = true ∧
    (lookupAlways "Float").all (fieldNames (descTyF .direct (.float none none none))).contains = true ∧
    (lookupAlways "String").all (fieldNames (descTyF .direct (.str none none none))).contains = true ∧
    (lookupAlways "IntEnum").all (fieldNames (descTyF .direct (.enumInt [] none))).contains = true ∧
    (lookupAlways "List").all (fieldNames (descTyF .direct (.list .bool none none))).contains = true ∧
    (lookupAlways "Map").all (fieldNames (descTyF .direct (.map .bool .bool none none))).contains = true ∧
    (lookupAlways "Ref").all (fieldNames (descTyF .direct (.ref "a" "" none))).contains = true := by decide +kernel

/-! ### non-vacuity: a scope with every kind is describable, and the fixed point is concrete -/

def c09Ext : Ext := ⟨fun _ => none, fun _ => "", fun _ => true, fun _ _ => true⟩

def c09Example : DTy :=
  .scope
    [("Root", .mk "Root" false
        [("items", .mk (.list (.ref "Item" "" (some ⟨some "Item", none, none⟩)) (some 0) (some 3))
            (some ⟨some "Items", some "the items", none⟩) true [] [] [] none ["[]"] false none),
         ("choice", .mk (.oneOf false "kind" false [(.s "a", .ref "Item" "" none), (.s "b", .obj (.mk "B" true []))])
            none false [] ["n"] [] none [] false none),
         ("n", .mk (.int (some (-5)) (some 10) (some ⟨⟨"B", "B", "byte", "bytes"⟩, [(1024, ⟨"kB", "kB", "kilobyte", "kilobytes"⟩)]⟩))
            none false [] [] [] (some "5") [] true (some "not yet")),
         ("m", .mk (.map (.str (some 1) none (some "^a")) .any none none) none false [] [] [] none [] false none),
         ("e", .mk (.enumStr [("x", ⟨some "X", none, none⟩), ("y", ⟨none, none, none⟩)]) none false [] [] [] none [] false none),
         ("f", .mk (.float (some 0x3ff0000000000000) none none) none false [] [] [] none [] false none),
         ("sub", .mk (.scope [("S", .mk "S" false [])] "S") none false [] [] [] none [] false none)]),
     ("Item", .mk "Item" false
        [("name", .mk (.str (some 1) none none) none true [] [] [] none [] false none),
         ("next", .mk (.ref "Item" "" none) none false [] [] [] none [] false none),
         ("far", .mk (.ref "Other" "ns" none) none false [] [] [] none [] false none)])]
    "Root"

example : describable c09Ext c09Example = true := by decide +kernel
example : (rebuild c09Ext 60 (describe c09Example)).isOk = true := by decide +kernel
example : (rebuild c09Ext 60 (cborNorm (describe c09Example))).isOk = true := by decide +kernel

def c09Plugin : DSchema :=
  [("step-1", ⟨"step-1", c09Example, [("success", ⟨c09Example, some ⟨some "ok", none, none⟩, false⟩)],
     [("recv", ⟨"recv", .scope [("S", .mk "S" false [])] "S", none⟩)], [], none⟩)]

example : describableSchema c09Ext c09Plugin = true := by decide +kernel
example : (rebuildSchema c09Ext 80 (cborNorm (describeSchema c09Plugin))).isOk = true := by decide +kernel

end Arca

#print axioms Arca.C09_fixpoint_rep
#print axioms Arca.C09_fixpoint
#print axioms Arca.C09_fixpoint_cbor
#print axioms Arca.C09_fixpoint_schema_rep
#print axioms Arca.C09_fixpoint_schema
#print axioms Arca.C09_accepts_schema
#print axioms Arca.C09_accepts
#print axioms Arca.C09_behaviour
#print axioms Arca.meta_scope_agrees
#print axioms Arca.meta_schema_agrees
#print axioms Arca.meta_lockstep_fields
#print axioms Arca.describe_lockstep_full
#print axioms Arca.describe_lockstep_minimal
