import ArcaModel.Props.C02
/-
  C03  Object presence rules, defaults and one-of dispatch are enforced as declared.
-/
namespace Arca
open Out

/-! ### presence rules -/

/-- The declared rules of one property against the set of present keys. -/
def RuleHolds (isSet : String → Bool) (id : String) (p : PropT) : Prop :=
  if isSet id then
    -- a present property conflicts with no other present property
    ∀ c, c ∈ p.conflicts → isSet c = false
  else
    -- an absent property is not required, none of its `required_if` is present,
    -- and if it has `required_if_not` entries at least one of them is present
    p.required = false ∧ (∀ r, r ∈ p.requiredIf → isSet r = false) ∧
      (p.requiredIfNot ≠ [] → ∃ r, r ∈ p.requiredIfNot ∧ isSet r = true)

theorem interdeps_go_ok_iff (isSet : String → Bool) : ∀ (props : List (String × PropT)),
    interdeps.go isSet props = .ok () ↔ ∀ np, np ∈ props → RuleHolds isSet np.1 np.2
  | [] => by simp [interdeps.go]
  | (id, p) :: rest => by
    have ih := interdeps_go_ok_iff isSet rest
    simp only [interdeps.go, List.mem_cons, forall_eq_or_imp]
    by_cases hs : isSet id = true
    · simp only [hs, if_true]
      by_cases hc : p.conflicts.any isSet = true
      · simp only [hc, if_true]
        constructor
        · intro h; simp [cerrAt] at h
        · intro ⟨h, _⟩
          exfalso
          unfold RuleHolds at h
          simp only [hs, if_true] at h
          obtain ⟨c, hc1, hc2⟩ := List.any_eq_true.mp hc
          rw [h c hc1] at hc2
          exact absurd hc2 (by simp)
      · simp only [hc, Bool.false_eq_true, if_false]
        rw [ih]
        constructor
        · intro h
          refine ⟨?_, h⟩
          unfold RuleHolds
          simp only [hs, if_true]
          intro c hc1
          cases hcs : isSet c with
          | false => rfl
          | true => exact absurd (List.any_eq_true.mpr ⟨c, hc1, hcs⟩) hc
        · intro ⟨_, h⟩; exact h
    · have hs' : isSet id = false := by simpa using hs
      simp only [hs', Bool.false_eq_true, if_false]
      by_cases hb : (p.required || p.requiredIf.any isSet || (!p.requiredIfNot.isEmpty && !(p.requiredIfNot.any isSet))) = true
      · simp only [hb, if_true]
        constructor
        · intro h; simp [cerrAt] at h
        · intro ⟨h, _⟩
          exfalso
          unfold RuleHolds at h
          simp only [hs', Bool.false_eq_true, if_false] at h
          obtain ⟨h1, h2, h3⟩ := h
          simp only [Bool.or_eq_true, Bool.and_eq_true, Bool.not_eq_true'] at hb
          rcases hb with (hb | hb) | hb
          · rw [h1] at hb; exact absurd hb (by simp)
          · obtain ⟨r, hr1, hr2⟩ := List.any_eq_true.mp hb
            rw [h2 r hr1] at hr2; exact absurd hr2 (by simp)
          · obtain ⟨hne, hnone⟩ := hb
            have : p.requiredIfNot ≠ [] := by
              intro he; simp [he] at hne
            obtain ⟨r, hr1, hr2⟩ := h3 this
            have := List.any_eq_true.mpr ⟨r, hr1, hr2⟩
            rw [this] at hnone
            exact absurd hnone (by simp)
      · simp only [hb, Bool.false_eq_true, if_false]
        rw [ih]
        constructor
        · intro h
          refine ⟨?_, h⟩
          unfold RuleHolds
          simp only [hs', Bool.false_eq_true, if_false]
          simp only [Bool.or_eq_true, Bool.and_eq_true, Bool.not_eq_true', not_or, not_and] at hb
          obtain ⟨⟨hb1, hb2⟩, hb3⟩ := hb
          refine ⟨by simpa using hb1, ?_, ?_⟩
          · intro r hr
            cases hrs : isSet r with
            | false => rfl
            | true => exact absurd (List.any_eq_true.mpr ⟨r, hr, hrs⟩) hb2
          · intro hne
            have h1 : p.requiredIfNot.isEmpty = false := by
              cases hl : p.requiredIfNot with
              | nil => exact absurd hl hne
              | cons _ _ => rfl
            have h2 := hb3 h1
            have h3 : p.requiredIfNot.any isSet = true := by
              cases h : p.requiredIfNot.any isSet with
              | true => rfl
              | false => exact absurd h h2
            exact List.any_eq_true.mp h3
        · intro ⟨_, h⟩; exact h

/-- `validateFieldInterdependencies` succeeds exactly when every declared rule holds:
    required, required-if (any listed property present), required-if-not (none of the listed
    present) and conflicts. -/
theorem C03_rules_iff (props : List (String × PropT)) (isSet : String → Bool) :
    interdeps props isSet = .ok () ↔ ∀ np, np ∈ props → RuleHolds isSet np.1 np.2 := by
  unfold interdeps
  exact interdeps_go_ok_iff isSet props

/-! ### defaults -/

theorem lookupS_append_of_some {α} {k : String} {m : List (String × α)} {v : α} (h : lookupS k m = some v)
    (tl : List (String × α)) : lookupS k (m ++ tl) = some v := by
  induction m with
  | nil => simp [lookupS] at h
  | cons p rest ih =>
    obtain ⟨k', v'⟩ := p
    simp only [lookupS, List.cons_append] at h ⊢
    split
    · simp_all
    · simp_all

/-- A supplied value is never overridden by a default. -/
theorem C03_default_keeps_supplied : ∀ (props : List (String × PropT)) (m m' : List (String × V)) (k : String) (v : V),
    applyDefaults props m = .ok m' → lookupS k m = some v → lookupS k m' = some v
  | [], m, m', k, v, h, hk => by simp [applyDefaults] at h; subst h; exact hk
  | (id, p) :: rest, m, m', k, v, h, hk => by
    simp only [applyDefaults] at h
    split at h
    · exact C03_default_keeps_supplied rest m m' k v h hk
    · split at h
      · exact C03_default_keeps_supplied rest m m' k v h hk
      · simp at h
      · exact C03_default_keeps_supplied rest _ m' k v h (lookupS_append_of_some hk _)

theorem hasKey_append {α} (k : String) (m tl : List (String × α)) :
    hasKey k (m ++ tl) = (hasKey k m || hasKey k tl) := by
  induction m with
  | nil => simp [hasKey, lookupS]
  | cons p rest ih =>
    obtain ⟨k', v'⟩ := p
    simp only [hasKey, lookupS, List.cons_append] at ih ⊢
    split <;> simp_all

/-- After defaulting, exactly the supplied properties and the declared properties with a default
    are present. -/
theorem C03_default_keys : ∀ (props : List (String × PropT)) (m m' : List (String × V)) (k : String),
    applyDefaults props m = .ok m' →
      (hasKey k m' = true ↔ hasKey k m = true ∨ ∃ p, (k, p) ∈ props ∧ p.defaultV.isSome = true)
  | [], m, m', k, h => by simp [applyDefaults] at h; subst h; simp
  | (id, p) :: rest, m, m', k, h => by
    simp only [applyDefaults] at h
    split at h
    · rename_i hid
      rw [C03_default_keys rest m m' k h]
      constructor
      · rintro (h1 | ⟨q, hq, hd⟩)
        · exact Or.inl h1
        · exact Or.inr ⟨q, List.mem_cons_of_mem _ hq, hd⟩
      · rintro (h1 | ⟨q, hq, hd⟩)
        · exact Or.inl h1
        · rcases List.mem_cons.mp hq with heq | hq
          · cases heq; exact Or.inl hid
          · exact Or.inr ⟨q, hq, hd⟩
    · split at h
      · rename_i hnone
        rw [C03_default_keys rest m m' k h]
        constructor
        · rintro (h1 | ⟨q, hq, hd⟩)
          · exact Or.inl h1
          · exact Or.inr ⟨q, List.mem_cons_of_mem _ hq, hd⟩
        · rintro (h1 | ⟨q, hq, hd⟩)
          · exact Or.inl h1
          · rcases List.mem_cons.mp hq with heq | hq
            · cases heq; simp [hnone] at hd
            · exact Or.inr ⟨q, hq, hd⟩
      · simp at h
      · rename_i d hd
        rw [C03_default_keys rest _ m' k h, hasKey_append]
        constructor
        · rintro (h1 | ⟨q, hq, hdq⟩)
          · simp only [Bool.or_eq_true] at h1
            rcases h1 with h1 | h1
            · exact Or.inl h1
            · right
              refine ⟨p, ?_, by simp [hd]⟩
              simp only [hasKey, lookupS] at h1
              split at h1
              · rename_i hk
                have : k = id := by simpa using hk
                subst this; exact List.mem_cons_self
              · simp at h1
          · exact Or.inr ⟨q, List.mem_cons_of_mem _ hq, hdq⟩
        · rintro (h1 | ⟨q, hq, hdq⟩)
          · left; simp [h1]
          · rcases List.mem_cons.mp hq with heq | hq
            · cases heq; left; simp [hasKey, lookupS]
            · exact Or.inr ⟨q, hq, hdq⟩

/-! ### objects -/

/-- A lone non-map value is accepted only as shorthand for the single property of a one-property
    object. -/
theorem C03_shorthand_only_single (x : Ext) (fuel : Nat) (env : Env) (id : String) (props : List (String × PropT))
    (v : V) (hv : v.mapEntries? = none) (hn : props.length ≠ 1) :
    run x (fuel + 1) .U env (.obj id props) v = .cerr := by
  simp only [run, runObj, objRaw, hv]
  split
  · simp at hn
  · simp [Out.bind, cerr]

/-- The shorthand unserializes the value with the single property's type; no key check and no
    defaulting take place, and the presence rules are applied to the one-entry map. -/
theorem C03_shorthand_single (x : Ext) (fuel : Nat) (env : Env) (id name : String) (p : PropT) (v r : V)
    (hv : v.mapEntries? = none) (hd : p.disabled = false) :
    run x (fuel + 1) .U env (.obj id [(name, p)]) v = .ok r ↔
      ∃ pv, run x fuel .U env p.ty v = .ok pv ∧
        RuleHolds (fun k => hasKey k [(name, pv)]) name p ∧ r = toStrAny [(name, pv)] := by
  simp only [run, runObj, objRaw, hv, hd]
  constructor
  · intro h
    obtain ⟨m, h1, h2⟩ := bind_eq_ok h
    obtain ⟨pv, h3, h4⟩ := bind_eq_ok h1
    obtain ⟨_, h5, h6⟩ := bind_eq_ok h2
    simp at h4 h6
    subst h4
    refine ⟨pv, ?_, ?_, h6.symm⟩
    · cases hr : run x fuel .U env p.ty v <;> simp [hr, rewrapP, plain] at h3
      subst h3; rfl
    · exact (C03_rules_iff _ _).mp h5 (name, p) (by simp)
  · intro ⟨pv, h1, h2, h3⟩
    subst h3
    have hi : interdeps [(name, p)] (fun k => hasKey k [(name, pv)]) = .ok () :=
      (C03_rules_iff _ _).mpr (by intro np hnp; simp at hnp; subst hnp; exact h2)
    simp [h1, rewrapP, Out.bind, hi]

/-- An object schema accepts a mapping exactly when: all keys are strings and declared; after
    absent properties with a default received it, every present property is accepted by its type
    (a present disabled property is rejected); and every presence rule holds on the result. -/
theorem C03_obj_unser_iff (x : Ext) (fuel : Nat) (env : Env) (id : String) (props : List (String × PropT))
    (sh : MapShape) (kvs : List (V × V)) (r : V) :
    run x (fuel + 1) .U env (.obj id props) (.map sh kvs) = .ok r ↔
      ∃ skvs m m', strKeys? kvs = some skvs ∧ (∀ kv, kv ∈ skvs → hasKey kv.1 props = true) ∧
        applyDefaults props skvs = .ok m ∧ forSV (objEntryU (run x fuel) env props) m = .ok m' ∧
        (∀ np, np ∈ props → RuleHolds (fun k => hasKey k m') np.1 np.2) ∧ r = toStrAny m' := by
  simp only [run, runObj, objRaw, V.mapEntries?]
  constructor
  · intro h
    obtain ⟨m', h1, h2⟩ := bind_eq_ok h
    obtain ⟨_, h3, h4⟩ := bind_eq_ok h2
    simp at h4
    split at h1
    · simp [cerr] at h1
    · rename_i skvs hs
      split at h1
      · simp [cerr] at h1
      · rename_i hall
        obtain ⟨m, h5, h6⟩ := bind_eq_ok h1
        refine ⟨skvs, m, m', hs, ?_, h5, h6, (C03_rules_iff _ _).mp h3, h4.symm⟩
        intro kv hkv
        have := hall
        simp only [List.any_eq_true, not_exists, not_and, Bool.not_eq_true'] at this
        cases hk : hasKey kv.1 props with
        | true => rfl
        | false =>
          exfalso
          have := this kv hkv
          simp [hk] at this
  · intro ⟨skvs, m, m', hs, hall, h5, h6, h7, hr⟩
    subst hr
    have hany : (skvs.any fun kv => !hasKey kv.1 props) = false := by
      cases h : skvs.any fun kv => !hasKey kv.1 props with
      | false => rfl
      | true =>
        obtain ⟨kv, hkv, hk⟩ := List.any_eq_true.mp h
        rw [hall kv hkv] at hk
        simp at hk
    simp [hs, hany, h5, h6, Out.bind, (C03_rules_iff _ _).mpr h7]

/-- Unserializing the present properties never adds, removes or reorders a key. -/
theorem allSV_keys {f : String → V → Out V} {m m' : List (String × V)} (h : AllSV f m m') :
    m'.map Prod.fst = m.map Prod.fst := by
  induction h with
  | nil => rfl
  | cons _ _ ih => simp [ih]

theorem hasKey_eq_of_keys {α β} {m : List (String × α)} {m' : List (String × β)}
    (h : m'.map Prod.fst = m.map Prod.fst) (k : String) : hasKey k m' = hasKey k m := by
  induction m generalizing m' with
  | nil => cases m' <;> simp_all [hasKey, lookupS]
  | cons p rest ih =>
    cases m' with
    | nil => simp at h
    | cons p' rest' =>
      obtain ⟨k1, v1⟩ := p
      obtain ⟨k2, v2⟩ := p'
      simp only [List.map_cons, List.cons.injEq] at h
      obtain ⟨hk, hr⟩ := h
      subst hk
      have := ih hr
      simp only [hasKey, lookupS] at this ⊢
      split <;> simp_all

theorem C03_unser_keeps_keys {rec : Rec} {env : Env} (props : List (String × PropT)) (m m' : List (String × V)) (k : String)
    (h : forSV (objEntryU rec env props) m = .ok m') : hasKey k m' = hasKey k m :=
  hasKey_eq_of_keys (allSV_keys (forSV_ok_iff.mp h)) k

/-- A disabled property that is present (supplied or defaulted) makes the object reject. -/
theorem C03_disabled_rejected {rec : Rec} {env : Env} (props : List (String × PropT)) (m : List (String × V))
    (id : String) (p : PropT) (d : V) (hl : lookupS id props = some p) (hd : p.disabled = true)
    (hm : (id, d) ∈ m) : ¬ ∃ m', forSV (objEntryU rec env props) m = .ok m' := by
  intro ⟨m', h⟩
  have hall := forSV_ok_iff.mp h
  clear h
  induction hall with
  | nil => simp at hm
  | @cons k v v' rest rest' hf _ ih =>
    rcases List.mem_cons.mp hm with heq | hm'
    · cases heq
      simp [objEntryU, hl, hd, cerrAt] at hf
    · exact ih hm'

theorem allSV_objEntry_mem {rec : Rec} {op : Op} {env : Env} {props : List (String × PropT)}
    {m m' : List (String × V)} (hall : AllSV (objEntry rec op env props) m m') :
    ∀ kv, kv ∈ m → ∃ p, lookupS kv.1 props = some p ∧ ∃ r, rec op env p.ty kv.2 = .ok r := by
  induction hall with
  | nil => intro kv hkv; simp at hkv
  | @cons k v v' rest rest' hf _ ih =>
    intro kv hkv
    rcases List.mem_cons.mp hkv with heq | hkv'
    · subst heq
      unfold objEntry at hf
      split at hf
      · simp [cerr] at hf
      · rename_i p hp
        exact ⟨p, hp, v', addSeg_eq_ok.mp hf⟩
    · exact ih kv hkv'

/-- Validate of a native object value (a `map[string]any`) applies the same key, type and
    presence rules: the presence rules hold on its keys, every key is declared, and every value
    validates against its property's type. -/
theorem C03_obj_valid_iff (x : Ext) (fuel : Nat) (env : Env) (id : String) (props : List (String × PropT))
    (m : List (String × V)) :
    run x (fuel + 1) .V env (.obj id props) (toStrAny m) = done ↔
      (∀ np, np ∈ props → RuleHolds (fun k => hasKey k m) np.1 np.2) ∧
      (∀ kv, kv ∈ m → ∃ p, lookupS kv.1 props = some p ∧ ∃ r, run x fuel .V env p.ty kv.2 = .ok r) := by
  simp only [run, runObj, toStrAny, MapShape.strAny, strKeys_toStrAny]
  constructor
  · intro h
    obtain ⟨_, h1, h2⟩ := bind_eq_ok h
    obtain ⟨m', h3, _⟩ := bind_eq_ok h2
    refine ⟨(C03_rules_iff _ _).mp h1, ?_⟩
    exact allSV_objEntry_mem (forSV_ok_iff.mp h3)
  · intro ⟨h1, h2⟩
    rw [(C03_rules_iff _ _).mpr h1]
    simp only [Out.bind]
    have : ∃ m', forSV (objEntry (run x fuel) .V env props) m = .ok m' := by
      clear h1
      induction m with
      | nil => exact ⟨[], by simp [forSV]⟩
      | cons kv rest ih =>
        obtain ⟨k, v⟩ := kv
        obtain ⟨p, hp, r, hr⟩ := h2 (k, v) (by simp)
        obtain ⟨rest', hrest⟩ := ih (fun kv hkv => h2 kv (List.mem_cons_of_mem _ hkv))
        refine ⟨(k, r) :: rest', ?_⟩
        simp only at hp hr
        simp [forSV, objEntry, hp, hr, addSeg, hrest]
    obtain ⟨m', hm'⟩ := this
    rw [hm']
    simp [done]

/-! ### one-of dispatch -/

/-- the discriminator value converted with the key type's lenient mapper -/
def DiscDenotes (x : Ext) (intKey : Bool) (d : V) (key : Key) : Prop :=
  if intKey then ∃ n, IntDenotes none d n ∧ key = Key.i n else ∃ s, StrDenotes x d s ∧ key = Key.s s

theorem typedDisc_ok_iff (x : Ext) (intKey : Bool) (d : V) (key : Key) :
    (if intKey = true then (rewrapC (intInputMapper none d)).bind fun n => Out.ok (Key.i n)
      else (rewrapC (stringInputMapper x d)).bind fun s => Out.ok (Key.s s)) = .ok key ↔
    DiscDenotes x intKey d key := by
  unfold DiscDenotes
  by_cases hik : intKey = true
  · simp only [hik, if_true]
    constructor
    · intro h
      obtain ⟨n, h5, h6⟩ := bind_eq_ok h
      simp at h6
      refine ⟨n, (intInputMapper_ok_iff _ _ _).mp ?_, h6.symm⟩
      cases hmm : intInputMapper none d <;> simp [hmm, rewrapC, cerr] at h5
      subst h5; rfl
    · intro ⟨n, hn, hk⟩
      subst hk
      simp [(intInputMapper_ok_iff _ _ _).mpr hn, rewrapC, Out.bind]
  · simp only [hik, if_false, Bool.false_eq_true]
    constructor
    · intro h
      obtain ⟨s, h5, h6⟩ := bind_eq_ok h
      simp at h6
      refine ⟨s, (stringInputMapper_ok_iff _ _ _).mp ?_, h6.symm⟩
      cases hmm : stringInputMapper x d <;> simp [hmm, rewrapC, cerr] at h5
      subst h5; rfl
    · intro ⟨s, hs, hk⟩
      subst hk
      simp [(stringInputMapper_ok_iff _ _ _).mpr hs, rewrapC, Out.bind]

/-- ROUTING (soundness). If a one-of accepts a map, then: the map's key type admits strings, it
    has the discriminator, the discriminator denotes (under the key type's lenient mapper) the key
    of a declared member, all keys are strings, and THAT member accepted the map - with the
    discriminator passed on iff the one-of is inlined, stripped otherwise. -/
theorem C03_oneof_routes (x : Ext) (fuel : Nat) (env : Env) (intKey : Bool) (disc : String) (inlined : Bool)
    (members : List (Key × Ty)) (sh : MapShape) (kvs : List (V × V)) (r : V)
    (h : run x (fuel + 1) .U env (.oneOf intKey disc inlined members) (.map sh kvs) = .ok r) :
      (sh.key = .any ∨ sh.key = .string) ∧
      ∃ dk d key m mt mr,
        kvs.find? (isDiscKey disc) = some (dk, d) ∧
        DiscDenotes x intKey d key ∧
        strKeys? kvs = some m ∧ lookupK key members = some mt ∧
        run x fuel .U env mt (toStrAny (if inlined then m else eraseKey disc m)) = .ok mr := by
  simp only [run, runOneOf, oneOfUnser, V.mapEntries?] at h
  split at h
  · simp [cerr] at h
  · rename_i hsh
    have hsh' : sh.key = .any ∨ sh.key = .string := by
      cases hk : sh.key <;> simp_all
    refine ⟨hsh', ?_⟩
    split at h
    · simp [cerr] at h
    · rename_i dk d hfind
      obtain ⟨key, h1, h2⟩ := bind_eq_ok h
      split at h2
      · simp [cerr] at h2
      · rename_i m hm
        split at h2
        · simp [cerr] at h2
        · rename_i mt hmt
          obtain ⟨mr, h3, _⟩ := bind_eq_ok h2
          exact ⟨dk, d, key, m, mt, mr, hfind, (typedDisc_ok_iff _ _ _ _).mp h1, hm, hmt, h3⟩

/-- ROUTING (completeness) and result. Conversely, when the routing conditions hold and the
    selected member accepts with the property map `rm`, the one-of accepts, and its result is the
    member's result with the CONVERTED discriminator attached. -/
theorem C03_oneof_accepts (x : Ext) (fuel : Nat) (env : Env) (intKey : Bool) (disc : String) (inlined : Bool)
    (members : List (Key × Ty)) (sh : MapShape) (kvs : List (V × V))
    (dk d : V) (key : Key) (m rm : List (String × V)) (mt : Ty)
    (hsh : sh.key = .any ∨ sh.key = .string)
    (hfind : kvs.find? (isDiscKey disc) = some (dk, d))
    (hkey : DiscDenotes x intKey d key) (hm : strKeys? kvs = some m) (hmt : lookupK key members = some mt)
    (hmr : run x fuel .U env mt (toStrAny (if inlined then m else eraseKey disc m)) = .ok (toStrAny rm)) :
    run x (fuel + 1) .U env (.oneOf intKey disc inlined members) (.map sh kvs) =
      .ok (toStrAny (setKey disc key.toV rm)) := by
  have hsh' : (sh.key == KeyTy.any || sh.key == KeyTy.string) = true := by
    rcases hsh with h | h <;> simp [h]
  have ht := (typedDisc_ok_iff x intKey d key).mpr hkey
  simp only [run, runOneOf, oneOfUnser, V.mapEntries?, hsh', Bool.not_true, Bool.false_eq_true, if_false, hfind]
  rw [ht]
  simp only [Out.bind, hm, hmt]
  rw [hmr]
  simp only [toStrAny, MapShape.strAny, strKeys_toStrAny]

#print axioms C03_rules_iff
#print axioms C03_default_keys
#print axioms C03_shorthand_single
#print axioms C03_obj_unser_iff
#print axioms C03_obj_valid_iff
#print axioms C03_oneof_routes
#print axioms C03_oneof_accepts

end Arca
