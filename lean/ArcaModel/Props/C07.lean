import ArcaModel.Lemmas.AtpServerProgress
import ArcaModel.Lemmas.AtpServerRunId
/-
  C07  "The ATP server survives any client and answers each accepted run exactly once."

  All theorems are about `Arca.AtpServer.step?` (Model/AtpServer.lean), over ALL reachable states
  of the `repaired` rules (= atp/server.go after the fix commits), for unboundedly many runs, any
  client behaviour (`offer` of arbitrary items, `closeInput`, `breakOutput`, `cancel` at any time)
  and any step behaviour (`gStart _ reject/enter`, `exit _ ok/fail/panic` at any time).
  The `pinned` rules (before the repairs) are kept to document what the repairs fixed.

  What ties the model to the Go code is not in this file: trace inclusion of real sessions
  (harness `atpserver` + `Arca.Dispatch.atpServerHandler`) and the extracted facts
  (`Gen/AtpServerFacts.lean`).
-/
namespace Arca.AtpServer

/-! ## C07_no_panic -/

/-- No reachable state of the repaired server has crashed: no send on the closed `workDone`
    channel, no nil dereference in `CallSignal`, no unrecovered handler panic. (Every send in the
    model checks the `closed` flag and sets `crashed` when it is set; see `chanSend`, `sigRun`.) -/
theorem C07_no_panic {s : State} (h : Reachable repaired s) : s.crashed = false :=
  (inv_reachable repaired_good h).a.crashed

/-- the same for every configuration with the repaired structure, whatever the channel capacity -/
theorem C07_no_panic_any_capacity {c : Cfg} (hg : c.Good) {s : State} (h : Reachable c s) :
    s.crashed = false :=
  (inv_reachable hg h).a.crashed

/-- in particular no enabled action of a reachable state leads to a crash -/
theorem C07_no_panic_step {s s' : State} {a : Act} (h : Reachable repaired s)
    (e : step? repaired s a = some s') : s'.crashed = false :=
  C07_no_panic (Reachable.step h e)

/-- the reason: the channel is closed only when the WaitGroup counter is zero, and the counter
    counts the read loop and every goroutine that may still send -/
theorem C07_closed_means_no_sender {s : State} (h : Reachable repaired s) (hc : s.closed = true) :
    s.loop = .ended ∧ ∀ (g : Nat) (x : G), s.gs[g]? = some x → x.pc.done = true := by
  have I := inv_reachable repaired_good h
  have h0 := I.a.closed hc
  have hw := I.a.wg
  rw [h0] at hw
  have hl : loopLive s.loop = 0 := by omega
  have hv : live s.gs = 0 := by omega
  refine ⟨?_, ?_⟩
  · unfold loopLive at hl
    split at hl
    · assumption
    · simp at hl
  · intro g x hx
    have := sumW_zero_all liveW s.gs hv g x hx
    unfold liveW at this
    split at this
    · assumption
    · simp at this

-- non-vacuity: a reachable state in which a step goroutine is about to report an error after the
-- read loop has ended (the situation that crashed the pinned server)
example : ∃ s, Reachable repaired s ∧ s.loop = .ended ∧ s.closed = false ∧
    (∃ x, s.gs[0]? = some x ∧ x.pc = .failing) := by
  refine ⟨_, reachable_runActs (c := repaired) Reachable.init (as :=
    [.offer (.msg ⟨none, none, none⟩), .loopRead,
     .offer (.msg ⟨some 1, some 1, some ⟨some false, true⟩⟩), .loopRead, .gStart 0 .enter,
     .offer (.msg ⟨some 4, some 0, some ⟨some true, true⟩⟩), .loopRead, .loopEnd,
     .exit 0 .fail]) rfl, ?_⟩
  decide

/-! ## C07_terminal_once -/

/-- While the output is open each accepted work-start gets at most one terminal message (its
    work-done, or the step-fatal error message for the report it sent), and exactly one once its
    goroutine has finished and its report (if any) has been handled. "Output open" is the model's
    `outClosed s = false`: the client has not closed the output and the handler has not stopped
    sending (which it does after writing a server-fatal error message, after a failed write, and on
    cancellation). -/
theorem C07_terminal_once {s : State} (h : Reachable repaired s) (g : Nat) (x : G)
    (hx : s.gs[g]? = some x) (hk : x.kind = .step) :
    termCount s g ≤ 1 ∧
    (x.pc.done = true → pendCount s g = 0 → termCount s g = 1 ∨ outClosed s = true) := by
  have I := (inv_reachable repaired_good h).t g
  rw [hx] at I
  unfold TG at I
  simp only [hk] at I
  cases hpc : x.pc <;> simp only [hpc] at I <;> simp only [GPc.done]
  case doneOk => exact ⟨by omega, fun _ _ => Or.inl I.1⟩
  case doneLost => exact ⟨by omega, fun _ _ => Or.inr I.2.2⟩
  case doneErr =>
    rcases I with I | I
    · exact ⟨by omega, fun _ hp => Or.inl (by omega)⟩
    · exact ⟨by omega, fun _ _ => Or.inr I.2.2⟩
  all_goals exact ⟨by omega, fun hd => by simp at hd⟩

/-- at the moment `RunATPServer` returns, every accepted work-start has been answered exactly
    once, unless the output was no longer open -/
theorem C07_terminal_at_return {s : State} (h : Reachable repaired s) (hr : s.returned = true)
    (g : Nat) (x : G) (hx : s.gs[g]? = some x) (hk : x.kind = .step) :
    termCount s g = 1 ∨ outClosed s = true := by
  have I := inv_reachable repaired_good h
  obtain ⟨hd, hw⟩ := I.s.ret hr
  obtain ⟨hcl, hq⟩ := I.s.hDone hd
  have hdone := (C07_closed_means_no_sender h hcl).2 g x hx
  have hp : pendCount s g = 0 := by simp [pendCount, heldErrs, hd, hq]
  exact (C07_terminal_once h g x hx hk).2 hdone hp

/-- no terminal message is written for anything but an accepted work-start -/
theorem C07_no_spurious_terminal {s : State} (h : Reachable repaired s) (g : Nat)
    (hx : ∀ x, s.gs[g]? = some x → x.kind = .signal) : termCount s g = 0 := by
  have I := (inv_reachable repaired_good h).t g
  cases hgx : s.gs[g]? with
  | none => rw [hgx] at I; exact I.1
  | some x =>
    rw [hgx] at I
    have hk := hx x hgx
    unfold TG at I
    simp only [hk] at I
    exact I.1

/-- the terminal messages counted for an accepted work-start carry that work-start's run ID, and
    are a work-done message or a step-fatal (not server-fatal) error message -/
theorem C07_terminal_run_id {s : State} (h : Reachable repaired s) (g : Nat) (m : OutMsg)
    (hm : m ∈ s.written) (ht : isTerm g m = true) :
    ∃ x, s.gs[g]? = some x ∧ x.kind = .step ∧
      (m = .workDone x.run g ∨
       ∃ e, m = .error e ∧ e.run = x.run ∧ e.stepFatal = true ∧ e.serverFatal = false) := by
  have R := (invR_reachable repaired_good h).written m hm
  cases m with
  | hello => simp [isTerm] at ht
  | workDone r g' =>
    simp [isTerm] at ht
    subst ht
    obtain ⟨x, hx, hk, hr⟩ := R
    exact ⟨x, hx, hk, Or.inl (by rw [hr])⟩
  | error e =>
    simp [isTerm] at ht
    obtain ⟨⟨x, hx, hk, hr⟩, h2, h3⟩ := R g ht
    exact ⟨x, hx, hk, Or.inr ⟨e, rfl, hr.symm, h2, h3⟩⟩

-- non-vacuity: a returned state with output open in which run 1 failed after client-done and was
-- answered by exactly one step-fatal error message
example : ∃ s, Reachable repaired s ∧ s.returned = true ∧ outClosed s = false ∧ termCount s 0 = 1 ∧
    s.written = [.hello, .error ⟨1, true, false, .step 0⟩] := by
  refine ⟨_, reachable_runActs (c := repaired) Reachable.init (as :=
    [.offer (.msg ⟨none, none, none⟩), .loopRead,
     .offer (.msg ⟨some 1, some 1, some ⟨some false, true⟩⟩), .loopRead, .gStart 0 .enter,
     .offer (.msg ⟨some 4, some 0, some ⟨some true, true⟩⟩), .loopRead, .loopEnd,
     .exit 0 .panic, .gSend 0, .hRecv, .hEmit, .close, .hRecv, .ret]) rfl, ?_⟩
  decide

/-! ## C07_returns -/

/-- a run of the server and the running handlers without new client input -/
inductive Progress (c : Cfg) : State → State → Prop where
  | refl (s : State) : Progress c s s
  | step {s s1 s2 : State} {a : Act} : a.isEnvInput = false → step? c s a = some s1 →
      Progress c s1 s2 → Progress c s s2

/-- every action other than new client input strictly decreases `mu`: without new input the server
    can only take finitely many steps -/
theorem C07_measure {s s' : State} {a : Act} (h : Reachable repaired s) (ha : a.isEnvInput = false)
    (e : step? repaired s a = some s') : mu s' < mu s :=
  mu_decreases repaired_good (inv_reachable repaired_good h).a ha e

/-- once the input has ended no reachable state is stuck: if `RunATPServer` has not returned, the
    server or a running handler has an enabled action (no goroutine blocks forever on `workDone`,
    no `wg.Wait()` waits for a goroutine that cannot finish) -/
theorem C07_no_stuck {s : State} (h : Reachable repaired s) (hin : s.inputClosed = true)
    (hr : s.returned = false) : ∃ a : Act, a.isEnvInput = false ∧ (step? repaired s a).isSome = true :=
  no_stuck repaired_good (inv_reachable repaired_good h) hin hr

theorem react_inputClosed (s : State) (src : Nat) (d : Decoded) :
    (react s src d).inputClosed = s.inputClosed := by
  unfold react spawn
  repeat' split
  all_goals rfl

theorem inputClosed_mono {c : Cfg} {s s' : State} {a : Act} (e : step? c s a = some s')
    (hin : s.inputClosed = true) : s'.inputClosed = true := by
  unfold step? at e
  split at e
  · simp at e
  · cases a <;> simp only at e
    case offer => simp at e
    case closeInput => simp at e; subst e; rfl
    case breakOutput => simp at e; subst e; exact hin
    case cancel => simp at e; subst e; exact hin
    case observe =>
      unfold doObserve at e
      split at e <;> simp at e
      subst e; exact hin
    case exit g b =>
      unfold gExit setPc at e
      repeat' split at e
      all_goals (try simp at e)
      all_goals (try (subst e; exact hin))
    case hEmit => rw [(hEmit_frame e).2.2.2.2.2.2.2.2]; exact hin
    case loopRead =>
      unfold loopRead at e
      repeat' split at e
      all_goals (try simp at e)
      all_goals (try (subst e; first | exact hin | (rw [react_inputClosed]; exact hin)))
    case loopReadErr =>
      unfold loopReadErr at e
      repeat' split at e
      all_goals (try simp at e)
      all_goals (try (subst e; exact hin))
    case loopSend =>
      unfold loopSend chanSend at e
      repeat' split at e
      all_goals (try simp at e)
      all_goals (try (subst e; exact hin))
      all_goals (try (subst e; split <;> exact hin))
    case loopEnd =>
      unfold loopEnd at e
      repeat' split at e
      all_goals (try simp at e)
      all_goals (try (subst e; exact hin))
    case gStart g p =>
      unfold gStart setPc at e
      repeat' split at e
      all_goals (try simp at e)
      all_goals (try (subst e; exact hin))
    case gWrite g =>
      unfold gWrite setPc at e
      repeat' split at e
      all_goals (try simp at e)
      all_goals (try (subst e; exact hin))
    case gSend g =>
      unfold gSend chanSend setPc at e
      repeat' split at e
      all_goals (try simp at e)
      all_goals (try (subst e; exact hin))
      all_goals (try (subst e; split <;> exact hin))
    case sigRun g r =>
      unfold sigRun setPc at e
      repeat' split at e
      all_goals (try simp at e)
      all_goals (try (subst e; exact hin))
    case hRecv =>
      unfold hRecv at e
      repeat' split at e
      all_goals (try simp at e)
      all_goals (try (subst e; exact hin))
    case hCancel =>
      unfold hCancel at e
      repeat' split at e
      all_goals (try simp at e)
      all_goals (try (subst e; exact hin))
    case close =>
      unfold closeChan at e
      repeat' split at e
      all_goals (try simp at e)
      all_goals (try (subst e; exact hin))
    case ret =>
      unfold doRet at e
      repeat' split at e
      all_goals (try simp at e)
      all_goals (try (subst e; exact hin))

/-- From every reachable state in which the input has ended, the server returns: every maximal run
    without new input is finite (`C07_measure`) and can only end in the returned state
    (`C07_no_stuck`); here: such a run exists. Running handlers are assumed to finish (their `exit`
    is a `Progress` step), nothing else is assumed. -/
theorem C07_returns {s : State} (h : Reachable repaired s) (hin : s.inputClosed = true) :
    ∃ s', Progress repaired s s' ∧ s'.returned = true := by
  generalize hn : mu s = n
  induction n using Nat.strongRecOn generalizing s with
  | _ n ih =>
    cases hr : s.returned with
    | true => exact ⟨s, Progress.refl s, hr⟩
    | false =>
      obtain ⟨a, ha, hs⟩ := C07_no_stuck h hin hr
      cases hst : step? repaired s a with
      | none => simp [hst] at hs
      | some s1 =>
        have hlt := C07_measure h ha hst
        obtain ⟨s', hp, hret⟩ := ih (mu s1) (by omega) (Reachable.step h hst) (inputClosed_mono hst hin) rfl
        exact ⟨s', Progress.step ha hst hp, hret⟩

-- non-vacuity: the hypotheses hold in a state with a blocked-looking configuration: input ended,
-- handler has stopped sending after a fatal error, a failing step still has to report
example : ∃ s, Reachable repaired s ∧ s.inputClosed = true ∧ s.returned = false ∧ s.stopped = true ∧
    (∃ x, s.gs[0]? = some x ∧ x.pc = .failing) := by
  refine ⟨_, reachable_runActs (c := repaired) Reachable.init (as :=
    [.offer (.msg ⟨none, none, none⟩), .loopRead,
     .offer (.msg ⟨some 1, some 1, some ⟨some false, true⟩⟩), .loopRead, .gStart 0 .enter,
     .offer .bad, .closeInput, .loopRead, .loopSend, .loopEnd, .hRecv, .hEmit,
     .exit 0 .fail]) rfl, ?_⟩
  decide

/-! ## C07_stateless_decode -/

/-- the repaired read loop's decoding of a message depends only on that message -/
theorem C07_stateless_decode (prev prev' : Decoded) (w : Wire) :
    decode repaired prev w = decode repaired prev' w := rfl

/-- and so does the read loop's whole reaction: the decode target of the previous iteration has no
    influence on the next state (other than being overwritten) -/
theorem C07_stateless_read (s : State) (prev : Decoded) :
    (step? repaired { s with last := prev } .loopRead).map (fun t => { t with last := Decoded.zero }) =
    (step? repaired s .loopRead).map (fun t => { t with last := Decoded.zero }) := by
  have hd : ∀ p w, decode repaired p w = fill Decoded.zero w := fun _ _ => rfl
  unfold step? loopRead
  simp only [hd]
  cases s.crashed <;> simp only [Bool.false_eq_true, if_false, if_true] <;> try rfl
  cases s.input with
  | nil => rfl
  | cons it rest =>
    cases s.loop <;> cases it <;> simp only <;> try rfl
    · split <;> rfl

/-- the pinned read loop is not stateless: a work-start without `run_id` inherits the previous
    message's run ID and is accepted -/
theorem C07_pinned_stale_decode :
    decode pinned ⟨1, 7, ⟨some false, true⟩⟩ ⟨some 1, none, some ⟨some false, true⟩⟩ =
      ⟨1, 7, ⟨some false, true⟩⟩ ∧
    decode repaired ⟨1, 7, ⟨some false, true⟩⟩ ⟨some 1, none, some ⟨some false, true⟩⟩ =
      ⟨1, 0, ⟨some false, true⟩⟩ := by
  decide

/-! ## C07_pinned_crash: what the repairs fixed -/

/-- Pinned rules: work-start, client-done (the read loop ends and closes `workDone`), then the step
    fails and sends its report on the closed channel: the process dies. -/
theorem C07_pinned_crash :
    ∃ s, Reachable pinned s ∧ s.crashed = true := by
  refine ⟨_, reachable_runActs (c := pinned) Reachable.init (as :=
    [.offer (.msg ⟨none, none, none⟩), .loopRead,
     .offer (.msg ⟨some 1, some 1, some ⟨some false, true⟩⟩), .loopRead, .gStart 0 .enter,
     .offer (.msg ⟨some 4, some 0, some ⟨some true, true⟩⟩), .loopRead, .loopEnd,
     .exit 0 .fail, .gSend 0]) rfl, ?_⟩
  decide

/-- the same history is harmless under the repaired rules (it is a prefix of the example above) -/
theorem C07_repaired_same_history :
    (runActs repaired State.init
      [.offer (.msg ⟨none, none, none⟩), .loopRead,
       .offer (.msg ⟨some 1, some 1, some ⟨some false, true⟩⟩), .loopRead, .gStart 0 .enter,
       .offer (.msg ⟨some 4, some 0, some ⟨some true, true⟩⟩), .loopRead, .loopEnd,
       .exit 0 .fail, .gSend 0]).map (·.crashed) = some false := by
  decide

/-- Pinned rules: a signal with an unknown signal ID dereferences nil in `CallSignal`. -/
theorem C07_pinned_crash_signal :
    ∃ s, Reachable pinned s ∧ s.crashed = true := by
  refine ⟨_, reachable_runActs (c := pinned) Reachable.init (as :=
    [.offer (.msg ⟨none, none, none⟩), .loopRead,
     .offer (.msg ⟨some 1, some 1, some ⟨some false, true⟩⟩), .loopRead,
     .offer (.msg ⟨some 3, some 1, some ⟨none, true⟩⟩), .loopRead,
     .sigRun 1 .unknown]) rfl, ?_⟩
  decide

/-- the state reached under the pinned rules by: cancellation (the handler returns), four messages
    with an unknown message ID (three reports fill the channel, the read loop blocks on the fourth),
    end of input -/
def pinnedStuck : Option State :=
  runActs pinned State.init
    [.offer (.msg ⟨none, none, none⟩), .loopRead, .cancel, .hCancel,
     .offer (.msg ⟨some 99, some 0, none⟩), .offer (.msg ⟨some 99, some 0, none⟩),
     .offer (.msg ⟨some 99, some 0, none⟩), .offer (.msg ⟨some 99, some 0, none⟩), .closeInput,
     .loopRead, .loopSend, .loopRead, .loopSend, .loopRead, .loopSend, .loopRead]

/-- Pinned rules: that state is reachable, the input has ended, no handler is running, and neither
    the server nor `RunATPServer`'s return is enabled: it hangs forever. -/
theorem C07_pinned_hang :
    ∃ s, Reachable pinned s ∧ s.inputClosed = true ∧ s.returned = false ∧ s.crashed = false ∧
      (internalActs s ++ [Act.ret]).all (fun a => (step? pinned s a).isNone) = true := by
  cases h : pinnedStuck with
  | none => exact absurd h (by decide)
  | some s =>
    refine ⟨s, reachable_runActs (c := pinned) Reachable.init h, ?_⟩
    have : pinnedStuck = some s := h
    revert this
    unfold pinnedStuck
    intro this
    have hs : s = (pinnedStuck.get (by decide)) := by simp [h]
    subst hs
    decide

end Arca.AtpServer

open Arca.AtpServer in
#print axioms C07_no_panic
open Arca.AtpServer in
#print axioms C07_no_panic_any_capacity
open Arca.AtpServer in
#print axioms C07_closed_means_no_sender
open Arca.AtpServer in
#print axioms C07_terminal_once
open Arca.AtpServer in
#print axioms C07_terminal_at_return
open Arca.AtpServer in
#print axioms C07_terminal_run_id
open Arca.AtpServer in
#print axioms C07_no_spurious_terminal
open Arca.AtpServer in
#print axioms C07_measure
open Arca.AtpServer in
#print axioms C07_no_stuck
open Arca.AtpServer in
#print axioms C07_returns
open Arca.AtpServer in
#print axioms C07_stateless_decode
open Arca.AtpServer in
#print axioms C07_stateless_read
open Arca.AtpServer in
#print axioms C07_pinned_stale_decode
open Arca.AtpServer in
#print axioms C07_pinned_crash
open Arca.AtpServer in
#print axioms C07_pinned_crash_signal
open Arca.AtpServer in
#print axioms C07_pinned_hang
