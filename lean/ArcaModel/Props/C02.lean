import ArcaModel.Lemmas.Traverse
import ArcaModel.Lemmas.NoPanicRun
/-
  C02  Unserialize accepts exactly the values meeting every declared value constraint; the accepted
       result is exactly the denoted value; Validate and Serialize enforce the same constraints on
       native values.

  The "denotes" relations below are the declarative reading of the SDK's fixed lenient
  conversions, written independently of the operational model (`run`); the theorems say the
  model coincides with them, for every schema parameter and every Go value.
-/
namespace Arca
open Out

/-! ### bounds -/

def InBoundsInt (min max : Option Int) (n : Int) : Prop :=
  (∀ m, min = some m → m ≤ n) ∧ (∀ m, max = some m → n ≤ m)

def LenOK (min max : Option Int) (n : Nat) : Prop :=
  (∀ m, min = some m → m ≤ (n : Int)) ∧ (∀ m, max = some m → (n : Int) ≤ m)

/-- a declared float bound admits only ordered values inside it (so never NaN) -/
def InBoundsFloat (min max : Option Nat) (b : Nat) : Prop :=
  (∀ m, min = some m → F64.ge b m = true) ∧ (∀ m, max = some m → F64.le b m = true)

theorem checkInt_ok_iff (min max : Option Int) (n : Int) : checkInt min max n = .ok () ↔ InBoundsInt min max n := by
  unfold checkInt InBoundsInt
  cases min <;> cases max <;> simp [cerr] <;> (repeat' split) <;> simp_all <;> omega

theorem checkLen_ok_iff (min max : Option Int) (n : Nat) : checkLen min max n = .ok () ↔ LenOK min max n := by
  unfold checkLen LenOK
  cases min <;> cases max <;> simp [cerr] <;> (repeat' split) <;> simp_all <;> omega

theorem checkFloat_ok_iff (min max : Option Nat) (b : Nat) : checkFloat min max b = .ok () ↔ InBoundsFloat min max b := by
  unfold checkFloat InBoundsFloat
  cases min <;> cases max <;> simp [cerr] <;> (repeat' split) <;> simp_all

theorem checkInt_total (min max : Option Int) (n : Int) : checkInt min max n = .ok () ∨ checkInt min max n = .cerr := by
  unfold checkInt; (repeat' split) <;> simp

/-- NaN compares false with everything -/
theorem F64.nan_not_ge (b m : Nat) (h : F64.isNaN b = true) : F64.ge b m = false := by
  unfold F64.isNaN at h
  have hb : F64.decode b = .nan := by simpa using h
  simp only [F64.ge, F64.le, hb]
  cases F64.decode m <;> simp [F64.ltV, F64.eqV]

theorem F64.nan_not_le (b m : Nat) (h : F64.isNaN b = true) : F64.le b m = false := by
  unfold F64.isNaN at h
  have hb : F64.decode b = .nan := by simpa using h
  simp [F64.le, hb, F64.ltV, F64.eqV]

/-- a float schema with ANY declared bound rejects NaN -/
theorem C02_float_bound_rejects_nan (min max : Option Nat) (b : Nat) (hn : F64.isNaN b = true)
    (hb : min.isSome ∨ max.isSome) : ¬ InBoundsFloat min max b := by
  intro ⟨h1, h2⟩
  rcases hb with hb | hb
  · obtain ⟨m, hm⟩ := Option.isSome_iff_exists.mp hb
    have := h1 m hm
    rw [F64.nan_not_ge b m hn] at this
    exact absurd this (by simp)
  · obtain ⟨m, hm⟩ := Option.isSome_iff_exists.mp hb
    have := h2 m hm
    rw [F64.nan_not_le b m hn] at this
    exact absurd this (by simp)

/-! ### integers -/

/-- the integer a raw value denotes: any integer kind (if it fits int64), a float that is exactly an
    integer in int64 range, a decimal (or unit) string, a boolean as 0/1 -/
inductive IntDenotes (u : Option Units) : V → Int → Prop
  | int {k n} : inInt64 n = true → IntDenotes u (.int k n) n
  | float {k b n} : F64.toInt64Exact b = some n → IntDenotes u (.float k b) n
  | strPlain {s n} : u = none → parseInt10 s = some n → IntDenotes u (.str s) n
  | strUnits {s n un} : u = some un → un.parseInt s = some n → IntDenotes u (.str s) n
  | bool {b} : IntDenotes u (.bool b) (if b then 1 else 0)

theorem intInputMapper_ok_iff (u : Option Units) (v : V) (n : Int) :
    intInputMapper u v = .ok n ↔ IntDenotes u v n := by
  constructor
  · intro h
    unfold intInputMapper at h
    split at h
    · split at h
      · split at h
        · rename_i un _ _ hp
          simp at h; subst h; exact .strUnits rfl hp
        · simp [plain] at h
      · split at h
        · rename_i hp
          simp at h; subst h; exact .strPlain rfl hp
        · simp [plain] at h
    · split at h
      · rename_i hle
        simp at h; subst h; exact .int hle
      · simp [plain] at h
    · split at h
      · rename_i hp
        simp at h; subst h; exact .float hp
      · simp [plain] at h
    · simp at h; subst h; exact .bool
    · simp [plain] at h
  · intro h
    cases h with
    | int hle => simp [intInputMapper, hle]
    | float hp => simp [intInputMapper, hp]
    | strPlain hu hp => subst hu; simp [intInputMapper, hp]
    | strUnits hu hp => subst hu; simp [intInputMapper, hp]
    | bool => simp [intInputMapper]

/-- Unserialize of an integer schema accepts exactly the raw values denoting an integer within
    the declared bounds, and returns that integer as int64. -/
theorem C02_int_unser_iff (x : Ext) (fuel : Nat) (env : Env) (min max : Option Int) (u : Option Units) (v r : V) :
    run x (fuel + 1) .U env (.int min max u) v = .ok r ↔
      ∃ n, IntDenotes u v n ∧ InBoundsInt min max n ∧ r = .int .int64 n := by
  simp only [run, runInt]
  constructor
  · intro h
    obtain ⟨n, h1, h2⟩ := bind_eq_ok h
    obtain ⟨_, h3, h4⟩ := bind_eq_ok h2
    simp at h4
    exact ⟨n, (intInputMapper_ok_iff _ _ _).mp (rewrapC_eq_ok.mp h1), (checkInt_ok_iff _ _ _).mp h3, h4.symm⟩
  · intro ⟨n, h1, h2, h3⟩
    subst h3
    simp [(intInputMapper_ok_iff _ _ _).mpr h1, rewrapC, (checkInt_ok_iff _ _ _).mpr h2, Out.bind]

/-- Validate and Serialize of a native integer enforce the same bounds (and Serialize is the identity). -/
theorem C02_int_native (x : Ext) (fuel : Nat) (env : Env) (min max : Option Int) (u : Option Units) (n : Int)
    (hn : inInt64 n = true) :
    (run x (fuel + 1) .V env (.int min max u) (.int .int64 n) = done ↔ InBoundsInt min max n) ∧
    (∀ r, run x (fuel + 1) .S env (.int min max u) (.int .int64 n) = .ok r ↔ InBoundsInt min max n ∧ r = .int .int64 n) := by
  have hw : wrapInt64 n = n := by
    unfold inInt64 minInt64 maxInt64 at hn
    unfold wrapInt64
    simp at hn
    have h1 : (2:Int)^64 = 18446744073709551616 := by decide
    have h2 : (2:Int)^63 = 9223372036854775808 := by decide
    simp only [h1, h2] at *
    split <;> omega
  simp only [run, runInt, asInt, V.under, hw]
  constructor
  · constructor
    · intro h
      obtain ⟨_, h1, h2⟩ := bind_eq_ok h
      obtain ⟨_, h3, _⟩ := bind_eq_ok h2
      simp at h1; subst h1
      exact (checkInt_ok_iff _ _ _).mp h3
    · intro h
      simp [(checkInt_ok_iff _ _ _).mpr h, Out.bind, done]
  · intro r
    constructor
    · intro h
      obtain ⟨_, h1, h2⟩ := bind_eq_ok h
      obtain ⟨_, h3, h4⟩ := bind_eq_ok h2
      simp at h1; subst h1
      simp at h4
      exact ⟨(checkInt_ok_iff _ _ _).mp h3, h4.symm⟩
    · intro ⟨h, hr⟩
      subst hr
      simp [(checkInt_ok_iff _ _ _).mpr h, Out.bind]

/-! ### floats -/

/-- the float a raw value denotes: integers are converted by round-to-nearest (`float64(n)`),
    strings are parsed by strconv or by the unit grammar, booleans are 0/1 -/
inductive FloatDenotes (x : Ext) (u : Option Units) : V → Nat → Prop
  | int {k n} : FloatDenotes x u (.int k n) (F64.ofInt n)
  | float {k b} : FloatDenotes x u (.float k b) b
  | strPlain {s b} : u = none → x.parseFloat s = some b → FloatDenotes x u (.str s) b
  | strUnits {s b un} : u = some un → un.parseFloat x s = some b → FloatDenotes x u (.str s) b
  | bool {b} : FloatDenotes x u (.bool b) (if b then F64.ofInt 1 else 0)

theorem floatInputMapper_ok_iff (x : Ext) (u : Option Units) (v : V) (b : Nat) :
    floatInputMapper x u v = .ok b ↔ FloatDenotes x u v b := by
  constructor
  · intro h
    unfold floatInputMapper at h
    split at h
    · split at h
      · split at h
        · rename_i un _ _ hp
          simp at h; subst h; exact .strUnits rfl hp
        · simp [plain] at h
      · split at h
        · rename_i hp
          simp at h; subst h; exact .strPlain rfl hp
        · simp [plain] at h
    · simp at h; subst h; exact .int
    · simp at h; subst h; exact .float
    · simp at h; subst h; exact .bool
    · simp [plain] at h
  · intro h
    cases h with
    | int => simp [floatInputMapper]
    | float => simp [floatInputMapper]
    | strPlain hu hp => subst hu; simp [floatInputMapper, hp]
    | strUnits hu hp => subst hu; simp [floatInputMapper, hp]
    | bool => simp [floatInputMapper]

theorem C02_float_unser_iff (x : Ext) (fuel : Nat) (env : Env) (min max : Option Nat) (u : Option Units) (v r : V) :
    run x (fuel + 1) .U env (.float min max u) v = .ok r ↔
      ∃ b, FloatDenotes x u v b ∧ InBoundsFloat min max b ∧ r = .float .f64 b := by
  simp only [run, runFloat]
  constructor
  · intro h
    obtain ⟨b, h1, h2⟩ := bind_eq_ok h
    obtain ⟨_, h3, h4⟩ := bind_eq_ok h2
    simp at h4
    exact ⟨b, (floatInputMapper_ok_iff _ _ _ _).mp (rewrapC_eq_ok.mp h1), (checkFloat_ok_iff _ _ _).mp h3, h4.symm⟩
  · intro ⟨b, h1, h2, h3⟩
    subst h3
    simp [(floatInputMapper_ok_iff _ _ _ _).mpr h1, rewrapC, (checkFloat_ok_iff _ _ _).mpr h2, Out.bind]

/-- Validate / Serialize of a native float64 enforce the same bounds; in particular NaN is rejected
    as soon as a bound is declared. -/
theorem C02_float_native (x : Ext) (fuel : Nat) (env : Env) (min max : Option Nat) (u : Option Units) (b : Nat) :
    (run x (fuel + 1) .V env (.float min max u) (.float .f64 b) = done ↔ InBoundsFloat min max b) ∧
    (∀ r, run x (fuel + 1) .S env (.float min max u) (.float .f64 b) = .ok r ↔ InBoundsFloat min max b ∧ r = .float .f64 b) := by
  simp only [run, runFloat, asFloat, V.under]
  constructor
  · constructor
    · intro h
      obtain ⟨_, h1, h2⟩ := bind_eq_ok h
      obtain ⟨_, h3, _⟩ := bind_eq_ok h2
      simp at h1; subst h1
      exact (checkFloat_ok_iff _ _ _).mp h3
    · intro h
      simp [(checkFloat_ok_iff _ _ _).mpr h, Out.bind, done]
  · intro r
    constructor
    · intro h
      obtain ⟨_, h1, h2⟩ := bind_eq_ok h
      obtain ⟨_, h3, h4⟩ := bind_eq_ok h2
      simp at h1; subst h1
      simp at h4
      exact ⟨(checkFloat_ok_iff _ _ _).mp h3, h4.symm⟩
    · intro ⟨h, hr⟩
      subst hr
      simp [(checkFloat_ok_iff _ _ _).mpr h, Out.bind]

/-! ### strings -/

/-- the string a raw value denotes: itself, an integer in decimal, a float as `%f` -/
inductive StrDenotes (x : Ext) : V → String → Prop
  | str {s} : StrDenotes x (.str s) s
  | int {k n} : StrDenotes x (.int k n) (fmtInt n)
  | float {k b} : StrDenotes x (.float k b) (x.fmtF b)

theorem stringInputMapper_ok_iff (x : Ext) (v : V) (s : String) :
    stringInputMapper x v = .ok s ↔ StrDenotes x v s := by
  constructor
  · intro h
    unfold stringInputMapper at h
    split at h <;> simp [plain] at h
    · subst h; exact .str
    · subst h; exact .int
    · subst h; exact .float
  · intro h
    cases h <;> simp [stringInputMapper]

/-- length (in bytes, as Go's `len`) within bounds and the pattern, if any, matches -/
def StrOK (x : Ext) (min max : Option Int) (pat : Option String) (s : String) : Prop :=
  LenOK min max s.utf8ByteSize ∧ (∀ p, pat = some p → x.reMatch p s = true)

theorem checkStr_ok_iff (x : Ext) (min max : Option Int) (pat : Option String) (s : String) :
    checkStr x min max pat s = .ok () ↔ StrOK x min max pat s := by
  unfold checkStr StrOK
  constructor
  · intro h
    split at h
    · rename_i hl
      refine ⟨(checkLen_ok_iff _ _ _).mp hl, ?_⟩
      split at h
      · rename_i p
        split at h
        · intro p' hp'; cases hp'; assumption
        · simp [cerr] at h
      · intro p hp; cases hp
    · rename_i o hne
      exfalso
      exact hne (by rw [h])
  · intro ⟨h1, h2⟩
    rw [(checkLen_ok_iff _ _ _).mpr h1]
    simp only
    split
    · rename_i p
      simp [h2 p rfl]
    · rfl

theorem C02_str_unser_iff (x : Ext) (fuel : Nat) (env : Env) (min max : Option Int) (pat : Option String) (v r : V) :
    run x (fuel + 1) .U env (.str min max pat) v = .ok r ↔
      ∃ s, StrDenotes x v s ∧ StrOK x min max pat s ∧ r = .str s := by
  simp only [run, runStr]
  constructor
  · intro h
    obtain ⟨s, h1, h2⟩ := bind_eq_ok h
    obtain ⟨_, h3, h4⟩ := bind_eq_ok h2
    simp at h4
    exact ⟨s, (stringInputMapper_ok_iff _ _ _).mp (rewrapC_eq_ok.mp h1), (checkStr_ok_iff _ _ _ _ _).mp h3, h4.symm⟩
  · intro ⟨s, h1, h2, h3⟩
    subst h3
    simp [(stringInputMapper_ok_iff _ _ _).mpr h1, rewrapC, (checkStr_ok_iff _ _ _ _ _).mpr h2, Out.bind]

theorem C02_str_native (x : Ext) (fuel : Nat) (env : Env) (min max : Option Int) (pat : Option String) (s : String) :
    (run x (fuel + 1) .V env (.str min max pat) (.str s) = done ↔ StrOK x min max pat s) ∧
    (∀ r, run x (fuel + 1) .S env (.str min max pat) (.str s) = .ok r ↔ StrOK x min max pat s ∧ r = .str s) := by
  simp only [run, runStr, asString, V.under]
  constructor
  · constructor
    · intro h
      obtain ⟨_, h1, h2⟩ := bind_eq_ok h
      obtain ⟨_, h3, _⟩ := bind_eq_ok h2
      simp at h1; subst h1
      exact (checkStr_ok_iff _ _ _ _ _).mp h3
    · intro h
      simp [(checkStr_ok_iff _ _ _ _ _).mpr h, Out.bind, done]
  · intro r
    constructor
    · intro h
      obtain ⟨_, h1, h2⟩ := bind_eq_ok h
      obtain ⟨_, h3, h4⟩ := bind_eq_ok h2
      simp at h1; subst h1
      simp at h4
      exact ⟨(checkStr_ok_iff _ _ _ _ _).mp h3, h4.symm⟩
    · intro ⟨h, hr⟩
      subst hr
      simp [(checkStr_ok_iff _ _ _ _ _).mpr h, Out.bind]

/-! ### booleans, enums, patterns -/

/-- the boolean a raw value denotes: a bool, one of the fourteen words (case-insensitively), or
    an integer of any width equal to 0 or 1 -/
inductive BoolDenotes : V → Bool → Prop
  | bool {b} : BoolDenotes (.bool b) b
  | word {s b} : boolOfWord s = some b → BoolDenotes (.str s) b
  | one {k n} : wrapInt64 n = 1 → BoolDenotes (.int k n) true
  | zero {k n} : wrapInt64 n = 0 → BoolDenotes (.int k n) false

theorem C02_bool_unser_iff (x : Ext) (fuel : Nat) (env : Env) (v r : V) :
    run x (fuel + 1) .U env .bool v = .ok r ↔ ∃ b, BoolDenotes v b ∧ r = .bool b := by
  simp only [run, runBool]
  constructor
  · intro h
    obtain ⟨b, h1, h2⟩ := bind_eq_ok h
    simp at h2
    refine ⟨b, ?_, h2.symm⟩
    unfold boolInputMapper at h1
    split at h1
    · simp at h1; subst h1; exact .bool
    · split at h1
      · rename_i hw
        simp at h1; subst h1; exact .word hw
      · simp [cerr] at h1
    · simp only at h1
      split at h1
      · rename_i hw
        simp at h1; subst h1; exact .one (by simpa using hw)
      · split at h1
        · rename_i hw
          simp at h1; subst h1; exact .zero (by simpa using hw)
        · simp [cerr] at h1
    · simp [cerr] at h1
  · intro ⟨b, h1, h2⟩
    subst h2
    cases h1 with
    | bool => simp [boolInputMapper, Out.bind]
    | word hw => simp [boolInputMapper, hw, Out.bind]
    | one hw => simp [boolInputMapper, hw, Out.bind]
    | zero hw => simp [boolInputMapper, hw, Out.bind]

/-- an integer enum accepts exactly the raw values denoting one of its members -/
theorem C02_enumInt_unser_iff (x : Ext) (fuel : Nat) (env : Env) (vals : List Int) (u : Option Units) (v r : V) :
    run x (fuel + 1) .U env (.enumInt vals u) v = .ok r ↔
      ∃ n, IntDenotes u v n ∧ n ∈ vals ∧ r = .int .int64 n := by
  simp only [run, runEnumInt]
  constructor
  · intro h
    obtain ⟨n, h1, h2⟩ := bind_eq_ok h
    have h1' : intInputMapper u v = .ok n := by
      cases hm : intInputMapper u v <;> simp [hm, rewrapC, cerr] at h1
      subst h1; rfl
    split at h2
    · rename_i hc
      simp at h2
      exact ⟨n, (intInputMapper_ok_iff _ _ _).mp h1', by simpa using hc, h2.symm⟩
    · simp [cerr] at h2
  · intro ⟨n, h1, h2, h3⟩
    subst h3
    simp [(intInputMapper_ok_iff _ _ _).mpr h1, rewrapC, Out.bind, h2]

/-- a string enum accepts exactly the raw values denoting one of its members (so the integer `5`
    is a member of the enum {"5"}) -/
theorem C02_enumStr_unser_iff (x : Ext) (fuel : Nat) (env : Env) (vals : List String) (v r : V) :
    run x (fuel + 1) .U env (.enumStr vals) v = .ok r ↔
      ∃ s, StrDenotes x v s ∧ s ∈ vals ∧ r = .str s := by
  simp only [run, runEnumStr]
  constructor
  · intro h
    obtain ⟨s, h1, h2⟩ := bind_eq_ok h
    have h1' : stringInputMapper x v = .ok s := by
      cases hm : stringInputMapper x v <;> simp [hm, rewrapC, cerr] at h1
      subst h1; rfl
    split at h2
    · rename_i hc
      simp at h2
      exact ⟨s, (stringInputMapper_ok_iff _ _ _).mp h1', by simpa using hc, h2.symm⟩
    · simp [cerr] at h2
  · intro ⟨s, h1, h2, h3⟩
    subst h3
    simp [(stringInputMapper_ok_iff _ _ _).mpr h1, rewrapC, Out.bind, h2]

/-- a pattern schema accepts exactly the raw values denoting a string that compiles as a regexp -/
theorem C02_pattern_unser_iff (x : Ext) (fuel : Nat) (env : Env) (v r : V) :
    run x (fuel + 1) .U env .pattern v = .ok r ↔
      ∃ s, StrDenotes x v s ∧ x.reCompiles s = true ∧ r = .regex s := by
  simp only [run, runPattern]
  constructor
  · intro h
    obtain ⟨s, h1, h2⟩ := bind_eq_ok h
    split at h2
    · rename_i hc
      simp at h2
      exact ⟨s, (stringInputMapper_ok_iff _ _ _).mp (rewrapC_eq_ok.mp h1), hc, h2.symm⟩
    · simp [cerr] at h2
  · intro ⟨s, h1, h2, h3⟩
    subst h3
    simp [(stringInputMapper_ok_iff _ _ _).mpr h1, rewrapC, Out.bind, h2]

/-! ### lists and maps: size bounds, and recursively the item / key / value schemas -/

theorem addSeg_eq_ok {α} {o : Out α} {s : String} {a : α} : o.addSeg s = .ok a ↔ o = .ok a := by
  cases o <;> simp [addSeg]

theorem allIdx_addSeg_iff {g : V → Out V} : ∀ {n : Nat} {xs ys : List V},
    AllIdx (fun i e => (g e).addSeg (idxSeg i)) n xs ys ↔ Forall2 (fun e y => g e = .ok y) xs ys := by
  intro n xs
  induction xs generalizing n with
  | nil =>
    intro ys
    constructor
    · intro h; cases h; exact .nil
    · intro h; cases h; exact .nil
  | cons x xs ih =>
    intro ys
    constructor
    · intro h
      cases h with
      | cons hx hr => exact .cons (addSeg_eq_ok.mp hx) (ih.mp hr)
    · intro h
      cases h with
      | cons hx hr => exact .cons (addSeg_eq_ok.mpr hx) (ih.mpr hr)

/-- A list schema accepts exactly the slices whose length is within the bounds and whose every
    element is accepted by the item schema; the result is the list of the elements' results. -/
theorem C02_list_unser_iff (x : Ext) (fuel : Nat) (env : Env) (item : Ty) (min max : Option Int) (v r : V) :
    run x (fuel + 1) .U env (.list item min max) v = .ok r ↔
      ∃ xs ys, v.sliceElems? = some xs ∧ LenOK min max xs.length ∧
        Forall2 (fun e y => run x fuel .U env item e = .ok y) xs ys ∧ r = .list ys := by
  simp only [run, runList]
  constructor
  · intro h
    split at h
    · simp [cerr] at h
    · rename_i xs hxs
      obtain ⟨_, h1, h2⟩ := bind_eq_ok h
      obtain ⟨ys, h3, h4⟩ := bind_eq_ok h2
      simp at h4
      exact ⟨xs, ys, hxs, (checkLen_ok_iff _ _ _).mp h1, allIdx_addSeg_iff.mp (forIdx_ok_iff.mp h3), h4.symm⟩
  · intro ⟨xs, ys, hxs, hl, hall, hr⟩
    subst hr
    simp only [hxs]
    simp [(checkLen_ok_iff _ _ _).mpr hl, Out.bind, forIdx_ok_iff.mpr (allIdx_addSeg_iff.mpr hall)]

theorem allKV_entry_iff {rec : Rec} {op : Op} {env : Env} {kt vt : Ty} : ∀ {kvs kvs' : List (V × V)},
    AllKV (entryKV rec op env kt vt) kvs kvs' ↔
      Forall2 (fun kv kv' => rec op env kt kv.1 = .ok kv'.1 ∧ rec op env vt kv.2 = .ok kv'.2) kvs kvs' := by
  intro kvs
  induction kvs with
  | nil =>
    intro kvs'
    constructor
    · intro h; cases h; exact .nil
    · intro h; cases h; exact .nil
  | cons p rest ih =>
    obtain ⟨k, e⟩ := p
    intro kvs'
    constructor
    · intro h
      cases h with
      | cons hx hr =>
        rename_i kv rest'
        unfold entryKV at hx
        obtain ⟨k', h1, h2⟩ := bind_eq_ok hx
        obtain ⟨e', h3, h4⟩ := bind_eq_ok h2
        simp at h4
        subst h4
        exact .cons ⟨addSeg_eq_ok.mp h1, addSeg_eq_ok.mp h3⟩ (ih.mp hr)
    · intro h
      cases h with
      | cons hx hr =>
        rename_i kv rest'
        obtain ⟨k', e'⟩ := kv
        refine .cons ?_ (ih.mpr hr)
        unfold entryKV
        simp [addSeg_eq_ok.mpr hx.1, addSeg_eq_ok.mpr hx.2, Out.bind]

/-- A map schema accepts exactly the maps whose size is within the bounds, whose every key and
    value is accepted by the key and value schema, and in which no two raw keys denote the same key. -/
theorem C02_map_unser_iff (x : Ext) (fuel : Nat) (env : Env) (kt vt : Ty) (min max : Option Int) (v r : V) :
    run x (fuel + 1) .U env (.map kt vt min max) v = .ok r ↔
      ∃ sh kvs kvs', v = .map sh kvs ∧ LenOK min max kvs.length ∧
        Forall2 (fun kv kv' => run x fuel .U env kt kv.1 = .ok kv'.1 ∧ run x fuel .U env vt kv.2 = .ok kv'.2) kvs kvs' ∧
        dupKey kvs' = false ∧ r = .map ⟨kt.keyTy, vt.reflectsAny⟩ kvs' := by
  simp only [run, runMap]
  constructor
  · intro h
    split at h
    · simp [cerr] at h
    · rename_i sh kvs hm
      obtain ⟨_, h1, h2⟩ := bind_eq_ok h
      obtain ⟨kvs', h3, h4⟩ := bind_eq_ok h2
      split at h4
      · simp [cerr] at h4
      · rename_i hd
        simp at h4
        have hv : v = .map sh kvs := by
          cases v <;> simp [V.mapEntries?] at hm
          obtain ⟨rfl, rfl⟩ := hm; rfl
        exact ⟨sh, kvs, kvs', hv, (checkLen_ok_iff _ _ _).mp h1, allKV_entry_iff.mp (forKV_ok_iff.mp h3),
          by simpa using hd, h4.symm⟩
  · intro ⟨sh, kvs, kvs', hv, hl, hall, hd, hr⟩
    subst hv hr
    simp only [V.mapEntries?]
    simp [(checkLen_ok_iff _ _ _).mpr hl, Out.bind, forKV_ok_iff.mpr (allKV_entry_iff.mpr hall), hd]

#print axioms C02_int_unser_iff
#print axioms C02_map_unser_iff

end Arca
