import ArcaModel.Model.Codegen
/-
  C19 - "The code generator is total, deterministic, one typed field per property."

  Theorems about `Arca.Codegen.generate` (the model of `cmd/arcaflow-codegen/gen.go` after the
  `fix:` commits: sorted keys, optional ignore argument, title-cased reference types,
  `map -> map[any]any`), for ALL documents:

    * `C19_total`        no panic for any document whose names are identifiers (`Doc.wf`), with or
                         without an ignore argument;
    * `C19_order_indep`  the output does not depend on the order of the object list nor on the order
                         of any property list (the orders stand for Go map iteration orders), given
                         that keys are distinct (they are keys of Go maps);
    * `C19_structs`      exactly one struct per non-ignored object, exactly one json-tagged field per
                         property, with the type mapping spelled out in `expectedType`.

  The tie between `generate` and the Go program is the correspondence check (harness sub-command
  `codegen`, op "CODEGEN").
-/
namespace Arca.Codegen

/-! ## Characters -/

theorem upper_table : ∀ n, n < 123 → 97 ≤ n → (Char.ofNat (n - 32)).toNat = n - 32 := by decide

theorem isUpper_upper_of_isLower {c : Char} (h : isLower c = true) : isUpper (upper c) = true := by
  simp only [isLower, Bool.and_eq_true, decide_eq_true_eq] at h
  have t := upper_table c.toNat (by omega) h.1
  simp only [upper, isLower, isUpper, h.1, h.2, decide_true, Bool.and_self, if_true, t,
    Bool.and_eq_true, decide_eq_true_eq]
  omega

theorem upper_of_not_isLower {c : Char} (h : isLower c = false) : upper c = c := by
  simp [upper, h]

theorem isLower_false_of_isUpper {c : Char} (h : isUpper c = true) : isLower c = false := by
  simp only [isUpper, Bool.and_eq_true, decide_eq_true_eq] at h
  simp only [isLower, Bool.and_eq_false_iff, decide_eq_false_iff_not]
  omega

theorem isUpper_upper_of_isLetter {c : Char} (h : isLetter c = true) : isUpper (upper c) = true := by
  simp only [isLetter, Bool.or_eq_true] at h
  cases hl : isLower c with
  | true => exact isUpper_upper_of_isLower hl
  | false =>
    rw [upper_of_not_isLower hl]
    rcases h with h | h
    · rw [hl] at h; cases h
    · exact h

theorem isLower_false_of_not_isLetter {c : Char} (h : isLetter c = false) : isLower c = false := by
  simp only [isLetter, Bool.or_eq_false_iff] at h
  exact h.1

theorem isIdentStart_of_isUpper {c : Char} (h : isUpper c = true) : isIdentStart c = true := by
  simp [isIdentStart, isLetter, h]

theorem isIdentPart_of_isUpper {c : Char} (h : isUpper c = true) : isIdentPart c = true := by
  simp [isIdentPart, isIdentStart_of_isUpper h]

/-! ## `title` keeps identifiers identifiers and never yields an all-lowercase word -/

theorem titleChars_not_allLower : ∀ (cs : List Char), cs ≠ [] → (titleChars cs).all isLower = false
  | [], h => absurd rfl h
  | c :: cs, _ => by
    cases hl : isLetter c with
    | true =>
      have := isLower_false_of_isUpper (isUpper_upper_of_isLetter hl)
      simp [titleChars, hl, this]
    | false =>
      have := isLower_false_of_not_isLetter hl
      simp [titleChars, hl, this]

theorem titleChars_ne_of_allLower (cs k : List Char) (hk : k ≠ []) (hl : k.all isLower = true) :
    titleChars cs ≠ k := by
  intro h
  cases cs with
  | nil => exact hk (by simpa [titleChars] using h.symm)
  | cons c cs =>
    have := titleChars_not_allLower (c :: cs) (by simp)
    rw [h, hl] at this
    cases this

theorem titleChars_allPart : ∀ (cs : List Char), cs.all isIdentPart = true →
    (titleChars cs).all isIdentPart = true
  | [], _ => rfl
  | c :: cs, h => by
    simp only [List.all_cons, Bool.and_eq_true] at h
    cases hl : isLetter c with
    | true =>
      simp only [titleChars, hl, if_true, List.all_cons, Bool.and_eq_true]
      exact ⟨isIdentPart_of_isUpper (isUpper_upper_of_isLetter hl), h.2⟩
    | false =>
      simp only [titleChars, hl, Bool.false_eq_true, ↓reduceIte, List.all_cons, Bool.and_eq_true]
      exact ⟨h.1, titleChars_allPart cs h.2⟩

theorem isIdentChars_titleChars (cs : List Char) (h : isIdentChars cs = true) :
    isIdentChars (titleChars cs) = true := by
  cases cs with
  | nil => cases h
  | cons c cs =>
    simp only [isIdentChars, Bool.and_eq_true] at h
    cases hl : isLetter c with
    | true =>
      simp only [titleChars, hl, if_true, isIdentChars, Bool.and_eq_true]
      exact ⟨isIdentStart_of_isUpper (isUpper_upper_of_isLetter hl), h.2⟩
    | false =>
      simp only [titleChars, hl, Bool.false_eq_true, ↓reduceIte, isIdentChars, Bool.and_eq_true]
      exact ⟨h.1, titleChars_allPart cs h.2⟩

theorem title_toList (s : String) : (title s).toList = titleChars s.toList := by
  simp [title]

theorem keywordChars_lower : ∀ k ∈ keywordChars, k ≠ [] ∧ k.all isLower = true := by decide

theorem isKeyword_title (s : String) : isKeyword (title s) = false := by
  cases h : isKeyword (title s) with
  | false => rfl
  | true =>
    simp only [isKeyword, title_toList, List.contains_iff_mem] at h
    have := keywordChars_lower _ h
    exact absurd rfl (titleChars_ne_of_allLower s.toList _ this.1 this.2)

/-- the title-cased form of an identifier is a legal Go name (never a keyword) -/
theorem goIdent_title (s : String) (h : isIdent s = true) : goIdent (title s) = true := by
  simp only [goIdent, isIdent, title_toList, isKeyword_title, Bool.not_false, Bool.and_true]
  exact isIdentChars_titleChars _ h

theorem title_ne_of_allLower (s t : String) (hk : t.toList ≠ []) (hl : t.toList.all isLower = true) :
    title s ≠ t := by
  intro h
  have := congrArg String.toList h
  rw [title_toList] at this
  exact titleChars_ne_of_allLower _ _ hk hl this

/-- `parseType` leaves a title-cased name alone: it can be none of "integer", "float", "map" -/
theorem parseType_title (s : String) : parseType (title s) = title s := by
  have h1 : title s ≠ "integer" := title_ne_of_allLower s _ (by decide) (by decide)
  have h2 : title s ≠ "float" := title_ne_of_allLower s _ (by decide) (by decide)
  have h3 : title s ≠ "map" := title_ne_of_allLower s _ (by decide) (by decide)
  simp [parseType, h1, h2, h3]

/-! ## The type mapping, stated explicitly -/

/-- C19's type mapping: references are typed by the Go name of the referenced object, `integer`
    and `float` by `int64` / `float64`, `map` (a Go keyword, so it cannot be emitted as is) by
    `map[any]any`, every other type by its type ID. -/
def expectedType (t : TypeDesc) : String :=
  if t.typeId = "ref" then title t.refId
  else if t.typeId = "integer" then "int64"
  else if t.typeId = "float" then "float64"
  else if t.typeId = "map" then "map[any]any"
  else t.typeId

theorem goType_eq_expectedType (t : TypeDesc) : goType t = expectedType t := by
  unfold goType varType expectedType
  by_cases h : t.typeId = "ref"
  · simp only [h, if_true, parseType_title]
  · simp only [h, if_false, parseType]

/-! ## Sorting -/

section Sorting
variable {α : Type}

def KeyLE (a b : String × α) : Prop := a.1 ≤ b.1

theorem insertByKey_perm (x : String × α) : ∀ l, (insertByKey x l).Perm (x :: l)
  | [] => List.Perm.refl _
  | y :: ys => by
    unfold insertByKey
    split
    · exact List.Perm.refl _
    · exact ((insertByKey_perm x ys).cons y).trans (List.Perm.swap x y ys)

theorem sortByKey_perm : ∀ l : List (String × α), (sortByKey l).Perm l
  | [] => List.Perm.refl _
  | x :: xs => (insertByKey_perm x (sortByKey xs)).trans ((sortByKey_perm xs).cons x)

theorem insertByKey_sorted (x : String × α) :
    ∀ l, l.Pairwise KeyLE → (insertByKey x l).Pairwise KeyLE
  | [], _ => by simp [insertByKey]
  | y :: ys, h => by
    have hy := List.pairwise_cons.mp h
    unfold insertByKey
    split
    · rename_i hxy
      refine List.pairwise_cons.mpr ⟨?_, h⟩
      intro z hz
      rcases List.mem_cons.mp hz with rfl | hz
      · exact hxy
      · exact String.le_trans hxy (hy.1 z hz)
    · rename_i hxy
      have hyx : y.1 ≤ x.1 := (String.le_total y.1 x.1).resolve_right hxy
      refine List.pairwise_cons.mpr ⟨?_, insertByKey_sorted x ys hy.2⟩
      intro z hz
      rcases List.mem_cons.mp ((insertByKey_perm x ys).mem_iff.mp hz) with rfl | hz
      · exact hyx
      · exact hy.1 z hz

theorem sortByKey_sorted : ∀ l : List (String × α), (sortByKey l).Pairwise KeyLE
  | [] => List.Pairwise.nil
  | x :: xs => insertByKey_sorted x _ (sortByKey_sorted xs)

/-- in an association list with distinct keys, the key determines the entry -/
theorem eq_of_key_eq : ∀ (l : List (String × α)), (l.map Prod.fst).Nodup →
    ∀ a b, a ∈ l → b ∈ l → a.1 = b.1 → a = b
  | [], _, _, _, ha, _, _ => by cases ha
  | x :: xs, nd, a, b, ha, hb, hk => by
    simp only [List.map_cons, List.nodup_cons] at nd
    rcases List.mem_cons.mp ha with rfl | ha' <;> rcases List.mem_cons.mp hb with rfl | hb'
    · rfl
    · exact absurd (hk ▸ List.mem_map_of_mem (f := Prod.fst) hb') nd.1
    · exact absurd (hk ▸ List.mem_map_of_mem (f := Prod.fst) ha') nd.1
    · exact eq_of_key_eq xs nd.2 a b ha' hb' hk

/-- Sorting a permutation of a list with distinct keys gives the same list. -/
theorem sortByKey_congr {l₁ l₂ : List (String × α)} (h : l₁.Perm l₂)
    (nd : (l₁.map Prod.fst).Nodup) : sortByKey l₁ = sortByKey l₂ := by
  refine List.Perm.eq_of_pairwise (le := KeyLE) ?_ (sortByKey_sorted l₁) (sortByKey_sorted l₂)
    (((sortByKey_perm l₁).trans h).trans (sortByKey_perm l₂).symm)
  intro a b ha hb hab hba
  have ha' : a ∈ l₁ := (sortByKey_perm l₁).mem_iff.mp ha
  have hb' : b ∈ l₁ := h.mem_iff.mpr ((sortByKey_perm l₂).mem_iff.mp hb)
  exact eq_of_key_eq l₁ nd a b ha' hb' (String.le_antisymm hab hba)

theorem insertByKey_mapSnd {β : Type} (f : α → β) (x : String × α) :
    ∀ l : List (String × α),
      insertByKey (x.1, f x.2) (l.map fun y => (y.1, f y.2))
        = (insertByKey x l).map fun y => (y.1, f y.2)
  | [] => rfl
  | y :: ys => by
    simp only [List.map_cons, insertByKey]
    split
    · rfl
    · simp only [List.map_cons, insertByKey_mapSnd f x ys]

/-- sorting looks at the keys only -/
theorem sortByKey_mapSnd {β : Type} (f : α → β) :
    ∀ l : List (String × α),
      sortByKey (l.map fun y => (y.1, f y.2)) = (sortByKey l).map fun y => (y.1, f y.2)
  | [] => rfl
  | x :: xs => by
    simp only [List.map_cons, sortByKey, sortByKey_mapSnd f xs, insertByKey_mapSnd]

end Sorting

/-! ## Lists matched element by element -/

inductive Pointwise {α β : Type} (R : α → β → Prop) : List α → List β → Prop where
  | nil : Pointwise R [] []
  | cons {a b as bs} : R a b → Pointwise R as bs → Pointwise R (a :: as) (b :: bs)

theorem Pointwise.length_eq {α β : Type} {R : α → β → Prop} {as : List α} {bs : List β}
    (h : Pointwise R as bs) : as.length = bs.length := by
  induction h with
  | nil => rfl
  | cons _ _ ih => simp [ih]

theorem pointwise_map {α β : Type} {R : α → β → Prop} (f : α → β) (h : ∀ a, R a (f a)) :
    ∀ l : List α, Pointwise R l (l.map f)
  | [] => .nil
  | a :: as => .cons (h a) (pointwise_map f h as)

/-! ## C19_total -/

/-- a `type_id` the generator can turn into a Go type: absent, `map`, or a non-keyword identifier
    (all fifteen type IDs of the schema package qualify, see `knownTypeIds_ok`) -/
def typeIdOk (t : String) : Bool := t == "" || t == "map" || goIdent t

/-- the `id` of a reference: absent or an identifier (the name of an object) -/
def refIdOk (r : String) : Bool := r == "" || isIdent r

def propOk (p : String × TypeDesc) : Bool := isIdent p.1 && typeIdOk p.2.typeId && refIdOk p.2.refId

/-- The precondition of C19: object and property names are identifiers (and the type names written
    in the document are identifiers too, which holds for every schema type ID and for every
    reference to an object of the document). -/
def Doc.wf (d : Doc) : Bool := d.all fun o => isIdent o.1 && o.2.all propOk

def knownTypeIds : List String :=
  ["string", "integer", "float", "bool", "pattern", "enum_string", "enum_integer", "list", "map",
   "object", "one_of_string", "one_of_int", "scope", "any", "ref"]

theorem knownTypeIds_ok : knownTypeIds.all typeIdOk = true := by decide

theorem title_empty : title "" = "" := by decide

theorem typeOk_goType (t : TypeDesc) (h1 : typeIdOk t.typeId = true) (h2 : refIdOk t.refId = true) :
    typeOk (goType t) = true := by
  rw [goType_eq_expectedType]
  unfold expectedType
  split
  · -- reference
    simp only [refIdOk, Bool.or_eq_true, beq_iff_eq] at h2
    rcases h2 with h2 | h2
    · rw [h2, title_empty]; decide
    · simp [typeOk, goIdent_title _ h2]
  · split
    · decide
    · split
      · decide
      · split
        · decide
        · rename_i hm
          simp only [typeIdOk, Bool.or_eq_true, beq_iff_eq] at h1
          rcases h1 with (h1 | h1) | h1
          · rw [h1]; decide
          · exact absurd h1 hm
          · simp [typeOk, h1]

theorem mem_emitted {d : Doc} {ign : Option String} {s : StructDecl} (h : s ∈ emitted d ign) :
    ∃ o, o ∈ d ∧ ignored ign o.1 = false ∧ s = structOf o := by
  simp only [emitted, List.mem_map, List.mem_filter] at h
  obtain ⟨o, ⟨ho, hk⟩, rfl⟩ := h
  exact ⟨o, (sortByKey_perm d).mem_iff.mp ho, by simpa using hk, rfl⟩

theorem structOk_structOf (o : String × Props) (h1 : isIdent o.1 = true)
    (h2 : o.2.all propOk = true) : structOk (structOf o) = true := by
  simp only [structOk, structOf, Bool.and_eq_true, List.all_eq_true, List.mem_map]
  refine ⟨goIdent_title _ h1, ?_⟩
  rintro f ⟨p, hp, rfl⟩
  have hp' : p ∈ o.2 := (sortByKey_perm o.2).mem_iff.mp hp
  have := List.all_eq_true.mp h2 p hp'
  simp only [propOk, Bool.and_eq_true] at this
  simp only [fieldOk, fieldOf, Bool.and_eq_true]
  exact ⟨goIdent_title _ this.1.1, typeOk_goType _ this.1.2 this.2⟩

theorem emitted_all_ok (d : Doc) (ign : Option String) (h : Doc.wf d = true) :
    (emitted d ign).all structOk = true := by
  rw [List.all_eq_true]
  intro s hs
  obtain ⟨o, ho, _, rfl⟩ := mem_emitted hs
  have := List.all_eq_true.mp h o ho
  simp only [Bool.and_eq_true] at this
  exact structOk_structOf o this.1 this.2

/-- **C19, totality.** For every document whose object and property names are identifiers, with
    (`ign = some o`) or without (`ign = none`) an ignore argument, the generator does not panic: it
    returns declarations. -/
theorem C19_total (d : Doc) (ign : Option String) (h : Doc.wf d = true) :
    ∃ ds, generate d ign = .ok ds := by
  refine ⟨emitted d ign, ?_⟩
  simp [generate, emitted_all_ok d ign h]

/-- A *schema file with identifier names*, literally: object and property names are identifiers,
    every `type_id` is one of the fifteen type IDs of the schema package, a reference names an
    object of the document and nothing else carries an `id`. -/
def Doc.valid (d : Doc) : Bool :=
  d.all fun o => isIdent o.1 && o.2.all fun p =>
    isIdent p.1 && knownTypeIds.contains p.2.typeId &&
      (if p.2.typeId = "ref" then (d.map Prod.fst).contains p.2.refId else p.2.refId == "")

theorem wf_of_valid (d : Doc) (h : Doc.valid d = true) : Doc.wf d = true := by
  simp only [Doc.wf, List.all_eq_true, Bool.and_eq_true]
  intro o ho
  have hv := List.all_eq_true.mp h o ho
  simp only [Bool.and_eq_true, List.all_eq_true] at hv
  refine ⟨hv.1, ?_⟩
  intro p hp
  have hpv := hv.2 p hp
  simp only [propOk, Bool.and_eq_true]
  refine ⟨⟨hpv.1.1, ?_⟩, ?_⟩
  · exact List.all_eq_true.mp knownTypeIds_ok _ (List.contains_iff_mem.mp hpv.1.2)
  · have h3 := hpv.2
    split at h3
    · obtain ⟨o', ho', hk⟩ := List.mem_map.mp (List.contains_iff_mem.mp h3)
      have hv' := List.all_eq_true.mp h o' ho'
      simp only [Bool.and_eq_true] at hv'
      simp only [refIdOk, Bool.or_eq_true]
      exact Or.inr (hk ▸ hv'.1)
    · simp only [refIdOk, Bool.or_eq_true]
      exact Or.inl h3

/-- totality, with the precondition in the words of C19 -/
theorem C19_total_valid (d : Doc) (ign : Option String) (h : Doc.valid d = true) :
    ∃ ds, generate d ign = .ok ds := C19_total d ign (wf_of_valid d h)

/-- the same for the whole program run on `os.Args[1:] = file :: rest` (any number of extra
    arguments): it produces the text for `format.Source` -/
theorem C19_total_raw (d : Doc) (file : String) (rest : List String) (h : Doc.wf d = true) :
    ∃ txt, generateRaw d (file :: rest) = .ok txt := by
  obtain ⟨ds, hds⟩ := C19_total d (ignoreArg (file :: rest)) h
  exact ⟨renderRaw (file :: rest) ds, by simp [generateRaw, hds]⟩

/-! ## C19_order_indep -/

/-- same object, property list in another order -/
def ObjEquiv (o₁ o₂ : String × Props) : Prop := o₁.1 = o₂.1 ∧ o₁.2.Perm o₂.2

/-- `d₂` is `d₁` with every property list permuted and then the object list permuted: another pair
    of iteration orders of the same Go maps -/
def DocEquiv (d₁ d₂ : Doc) : Prop := ∃ d', Pointwise ObjEquiv d₁ d' ∧ d'.Perm d₂

/-- object keys are distinct and, within each object, property keys are distinct (they are keys of
    Go maps) -/
def Doc.distinct (d : Doc) : Prop :=
  (d.map Prod.fst).Nodup ∧ ∀ o ∈ d, (o.2.map Prod.fst).Nodup

instance (d : Doc) : Decidable (Doc.distinct d) := by unfold Doc.distinct; infer_instance

def normObj (o : String × Props) : String × Props := (o.1, sortByKey o.2)

def structOfNorm (o : String × Props) : StructDecl := ⟨title o.1, o.2.map fieldOf⟩

theorem emitted_eq_norm (d : Doc) (ign : Option String) :
    emitted d ign =
      ((sortByKey (d.map normObj)).filter (fun o => !ignored ign o.1)).map structOfNorm := by
  have h := sortByKey_mapSnd (fun ps : Props => sortByKey ps) d
  have hn : (fun y : String × Props => (y.1, sortByKey y.2)) = normObj := rfl
  rw [hn] at h
  rw [h, List.filter_map, List.map_map]
  rfl

theorem map_normObj_of_pointwise {d₁ d' : Doc} (h : Pointwise ObjEquiv d₁ d')
    (nd : ∀ o ∈ d₁, (o.2.map Prod.fst).Nodup) : d₁.map normObj = d'.map normObj := by
  induction h with
  | nil => rfl
  | @cons a b as bs hab _ ih =>
    have h1 : normObj a = normObj b := by
      unfold normObj
      rw [hab.1, sortByKey_congr hab.2 (nd a (by simp))]
    simp only [List.map_cons, h1, ih (fun o ho => nd o (by simp [ho]))]

theorem map_fst_of_pointwise {d₁ d' : Doc} (h : Pointwise ObjEquiv d₁ d') :
    d₁.map Prod.fst = d'.map Prod.fst := by
  induction h with
  | nil => rfl
  | cons hab _ ih => simp only [List.map_cons, hab.1, ih]

theorem emitted_order_indep (d₁ d₂ : Doc) (ign : Option String) (hd : Doc.distinct d₁)
    (he : DocEquiv d₁ d₂) : emitted d₁ ign = emitted d₂ ign := by
  obtain ⟨d', hp, hperm⟩ := he
  have h1 : emitted d₁ ign = emitted d' ign := by
    rw [emitted_eq_norm, emitted_eq_norm, map_normObj_of_pointwise hp hd.2]
  have nd' : (d'.map Prod.fst).Nodup := by rw [← map_fst_of_pointwise hp]; exact hd.1
  rw [h1]
  unfold emitted
  rw [sortByKey_congr hperm nd']

/-- **C19, determinism.** The result (declarations or panic) is IDENTICAL for any two iteration
    orders of the object map and of every property map. -/
theorem C19_order_indep (d₁ d₂ : Doc) (ign : Option String) (hd : Doc.distinct d₁)
    (he : DocEquiv d₁ d₂) : generate d₁ ign = generate d₂ ign := by
  unfold generate
  rw [emitted_order_indep d₁ d₂ ign hd he]

/-- ... hence the text handed to `format.Source`, and with it the bytes of `typedef_output.go`
    (gofmt is a function of that text), are identical on every run with the same arguments. -/
theorem C19_order_indep_raw (d₁ d₂ : Doc) (args : List String) (hd : Doc.distinct d₁)
    (he : DocEquiv d₁ d₂) : generateRaw d₁ args = generateRaw d₂ args := by
  unfold generateRaw
  cases args with
  | nil => rfl
  | cons f rest => rw [C19_order_indep d₁ d₂ _ hd he]

/-- plain permutations of the object list are a special case -/
theorem DocEquiv.of_perm {d₁ d₂ : Doc} (h : d₁.Perm d₂) : DocEquiv d₁ d₂ := by
  refine ⟨d₁, ?_, h⟩
  have : ∀ l : Doc, Pointwise ObjEquiv l l := by
    intro l
    induction l with
    | nil => exact .nil
    | cons a as ih => exact .cons ⟨rfl, List.Perm.refl _⟩ ih
  exact this d₁

/-! ## C19_structs -/

/-- `f` is the field of property `p`: title-cased name, the property name as json tag, mapped type -/
def FieldFor (p : String × TypeDesc) (f : FieldDecl) : Prop :=
  f.name = title p.1 ∧ f.tag = p.1 ∧ f.type = expectedType p.2

/-- `s` is the struct of object `o`: title-cased name and exactly one field per property (matched
    one to one with some ordering `ps` of the property list) -/
def StructFor (o : String × Props) (s : StructDecl) : Prop :=
  s.name = title o.1 ∧ ∃ ps, ps.Perm o.2 ∧ Pointwise FieldFor ps s.fields

theorem structFor_structOf (o : String × Props) : StructFor o (structOf o) := by
  refine ⟨rfl, sortByKey o.2, sortByKey_perm o.2, ?_⟩
  exact pointwise_map fieldOf (fun p => ⟨rfl, rfl, goType_eq_expectedType p.2⟩) _

theorem generate_ok {d : Doc} {ign : Option String} {ds : List StructDecl}
    (h : generate d ign = .ok ds) : ds = emitted d ign := by
  unfold generate at h
  simp only at h
  split at h
  · injection h with h; exact h.symm
  · cases h

/-- **C19, shape of the output.** If the generator returns declarations `ds` then they match, one
    to one and in order, an ordering `objs` of exactly the non-ignored objects; each struct has
    exactly one field per property, tagged with the property name and typed by `expectedType`. -/
theorem C19_structs (d : Doc) (ign : Option String) (ds : List StructDecl)
    (h : generate d ign = .ok ds) :
    ∃ objs, objs.Perm (d.filter fun o => !ignored ign o.1) ∧ Pointwise StructFor objs ds := by
  rw [generate_ok h]
  refine ⟨(sortByKey d).filter (fun o => !ignored ign o.1), (sortByKey_perm d).filter _, ?_⟩
  exact pointwise_map structOf structFor_structOf _

/-- the ordering is the sorted one: the declarations are exactly the non-ignored objects in key
    order, each with its properties in key order -/
theorem C19_structs_sorted (d : Doc) (ign : Option String) (ds : List StructDecl)
    (h : generate d ign = .ok ds) :
    ds = ((sortByKey d).filter fun o => !ignored ign o.1).map fun o =>
      ⟨title o.1, (sortByKey o.2).map fun p => ⟨title p.1, expectedType p.2, p.1⟩⟩ := by
  rw [generate_ok h]
  unfold emitted
  have hf : fieldOf = fun p => ⟨title p.1, expectedType p.2, p.1⟩ := by
    funext p; simp only [fieldOf, goType_eq_expectedType]
  congr 1
  funext o
  simp only [structOf, hf]

theorem generate_eq_ok_of {d : Doc} {ign : Option String} {ds : List StructDecl}
    (h1 : emitted d ign = ds) (h2 : ds.all structOk = true) : generate d ign = .ok ds := by
  simp [generate, h1, h2]

theorem generate_eq_panic_of {d : Doc} {ign : Option String}
    (h : (emitted d ign).all structOk = false) : generate d ign = .panic := by
  simp [generate, h]

/-- counting form: as many structs as non-ignored objects -/
theorem C19_structs_count (d : Doc) (ign : Option String) (ds : List StructDecl)
    (h : generate d ign = .ok ds) :
    ds.length = (d.filter fun o => !ignored ign o.1).length := by
  obtain ⟨objs, hp, hm⟩ := C19_structs d ign ds h
  rw [← hm.length_eq, hp.length_eq]

/-- counting form: as many fields as properties -/
theorem StructFor.fields_length {o : String × Props} {s : StructDecl} (h : StructFor o s) :
    s.fields.length = o.2.length := by
  obtain ⟨_, ps, hp, hm⟩ := h
  rw [← hm.length_eq, hp.length_eq]

/-- every emitted field line carries its json tag -/
theorem renderField_tag (f : FieldDecl) :
    renderField f = "\t" ++ f.name ++ " " ++ f.type ++ " `json:\"" ++ f.tag ++ "\"`\n" := rfl

/-! ## Non-vacuity: concrete instances of the hypotheses -/

/-- three objects; names needing capitalisation, an underscore, a leading underscore and digit, a Go
    keyword as object name, a reference to it, a map, integer, float -/
def exDoc : Doc :=
  [("beta", [("b_x", ⟨"bool", ""⟩), ("a", ⟨"ref", "type"⟩), ("m", ⟨"map", ""⟩)]),
   ("type", []),
   ("alpha", [("x", ⟨"integer", ""⟩), ("_1q", ⟨"float", ""⟩), ("L", ⟨"list", ""⟩)])]

/-- the same maps iterated in another order -/
def exDoc' : Doc :=
  [("alpha", [("L", ⟨"list", ""⟩), ("x", ⟨"integer", ""⟩), ("_1q", ⟨"float", ""⟩)]),
   ("beta", [("m", ⟨"map", ""⟩), ("a", ⟨"ref", "type"⟩), ("b_x", ⟨"bool", ""⟩)]),
   ("type", [])]

def exOut : List StructDecl :=
  [⟨"Alpha", [⟨"L", "list", "L"⟩, ⟨"_1Q", "float64", "_1q"⟩, ⟨"X", "int64", "x"⟩]⟩,
   ⟨"Beta", [⟨"A", "Type", "a"⟩, ⟨"B_x", "bool", "b_x"⟩, ⟨"M", "map[any]any", "m"⟩]⟩,
   ⟨"Type", []⟩]

example : Doc.wf exDoc = true := by decide
example : Doc.valid exDoc = true := by decide
example : Doc.distinct exDoc := by decide

example : DocEquiv exDoc exDoc' :=
  ⟨[("beta", [("m", ⟨"map", ""⟩), ("a", ⟨"ref", "type"⟩), ("b_x", ⟨"bool", ""⟩)]),
    ("type", []),
    ("alpha", [("L", ⟨"list", ""⟩), ("x", ⟨"integer", ""⟩), ("_1q", ⟨"float", ""⟩)])],
   .cons ⟨rfl, by decide⟩ (.cons ⟨rfl, by decide⟩ (.cons ⟨rfl, by decide⟩ .nil)),
   by decide⟩

/-- the hypothesis of `C19_structs` holds, with and without an ignore argument -/
example : generate exDoc none = .ok exOut := generate_eq_ok_of (by decide) (by decide)
example : generate exDoc' none = .ok exOut := generate_eq_ok_of (by decide) (by decide)
example : generate exDoc (some "type") = .ok (exOut.take 2) :=
  generate_eq_ok_of (by decide) (by decide)
example : generate exDoc (some "nosuch") = .ok exOut := generate_eq_ok_of (by decide) (by decide)

/-- outside the precondition the generator does panic: a type that is a Go keyword -/
example : generate [("a", [("f", ⟨"func", ""⟩)])] none = .panic := generate_eq_panic_of (by decide)
/-- ... or a name that is not an identifier -/
example : generate [("a-b", [])] none = .panic := generate_eq_panic_of (by decide)

end Arca.Codegen

section Axioms
open Arca.Codegen
#print axioms C19_total
#print axioms C19_total_valid
#print axioms C19_total_raw
#print axioms C19_order_indep
#print axioms C19_order_indep_raw
#print axioms C19_structs
#print axioms C19_structs_sorted
#print axioms C19_structs_count
#print axioms sortByKey_congr
end Axioms
