import ArcaModel.Model.Effects
import ArcaModel.Gen.Effects
/-
  Property C13: "Schemas are safe for concurrent use, as the ATP server uses them."

  The argument has three parts.

  1. `C13_closed`, `C13_reach_sound` (table, regenerated from the working tree on every run): the set
     `reach` of the table contains every function reachable over the extracted call edges (static calls,
     class-hierarchy edges for interface and function-value calls, functions used as values, methods
     looked up by name) from the schema operations Unserialize / Validate / Serialize /
     ValidateCompatibility (and their typed forms) of every schema type, CallableSchema.CallStep /
     CallSignal, the unit definitions' Parse* / Format*, and the methods library code calls back.

  2. `C13_race_free_partial` (same table): in those functions every write to memory that is shared
     between calls - and every read of a location that has such a write - is dominated by a Lock of a
     mutex of the same receiver or of a package-level mutex that is released only afterwards, or is on
     the allow-list of `Model/Effects.lean` with its reason; none of them starts a goroutine; every
     library function handed a reference to shared memory is a known reader.
     PARTIAL: *which* stores are to shared memory, and which lock dominates them, is the extractor's
     dataflow classification (/verif/effects/origin.go: local allocation vs parameter / captured
     variable / global origin, call summaries); it is trusted, not proved. Reads of immutable schema
     fields are not listed: without a write they cannot race.

  3. `C13_isolation` (abstract machine, proved for every interleaving and any number of operations):
     operations whose only shared effects are guarded, idempotent cache fills that are a function of the
     immutable schema observe - and therefore return - in any interleaving exactly what they observe
     when run alone. `C13_unguarded_not_isolated` shows the guard is needed: the two-step fill the units
     code used to perform (publish an empty map, then insert) lets another operation see a value it
     could never see alone.

  The dynamic side (harness sub-command `race`: `-race` binaries, fresh and freshly rebuilt schema
  instances per process, 2..16 goroutines, results compared with a sequential run) searches for what
  the classification could have missed.
-/
namespace Arca

open Arca.Effects

/-! ## The regenerated table -/

/-- `reach` contains the roots and is closed under the extracted call edges -/
theorem C13_closed : closed Gen.effects = true := by decide +kernel

/-- hence it contains everything reachable from the roots -/
theorem C13_reach_sound : ∀ n, Reachable Gen.effects n → inSet Gen.effects.reach n = true :=
  closed_sound Gen.effects C13_closed

/-- every shared write (and read of a written location) in a reachable function is guarded or
    allow-listed with a reason; no reachable function spawns a goroutine; library callees are readers.
    PARTIAL: the classification of the accesses is the extractor's (see the header). -/
theorem C13_race_free_partial : raceFree Gen.effects = true := by decide +kernel

/-- the check is not vacuous: the table has roots, guarded writes in reachable functions, and the
    allow-list is needed -/
example : Gen.effects.roots.length > 100 ∧
    (Gen.effects.writes.filter fun a => inSet Gen.effects.reach a.fn && a.guard != 0).length ≥ 1 ∧
    raceFreeWith [] readOnlyExterns Gen.effects = false := by decide +kernel

/-! ## Isolation on an abstract machine

  A schema is an immutable value plus cache slots (`sortedMultipliersCache`, `reCache`, `defaultValues`,
  the step data of a run ...). `fill k` is what slot `k` holds once filled: a function of the immutable
  part only. An operation is a list of slots it consults and a pure result function of its argument and
  of what it read. Consulting a slot is ONE atomic action (the critical section): fill the slot if it
  is empty, read it. A schedule interleaves the actions of any number of operations arbitrarily.
-/
namespace Isolation

variable {Slot Val : Type} [DecidableEq Slot]

abbrev Cache (Slot Val : Type) := Slot → Option Val

/-- the guarded action: fill if empty, then read -/
def touch (fill : Slot → Val) (c : Cache Slot Val) (k : Slot) : Cache Slot Val × Val :=
  match c k with
  | some v => (c, v)
  | none => (fun j => if j = k then some (fill k) else c j, fill k)

/-- a running operation: slots still to consult, values read so far -/
structure Thread (Slot Val : Type) where
  todo : List Slot
  seen : List (Slot × Val)

def stepThread (fill : Slot → Val) (c : Cache Slot Val) (t : Thread Slot Val) :
    Cache Slot Val × Thread Slot Val :=
  match t.todo with
  | [] => (c, t)
  | k :: rest => ((touch fill c k).1, { todo := rest, seen := t.seen ++ [(k, (touch fill c k).2)] })

/-- run a schedule (thread indexes; an index out of range or a finished thread is a no-op) -/
def run (fill : Slot → Val) : Cache Slot Val → List (Thread Slot Val) → List Nat →
    Cache Slot Val × List (Thread Slot Val)
  | c, ts, [] => (c, ts)
  | c, ts, i :: sched =>
    match ts[i]? with
    | none => run fill c ts sched
    | some t => run fill (stepThread fill c t).1 (ts.set i (stepThread fill c t).2) sched

/-- every filled slot holds the value determined by the immutable schema -/
def Consistent (fill : Slot → Val) (c : Cache Slot Val) : Prop := ∀ k v, c k = some v → v = fill k

/-- what the operation has read and will read; when it has finished (`todo = []`) this is `seen`, the
    only input of its result besides its own argument -/
def view (fill : Slot → Val) (t : Thread Slot Val) : List (Slot × Val) :=
  t.seen ++ t.todo.map fun k => (k, fill k)

theorem touch_val (fill : Slot → Val) (c : Cache Slot Val) (hc : Consistent fill c) (k : Slot) :
    (touch fill c k).2 = fill k := by
  unfold touch
  split
  · next v h => exact hc k v h
  · rfl

theorem touch_consistent (fill : Slot → Val) (c : Cache Slot Val) (hc : Consistent fill c) (k : Slot) :
    Consistent fill (touch fill c k).1 := by
  unfold touch
  split
  · exact hc
  · intro j v hj
    by_cases hjk : j = k
    · subst hjk; simp at hj; exact hj.symm
    · simp [hjk] at hj; exact hc j v hj

theorem step_view (fill : Slot → Val) (c : Cache Slot Val) (hc : Consistent fill c)
    (t : Thread Slot Val) : view fill (stepThread fill c t).2 = view fill t := by
  unfold stepThread
  cases h : t.todo with
  | nil => simp
  | cons k rest => simp [view, h, touch_val fill c hc k]

theorem step_consistent (fill : Slot → Val) (c : Cache Slot Val) (hc : Consistent fill c)
    (t : Thread Slot Val) : Consistent fill (stepThread fill c t).1 := by
  unfold stepThread
  cases t.todo with
  | nil => exact hc
  | cons k rest => exact touch_consistent fill c hc k

theorem map_set_of_eq {α β : Type} (f : α → β) (l : List α) (i : Nat) (a b : α) (h : l[i]? = some a)
    (hab : f b = f a) : (l.set i b).map f = l.map f := by
  induction l generalizing i with
  | nil => simp
  | cons x xs ih =>
    cases i with
    | zero => simp at h; subst h; simp [hab]
    | succ i => simp at h; simp [ih i h]

/-- every interleaving preserves cache consistency and every operation's view -/
theorem run_inv (fill : Slot → Val) (sched : List Nat) :
    ∀ (c : Cache Slot Val) (ts : List (Thread Slot Val)), Consistent fill c →
      Consistent fill (run fill c ts sched).1 ∧
      (run fill c ts sched).2.map (view fill) = ts.map (view fill) := by
  induction sched with
  | nil => intro c ts hc; exact ⟨hc, rfl⟩
  | cons i sched ih =>
    intro c ts hc
    unfold run
    split
    · exact ih c ts hc
    · next t ht =>
      have h := ih (stepThread fill c t).1 (ts.set i (stepThread fill c t).2)
        (step_consistent fill c hc t)
      refine ⟨h.1, ?_⟩
      rw [h.2]
      exact map_set_of_eq (view fill) ts i t _ ht (step_view fill c hc t)

end Isolation

open Isolation in
/-- **Isolation.** Start any number of operations on a schema whose cache is consistent (for instance
    empty: first use), and run any schedule. Then the cache is still consistent, and an operation that
    has finished has read, slot by slot, exactly the values `fill` determines - the same list it reads
    when it runs alone (`C13_isolation_alone`), whatever the other operations did in between. Its result
    is a function of its argument and of that list. -/
theorem C13_isolation {Slot Val : Type} [DecidableEq Slot] (fill : Slot → Val)
    (c : Cache Slot Val) (hc : Consistent fill c) (ops : List (List Slot)) (sched : List Nat) :
    let ts : List (Thread Slot Val) := ops.map fun needs => { todo := needs, seen := [] }
    Consistent fill (run fill c ts sched).1 ∧
    ∀ (i : Nat) (t : Thread Slot Val), (run fill c ts sched).2[i]? = some t → t.todo = [] →
      ∃ needs, ops[i]? = some needs ∧ t.seen = needs.map fun k => (k, fill k) := by
  intro ts
  have h := run_inv fill sched c ts hc
  refine ⟨h.1, ?_⟩
  intro i t hi hdone
  have hv : ((run fill c ts sched).2.map (view fill))[i]? = some (view fill t) := by
    simp [hi]
  rw [h.2] at hv
  simp only [ts, List.map_map, List.getElem?_map, Option.map_eq_some_iff] at hv
  obtain ⟨needs, hn, hview⟩ := hv
  refine ⟨needs, hn, ?_⟩
  simp only [Function.comp, view, List.nil_append, hdone, List.map_nil, List.append_nil] at hview
  exact hview.symm

open Isolation in
/-- running alone from the empty cache yields the same reads -/
theorem C13_isolation_alone {Slot Val : Type} [DecidableEq Slot] (fill : Slot → Val)
    (needs : List Slot) (sched : List Nat) (t : Thread Slot Val)
    (h : (run fill (fun _ => none) [{ todo := needs, seen := [] }] sched).2[0]? = some t)
    (hdone : t.todo = []) : t.seen = needs.map fun k => (k, fill k) := by
  have := (C13_isolation fill (fun _ => none) (by intro k v hk; cases hk) [needs] sched).2 0 t h hdone
  simpa using this

/-- non-vacuity: two operations sharing slot 0 (say the unit expression), racing on first use -/
example :
    let fill : Nat → Nat := fun k => 10 * k + 7
    let r := Isolation.run fill (fun _ => none)
      [{ todo := [0, 1], seen := [] }, { todo := [0, 2], seen := [] }] [0, 1, 1, 0]
    r.2.map (fun t => (t.todo, t.seen)) = [([], [(0, 7), (1, 17)]), ([], [(0, 7), (2, 27)])] := by
  decide

/-! ## The guard is needed

  The unguarded two-step fill: a slot holds a list that is first published empty and then extended
  (`u.reSubExpNames = map[string]int{}` followed by the insertions). A reader between the two steps
  sees the empty list - a value no operation running alone can observe. -/
namespace Isolation

inductive Phase | start | ext | rd | done
deriving DecidableEq

/-- one action of an operation in phase `p` on slot content `c` (`none`: unfilled): new content, next
    phase, and what the operation has read (`seen`) -/
def ustep (c : Option (List Nat)) (seen : Option (List Nat)) :
    Phase → Option (List Nat) × Phase × Option (List Nat)
  | .start => match c with
    | none => (some [], .ext, seen)      -- `if cache == nil`: publish the empty container ...
    | some l => (some l, .rd, seen)      -- ... otherwise use what is there
  | .ext => (some [1, 2], .rd, seen)     -- ... then insert the entries
  | .rd => (c, .done, c)
  | .done => (c, .done, seen)

def urun : Option (List Nat) → List (Phase × Option (List Nat)) → List Nat →
    Option (List Nat) × List (Phase × Option (List Nat))
  | c, ts, [] => (c, ts)
  | c, ts, i :: sched =>
    match ts[i]? with
    | some (p, seen) =>
      urun (ustep c seen p).1 (ts.set i ((ustep c seen p).2.1, (ustep c seen p).2.2)) sched
    | none => urun c ts sched

end Isolation

open Isolation in
/-- alone, the operation reads `[1, 2]`; interleaved with another first use it can read `[]` -/
theorem C13_unguarded_not_isolated :
    (urun none [(.start, none)] [0, 0, 0]).2 = [(.done, some [1, 2])] ∧
    (urun none [(.start, none), (.start, none)] [0, 1, 1, 0, 0]).2
      = [(.done, some [1, 2]), (.done, some [])] := by
  decide

end Arca

#print axioms Arca.C13_closed
#print axioms Arca.C13_reach_sound
#print axioms Arca.C13_race_free_partial
#print axioms Arca.C13_isolation
#print axioms Arca.C13_isolation_alone
#print axioms Arca.C13_unguarded_not_isolated
