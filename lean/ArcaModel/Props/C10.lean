import ArcaModel.Model.Describe
import ArcaModel.Props.C04
/-
  C10  A schema received from a plugin is rejected with an error or fully usable.

  Model of the wire path (`Model/Describe.lean`):
    `rebuild x fuel w`          = `DescribeScope().Unserialize(w)`: `run .U` of the meta-schema
                                  (`metaScope : Ty`) on the decoded value `w`, followed by the
                                  conversion of the resulting map to the schema tree;
    `unserializeScope x jd fuel w` = `UnserializeScope(w)`: `rebuild`, then `linkCheck` (what the
                                  repaired `linkUnserializedScope` verifies: roots, references,
                                  one-of members vs. the inlining flag, decodable defaults);
    `unserializeSchema`         likewise for `UnserializeSchema` / `Client.ReadSchema`, every
                                  data scope of every step (input, outputs, signal handlers,
                                  signal emitters) being checked.
  `w` ranges over ALL Go values (`V`), `x` over all externals (regexp, float parsing/formatting),
  `jd` over all JSON decoders.
-/
namespace Arca

/-- the meta-schemas are well-formed schemas (all references resolve, roots exist, defaults decode) -/
theorem metaScope_wf : WF [] metaScope := wfB_sound 8 [] metaScope (by decide +kernel)
theorem metaSchema_wf : WF [] metaSchema := wfB_sound 8 [] metaSchema (by decide +kernel)
theorem metaStepOutput_wf : WF [] metaStepOutput := wfB_sound 8 [] metaStepOutput (by decide +kernel)

theorem liftParse_ne_panic {α} (p : V → Option α) (o : Out V) (h : o ≠ .panic) : liftParse p o ≠ .panic := by
  cases o with
  | ok v => simp only [liftParse]; split <;> simp [Out.plain]
  | err e => simp [liftParse]
  | panic => exact absurd rfl h
  | fuel => simp [liftParse]

/-- C10 (load time, scopes): rebuilding never panics, whatever value arrives. -/
theorem C10_total (x : Ext) (fuel : Nat) (w : V) : rebuild x fuel w ≠ .panic :=
  liftParse_ne_panic _ _ (C04_no_panic_closed x fuel .U metaScope w metaScope_wf)

/-- C10 (load time, plugin schemas) -/
theorem C10_total_schema (x : Ext) (fuel : Nat) (w : V) : rebuildSchema x fuel w ≠ .panic :=
  liftParse_ne_panic _ _ (C04_no_panic_closed x fuel .U metaSchema w metaSchema_wf)

/-- C10 (load time, the wire path): `UnserializeScope` / `UnserializeSchema` never panic. -/
theorem C10_total_wire (x : Ext) (jd : JD) (fuel : Nat) (w : V) :
    unserializeScope x jd fuel w ≠ .panic ∧ unserializeSchema x jd fuel w ≠ .panic := by
  constructor
  · unfold unserializeScope
    have := C10_total x fuel w
    split
    · split <;> simp [Out.plain]
    · rename_i o _; intro h; exact this h
  · unfold unserializeSchema
    have := C10_total_schema x fuel w
    split
    · split <;> simp [Out.plain]
    · rename_i o _; intro h; exact this h

/-- what is rebuilt and passes the link check is a well-formed schema -/
theorem C10_rebuild_wf (x : Ext) (jd : JD) (fuel : Nat) (w : V) (s : DTy)
    (_h : rebuild x fuel w = .ok s) (hl : linkCheck jd s = true) : WF [] (forget jd s) := by
  simp only [linkCheck, Bool.and_eq_true] at hl
  exact wfB_sound _ _ _ hl.1

/-- C10 (first use, scopes): no operation on a scope returned by `UnserializeScope` panics -
    for every operation, every Go value, every externals, every fuel. -/
theorem C10_usable (x : Ext) (jd : JD) (fuel : Nat) (w : V) (s : DTy)
    (h : unserializeScope x jd fuel w = .ok s) :
    ∀ (x' : Ext) (fuel' : Nat) (op : Op) (v : V), run x' fuel' op [] (forget jd s) v ≠ .panic := by
  unfold unserializeScope at h
  split at h
  · rename_i s' hs
    split at h
    · rename_i hl
      have : s' = s := by injection h
      subst this
      intro x' fuel' op v
      exact C04_no_panic_closed x' fuel' op _ v (C10_rebuild_wf x jd fuel w s' hs hl)
    · simp [Out.plain] at h
  · rename_i o hne
    exact absurd h (by intro h'; exact hne s h')

theorem all_mem {α} {p : α → Bool} {l : List α} (h : l.all p = true) {a : α} (ha : a ∈ l) : p a = true := by
  simp only [List.all_eq_true] at h
  exact h a ha

/-- C10 (first use, plugin schemas): no operation on any data scope (step input, outputs, signal
    handlers, signal emitters) of a schema returned by `UnserializeSchema` / `ReadSchema` panics. -/
theorem C10_usable_schema (x : Ext) (jd : JD) (fuel : Nat) (w : V) (p : DSchema)
    (h : unserializeSchema x jd fuel w = .ok p) :
    ∀ st, st ∈ p → ∀ sc, sc ∈ st.2.scopes →
      ∀ (x' : Ext) (fuel' : Nat) (op : Op) (v : V), run x' fuel' op [] (forget jd sc) v ≠ .panic := by
  unfold unserializeSchema at h
  split at h
  · rename_i p' hp
    split at h
    · rename_i hl
      have : p' = p := by injection h
      subst this
      intro st hst sc hsc x' fuel' op v
      have h1 := all_mem hl hst
      have h2 := all_mem h1 hsc
      simp only [linkCheck, Bool.and_eq_true] at h2
      exact C04_no_panic_closed x' fuel' op _ v (wfB_sound _ _ _ h2.1)
    · simp [Out.plain] at h
  · rename_i o hne
    exact absurd h (by intro h'; exact hne p h')

/-- Beyond `WF`: in an accepted scope the root object carries the root's ID (Go's `RootObject()`
    panics otherwise; `Arca.run` does not look at the ID, so this is stated separately). -/
theorem C10_root_id (jd : JD) (objs : List (String × DObj)) (root : String)
    (hl : linkCheck jd (.scope objs root) = true) : ∃ o, lookupS root objs = some o ∧ o.id = root := by
  simp only [linkCheck, Bool.and_eq_true] at hl
  have h := hl.2
  simp only [extraOK, Bool.and_eq_true] at h
  cases hr : lookupS root objs with
  | none => simp [hr] at h
  | some o => exact ⟨o, rfl, by simpa [hr] using h.1⟩

/-! ### non-vacuity -/

/-- a description as a plugin would send it (CBOR-decoded: `map[any]any`, `uint64`), with a
    reference, a default and a missing `required` -/
def c10Example : V :=
  .map .anyAny [(.str "root", .str "A"), (.str "objects", .map .anyAny [(.str "A", .map .anyAny
    [(.str "id", .str "A"), (.str "properties", .map .anyAny
      [(.str "next", .map .anyAny [(.str "type", .map .anyAny [(.str "type_id", .str "ref"), (.str "id", .str "A")]),
          (.str "required", .bool false)]),
       (.str "n", .map .anyAny [(.str "type", .map .anyAny [(.str "type_id", .str "integer"), (.str "min", .int .uint64 0)]),
          (.str "default", .str "5")])])])])]

def c10Ext : Ext := ⟨fun _ => none, fun _ => "", fun _ => true, fun _ _ => true⟩
def c10JD : JD := fun s => if s == "5" then some (.float .f64 0x4014000000000000) else none

example : (unserializeScope c10Ext c10JD 40 c10Example).isOk = true := by decide +kernel

/-- the same description with the reference re-pointed to a missing object is rejected -/
def c10Dangling : V :=
  .map .anyAny [(.str "root", .str "A"), (.str "objects", .map .anyAny [(.str "A", .map .anyAny
    [(.str "id", .str "A"), (.str "properties", .map .anyAny
      [(.str "next", .map .anyAny [(.str "type", .map .anyAny [(.str "type_id", .str "ref"), (.str "id", .str "Nope")])])])])])]

example : (rebuild c10Ext 40 c10Dangling).isOk = true := by decide +kernel
example : (unserializeScope c10Ext c10JD 40 c10Dangling).isErr = true := by decide +kernel

end Arca

#print axioms Arca.C10_total
#print axioms Arca.C10_total_schema
#print axioms Arca.C10_total_wire
#print axioms Arca.C10_rebuild_wf
#print axioms Arca.C10_usable
#print axioms Arca.C10_usable_schema
#print axioms Arca.C10_root_id
