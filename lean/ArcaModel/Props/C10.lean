import ArcaModel.Model.Describe
import ArcaModel.Props.C04
/-
  C10  A schema received from a plugin is rejected with an error or fully usable.

  Model of the wire path (`Model/Describe.lean`):
    `rebuild x fuel w`          = `DescribeScope().Unserialize(w)`: `run .U` of the meta-schema
                                  (`metaScope : Ty`) on the decoded value `w`, followed by the
                                  conversion of the resulting map to the schema tree;
    `unserializeScope x jd fuel w` = `UnserializeScope(w)`: `rebuild`, then `linkCheck` (what the
                                  repaired `linkUnserializedScope` verifies: roots, references,
                                  one-of members vs. the inlining flag, decodable defaults);
    `unserializeSchema`         likewise for `UnserializeSchema` / `Client.ReadSchema`, every
                                  data scope of every step (input, outputs, signal handlers,
                                  signal emitters) being checked.
  `w` ranges over ALL Go values (`V`), `x` over all externals (regexp, float parsing/formatting),
  `jd` over all JSON decoders.
-/
namespace Arca

/-- the meta-schemas are well-formed schemas (all references resolve, roots exist, defaults decode) -/
theorem metaScope_wf : WF [] metaScope := wfB_sound 8 [] metaScope (by decide +kernel)
theorem metaSchema_wf : WF [] metaSchema := wfB_sound 8 [] metaSchema (by decide +kernel)
theorem metaStepOutput_wf : WF [] metaStepOutput := wfB_sound 8 [] metaStepOutput (by decide +kernel)

theorem liftParse_ne_panic {α} (p : V → Option α) (o : Out V) (h : o ≠ .panic) : liftParse p o ≠ .panic := by
  cases o with
  | ok v => simp only [liftParse]; split <;> simp [Out.plain]
  | err e => simp [liftParse]
  | panic => exact absurd rfl h
  | fuel => simp [liftParse]

/-- C10 (load time, scopes): rebuilding never panics, whatever value arrives. -/
theorem C10_total (x : Ext) (fuel : Nat) (w : V) : rebuild x fuel w ≠ .panic :=
  liftParse_ne_panic _ _ (C04_no_panic_closed x fuel .U metaScope w metaScope_wf)

/-- C10 (load time, plugin schemas) -/
theorem C10_total_schema (x : Ext) (fuel : Nat) (w : V) : rebuildSchema x fuel w ≠ .panic :=
  liftParse_ne_panic _ _ (C04_no_panic_closed x fuel .U metaSchema w metaSchema_wf)

/-- C10 (load time, the wire path): `UnserializeScope` / `UnserializeSchema` never panic. -/
theorem C10_total_wire (x : Ext) (jd : JD) (fuel : Nat) (w : V) :
    unserializeScope x jd fuel w ≠ .panic ∧ unserializeSchema x jd fuel w ≠ .panic := by
  constructor
  · unfold unserializeScope
    have := C10_total x fuel w
    split
    · split <;> simp [Out.plain]
    · rename_i o _; intro h; exact this h
  · unfold unserializeSchema
    have := C10_total_schema x fuel w
    split
    · split <;> simp [Out.plain]
    · rename_i o _; intro h; exact this h

/-- what is rebuilt and passes the link check is a well-formed schema -/
theorem C10_rebuild_wf (x : Ext) (jd : JD) (fuel : Nat) (w : V) (s : DTy)
    (_h : rebuild x fuel w = .ok s) (hl : linkCheck jd s = true) : WF [] (forget jd s) := by
  simp only [linkCheck, Bool.and_eq_true] at hl
  exact wfB_sound _ _ _ hl.1

/-- C10 (first use, scopes): no operation on a scope returned by `UnserializeScope` panics -
    for every operation, every Go value, every externals, every fuel. -/
theorem C10_usable (x : Ext) (jd : JD) (fuel : Nat) (w : V) (s : DTy)
    (h : unserializeScope x jd fuel w = .ok s) :
    ∀ (x' : Ext) (fuel' : Nat) (op : Op) (v : V), run x' fuel' op [] (forget jd s) v ≠ .panic := by
  unfold unserializeScope at h
  split at h
  · rename_i s' hs
    split at h
    · rename_i hl
      have : s' = s := by injection h
      subst this
      intro x' fuel' op v
      exact C04_no_panic_closed x' fuel' op _ v (C10_rebuild_wf x jd fuel w s' hs hl)
    · simp [Out.plain] at h
  · rename_i o hne
    exact absurd h (by intro h'; exact hne s h')

theorem all_mem {α} {p : α → Bool} {l : List α} (h : l.all p = true) {a : α} (ha : a ∈ l) : p a = true := by
  simp only [List.all_eq_true] at h
  exact h a ha

/-- C10 (first use, plugin schemas): no operation on any data scope (step input, outputs, signal
    handlers, signal emitters) of a schema returned by `UnserializeSchema` / `ReadSchema` panics. -/
theorem C10_usable_schema (x : Ext) (jd : JD) (fuel : Nat) (w : V) (p : DSchema)
    (h : unserializeSchema x jd fuel w = .ok p) :
    ∀ st, st ∈ p → ∀ sc, sc ∈ st.2.scopes →
      ∀ (x' : Ext) (fuel' : Nat) (op : Op) (v : V), run x' fuel' op [] (forget jd sc) v ≠ .panic := by
  unfold unserializeSchema at h
  split at h
  · rename_i p' hp
    split at h
    · rename_i hl
      have : p' = p := by injection h
      subst this
      intro st hst sc hsc x' fuel' op v
      have h1 := all_mem hl hst
      have h2 := all_mem h1 hsc
      simp only [linkCheck, Bool.and_eq_true] at h2
      exact C04_no_panic_closed x' fuel' op _ v (wfB_sound _ _ _ h2.1)
    · simp [Out.plain] at h
  · rename_i o hne
    exact absurd h (by intro h'; exact hne p h')

/-- Beyond `WF`: in an accepted scope the root object carries the root's ID (Go's `RootObject()`
    panics otherwise; `Arca.run` does not look at the ID, so this is stated separately). -/
theorem C10_root_id (jd : JD) (objs : List (String × DObj)) (root : String)
    (hl : linkCheck jd (.scope objs root) = true) : ∃ o, lookupS root objs = some o ∧ o.id = root := by
  simp only [linkCheck, Bool.and_eq_true] at hl
  have h := hl.2
  simp only [extraOK, Bool.and_eq_true] at h
  cases hr : lookupS root objs with
  | none => simp [hr] at h
  | some o => exact ⟨o, rfl, by simpa [hr] using h.1⟩

/-! ### signal handlers and signal emitters are checked separately, whatever their keys -/

theorem scopes_handlers (st : DStep) : ∀ h, h ∈ st.handlers → h.2.data ∈ st.scopes := by
  intro h hh
  simp only [DStep.scopes, List.mem_cons, List.mem_append, List.mem_map]
  exact Or.inr (Or.inl (Or.inr ⟨h, hh, rfl⟩))

theorem scopes_emitters (st : DStep) : ∀ e, e ∈ st.emitters → e.2.data ∈ st.scopes := by
  intro e he
  simp only [DStep.scopes, List.mem_cons, List.mem_append, List.mem_map]
  exact Or.inr (Or.inr ⟨e, he, rfl⟩)

/-- every signal handler's and every signal emitter's data schema of an accepted plugin schema
    passed the link check - also when a handler and an emitter carry the same key -/
theorem C10_signals_checked (jd : JD) (p : DSchema) (h : linkCheckSchema jd p = true) :
    ∀ st, st ∈ p → (∀ g, g ∈ st.2.handlers → linkCheck jd g.2.data = true) ∧
      (∀ g, g ∈ st.2.emitters → linkCheck jd g.2.data = true) := by
  intro st hst
  have h1 := all_mem h hst
  exact ⟨fun g hg => all_mem h1 (scopes_handlers st.2 g hg), fun g hg => all_mem h1 (scopes_emitters st.2 g hg)⟩

/-! ### non-vacuity -/

/-- a description as a plugin would send it (CBOR-decoded: `map[any]any`, `uint64`), with a
    reference, a default and a missing `required` -/
def c10Example : V :=
  .map .anyAny [(.str "root", .str "A"), (.str "objects", .map .anyAny [(.str "A", .map .anyAny
    [(.str "id", .str "A"), (.str "properties", .map .anyAny
      [(.str "next", .map .anyAny [(.str "type", .map .anyAny [(.str "type_id", .str "ref"), (.str "id", .str "A")]),
          (.str "required", .bool false)]),
       (.str "n", .map .anyAny [(.str "type", .map .anyAny [(.str "type_id", .str "integer"), (.str "min", .int .uint64 0)]),
          (.str "default", .str "5")])])])])]

def c10Ext : Ext := ⟨fun _ => none, fun _ => "", fun _ => true, fun _ _ => true⟩
def c10JD : JD := fun s => if s == "5" then some (.float .f64 0x4014000000000000) else none

example : (unserializeScope c10Ext c10JD 40 c10Example).isOk = true := by decide +kernel

/-- the same description with the reference re-pointed to a missing object is rejected -/
def c10Dangling : V :=
  .map .anyAny [(.str "root", .str "A"), (.str "objects", .map .anyAny [(.str "A", .map .anyAny
    [(.str "id", .str "A"), (.str "properties", .map .anyAny
      [(.str "next", .map .anyAny [(.str "type", .map .anyAny [(.str "type_id", .str "ref"), (.str "id", .str "Nope")])])])])])]

example : (rebuild c10Ext 40 c10Dangling).isOk = true := by decide +kernel
example : (unserializeScope c10Ext c10JD 40 c10Dangling).isErr = true := by decide +kernel

/-- a handler and an emitter under the same key: a dangling reference in the HANDLER's data schema
    makes the whole plugin schema unacceptable -/
def c10SameKey (handlerRef : String) : DSchema :=
  let okScope : DTy := .scope [("E", .mk "E" false [])] "E"
  let hdata : DTy := .scope
    [("Root", .mk "Root" false [("item", .mk (.ref handlerRef "" none) none false [] [] [] none [] false none)]),
     ("Item", .mk "Item" false [])] "Root"
  [("s", ⟨"s", okScope, [("ok", ⟨okScope, none, false⟩)], [("sig", ⟨"sig", hdata, none⟩)], [("sig", ⟨"sig", okScope, none⟩)], none⟩)]

example : linkCheckSchema (fun _ => none) (c10SameKey "Item") = true := by decide +kernel
example : linkCheckSchema (fun _ => none) (c10SameKey "Nope") = false := by decide +kernel

/-! ### the link check looks at ALL objects of a scope, not only at what the root reaches -/

theorem extraObjs_mem {env : List (String × DObj)} : ∀ {objs : List (String × DObj)},
    extraObjs env objs = true → ∀ p, p ∈ objs → extraObj env p.2 = true
  | [], _, p, hp => by simp at hp
  | (n, o) :: rest, h, p, hp => by
    simp only [extraObjs, Bool.and_eq_true] at h
    simp only [List.mem_cons] at hp
    rcases hp with rfl | hp
    · exact h.1
    · exact extraObjs_mem h.2 p hp

theorem extraProps_mem {env : List (String × DObj)} : ∀ {props : List (String × DProp)},
    extraProps env props = true → ∀ np, np ∈ props → extraOK env np.2.ty = true
  | [], _, np, hnp => by simp at hnp
  | (n, p) :: rest, h, np, hnp => by
    simp only [extraProps, Bool.and_eq_true] at h
    simp only [List.mem_cons] at hnp
    rcases hnp with rfl | hnp
    · cases p; simpa [extraProp, DProp.ty] using h.1
    · exact extraProps_mem h.2 np hnp

theorem mem_forgetObjs (jd : JD) {n : String} {o : DObj} : ∀ {objs : List (String × DObj)},
    (n, o) ∈ objs → (n, forgetObj jd o) ∈ forgetObjs jd objs
  | [], h => by simp at h
  | (qn, qo) :: rest, h => by
    simp only [List.mem_cons] at h
    simp only [forgetObjs, List.mem_cons]
    rcases h with h | h
    · left; cases h; rfl
    · right; exact mem_forgetObjs jd h

theorem mem_forgetProps (jd : JD) {np : String × DProp} : ∀ {props : List (String × DProp)},
    np ∈ props → (np.1, forgetProp jd np.2) ∈ forgetProps jd props
  | [], h => by simp at h
  | (qn, qp) :: rest, h => by
    simp only [List.mem_cons] at h
    simp only [forgetProps, List.mem_cons]
    rcases h with h | h
    · left; cases h; rfl
    · right; exact mem_forgetProps jd h

/-- In an accepted scope EVERY object - whether or not the root object reaches it - has only
    references into the scope's own namespace directly below its properties, each resolving to an
    object of the scope; and every object is well-formed in the scope (`WF`), which covers the
    references at any depth below lists, maps, one-of members and inline objects. -/
theorem C10_all_objects (jd : JD) (objs : List (String × DObj)) (root : String)
    (hl : linkCheck jd (.scope objs root) = true) :
    (∀ p, p ∈ forgetObjs jd objs → WF (forgetObjs jd objs) p.2) ∧
    (∀ o, o ∈ objs → ∀ np, np ∈ o.2.props → ∀ id ns d, np.2.ty = .ref id ns d →
      ns = "" ∧ (lookupS id (forgetObjs jd objs)).isSome = true) := by
  simp only [linkCheck, Bool.and_eq_true] at hl
  have hwf : WF [] (forget jd (.scope objs root)) := wfB_sound _ _ _ hl.1
  have hall : ∀ p, p ∈ forgetObjs jd objs → WF (forgetObjs jd objs) p.2 := by
    simp only [forget] at hwf
    cases hwf with
    | scope _ h => exact h
  refine ⟨hall, ?_⟩
  intro o ho np hnp id ns d hty
  have hx := hl.2
  simp only [extraOK, Bool.and_eq_true] at hx
  have h1 := extraObjs_mem hx.2 o ho
  obtain ⟨on, ob⟩ := o
  cases ob with
  | mk oid unenf props =>
    simp only [extraObj] at h1
    have h2 := extraProps_mem h1 np hnp
    simp only [DObj.props] at hnp
    rw [hty] at h2
    refine ⟨by simpa [extraOK] using h2, ?_⟩
    -- the object is well-formed in the scope, so the reference resolves
    have hmem := mem_forgetObjs jd ho
    have hwo := hall _ hmem
    simp only [forgetObj] at hwo
    cases hwo with
    | obj hp _ =>
      have hpm := mem_forgetProps jd hnp
      have := hp _ hpm
      obtain ⟨pn, pp⟩ := np
      cases pp with
      | mk ty disp req rif rifn conf dflt ex dis reason =>
        simp only [DProp.ty] at hty
        subst hty
        simp only [forgetProp, PropT.ty, forget] at this
        cases this with
        | ref hlk => simp [hlk]

/-- the coordinator's witness: a reference into a foreign namespace in an object the root does not
    even mention is rejected; so is the same reference under a list in a non-root object -/
def c10ForeignInChild (leaf : DTy) : DTy :=
  .scope
    [("Root", .mk "Root" false [("child", .mk (.ref "Child" "" none) none false [] [] [] none [] false none)]),
     ("Child", .mk "Child" false [("leaf", .mk leaf none false [] [] [] none [] false none)]),
     ("T", .mk "T" false [])]
    "Root"

example : linkCheck c10JD (c10ForeignInChild (.ref "T" "" none)) = true := by decide +kernel
example : linkCheck c10JD (c10ForeignInChild (.ref "T" "other" none)) = false := by decide +kernel
example : linkCheck c10JD (c10ForeignInChild (.list (.ref "T" "other" none) none none)) = false := by decide +kernel
example : linkCheck c10JD (c10ForeignInChild (.oneOf false "t" false [(.s "a", .ref "T" "other" none)])) = false := by
  decide +kernel
example : linkCheck c10JD (c10ForeignInChild (.ref "Nope" "" none)) = false := by decide +kernel
end Arca

#print axioms Arca.C10_total
#print axioms Arca.C10_total_schema
#print axioms Arca.C10_total_wire
#print axioms Arca.C10_rebuild_wf
#print axioms Arca.C10_usable
#print axioms Arca.C10_usable_schema
#print axioms Arca.C10_root_id
#print axioms Arca.C10_all_objects
#print axioms Arca.C10_signals_checked
