import ArcaModel.Props.C03
/-
  C12  Schema operations are pure: deterministic, argument-preserving, history-free.

  In the model an operation IS a function of (schema, argument): determinism, argument preservation
  and history-freedom hold by construction, and that the implementation is such a function is what
  the correspondence run checks (argument snapshots, repeated evaluation, call histories on one
  instance against a fresh instance). What needs proof is the part Go's randomised map iteration
  puts in question: the result must not depend on the ORDER in which map entries, enum values,
  one-of members and properties are visited. In the model that order is the list order.
-/
namespace Arca
open Out

/-! ### permuting the related lists of a `Forall2` -/

theorem Forall2.perm_left {α β} {R : α → β → Prop} {as as' : List α} {bs : List β}
    (h : Forall2 R as bs) (hp : as.Perm as') : ∃ bs', Forall2 R as' bs' ∧ bs.Perm bs' := by
  induction hp generalizing bs with
  | nil => cases h; exact ⟨[], .nil, .nil⟩
  | cons a _ ih =>
    cases h with
    | cons hab hrest =>
      obtain ⟨bs', h1, h2⟩ := ih hrest
      exact ⟨_ :: bs', .cons hab h1, .cons _ h2⟩
  | swap a a' l =>
    cases h with
    | cons h1 hrest =>
      cases hrest with
      | cons h2 hrest' => exact ⟨_ :: _ :: _, .cons h2 (.cons h1 hrest'), .swap _ _ _⟩
  | trans _ _ ih1 ih2 =>
    obtain ⟨bs1, h1, p1⟩ := ih1 h
    obtain ⟨bs2, h2, p2⟩ := ih2 h1
    exact ⟨bs2, h2, p1.trans p2⟩

/-! ### duplicate detection does not depend on the order -/

theorem dupKey_go_iff (kvs : List (V × V)) : ∀ (seen : List Key), seen.Nodup →
    (dupKey.go kvs seen = false ↔ ((kvs.filterMap fun kv => kv.1.key?).reverse ++ seen).Nodup) := by
  induction kvs with
  | nil => intro seen hs; simp [dupKey.go, hs]
  | cons kv rest ih =>
    obtain ⟨k, v⟩ := kv
    intro seen hs
    simp only [dupKey.go]
    cases hk : k.key? with
    | none =>
      simp only [List.filterMap_cons, hk]
      exact ih seen hs
    | some key =>
      simp only [List.filterMap_cons, hk, List.reverse_cons, List.append_assoc, List.singleton_append]
      by_cases hc : seen.contains key = true
      · simp only [hc, if_true]
        constructor
        · intro h; exact absurd h (by simp)
        · intro hnd
          exfalso
          have hmem : key ∈ seen := by simpa using hc
          have := (List.nodup_append.mp hnd).2.1
          exact (List.nodup_cons.mp this).1 hmem
      · have hnm : key ∉ seen := by simpa using hc
        have hc' : seen.contains key = false := by simpa using hc
        simp only [hc', Bool.false_eq_true, if_false]
        exact ih (key :: seen) (List.nodup_cons.mpr ⟨hnm, hs⟩)

/-- no two entries have the same native key -/
theorem dupKey_false_iff (kvs : List (V × V)) :
    dupKey kvs = false ↔ (kvs.filterMap fun kv => kv.1.key?).Nodup := by
  unfold dupKey
  rw [dupKey_go_iff kvs [] List.nodup_nil]
  simp only [List.append_nil]
  exact (List.reverse_perm _).nodup_iff

theorem dupKey_perm {kvs kvs' : List (V × V)} (hp : kvs.Perm kvs') : dupKey kvs = dupKey kvs' := by
  have hp' : (kvs.filterMap fun kv => kv.1.key?).Perm (kvs'.filterMap fun kv => kv.1.key?) := hp.filterMap _
  cases h1 : dupKey kvs <;> cases h2 : dupKey kvs' <;> try rfl
  · have := (dupKey_false_iff kvs).mp h1
    have h3 := (dupKey_false_iff kvs').mpr (hp'.nodup_iff.mp this)
    rw [h3] at h2; exact absurd h2 (by simp)
  · have := (dupKey_false_iff kvs').mp h2
    have h3 := (dupKey_false_iff kvs).mpr (hp'.nodup_iff.mpr this)
    rw [h3] at h1; exact absurd h1 (by simp)

/-! ### maps: the order of the input's entries is irrelevant -/

/-- Unserialize of a map does not depend on the order in which the entries of the input are
    visited: the verdict is the same and the accepted entries are the same up to order. -/
theorem C12_map_input_order (x : Ext) (fuel : Nat) (env : Env) (kt vt : Ty) (min max : Option Int)
    (sh : MapShape) (kvs kvs' : List (V × V)) (hp : kvs.Perm kvs') (r : V)
    (h : run x (fuel + 1) .U env (.map kt vt min max) (.map sh kvs) = .ok r) :
    ∃ es es', r = .map ⟨kt.keyTy, vt.reflectsAny⟩ es ∧
      run x (fuel + 1) .U env (.map kt vt min max) (.map sh kvs') = .ok (.map ⟨kt.keyTy, vt.reflectsAny⟩ es') ∧
      es.Perm es' := by
  obtain ⟨sh0, kvs0, es, hv, hl, hall, hd, hr⟩ := (C02_map_unser_iff x fuel env kt vt min max _ r).mp h
  cases hv
  obtain ⟨es', hall', hperm⟩ := hall.perm_left hp
  refine ⟨es, es', hr, ?_, hperm⟩
  refine (C02_map_unser_iff x fuel env kt vt min max _ _).mpr ⟨sh, kvs', es', rfl, ?_, hall', ?_, rfl⟩
  · rw [← hp.length_eq]; exact hl
  · rw [← dupKey_perm hperm]; exact hd

/-- ... and a rejected map stays rejected under every order (only WHICH faulty entry is named may differ). -/
theorem C12_map_input_order_reject (x : Ext) (fuel : Nat) (env : Env) (kt vt : Ty) (min max : Option Int)
    (sh : MapShape) (kvs kvs' : List (V × V)) (hp : kvs.Perm kvs')
    (h : ∀ r, run x (fuel + 1) .U env (.map kt vt min max) (.map sh kvs) ≠ .ok r) :
    ∀ r, run x (fuel + 1) .U env (.map kt vt min max) (.map sh kvs') ≠ .ok r := by
  intro r hr
  obtain ⟨es, es', _, h2, _⟩ := C12_map_input_order x fuel env kt vt min max sh kvs' kvs hp.symm r hr
  exact h _ h2

/-! ### schema-side orders: enum values, one-of members, properties -/

theorem C12_enumInt_order (x : Ext) (fuel : Nat) (op : Op) (env : Env) (vals vals' : List Int) (u : Option Units) (v : V)
    (hp : vals.Perm vals') :
    run x (fuel + 1) op env (.enumInt vals u) v = run x (fuel + 1) op env (.enumInt vals' u) v := by
  have hc : ∀ n, vals.contains n = vals'.contains n := by
    intro n
    cases h1 : vals.contains n <;> cases h2 : vals'.contains n <;> try rfl
    · have : n ∈ vals' := by simpa using h2
      have := hp.symm.subset this
      simp_all
    · have : n ∈ vals := by simpa using h1
      have := hp.subset this
      simp_all
  simp only [run, runEnumInt, hc]

theorem C12_enumStr_order (x : Ext) (fuel : Nat) (op : Op) (env : Env) (vals vals' : List String) (v : V)
    (hp : vals.Perm vals') :
    run x (fuel + 1) op env (.enumStr vals) v = run x (fuel + 1) op env (.enumStr vals') v := by
  have hc : ∀ n, vals.contains n = vals'.contains n := by
    intro n
    cases h1 : vals.contains n <;> cases h2 : vals'.contains n <;> try rfl
    · have : n ∈ vals' := by simpa using h2
      have := hp.symm.subset this
      simp_all
    · have : n ∈ vals := by simpa using h1
      have := hp.subset this
      simp_all
  simp only [run, runEnumStr, hc]

theorem lookupK_perm {α} {k : Key} {m m' : List (Key × α)} (hp : m.Perm m') (hnd : (m.map Prod.fst).Nodup) :
    lookupK k m = lookupK k m' := by
  induction hp with
  | nil => rfl
  | cons a _ ih =>
    obtain ⟨k', v'⟩ := a
    simp only [lookupK]
    split
    · rfl
    · exact ih (by simp only [List.map_cons, List.nodup_cons] at hnd; exact hnd.2)
  | swap a b l =>
    obtain ⟨ka, va⟩ := a
    obtain ⟨kb, vb⟩ := b
    simp only [lookupK]
    by_cases h1 : (k == ka) = true <;> by_cases h2 : (k == kb) = true <;> simp [h1, h2]
    have e1 : k = ka := by simpa using h1
    have e2 : k = kb := by simpa using h2
    subst e1 e2
    simp [List.nodup_cons] at hnd
  | trans p1 _ ih1 ih2 =>
    rw [ih1 hnd]
    exact ih2 ((p1.map Prod.fst).nodup_iff.mp hnd)

/-- A one-of routes by the discriminator whatever the order of its member table. -/
theorem C12_oneof_member_order (x : Ext) (fuel : Nat) (op : Op) (env : Env) (intKey : Bool) (disc : String)
    (inlined : Bool) (members members' : List (Key × Ty)) (v : V)
    (hp : members.Perm members') (hnd : (members.map Prod.fst).Nodup) :
    run x (fuel + 1) op env (.oneOf intKey disc inlined members) v =
      run x (fuel + 1) op env (.oneOf intKey disc inlined members') v := by
  have hl : ∀ k, lookupK k members = lookupK k members' := fun k => lookupK_perm hp hnd
  simp only [run, runOneOf, oneOfUnser, oneOfSelect, hl]

/-- The presence rules do not depend on the order of the property table. -/
theorem C12_rules_order (props props' : List (String × PropT)) (isSet : String → Bool) (hp : props.Perm props') :
    (interdeps props isSet = .ok () ↔ interdeps props' isSet = .ok ()) := by
  rw [C03_rules_iff, C03_rules_iff]
  constructor
  · intro h np hnp; exact h np (hp.symm.subset hnp)
  · intro h np hnp; exact h np (hp.subset hnp)

#print axioms C12_map_input_order
#print axioms C12_oneof_member_order
#print axioms C12_rules_order

end Arca
