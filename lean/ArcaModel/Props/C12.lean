import ArcaModel.Props.C03
import ArcaModel.Lemmas.PermEqTy
import ArcaModel.Lemmas.TerminatesRec
import ArcaModel.Model.WFCheck
/-
  C12  Schema operations are pure: deterministic, argument-preserving, history-free.

  In the model an operation IS a function of (schema, argument): determinism, argument preservation
  and history-freedom hold by construction, and that the implementation is such a function is what
  the correspondence run checks (argument snapshots, repeated evaluation, call histories on one
  instance against a fresh instance). What needs proof is the part Go's randomised map iteration
  puts in question: the result must not depend on the ORDER in which map entries, enum values,
  one-of members and properties are visited. In the model that order is the list order.
-/
namespace Arca
open Out

/-! ### permuting the related lists of a `Forall2` -/

theorem Forall2.perm_left {α β} {R : α → β → Prop} {as as' : List α} {bs : List β}
    (h : Forall2 R as bs) (hp : as.Perm as') : ∃ bs', Forall2 R as' bs' ∧ bs.Perm bs' := by
  induction hp generalizing bs with
  | nil => cases h; exact ⟨[], .nil, .nil⟩
  | cons a _ ih =>
    cases h with
    | cons hab hrest =>
      obtain ⟨bs', h1, h2⟩ := ih hrest
      exact ⟨_ :: bs', .cons hab h1, .cons _ h2⟩
  | swap a a' l =>
    cases h with
    | cons h1 hrest =>
      cases hrest with
      | cons h2 hrest' => exact ⟨_ :: _ :: _, .cons h2 (.cons h1 hrest'), .swap _ _ _⟩
  | trans _ _ ih1 ih2 =>
    obtain ⟨bs1, h1, p1⟩ := ih1 h
    obtain ⟨bs2, h2, p2⟩ := ih2 h1
    exact ⟨bs2, h2, p1.trans p2⟩

/-! ### duplicate detection does not depend on the order -/

theorem dupKey_go_iff (kvs : List (V × V)) : ∀ (seen : List Key), seen.Nodup →
    (dupKey.go kvs seen = false ↔ ((kvs.filterMap fun kv => kv.1.key?).reverse ++ seen).Nodup) := by
  induction kvs with
  | nil => intro seen hs; simp [dupKey.go, hs]
  | cons kv rest ih =>
    obtain ⟨k, v⟩ := kv
    intro seen hs
    simp only [dupKey.go]
    cases hk : k.key? with
    | none =>
      simp only [List.filterMap_cons, hk]
      exact ih seen hs
    | some key =>
      simp only [List.filterMap_cons, hk, List.reverse_cons, List.append_assoc, List.singleton_append]
      by_cases hc : seen.contains key = true
      · simp only [hc, if_true]
        constructor
        · intro h; exact absurd h (by simp)
        · intro hnd
          exfalso
          have hmem : key ∈ seen := by simpa using hc
          have := (List.nodup_append.mp hnd).2.1
          exact (List.nodup_cons.mp this).1 hmem
      · have hnm : key ∉ seen := by simpa using hc
        have hc' : seen.contains key = false := by simpa using hc
        simp only [hc', Bool.false_eq_true, if_false]
        exact ih (key :: seen) (List.nodup_cons.mpr ⟨hnm, hs⟩)

/-- no two entries have the same native key -/
theorem dupKey_false_iff (kvs : List (V × V)) :
    dupKey kvs = false ↔ (kvs.filterMap fun kv => kv.1.key?).Nodup := by
  unfold dupKey
  rw [dupKey_go_iff kvs [] List.nodup_nil]
  simp only [List.append_nil]
  exact (List.reverse_perm _).nodup_iff

theorem dupKey_perm {kvs kvs' : List (V × V)} (hp : kvs.Perm kvs') : dupKey kvs = dupKey kvs' := by
  have hp' : (kvs.filterMap fun kv => kv.1.key?).Perm (kvs'.filterMap fun kv => kv.1.key?) := hp.filterMap _
  cases h1 : dupKey kvs <;> cases h2 : dupKey kvs' <;> try rfl
  · have := (dupKey_false_iff kvs).mp h1
    have h3 := (dupKey_false_iff kvs').mpr (hp'.nodup_iff.mp this)
    rw [h3] at h2; exact absurd h2 (by simp)
  · have := (dupKey_false_iff kvs').mp h2
    have h3 := (dupKey_false_iff kvs).mpr (hp'.nodup_iff.mpr this)
    rw [h3] at h1; exact absurd h1 (by simp)

/-! ### maps: the order of the input's entries is irrelevant -/

/-- Unserialize of a map does not depend on the order in which the entries of the input are
    visited: the verdict is the same and the accepted entries are the same up to order. -/
theorem C12_map_input_order (x : Ext) (fuel : Nat) (env : Env) (kt vt : Ty) (min max : Option Int)
    (sh : MapShape) (kvs kvs' : List (V × V)) (hp : kvs.Perm kvs') (r : V)
    (h : run x (fuel + 1) .U env (.map kt vt min max) (.map sh kvs) = .ok r) :
    ∃ es es', r = .map ⟨kt.keyTy, vt.reflectsAny⟩ es ∧
      run x (fuel + 1) .U env (.map kt vt min max) (.map sh kvs') = .ok (.map ⟨kt.keyTy, vt.reflectsAny⟩ es') ∧
      es.Perm es' := by
  obtain ⟨sh0, kvs0, es, hv, hl, hall, hd, hr⟩ := (C02_map_unser_iff x fuel env kt vt min max _ r).mp h
  cases hv
  obtain ⟨es', hall', hperm⟩ := hall.perm_left hp
  refine ⟨es, es', hr, ?_, hperm⟩
  refine (C02_map_unser_iff x fuel env kt vt min max _ _).mpr ⟨sh, kvs', es', rfl, ?_, hall', ?_, rfl⟩
  · rw [← hp.length_eq]; exact hl
  · rw [← dupKey_perm hperm]; exact hd

/-- ... and a rejected map stays rejected under every order (only WHICH faulty entry is named may differ). -/
theorem C12_map_input_order_reject (x : Ext) (fuel : Nat) (env : Env) (kt vt : Ty) (min max : Option Int)
    (sh : MapShape) (kvs kvs' : List (V × V)) (hp : kvs.Perm kvs')
    (h : ∀ r, run x (fuel + 1) .U env (.map kt vt min max) (.map sh kvs) ≠ .ok r) :
    ∀ r, run x (fuel + 1) .U env (.map kt vt min max) (.map sh kvs') ≠ .ok r := by
  intro r hr
  obtain ⟨es, es', _, h2, _⟩ := C12_map_input_order x fuel env kt vt min max sh kvs' kvs hp.symm r hr
  exact h _ h2

/-! ### schema-side orders: enum values, one-of members, properties -/

theorem C12_enumInt_order (x : Ext) (fuel : Nat) (op : Op) (env : Env) (vals vals' : List Int) (u : Option Units) (v : V)
    (hp : vals.Perm vals') :
    run x (fuel + 1) op env (.enumInt vals u) v = run x (fuel + 1) op env (.enumInt vals' u) v := by
  have hc : ∀ n, vals.contains n = vals'.contains n := by
    intro n
    cases h1 : vals.contains n <;> cases h2 : vals'.contains n <;> try rfl
    · have : n ∈ vals' := by simpa using h2
      have := hp.symm.subset this
      simp_all
    · have : n ∈ vals := by simpa using h1
      have := hp.subset this
      simp_all
  simp only [run, runEnumInt, hc]

theorem C12_enumStr_order (x : Ext) (fuel : Nat) (op : Op) (env : Env) (vals vals' : List String) (v : V)
    (hp : vals.Perm vals') :
    run x (fuel + 1) op env (.enumStr vals) v = run x (fuel + 1) op env (.enumStr vals') v := by
  have hc : ∀ n, vals.contains n = vals'.contains n := by
    intro n
    cases h1 : vals.contains n <;> cases h2 : vals'.contains n <;> try rfl
    · have : n ∈ vals' := by simpa using h2
      have := hp.symm.subset this
      simp_all
    · have : n ∈ vals := by simpa using h1
      have := hp.subset this
      simp_all
  simp only [run, runEnumStr, hc]

theorem lookupK_perm {α} {k : Key} {m m' : List (Key × α)} (hp : m.Perm m') (hnd : (m.map Prod.fst).Nodup) :
    lookupK k m = lookupK k m' := by
  induction hp with
  | nil => rfl
  | cons a _ ih =>
    obtain ⟨k', v'⟩ := a
    simp only [lookupK]
    split
    · rfl
    · exact ih (by simp only [List.map_cons, List.nodup_cons] at hnd; exact hnd.2)
  | swap a b l =>
    obtain ⟨ka, va⟩ := a
    obtain ⟨kb, vb⟩ := b
    simp only [lookupK]
    by_cases h1 : (k == ka) = true <;> by_cases h2 : (k == kb) = true <;> simp [h1, h2]
    have e1 : k = ka := by simpa using h1
    have e2 : k = kb := by simpa using h2
    subst e1 e2
    simp [List.nodup_cons] at hnd
  | trans p1 _ ih1 ih2 =>
    rw [ih1 hnd]
    exact ih2 ((p1.map Prod.fst).nodup_iff.mp hnd)

/-- A one-of routes by the discriminator whatever the order of its member table. -/
theorem C12_oneof_member_order (x : Ext) (fuel : Nat) (op : Op) (env : Env) (intKey : Bool) (disc : String)
    (inlined : Bool) (members members' : List (Key × Ty)) (v : V)
    (hp : members.Perm members') (hnd : (members.map Prod.fst).Nodup) :
    run x (fuel + 1) op env (.oneOf intKey disc inlined members) v =
      run x (fuel + 1) op env (.oneOf intKey disc inlined members') v := by
  have hl : ∀ k, lookupK k members = lookupK k members' := fun k => lookupK_perm hp hnd
  simp only [run, runOneOf, oneOfUnser, oneOfSelect, hl]

/-- The presence rules do not depend on the order of the property table. -/
theorem C12_rules_order (props props' : List (String × PropT)) (isSet : String → Bool) (hp : props.Perm props') :
    (interdeps props isSet = .ok () ↔ interdeps props' isSet = .ok ()) := by
  rw [C03_rules_iff, C03_rules_iff]
  constructor
  · intro h np hnp; exact h np (hp.symm.subset hnp)
  · intro h np hnp; exact h np (hp.subset hnp)

#print axioms C12_map_input_order
#print axioms C12_oneof_member_order
#print axioms C12_rules_order


/-! ## deep order independence: values equal up to the order of map entries at every depth

`v ≈ᵥ v'` (`V.PermEq`, Lemmas/PermEq.lean): `v'` is `v` with the entries of every map, at every
depth, listed in another order - the model's rendering of "the same Go value, iterated differently".
`V.DistinctKeys v`: `v` is a genuine Go value in the one respect that matters here - no map inside
it holds the same STRING key twice. (An association list can; the first entry then answers a lookup,
and which one is first is exactly what the order decides - see `C12_duplicate_keys_needed`.)

What is proved (`C12_value_order_independent`): every operation, on every schema (well-formed or
not), at every budget, accepts `v` iff it accepts `v'`, and the results are again equal up to order
(for Validate and data-mode compatibility the result is the unit value, `C12_validate_result_unit`).
What cannot be proved, because it is false: that a REJECTION is of the same kind. A traversal stops
at the first entry that fails, so when a map holds an entry that yields an error and another that
panics (or never returns), the order decides which is seen - `C12_panic_or_error_by_order`,
`C12_hang_or_error_by_order`. On a well-formed schema nothing panics (`C04`), so there the only
kinds are error and out-of-budget, and with a budget that suffices for both orders an error is an
error under both (`C12_value_order_error_iff`); the path of the error names the first faulty entry
in iteration order and may differ. -/

/-- **C12, deep.** Reordering map entries at any depth of the argument changes neither the verdict
    nor (up to such reordering) the result, for all four operations, every schema and environment,
    every budget. -/
theorem C12_value_order_independent (x : Ext) (n : Nat) (op : Op) (env : Env) (t : Ty) {v v' : V}
    (h : v ≈ᵥ v') (hd : v.DistinctKeys) :
    (∀ r, run x n op env t v = .ok r → ∃ r', run x n op env t v' = .ok r' ∧ r ≈ᵥ r') ∧
    (∀ r', run x n op env t v' = .ok r' → ∃ r, run x n op env t v = .ok r ∧ r ≈ᵥ r') ∧
    ((∀ r, run x n op env t v ≠ .ok r) ↔ (∀ r', run x n op env t v' ≠ .ok r')) := by
  have hrel := run_permEq x n op env t v v' h hd
  refine ⟨fun r hr => hrel.ok_left hr, fun r' hr' => hrel.ok_right hr', ?_, ?_⟩
  · intro hno r' hr'
    obtain ⟨r, hr, _⟩ := hrel.ok_right hr'
    exact hno r hr
  · intro hno r hr
    obtain ⟨r', hr', _⟩ := hrel.ok_left hr
    exact hno r' hr'

/-- the same as one relation on the two outcomes (`Out.Rel`: both ok and related, or neither ok) -/
theorem C12_value_order_rel (x : Ext) (n : Nat) (op : Op) (env : Env) (t : Ty) {v v' : V}
    (h : v ≈ᵥ v') (hd : v.DistinctKeys) :
    Out.Rel V.PermEq (run x n op env t v) (run x n op env t v') ∧
      (run x n op env t v).isOk = (run x n op env t v').isOk :=
  ⟨run_permEq x n op env t v v' h hd, (run_permEq x n op env t v v' h hd).isOk_eq⟩

/-- Validate and data-mode compatibility return the unit value: for them "related results" says
    nothing more than "both accepted". -/
theorem C12_validate_result_unit (x : Ext) : ∀ (n : Nat) (op : Op) (env : Env) (t : Ty) (v r : V),
    op = .V ∨ op = .C → run x n op env t v = .ok r → r = unitV
  | 0, _, _, _, _, _, _, h => by simp [run] at h
  | n + 1, op, env, t, v, r, hop, h => by
    have ih := C12_validate_result_unit x n
    have hdone : ∀ {r : V}, (done : Out V) = .ok r → r = unitV := by
      intro r h; simp only [done, Out.ok.injEq] at h; exact h.symm
    have hbind : ∀ {α} {o : Out α} {r : V}, (o.bind fun _ => done) = .ok r → r = unitV := by
      intro α o r h; obtain ⟨_, _, h⟩ := bind_eq_ok h; exact hdone h
    cases t <;> simp only [run] at h
    case int a b u =>
      rcases hop with rfl | rfl <;> simp only [runInt] at h <;>
      · obtain ⟨_, _, h⟩ := bind_eq_ok h; exact hbind h
    case float a b u =>
      rcases hop with rfl | rfl <;> simp only [runFloat] at h <;>
      · obtain ⟨_, _, h⟩ := bind_eq_ok h; exact hbind h
    case str a b p =>
      rcases hop with rfl | rfl <;> simp only [runStr] at h
      · obtain ⟨_, _, h⟩ := bind_eq_ok h; exact hbind h
      · split at h
        · exact hbind h
        · simp [Out.cerr] at h
    case bool =>
      rcases hop with rfl | rfl <;> simp only [runBool] at h <;> exact hbind h
    case pattern =>
      rcases hop with rfl | rfl <;> simp only [runPattern] at h <;>
      · split at h
        · exact hdone h
        · simp [Out.cerr] at h
    case enumInt vals u =>
      rcases hop with rfl | rfl <;> simp only [runEnumInt] at h <;>
      · obtain ⟨_, _, h⟩ := bind_eq_ok h
        split at h
        · exact hdone h
        · simp [Out.cerr] at h
    case enumStr vals =>
      rcases hop with rfl | rfl <;> simp only [runEnumStr] at h <;>
      · obtain ⟨_, _, h⟩ := bind_eq_ok h
        split at h
        · exact hdone h
        · simp [Out.cerr] at h
    case list item a b =>
      unfold runList at h
      split at h
      · simp [Out.cerr] at h
      · rcases hop with rfl | rfl <;> simp only at h
        · obtain ⟨_, _, h⟩ := bind_eq_ok h; exact hbind h
        · exact hbind h
    case map kt vt a b =>
      unfold runMap at h
      split at h
      · simp [Out.cerr] at h
      · obtain ⟨_, _, h⟩ := bind_eq_ok h
        rcases hop with rfl | rfl <;> simp only at h <;> exact hbind h
    case obj id props =>
      rcases hop with rfl | rfl <;> simp only [runObj] at h
      · split at h
        · split at h
          · simp [Out.cerr] at h
          · obtain ⟨_, _, h⟩ := bind_eq_ok h
            obtain ⟨_, _, h⟩ := bind_eq_ok h
            simp only [beq_self_eq_true, if_true] at h
            exact hdone h
        · simp [Out.cerr] at h
      · split at h
        · split at h
          · simp [Out.cerr] at h
          · unfold objCompatMap at h
            obtain ⟨_, _, h⟩ := bind_eq_ok h
            split at h
            · simp [Out.cerr] at h
            · exact hdone h
        · exact hbind h
    case oneOf ik disc inl members =>
      rcases hop with rfl | rfl <;> simp only [runOneOf] at h <;>
      · split at h
        · split at h
          · simp [Out.cerr] at h
          · obtain ⟨_, _, h⟩ := bind_eq_ok h
            first | exact hbind h | exact hdone h
        · simp [Out.cerr] at h
    case ref id =>
      split at h
      · simp at h
      · exact ih _ _ _ _ _ hop h
    case scope objs root =>
      split at h
      · simp at h
      · exact ih _ _ _ _ _ hop h
    case any =>
      rcases hop with rfl | rfl <;> simp only [runAny] at h
      · exact hbind h
      · unfold anyCompat at h
        split at h
        · exact hbind h
        · exact hbind h
        · exact hbind h
        · obtain ⟨_, _, h⟩ := bind_eq_ok h
          split at h
          · exact hdone h
          · split at h
            · simp [Out.cerr] at h
            · exact hdone h
        · exact hbind h


/-- On a well-formed schema no order panics; and when the budget suffices for both orders (neither
    outcome is `fuel` - a statement about the model's recursion budget, see
    `C12_hang_or_error_by_order`), an error under one order is an error under the other. Only the
    PATH of the error may differ: it names the first faulty entry in iteration order. -/
theorem C12_value_order_error_iff (x : Ext) (n : Nat) (op : Op) (env : Env) (t : Ty) {v v' : V}
    (h : v ≈ᵥ v') (hd : v.DistinctKeys) (henv : EnvWF env) (hwf : WF env t)
    (hnf : run x n op env t v ≠ .fuel) (hnf' : run x n op env t v' ≠ .fuel) :
    (run x n op env t v ≠ .panic ∧ run x n op env t v' ≠ .panic) ∧
    ((∃ e, run x n op env t v = .err e) ↔ (∃ e', run x n op env t v' = .err e')) := by
  have hrel := run_permEq x n op env t v v' h hd
  have hp : run x n op env t v ≠ .panic := (run_np_aux x n op env t v henv hwf).1
  have hp' : run x n op env t v' ≠ .panic := (run_np_aux x n op env t v' henv hwf).1
  refine ⟨⟨hp, hp'⟩, ?_⟩
  cases h1 : run x n op env t v <;> cases h2 : run x n op env t v' <;> simp_all

/-! ### what is false, by counter-example -/

/-- externals that are never consulted in the examples below -/
def c12NoExt : Ext := ⟨fun _ => none, fun _ => "", fun _ => false, fun _ _ => false⟩

/-- a map whose values are a dangling reference (not well-formed: `ApplyNamespace` never ran) -/
def c12Dangling : Ty := .map .bool (.ref "missing") none none
/-- `{nil: 1, true: 1}`: the key `nil` is not a bool (error), the value of `true` hits the reference (panic) -/
def c12DangA : V := .map .anyAny [(.nil, .int .int64 1), (.bool true, .int .int64 1)]
def c12DangB : V := .map .anyAny [(.bool true, .int .int64 1), (.nil, .int .int64 1)]

/-- Without well-formedness the KIND of failure depends on the order: the same map is rejected with
    an error when the faulty key is visited first, and panics when the entry with the dangling
    reference is. (A candidate defect only for schemas that escaped `ApplyNamespace`; on a
    well-formed schema nothing panics.) -/
theorem C12_panic_or_error_by_order (x : Ext) (n : Nat) :
    c12DangA ≈ᵥ c12DangB ∧ c12DangA.DistinctKeys ∧
    (run x (n + 2) .U [] c12Dangling c12DangA).isErr = true ∧
    run x (n + 2) .U [] c12Dangling c12DangB = .panic :=
  ⟨V.permEq_of_perm (List.Perm.swap ..), distinctB_sound 5 _ (by decide), rfl, rfl⟩

/-- a map whose values are the self-referential single-property object `scope{A{next: ref A}}`
    (well-formed; the known non-terminating shape of C04) -/
def c12Hang : Ty := .map .bool selfLoop none none
/-- `{true: 5, false: {"zz": 1}}`: the value `5` recurses for ever, the value `{"zz": 1}` is rejected -/
def c12HangA : V := .map .anyAny [(.bool true, .int .int64 5), (.bool false, .map .strAny [(.str "zz", .int .int64 1)])]
def c12HangB : V := .map .anyAny [(.bool false, .map .strAny [(.str "zz", .int .int64 1)]), (.bool true, .int .int64 5)]

/-- Even on a well-formed schema, "does not return" versus "returns an error" depends on the order,
    at EVERY budget: the entry that recurses for ever (known defect: `A{next: ref A}` with a non-map
    input overflows the stack) hides the faulty entry, or the faulty entry is reported before the
    other is reached. This is the order dependence that the non-termination defect induces; it
    disappears with it (`C04_terminates_guarded` / `_acyclic`: then neither order is `fuel`). -/
theorem C12_hang_or_error_by_order (x : Ext) (n : Nat) :
    c12HangA ≈ᵥ c12HangB ∧ c12HangA.DistinctKeys ∧ WF [] c12Hang ∧
    run x n .U [] c12Hang c12HangA = .fuel ∧
    (run x (n + 3) .U [] c12Hang c12HangB).isErr = true := by
  refine ⟨V.permEq_of_perm (List.Perm.swap ..), distinctB_sound 5 _ (by decide), wfB_sound 10 [] _ (by decide), ?_, rfl⟩
  cases n with
  | zero => rfl
  | succ n =>
    have hv := selfLoop_fuel x (v := .int .int64 5) rfl n
    show runMap (run x n) .U [] .bool selfLoop none none c12HangA = .fuel
    simp only [runMap, c12HangA, V.mapEntries?, checkLen, Out.bind, forKV, entryKV, hv]
    cases n with
    | zero => rfl
    | succ m => rfl

/-- a one-of with one member, and an association list that repeats the discriminator key -/
def c12OneOf : Ty := .oneOf false "k" false [(.s "a", .obj "A" [])]
def c12DupA : V := .map ⟨.string, true⟩ [(.str "k", .str "a"), (.str "k", .str "zzz")]
def c12DupB : V := .map ⟨.string, true⟩ [(.str "k", .str "zzz"), (.str "k", .str "a")]

/-- Why `DistinctKeys` is assumed: on an association list that repeats a string key (not a Go map)
    the first entry answers the lookup, so the order decides the verdict. -/
theorem C12_duplicate_keys_needed :
    c12DupA ≈ᵥ c12DupB ∧ ¬ c12DupA.DistinctKeys ∧
    (run c12NoExt 3 .V [] c12OneOf c12DupA).isOk = true ∧
    (run c12NoExt 3 .V [] c12OneOf c12DupB).isErr = true := by
  refine ⟨V.permEq_of_perm (List.Perm.swap ..), ?_, by decide, by decide⟩
  intro h
  have := h.top
  simp [c12DupA, V.TopDistinct, strKeysOf, V.strKey?] at this

/-! ### a concrete instance: object → map → list of maps, reordered at every level -/

def c12Schema : Ty :=
  .obj "O"
    [("m", .mk (.map (.str none none none)
                  (.list (.map (.str none none none) (.int none none none) none none) none none) none none)
            true [] [] [] none false),
     ("n", .mk (.int none none none) false [] [] [] none false)]

/-- `{"m": {"p": [{"a": 1, "b": 2}, {"c": 3}], "q": []}, "n": 5}` -/
def c12V : V :=
  .map ⟨.string, true⟩
    [(.str "m", .map ⟨.string, true⟩
        [(.str "p", .list [.map ⟨.string, true⟩ [(.str "a", .int .int64 1), (.str "b", .int .int64 2)],
                           .map ⟨.string, true⟩ [(.str "c", .int .int64 3)]]),
         (.str "q", .list [])]),
     (.str "n", .int .int64 5)]

/-- the same value with the top-level entries, the entries of `m`, and the entries of the first
    list element each visited in the other order (the list keeps its order) -/
def c12V' : V :=
  .map ⟨.string, true⟩
    [(.str "n", .int .int64 5),
     (.str "m", .map ⟨.string, true⟩
        [(.str "q", .list []),
         (.str "p", .list [.map ⟨.string, true⟩ [(.str "b", .int .int64 2), (.str "a", .int .int64 1)],
                           .map ⟨.string, true⟩ [(.str "c", .int .int64 3)]])])]

example : c12V ≈ᵥ c12V' := permEqB_sound 10 _ _ (by decide)
example : c12V.DistinctKeys := distinctB_sound 10 _ (by decide)
/-- reordering a LIST is not a `PermEq` (the check is sound only, so this is shown by inversion) -/
example : ¬ (V.list [.int .int64 1, .int .int64 2] ≈ᵥ V.list [.int .int64 2, .int .int64 1]) := by
  intro h
  cases V.permEq_list_iff.mp h with
  | cons h1 _ => cases h1

/-- both orders are accepted ... -/
example : (run c12NoExt 6 .U [] c12Schema c12V).isOk = true := by decide
example : (run c12NoExt 6 .U [] c12Schema c12V').isOk = true := by decide
example : (run c12NoExt 6 .S [] c12Schema c12V).isOk = true := by decide
example : (run c12NoExt 6 .S [] c12Schema c12V').isOk = true := by decide

/-- ... with these results, each in the order of its input (by evaluation) ... -/
example : run c12NoExt 6 .U [] c12Schema c12V = .ok
    (.map ⟨.string, true⟩
      [(.str "m", .map ⟨.string, false⟩
          [(.str "p", .list [.map ⟨.string, false⟩ [(.str "a", .int .int64 1), (.str "b", .int .int64 2)],
                             .map ⟨.string, false⟩ [(.str "c", .int .int64 3)]]),
           (.str "q", .list [])]),
       (.str "n", .int .int64 5)]) := rfl
example : run c12NoExt 6 .U [] c12Schema c12V' = .ok
    (.map ⟨.string, true⟩
      [(.str "n", .int .int64 5),
       (.str "m", .map ⟨.string, false⟩
          [(.str "q", .list []),
           (.str "p", .list [.map ⟨.string, false⟩ [(.str "b", .int .int64 2), (.str "a", .int .int64 1)],
                             .map ⟨.string, false⟩ [(.str "c", .int .int64 3)]])])]) := rfl

/-- ... and the instance of the theorem: the two results are equal up to order at every depth,
    for each of the four operations and every budget -/
example (op : Op) (n : Nat) :
    Out.Rel V.PermEq (run c12NoExt n op [] c12Schema c12V) (run c12NoExt n op [] c12Schema c12V') :=
  (C12_value_order_rel c12NoExt n op [] c12Schema (permEqB_sound 10 _ _ (by decide))
    (distinctB_sound 10 _ (by decide))).1

example : ∃ r r', run c12NoExt 6 .U [] c12Schema c12V = .ok r ∧ run c12NoExt 6 .U [] c12Schema c12V' = .ok r' ∧ r ≈ᵥ r' := by
  have h := (C12_value_order_independent c12NoExt 6 .U [] c12Schema (v := c12V) (v' := c12V')
    (permEqB_sound 10 _ _ (by decide)) (distinctB_sound 10 _ (by decide))).1
  cases hr : run c12NoExt 6 .U [] c12Schema c12V with
  | ok r => obtain ⟨r', h1, h2⟩ := h r hr; exact ⟨r, r', rfl, h1, h2⟩
  | _ => exact absurd (show (run c12NoExt 6 .U [] c12Schema c12V).isOk = true by decide) (by rw [hr]; simp [Out.isOk])

/-- a rejected instance: `"n"` is not an integer in either order; the reordered value is rejected too -/
def c12Bad : V := .map ⟨.string, true⟩ [(.str "m", .map ⟨.string, true⟩ []), (.str "n", .list [])]
def c12Bad' : V := .map ⟨.string, true⟩ [(.str "n", .list []), (.str "m", .map ⟨.string, true⟩ [])]
example : (run c12NoExt 6 .U [] c12Schema c12Bad).isErr = true ∧ (run c12NoExt 6 .U [] c12Schema c12Bad').isErr = true := by
  decide
/-- well-formedness of the example schema (hypothesis of `C12_value_order_error_iff`) -/
example : EnvWF [] ∧ WF [] c12Schema := ⟨fun _ h => (by cases h), wfB_sound 10 [] _ (by decide)⟩

#print axioms C12_value_order_independent
#print axioms C12_value_order_rel
#print axioms C12_validate_result_unit
#print axioms C12_value_order_error_iff
#print axioms C12_panic_or_error_by_order
#print axioms C12_hang_or_error_by_order
#print axioms C12_duplicate_keys_needed


/-! ## deep order independence: schemas equal up to the order of their tables

`t ≈ₜ t'` (`Ty.PermEq`, Lemmas/PermEqTy.lean): the same schema up to the order of property tables,
one-of member tables, scope tables and enum value sets - everything the SDK keeps in a Go map - at
every depth; `EnvEq env env'` the same for the objects of the enclosing scope. `Ty.Distinct t` /
`EnvDistinct env`: the tables are genuine Go maps (names pairwise distinct) and the defaults genuine
Go values. Unlike the value side the RESULTS differ here (in order only): the defaults of absent
properties are appended in table order. -/

/-- the three readings of `Out.Rel V.PermEq o o'` -/
theorem Out.Rel.unpack {o o' : Out V} (hrel : Out.Rel V.PermEq o o') :
    (∀ r, o = .ok r → ∃ r', o' = .ok r' ∧ r ≈ᵥ r') ∧
    (∀ r', o' = .ok r' → ∃ r, o = .ok r ∧ r ≈ᵥ r') ∧
    ((∀ r, o ≠ .ok r) ↔ (∀ r', o' ≠ .ok r')) := by
  refine ⟨fun r hr => hrel.ok_left hr, fun r' hr' => hrel.ok_right hr', ?_, ?_⟩
  · intro hno r' hr'
    obtain ⟨r, hr, _⟩ := hrel.ok_right hr'
    exact hno r hr
  · intro hno r hr
    obtain ⟨r', hr', _⟩ := hrel.ok_left hr
    exact hno r' hr'

/-- **C12, schema side.** Reordering the property table of any object, the member table of any
    one-of, the object table of any scope (and of the enclosing scope), the values of any enum, at
    any depth, changes neither the verdict nor - up to the order of map entries - the result. -/
theorem C12_schema_order_independent (x : Ext) (n : Nat) (op : Op) {env env' : Env} {t t' : Ty} {v : V}
    (henv : EnvEq env env') (hdenv : EnvDistinct env) (ht : t ≈ₜ t') (hdt : t.Distinct) (hdv : v.DistinctKeys) :
    (∀ r, run x n op env t v = .ok r → ∃ r', run x n op env' t' v = .ok r' ∧ r ≈ᵥ r') ∧
    (∀ r', run x n op env' t' v = .ok r' → ∃ r, run x n op env t v = .ok r ∧ r ≈ᵥ r') ∧
    ((∀ r, run x n op env t v ≠ .ok r) ↔ (∀ r', run x n op env' t' v ≠ .ok r')) :=
  (run_permEqT x n op env env' t t' v henv hdenv ht hdt hdv).unpack

/-- **C12, both sides at once**: schema, environment and argument each given in another order. -/
theorem C12_order_independent (x : Ext) (n : Nat) (op : Op) {env env' : Env} {t t' : Ty} {v v' : V}
    (henv : EnvEq env env') (hdenv : EnvDistinct env) (ht : t ≈ₜ t') (hdt : t.Distinct)
    (hv : v ≈ᵥ v') (hdv : v.DistinctKeys) :
    (∀ r, run x n op env t v = .ok r → ∃ r', run x n op env' t' v' = .ok r' ∧ r ≈ᵥ r') ∧
    (∀ r', run x n op env' t' v' = .ok r' → ∃ r, run x n op env t v = .ok r ∧ r ≈ᵥ r') ∧
    ((∀ r, run x n op env t v ≠ .ok r) ↔ (∀ r', run x n op env' t' v' ≠ .ok r')) :=
  ((run_permEqT x n op env env' t t' v henv hdenv ht hdt hdv).comp
    (run_permEq x n op env' t' v v' hv hdv) (fun _ _ _ => V.PermEq.trans)).unpack

/-- one level, as corollaries: the property table of an object ... -/
theorem C12_props_order (x : Ext) (n : Nat) (op : Op) (env : Env) (id : String) {props props' : List (String × PropT)}
    {v : V} (hp : props.Perm props') (hdenv : EnvDistinct env) (hdt : (Ty.obj id props).Distinct) (hdv : v.DistinctKeys) :
    Out.Rel V.PermEq (run x n op env (.obj id props) v) (run x n op env (.obj id props') v) :=
  run_permEqT x n op env env _ _ v (EnvEq.refl env) hdenv (Ty.permEq_obj_of (PropsEq.of_perm hp)) hdt hdv

/-- ... and the object table of a scope -/
theorem C12_scope_order (x : Ext) (n : Nat) (op : Op) (env : Env) (root : String) {objs objs' : List (String × Ty)}
    {v : V} (hp : objs.Perm objs') (hdenv : EnvDistinct env) (hdt : (Ty.scope objs root).Distinct) (hdv : v.DistinctKeys) :
    Out.Rel V.PermEq (run x n op env (.scope objs root) v) (run x n op env (.scope objs' root) v) :=
  run_permEqT x n op env env _ _ v (EnvEq.refl env) hdenv (Ty.permEq_scope_of (EnvEq.of_perm hp)) hdt hdv

/-! ### a concrete instance -/

def c12PA : PropT := .mk (.int none none none) false [] [] [] (some ⟨some (.int .int64 1), none⟩) false
def c12PB : PropT := .mk (.str none none none) false [] [] [] (some ⟨some (.str "x"), none⟩) false
def c12PSub : PropT := .mk (.ref "Sub") false [] [] [] none false
def c12PE (vals : List String) : PropT := .mk (.enumStr vals) true [] [] [] none false

/-- `scope{Root{a: int = 1, b: string = "x", sub: Sub}, Sub{e: enum{p, q}}}` -/
def c12Scope : Ty :=
  .scope [("Root", .obj "Root" [("a", c12PA), ("b", c12PB), ("sub", c12PSub)]),
          ("Sub", .obj "Sub" [("e", c12PE ["p", "q"])])] "Root"
/-- the same with the scope table, `Root`'s property table and the enum's values in other orders -/
def c12Scope' : Ty :=
  .scope [("Sub", .obj "Sub" [("e", c12PE ["q", "p"])]),
          ("Root", .obj "Root" [("b", c12PB), ("sub", c12PSub), ("a", c12PA)])] "Root"

theorem c12Scope_permEq : c12Scope ≈ₜ c12Scope' := by
  refine Ty.permEq_scope_of ⟨[("Root", .obj "Root" [("b", c12PB), ("sub", c12PSub), ("a", c12PA)]),
    ("Sub", .obj "Sub" [("e", c12PE ["q", "p"])])], .cons ⟨rfl, ?_⟩ (.cons ⟨rfl, ?_⟩ .nil), .swap ..⟩
  · exact Ty.permEq_obj_of (PropsEq.of_perm ((List.Perm.swap ..).trans ((List.Perm.swap ..).cons _)))
  · exact Ty.permEq_obj_of ⟨[("e", c12PE ["q", "p"])],
      .cons ⟨rfl, .enumStr (.swap ..), rfl, rfl, rfl, rfl, rfl, rfl⟩ .nil, .refl _⟩

example : c12Scope.Distinct := tyDistinctB_sound 10 _ (by decide)
example : EnvDistinct [] := ⟨List.nodup_nil, fun _ h => (by cases h)⟩
example : WF [] c12Scope := wfB_sound 10 [] _ (by decide)

/-- `{"sub": {"e": "q"}}` -/
def c12SV : V := .map ⟨.string, true⟩ [(.str "sub", .map ⟨.string, true⟩ [(.str "e", .str "q")])]

/-- the two results by evaluation: the defaults arrive in table order ... -/
example : run c12NoExt 8 .U [] c12Scope c12SV = .ok
    (.map ⟨.string, true⟩ [(.str "sub", .map ⟨.string, true⟩ [(.str "e", .str "q")]),
      (.str "a", .int .int64 1), (.str "b", .str "x")]) := rfl
example : run c12NoExt 8 .U [] c12Scope' c12SV = .ok
    (.map ⟨.string, true⟩ [(.str "sub", .map ⟨.string, true⟩ [(.str "e", .str "q")]),
      (.str "b", .str "x"), (.str "a", .int .int64 1)]) := rfl

/-- ... and the instance of the theorem, for every operation and budget -/
example (op : Op) (n : Nat) :
    Out.Rel V.PermEq (run c12NoExt n op [] c12Scope c12SV) (run c12NoExt n op [] c12Scope' c12SV) :=
  run_permEqT c12NoExt n op [] [] _ _ _ (EnvEq.refl []) ⟨List.nodup_nil, fun _ h => (by cases h)⟩
    c12Scope_permEq (tyDistinctB_sound 10 _ (by decide)) (distinctB_sound 10 _ (by decide))

/-- a table that repeats a name is not a Go map, and there the order does matter: the first entry
    named `a` answers the lookup -/
def c12DupProps : List (String × PropT) := [("a", .mk (.int none none none) false [] [] [] none false),
  ("a", .mk .bool false [] [] [] none false)]
example : (run c12NoExt 3 .U [] (.obj "O" c12DupProps) (.map ⟨.string, true⟩ [(.str "a", .int .int64 7)])).isOk = true ∧
    (run c12NoExt 3 .U [] (.obj "O" c12DupProps.reverse) (.map ⟨.string, true⟩ [(.str "a", .int .int64 7)])).isErr = true := by
  decide

/-- an instance with a non-empty environment: a one-of over references, the environment, the member
    table and the argument each in another order -/
def c12Env : Env := [("One", .obj "One" []), ("Two", .obj "Two" [("z", c12PA)])]
def c12Env' : Env := [("Two", .obj "Two" [("z", c12PA)]), ("One", .obj "One" [])]
def c12Choice : Ty := .oneOf false "t" false [(.s "one", .ref "One"), (.s "two", .ref "Two")]
def c12Choice' : Ty := .oneOf false "t" false [(.s "two", .ref "Two"), (.s "one", .ref "One")]
def c12CV : V := .map ⟨.string, true⟩ [(.str "t", .str "two"), (.str "z", .int .int64 4)]
def c12CV' : V := .map ⟨.string, true⟩ [(.str "z", .int .int64 4), (.str "t", .str "two")]

theorem EnvDistinct.of_scope {env : Env} {root : String} (h : (Ty.scope env root).Distinct) : EnvDistinct env := by
  cases h with
  | scope hnd htys => exact ⟨hnd, htys⟩

example : EnvEq c12Env c12Env' := EnvEq.of_perm (List.Perm.swap ..)
example : EnvDistinct c12Env := EnvDistinct.of_scope (root := "One") (tyDistinctB_sound 10 _ (by decide))
example : c12Choice ≈ₜ c12Choice' := Ty.permEq_oneOf_of (MembersEq.of_perm (List.Perm.swap ..))
example : (run c12NoExt 6 .U c12Env c12Choice c12CV).isOk = true ∧ (run c12NoExt 6 .U c12Env' c12Choice' c12CV').isOk = true := by
  decide
example (op : Op) (n : Nat) :
    (∀ r, run c12NoExt n op c12Env c12Choice c12CV ≠ .ok r) ↔ (∀ r', run c12NoExt n op c12Env' c12Choice' c12CV' ≠ .ok r') :=
  (C12_order_independent c12NoExt n op (EnvEq.of_perm (List.Perm.swap ..))
    (EnvDistinct.of_scope (root := "One") (tyDistinctB_sound 10 _ (by decide)))
    (Ty.permEq_oneOf_of (MembersEq.of_perm (List.Perm.swap ..))) (tyDistinctB_sound 10 _ (by decide))
    (permEqB_sound 10 _ _ (by decide)) (distinctB_sound 10 _ (by decide))).2.2

#print axioms C12_schema_order_independent
#print axioms C12_order_independent
#print axioms C12_props_order
#print axioms C12_scope_order

end Arca
