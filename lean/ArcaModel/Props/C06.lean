import ArcaModel.Model.AtpClient
import ArcaModel.Lemmas.AtpClient
/-
  C06  The read loop of the ATP client: exactly one loop while a call is pending, no lost wake-up
  (after the repair 81c38a0), every Execute returns once, Close returns when no goroutine remains.
-/
namespace Arca.AtpClient

/-- the invariant of the claim -/
def Inv (s : State) : Prop :=
  (s.flag = true ↔ s.loops ≠ []) ∧ s.loops.length ≤ 1 ∧ (anyPending s.entries = true → s.flag = true)

/-- the structural invariant actually proved by induction -/
structure InvA (s : State) : Prop where
  flag_iff : s.flag = true ↔ s.loops ≠ []
  len : s.loops.length ≤ 1
  pend : anyPending s.entries = true → s.flag = true
  noExit : ∀ l, s.loops.lookup l ≠ some .exiting
  ndE : (keys s.entries).Nodup
  ndC : (keys s.callers).Nodup
  ndW : (keys s.writers).Nodup

theorem InvA.congr {s s' : State} (hi : InvA s) (he : s'.entries = s.entries) (hf : s'.flag = s.flag)
    (hl : s'.loops = s.loops) (hc : s'.callers = s.callers) (hw : s'.writers = s.writers) : InvA s' := by
  obtain ⟨h1, h2, h3, h4, h5, h6, h7⟩ := hi
  constructor <;> (first | rw [he] | skip) <;> (first | rw [hf] | skip) <;> (first | rw [hl] | skip) <;>
    (first | rw [hc] | skip) <;> (first | rw [hw] | skip) <;> assumption

theorem invA_init : InvA init := by
  constructor <;> simp [init, anyPending]

theorem invA_stepLoop {s s' : State} {l : Label} (hi : InvA s) (h : stepLoop false s l = some s') :
    InvA s' := by
  obtain ⟨h1, h2, h3, h4, h5, h6, h7⟩ := hi
  cases l <;> simp only [stepLoop, Bool.false_eq_true, if_false] at h <;> step_split h
  all_goals
    have hL := eq_singleton_of_lookup h2 (by assumption)
    constructor <;> simp_all [setT, delT, anyPending_failAll, lookup_cons']

theorem invA_stepCaller {s s' : State} {l : Label} (hi : InvA s) (h : stepCaller s l = some s') :
    InvA s' := by
  obtain ⟨h1, h2, h3, h4, h5, h6, h7⟩ := hi
  cases l <;> simp only [stepCaller] at h <;> step_split h
  all_goals
    have hd := fun r h => h3 (@anyPending_delT s.entries r h)
    constructor <;>
      simp_all [lookup_cons', nodup_append_single, fresh_iff, hasKey_eq_false, nodup_keys_delT]
  all_goals exact hd _

theorem invA_stepWriter {s s' : State} {l : Label} (hi : InvA s) (h : stepWriter s l = some s') :
    InvA s' := by
  obtain ⟨h1, h2, h3, h4, h5, h6, h7⟩ := hi
  cases l <;> simp only [stepWriter] at h <;> step_split h
  all_goals
    constructor <;> simp_all [nodup_keys_delT]

theorem invA_step {s s' : State} {l : Label} (hi : InvA s) (h : Step s l s') : InvA s' := by
  refine h.cases ?_ ?_ ?_ ?_ ?_ ?_ <;> intro _ h'
  · obtain ⟨he, _, hf, _, _, hl, hc, hw, _⟩ := frame_stepRs h'
    exact hi.congr he hf hl hc hw
  · exact invA_stepCaller hi h'
  · exact invA_stepLoop hi h'
  · exact invA_stepWriter hi h'
  · obtain ⟨_, he, _, hf, hl, hc, hw, _⟩ := frame_stepCloser h'
    exact hi.congr he hf hl hc hw
  · obtain ⟨_, he, _, hf, _, _, hl, hc, hw, _⟩ := frame_stepEnv h'
    exact hi.congr he hf hl hc hw

theorem invA_of_reachable {s : State} (h : Reachable s) : InvA s := by
  induction h with
  | init => exact invA_init
  | step _ hs ih => exact invA_step ih hs

/-! traces used by the non-vacuity examples -/

/-- handshake of an ATP v3 session -/
def hs3 : List Label := [.rsCall, .rsSend true, .sRecv, .envPut (.hello 3 true), .rsRead, .rsRet]

/-- Execute 1 is registered, has sent its work-start and waits; loop 10 is decoding -/
def trWaiting : List Label :=
  hs3 ++ [.call 1 1 false false, .cRegister 1 (some 10), .cSend 1 true, .cWait 1]

/-- C06 (1): at most one read loop, `readLoopRunning` is exact, and a pending entry implies a
    running loop; for every environment, faulty ones included. -/
theorem C06_inv {s : State} (h : Reachable s) : Inv s :=
  let hi := invA_of_reachable h
  ⟨hi.flag_iff, hi.len, hi.pend⟩

/- non-vacuity: a concrete instance of the hypotheses of `C06_inv` -/
example : (run init trWaiting).isSome = true := by decide
example : Reachable (stateAt trWaiting) := reachable_stateAt _
example : (stateAt trWaiting).loops = [(10, .decode)] ∧ (stateAt trWaiting).flag = true := by decide

theorem C06_pending_has_loop {s : State} (h : Reachable s) (hp : anyPending s.entries = true) :
    ∃ l pc, s.loops = [(l, pc)] := by
  have hi := invA_of_reachable h
  have hne := hi.flag_iff.1 (hi.pend hp)
  have hlen := hi.len
  match hL : s.loops, hne, hlen with
  | [(l, pc)], _, _ => exact ⟨l, pc, rfl⟩

/- non-vacuity: a concrete instance of the hypotheses of `C06_pending_has_loop` -/
example : Reachable (stateAt trWaiting) ∧ anyPending (stateAt trWaiting).entries = true :=
  ⟨reachable_stateAt _, by decide⟩

/-- in the current code no loop is ever between "decided to exit" and "flag cleared" -/
theorem C06_no_exiting {s : State} (h : Reachable s) : ∀ l, s.loops.lookup l ≠ some .exiting :=
  (invA_of_reachable h).noExit

/-! ### (2) the lost wake-up of the code before 81c38a0, and its absence after the repair -/

theorem runG_reachablePinned {s s' : State} {ls : List Label} (h : ReachablePinned s)
    (hr : runG true s ls = some s') : ReachablePinned s' := by
  induction ls generalizing s with
  | nil => simp [runG] at hr; exact hr ▸ h
  | cons l ls ih =>
    simp only [runG] at hr
    cases hst : stepG true s l with
    | none => simp [hst] at hr
    | some s1 =>
      simp only [hst] at hr
      exact ih (.step h hst) hr

/-- Execute 1 completes; its loop decides to exit (`lCheck`, nothing pending) but has not yet cleared
    `readLoopRunning`; Execute 2 registers meanwhile and, seeing the flag, starts no loop. -/
def lostPrefix : List Label :=
  [.rsCall, .rsSend true, .sRecv, .envPut (.hello 3 true), .rsRead, .rsRet,
   .call 1 1 false false, .cRegister 1 (some 10), .cSend 1 true, .sRecv, .sSend (.workDone 1 (some 7)),
   .lRead 10, .lDeliver 10, .cTake 1, .lCheck 10, .call 2 2 false false, .cRegister 2 none]

/-- the loop clears the flag and ends; Execute 2 sends its work-start, waits; the server answers -/
def lostSuffix : List Label :=
  [.lExit 10, .cSend 2 true, .cWait 2, .sRecv, .sSend (.workDone 2 (some 8))]

def lostMid : State :=
  { ver := 3, entries := [(2, .pending)], sigs := [], flag := true, done := false, cancelled := false,
    loops := [(10, .exiting)],
    callers := [(1, ⟨1, false, false, .returned (.ok 7)⟩), (2, ⟨2, false, false, .registered⟩)],
    writers := [], closer := .idle, rs := .finished, s2c := [], c2s := [],
    srv := ⟨[], false, false⟩, consumed := [(1, 7)], retd := [] }

def lostFinal : State :=
  { ver := 3, entries := [(2, .pending)], sigs := [], flag := false, done := false, cancelled := false,
    loops := [],
    callers := [(1, ⟨1, false, false, .returned (.ok 7)⟩), (2, ⟨2, false, false, .waiting⟩)],
    writers := [], closer := .idle, rs := .finished, s2c := [.msg (.workDone 2 (some 8))], c2s := [],
    srv := ⟨[], false, false⟩, consumed := [(1, 7)], retd := [] }

theorem lostMid_run : runG true init lostPrefix = some lostMid := by decide
theorem lostFinal_run : runG true lostMid lostSuffix = some lostFinal := by decide

theorem lostMid_reachable : ReachablePinned lostMid := runG_reachablePinned .init lostMid_run
theorem lostFinal_reachable : ReachablePinned lostFinal :=
  runG_reachablePinned lostMid_reachable lostFinal_run

/-- C06 (2): in the pre-repair variant a state is reachable in which an entry is pending, the flag
    is still set, and the only loop has already decided to exit; five more steps lead to a state
    with NO loop, a pending entry whose caller sleeps in `condition.Wait()`, and the answer sitting
    unread in the stream. -/
theorem C06_pinned_lost_wakeup :
    ∃ s s', ReachablePinned s ∧ anyPending s.entries = true ∧ s.flag = true ∧
      (∀ l pc, (l, pc) ∈ s.loops → pc = .exiting) ∧
      runG true s lostSuffix = some s' ∧ ReachablePinned s' ∧
      s'.loops = [] ∧ s'.flag = false ∧
      s'.callers.lookup 2 = some ⟨2, false, false, .waiting⟩ ∧
      s'.entries.lookup 2 = some .pending ∧
      s'.s2c = [.msg (.workDone 2 (some 8))] := by
  refine ⟨lostMid, lostFinal, lostMid_reachable, by decide, rfl, ?_, lostFinal_run,
    lostFinal_reachable, rfl, rfl, by decide, by decide, rfl⟩
  intro l pc h
  simp [lostMid] at h
  exact h.2

theorem lostFinal_callers (c : Tid) :
    (c = 1 ∧ lostFinal.callers.lookup c = some ⟨1, false, false, .returned (.ok 7)⟩) ∨
    (c = 2 ∧ lostFinal.callers.lookup c = some ⟨2, false, false, .waiting⟩) ∨
    lostFinal.callers.lookup c = none := by
  by_cases h1 : c = 1
  · subst h1; exact Or.inl ⟨rfl, rfl⟩
  · by_cases h2 : c = 2
    · subst h2; exact Or.inr (Or.inl ⟨rfl, rfl⟩)
    · exact Or.inr (Or.inr (by simp [lostFinal, lookup_cons', h1, h2]))

/-- C06 (2): in the stuck state NOTHING is enabled except free inputs of the application and the peer (a new
    `call`, `clCall`, `envPut`, unsolicited server messages) and the return of the unrelated, already
    completed Execute 1.  Caller 2 sleeps although its answer has arrived; only a LATER Execute (which
    starts a new loop) would wake it. -/
theorem C06_pinned_stuck (l : Label) (h : (stepPinned? lostFinal l).isSome = true) :
    l.isInput = true ∨ l = .cRet 1 (.ok 7) := by
  cases l
  case cReject c => 
    rcases lostFinal_callers c with ⟨rfl, hc⟩ | ⟨rfl, hc⟩ | hc <;>
      simp [stepPinned?, stepG, Label.owner, stepCaller, hc] at h
  case cSpawnW c w => 
    rcases lostFinal_callers c with ⟨rfl, hc⟩ | ⟨rfl, hc⟩ | hc <;>
      simp [stepPinned?, stepG, Label.owner, stepCaller, hc] at h
  case cRegister c lo => 
    rcases lostFinal_callers c with ⟨rfl, hc⟩ | ⟨rfl, hc⟩ | hc <;>
      simp [stepPinned?, stepG, Label.owner, stepCaller, hc] at h
  case cSend c ok => 
    rcases lostFinal_callers c with ⟨rfl, hc⟩ | ⟨rfl, hc⟩ | hc <;>
      simp [stepPinned?, stepG, Label.owner, stepCaller, hc] at h
  case cAbandon c => 
    rcases lostFinal_callers c with ⟨rfl, hc⟩ | ⟨rfl, hc⟩ | hc <;>
      simp [stepPinned?, stepG, Label.owner, stepCaller, hc] at h
  case cWait c => 
    rcases lostFinal_callers c with ⟨rfl, hc⟩ | ⟨rfl, hc⟩ | hc <;>
      simp [stepPinned?, stepG, Label.owner, stepCaller, hc] at h
  case cTake c => 
    rcases lostFinal_callers c with ⟨rfl, hc⟩ | ⟨rfl, hc⟩ | hc <;>
      simp [stepPinned?, stepG, Label.owner, stepCaller, hc] at h
    simp [lostFinal] at h
  case cReadV1 c => 
    rcases lostFinal_callers c with ⟨rfl, hc⟩ | ⟨rfl, hc⟩ | hc <;>
      simp [stepPinned?, stepG, Label.owner, stepCaller, hc] at h
    all_goals simp [lostFinal] at h
  case cRet c res => 
    rcases lostFinal_callers c with ⟨rfl, hc⟩ | ⟨rfl, hc⟩ | hc <;>
      simp [stepPinned?, stepG, Label.owner, stepCaller, hc] at h
    right; rw [h]
  case sSend m =>
    cases m
    case error r sf vf =>
      cases sf <;> cases vf <;>
        simp [stepPinned?, stepG, Label.owner, stepEnv, srvMay, lostFinal, Label.isInput, Msg.isOwedTerminal] at h ⊢
      exact h
    all_goals
      simp [stepPinned?, stepG, Label.owner, stepEnv, srvMay, lostFinal, Label.isInput, Msg.isOwedTerminal] at h ⊢
  all_goals
    simp [stepPinned?, stepG, Label.owner, stepRs, stepCaller, stepLoop, stepWriter, stepCloser, stepEnv,
      lostFinal, Label.isInput, wgZero, fresh] at h ⊢

/- non-vacuity: a concrete instance of the hypotheses of `C06_pinned_stuck` -/
example : (stepPinned? lostFinal (.call 3 3 false false)).isSome = true := by decide

/-- in particular: no read-loop step, and caller 2 cannot take its result -/
theorem C06_pinned_stuck_loop (l : Label) (hl : l.owner = .loop) : stepPinned? lostFinal l = none := by
  cases h : stepPinned? lostFinal l with
  | none => rfl
  | some s' =>
    rcases C06_pinned_stuck l (by rw [h]; rfl) with hi | hi
    · cases l <;> simp [Label.owner, Label.isInput] at hl hi
    · subst hi; simp [Label.owner] at hl

theorem C06_pinned_stuck_take : stepPinned? lostFinal (.cTake 2) = none := by decide

/-- the trace that deadlocks the old code -/
def lostTrace : List Label := lostPrefix ++ lostSuffix

/-- the corresponding run of the current code: Execute 2 finds the flag cleared and starts loop 11 -/
def repairedTrace : List Label :=
  [.rsCall, .rsSend true, .sRecv, .envPut (.hello 3 true), .rsRead, .rsRet,
   .call 1 1 false false, .cRegister 1 (some 10), .cSend 1 true, .sRecv, .sSend (.workDone 1 (some 7)),
   .lRead 10, .lDeliver 10, .cTake 1, .lCheck 10, .call 2 2 false false, .cRegister 2 (some 11),
   .cSend 2 true, .cWait 2, .sRecv, .sSend (.workDone 2 (some 8)),
   .lRead 11, .lDeliver 11, .cTake 2, .cRet 2 (.ok 8)]

/-- C06 (2), contrast: the deadlocking trace is a run of the old code but NOT of the current code
    (`lCheck` clears the flag in the same critical section, so `cRegister 2 none` is impossible: the
    run is rejected exactly there), while the run in which Execute 2 starts its own loop exists and
    ends with Execute 2 returned with the server's answer. -/
theorem C06_repaired_rejects :
    runG true init lostTrace = some lostFinal ∧
    run init lostTrace = none ∧
    run init lostPrefix = none ∧ (run init (lostPrefix.take 16)).isSome = true ∧
    ∃ s', run init repairedTrace = some s' ∧ 2 ∈ s'.retd ∧
      s'.callers.lookup 2 = some ⟨2, false, false, .finished⟩ ∧ (2, 8) ∈ s'.consumed ∧
      anyPending s'.entries = false := by
  refine ⟨by decide, by decide, by decide, by decide, ?_⟩
  cases h : run init repairedTrace with
  | none => exact absurd h (by decide)
  | some s' =>
    refine ⟨s', rfl, ?_⟩
    have : run init repairedTrace = some
      { ver := 3, entries := [], sigs := [], flag := true, done := false, cancelled := false,
        loops := [(11, .check)],
        callers := [(1, ⟨1, false, false, .returned (.ok 7)⟩), (2, ⟨2, false, false, .finished⟩)],
        writers := [], closer := .idle, rs := .finished, s2c := [], c2s := [],
        srv := ⟨[], false, false⟩, consumed := [(1, 7), (2, 8)], retd := [2] } := by decide
    rw [this] at h
    cases h
    decide

/-! ### (4) every Execute returns once, with the result of its own run -/

/-- returned calls stay `finished`; nobody returns twice -/
structure InvR (s : State) : Prop where
  nd : s.retd.Nodup
  fin : ∀ c ∈ s.retd, ∃ k, s.callers.lookup c = some k ∧ k.pc = .finished

theorem retdOK_setT {callers : List (Tid × Caller)} {retd : List Tid} {c : Tid} {k0 k' : Caller}
    (h : ∀ c' ∈ retd, ∃ k, callers.lookup c' = some k ∧ k.pc = .finished)
    (hc : callers.lookup c = some k0) (hne : k0.pc ≠ .finished) :
    ∀ c' ∈ retd, ∃ k, (setT callers c k').lookup c' = some k ∧ k.pc = .finished := by
  intro c' hc'
  obtain ⟨k, hk, hf⟩ := h c' hc'
  have : c' ≠ c := by
    rintro rfl; rw [hc] at hk; cases hk; exact hne hf
  rw [lookup_setT_ne _ _ this]; exact ⟨k, hk, hf⟩

theorem invR_stepCaller {s s' : State} {l : Label} (hi : InvR s) (h : stepCaller s l = some s') :
    InvR s' := by
  obtain ⟨h1, h2⟩ := hi
  cases l
  case call c r a b =>
    simp only [stepCaller] at h; step_split h
    refine ⟨h1, ?_⟩
    intro c' hc'
    obtain ⟨k, hk, hf⟩ := h2 c' hc'
    exact ⟨k, by simp [List.lookup_append, hk], hf⟩
  case cRet c res =>
    simp only [stepCaller] at h; step_split h
    rename_i k hk hpc
    have hnot : c ∉ s.retd := by
      intro hc
      obtain ⟨k', hk', hf⟩ := h2 c hc
      rw [hk] at hk'; cases hk'; rw [hpc] at hf; cases hf
    refine ⟨nodup_append_single.2 ⟨h1, hnot⟩, ?_⟩
    intro c' hc'
    simp only [List.mem_append, List.mem_singleton] at hc'
    by_cases hcc : c' = c
    · subst hcc
      exact ⟨_, by rw [lookup_setT_self, hk]; rfl, rfl⟩
    · rcases hc' with hc' | hc'
      · obtain ⟨k', hk', hf⟩ := h2 c' hc'
        exact ⟨k', by rw [lookup_setT_ne _ _ hcc]; exact hk', hf⟩
      · exact absurd hc' hcc
  all_goals
    simp only [stepCaller] at h <;> step_split h <;>
    constructor <;> (try simp only) <;> (try assumption) <;>
      (try exact retdOK_setT h2 (by assumption) (by intro hf; simp_all))

theorem InvR.congr {s s' : State} (hi : InvR s) (hc : s'.callers = s.callers) (hr : s'.retd = s.retd) :
    InvR s' := by
  obtain ⟨h1, h2⟩ := hi
  constructor
  · rw [hr]; exact h1
  · rw [hr, hc]; exact h2

theorem invR_step {s s' : State} {l : Label} (hi : InvR s) (h : Step s l s') : InvR s' := by
  refine h.cases ?_ ?_ ?_ ?_ ?_ ?_ <;> intro _ h'
  · have f := frame_stepRs h'; exact hi.congr f.2.2.2.2.2.2.1 f.2.2.2.2.2.2.2.2.2.2.2
  · exact invR_stepCaller hi h'
  · have f := frame_stepLoop h'; exact hi.congr f.2.2.2.1 f.2.2.2.2.2.2.2.2.2
  · have f := frame_stepWriter h'; exact hi.congr f.2.2.2.2.2.2.2.1 f.2.2.2.2.2.2.2.2.2.2.2.2.2
  · have f := frame_stepCloser h'; exact hi.congr f.2.2.2.2.2.1 f.2.2.2.2.2.2.2.2.2.2.2
  · have f := frame_stepEnv h'; exact hi.congr f.2.2.2.2.2.2.2.1 f.2.2.2.2.2.2.2.2.2.2.2.2

theorem invR_of_reachable {s : State} (h : Reachable s) : InvR s := by
  induction h with
  | init => exact ⟨by simp [init], by simp [init]⟩
  | step _ hs ih => exact invR_step ih hs

/-- C06 (4a): an Execute returns to its caller at most once -/
theorem C06_once {s : State} (h : Reachable s) : s.retd.Nodup := (invR_of_reachable h).nd

/- non-vacuity: a concrete instance of the hypotheses of `C06_once` -/
example : Reachable (stateAt repairedTrace) ∧ (stateAt repairedTrace).retd = [2] :=
  ⟨reachable_stateAt _, by decide⟩

theorem set_from_same_run_loop {s s' : State} {l : Label} {r : Run} {x : Nat}
    (h : stepLoop false s l = some s')
    (h1 : s'.entries.lookup r = some (.result (.ok x)))
    (h0 : s.entries.lookup r ≠ some (.result (.ok x))) :
    ∃ t, l = .lDeliver t ∧ s.loops.lookup t = some (.handle (some (.workDone r (some x)))) := by
  cases l <;> simp only [stepLoop, Bool.false_eq_true, if_false] at h <;> step_split h
  all_goals try simp only [lookup_failAll, setRes, lookup_setT] at h1
  all_goals try (exact absurd h1 h0)
  all_goals try (split at h1)
  all_goals try (exact absurd h1 h0)
  all_goals try (cases hlk : s.entries.lookup r <;> simp [hlk] at h1 h0 <;> done)
  rename_i t _ _ r' x' hl hr
  subst hr
  cases hlk : s.entries.lookup r <;> simp [hlk] at h1
  cases x' <;> simp at h1
  subst h1
  exact ⟨t, rfl, hl⟩

theorem set_from_same_run_caller {s s' : State} {l : Label} {r : Run} {x : Nat}
    (h : stepCaller s l = some s')
    (h1 : s'.entries.lookup r = some (.result (.ok x))) :
    s.entries.lookup r = some (.result (.ok x)) := by
  cases l <;> simp only [stepCaller] at h <;> step_split h
  all_goals try simp only [lookup_delT, lookup_append_single] at h1
  all_goals try (exact h1)
  all_goals try (split at h1)
  all_goals try (exact h1)
  all_goals (cases hlk : s.entries.lookup r <;> simp [hlk] at h1 ⊢ <;> exact h1)

/-- C06 (4b): a success result in the table was put there by the read loop delivering a work-done
    message for exactly that run with exactly that output. -/
theorem C06_set_from_same_run {s s' : State} {l : Label} {r : Run} {x : Nat} (h : Step s l s')
    (h1 : s'.entries.lookup r = some (.result (.ok x)))
    (h0 : s.entries.lookup r ≠ some (.result (.ok x))) :
    ∃ t, l = .lDeliver t ∧ s.loops.lookup t = some (.handle (some (.workDone r (some x)))) := by
  refine h.cases ?_ ?_ ?_ ?_ ?_ ?_ <;> intro _ h'
  · rw [(frame_stepRs h').1] at h1; exact absurd h1 h0
  · exact absurd (set_from_same_run_caller h' h1) h0
  · exact set_from_same_run_loop h' h1 h0
  · rw [(frame_stepWriter h').2.1] at h1; exact absurd h1 h0
  · rw [(frame_stepCloser h').2.1] at h1; exact absurd h1 h0
  · rw [(frame_stepEnv h').2.1] at h1; exact absurd h1 h0

/- non-vacuity: a concrete instance of the hypotheses of `C06_set_from_same_run` -/
example : Step (stateAt (repairedTrace.take 12)) (.lDeliver 10) (stateAt (repairedTrace.take 13)) ∧
    (stateAt (repairedTrace.take 13)).entries.lookup 1 = some (.result (.ok 7)) ∧
    (stateAt (repairedTrace.take 12)).entries.lookup 1 ≠ some (.result (.ok 7)) := by decide

/-- C06 (4c): `cTake` hands the caller exactly the result stored under its own run ID and removes
    the entry. -/
theorem C06_take_is_entry {s s' : State} {c : Tid} {k : Caller} {v : Res} (h : Step s (.cTake c) s')
    (hk : s.callers.lookup c = some k) (he : s.entries.lookup k.run = some (.result v)) :
    ∃ k', s'.callers.lookup c = some k' ∧ k'.pc = .returned v ∧ k'.run = k.run ∧
      s'.entries.lookup k.run = none := by
  simp only [Step, step?, stepG, Label.owner, stepCaller, hk, he] at h
  split at h
  · cases h
    exact ⟨{ k with pc := .returned v }, by simp only [lookup_setT_self, hk]; rfl, rfl, rfl,
      lookup_delT_self _ _⟩
  · cases h

/- non-vacuity: a concrete instance of the hypotheses of `C06_take_is_entry` -/
example : Step (stateAt (repairedTrace.take 13)) (.cTake 1) (stateAt (repairedTrace.take 14)) ∧
    (stateAt (repairedTrace.take 13)).callers.lookup 1 = some ⟨1, false, false, .sent⟩ ∧
    (stateAt (repairedTrace.take 13)).entries.lookup 1 = some (.result (.ok 7)) := by decide

/-! ### (6) Close -/

/-- a complete session: one Execute with a signal writer, then Close -/
def trClose : List Label :=
  hs3 ++ [.call 1 1 true false, .cSpawnW 1 20, .cRegister 1 (some 10), .cSend 1 true, .sRecv,
    .sSend (.workDone 1 (some 7)), .lRead 10, .lDeliver 10, .cTake 1, .lCheck 10, .cRet 1 (.ok 7),
    .wCheck 20, .clCall, .clCancel, .clMark, .wCancel 20, .clSend true, .clRet]

/-- C06 (6): `Close` returns normally only when no goroutine of the client remains -/
theorem C06_close {s s' : State} (h : Step s .clRet s') : s.loops = [] ∧ s.writers = [] := by
  simp only [Step, step?, stepG, Label.owner, stepCloser] at h
  split at h
  · rename_i hw
    simp only [wgZero, Bool.and_eq_true, List.isEmpty_iff] at hw
    exact hw
  · cases h

/- non-vacuity: a concrete instance of the hypotheses of `C06_close` -/
example : (run init trClose).isSome = true := by decide
example : Step (stateAt (trClose.take 23)) .clRet (stateAt trClose) := by decide

theorem C06_close_enabled {s : State} (hc : s.closer = .sentDone) (hl : s.loops = [])
    (hw : s.writers = []) : ∃ s', Step s .clRet s' ∧ s'.closer = .returned true := by
  refine ⟨{ s with closer := .returned true }, ?_, rfl⟩
  simp [Step, step?, stepG, Label.owner, stepCloser, wgZero, hc, hl, hw]

/- non-vacuity: a concrete instance of the hypotheses of `C06_close_enabled` -/
example : (stateAt (trClose.take 23)).closer = .sentDone ∧ (stateAt (trClose.take 23)).loops = [] ∧
    (stateAt (trClose.take 23)).writers = [] := by decide

/-- after `cancel()` every signal writer can leave by its own steps (at most two; the labels used,
    `wCheck`, `wCancel`, `wSend _ true`, are healthy in every state) -/
theorem C06_writer_leaves {s : State} {w : Tid} {pc : WPc} (hc : s.cancelled = true)
    (hw : s.writers.lookup w = some pc) :
    ∃ ls s', ls.length ≤ 2 ∧ (∀ l ∈ ls, l.owner = .writer ∧ healthy s l = true) ∧ run s ls = some s' ∧
      s'.writers = delT s.writers w ∧ s'.writers.lookup w = none := by
  have hsel : ∀ s1 : State, s1.cancelled = true → s1.writers.lookup w = some .select →
      step? s1 (.wCancel w) = some { s1 with writers := delT s1.writers w } := by
    intro s1 h1 h2
    simp only [step?, stepG, Label.owner, stepWriter, h2, h1, if_true]
  cases pc with
  | select =>
    exact ⟨[.wCancel w], _, by simp, by simp [Label.owner, healthy], run_cons (hsel s hc hw) (run_nil _),
      rfl, lookup_delT_self _ _⟩
  | init =>
    have h1 : step? s (.wCheck w) = some { s with writers := setT s.writers w .select } := by
      simp only [step?, stepG, Label.owner, stepWriter, hw]
    have h2 := hsel { s with writers := setT s.writers w .select } hc
      (by simp only [lookup_setT_self, hw]; rfl)
    refine ⟨[.wCheck w, .wCancel w], _, by simp, by simp [Label.owner, healthy],
      run_cons h1 (run_cons h2 (run_nil _)), ?_, ?_⟩
    · simp only [delT_setT]
    · simp only [delT_setT, lookup_delT_self]
  | «have» r =>
    have h1 : step? s (.wSend w true) =
        some { s with c2s := s.c2s ++ [.signal r], writers := setT s.writers w .select } := by
      simp only [step?, stepG, Label.owner, stepWriter, hw, if_true]
    have h2 := hsel { s with c2s := s.c2s ++ [.signal r], writers := setT s.writers w .select } hc
      (by simp only [lookup_setT_self, hw]; rfl)
    refine ⟨[.wSend w true, .wCancel w], _, by simp, by simp [Label.owner, healthy],
      run_cons h1 (run_cons h2 (run_nil _)), ?_, ?_⟩
    · simp only [delT_setT]
    · simp only [delT_setT, lookup_delT_self]

/- non-vacuity: a concrete instance of the hypotheses of `C06_writer_leaves` -/
example : (stateAt (trClose.take 20)).cancelled = true ∧
    (stateAt (trClose.take 20)).writers.lookup 20 = some .select := by decide

/-- single-step form: a writer step is enabled and does not add goroutines -/
theorem C06_writer_enabled {s : State} {w : Tid} {pc : WPc} (hc : s.cancelled = true)
    (hw : s.writers.lookup w = some pc) :
    ∃ l s', l.owner = .writer ∧ Step s l s' ∧ s'.writers.length ≤ s.writers.length ∧
      s'.loops = s.loops := by
  obtain ⟨ls, s', _, hown, hrun, _, hnone⟩ := C06_writer_leaves hc hw
  cases ls with
  | nil =>
    simp only [run, runG] at hrun; cases hrun
    rw [hw] at hnone; cases hnone
  | cons l ls =>
    simp only [run, runG] at hrun
    cases hst : stepG false s l with
    | none => simp [hst] at hrun
    | some s1 =>
      have ho := (hown l (by simp)).1
      refine ⟨l, s1, ho, hst, ?_, ?_⟩
      · have h' : stepWriter s l = some s1 := by
          simp only [stepG, ho] at hst; exact hst
        cases l <;> simp only [stepWriter] at h' <;> step_split h' <;>
          simp [length_delT_le]
      · have h' : stepWriter s l = some s1 := by
          simp only [stepG, ho] at hst; exact hst
        exact (frame_stepWriter h').2.2.2.2.2.2.1

/-! ### (3) no Execute is left waiting: side invariants -/

/-- positions of an Execute that owns an entry of the result table -/
def CPc.owns : CPc → Bool
  | .registered | .sendFailed | .sent | .waiting => true
  | _ => false

/-- ownership of entries, and: an ended server stream carries a sticky item -/
structure InvO (s : State) : Prop where
  own : ∀ c k, s.callers.lookup c = some k → k.pc.owns = true → k.run ∈ keys s.entries
  inj : ∀ c c' k k', s.callers.lookup c = some k → s.callers.lookup c' = some k' →
    k.pc.owns = true → k'.pc.owns = true → k.run = k'.run → c = c'
  ended : s.srv.ended = true → ∃ it, it ∈ s.s2c ∧ it.sticky = true

theorem sticky_pop {it : Item} {rest : List Item} (h : ∃ x, x ∈ it :: rest ∧ x.sticky = true) :
    ∃ x, x ∈ (if it.sticky = true then it :: rest else rest) ∧ x.sticky = true := by
  by_cases hs : it.sticky = true
  · simp only [hs, if_true]; exact h
  · simp only [hs]
    obtain ⟨x, hx, hxs⟩ := h
    rcases List.mem_cons.1 hx with rfl | hx
    · exact absurd hxs hs
    · exact ⟨x, hx, hxs⟩

theorem ended_pop {s : State} {b : Bool} {it : Item} {rest : List Item}
    (h3 : b = true → ∃ x, x ∈ s.s2c ∧ x.sticky = true) (hs : s.s2c = it :: rest) :
    b = true → ∃ x, x ∈ (if it.sticky = true then s.s2c else rest) ∧ x.sticky = true := by
  intro he
  have := h3 he
  rw [hs] at this ⊢
  exact sticky_pop this

theorem invO_stepLoop {s s' : State} {l : Label} (hi : InvO s) (h : stepLoop false s l = some s') :
    InvO s' := by
  obtain ⟨h1, h2, h3⟩ := hi
  cases l <;> simp only [stepLoop, Bool.false_eq_true, if_false] at h <;> step_split h
  all_goals
    constructor <;> simp only [keys_failAll, keys_setRes] <;> (try assumption)
  -- lRead: the stream loses its head unless that is sticky
  rename_i hs
  intro he
  have := h3 he
  rw [hs] at this ⊢
  exact sticky_pop this

theorem invO_stepCaller {s s' : State} {l : Label} (hi : InvO s) (h : stepCaller s l = some s') :
    InvO s' := by
  obtain ⟨h1, h2, h3⟩ := hi
  cases l <;> simp only [stepCaller] at h <;> step_split h
  all_goals
    constructor <;> simp only [lookup_setT, lookup_append_single, keys_append, keys_cons, keys_nil, mem_keys_delT] <;> (try assumption)
  all_goals try simp only [Option.or_eq_some_iff]
  all_goals try grind [CPc.owns]
  all_goals
    intro c c' k k' hk hk' ho ho' hrun
    split at hk <;> split at hk' <;> (try simp only [map_const_eq_some] at hk hk') <;>
      grind [hasKey_eq_true]

theorem invO_stepRs {s s' : State} {l : Label} (hi : InvO s) (h : stepRs s l = some s') : InvO s' := by
  obtain ⟨h1, h2, h3⟩ := hi
  cases l <;> simp only [stepRs] at h <;> step_split h
  all_goals
    constructor <;> (try assumption)
  all_goals
    exact ended_pop h3 (by assumption)

theorem invO_stepEnv {s s' : State} {l : Label} (hi : InvO s) (h : stepEnv s l = some s') : InvO s' := by
  obtain ⟨h1, h2, h3⟩ := hi
  cases l <;> simp only [stepEnv] at h <;> step_split h
  all_goals
    constructor <;> (try assumption)
  all_goals grind [Item.sticky]

theorem InvO.congr {s s' : State} (hi : InvO s) (he : s'.entries = s.entries)
    (hc : s'.callers = s.callers) (hs : s'.s2c = s.s2c) (hv : s'.srv = s.srv) : InvO s' := by
  obtain ⟨h1, h2, h3⟩ := hi
  constructor
  · rw [he, hc]; exact h1
  · rw [hc]; exact h2
  · rw [hs, hv]; exact h3

theorem invO_step {s s' : State} {l : Label} (hi : InvO s) (h : Step s l s') : InvO s' := by
  refine h.cases ?_ ?_ ?_ ?_ ?_ ?_ <;> intro _ h'
  · exact invO_stepRs hi h'
  · exact invO_stepCaller hi h'
  · exact invO_stepLoop hi h'
  · have f := frame_stepWriter h'
    exact hi.congr f.2.1 f.2.2.2.2.2.2.2.1 f.2.2.2.2.2.2.2.2.2.2.1 f.2.2.2.2.2.2.2.2.2.2.2.1
  · have f := frame_stepCloser h'
    exact hi.congr f.2.1 f.2.2.2.2.2.1 f.2.2.2.2.2.2.2.2.1 f.2.2.2.2.2.2.2.2.2.1
  · exact invO_stepEnv hi h'

theorem invO_of_reachable {s : State} (h : Reachable s) : InvO s := by
  induction h with
  | init => constructor <;> simp [init]
  | step _ hs ih => exact invO_step ih hs

/-- facts that need the healthy connection: ReadSchema has finished before any Execute exists (so
    only read loops and v1 callers consume the stream), and the protocol version fits the path an
    Execute took -/
structure InvG (s : State) : Prop where
  rsFin : s.callers ≠ [] → s.rs = .finished
  v1 : ∀ c k, s.callers.lookup c = some k → k.pc = .sentV1 → s.ver ≤ 1
  v3 : ∀ c k, s.callers.lookup c = some k → k.pc.owns = true → s.ver > 1

theorem invG_stepCaller {s s' : State} {l : Label} (hi : InvG s) (h : stepCaller s l = some s')
    (hh : healthy s l = true) : InvG s' := by
  obtain ⟨h1, h2, h3⟩ := hi
  cases l <;> simp only [stepCaller] at h <;> step_split h
  all_goals
    constructor <;> simp only [lookup_setT, lookup_append_single, ne_eq, setT_eq_nil] <;> (try assumption)
  all_goals try simp only [Option.or_eq_some_iff]
  all_goals grind [CPc.owns, healthy]

theorem invG_stepRs {s s' : State} {l : Label} (hi : InvG s) (h : stepRs s l = some s') : InvG s' := by
  obtain ⟨h1, h2, h3⟩ := hi
  cases l <;> simp only [stepRs] at h <;> step_split h
  all_goals
    have hc : s.callers = [] := by
      cases hcs : s.callers with
      | nil => rfl
      | cons p ps => have := h1 (by simp [hcs]); simp_all
    constructor <;> simp [hc]

theorem InvG.congr {s s' : State} (hi : InvG s) (hv : s'.ver = s.ver)
    (hc : s'.callers = s.callers) (hr : s'.rs = s.rs) : InvG s' := by
  obtain ⟨h1, h2, h3⟩ := hi
  constructor
  · rw [hc, hr]; exact h1
  · rw [hc, hv]; exact h2
  · rw [hc, hv]; exact h3

theorem invG_step {s s' : State} {l : Label} (hi : InvG s) (h : Step s l s') (hh : healthy s l = true) :
    InvG s' := by
  refine h.cases ?_ ?_ ?_ ?_ ?_ ?_ <;> intro _ h'
  · exact invG_stepRs hi h'
  · exact invG_stepCaller hi h' hh
  · have f := frame_stepLoop h'
    exact hi.congr f.1 f.2.2.2.1 f.2.2.2.2.2.2.1
  · have f := frame_stepWriter h'
    exact hi.congr f.1 f.2.2.2.2.2.2.2.1 f.2.2.2.2.2.2.2.2.2.1
  · have f := frame_stepCloser h'
    exact hi.congr f.1 f.2.2.2.2.2.1 f.2.2.2.2.2.2.2.1
  · have f := frame_stepEnv h'
    exact hi.congr f.1 f.2.2.2.2.2.2.2.1 f.2.2.2.2.2.2.2.2.2.2.1

theorem invG_of_reachableH {s : State} (h : ReachableH s) : InvG s := by
  induction h with
  | init => constructor <;> simp [init]
  | step _ hs hh ih => exact invG_step ih hs hh

/-- `m` ends run `r` on the client: its work-done, a step-fatal error for it, or a server-fatal error -/
def Msg.terminalFor (r : Run) : Msg → Bool
  | .workDone r' _ => r' == r
  | .error r' sf vf => vf || (sf && r' == r && r' != 0)
  | _ => false

/-- something is under way that will end run `r`, or make the server end its output -/
def InFlight (s : State) (r : Run) : Prop :=
  .workStart r ∈ s.c2s ∨ r ∈ s.srv.owed ∨ (∃ m, .msg m ∈ s.s2c ∧ m.terminalFor r = true) ∨
  (∃ t m, s.loops.lookup t = some (.handle (some m)) ∧ m.terminalFor r = true) ∨
  .clientDone ∈ s.c2s ∨ s.srv.gotDone = true ∨ (∃ it, it ∈ s.s2c ∧ it.sticky = true)

/-- an Execute for run `r` has written its work-start and waits (or is about to wait) -/
def Waits (s : State) (r : Run) : Prop :=
  ∃ c k, s.callers.lookup c = some k ∧ k.run = r ∧ (k.pc = .sent ∨ k.pc = .waiting)

def InvFl (s : State) : Prop :=
  ∀ r, Waits s r → s.entries.lookup r = some .pending → InFlight s r

theorem invFl_stepWriter {s s' : State} {l : Label} (hi : InvFl s) (h : stepWriter s l = some s') :
    InvFl s' := by
  cases l <;> simp only [stepWriter] at h <;> step_split h
  all_goals
    intro r hw hp
    have := hi r hw hp
    unfold InFlight at this ⊢
    simp only [List.mem_append]
    grind

theorem invFl_stepCloser {s s' : State} {l : Label} (hi : InvFl s) (h : stepCloser s l = some s') :
    InvFl s' := by
  cases l <;> simp only [stepCloser] at h <;> step_split h
  all_goals
    intro r hw hp
    have := hi r hw hp
    unfold InFlight at this ⊢
    simp only [List.mem_append]
    grind

theorem invFl_stepRs {s s' : State} {l : Label} (hi : InvFl s) (hg : InvG s) (h : stepRs s l = some s') :
    InvFl s' := by
  cases l <;> simp only [stepRs] at h <;> step_split h
  all_goals
    intro r hw hp
    first
    | (have := hi r hw hp
       unfold InFlight at this ⊢
       simp only [List.mem_append]
       grind)
    | (obtain ⟨c, k, hk, _⟩ := hw
       have hne : s.callers ≠ [] := by intro e; simp [e] at hk
       have := hg.rsFin hne
       simp_all)

theorem invFl_stepEnv {s s' : State} {l : Label} (hi : InvFl s) (h : stepEnv s l = some s') :
    InvFl s' := by
  cases l <;> simp only [stepEnv] at h <;> step_split h
  all_goals
    intro r hw hp
    have := hi r hw hp
    unfold InFlight at this ⊢
    simp only [List.mem_append] at this ⊢
    grind [Msg.terminalFor, Item.sticky, srvMay]

theorem invFl_stepLoop {s s' : State} {l : Label} (hi : InvFl s) (h : stepLoop false s l = some s') :
    InvFl s' := by
  cases l <;> simp only [stepLoop, Bool.false_eq_true, if_false] at h <;> step_split h
  all_goals
    intro r hw hp
    have hw0 : Waits s r := hw
    simp only [lookup_failAll, setRes, lookup_setT, map_const_eq_some] at hp
    have hi' := hi r hw0
    unfold InFlight at hi' ⊢
    simp only [lookup_setT, lookup_delT]
    try grind [Msg.terminalFor, anyPending_of_lookup]
  case h_2 =>
    rename_i t _ _ r' x' heq
    split at hp
    · simp at hp
    · rename_i hr
      rcases hi' hp with h | h | h | ⟨t', m', hl', hm'⟩ | h
      · exact Or.inl h
      · exact Or.inr (Or.inl h)
      · exact Or.inr (Or.inr (Or.inl h))
      · by_cases ht : t' = t
        · subst ht; rw [heq] at hl'; cases hl'
          simp [Msg.terminalFor] at hm'; grind
        · exact Or.inr (Or.inr (Or.inr (Or.inl ⟨t', m', by simp only [ht, if_false]; exact hl', hm'⟩)))
      · exact Or.inr (Or.inr (Or.inr (Or.inr h)))
  case h_4.isFalse.isTrue.isFalse =>
    rename_i t _ _ r' sf vf heq _ _ _
    split at hp
    · simp at hp
    · rename_i hr
      rcases hi' hp with h | h | h | ⟨t', m', hl', hm'⟩ | h
      · exact Or.inl h
      · exact Or.inr (Or.inl h)
      · exact Or.inr (Or.inr (Or.inl h))
      · by_cases ht : t' = t
        · subst ht; rw [heq] at hl'; cases hl'
          simp [Msg.terminalFor] at hm'; grind
        · exact Or.inr (Or.inr (Or.inr (Or.inl ⟨t', m', by simp only [ht, if_false]; exact hl', hm'⟩)))
      · exact Or.inr (Or.inr (Or.inr (Or.inr h)))

theorem invFl_stepCaller {s s' : State} {l : Label} (hi : InvFl s) (ho : InvO s) (hg : InvG s)
    (h : stepCaller s l = some s') : InvFl s' := by
  have hown := ho.own
  have hinj := ho.inj
  have hv1 := hg.v1
  have hv3 := hg.v3
  cases l <;> simp only [stepCaller] at h <;> step_split h
  all_goals
    intro r hw hp
    obtain ⟨c', k', hk', hrun, hpc⟩ := hw
    simp only [lookup_setT, lookup_append_single, Option.or_eq_some_iff] at hk'
    try simp only [lookup_delT, lookup_append_single, Option.or_eq_some_iff] at hp
    have hiW : ∀ c k, s.callers.lookup c = some k → k.run = r → (k.pc = .sent ∨ k.pc = .waiting) →
        s.entries.lookup r = some .pending → InFlight s r :=
      fun c k h1 h2 h3 h4 => hi r ⟨c, k, h1, h2, h3⟩ h4
    unfold InFlight at hiW ⊢
    try simp only [List.mem_append, lookup_append_single, Option.or_eq_some_iff]
    grind [CPc.owns, hasKey_eq_true]

theorem invFl_step {s s' : State} {l : Label} (hi : InvFl s) (ho : InvO s) (hg : InvG s)
    (h : Step s l s') : InvFl s' := by
  refine h.cases ?_ ?_ ?_ ?_ ?_ ?_ <;> intro _ h'
  · exact invFl_stepRs hi hg h'
  · exact invFl_stepCaller hi ho hg h'
  · exact invFl_stepLoop hi h'
  · exact invFl_stepWriter hi h'
  · exact invFl_stepCloser hi h'
  · exact invFl_stepEnv hi h'

theorem invFl_of_reachableH {s : State} (h : ReachableH s) : InvFl s := by
  induction h with
  | init => intro r hw; obtain ⟨c, k, hk, _⟩ := hw; simp [init] at hk
  | step hr hs hh ih =>
    exact invFl_step ih (invO_of_reachable hr.reachable) (invG_of_reachableH hr) hs

theorem enabled_of_isSome {s : State} {l : Label} (h : (step? s l).isSome = true) :
    ∃ s', Step s l s' := by
  cases h' : step? s l with
  | none => rw [h'] at h; cases h
  | some s' => exact ⟨s', h'⟩

theorem lDeliver_enabled {s : State} {t : Tid} {om : Option Msg}
    (hl : s.loops.lookup t = some (.handle om)) : ∃ s', Step s (.lDeliver t) s' := by
  apply enabled_of_isSome
  simp only [step?, stepG, Label.owner, stepLoop, hl, Bool.false_eq_true, if_false]
  repeat' split
  all_goals rfl

/- Scope of `C06_no_stuck` (and of `C06_measure_decreases` as a termination argument): the obliged
   step may be `sRecv`, which the model enables whenever `c2s` is non-empty - ASSUMPTION E of
   Model/AtpClient.lean (a write to the server completes without waiting for the peer).  client.go
   writes while holding the client mutex; against a peer that stops reading while its own output is
   not consumed (the library's server over unbuffered pipes) E fails and the real client deadlocks
   although this theorem holds of the model: harness sessions `backpressure-*`. -/
/-- C06 (3): on a healthy connection an Execute that has sent its work-start and whose entry is
    still pending is never left alone: some step that the system itself owes (the read loop's next
    step, the server reading its input, the server's answer to an accepted work-start, or the
    server ending its output after client-done) is enabled.  No lost wake-up, no silent wait. -/
theorem C06_no_stuck {s : State} (hr : ReachableH s)
    (hw : ∃ c k, s.callers.lookup c = some k ∧ (k.pc = .sent ∨ k.pc = .waiting) ∧
      s.entries.lookup k.run = some .pending) :
    ∃ l s', Step s l s' ∧ healthy s l = true ∧ l.obliged = true := by
  obtain ⟨c, k, hk, hpc, hp⟩ := hw
  have hR := hr.reachable
  have hap := anyPending_of_lookup hp
  obtain ⟨t, pc, hL⟩ := C06_pending_has_loop hR hap
  have hl : s.loops.lookup t = some pc := by rw [hL, lookup_cons']; simp
  cases pc with
  | exiting => exact absurd hl (C06_no_exiting hR t)
  | handle om =>
    obtain ⟨s', hs'⟩ := lDeliver_enabled hl
    exact ⟨.lDeliver t, s', hs', rfl, rfl⟩
  | check =>
    obtain ⟨s', hs'⟩ : ∃ s', Step s (.lCheck t) s' := by
      apply enabled_of_isSome
      simp only [step?, stepG, Label.owner, stepLoop, hl, hap, if_true]
      rfl
    exact ⟨_, s', hs', rfl, rfl⟩
  | decode =>
    cases hs : s.s2c with
    | cons it rest =>
      obtain ⟨s', hs'⟩ : ∃ s', Step s (.lRead t) s' := by
        apply enabled_of_isSome
        simp only [step?, stepG, Label.owner, stepLoop, hl, hs]
        rfl
      exact ⟨_, s', hs', rfl, rfl⟩
    | nil =>
      cases hc : s.c2s with
      | cons m rest =>
        obtain ⟨s', hs'⟩ : ∃ s', Step s .sRecv s' := by
          apply enabled_of_isSome
          simp only [step?, stepG, Label.owner, stepEnv, hc]
          rfl
        exact ⟨_, s', hs', rfl, rfl⟩
      | nil =>
        have hend : s.srv.ended = false := by
          cases he : s.srv.ended with
          | false => rfl
          | true =>
            obtain ⟨it, hit, _⟩ := (invO_of_reachable hR).ended he
            rw [hs] at hit; cases hit
        have hfl := invFl_of_reachableH hr k.run ⟨c, k, hk, rfl, hpc⟩ hp
        have hsend : ∀ r, r ∈ s.srv.owed →
            ∃ s', Step s (.sSend (.workDone r (some 0))) s' := by
          intro r hr
          apply enabled_of_isSome
          simp only [step?, stepG, Label.owner, stepEnv, srvMay, hend, Option.isSome_some,
            Bool.true_and, List.contains_iff_mem, hr, and_self, if_true]
        unfold InFlight at hfl
        rw [hs, hc, hL] at hfl
        rcases hfl with h | h | ⟨m, h, _⟩ | ⟨t', m, h, _⟩ | h | h | ⟨it, h, _⟩
        · cases h
        · obtain ⟨s', hs'⟩ := hsend _ h
          exact ⟨_, s', hs', rfl, rfl⟩
        · cases h
        · rw [lookup_cons'] at h; split at h <;> cases h
        · cases h
        · cases ho : s.srv.owed with
          | nil =>
            obtain ⟨s', hs'⟩ : ∃ s', Step s .sEnd s' := by
              apply enabled_of_isSome
              simp only [step?, stepG, Label.owner, stepEnv, hend, h, ho, and_self, if_true]
              rfl
            exact ⟨_, s', hs', rfl, rfl⟩
          | cons r' rest =>
            obtain ⟨s', hs'⟩ := hsend r' (by rw [ho]; simp)
            exact ⟨_, s', hs', rfl, rfl⟩
        · cases h

/- non-vacuity: a concrete instance of the hypotheses of `C06_no_stuck` -/
example : (runH init trWaiting).isSome = true := by decide
example : ReachableH (stateAtH trWaiting) ∧
    ∃ c k, (stateAtH trWaiting).callers.lookup c = some k ∧ (k.pc = .sent ∨ k.pc = .waiting) ∧
      (stateAtH trWaiting).entries.lookup k.run = some .pending :=
  ⟨reachableH_stateAtH _, 1, ⟨1, false, false, .waiting⟩, by decide, Or.inr rfl, by decide⟩

/-! ### (6, continued) nothing is started once `Close` has marked the client done -/

/-- C06 (6): after `Close` has marked the client done no goroutine is ever started: no step adds a
    read loop or a signal writer. -/
theorem C06_no_spawn_after_done {s s' : State} {l : Label} (h : Step s l s') (hd : s.done = true) :
    s'.loops.length ≤ s.loops.length ∧ s'.writers.length ≤ s.writers.length := by
  refine h.cases ?_ ?_ ?_ ?_ ?_ ?_ <;> intro _ h'
  · have f := frame_stepRs h'; rw [f.2.2.2.2.2.1, f.2.2.2.2.2.2.2.1]; exact ⟨Nat.le_refl _, Nat.le_refl _⟩
  · cases l <;> simp only [stepCaller] at h' <;> step_split h' <;>
      first
      | exact ⟨Nat.le_refl _, Nat.le_refl _⟩
      | (exfalso; simp_all)
  · have f := frame_stepLoop h'; rw [f.2.2.2.2.1]
    refine ⟨?_, Nat.le_refl _⟩
    cases l <;> simp only [stepLoop, Bool.false_eq_true, if_false] at h' <;> step_split h' <;>
      simp [length_delT_le]
  · have f := frame_stepWriter h'; rw [f.2.2.2.2.2.2.1]
    refine ⟨Nat.le_refl _, ?_⟩
    cases l <;> simp only [stepWriter] at h' <;> step_split h' <;> simp [length_delT_le]
  · have f := frame_stepCloser h'; rw [f.2.2.2.2.1, f.2.2.2.2.2.2.1]; exact ⟨Nat.le_refl _, Nat.le_refl _⟩
  · have f := frame_stepEnv h'; rw [f.2.2.2.2.2.2.1, f.2.2.2.2.2.2.2.2.1]; exact ⟨Nat.le_refl _, Nat.le_refl _⟩

/- non-vacuity: a concrete instance of the hypotheses of `C06_no_spawn_after_done` -/
example : Step (stateAt (trClose.take 21)) (.wCancel 20) (stateAt (trClose.take 22)) ∧
    (stateAt (trClose.take 21)).done = true := by decide

/-- `Close` has got past marking the client closed -/
def ClPc.begun : ClPc → Bool
  | .idle | .called | .cancelled => false
  | _ => true

structure InvC (s : State) : Prop where
  doneIff : s.done = s.closer.begun
  fin : s.closer = .returned true → s.loops = [] ∧ s.writers = []

theorem invC_stepCloser {s s' : State} {l : Label} (hi : InvC s) (h : stepCloser s l = some s') :
    InvC s' := by
  obtain ⟨h1, h2⟩ := hi
  cases l <;> simp only [stepCloser] at h <;> step_split h
  all_goals
    constructor <;> simp_all [ClPc.begun, wgZero]
  rename_i h
  rcases h with h | ⟨h, _⟩ <;> simp [h]

theorem invC_step {s s' : State} {l : Label} (hi : InvC s) (h : Step s l s') : InvC s' := by
  have key : s'.closer = s.closer → s'.done = s.done → InvC s' := by
    intro hc hdn
    constructor
    · rw [hc, hdn]; exact hi.doneIff
    · intro hr
      rw [hc] at hr
      have hd : s.done = true := by rw [hi.doneIff, hr]; rfl
      obtain ⟨hl, hw⟩ := hi.fin hr
      obtain ⟨h1, h2⟩ := C06_no_spawn_after_done h hd
      rw [hl] at h1; rw [hw] at h2
      exact ⟨List.eq_nil_of_length_eq_zero (Nat.le_zero.1 h1),
        List.eq_nil_of_length_eq_zero (Nat.le_zero.1 h2)⟩
  refine h.cases ?_ ?_ ?_ ?_ ?_ ?_ <;> intro _ h'
  · have f := frame_stepRs h'; exact key f.2.2.2.2.2.2.2.2.1 f.2.2.2.1
  · have f := frame_stepCaller h'; exact key f.2.2.2.1 f.2.1
  · have f := frame_stepLoop h'; exact key f.2.2.2.2.2.1 f.2.1
  · have f := frame_stepWriter h'; exact key f.2.2.2.2.2.2.2.2.1 f.2.2.2.2.1
  · exact invC_stepCloser hi h'
  · have f := frame_stepEnv h'; exact key f.2.2.2.2.2.2.2.2.2.1 f.2.2.2.2.1

theorem invC_of_reachable {s : State} (h : Reachable s) : InvC s := by
  induction h with
  | init => constructor <;> simp [init, ClPc.begun]
  | step _ hs ih => exact invC_step ih hs

/-- C06 (6): once `Close` has returned normally, no goroutine of the client exists, now or later
    (for every protocol version; the hypothesis `s.ver > 1` of the claim is not needed). -/
theorem C06_close_final {s : State} (h : Reachable s) (hc : s.closer = .returned true) :
    s.loops = [] ∧ s.writers = [] := (invC_of_reachable h).fin hc

/- non-vacuity: a concrete instance of the hypotheses of `C06_close_final` -/
example : Reachable (stateAt trClose) ∧ (stateAt trClose).closer = .returned true :=
  ⟨reachable_stateAt _, by decide⟩

/-- `done` is set exactly while `Close` is past its marking step -/
theorem C06_done_iff {s : State} (h : Reachable s) : s.done = s.closer.begun :=
  (invC_of_reachable h).doneIff

/-! ### (5) progress: a measure that every non-input step decreases -/

def CPc.w : CPc → Nat
  | .start true => 34
  | .start false => 30
  | .registered => 20
  | .sendFailed => 8
  | .sent => 6
  | .waiting => 5
  | .sentV1 => 5
  | .returned _ => 2
  | .finished => 0

def Caller.w (k : Caller) : Nat := k.pc.w

def LPc.w : LPc → Nat
  | .handle none => 1
  | .decode => 2
  | .check => 3
  | .handle (some _) => 4
  | .exiting => 0

def WPc.w : WPc → Nat
  | .init => 3
  | .select => 2
  | .have _ => 10

def ClPc.w : ClPc → Nat
  | .idle => 0
  | .called => 20
  | .cancelled => 19
  | .marked => 18
  | .sentDone => 11
  | .failed => 11
  | .returned _ => 0

def RsPc.w : RsPc → Nat
  | .idle => 0
  | .called => 20
  | .sentNil => 12
  | .returned _ => 2
  | .finished => 0

def sumW {β : Type} (f : β → Nat) : List (Nat × β) → Nat
  | [] => 0
  | p :: ps => f p.2 + sumW f ps

def mu (s : State) : Nat :=
  sumW Caller.w s.callers + sumW LPc.w s.loops + sumW WPc.w s.writers + s.closer.w + s.rs.w +
  4 * s.s2c.length + 6 * s.c2s.length + 5 * s.srv.owed.length + (if s.srv.ended = true then 0 else 5)

section sums
variable {β : Type} (f : β → Nat)

@[simp] theorem sumW_nil : sumW f ([] : List (Nat × β)) = 0 := rfl
@[simp] theorem sumW_cons (p : Nat × β) (ps : List (Nat × β)) : sumW f (p :: ps) = f p.2 + sumW f ps := rfl

theorem sumW_append (l₁ l₂ : List (Nat × β)) : sumW f (l₁ ++ l₂) = sumW f l₁ + sumW f l₂ := by
  induction l₁ with
  | nil => simp
  | cons p ps ih => simp [ih, Nat.add_assoc]

@[simp] theorem sumW_append_single (l : List (Nat × β)) (k : Nat) (v : β) :
    sumW f (l ++ [(k, v)]) = sumW f l + f v := by
  simp [sumW_append]

theorem sumW_setT_of_not_mem {l : List (Nat × β)} {k : Nat} (v : β) (h : k ∉ keys l) :
    setT l k v = l := by
  induction l with
  | nil => rfl
  | cons p ps ih =>
    obtain ⟨a, b⟩ := p
    simp only [keys_cons, List.mem_cons, not_or] at h
    rw [setT_cons, ih h.2]
    have : ¬ a = k := fun e => h.1 e.symm
    simp [this]

theorem delT_of_not_mem {l : List (Nat × β)} {k : Nat} (h : k ∉ keys l) : delT l k = l := by
  induction l with
  | nil => rfl
  | cons p ps ih =>
    obtain ⟨a, b⟩ := p
    simp only [keys_cons, List.mem_cons, not_or] at h
    rw [delT_cons, ih h.2]
    have : ¬ a = k := fun e => h.1 e.symm
    simp [this]

theorem sumW_setT_add {l : List (Nat × β)} {k : Nat} {old : β} (v : β) (hnd : (keys l).Nodup)
    (hk : l.lookup k = some old) : sumW f (setT l k v) + f old = sumW f l + f v := by
  induction l with
  | nil => simp at hk
  | cons p ps ih =>
    obtain ⟨a, b⟩ := p
    simp only [keys_cons, List.nodup_cons] at hnd
    rw [lookup_cons'] at hk
    rw [setT_cons]
    by_cases h : k = a
    · subst h
      simp only [if_true] at hk ⊢
      cases hk
      rw [sumW_setT_of_not_mem v hnd.1]
      simp only [sumW_cons]; omega
    · have h' : ¬ a = k := fun e => h e.symm
      simp only [h, if_false] at hk
      simp only [h', if_false, sumW_cons]
      have := ih hnd.2 hk
      omega

theorem sumW_delT_add {l : List (Nat × β)} {k : Nat} {old : β} (hnd : (keys l).Nodup)
    (hk : l.lookup k = some old) : sumW f (delT l k) + f old = sumW f l := by
  induction l with
  | nil => simp at hk
  | cons p ps ih =>
    obtain ⟨a, b⟩ := p
    simp only [keys_cons, List.nodup_cons] at hnd
    rw [lookup_cons'] at hk
    rw [delT_cons]
    by_cases h : k = a
    · subst h
      simp only [if_true] at hk ⊢
      cases hk
      rw [delT_of_not_mem hnd.1]
      simp only [sumW_cons]; omega
    · have h' : ¬ a = k := fun e => h e.symm
      simp only [h, if_false] at hk
      simp only [h', if_false, sumW_cons]
      have := ih hnd.2 hk
      omega

theorem le_sumW {l : List (Nat × β)} {k : Nat} {old : β} (hk : l.lookup k = some old) :
    f old ≤ sumW f l := by
  induction l with
  | nil => simp at hk
  | cons p ps ih =>
    obtain ⟨a, b⟩ := p
    rw [lookup_cons'] at hk
    by_cases h : k = a
    · simp only [h, if_true] at hk; cases hk; simp
    · simp only [h, if_false] at hk
      have := ih hk
      simp only [sumW_cons]; omega

theorem sumW_setT_eq {l : List (Nat × β)} {k : Nat} {old : β} (hnd : (keys l).Nodup)
    (hk : l.lookup k = some old) (v : β) : sumW f (setT l k v) = sumW f l - f old + f v := by
  have := sumW_setT_add f v hnd hk
  have := le_sumW f hk
  omega

theorem sumW_delT_eq {l : List (Nat × β)} {k : Nat} {old : β} (hnd : (keys l).Nodup)
    (hk : l.lookup k = some old) : sumW f (delT l k) = sumW f l - f old := by
  have := sumW_delT_add f hnd hk
  omega

end sums

set_option linter.unusedSimpArgs false

theorem mu_stepWriter {s s' : State} {l : Label} (hi : InvA s) (h : stepWriter s l = some s')
    (hin : l.isInput = false) : mu s' < mu s := by
  have hnd := hi.ndW
  cases l <;> simp only [stepWriter] at h <;> (try contradiction)
  case wCheck w =>
    cases hk : s.writers.lookup w with
    | none => simp [hk] at h
    | some pc =>
      have hle := le_sumW WPc.w hk
      cases pc <;> simp only [hk] at h <;> step_split h <;>
        simp only [mu, sumW_setT_eq WPc.w hnd hk, sumW_delT_eq WPc.w hnd hk, WPc.w, List.length_append,
          List.length_singleton] at hle ⊢ <;> omega
  case wClosed w =>
    cases hk : s.writers.lookup w with
    | none => simp [hk] at h
    | some pc =>
      have hle := le_sumW WPc.w hk
      cases pc <;> simp only [hk] at h <;> step_split h <;>
        simp only [mu, sumW_setT_eq WPc.w hnd hk, sumW_delT_eq WPc.w hnd hk, WPc.w, List.length_append,
          List.length_singleton] at hle ⊢ <;> omega
  case wCancel w =>
    cases hk : s.writers.lookup w with
    | none => simp [hk] at h
    | some pc =>
      have hle := le_sumW WPc.w hk
      cases pc <;> simp only [hk] at h <;> step_split h <;>
        simp only [mu, sumW_setT_eq WPc.w hnd hk, sumW_delT_eq WPc.w hnd hk, WPc.w, List.length_append,
          List.length_singleton] at hle ⊢ <;> omega
  case wSend w ok =>
    cases hk : s.writers.lookup w with
    | none => simp [hk] at h
    | some pc =>
      have hle := le_sumW WPc.w hk
      cases pc <;> simp only [hk] at h <;> step_split h <;>
        simp only [mu, sumW_setT_eq WPc.w hnd hk, sumW_delT_eq WPc.w hnd hk, WPc.w, List.length_append,
          List.length_singleton] at hle ⊢ <;> omega

theorem mu_stepCaller {s s' : State} {l : Label} (hi : InvA s) (h : stepCaller s l = some s')
    (hin : l.isInput = false) : mu s' < mu s := by
  have hnd := hi.ndC
  cases l <;> simp only [stepCaller] at h <;> (try contradiction)
  case cReject c =>
    cases hk : s.callers.lookup c with
    | none => simp [hk] at h
    | some k =>
      have hle := le_sumW Caller.w hk
      obtain ⟨run, wt, wf, pc⟩ := k
      rcases pc with (_ | _) | _ | _ | _ | _ | _ | _ | _ <;>
        simp only [hk, reduceCtorEq, ↓reduceIte, false_and, and_false, true_and, and_true, or_false,
          false_or, or_true, true_or, CPc.start.injEq, Bool.true_eq_false, Bool.false_eq_true] at h <;>
        step_split h <;>
        simp only [mu, sumW_setT_eq Caller.w hnd hk, Caller.w, CPc.w, sumW_append_single, LPc.w, WPc.w,
          List.length_append, List.length_singleton] at hle ⊢ <;> omega
  case cSpawnW c w =>
    cases hk : s.callers.lookup c with
    | none => simp [hk] at h
    | some k =>
      have hle := le_sumW Caller.w hk
      obtain ⟨run, wt, wf, pc⟩ := k
      rcases pc with (_ | _) | _ | _ | _ | _ | _ | _ | _ <;>
        simp only [hk, reduceCtorEq, ↓reduceIte, false_and, and_false, true_and, and_true, or_false,
          false_or, or_true, true_or, CPc.start.injEq, Bool.true_eq_false, Bool.false_eq_true] at h <;>
        step_split h <;>
        simp only [mu, sumW_setT_eq Caller.w hnd hk, Caller.w, CPc.w, sumW_append_single, LPc.w, WPc.w,
          List.length_append, List.length_singleton] at hle ⊢ <;> omega
  case cRegister c lo =>
    cases hk : s.callers.lookup c with
    | none => simp [hk] at h
    | some k =>
      have hle := le_sumW Caller.w hk
      obtain ⟨run, wt, wf, pc⟩ := k
      rcases pc with (_ | _) | _ | _ | _ | _ | _ | _ | _ <;>
        simp only [hk, reduceCtorEq, ↓reduceIte, false_and, and_false, true_and, and_true, or_false,
          false_or, or_true, true_or, CPc.start.injEq, Bool.true_eq_false, Bool.false_eq_true] at h <;>
        step_split h <;>
        simp only [mu, sumW_setT_eq Caller.w hnd hk, Caller.w, CPc.w, sumW_append_single, LPc.w, WPc.w,
          List.length_append, List.length_singleton] at hle ⊢ <;> omega
  case cSend c ok =>
    cases hk : s.callers.lookup c with
    | none => simp [hk] at h
    | some k =>
      have hle := le_sumW Caller.w hk
      obtain ⟨run, wt, wf, pc⟩ := k
      rcases pc with (_ | _) | _ | _ | _ | _ | _ | _ | _ <;>
        simp only [hk, reduceCtorEq, ↓reduceIte, false_and, and_false, true_and, and_true, or_false,
          false_or, or_true, true_or, CPc.start.injEq, Bool.true_eq_false, Bool.false_eq_true] at h <;>
        step_split h <;>
        simp only [mu, sumW_setT_eq Caller.w hnd hk, Caller.w, CPc.w, sumW_append_single, LPc.w, WPc.w,
          List.length_append, List.length_singleton] at hle ⊢ <;> omega
  case cAbandon c =>
    cases hk : s.callers.lookup c with
    | none => simp [hk] at h
    | some k =>
      have hle := le_sumW Caller.w hk
      obtain ⟨run, wt, wf, pc⟩ := k
      rcases pc with (_ | _) | _ | _ | _ | _ | _ | _ | _ <;>
        simp only [hk, reduceCtorEq, ↓reduceIte, false_and, and_false, true_and, and_true, or_false,
          false_or, or_true, true_or, CPc.start.injEq, Bool.true_eq_false, Bool.false_eq_true] at h <;>
        step_split h <;>
        simp only [mu, sumW_setT_eq Caller.w hnd hk, Caller.w, CPc.w, sumW_append_single, LPc.w, WPc.w,
          List.length_append, List.length_singleton] at hle ⊢ <;> omega
  case cWait c =>
    cases hk : s.callers.lookup c with
    | none => simp [hk] at h
    | some k =>
      have hle := le_sumW Caller.w hk
      obtain ⟨run, wt, wf, pc⟩ := k
      rcases pc with (_ | _) | _ | _ | _ | _ | _ | _ | _ <;>
        simp only [hk, reduceCtorEq, ↓reduceIte, false_and, and_false, true_and, and_true, or_false,
          false_or, or_true, true_or, CPc.start.injEq, Bool.true_eq_false, Bool.false_eq_true] at h <;>
        step_split h <;>
        simp only [mu, sumW_setT_eq Caller.w hnd hk, Caller.w, CPc.w, sumW_append_single, LPc.w, WPc.w,
          List.length_append, List.length_singleton] at hle ⊢ <;> omega
  case cTake c =>
    cases hk : s.callers.lookup c with
    | none => simp [hk] at h
    | some k =>
      have hle := le_sumW Caller.w hk
      obtain ⟨run, wt, wf, pc⟩ := k
      rcases pc with (_ | _) | _ | _ | _ | _ | _ | _ | _ <;>
        simp only [hk, reduceCtorEq, ↓reduceIte, false_and, and_false, true_and, and_true, or_false,
          false_or, or_true, true_or, CPc.start.injEq, Bool.true_eq_false, Bool.false_eq_true] at h <;>
        step_split h <;>
        simp only [mu, sumW_setT_eq Caller.w hnd hk, Caller.w, CPc.w, sumW_append_single, LPc.w, WPc.w,
          List.length_append, List.length_singleton] at hle ⊢ <;> omega
  case cRet c res =>
    cases hk : s.callers.lookup c with
    | none => simp [hk] at h
    | some k =>
      have hle := le_sumW Caller.w hk
      obtain ⟨run, wt, wf, pc⟩ := k
      rcases pc with (_ | _) | _ | _ | _ | _ | _ | _ | _ <;>
        simp only [hk, reduceCtorEq, ↓reduceIte, false_and, and_false, true_and, and_true, or_false,
          false_or, or_true, true_or, CPc.start.injEq, Bool.true_eq_false, Bool.false_eq_true] at h <;>
        step_split h <;>
        simp only [mu, sumW_setT_eq Caller.w hnd hk, Caller.w, CPc.w, sumW_append_single, LPc.w, WPc.w,
          List.length_append, List.length_singleton] at hle ⊢ <;> omega
  case cReadV1 c =>
    cases hk : s.callers.lookup c with
    | none => simp [hk] at h
    | some k =>
      cases hs : s.s2c with
      | nil => simp [hk, hs] at h
      | cons it rest =>
        have hle := le_sumW Caller.w hk
        have hlen : (if it.sticky = true then s.s2c else rest).length ≤ s.s2c.length := by
          rw [hs]; split <;> simp
        obtain ⟨run, wt, wf, pc⟩ := k
        rcases pc with (_ | _) | _ | _ | _ | _ | _ | _ | _ <;>
          simp only [hk, hs, reduceCtorEq, ↓reduceIte] at h <;> step_split h <;>
          simp only [mu, sumW_setT_eq Caller.w hnd hk, Caller.w, CPc.w] at hle ⊢ <;>
          simp only [hs] at hlen ⊢ <;> omega

theorem mu_stepLoop {s s' : State} {l : Label} (hi : InvA s) (h : stepLoop false s l = some s') :
    mu s' < mu s := by
  cases l <;> simp only [stepLoop, Bool.false_eq_true, if_false] at h <;> (try contradiction)
  case lRead t =>
    cases hk : s.loops.lookup t with
    | none => simp [hk] at h
    | some pc =>
      cases hs : s.s2c with
      | nil => simp [hk, hs] at h
      | cons it rest =>
        have hL := eq_singleton_of_lookup hi.len hk
        cases pc <;> simp only [hk, hs, reduceCtorEq] at h <;> (try contradiction)
        injection h with h; subst h
        cases it <;> simp [mu, hL, setT, LPc.w, Item.sticky, hs] <;> omega
  case lDeliver t =>
    cases hk : s.loops.lookup t with
    | none => simp [hk] at h
    | some pc =>
      have hL := eq_singleton_of_lookup hi.len hk
      cases pc <;> simp only [hk, reduceCtorEq] at h <;> (try contradiction)
      rename_i om
      cases om with
      | none =>
        injection h with h; subst h
        simp [mu, hL, delT, LPc.w]
      | some m =>
        cases m <;> simp only at h <;> step_split h <;> simp [mu, hL, setT, delT, LPc.w] <;> omega
  case lCheck t =>
    cases hk : s.loops.lookup t with
    | none => simp [hk] at h
    | some pc =>
      have hL := eq_singleton_of_lookup hi.len hk
      cases pc <;> simp only [hk, reduceCtorEq] at h <;> (try contradiction)
      step_split h <;> simp [mu, hL, setT, delT, LPc.w] <;> omega
  case lExit t =>
    split at h <;> contradiction

theorem mu_stepRs {s s' : State} {l : Label} (h : stepRs s l = some s') (hin : l.isInput = false) :
    mu s' < mu s := by
  cases l <;> simp only [stepRs] at h <;> (try contradiction)
  all_goals
    step_split h <;> simp_all [mu, RsPc.w] <;> (try split) <;> (try simp) <;> omega

theorem mu_stepCloser {s s' : State} {l : Label} (h : stepCloser s l = some s') (hin : l.isInput = false) :
    mu s' < mu s := by
  cases l <;> simp only [stepCloser] at h <;> (try contradiction)
  all_goals
    step_split h <;> simp_all [mu, ClPc.w] <;> (try omega)
  rename_i hc
  rcases hc with hc | ⟨hc, _⟩ <;> simp [hc]

theorem mu_stepEnv {s s' : State} {l : Label} (h : stepEnv s l = some s') (hin : l.isInput = false) :
    mu s' < mu s := by
  cases l <;> simp only [stepEnv] at h <;> (try contradiction)
  case sRecv =>
    cases hc : s.c2s with
    | nil => simp [hc] at h
    | cons m rest =>
      simp only [hc] at h
      injection h with h; subst h
      cases m <;> simp only [mu, hc, List.length_cons] <;> (try split) <;>
        (try simp only [List.length_append, List.length_singleton]) <;> omega
  case sEnd =>
    step_split h <;> simp_all [mu] <;> omega
  case sSend m =>
    split at h
    · rename_i hc
      have hend := hc.1
      cases m with
      | workDone r x =>
        simp only [srvMay, Bool.and_eq_true, List.contains_iff_mem] at hc
        have := List.length_pos_of_mem hc.2.2
        injection h with h; subst h
        simp only [mu, hend, List.length_append, List.length_singleton, List.length_erase_of_mem hc.2.2]
        omega
      | error r sf vf =>
        cases vf
        · cases sf
          · simp [Label.isInput, Msg.isOwedTerminal] at hin
          · by_cases hr : r = 0
            · simp [Label.isInput, Msg.isOwedTerminal, hr] at hin
            · simp [srvMay, hr] at hc
              have := List.length_pos_of_mem hc.2
              simp only [hr, Bool.false_eq_true, if_false, ne_eq, not_false_eq_true, and_self, if_true] at h
              injection h with h; subst h
              simp only [mu, hend, List.length_append, List.length_singleton,
                List.length_erase_of_mem hc.2]
              omega
        · simp [Label.isInput, Msg.isOwedTerminal] at hin
      | signal r g => simp [Label.isInput, Msg.isOwedTerminal] at hin
      | unknown r => simp [Label.isInput, Msg.isOwedTerminal] at hin
    · contradiction

/-- C06 (5): every step that is not a free input of the application or the peer strictly decreases
    the measure `mu`.  Hence, without further inputs, every run is finite; by `C06_no_stuck` it cannot
    stop while an Execute still waits on a healthy connection. -/
theorem C06_measure_decreases {s s' : State} {l : Label} (hr : Reachable s) (h : Step s l s')
    (hin : l.isInput = false) : mu s' < mu s := by
  have hi := invA_of_reachable hr
  refine h.cases ?_ ?_ ?_ ?_ ?_ ?_ <;> intro _ h'
  · exact mu_stepRs h' hin
  · exact mu_stepCaller hi h' hin
  · exact mu_stepLoop hi h'
  · exact mu_stepWriter hi h' hin
  · exact mu_stepCloser h' hin
  · exact mu_stepEnv h' hin

/- non-vacuity: a concrete instance of the hypotheses of `C06_measure_decreases` -/
example : Reachable (stateAt (repairedTrace.take 12)) ∧
    Step (stateAt (repairedTrace.take 12)) (.lDeliver 10) (stateAt (repairedTrace.take 13)) ∧
    (Label.lDeliver 10).isInput = false ∧
    mu (stateAt (repairedTrace.take 12)) = 15 ∧ mu (stateAt (repairedTrace.take 13)) = 14 :=
  ⟨reachable_stateAt _, by decide, rfl, by decide, by decide⟩

/-- consequence: a run without inputs from a reachable state has at most `mu s` steps -/
theorem C06_progress {s s' : State} {ls : List Label} (hr : Reachable s)
    (hin : ∀ l ∈ ls, l.isInput = false) (hrun : run s ls = some s') :
    ls.length + mu s' ≤ mu s := by
  induction ls generalizing s with
  | nil => simp only [run, runG] at hrun; cases hrun; simp
  | cons l ls ih =>
    simp only [run, runG] at hrun
    cases hst : stepG false s l with
    | none => simp [hst] at hrun
    | some s1 =>
      simp only [hst] at hrun
      have h1 := C06_measure_decreases hr hst (hin l (by simp))
      have h2 := ih (.step hr hst) (fun l' hl' => hin l' (by simp [hl'])) hrun
      simp only [List.length_cons]
      omega

/- non-vacuity: a concrete instance of the hypotheses of `C06_progress` -/
example : Reachable (stateAt (repairedTrace.take 7)) ∧
    (∀ l ∈ (repairedTrace.drop 7).take 8, l.isInput = false) ∧
    run (stateAt (repairedTrace.take 7)) ((repairedTrace.drop 7).take 8) =
      some (stateAt (repairedTrace.take 15)) :=
  ⟨reachable_stateAt _, by decide, by decide⟩

/-! ### axioms used -/

#print axioms C06_inv
#print axioms C06_pending_has_loop
#print axioms C06_no_exiting
#print axioms C06_pinned_lost_wakeup
#print axioms C06_pinned_stuck
#print axioms C06_pinned_stuck_loop
#print axioms C06_pinned_stuck_take
#print axioms C06_repaired_rejects
#print axioms C06_no_stuck
#print axioms C06_once
#print axioms C06_set_from_same_run
#print axioms C06_take_is_entry
#print axioms C06_measure_decreases
#print axioms C06_progress
#print axioms C06_close
#print axioms C06_close_enabled
#print axioms C06_writer_leaves
#print axioms C06_writer_enabled
#print axioms C06_no_spawn_after_done
#print axioms C06_close_final
#print axioms C06_done_iff

end Arca.AtpClient
